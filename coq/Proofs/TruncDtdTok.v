(* TruncDtdTok.v -- C08, truncation, general case, part 1: the DOCTYPE sub-parsers on a prefix
   of the text, and the whole tokenizer with allow_dtd. *)
From Coq Require Import Ascii String.
From Coq Require Import PeanoNat Lia ZifyBool ZifyN ZifyNat.
From RX Require Import Generated.
From RX.Model Require Import Base CharClass Stream Tokenizer.
From RX.Proofs Require Import Tactics OptionsParam BudgetStream BudgetTok TruncStream TruncTok.

(* lia with ZifyBool splits on every boolean equation in the context: drop them first *)
Ltac clear_bools :=
  repeat match goal with
  | H : @eq bool ?l _ |- _ => lazymatch l with is_boundary _ _ => fail | _ => clear H end
  end.
Ltac ng_branch ::= right; clear_bools; ng_done.

Section DtdStream.
Variable text : bytes.
Variable n : N.
Hypothesis Hn : n <= tlen text.
Hypothesis Hbn : is_boundary text n = true.

Notation p := (p text n).
Notation sync := (sync text n).
Notation NG := (NG text n).

Ltac tpos := repeat match goal with E : s_pos ?a = s_pos ?b |- context [s_pos ?a] => rewrite E end.
Ltac tslice :=
  match goal with
  | Hs : sync _ _, H : slice_back _ _ _ = Ok _ |- _ =>
    let H1 := fresh "Hsl" in let H2 := fresh "Hle" in
    destruct (T_slice_back _ _ Hn Hbn _ _ _ _ Hs H) as [H1 H2]; tpos; rewrite H1; cbn [bind]
  end.
Ltac txml :=
  match goal with
  | Hle : sl_end ?sl <= n, H : is_xml_str _ ?sl _ = Ok ?u |- _ =>
    destruct u; tpos; rewrite (T_is_xml_str _ _ Hn Hbn _ _ Hle H); cbn [bind]
  end.
Ltac tsb := repeat match goal with
  | Hle : sl_end ?sl <= n |- context [slice_bytes text ?sl] =>
    rewrite <- (T_slice_bytes text n Hn Hbn sl Hle) end.
Ltac tifs := repeat match goal with
  | H : ?b = true |- context [if ?b then _ else _] => rewrite H
  | H : ?b = false |- context [if ?b then _ else _] => rewrite H
  end.
Ltac tcb :=
  match goal with
  | Hs : sync _ _, Hc : curr_byte _ = Ok _ |- _ => rewrite (T_cb _ _ Hn Hbn _ _ _ Hs Hc); cbn [bind]
  end.

Lemma T_consume_bytes f s1 s2 sl s2' : sync s1 s2 -> consume_bytes p f s2 = Ok (sl, s2') ->
  (exists s1', consume_bytes text f s1 = Ok (sl, s1') /\ sync s1' s2') \/ NG (s_pos s2').
Proof.
  intros Hs H. unfold consume_bytes in *. bsteps.
  destruct (T_skip_bytes _ _ Hn Hbn f _ _ Hs) as [Hs'|He]; [|right; apply NG_end; try assumption; lia].
  destruct (T_slice_back _ _ Hn Hbn _ _ _ _ Hs' Hb) as [Hsl _].
  destruct Hs as (_ & _ & E & _). rewrite E, Hsl. cbn [bind]. left. eauto.
Qed.

Lemma T_try_consume_byte c s1 s2 b0 s2' : sync s1 s2 -> try_consume_byte c s2 = (b0, s2') ->
  (exists s1', try_consume_byte c s1 = (b0, s1') /\ sync s1' s2') \/ NG (s_pos s2').
Proof.
  intros Hs H. unfold try_consume_byte in *.
  destruct (curr_byte_opt s2) as [x|] eqn:Ex.
  - rewrite (T_cbo_some _ _ Hn Hbn _ _ _ Hs Ex). destruct (x =? c).
    + destruct (advance 1 s2) as [sa| | |] eqn:Ea.
      * inversion H; subst. destruct (T_advance _ _ Hn Hbn _ _ _ _ Hs Ea) as (t & Hf & Hs'). rewrite Hf. left. eauto.
      * exfalso. unfold advance in Ea. destruct (_ <? _); discriminate.
      * exfalso. unfold curr_byte_opt in Ex. destruct (at_end s2) eqn:Eat; [discriminate|].
        unfold advance in Ea. unfold at_end in Eat. destruct (s_end s2 <? s_pos s2 + 1) eqn:Ec; [lia|discriminate].
      * exfalso. unfold advance in Ea. destruct (_ <? _); discriminate.
    + inversion H; subst. left. eauto.
  - inversion H; subst. right. apply NG_end; try assumption. rewrite (T_cbo_none _ _ Hn Hbn _ _ Hs Ex). lia.
Qed.

(* one more dispatcher: the primitives of the DOCTYPE *)
Ltac tw2 :=
  first [ twstep_s
        | match goal with
          | |- (exists _, ?F = _ /\ _) \/ _ =>
            match F with
            | bind (consume_bytes _ _ _) _ => tb T_consume_bytes
            | bind (slice_back _ _ _) _ => tslice
            | bind (is_xml_str _ _ _) _ => txml
            | bind (curr_byte _) _ => tcb
            | bind (skip_name _ _) _ => tb T_skip_name
            end
          end ].

Lemma sw_or_true s1 s2 a c : sync s1 s2 -> starts_with s2 a || starts_with s2 c = true ->
  starts_with s1 a || starts_with s1 c = true.
Proof.
  intros Hs H. apply orb_true_iff in H. apply orb_true_iff. destruct H as [H|H]; [left|right];
  eapply T_sw_true; eauto.
Qed.

Lemma consume_bytes_end t f s sl s' : consume_bytes t f s = Ok (sl, s') -> sl_end sl <= tlen t.
Proof. unfold consume_bytes, slice_back. intros H. bsteps. eapply mk_slice_end; eauto. Qed.

Lemma T_parse_external_literal s1 s2 s2' : sync s1 s2 -> parse_external_literal p s2 = Ok s2' ->
  (exists s1', parse_external_literal text s1 = Ok s1' /\ sync s1' s2') \/ NG (s_pos s2').
Proof.
  intros Hs H. pose proof Hs as (_ & W2 & _). unfold parse_external_literal in *.
  bsteps.
  match goal with Hc : consume_bytes _ _ _ = Ok _ |- _ =>
    pose proof (consume_bytes_end _ _ _ _ _ Hc) as Hle; rewrite (tlen_p text n Hn Hbn) in Hle end.
  posfacts. cbv zeta. repeat tw2.
  eapply (T_consume_byte text n Hn Hbn); eassumption.
Qed.

Lemma T_parse_pubid_literal s1 s2 s2' : sync s1 s2 -> parse_pubid_literal p s2 = Ok s2' ->
  (exists s1', parse_pubid_literal text s1 = Ok s1' /\ sync s1' s2') \/ NG (s_pos s2').
Proof.
  intros Hs H. pose proof Hs as (_ & W2 & _). unfold parse_pubid_literal in *.
  bsteps. posfacts. cbv zeta. repeat tw2. tifs.
  eapply (T_advance' text n Hn Hbn); eassumption.
Qed.

Ltac tw2x :=
  first [ tw2
        | match goal with
          | |- (exists _, ?F = _ /\ _) \/ _ =>
            match F with
            | bind (parse_external_literal _ _) _ => tb T_parse_external_literal
            | bind (parse_pubid_literal _ _) _ => tb T_parse_pubid_literal
            end
          end ].

Lemma T_parse_external_id s1 s2 f s2' : sync s1 s2 -> parse_external_id p s2 = Ok (f, s2') ->
  (exists s1', parse_external_id text s1 = Ok (f, s1') /\ sync s1' s2') \/ NG (s_pos s2').
Proof.
  intros Hs H. pose proof Hs as (_ & W2 & E0 & _). unfold parse_external_id in *.
  destruct (starts_with s2 (b "SYSTEM") || starts_with s2 (b "PUBLIC")) eqn:Et.
  - rewrite (sw_or_true _ _ _ _ Hs Et). cbv zeta in *. rewrite E0.
    bsteps; posfacts; repeat tw2x; tsb; tifs; repeat tw2x; try tfin.
  - inversion H; subst. apply orb_false_iff in Et. destruct Et as [E1 E2].
    destruct (T_sw_false _ _ Hn Hbn _ _ (b "SYSTEM") Hs ltac:(pat_ok_tac) E1) as [F1|Hng]; [|right; exact Hng].
    destruct (T_sw_false _ _ Hn Hbn _ _ (b "PUBLIC") Hs ltac:(pat_ok_tac) E2) as [F2|Hng]; [|right; exact Hng].
    rewrite F1, F2. cbn [orb]. left. eauto.
Qed.

(* the has_space test of the NDATA branch: it held on the prefix run *)
Ltac tsp :=
  match goal with
  | Hs : sync ?s1 ?s2, H : negb (starts_with_space ?s2) = false |- context [starts_with_space ?s1] =>
    rewrite (T_starts_with_space _ _ Hn Hbn _ _ Hs
               ltac:(destruct (starts_with_space s2); [reflexivity|discriminate H])); cbn [negb]
  end.

Lemma T_parse_entity_def s1 s2 g o s2' : sync s1 s2 -> parse_entity_def p s2 g = Ok (o, s2') ->
  (exists s1', parse_entity_def text s1 g = Ok (o, s1') /\ sync s1' s2') \/ NG (s_pos s2').
Proof.
  intros Hs H. pose proof Hs as (_ & W2 & E0 & _). unfold parse_entity_def in *.
  bsteps; posfacts; cbv zeta; tcb; tifs; cbn [orb]; tifs; repeat tw2;
  try (tb T_parse_external_id; try tsp; repeat tw2); try tfin.
Qed.

(* a cut inside a skipped declaration -- inside a quoted literal or not -- leaves the prefix run
   at the end of the prefix: every iteration of the prefix run is an iteration of the full run *)
Lemma T_consume_decl_loop : forall fuel2 fuel1 s1 s2 s2', (fuel2 <= fuel1)%nat ->
  sync s1 s2 -> consume_decl_loop p fuel2 s2 = Ok s2' ->
  (exists s1', consume_decl_loop text fuel1 s1 = Ok s1' /\ sync s1' s2') \/ NG (s_pos s2').
Proof.
  induction fuel2; intros fuel1 s1 s2 s2' Hfu Hs H; [discriminate|].
  destruct fuel1 as [|fuel1]; [lia|]. pose proof Hs as (_ & W2 & _).
  cbn [consume_decl_loop] in *. cbv zeta in *.
  apply bind_ok in H. destruct H as [c [Hc H]]. cbv beta in H.
  apply bind_ok in H. destruct H as [sa [Ha H]]. cbv beta in H.
  pose proof (mv_skip_bytes _ (fun x => negb (x =? 62) && negb (x =? 34) && negb (x =? 39)) s2 W2) as (Wk & _ & Pk).
  pose proof (mv_advance _ _ _ _ Ha Wk) as (Wa & _ & Pa).
  assert (Hpos : s_pos sa <= s_pos s2').
  { destruct (c =? 62); [inversion H; subst; lia|].
    apply bind_ok in H. destruct H as [sb [Hb H]]. cbv beta in H.
    pose proof (mv_skip_bytes _ (fun y => negb (y =? c)) sa Wa) as (Wq & _ & Pq).
    pose proof (mv_consume_byte _ _ _ _ Hb Wq) as (Wb & _ & Pb).
    pose proof (mv_consume_decl_loop _ _ _ _ H Wb) as (_ & _ & Pc). lia. }
  tsk. tcb. tbe T_advance.
  destruct (c =? 62); [inversion H; subst; tfin|].
  apply bind_ok in H. destruct H as [sb [Hb H]]. cbv beta in H.
  pose proof (mv_skip_bytes _ (fun y => negb (y =? c)) sa Wa) as (Wq & _ & Pq).
  pose proof (mv_consume_byte _ _ _ _ Hb Wq) as (Wb & _ & Pb).
  pose proof (mv_consume_decl_loop _ _ _ _ H Wb) as (_ & _ & Pc).
  tsk. tbe E_consume_byte.
  eapply IHfuel2; [|eassumption|eassumption]. lia.
Qed.

Lemma T_consume_decl s1 s2 s2' : sync s1 s2 -> consume_decl p s2 = Ok s2' ->
  (exists s1', consume_decl text s1 = Ok s1' /\ sync s1' s2') \/ NG (s_pos s2').
Proof.
  intros Hs H. unfold consume_decl in *. eapply T_consume_decl_loop; [|exact Hs|exact H].
  destruct (sync_rest _ _ Hn Hbn _ _ Hs) as [R _]. rewrite R, firstn_length. lia.
Qed.

Lemma T_parse_doctype_start s1 s2 s2' : sync s1 s2 -> parse_doctype_start p s2 = Ok s2' ->
  (exists s1', parse_doctype_start text s1 = Ok s1' /\ sync s1' s2') \/ NG (s_pos s2').
Proof.
  intros Hs H. pose proof Hs as (_ & W2 & _). unfold parse_doctype_start in *.
  bsteps; posfacts; cbv zeta; repeat tw2; tb T_parse_external_id; repeat tw2; tifs; tfin.
Qed.

End DtdStream.

Section DtdTok.
Variable text : bytes.
Variable n : N.
Hypothesis Hn : n <= tlen text.
Hypothesis Hbn : is_boundary text n = true.
Variable C : Type.
Variable ev : token -> C -> res C.
Hypothesis Hign : forall tok c, is_end_tok tok = false -> ev tok c = Ok c.

Notation p := (p text n).
Notation sync := (sync text n).
Notation NG := (NG text n).

Ltac ign :=
  repeat match goal with
  | H : ev ?tok ?c = Ok ?c' |- _ =>
    rewrite (Hign tok c eq_refl) in H; inversion H; subst; clear H
  end.

Ltac tifs := repeat match goal with
  | H : ?b = true |- context [if ?b then _ else _] => rewrite H
  | H : ?b = false |- context [if ?b then _ else _] => rewrite H
  end.

(* positions, as in TruncTok *)
Section Pos.
Variable t : bytes.
Let TI := fun (_ : N) (_ : C) => True.
Lemma TI_mono : forall q q' c, q <= q' -> TI q c -> TI q' c. Proof. intros; exact I. Qed.
Lemma TI_r : forall tok r c c' q, tok_range tok = Some r -> ev tok c = Ok c' -> TI q c -> q <= fst r ->
  fst r < snd r -> TI (snd r) c'. Proof. intros; exact I. Qed.
Lemma TI_0 : forall tok c c' q, tok_range tok = None -> is_decl tok = false -> ev tok c = Ok c' -> TI q c -> TI q c'.
Proof. intros; exact I. Qed.
Lemma TI_e : forall nm v c c' q, ev (TEntityDecl nm v) c = Ok c' -> TI q c -> TI q c'.
Proof. intros; exact I. Qed.

Definition mv_entity_decl s c s' c' (H : parse_entity_decl t C ev s c = Ok (s', c')) (W : wfl t s) :=
  proj1 (tp_parse_entity_decl t C ev TI TI_mono TI_0 TI_e s c s' c' H W I).
Definition mv_doctype_loop fuel st s c s' c' (H : parse_doctype_loop t C ev fuel st s c = Ok (s', c')) (W : wfl t s) :=
  proj1 (tp_parse_doctype_loop t C ev TI TI_mono TI_r TI_0 TI_e fuel st s c s' c' H W I).
Definition mv_doctype s c s' c' (H : parse_doctype t C ev s c = Ok (s', c')) (W : wfl t s) :=
  proj1 (tp_parse_doctype t C ev TI TI_mono TI_r TI_0 TI_e s c s' c' H W I).
End Pos.

Lemma ign_entity_decl t s c s' c' : parse_entity_decl t C ev s c = Ok (s', c') -> c' = c.
Proof. unfold parse_entity_decl. intros H. bsteps; ign; reflexivity. Qed.

Lemma ign_doctype_loop t fuel : forall st s c s' c', parse_doctype_loop t C ev fuel st s c = Ok (s', c') -> c' = c.
Proof.
  induction fuel; intros st s c s' c' H; [discriminate|]. cbn [parse_doctype_loop] in H. bsteps; try reflexivity.
  - apply ign_entity_decl in Hb. subst. eauto.
  - apply (ign_comment C ev Hign) in Hb. subst. eauto.
  - apply (ign_pi C ev Hign) in Hb. subst. eauto.
  - eauto.
Qed.

Lemma ign_doctype t s c s' c' : parse_doctype t C ev s c = Ok (s', c') -> c' = c.
Proof. unfold parse_doctype. intros H. bsteps; try reflexivity. eapply ign_doctype_loop; eauto. Qed.

Ltac tw3 :=
  first [ twstep_s
        | match goal with
          | |- (exists _, ?F = _ /\ _) \/ _ =>
            match F with
            | bind (parse_entity_def _ _ _) _ => tb T_parse_entity_def
            | bind (parse_doctype_start _ _) _ => tb T_parse_doctype_start
            end
          end ].

Lemma X_entity_decl s1 s2 c s2' c2' : sync s1 s2 -> parse_entity_decl p C ev s2 c = Ok (s2', c2') ->
  c2' = c /\
  ((exists s1', parse_entity_decl text C ev s1 c = Ok (s1', c) /\ sync s1' s2') \/ NG (s_pos s2')).
Proof.
  intros Hs H. split; [eapply ign_entity_decl; eauto|]. pose proof Hs as (_ & W2 & _).
  unfold parse_entity_decl in *.
  apply bind_ok in H. destruct H as [sa [Ha H]]. cbv beta in H.
  apply bind_ok in H. destruct H as [sb [Hb H]]. cbv beta in H.
  destruct (try_consume_byte 37 sb) as [pe sc] eqn:Et.
  pose proof (mk_keep _ Et) as Et'.
  bsteps; cbn [negb] in *; try discriminate; ign; posfacts; cbv zeta;
  tbe T_advance; tb T_consume_spaces;
  (match goal with Hs : sync _ _ |- _ =>
     let t' := fresh "t" in let Hf := fresh "Hf" in let Hs' := fresh "Hs" in let Hng := fresh "Hng" in
     destruct (T_try_consume_byte _ _ Hn Hbn _ _ _ _ _ Hs Et') as [(t' & Hf & Hs')|Hng];
     [rewrite Hf; cbv beta iota; clear Hs|right; ng_done] end);
  repeat first [tw3 | progress cbn [negb]]; rewrite ?Hign by reflexivity; cbn [bind];
  repeat first [tw3 | progress cbn [negb]]; try tfin.
Qed.

Lemma sw_or3_true s1 s2 a c d : sync s1 s2 ->
  starts_with s2 a || starts_with s2 c || starts_with s2 d = true ->
  starts_with s1 a || starts_with s1 c || starts_with s1 d = true.
Proof.
  intros Hs H. apply orb_true_iff in H. apply orb_true_iff. destruct H as [H|H].
  - left. eapply sw_or_true; eauto.
  - right. eapply T_sw_true; eauto.
Qed.

Lemma X_doctype_loop : forall fuel2 fuel1 st s1 s2 c s2' c2', (fuel2 <= fuel1)%nat -> sync s1 s2 ->
  parse_doctype_loop p C ev fuel2 st s2 c = Ok (s2', c2') ->
  c2' = c /\
  ((exists s1', parse_doctype_loop text C ev fuel1 st s1 c = Ok (s1', c) /\ sync s1' s2') \/ NG (s_pos s2')).
Proof.
  induction fuel2; intros fuel1 st s1 s2 c s2' c2' Hfu Hs H; [discriminate|].
  split; [eapply ign_doctype_loop; eauto|].
  destruct fuel1 as [|fuel1]; [lia|]. pose proof Hs as (_ & W2 & _).
  pose proof (mv_doctype_loop _ _ _ _ _ _ _ H W2) as (W2' & _ & P2').
  cbn [parse_doctype_loop] in *.
  destruct (at_end s2) eqn:Ea.
  { inversion H; subst. right. apply NG_end; try assumption. rewrite (T_at_end_true _ _ Hn Hbn _ _ Hs Ea). lia. }
  destruct (T_at_end_false _ _ Hn Hbn _ _ Hs Ea) as [-> _].
  pose proof (mv_skip_spaces _ _ W2) as (Wk & _ & Pk).
  cbv zeta in *. cbv iota.
  destruct (starts_with (skip_spaces s2) (b "<!ENTITY")) eqn:E1.
  { apply bind_ok in H. destruct H as [[sa ca] [Ha H]]. cbv beta iota in H.
    pose proof (mv_entity_decl _ _ _ _ _ Ha Wk) as (Wa & _ & Pa).
    pose proof (mv_doctype_loop _ _ _ _ _ _ _ H Wa) as (_ & _ & Pb).
    tsk. tsw.
    destruct (X_entity_decl _ _ _ _ _ Hs0 Ha) as [-> [(s1a & Hfx & Hsa)|Hngx]]; [|right; clear_bools; ng_done].
    rewrite Hfx. cbn [bind]. eapply IHfuel2; eauto. clear - Hfu. lia. }
  destruct (starts_with (skip_spaces s2) (b "<!--")) eqn:E2.
  { apply bind_ok in H. destruct H as [[sa ca] [Ha H]]. cbv beta iota in H.
    pose proof (mv_comment C ev _ _ _ _ _ Ha Wk) as (Wa & _ & Pa).
    pose proof (mv_doctype_loop _ _ _ _ _ _ _ H Wa) as (_ & _ & Pb).
    tsk. tsw. tsw.
    destruct (X_comment _ _ Hn Hbn C ev Hign _ _ _ _ _ Hs0 Ha) as [-> [(s1a & Hfx & Hsa)|Hngx]]; [|right; clear_bools; ng_done].
    rewrite Hfx. cbn [bind]. eapply IHfuel2; eauto. clear - Hfu. lia. }
  destruct (starts_with (skip_spaces s2) (b "<?")) eqn:E3.
  { apply bind_ok in H. destruct H as [[sa ca] [Ha H]]. cbv beta iota in H.
    pose proof (mv_pi C ev _ _ _ _ _ Ha Wk) as (Wa & _ & Pa).
    pose proof (mv_doctype_loop _ _ _ _ _ _ _ H Wa) as (_ & _ & Pb).
    tsk. tsw. tsw. tsw.
    destruct (X_pi _ _ Hn Hbn C ev Hign _ _ _ _ _ Hs0 Ha) as [-> [(s1a & Hfx & Hsa)|Hngx]]; [|right; clear_bools; ng_done].
    rewrite Hfx. cbn [bind]. eapply IHfuel2; eauto. clear - Hfu. lia. }
  destruct (starts_with (skip_spaces s2) (b "]")) eqn:E4.
  { bsteps; posfacts; tsk; tsw; tsw; tsw; tsw; cbv iota.
    tbe T_advance. tsk.
    match goal with Hs : sync _ _, Hc : curr_byte_opt _ = Some _ |- _ =>
      rewrite (T_cbo_some _ _ Hn Hbn _ _ _ Hs Hc) end.
    tifs. tbe T_advance. tfin. }
  destruct (starts_with (skip_spaces s2) (b "<!ELEMENT") || starts_with (skip_spaces s2) (b "<!ATTLIST")
            || starts_with (skip_spaces s2) (b "<!NOTATION")) eqn:E5;
    [|exfalso; eapply err_at_not_ok; eauto].
  destruct (consume_decl p (skip_spaces s2)) as [sa| | |] eqn:Ed; try discriminate;
    [|exfalso; eapply err_from_not_ok; eauto].
  pose proof (mv_consume_decl _ _ _ Ed Wk) as (Wa & _ & Pa).
  pose proof (mv_doctype_loop _ _ _ _ _ _ _ H Wa) as (_ & _ & Pb).
  tsk. tsw. tsw. tsw. tsw.
  rewrite (sw_or3_true _ _ _ _ _ Hs0 E5).
  destruct (T_consume_decl _ _ Hn Hbn _ _ _ Hs0 Ed) as [(s1a & Hfx & Hsa)|Hngx]; [|right; clear_bools; ng_done].
  rewrite Hfx. eapply IHfuel2; eauto. clear - Hfu. lia.
Qed.

Lemma X_doctype s1 s2 c s2' c2' : sync s1 s2 -> parse_doctype p C ev s2 c = Ok (s2', c2') ->
  c2' = c /\
  ((exists s1', parse_doctype text C ev s1 c = Ok (s1', c) /\ sync s1' s2') \/ NG (s_pos s2')).
Proof.
  intros Hs H. split; [eapply ign_doctype; eauto|]. pose proof Hs as (_ & W2 & E0 & _).
  unfold parse_doctype in *. cbv zeta in *. rewrite E0.
  apply bind_ok in H. destruct H as [sa [Ha H]]. cbv beta in H.
  pose proof (mv_parse_doctype_start _ _ _ Ha W2) as (Wa & _ & Pa).
  pose proof (mv_skip_spaces _ _ Wa) as (Wk & _ & Pk).
  assert (Hpos : s_pos (skip_spaces sa) <= s_pos s2').
  { destruct (match curr_byte_opt (skip_spaces sa) with Some x => x =? 62 | None => false end).
    - apply bind_ok in H. destruct H as [sb [Hb H]]. inversion H; subst.
      pose proof (mv_advance _ _ _ _ Hb Wk) as (_ & _ & ?). lia.
    - apply bind_ok in H. destruct H as [sb [Hb H]]. cbv beta in H.
      pose proof (mv_advance _ _ _ _ Hb Wk) as (Wb & _ & ?).
      pose proof (mv_doctype_loop _ _ _ _ _ _ _ H Wb) as (_ & _ & ?). lia. }
  destruct (T_parse_doctype_start _ _ Hn Hbn _ _ _ Hs Ha) as [(s1a & Hf & Hsa)|Hng];
    [|right; clear_bools; ng_done].
  rewrite Hf. cbn [bind].
  destruct (T_skip_spaces _ _ Hn Hbn _ _ Hsa) as [Hsk|Hend]; [|right; apply NG_end; try assumption; lia].
  destruct (curr_byte_opt (skip_spaces sa)) as [x|] eqn:Ex.
  - rewrite (T_cbo_some _ _ Hn Hbn _ _ _ Hsk Ex). destruct (x =? 62).
    + apply bind_ok in H. destruct H as [sb [Hb H]]. inversion H; subst.
      destruct (T_advance _ _ Hn Hbn _ _ _ _ Hsk Hb) as (s1b & Hfb & Hsb). rewrite Hfb. cbn [bind]. left. eauto.
    + apply bind_ok in H. destruct H as [sb [Hb H]]. cbv beta in H.
      destruct (T_advance _ _ Hn Hbn _ _ _ _ Hsk Hb) as (s1b & Hfb & Hsb). rewrite Hfb. cbn [bind].
      eapply (X_doctype_loop _ (S (length (s_rest s1b)))) in H; [ | | exact Hsb].
      * destruct H as [_ H]. exact H.
      * destruct (sync_rest _ _ Hn Hbn _ _ Hsb) as [R _]. rewrite R, firstn_length. lia.
  - right. apply NG_end; try assumption. rewrite <- (T_cbo_none _ _ Hn Hbn _ _ Hsk Ex). exact Hpos.
Qed.

(** * The whole tokenizer, with either value of allow_dtd *)

Definition doc_tail_d (t : bytes) (dtd : bool) (s : stream) (c : C) : res C :=
  let s := skip_spaces s in
  let! (s, c) :=
    if starts_with s (b "<!DOCTYPE") then
      if negb dtd then Err DtdDetected
      else let! (s, c) := parse_doctype t C ev s c in parse_misc t C ev s c
    else Ok (s, c) in
  doc_root C ev t (skip_spaces s) c.

Lemma parse_document_cut_d t dtd c :
  parse_document t C ev dtd c = let! (s, c) := doc_head C ev t c in doc_tail_d t dtd s c.
Proof.
  unfold parse_document, doc_head, doc_tail_d, doc_root. cbv zeta.
  destruct (if starts_with (stream_new t) [239; 187; 191] then _ else _); cbn [bind]; try reflexivity.
  destruct (if starts_with_declaration a then _ else _); cbn [bind]; try reflexivity.
Qed.

Ltac pass_cd :=
  let I := fresh "I" in let HI := fresh "HI" in let Hc := fresh "Hc" in let Hr := fresh "Hr" in
  intros I HI Hc ? Hr; usteps;
  repeat first [ fw (u_parse_element text C ev I HI) | fw (u_parse_misc text C ev I HI)
               | fw (u_parse_content text C ev I HI) | fw (u_parse_doctype text C ev I HI) ];
  try assumption.

(* the truncated run after the head: where the root part starts *)
Lemma tail_d_inv dtd s c c' : doc_tail_d p dtd s c = Ok c' -> wfl p s ->
  exists sd, wfl p sd /\ s_pos s <= s_pos sd /\ doc_root C ev p (skip_spaces sd) c = Ok c'.
Proof.
  intros H W. unfold doc_tail_d in H. cbv zeta in H.
  pose proof (mv_skip_spaces _ _ W) as (W1 & _ & P1).
  apply bind_ok in H. destruct H as [[sd cd] [Hd H]]. cbv beta iota in H.
  destruct (starts_with (skip_spaces s) (b "<!DOCTYPE")).
  - destruct (negb dtd); [discriminate|].
    apply bind_ok in Hd. destruct Hd as [[sa ca] [Ha Hd]]. cbv beta iota in Hd.
    pose proof (ign_doctype _ _ _ _ _ Ha). subst ca.
    pose proof (ign_misc C ev Hign _ _ _ _ _ Hd). subst cd.
    pose proof (mv_doctype _ _ _ _ _ Ha W1) as (Wa & _ & Pa).
    pose proof (mv_misc_loop C ev _ _ _ _ _ _ Hd Wa) as (Wd & _ & Pd).
    exists sd. split; [exact Wd|]. split; [lia|exact H].
  - inversion Hd; subst. exists (skip_spaces s). split; [exact W1|]. split; [lia|exact H].
Qed.

Lemma NG_tail_d dtd s c c' : wfl p s -> NG (s_pos s) -> doc_tail_d p dtd s c = Ok c' -> c' = c.
Proof.
  intros W Hng H. destruct (tail_d_inv _ _ _ _ H W) as (sd & Wd & Pd & Hr).
  pose proof (mv_skip_spaces _ _ Wd) as (W2 & _ & P2).
  eapply (NG_root text n Hn Hbn C ev Hign); [exact W2| |exact Hr]. ng_done.
Qed.

Lemma X_tail_d dtd s1 s2 c c2' : sync s1 s2 -> doc_tail_d p dtd s2 c = Ok c2' ->
  Pass_c C ev c2' (doc_tail_d text dtd s1 c).
Proof.
  intros Hs H. pose proof Hs as (_ & W2 & _).
  pose proof (mv_skip_spaces _ _ W2) as (W3 & _ & P3).
  unfold doc_tail_d in H. cbv zeta in H.
  apply bind_ok in H. destruct H as [[sd cd] [Hd H]]. cbv beta iota in H.
  (* lost before the root part: the state did not move *)
  assert (Hlost : wfl p sd -> forall q, NG q -> q <= s_pos (skip_spaces sd) -> cd = c -> c2' = c).
  { intros Wd q Hng Hq Hcd. subst cd. pose proof (mv_skip_spaces _ _ Wd) as (W4 & _ & P4).
    eapply (NG_root text n Hn Hbn C ev Hign); [exact W4| |exact H]. ng_done. }
  unfold doc_tail_d. cbv zeta.
  destruct (starts_with (skip_spaces s2) (b "<!DOCTYPE")) eqn:Ed.
  - destruct dtd; cbn [negb] in *; [|discriminate].
    apply bind_ok in Hd. destruct Hd as [[sa ca] [Ha Hd]]. cbv beta iota in Hd.
    pose proof (ign_doctype _ _ _ _ _ Ha). subst ca.
    pose proof (ign_misc C ev Hign _ _ _ _ _ Hd). subst cd.
    pose proof (mv_doctype _ _ _ _ _ Ha W3) as (Wa & _ & Pa).
    pose proof (mv_misc_loop C ev _ _ _ _ _ _ Hd Wa) as (Wd & _ & Pd).
    pose proof (mv_skip_spaces _ _ Wd) as (W4 & _ & P4).
    specialize (Hlost Wd).
    destruct (T_skip_spaces _ _ Hn Hbn _ _ Hs) as [Hs1|Hend].
    2: { assert (HNG : NG (s_pos (skip_spaces s2))) by (apply NG_end; try assumption; lia).
         rewrite (Hlost _ HNG ltac:(lia) eq_refl). unfold doc_root. pass_cd. }
    rewrite (T_sw_true _ _ Hn Hbn _ _ _ Hs1 Ed).
    destruct (X_doctype _ _ _ _ _ Hs1 Ha) as [_ [(s1a & Hfa & Hsa)|Hng]].
    2: { rewrite (Hlost _ Hng ltac:(lia) eq_refl). unfold doc_root. pass_cd. }
    rewrite Hfa. cbn [bind].
    destruct (X_misc _ _ Hn Hbn C ev Hign _ _ _ _ _ Hsa Hd) as [_ [(s1d & Hfd & Hsd)|Hng]].
    2: { rewrite (Hlost _ Hng ltac:(lia) eq_refl). unfold doc_root. pass_cd. }
    rewrite Hfd. cbn [bind].
    destruct (T_skip_spaces _ _ Hn Hbn _ _ Hsd) as [Hs2|Hend].
    2: { assert (Hc : c2' = c).
         { eapply (NG_root text n Hn Hbn C ev Hign); [exact W4| |exact H]. apply NG_end; try assumption. lia. }
         rewrite Hc. unfold doc_root. pass_cd. }
    eapply (X_root text n Hn Hbn C ev Hign); eauto.
  - inversion Hd; subst sd cd. specialize (Hlost W3).
    pose proof (mv_skip_spaces _ _ W3) as (W4 & _ & P4).
    destruct (T_skip_spaces _ _ Hn Hbn _ _ Hs) as [Hs1|Hend].
    2: { assert (HNG : NG (s_pos (skip_spaces s2))) by (apply NG_end; try assumption; lia).
         rewrite (Hlost _ HNG ltac:(lia) eq_refl). unfold doc_root. pass_cd. }
    destruct (T_sw_false _ _ Hn Hbn _ _ (b "<!DOCTYPE") Hs1 ltac:(pat_ok_tac) Ed) as [Hf|Hng].
    2: { rewrite (Hlost _ Hng ltac:(lia) eq_refl). unfold doc_root. pass_cd. }
    rewrite Hf. cbn [bind].
    destruct (T_skip_spaces _ _ Hn Hbn _ _ Hs1) as [Hs2|Hend].
    2: { assert (Hc : c2' = c).
         { eapply (NG_root text n Hn Hbn C ev Hign); [exact W4| |exact H]. apply NG_end; try assumption. lia. }
         rewrite Hc. unfold doc_root. pass_cd. }
    eapply (X_root text n Hn Hbn C ev Hign); eauto.
Qed.

(* the truncated run of the whole tokenizer ends in a state that the full run passes through *)
Theorem X_document_d dtd c c2' : parse_document p C ev dtd c = Ok c2' ->
  Pass_c C ev c2' (parse_document text C ev dtd c).
Proof.
  intros H. rewrite parse_document_cut_d in H.
  apply bind_ok in H. destruct H as [[s2 ch] [Hh H]]. cbv beta iota in H.
  destruct (X_head text n Hn Hbn C ev Hign _ _ _ Hh) as [-> [(s1 & Hf & Hs)|Hng]].
  - rewrite parse_document_cut_d, Hf. cbn [bind]. eapply X_tail_d; eauto.
  - assert (W : wfl p s2).
    { unfold doc_head in Hh. cbv zeta in Hh.
      apply bind_ok in Hh. destruct Hh as [sa [Ha Hh]]. apply bind_ok in Hh. destruct Hh as [sb [Hb Hh]].
      pose proof (wfl_new p) as W0.
      assert (Wa : wfl p sa).
      { destruct (starts_with (stream_new p) [239; 187; 191]).
        - pose proof (mv_advance _ _ _ _ Ha W0) as (? & ? & ?). assumption.
        - inversion Ha; subst. assumption. }
      assert (Wb : wfl p sb).
      { destruct (starts_with_declaration sa).
        - pose proof (mv_parse_declaration _ _ _ Hb Wa) as (? & ? & ?). assumption.
        - inversion Hb; subst. assumption. }
      exact (proj1 (mv_misc_loop C ev _ _ _ _ _ _ Hh Wb)). }
    rewrite (NG_tail_d _ _ _ _ W Hng H).
    intros I HI Hc c1 Hr. eapply (u_parse_document text C ev I HI); eauto.
Qed.

End DtdTok.
