(* Proofs/CstUMain.v -- the main theorems for the Unicode fragment Spec/CstU.v.

   A well-formed Unicode document c (names over NameStartChar/NameChar minus ':', character data over
   Char minus CR and the excluded delimiters; no namespaces, no references) renders to a valid UTF-8 byte
   string (render_valid_utf8); the parser accepts the rendering and the arena it builds, read back through
   the same `view` as in Proofs/CstMain.v, is exactly the meaning `CstU.sem c` (parse_render_sem_u);
   hence layout does not matter (layout_insensitive_u).

   The size hypotheses are those of Proofs/CstMain.v (see the remarks there: they are necessary):
     - the node limit of the options leaves room for all nodes of the meaning plus the Root node;
     - the rendering is at most u32::MAX bytes long. *)
From Coq Require Import Ascii String.
From Coq Require Import List NArith PeanoNat Bool Lia ZifyBool ZifyN ZifyNat.
Import ListNotations.
From RX Require Import Generated.
From RX.Model Require Import Base CharClass Stream Tokenizer Doc Builder Parse.
From RX.Spec Require Cst CstU.
From RX.Spec Require Tree.
From RX.Proofs Require Import Tactics CstLex CstBuild CstTree CstItems CstDoc CstMain.
From RX.Proofs Require Import CstULex CstUBuild CstUItems CstUDoc.
From RX.Proofs Require KeystoneEnc KeystoneBuilder KeystoneParse CstFinal.
Open Scope N_scope.

(* ------------------------------------------------------------------------------------------ *)
(* the rendering is valid UTF-8                                                               *)
(* ------------------------------------------------------------------------------------------ *)

Theorem render_valid_utf8 : forall c, CstU.wf_doc c = true -> valid_utf8_b (CstU.render c) = true.
Proof. intros c H. apply U8.valid_iff_Valid. apply render_valid. exact H. Qed.
Print Assumptions render_valid_utf8.

(* ------------------------------------------------------------------------------------------ *)
(* the theorem with the exact bounds                                                          *)
(* ------------------------------------------------------------------------------------------ *)

Definition udoc_nattrs (c : Cst.doc) : nat := nattrs (enc_item (Cst.d_root c)).

Lemma nsizes_udoc c : nsizes (doc_items (CstU.enc_doc c)) = N.of_nat (length (CstU.sem c)).
Proof. unfold CstU.sem. apply nsizes_doc. Qed.

Theorem parse_render_sem_u_bounded : forall (c : Cst.doc) (opt : options),
  CstU.wf_doc c = true ->
  N.of_nat (length (CstU.sem c)) < nodes_limit opt ->
  N.of_nat (length (CstU.sem c)) < u32_max ->
  N.of_nat (udoc_nattrs c) < u32_max ->
  exists d, parse (CstU.render c) opt = Ok d /\
            view (CstU.render c) d = CstU.sem c /\
            (forall nd ns local ar nss, In nd (d_nodes d) -> nd_kind nd = KElement ns local ar nss -> ns = None) /\
            (forall a, In a (d_attrs d) -> ad_ns_idx a = None).
Proof.
  intros c opt Hwf Hlim Hmax Hattr. set (text := CstU.render c).
  destruct (parse_document_ok_u c (allow_dtd opt) (init_ctx text opt) Hwf (init_ctx_CI text opt) eq_refl)
    as (cf & K & ext & E & S & I & F).
  { unfold node_room. rewrite nsizes_udoc. cbn [init_ctx c_doc d_nodes c_opt]. unfold len_N. cbn [length]. lia. }
  { unfold attr_room. fold (udoc_nattrs c). cbn [init_ctx c_doc d_attrs]. change (len_N []) with 0. lia. }
  fold text in E, F. cbn [c_parent_id init_ctx c_doc d_nodes] in F. change (len_N [_]) with 1 in F.
  destruct S as (S0 & _ & Hpp). cbn [c_parent_prefixes init_ctx] in Hpp.
  assert (Habs : absn (c_doc cf) = (None, KRoot) :: K) by (rewrite (s_nodes _ _ _ _ S0); reflexivity).
  set (d := c_doc cf) in *.
  destruct (d_nodes d) as [|rootnd nodes] eqn:En; [unfold absn in Habs; rewrite En in Habs; discriminate|].
  unfold absn in Habs. rewrite En in Habs. cbn [map] in Habs. injection Habs as Hp0 Hk0 HK.
  set (ec := CstU.enc_doc c) in *.
  set (T := tag_list 0 1 (doc_items ec)) in *.
  assert (HlenK : length K = length T).
  { clear - F. induction F; cbn [length]; lia. }
  assert (HlenT : N.of_nat (length T) = N.of_nat (length (CstU.sem c))).
  { unfold T. rewrite tag_list_len. apply nsizes_udoc. }
  assert (Hlen : len_N (d_nodes d) = 1 + N.of_nat (length (CstU.sem c))).
  { rewrite En. unfold len_N. cbn [length]. rewrite <- HK in HlenK. rewrite map_length in HlenK. lia. }
  (* the arena is the encoding of a tree *)
  assert (HP : KeystoneBuilder.P cf).
  { eapply (KeystoneParse.parse_document_Q text context (Parse.token text) KeystoneBuilder.P).
    - intros tok x x'. apply KeystoneParse.token_P.
    - exists Tree.KdRoot, [], []. apply (KeystoneParse.init_context_Inv text opt). apply init_context_eq.
    - exact E. }
  destruct HP as (k & cs & outer & Inv).
  pose proof (KeystoneBuilder.inv_pp _ _ _ _ Inv) as Ipp. rewrite Hpp in Ipp. cbn [length] in Ipp.
  destruct outer as [|o outer]; [|cbn [length] in Ipp; lia].
  pose proof (KeystoneBuilder.inv_kinds _ _ _ _ Inv) as Ik. cbn [KeystoneBuilder.kinds_ok] in Ik. subst k.
  pose proof (KeystoneBuilder.inv_rows _ _ _ _ Inv) as Irows.
  unfold KeystoneEnc.ztree in Irows. cbn [KeystoneEnc.plug] in Irows.
  (* the root element is a child of the Root node *)
  destruct (uwf_doc_parts c Hwf) as [_ _ _ (name0 & attrs0 & ws & body0 & Er0) _ _].
  assert (Er : exists name attrs body, Cst.d_root ec = Cst.IElem name attrs ws body).
  { unfold ec. cbn [CstU.enc_doc Cst.d_root]. rewrite Er0, enc_item_elem. eauto. }
  destruct Er as (name & attrs & body & Er).
  set (k0 := length (tag_list 0 1 (map fst (Cst.d_before ec)))).
  assert (HT0 : exists m, nth_error T k0 = Some (0, Cst.VElem name (eattrs attrs) m)).
  { unfold T, doc_items. rewrite tag_list_app. unfold k0. rewrite nth_error_app2 by lia.
    rewrite Nat.sub_diag. cbn [tag_list]. rewrite Er.
    destruct body as [[cs0 w2]|]; [rewrite tag_elem|cbn [tag]]; cbn [app nth_error]; eauto. }
  destruct HT0 as (m & HT0).
  destruct (Forall2_nth_r _ _ _ F _ _ HT0) as (rw & Hrw & Hkm).
  rewrite <- HK in Hrw. apply nth_error_map_inv in Hrw. destruct Hrw as (nd0 & Hnd0 & Eabs).
  destruct Hkm as [Hpar Hkind]. rewrite <- Eabs in Hpar, Hkind. cbn [abs_nd fst snd] in Hpar, Hkind.
  assert (Hel : is_element_kind (nd_kind nd0) = true) by (destruct (nd_kind nd0); try contradiction; reflexivity).
  destruct (CstFinal.root_has_element d cs (N.of_nat (S k0)) nd0) as (it & Eit & Eany).
  { exact Irows. }
  { rewrite Hlen. unfold u32_max in Hmax. lia. }
  { rewrite Nat2N.id, En. cbn [nth_error]. exact Hnd0. }
  { exact Hpar. }
  { exact Hel. }
  exists d. split; [|split; [|split]].
  - unfold parse. rewrite init_context_eq. cbn [bind]. unfold tok_ev in E. rewrite E. cbn [bind].
    fold d. rewrite Eit. cbn [bind]. rewrite Eany. cbn [bind negb]. rewrite Hpp. reflexivity.
  - unfold view. rewrite En. cbn [view_from]. unfold view_node. rewrite Hk0.
    change (0 + 1) with 1.
    rewrite (view_from_rows text d nodes T 1).
    + unfold T. rewrite tag_list_sem. symmetry. unfold CstU.sem. apply sem_doc_items.
    + rewrite HK. exact F.
    + intros k q v Hk. rewrite (tag_list_counts _ 0 1 ltac:(lia) k q v Hk). fold T.
      unfold children_count. rewrite En. cbn [filter].
      rewrite Hp0.
      apply eq_sym. apply (count_rows text (d_attrs d)). rewrite HK. exact F.
  - intros nd ns local ar nss Hin Hk. rewrite En in Hin. destruct Hin as [<-|Hin].
    + congruence.
    + apply (in_map abs_nd) in Hin. rewrite HK in Hin.
      destruct (Forall2_In_l _ _ _ F _ Hin) as ([q v] & _ & _ & Hkm').
      cbn [abs_nd snd] in Hkm'. rewrite Hk in Hkm'. destruct v; try contradiction. apply Hkm'.
  - intros a Ha. pose proof (ci_attrs _ I) as HF. rewrite Forall_forall in HF. apply HF. exact Ha.
Qed.
Print Assumptions parse_render_sem_u_bounded.

(* ------------------------------------------------------------------------------------------ *)
(* the bounds follow from "the input is at most u32::MAX bytes long"                           *)
(* ------------------------------------------------------------------------------------------ *)

Lemma sem_le_render_u : forall i, CstU.wf_item i = true ->
  (length (Cst.sem_item (enc_item i)) + (if is_elem i then 1 else 0) <= length (Cst.r_item (enc_item i)))%nat /\
  (nattrs (enc_item i) + (if is_elem i then 1 else 0) <= length (Cst.r_item (enc_item i)))%nat.
Proof.
  intros i. induction i as [n a w|n a w cs w2 IH|bs|bs|t s v] using item_ind'; intros Hwf.
  - rewrite enc_item_elem, r_item_elem, sem_item_elem, nattrs_elem, !app_length. cbn [length is_elem].
    pose proof (flat_attr_len (map enc_attr a)). lia.
  - destruct (uwf_elem_parts _ _ _ _ Hwf) as (_ & _ & _ & _ & _ & _ & _ & Hcs).
    rewrite enc_item_elem, r_item_elem, sem_item_elem, nattrs_elem, !app_length. cbn [length is_elem].
    assert (G : (length (sem_items (enc_items cs)) <= length (r_items (enc_items cs)) /\
                 nattrs_items (enc_items cs) <= length (r_items (enc_items cs)))%nat).
    { clear - IH Hcs. induction IH as [|c r Hc _ IHr]; [cbn; lia|].
      cbn [uwf_items] in Hcs. apply andb_true_iff in Hcs. destruct Hcs as [H1 H2].
      cbn [enc_items sem_items r_items nattrs_items]. rewrite !app_length.
      destruct (Hc H1) as [A1 A2]. destruct (IHr H2) as [B1 B2]. clear - A1 A2 B1 B2. lia. }
    pose proof (flat_attr_len (map enc_attr a)). clear - G H. lia.
  - destruct (uwf_text _ Hwf) as (_ & Hne & _). destruct bs as [|x bs]; [congruence|].
    cbn [CstU.enc_item Cst.r_item Cst.sem_item nattrs is_elem length].
    pose proof (utf8s_len_le (x :: bs)). cbn [length] in H. clear - H. lia.
  - cbn [CstU.enc_item Cst.r_item Cst.sem_item nattrs is_elem]. rewrite !app_length. cbn [length]. lia.
  - cbn [CstU.enc_item Cst.r_item Cst.sem_item nattrs is_elem]. rewrite !app_length. cbn [length]. lia.
Qed.

Lemma upairs_sem_le l : uwf_pairs l = true ->
  (length (sem_items (map snd (enc_pairs l))) <= length (r_pairs (enc_pairs l)))%nat.
Proof.
  induction l as [|[w i] r IH]; intros H; [cbn; lia|]. cbn [uwf_pairs forallb fst snd] in H.
  rewrite !andb_true_iff in H. destruct H as [[[H1 H2] H3] H4].
  cbn [enc_pairs map snd sem_items r_pairs flat_map fst]. rewrite !app_length. specialize (IH H4).
  unfold r_pairs, enc_pairs in IH. destruct (sem_le_render_u i H3) as [A _]. clear - IH A. lia.
Qed.

Lemma render_bounds_u c : CstU.wf_doc c = true ->
  (length (CstU.sem c) < length (CstU.render c))%nat /\ (udoc_nattrs c < length (CstU.render c))%nat.
Proof.
  intros Hwf. pose proof (uwf_doc_parts c Hwf) as [H1 H2 H3 (name & attrs & ws & body & Er) H5 H6].
  destruct (regroup_uwf _ _ H1 H3) as [R1 _].
  rewrite render_shape_u. unfold CstU.sem. rewrite sem_doc_items, doc_items_u. unfold udoc_nattrs.
  rewrite sem_items_app. cbn [sem_items]. rewrite !app_length.
  pose proof (upairs_sem_le _ R1). pose proof (upairs_sem_le _ H6).
  destruct (sem_le_render_u _ H5) as [A1 A2]. rewrite Er in A1, A2 |- *. cbn [is_elem] in A1, A2.
  clear - H H0 A1 A2. lia.
Qed.

(* ------------------------------------------------------------------------------------------ *)
(* main theorems                                                                              *)
(* ------------------------------------------------------------------------------------------ *)

Theorem parse_render_sem_u : forall (c : Cst.doc) (opt : options),
  CstU.wf_doc c = true ->
  N.of_nat (length (CstU.sem c)) < nodes_limit opt ->          (* room for all nodes + the Root *)
  N.of_nat (length (CstU.render c)) <= u32_max ->               (* the input is at most u32::MAX bytes long *)
  exists d, parse (CstU.render c) opt = Ok d /\
            view (CstU.render c) d = CstU.sem c /\
            (* no namespaces in this fragment *)
            (forall nd ns local ar nss, In nd (d_nodes d) -> nd_kind nd = KElement ns local ar nss -> ns = None) /\
            (forall a, In a (d_attrs d) -> ad_ns_idx a = None).
Proof.
  intros c opt Hwf Hlim Hsz. destruct (render_bounds_u c Hwf) as [B1 B2].
  apply parse_render_sem_u_bounded; [exact Hwf|exact Hlim|lia|lia].
Qed.
Print Assumptions parse_render_sem_u.

Theorem layout_insensitive_u : forall c1 c2 opt,
  CstU.wf_doc c1 = true -> CstU.wf_doc c2 = true -> CstU.sem c1 = CstU.sem c2 ->
  N.of_nat (length (CstU.sem c1)) < nodes_limit opt ->
  N.of_nat (length (CstU.render c1)) <= u32_max -> N.of_nat (length (CstU.render c2)) <= u32_max ->
  exists d1 d2, parse (CstU.render c1) opt = Ok d1 /\ parse (CstU.render c2) opt = Ok d2 /\
                view (CstU.render c1) d1 = view (CstU.render c2) d2.
Proof.
  intros c1 c2 opt W1 W2 E L S1 S2.
  destruct (parse_render_sem_u c1 opt W1 L S1) as (d1 & P1 & V1 & _).
  destruct (parse_render_sem_u c2 opt W2 ltac:(rewrite <- E; exact L) S2) as (d2 & P2 & V2 & _).
  exists d1, d2. split; [exact P1|]. split; [exact P2|]. rewrite V1, V2. exact E.
Qed.
Print Assumptions layout_insensitive_u.

(* ------------------------------------------------------------------------------------------ *)
(* the hypotheses are satisfiable (the theorems are not vacuous)                               *)
(* ------------------------------------------------------------------------------------------ *)

(* <é 名="𐀀€">ü<!--ß--><b/></é>  followed by a line feed *)
Definition ex_u : Cst.doc :=
  {| Cst.d_before := []; Cst.d_ws0 := [];
     Cst.d_root := Cst.IElem [233]
       [{| Cst.a_ws := [32]; Cst.a_name := [21517]; Cst.a_ws1 := []; Cst.a_ws2 := []; Cst.a_quote := 34;
           Cst.a_value := [65536; 8364] |}] []
       (Some ([Cst.IText [252]; Cst.IComment [223]; Cst.IElem [98] [] [] None], []));
     Cst.d_after := []; Cst.d_ws_end := [10] |}.

Example ex_u_hyps :
  CstU.wf_doc ex_u = true /\
  N.of_nat (length (CstU.sem ex_u)) < nodes_limit default_options /\
  N.of_nat (length (CstU.render ex_u)) <= u32_max /\
  existsb (fun x => 128 <=? x) (CstU.render ex_u) = true.
Proof. vm_compute. repeat split; congruence. Qed.

Example ex_u_parses : exists d, parse (CstU.render ex_u) default_options = Ok d /\
                                view (CstU.render ex_u) d = CstU.sem ex_u.
Proof.
  destruct ex_u_hyps as (H1 & H2 & H3 & _).
  destruct (parse_render_sem_u ex_u default_options H1 H2 H3) as (d & P & V & _). eauto.
Qed.
