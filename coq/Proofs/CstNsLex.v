(* Proofs/CstNsLex.v -- C06, lexer completeness for qualified names and for the start-tag entries
   (attributes and namespace declarations) of Spec/CstNs.v.  The stream primitives and the
   productions without names (comments, PIs, text) are those of Proofs/CstLex.v. *)
From Coq Require Import Ascii String.
From Coq Require Import List NArith PeanoNat Bool Lia ZifyBool ZifyN ZifyNat.
Import ListNotations.
From RX Require Import Generated.
From RX.Model Require Import Base CharClass Stream Tokenizer.
From RX.Spec Require Cst Scope CstNs.
From RX.Proofs Require Import CstLex.
Open Scope N_scope.

Import CstNs.

(* a declaration is lexically an attribute named xmlns or xmlns:prefix *)
Definition e_qname (e : entry) : qname :=
  match e with
  | EAttr _ n _ => n
  | EDecl _ [] _ => {| q_prefix := []; q_local := xmlns_b |}
  | EDecl _ p _ => {| q_prefix := xmlns_b; q_local := p |}
  end.

Lemma e_name_qname e : e_name e = r_qname (e_qname e).
Proof. destruct e as [l n v|l [|x p] u]; reflexivity. Qed.

(* offset of the local part inside the rendered qualified name *)
Definition q_off (q : qname) : N := match q_prefix q with [] => 0 | p => blen p + 1 end.

Lemma r_qname_len q : blen (r_qname q) = q_off q + blen (q_local q).
Proof.
  unfold r_qname, q_off. destruct (q_prefix q) as [|x p]; [lia|].
  rewrite !blen_app. change (blen [58]) with 1. lia.
Qed.

Lemma wf_qname_parts q : wf_qname q = true ->
  (q_prefix q = [] \/ Cst.wf_name (q_prefix q) = true) /\ Cst.wf_name (q_local q) = true.
Proof.
  unfold wf_qname. intros H. apply andb_true_iff in H. destruct H as [H1 H2]. split; [|exact H2].
  destruct (q_prefix q); [left; reflexivity|right; exact H1].
Qed.

Lemma wf_name_chars n : Cst.wf_name n = true ->
  exists c x, n = c :: x /\ Cst.is_name_start c = true /\ forallb Cst.is_name_char (c :: x) = true.
Proof.
  destruct n as [|c x]; [discriminate|]. cbn [Cst.wf_name]. intros H. apply andb_true_iff in H.
  destruct H as [H1 H2]. exists c, x. split; [reflexivity|]. split; [exact H1|].
  cbn [forallb]. rewrite (name_start_char _ H1), H2. reflexivity.
Qed.

Section Lex.
Variable text : bytes.
Hypothesis Hascii : Forall (fun x => x < 128) text.

Notation st := (CstLex.st text).
Notation W := (CstLex.W text).

Lemma qname_chars start spl : forall x p l fuel, W p (x ++ l) ->
  forallb Cst.is_name_char x = true ->
  consume_qname_loop text (length x + fuel) start spl (st p (x ++ l)) =
  consume_qname_loop text fuel start spl (st (p + blen x) l).
Proof.
  induction x as [|c x IH]; intros p l fuel HW Hx.
  - cbn [app length Nat.add]. rewrite blen_nil, N.add_0_r. reflexivity.
  - cbn [app length Nat.add] in *.
    cbn [forallb] in Hx. apply andb_true_iff in Hx. destruct Hx as [Hc Hx].
    destruct (name_char_byte _ Hc) as (H1 & H2 & H3).
    cbn [consume_qname_loop]. rewrite at_end_st by exact HW.
    cbn [curr_byte_unchecked CstLex.st s_rest bind].
    replace (c <? 128) with true by lia. replace (c =? 58) with false by lia. rewrite H3.
    fold (st p (c :: x ++ l)). rewrite advance1_st by exact HW. cbn [bind].
    rewrite IH; [|apply (W_cons _ _ _ _ HW)|exact Hx].
    rewrite blen_cons. replace (p + 1 + blen x) with (p + (1 + blen x)) by lia. reflexivity.
Qed.

Lemma qname_stop start spl p l fuel : W p l -> name_stop l ->
  consume_qname_loop text (S fuel) start spl (st p l) = Ok (spl, st p l).
Proof.
  intros HW Hl. cbn [consume_qname_loop]. rewrite at_end_st by exact HW. destruct l as [|c l]; [reflexivity|].
  cbn [curr_byte_unchecked CstLex.st s_rest bind]. destruct Hl as (H1 & H2 & H3).
  replace (c <? 128) with true by lia. replace (c =? 58) with false by lia. rewrite H3. reflexivity.
Qed.

Lemma qname_colon start p l fuel : W p (58 :: l) ->
  consume_qname_loop text (S fuel) start None (st p (58 :: l)) =
  consume_qname_loop text fuel start (Some p) (st (p + 1) l).
Proof.
  intros HW. cbn [consume_qname_loop]. rewrite at_end_st by exact HW.
  cbn [curr_byte_unchecked CstLex.st s_rest bind]. change (58 <? 128) with true. change (58 =? 58) with true.
  cbv iota. fold (st p (58 :: l)). rewrite advance1_st by exact HW. reflexivity.
Qed.

(* consume_qname on a rendered qualified name *)
Lemma consume_qname_ns q p l : W p (r_qname q ++ l) -> wf_qname q = true -> name_stop l ->
  consume_qname text (st p (r_qname q ++ l)) =
  Ok (sl p (p + blen (q_prefix q)), sl (p + q_off q) (p + blen (r_qname q)), st (p + blen (r_qname q)) l).
Proof.
  intros HW Hq Hl. destruct (wf_qname_parts _ Hq) as [Hp Hloc].
  destruct (wf_name_chars _ Hloc) as (c & x & El & Hc & Hx).
  pose proof (r_qname_len q) as Hlen.
  unfold consume_qname. cbn [CstLex.st s_pos s_rest].
  fold (st p (r_qname q ++ l)).
  unfold r_qname, q_off in *. destruct (q_prefix q) as [|pc px] eqn:Ep.
  - (* unprefixed *)
    rewrite El in *.
    replace (S (length ((c :: x) ++ l))) with (length (c :: x) + S (length l))%nat by (rewrite app_length; lia).
    rewrite qname_chars by assumption. pose proof (W_app _ _ _ _ HW) as HW1.
    rewrite qname_stop by assumption. cbn [bind]. unfold slice_back. cbn [CstLex.st s_pos].
    pose proof (W_le _ _ _ HW1) as Hle. rewrite !mk_slice_ok by (try exact Hascii; lia). cbn [bind].
    unfold slice_len. cbn [sl sl_start sl_end]. rewrite N.sub_diag. change (0 =? 0) with true. cbn [negb andb].
    fold (sl p (p + blen (c :: x))). rewrite (W_slice _ _ _ _ HW).
    cbn [str_is_name_start]. destruct (name_start_byte _ Hc) as (H1 & H2 & _).
    replace (c <? 128) with true by lia. rewrite H2. cbn [negb].
    change (blen []) with 0. rewrite !N.add_0_r. reflexivity.
  - (* prefix : local *)
    destruct Hp as [Hp|Hp]; [discriminate|].
    destruct (wf_name_chars _ Hp) as (c0 & x0 & Ep0 & Hc0 & Hx0). rewrite Ep0 in *. rewrite El in *.
    rewrite <- !app_assoc in HW |- *.
    replace (S (length ((c0 :: x0) ++ [58] ++ (c :: x) ++ l)))
      with (length (c0 :: x0) + S (length (c :: x) + S (length l)))%nat by (rewrite !app_length; cbn [length]; lia).
    rewrite qname_chars by assumption. pose proof (W_app _ _ _ _ HW) as HW1.
    cbn [app] in HW1 |- *. rewrite qname_colon by exact HW1. pose proof (W_cons _ _ _ _ HW1) as HW2.
    change (c :: x ++ l) with ((c :: x) ++ l) in HW2 |- *.
    rewrite qname_chars by assumption. pose proof (W_app _ _ _ _ HW2) as HW3.
    rewrite qname_stop by assumption. cbn [bind]. unfold slice_back. cbn [CstLex.st s_pos].
    pose proof (W_le _ _ _ HW3) as Hle.
    rewrite !mk_slice_ok by (try exact Hascii; lia). cbn [bind].
    unfold slice_len. cbn [sl sl_start sl_end].
    replace (p + blen (c0 :: x0) - p =? 0) with false by (rewrite blen_cons; lia). cbn [negb andb].
    fold (sl p (p + blen (c0 :: x0))).
    rewrite (W_slice _ _ (c0 :: x0) _ HW).
    cbn [str_is_name_start]. destruct (name_start_byte _ Hc0) as (H1 & H2 & _).
    replace (c0 <? 128) with true by lia. rewrite H2. cbn [negb].
    fold (sl (p + blen (c0 :: x0) + 1) (p + blen (c0 :: x0) + 1 + blen (c :: x))).
    rewrite (W_slice _ _ _ _ HW2).
    cbn [str_is_name_start]. destruct (name_start_byte _ Hc) as (H3 & H4 & _).
    replace (c <? 128) with true by lia. rewrite H4. cbn [negb].
    change (c0 :: x0 ++ 58 :: c :: x) with ((c0 :: x0) ++ [58] ++ (c :: x)).
    rewrite !blen_app. change (blen [58]) with 1.
    replace (p + (blen (c0 :: x0) + (1 + blen (c :: x)))) with (p + blen (c0 :: x0) + 1 + blen (c :: x)) by lia.
    replace (p + (blen (c0 :: x0) + 1)) with (p + blen (c0 :: x0) + 1) by lia. reflexivity.
Qed.

(* ---- start-tag entries ---- *)
Variable C : Type.
Variable ev : token -> C -> res C.

Definition entry_tok (q : N) (e : entry) : token :=
  let l := e_layout e in
  let start := q + blen (l_ws l) in
  let ne := start + blen (r_qname (e_qname e)) in
  let eqe := ne + blen (l_ws1 l) + 1 + blen (l_ws2 l) in
  let vs := eqe + 1 in
  let ve := vs + blen (e_value e) in
  TAttribute (start, ve + 1) (N.min (ne - start) qname_len_sat) (N.min (eqe - ne) eq_len_sat)
             (sl start (start + blen (q_prefix (e_qname e)))) (sl (start + q_off (e_qname e)) ne) (sl vs ve).

Fixpoint entry_toks (q : N) (es : list entry) : list token :=
  match es with
  | [] => []
  | e :: r => entry_tok q e :: entry_toks (q + blen (r_entry e)) r
  end.

Lemma wf_entry_lex e : wf_entry e = true ->
  l_ws (e_layout e) <> [] /\ Cst.wf_ws (l_ws (e_layout e)) = true /\
  Cst.wf_ws (l_ws1 (e_layout e)) = true /\ Cst.wf_ws (l_ws2 (e_layout e)) = true /\
  (l_quote (e_layout e) = 39 \/ l_quote (e_layout e) = 34) /\
  wf_value (l_quote (e_layout e)) (e_value e) = true /\ wf_qname (e_qname e) = true.
Proof.
  unfold wf_entry, wf_layout. rewrite !andb_true_iff. intros [[[[[H1 H2] H3] H4] H5] H6].
  assert (Hq : wf_qname (e_qname e) = true).
  { destruct e as [l n v|l [|x p] u]; cbn [e_qname] in *.
    - rewrite !andb_true_iff in H6. apply H6.
    - reflexivity.
    - rewrite !andb_true_iff in H6. destruct H6 as [[[H6 _] _] _]. unfold wf_qname. cbn [q_prefix q_local].
      rewrite H6. reflexivity. }
  repeat split; try assumption.
  - unfold Cst.wf_ws1 in H1. destruct (l_ws (e_layout e)); [discriminate|discriminate].
  - unfold Cst.wf_ws1 in H1. unfold Cst.wf_ws. destruct (l_ws (e_layout e)); [reflexivity|exact H1].
  - lia.
Qed.

Lemma qname_head q : wf_qname q = true ->
  exists n r, r_qname q = n :: r /\ Cst.is_name_start n = true.
Proof.
  intros H. destruct (wf_qname_parts _ H) as [Hp Hl]. unfold r_qname.
  destruct (q_prefix q) as [|c x] eqn:E.
  - destruct (wf_name_chars _ Hl) as (c & x & -> & Hc & _). eauto.
  - destruct Hp as [Hp|Hp]; [discriminate|].
    destruct (wf_name_chars _ Hp) as (c' & x' & E' & Hc & _). injection E' as -> ->.
    cbn [app]. eauto.
Qed.

Lemma lex_entry_iter fuel ts q e more c : W q (r_entry e ++ more) -> wf_entry e = true ->
  parse_element_loop text C ev (S fuel) ts (st q (r_entry e ++ more)) c =
  let! c' := ev (entry_tok q e) c in
  parse_element_loop text C ev fuel ts (st (q + blen (r_entry e)) more) c'.
Proof.
  intros HW Hwf. destruct (wf_entry_lex _ Hwf) as (Hne & Hws & Hw1 & Hw2 & Hq & Hv & Hn).
  unfold entry_tok. cbv zeta.
  assert (Elen : q + blen (r_entry e) = q + blen (l_ws (e_layout e)) + blen (r_qname (e_qname e))
                  + blen (l_ws1 (e_layout e)) + 1 + blen (l_ws2 (e_layout e)) + 1 + blen (e_value e) + 1).
  { clear. unfold r_entry. cbv zeta. rewrite e_name_qname, !blen_app, !blen_cons, blen_nil. lia. }
  rewrite Elen. clear Elen.
  unfold r_entry in *. cbv zeta in *. rewrite e_name_qname in *. rewrite <- !app_assoc in *. cbn [app] in *.
  set (qn := e_qname e) in *. clearbody qn.
  destruct (e_layout e) as [ws ws1 ws2 quote]. set (value := e_value e) in *. clearbody value.
  cbn [l_ws l_ws1 l_ws2 l_quote] in *. clear Hwf.
  destruct (attr_value_facts _ _ Hv) as (Hv1 & Hv2 & Hv3). clear Hv.
  assert (Hqq : (quote =? 39) || (quote =? 34) = true) by (clear - Hq; lia).
  assert (Hqsp : byte_is_space quote = false) by (clear - Hq; destruct Hq as [-> | ->]; reflexivity).
  clear Hq.
  destruct ws as [|w ws]; [congruence|]. clear Hne.
  destruct (qname_head _ Hn) as (n & nr & En & Hn0).
  destruct (name_start_byte _ Hn0) as (_ & _ & Hnsp & Hn47 & Hn62 & _).
  apply N.eqb_neq in Hn47, Hn62. clear Hn0.
  assert (Hwsp : byte_is_space w = true).
  { cbn [Cst.wf_ws forallb] in Hws. apply andb_true_iff in Hws. apply ws_space. apply Hws. }
  cbn [parse_element_loop]. rewrite at_end_st by exact HW. cbn [app].
  unfold starts_with_space. rewrite curr_byte_opt_st by exact HW.
  rewrite Hwsp. cbv zeta.
  change (w :: ws ++ ?l) with ((w :: ws) ++ l) in HW |- *.
  rewrite skip_spaces_st; [|exact HW|apply ws_spaces; exact Hws|rewrite En; cbn [app stops]; exact Hnsp].
  pose proof (W_app _ _ _ _ HW) as HW1. cbn [CstLex.st s_pos].
  assert (Ecb : curr_byte (st (q + blen (w :: ws)) (r_qname qn ++ ws1 ++ 61 :: ws2 ++ quote :: value ++ quote :: more)) = Ok n).
  { revert HW1. rewrite En. cbn [app]. intros HW1. apply curr_byte_st. exact HW1. }
  rewrite Ecb. cbn [bind]. rewrite Hn47, Hn62. clear Ecb En.
  rewrite consume_qname_ns; [|exact HW1|exact Hn|].
  2:{ apply ws_stop_name; [exact Hw1|]. cbn [name_stop]. apply not_name_byte_lit. auto. }
  cbn [bind]. pose proof (W_app _ _ _ _ HW1) as HW2.
  unfold consume_eq.
  rewrite skip_spaces_st; [|exact HW2|apply ws_spaces; exact Hw1|reflexivity].
  pose proof (W_app _ _ _ _ HW2) as HW3.
  rewrite consume_byte_st by (try exact Hascii; exact HW3). cbn [bind].
  pose proof (W_cons _ _ _ _ HW3) as HW4.
  rewrite skip_spaces_st; [|exact HW4|apply ws_spaces; exact Hw2|cbn [stops]; exact Hqsp].
  pose proof (W_app _ _ _ _ HW4) as HW5. cbn [CstLex.st s_pos].
  try match goal with |- context [ {| s_pos := ?a; s_end := tlen text; s_rest := ?r |} ] => fold (st a r) end.
  unfold consume_quote. rewrite curr_byte_st by exact HW5. cbn [bind].
  rewrite Hqq.
  rewrite advance1_st by exact HW5. cbn [bind].
  pose proof (W_cons _ _ _ _ HW5) as HW6. cbn [CstLex.st s_pos].
  try match goal with |- context [ {| s_pos := ?a; s_end := tlen text; s_rest := ?r |} ] => fold (st a r) end.
  unfold advance_until2. rewrite avail_st by exact HW6.
  rewrite find_idx_run; [|exact Hv1|rewrite N.eqb_refl; reflexivity].
  rewrite advance_st by (try reflexivity; exact HW6). cbn [bind].
  pose proof (W_app _ _ _ _ HW6) as HW7. unfold slice_back. cbn [CstLex.st s_pos].
  pose proof (W_le _ _ _ HW7) as Hle7.
  rewrite mk_slice_ok by (try exact Hascii; clear - Hle7; lia). cbn [bind].
  unfold is_xml_str. rewrite (W_slice _ _ _ _ HW6).
  rewrite Hv2. rewrite is_xml_str_ascii_ok by exact Hv3.
  cbn [bind].
  try match goal with |- context [ {| s_pos := ?a; s_end := tlen text; s_rest := ?r |} ] => fold (st a r) end.
  rewrite consume_byte_st by (try exact Hascii; exact HW7). cbn [bind]. cbn [CstLex.st s_pos].
  reflexivity.
Qed.

Lemma lex_entries_loop ts ws_end empty post : forall es q c fuel,
  W q (flat_map r_entry es ++ ws_end ++ tag_tail empty ++ post) ->
  forallb wf_entry es = true -> Cst.wf_ws ws_end = true -> (length es < fuel)%nat ->
  parse_element_loop text C ev fuel ts (st q (flat_map r_entry es ++ ws_end ++ tag_tail empty ++ post)) c =
  let q' := q + blen (flat_map r_entry es) + blen ws_end in
  let! c1 := evs C ev (entry_toks q es) c in
  let! c2 := ev (end_tok q' empty) c1 in
  Ok (negb empty, st (q' + blen (tag_tail empty)) post, c2).
Proof.
  induction es as [|a es IH]; intros q c fuel HW Ha Hws Hf; cbv zeta.
  - cbn [flat_map app entry_toks evs bind] in *. rewrite blen_nil, N.add_0_r.
    destruct fuel as [|fu]; [cbn in Hf; lia|]. apply lex_elem_end; assumption.
  - cbn [forallb] in Ha. apply andb_true_iff in Ha. destruct Ha as [Ha1 Ha2].
    cbn [length] in Hf. destruct fuel as [|fu]; [lia|].
    cbn [flat_map entry_toks evs] in *. rewrite <- app_assoc in *.
    rewrite lex_entry_iter by assumption.
    destruct (ev (entry_tok q a) c) as [c'| | |]; cbn [bind]; try reflexivity.
    rewrite IH; [|apply (W_app _ _ _ _ HW)|exact Ha2|exact Hws|lia]. cbv zeta.
    rewrite blen_app. rewrite !N.add_assoc. reflexivity.
Qed.

Lemma flat_entry_len es : (length es <= length (flat_map r_entry es))%nat.
Proof.
  induction es as [|a es IH]; cbn [flat_map length]; [lia|]. rewrite app_length.
  unfold r_entry at 1. cbv zeta. rewrite !app_length. cbn [length]. lia.
Qed.

Lemma entries_name_stop es ws_end empty post :
  forallb wf_entry es = true -> Cst.wf_ws ws_end = true ->
  name_stop (flat_map r_entry es ++ ws_end ++ tag_tail empty ++ post).
Proof.
  intros Ha Hws. destruct es as [|a es].
  - cbn [flat_map app]. apply ws_stop_name; [exact Hws|]. destruct empty; cbn [tag_tail app name_stop];
      apply not_name_byte_lit; auto.
  - cbn [forallb] in Ha. apply andb_true_iff in Ha. destruct Ha as [Ha _].
    destruct (wf_entry_lex _ Ha) as (Hne & Hw & _). cbn [flat_map]. unfold r_entry. cbv zeta.
    destruct (l_ws (e_layout a)) as [|w ws]; [congruence|]. cbn [app name_stop].
    cbn [Cst.wf_ws forallb] in Hw. apply andb_true_iff in Hw. apply ws_not_name_byte. apply Hw.
Qed.

Definition start_toks_ns (p : N) (name : qname) (es : list entry) : list token :=
  TElementStart (sl (p + 1) (p + 1 + blen (q_prefix name))) (sl (p + 1 + q_off name) (p + 1 + blen (r_qname name))) p
  :: entry_toks (p + 1 + blen (r_qname name)) es.

Lemma lex_element_ns p name es ws_end empty post c :
  W p ([60] ++ r_qname name ++ flat_map r_entry es ++ ws_end ++ tag_tail empty ++ post) ->
  wf_qname name = true -> forallb wf_entry es = true -> Cst.wf_ws ws_end = true ->
  let q' := p + 1 + blen (r_qname name) + blen (flat_map r_entry es) + blen ws_end in
  parse_element text C ev (st p ([60] ++ r_qname name ++ flat_map r_entry es ++ ws_end ++ tag_tail empty ++ post)) c =
  let! c1 := evs C ev (start_toks_ns p name es) c in
  let! c2 := ev (end_tok q' empty) c1 in
  Ok (negb empty, st (q' + blen (tag_tail empty)) post, c2).
Proof.
  intros HW Hn Ha Hws q'. unfold parse_element. cbv zeta. cbn [CstLex.st s_pos].
  fold (st p ([60] ++ r_qname name ++ flat_map r_entry es ++ ws_end ++ tag_tail empty ++ post)).
  rewrite (advance_st text 1 p [60]) by (try reflexivity; exact HW). cbn [bind].
  pose proof (W_app _ _ _ _ HW) as HW1. change (blen [60]) with 1 in HW1.
  rewrite consume_qname_ns; [|exact HW1|exact Hn|apply entries_name_stop; assumption]. cbn [bind].
  unfold start_toks_ns. cbn [evs].
  replace (p + 1 + (q_off name + blen (q_local name))) with (p + 1 + blen (r_qname name))
    by (rewrite r_qname_len; reflexivity).
  destruct (ev _ c) as [c0| | |]; cbn [bind]; try reflexivity.
  pose proof (W_app _ _ _ _ HW1) as HW2.
  rewrite lex_entries_loop; [|exact HW2|exact Ha|exact Hws|].
  2:{ cbn [CstLex.st s_rest]. rewrite app_length. pose proof (flat_entry_len es). lia. }
  reflexivity.
Qed.

Lemma lex_close_ns p name ws2 post c : W p ([60; 47] ++ r_qname name ++ ws2 ++ [62] ++ post) ->
  wf_qname name = true -> Cst.wf_ws ws2 = true ->
  let e := p + 2 + blen (r_qname name) + blen ws2 + 1 in
  parse_close_element text C ev (st p ([60; 47] ++ r_qname name ++ ws2 ++ [62] ++ post)) c =
  let! c' := ev (TElementEnd (EClose (sl (p + 2) (p + 2 + blen (q_prefix name)))
                                     (sl (p + 2 + q_off name) (p + 2 + blen (r_qname name)))) (p, e)) c in
  Ok (st e post, c').
Proof.
  intros HW Hn Hws e. unfold parse_close_element. cbv zeta. cbn [CstLex.st s_pos].
  fold (st p ([60; 47] ++ r_qname name ++ ws2 ++ [62] ++ post)).
  rewrite (advance_st text 2 p [60; 47]) by (try reflexivity; exact HW). cbn [bind].
  pose proof (W_app _ _ _ _ HW) as HW1. change (blen [60; 47]) with 2 in HW1.
  rewrite consume_qname_ns; [|exact HW1|exact Hn|].
  2:{ apply ws_stop_name; [exact Hws|]. cbn [app name_stop]. apply not_name_byte_lit. auto. }
  cbn [bind]. pose proof (W_app _ _ _ _ HW1) as HW2.
  rewrite skip_spaces_st; [|exact HW2|apply ws_spaces; exact Hws|reflexivity].
  pose proof (W_app _ _ _ _ HW2) as HW3. cbn [app] in *.
  rewrite consume_byte_st by (try exact Hascii; exact HW3). cbn [bind CstLex.st s_pos]. reflexivity.
Qed.

End Lex.

Print Assumptions consume_qname_ns.
Print Assumptions lex_element_ns.
Print Assumptions lex_close_ns.
