(* Proofs/CstNsLex.v -- C06, lexer completeness for qualified names and for the start-tag entries
   (attributes and namespace declarations) of Spec/CstNs.v.  The stream primitives and the
   productions without names (comments, PIs, text) are those of Proofs/CstLex.v. *)
From Coq Require Import Ascii String.
From Coq Require Import List NArith PeanoNat Bool Lia ZifyBool ZifyN ZifyNat.
Import ListNotations.
From RX Require Import Generated.
From RX.Model Require Import Base CharClass Stream Tokenizer.
From RX.Spec Require Cst Scope CstNs.
From RX.Proofs Require Import CstLex.
Open Scope N_scope.

Import CstNs.

(* a declaration is lexically an attribute named xmlns or xmlns:prefix *)
Definition e_qname (e : entry) : qname :=
  match e with
  | EAttr _ n _ => n
  | EDecl _ [] _ => {| q_prefix := []; q_local := xmlns_b |}
  | EDecl _ p _ => {| q_prefix := xmlns_b; q_local := p |}
  end.

Lemma e_name_qname e : e_name e = r_qname (e_qname e).
Proof. destruct e as [l n v|l [|x p] u]; reflexivity. Qed.

(* offset of the local part inside the rendered qualified name *)
Definition q_off (q : qname) : N := match q_prefix q with [] => 0 | p => blen p + 1 end.

Lemma r_qname_len q : blen (r_qname q) = q_off q + blen (q_local q).
Proof.
  unfold r_qname, q_off. destruct (q_prefix q) as [|x p]; [lia|].
  rewrite !blen_app. change (blen [58]) with 1. lia.
Qed.

Lemma wf_qname_parts q : wf_qname q = true ->
  (q_prefix q = [] \/ Cst.wf_name (q_prefix q) = true) /\ Cst.wf_name (q_local q) = true.
Proof.
  unfold wf_qname. intros H. apply andb_true_iff in H. destruct H as [H1 H2]. split; [|exact H2].
  destruct (q_prefix q); [left; reflexivity|right; exact H1].
Qed.

Lemma wf_name_chars n : Cst.wf_name n = true ->
  exists c x, n = c :: x /\ Cst.is_name_start c = true /\ forallb Cst.is_name_char (c :: x) = true.
Proof.
  destruct n as [|c x]; [discriminate|]. cbn [Cst.wf_name]. intros H. apply andb_true_iff in H.
  destruct H as [H1 H2]. exists c, x. split; [reflexivity|]. split; [exact H1|].
  cbn [forallb]. rewrite (name_start_char _ H1), H2. reflexivity.
Qed.

Section Lex.
Variable text : bytes.
Hypothesis Hascii : Forall (fun x => x < 128) text.

Notation st := (CstLex.st text).
Notation W := (CstLex.W text).

Lemma qname_chars start spl : forall x p l fuel, W p (x ++ l) ->
  forallb Cst.is_name_char x = true ->
  consume_qname_loop text (length x + fuel) start spl (st p (x ++ l)) =
  consume_qname_loop text fuel start spl (st (p + blen x) l).
Proof.
  induction x as [|c x IH]; intros p l fuel HW Hx.
  - cbn [app length Nat.add]. rewrite blen_nil, N.add_0_r. reflexivity.
  - cbn [app length Nat.add] in *.
    cbn [forallb] in Hx. apply andb_true_iff in Hx. destruct Hx as [Hc Hx].
    destruct (name_char_byte _ Hc) as (H1 & H2 & H3).
    cbn [consume_qname_loop]. rewrite at_end_st by exact HW.
    cbn [curr_byte_unchecked CstLex.st s_rest bind].
    replace (c <? 128) with true by lia. replace (c =? 58) with false by lia. rewrite H3.
    fold (st p (c :: x ++ l)). rewrite advance1_st by exact HW. cbn [bind].
    rewrite IH; [|apply (W_cons _ _ _ _ HW)|exact Hx].
    rewrite blen_cons. replace (p + 1 + blen x) with (p + (1 + blen x)) by lia. reflexivity.
Qed.

Lemma qname_stop start spl p l fuel : W p l -> name_stop l ->
  consume_qname_loop text (S fuel) start spl (st p l) = Ok (spl, st p l).
Proof.
  intros HW Hl. cbn [consume_qname_loop]. rewrite at_end_st by exact HW. destruct l as [|c l]; [reflexivity|].
  cbn [curr_byte_unchecked CstLex.st s_rest bind]. destruct Hl as (H1 & H2 & H3).
  replace (c <? 128) with true by lia. replace (c =? 58) with false by lia. rewrite H3. reflexivity.
Qed.

Lemma qname_colon start p l fuel : W p (58 :: l) ->
  consume_qname_loop text (S fuel) start None (st p (58 :: l)) =
  consume_qname_loop text fuel start (Some p) (st (p + 1) l).
Proof.
  intros HW. cbn [consume_qname_loop]. rewrite at_end_st by exact HW.
  cbn [curr_byte_unchecked CstLex.st s_rest bind]. change (58 <? 128) with true. change (58 =? 58) with true.
  cbv iota. fold (st p (58 :: l)). rewrite advance1_st by exact HW. reflexivity.
Qed.

(* consume_qname on a rendered qualified name *)
Lemma consume_qname_ns q p l : W p (r_qname q ++ l) -> wf_qname q = true -> name_stop l ->
  consume_qname text (st p (r_qname q ++ l)) =
  Ok (sl p (p + blen (q_prefix q)), sl (p + q_off q) (p + blen (r_qname q)), st (p + blen (r_qname q)) l).
Proof.
  intros HW Hq Hl. destruct (wf_qname_parts _ Hq) as [Hp Hloc].
  destruct (wf_name_chars _ Hloc) as (c & x & El & Hc & Hx).
  pose proof (r_qname_len q) as Hlen.
  unfold consume_qname. cbn [CstLex.st s_pos s_rest].
  fold (st p (r_qname q ++ l)).
  unfold r_qname, q_off in *. destruct (q_prefix q) as [|pc px] eqn:Ep.
  - (* unprefixed *)
    rewrite El in *.
    replace (S (length ((c :: x) ++ l))) with (length (c :: x) + S (length l))%nat by (rewrite app_length; lia).
    rewrite qname_chars by assumption. pose proof (W_app _ _ _ _ HW) as HW1.
    rewrite qname_stop by assumption. cbn [bind]. unfold slice_back. cbn [CstLex.st s_pos].
    pose proof (W_le _ _ _ HW1) as Hle. rewrite !mk_slice_ok by (try exact Hascii; lia). cbn [bind].
    unfold slice_len. cbn [sl sl_start sl_end]. rewrite N.sub_diag. change (0 =? 0) with true. cbn [negb andb].
    fold (sl p (p + blen (c :: x))). rewrite (W_slice _ _ _ _ HW).
    cbn [str_is_name_start]. destruct (name_start_byte _ Hc) as (H1 & H2 & _).
    replace (c <? 128) with true by lia. rewrite H2. cbn [negb].
    change (blen []) with 0. rewrite !N.add_0_r. reflexivity.
  - (* prefix : local *)
    destruct Hp as [Hp|Hp]; [discriminate|].
    destruct (wf_name_chars _ Hp) as (c0 & x0 & Ep0 & Hc0 & Hx0). rewrite Ep0 in *. rewrite El in *.
    rewrite <- !app_assoc in HW |- *.
    replace (S (length ((c0 :: x0) ++ [58] ++ (c :: x) ++ l)))
      with (length (c0 :: x0) + S (length (c :: x) + S (length l)))%nat by (rewrite !app_length; cbn [length]; lia).
    rewrite qname_chars by assumption. pose proof (W_app _ _ _ _ HW) as HW1.
    cbn [app] in HW1 |- *. rewrite qname_colon by exact HW1. pose proof (W_cons _ _ _ _ HW1) as HW2.
    change (c :: x ++ l) with ((c :: x) ++ l) in HW2 |- *.
    rewrite qname_chars by assumption. pose proof (W_app _ _ _ _ HW2) as HW3.
    rewrite qname_stop by assumption. cbn [bind]. unfold slice_back. cbn [CstLex.st s_pos].
    pose proof (W_le _ _ _ HW3) as Hle.
    rewrite !mk_slice_ok by (try exact Hascii; lia). cbn [bind].
    unfold slice_len. cbn [sl sl_start sl_end].
    replace (p + blen (c0 :: x0) - p =? 0) with false by (rewrite blen_cons; lia). cbn [negb andb].
    fold (sl p (p + blen (c0 :: x0))).
    rewrite (W_slice _ _ (c0 :: x0) _ HW).
    cbn [str_is_name_start]. destruct (name_start_byte _ Hc0) as (H1 & H2 & _).
    replace (c0 <? 128) with true by lia. rewrite H2. cbn [negb].
    fold (sl (p + blen (c0 :: x0) + 1) (p + blen (c0 :: x0) + 1 + blen (c :: x))).
    rewrite (W_slice _ _ _ _ HW2).
    cbn [str_is_name_start]. destruct (name_start_byte _ Hc) as (H3 & H4 & _).
    replace (c <? 128) with true by lia. rewrite H4. cbn [negb].
    change (c0 :: x0 ++ 58 :: c :: x) with ((c0 :: x0) ++ [58] ++ (c :: x)).
    rewrite !blen_app. change (blen [58]) with 1.
    replace (p + (blen (c0 :: x0) + (1 + blen (c :: x)))) with (p + blen (c0 :: x0) + 1 + blen (c :: x)) by lia.
    replace (p + (blen (c0 :: x0) + 1)) with (p + blen (c0 :: x0) + 1) by lia. reflexivity.
Qed.

End Lex.
