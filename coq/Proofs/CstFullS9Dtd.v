(* Proofs/CstFullS9Dtd.v -- the capstone fragment, stage S9 (Spec/CstFullS9.v): the DOCTYPE of Proofs/CstFullS8Dtd.v where the
   names of general entities (declarations and references) are Names with colons: the declaration is lexed by
   Proofs/CstFullS9Ent.v, the values are those of Proofs/CstFullS9Text.v / CstFullS9Items.v.  An adapted copy of the
   first part of Proofs/CstFullS7Dtd.v (the bytes of an item) and of Proofs/CstFullS8Dtd.v. *)
From Coq Require Import Ascii String.
From Coq Require Import List NArith PeanoNat Bool Lia ZifyBool ZifyN ZifyNat.
Import ListNotations.
From RX Require Import Generated.
From RX.Model Require Import Base CharClass Stream Tokenizer Doc Builder Parse.
From RX.Spec Require Cst CstText CstEnt Detector Scope CstU CstNs Chars.
From RX.Spec Require Import CstFullS5.
From RX.Spec Require Import Text CstFull CstFullS4.
From RX.Spec Require Import CstFullS6 CstFullS7 CstFullS8 CstFullS9.
From RX.Proofs Require Import Tactics CstLex CstBuild CstNsLex CstNsView CstNsBuild CstULex.
From RX.Proofs Require Import CstTextSem CstEntSem CstEntMeaning CstEntRun CstEntInline DetectorProofs.
From RX.Proofs Require Import CstFullLex CstFullBuild CstFullTree CstEntDtd.
From RX.Proofs Require Import CstFullS2Sem CstFullS9aSem CstFullS9aText CstFullS9aRun CstFullS3Dtd CstFullS9aPlug.
From RX.Proofs Require Import CstFullS4Sem CstFullS9bSem CstFullS9bText CstFullS4Build CstFullS9bAttr.
From RX.Proofs Require Import CstFullS5Ws CstFullS5Lex CstFullS5Doc CstFullS5Dtd.
From RX.Proofs Require Import CstFullS7Misc CstFullS7Dtd.
From RX.Proofs Require Import CstFullS9Text CstFullS9Items CstFullS9Ent.
From RX.Proofs Require CstFullS6Dtd.
From RX.Proofs Require CstItems CstNsItems CstNsDoc CstUItems CstDoc CstFullS3 CstFullS5Items CstFullItems CharTablesProofs CstFullS7Lex.
Open Scope N_scope.


(* ------------------------------------------------------------------------------------------ *)
(* the bytes of an item are UTF-8 of Chars                                                    *)
(* ------------------------------------------------------------------------------------------ *)
(* [ustr_ws], [ustr_lit], [ustr_uname], [ustr_qname], [ustr_chars], [ustr_name7]: Proofs/CstFullS7Dtd.v *)

Lemma ustr_uentry m e : wf_uentry9 m e = true -> ustr (r_entry e).
Proof.
  intros H. pose proof (uentry_of4 m e H) as Hu. destruct (uentry_parts_s _ Hu) as (_ & Hw & Hw1 & Hw2 & Hq & (cs & Ev & Hcs & _) & Hn).
  change (r_entry e) with (CstNs.r_entry (x_entry epieces (r_val epieces) e)).
  unfold CstNs.r_entry. cbv zeta. rewrite e_name_qname.
  assert (Hqn : ustr (CstNs.r_qname (e_qname (x_entry epieces (r_val epieces) e)))).
  { unfold wf_uentry9 in H. rewrite !andb_true_iff in H. destruct H as [_ H3].
    destruct e as [l n v|l p v]; cbn [x_entry e_qname].
    - apply ustr_qname. exact H3.
    - destruct p as [|c x].
      + apply ustr_lit. reflexivity.
      + destruct (uname_ne _ H3) as (b0 & r & E0). unfold e_qname. rewrite E0. cbv iota. rewrite <- E0.
        unfold CstNs.r_qname. cbn [CstNs.q_prefix CstNs.q_local]. change CstNs.xmlns_b with [120; 109; 108; 110; 115].
        cbn [app]. change (120 :: 109 :: 108 :: 110 :: 115 :: 58 :: utf8s (c :: x)) with ([120; 109; 108; 110; 115; 58] ++ utf8s (c :: x)).
        apply ustr_app; [apply ustr_lit; reflexivity|apply ustr_uname; exact H3]. }
  assert (Hql : ustr [CstNs.l_quote (CstNs.e_layout (x_entry epieces (r_val epieces) e))]).
  { apply ustr_lit. destruct Hq as [-> | ->]; reflexivity. }
  repeat apply ustr_app; try (apply ustr_ws; assumption); try assumption.
  - apply ustr_lit. reflexivity.
  - rewrite Ev. exists cs. split; [reflexivity|exact Hcs].
Qed.

Lemma ustr_uentries m ens : forallb (wf_uentry9 m) ens = true -> ustr (flat_map r_entry ens).
Proof.
  induction ens as [|e r IH]; intros H; [exists []; split; [reflexivity|constructor]|].
  cbn [forallb] in H. apply andb_true_iff in H. destruct H as [H1 H2].
  cbn [flat_map]. apply ustr_app; [apply (ustr_uentry m); exact H1|apply IH; exact H2].
Qed.

Lemma ustr_eseg s : ueseg_wf s -> ustr (r_eseg s).
Proof.
  destruct s as [l|bs]; cbn [r_eseg].
  - intros H. apply (ess_bytes_u [] HD_nil l H).
  - intros [H _]. apply ustr_app; [apply ustr_lit; reflexivity|]. apply ustr_app; [exact H|apply ustr_lit; reflexivity].
Qed.

Lemma ustr_esegs L : Forall ueseg_wf L -> ustr (flat_map r_eseg L).
Proof.
  induction 1 as [|s L Hs _ IH]; [exists []; split; [reflexivity|constructor]|]. cbn [flat_map].
  apply ustr_app; [apply ustr_eseg; exact Hs|exact IH].
Qed.

Lemma ustr_uitem m : forall i, wf_uitem9 m i = true -> ustr (r_item i).
Proof.
  intros i. induction i as [n a w|n a w cs w2 IH|r|bs|t s0 v] using fitem_ind; intros Hwf.
  - destruct (wf_elem_parts4 _ _ _ _ _ Hwf) as (Hn & Ha & Hw & _). rewrite r_uitem_elem.
    repeat apply ustr_app; try (apply ustr_lit; reflexivity).
    + apply ustr_qname; exact Hn.
    + apply (ustr_uentries m); exact Ha.
    + apply ustr_ws; exact Hw.
  - destruct (wf_elem_parts4 _ _ _ _ _ Hwf) as (Hn & Ha & Hw & Hw2 & _ & Hcs). rewrite r_uitem_elem.
    repeat apply ustr_app; try (apply ustr_lit; reflexivity).
    + apply ustr_qname; exact Hn.
    + apply (ustr_uentries m); exact Ha.
    + apply ustr_ws; exact Hw.
    + clear - IH Hcs. induction IH as [|c r Hc _ IHr]; [exists []; split; [reflexivity|constructor]|].
      cbn [forallb] in Hcs. apply andb_true_iff in Hcs. destruct Hcs as [H1 H2].
      cbn [r_uitems flat_map]. apply ustr_app; [apply Hc; exact H1|apply IHr; exact H2].
    + apply ustr_qname; exact Hn.
    + apply ustr_ws; exact Hw2.
  - cbn [wf_uitem9] in Hwf. apply andb_true_iff in Hwf. destruct Hwf as [_ Hw].
    cbn [r_item r_run epieces]. rewrite <- (esegs_render (enc_epieces r)).
    apply ustr_esegs. apply esegs_wf_u. apply (wf_uepieces_any m). exact Hw.
  - apply SL.wf_comment7_ok in Hwf. destruct Hwf as (H1 & _). cbn [r_item Cst.r_item].
    repeat apply ustr_app; try (apply ustr_lit; reflexivity). apply ustr_chars. exact H1.
  - apply SL.wf_pi7_ok in Hwf. destruct Hwf as (H1 & H2 & H3 & _). cbn [r_item Cst.r_item].
    repeat apply ustr_app; try (apply ustr_lit; reflexivity).
    + apply ustr_name7; exact H1.
    + apply ustr_ws; exact H2.
    + apply ustr_chars; exact H3.
Qed.

Lemma ustr_uitems m cs : forallb (wf_uitem9 m) cs = true -> ustr (r_uitems cs).
Proof.
  induction cs as [|c r IH]; intros H; [exists []; split; [reflexivity|constructor]|].
  cbn [forallb] in H. apply andb_true_iff in H. destruct H as [H1 H2].
  cbn [r_uitems flat_map]. apply ustr_app; [apply (ustr_uitem m); exact H1|apply IH; exact H2].
Qed.

Ltac clia := repeat match goal with H : @eq bool _ true |- _ => clear H end; lia.

(* ------------------------------------------------------------------------------------------ *)
(* a general internal entity whose literal may contain '%'                                    *)
(* ------------------------------------------------------------------------------------------ *)
Lemma xdecl_of9 d : wf_xdecl9 d = true -> udecl_lex_ok9 (pd d) /\ udecl_okc (pd d) /\ decl_cont d.
Proof.
  unfold wf_xdecl9. rewrite !andb_true_iff. intros [[[[[[H0 H1] Hn] H2] Hq] Hv] H3].
  unfold wf_xvalue9 in Hv. apply andb_true_iff in Hv. destruct Hv as [Hnq Hv].
  pose proof (is_quote_cases _ Hq) as Hq'.
  destruct (x_value d) as [ps|its] eqn:Ev.
  - (* character data: Proofs/CstFullS9aPlug.v [udecl_of] without the '%' condition *)
    set (e0 := {| E.e_ws0 := x_ws0 d; E.e_ws1 := x_ws1 d; E.e_name := x_name d; E.e_ws2 := x_ws2 d;
                  E.e_quote := x_quote d; E.e_value := E.EText ps; E.e_ws3 := x_ws3 d |}).
    assert (E0 : enc_decl e0 = pd d) by (unfold enc_decl, pd, e0; cbn; rewrite Ev; reflexivity).
    pose proof Hv as Hvw0. unfold wf_uepieces9 in Hvw0. apply andb_true_iff in Hvw0. destruct Hvw0 as [Hw _].
    destruct (uepieces_ok (x_quote d) false true true ps ltac:(lia) Hv (no_cdata_of _ _ _ _ Hw)) as (Hok & Hadj & H3c).
    specialize (H3c eq_refl).
    assert (Hokf : Forall (uep_ok false) (enc_epieces ps)) by (eapply Forall_impl; [|exact Hok]; intros p; apply uep_weaken).
    assert (A : udecl_lex_ok9 (enc_decl e0)).
    { constructor; cbn [enc_decl e0 E.e_ws0 E.e_ws1 E.e_name E.e_ws2 E.e_quote E.e_value E.e_ws3]; try assumption.
      - exists (x_name d). auto.
      - cbn [E.r_value]. split; [apply (uep_bytes true _ Hok)|]. cbn [r_xvalue] in Hnq. exact Hnq. }
    assert (B0 : udecl_ok (enc_decl e0)).
    { unfold udecl_ok. cbn [enc_decl e0 E.e_value]. split; [exact Hok|]. split; [|exact Hadj].
      apply ustretch_no_cdata_end; assumption. }
    rewrite E0 in A, B0.
    split; [exact A|]. split; [apply udecl_ok_c; exact B0|]. unfold decl_cont. rewrite Ev. exact I.
  - apply andb_true_iff in Hv. destruct Hv as [Hw Hna].
    split; [|split].
    + constructor; cbn [pd E.e_ws0 E.e_ws1 E.e_name E.e_ws2 E.e_quote E.e_value E.e_ws3]; try assumption.
      * exists (x_name d). auto.
      * rewrite r_value_pv, Ev. cbn [r_xvalue]. split; [apply (ustr_uitems true); exact Hw|].
        revert Hnq. cbn [r_xvalue]. apply CstLex.forallb_imp. intros y Hy. exact Hy.
    + unfold udecl_okc. cbn [pd E.e_value]. rewrite Ev. exact I.
    + unfold decl_cont. rewrite Ev. split; assumption.
Qed.

(* ------------------------------------------------------------------------------------------ *)
(* the items of the subset                                                                    *)
(* ------------------------------------------------------------------------------------------ *)
Lemma wf_other9 s : wf_sdecl9 (XOther s) = true -> is_sentity s = false /\ wf_other7 s = true.
Proof. cbn [wf_sdecl9]. rewrite andb_true_iff, negb_true_iff. tauto. Qed.

Lemma sdecl9_valid s : wf_sdecl9 s = true -> U8.Valid (r_sdecl6 s).
Proof.
  destruct s as [e|s]; intros H.
  - cbn [r_sdecl6]. rewrite <- r_decl_pd. apply udecl_valid9. apply (xdecl_of9 e H).
  - destruct (wf_other9 s H) as [_ Ho]. destruct (other7_cases s Ho) as [(ws0 & i & -> & H0 & Hi)|[_ Hs]].
    + cbn [r_sdecl6 r_sdecl]. apply U8.Valid_app; [apply s_valid; exact H0|apply misc7_valid; exact Hi].
    + apply sdecl_valid. exact Hs.
Qed.

Lemma sdecls9_valid ds : forallb wf_sdecl9 ds = true -> U8.Valid (flat_map r_sdecl6 ds).
Proof.
  induction ds as [|s ds IH]; intros H; [constructor|]. cbn [forallb] in H. apply andb_true_iff in H. destruct H as [H1 H2].
  cbn [flat_map]. apply U8.Valid_app; [apply sdecl9_valid; exact H1|apply IH; exact H2].
Qed.

Lemma sdecl9_len s : wf_sdecl9 s = true -> (1 <= length (r_sdecl6 s))%nat.
Proof.
  destruct s as [e|s]; intros H.
  - cbn [r_sdecl6]. unfold r_xdecl. rewrite !app_length. cbn [length]. lia.
  - destruct (wf_other9 s H) as [_ Ho]. destruct (other7_cases s Ho) as [(ws0 & i & -> & H0 & Hi)|[_ Hs]].
    + cbn [r_sdecl6 r_sdecl]. rewrite app_length.
      destruct i as [? ? ? ?|?|bs|t s v]; try discriminate; cbn [r_item Cst.r_item]; rewrite !app_length; cbn [length]; lia.
    + apply sdecl_len. exact Hs.
Qed.

Lemma sdecls9_len ds : forallb wf_sdecl9 ds = true -> (length ds <= length (flat_map r_sdecl6 ds))%nat.
Proof.
  induction ds as [|s ds IH]; intros H; [cbn; lia|]. cbn [forallb] in H. apply andb_true_iff in H. destruct H as [H1 H2].
  cbn [flat_map length]. rewrite app_length. pose proof (sdecl9_len s H1). specialize (IH H2). lia.
Qed.

Section Build.
Variable text : bytes.
Variable D : list Scope.binding.
Hypothesis HD : forall l, NoDup l -> incl l D -> N.of_nat (length l) <= 65535.

Notation W := (CstLex.W text).
Notation WV := (CstULex.WV text).
Notation st := (CstLex.st text).
Notation ev := (tok_ev text).
Notation CIn := (CstNsBuild.CIn text D).
Notation kmn := (CstNsBuild.kmn text).
Notation node_room := CstNsItems.node_room.
Notation dens0 := (CstFullTree.dens epieces M0).
Notation evf_comment := (evf_comment7 text D HD).
Notation evf_pi := (evf_pi7 text D HD).
Notation kmn_Forall2_ext := (CstFullS5Items.kmn_Forall2_ext text D HD).
Notation tok_entity := (CstFullS5Dtd.tok_entity text).

Lemma sdecl9_head s rest : wf_sdecl9 s = true -> exists w l, r_sdecl6 s ++ rest = w ++ 60 :: l /\ wf_s w = true.
Proof.
  destruct s as [e|s]; intros H.
  - destruct (xdecl_of9 e H) as ([H0 _ _ _ _ _ _] & _). cbn [r_sdecl6]. unfold r_xdecl. rewrite <- !app_assoc. cbn [E.kw_entity app].
    eexists. eexists. split; [reflexivity|exact H0].
  - destruct (wf_other9 s H) as [_ Ho]. destruct (other7_cases s Ho) as [(ws0 & i & -> & H0 & Hi)|[_ Hs]].
    + cbn [r_sdecl6 r_sdecl]. rewrite <- app_assoc.
      destruct i as [? ? ? ?|?|bs|t s v]; try discriminate; cbn [r_item Cst.r_item app]; eexists; eexists; (split; [reflexivity|exact H0]).
    + apply (sdecl_head s rest). exact Hs.
Qed.

Lemma subset_loop_ok9 start ws3 ws4 post : forall (ds : list sdecl6) q c fuel,
  WV q (flat_map r_sdecl6 ds ++ ws3 ++ [93] ++ ws4 ++ [62] ++ post) ->
  forallb wf_sdecl9 ds = true -> wf_s ws3 = true -> wf_s ws4 = true -> (length ds < fuel)%nat ->
  CIn [] c -> c_after_text c = [] -> node_room c (NT.nsizes (dens0 (smisc6 ds))) ->
  exists c' K es',
    parse_doctype_loop text context ev fuel start (st q (flat_map r_sdecl6 ds ++ ws3 ++ [93] ++ ws4 ++ [62] ++ post)) c =
    Ok (st (q + blen (flat_map r_sdecl6 ds) + blen ws3 + 1 + blen ws4 + 1) post, c') /\
    Stepn (set_entities c (c_entities c ++ es')) c' K [] /\
    Forall2 (uent_ok text) (map pd (sges6 ds)) es' /\
    CIn [] c' /\ c_after_text c' = [] /\ d_ns_tree (c_doc c') = d_ns_tree (c_doc c) /\
    Forall2 (kmn (c_doc c')) K (NT.tag_list [] (c_parent_id c) (len_N (d_nodes (c_doc c))) (dens0 (smisc6 ds))).
Proof.
  induction ds as [|s ds IH]; intros q c fuel HWv Hds H3 H4 Hf I Hat NR; pose proof (WV_W _ _ _ HWv) as HW.
  - cbn [flat_map app sges6 smisc6 map CstFullTree.dens NT.tag_list] in *. destruct fuel as [|fu]; [lia|].
    exists c, [], []. split; [|split; [rewrite app_nil_r, set_entities_same; apply Stepn_refl|
                                  split; [constructor|split; [exact I|split; [exact Hat|split; [reflexivity|constructor]]]]]].
    cbn [parse_doctype_loop]. rewrite (at_end_st text) by exact HW.
    replace (match ws3 ++ 93 :: ws4 ++ 62 :: post with [] => true | _ => false end) with false by (destruct ws3; reflexivity).
    cbv zeta. change (ws3 ++ 93 :: ws4 ++ 62 :: post) with (ws3 ++ [93] ++ ws4 ++ [62] ++ post) in *.
    rewrite (skip_spaces_st text); [|exact HW|apply s_spaces; exact H3|reflexivity].
    pose proof (W_app _ _ _ _ HW) as HW1. cbn [app] in HW1 |- *.
    rewrite !(starts_with_st text) by exact HW1.
    change (prefix_b (b "<!ENTITY") (93 :: ws4 ++ 62 :: post)) with false.
    change (prefix_b (b "<!--") (93 :: ws4 ++ 62 :: post)) with false.
    change (prefix_b (b "<?") (93 :: ws4 ++ 62 :: post)) with false.
    change (prefix_b (b "]") (93 :: ws4 ++ 62 :: post)) with true. cbv iota.
    rewrite (advance1_st text) by exact HW1. cbn [bind].
    pose proof (W_cons _ _ _ _ HW1) as HW2.
    change (ws4 ++ 62 :: post) with (ws4 ++ [62] ++ post) in *.
    rewrite (skip_spaces_st text); [|exact HW2|apply s_spaces; exact H4|reflexivity].
    pose proof (W_app _ _ _ _ HW2) as HW3. cbn [app] in HW3 |- *.
    rewrite (curr_byte_opt_st text) by exact HW3. change (62 =? 62) with true. cbv iota.
    rewrite (advance1_st text) by exact HW3. cbn [bind]. rewrite blen_nil, N.add_0_r. reflexivity.
  - cbn [forallb] in Hds. apply andb_true_iff in Hds. destruct Hds as [Hs Hds].
    cbn [flat_map] in *. rewrite <- app_assoc in HW, HWv |- *.
    destruct fuel as [|fu]; [lia|]. cbn [length] in Hf. cbn [parse_doctype_loop].
    rewrite (at_end_st text) by exact HW.
    set (rest := flat_map r_sdecl6 ds ++ ws3 ++ [93] ++ ws4 ++ [62] ++ post) in *.
    destruct (sdecl9_head s rest Hs) as (w0 & l0 & Eh & Hw0).
    replace (match r_sdecl6 s ++ rest with [] => true | _ => false end) with false by (rewrite Eh; destruct w0; reflexivity).
    cbv zeta.
    pose proof (WV_app _ _ _ _ HWv (sdecl9_valid s Hs)) as HWn.
    assert (Hf' : (length ds < fu)%nat) by lia.
    destruct s as [e|s5]; cbn [wf_sdecl9 sges6 smisc6 flat_map map app] in Hs, NR, IH |- *; fold (sges6 ds) in *; fold (smisc6 ds) in *.
    + (* a general internal entity *)
      cbn [r_sdecl6] in *. rewrite <- (r_decl_pd e) in *.
      destruct (xdecl_of9 e Hs) as (Hlex & _ & _).
      destruct (decl_starts (pd e) rest) as [l El].
      assert (Esplit : E.r_decl (pd e) ++ rest = E.e_ws0 (pd e) ++ E.kw_entity ++ l).
      { rewrite <- El. unfold E.r_decl. rewrite <- !app_assoc, skipn_len_app. reflexivity. }
      rewrite Esplit. rewrite Esplit in HW.
      rewrite (skip_spaces_st text); [|exact HW|apply s_spaces; apply (us_ws0 _ Hlex)|reflexivity].
      pose proof (W_app _ _ _ _ HW) as HW1.
      rewrite (starts_with_st text) by exact HW1. change (b "<!ENTITY") with E.kw_entity. rewrite prefix_b_app_same.
      rewrite <- El.
      rewrite (lex_entity_decl9 text context ev q (pd e) rest c HWv Hlex). rewrite tok_entity. cbn [bind].
      set (en := decl_entity q (pd e)) in *.
      set (c1 := set_entities c (c_entities c ++ [{| en_name := en_name en; en_value := en_value en |}])).
      destruct (IH (q + blen (E.r_decl (pd e))) c1 fu HWn Hds H3 H4 Hf') as (c' & K & es' & E & S & Fe & I' & A' & Tr & F).
      { apply CstFullS3.CIn_set_entities. exact I. } { exact Hat. } { exact NR. }
      fold rest in E. rewrite E. exists c', K, (en :: es'). split.
      { f_equal. f_equal. f_equal. rewrite blen_app. clear. lia. }
      split.
      { replace (set_entities c (c_entities c ++ en :: es')) with (set_entities c1 (c_entities c1 ++ es')); [exact S|].
        unfold c1. cbn [set_entities c_entities c_opt c_ns_start_idx c_cur_attrs c_awaiting c_parent_prefixes c_after_text c_parent_id c_tag_name c_entity_floor c_ld c_doc].
        rewrite <- app_assoc. cbn [app]. destruct en. reflexivity. }
      split; [constructor; [apply (decl_ent_ok9 text q (pd e) rest HWv Hlex)|exact Fe]|].
      split; [exact I'|]. split; [exact A'|]. split; [exact Tr|exact F].
    + (* any other item: Proofs/CstFullS5Dtd.v *)
      apply andb_true_iff in Hs. destruct Hs as [Hne Hs].
      change (r_sdecl6 (XOther s5)) with (r_sdecl s5) in *.
      change (match XOther s5 with XOther (SMisc _ i) => [i] | _ => [] end) with (match s5 with SMisc _ i => [i] | _ => [] end) in *.
      destruct s5 as [e'|ws0 ws1 wsp name ws2 def ws3'|ws0 ws1 name ws2 x nd ws3'|ws0 k body|ws0 i]; cbn [wf_other7 wf_sdecl app] in Hs, NR, IH |- *.
      { discriminate Hne. }
      { (* a parameter entity *)
        rewrite !andb_true_iff in Hs. destruct Hs as [[[[[[H0 H1] Hp] Hn] H2] Hd] H3'].
        rewrite r_sparam_eq in HW, HWv |- *.
        rewrite (skip_spaces_st text); [|exact HW|apply s_spaces; exact H0|reflexivity].
        pose proof (WV_lit _ _ _ _ HWv (s_lit _ H0)) as HWa. pose proof (WV_W _ _ _ HWa) as HWa'.
        rewrite (starts_with_st text) by exact HWa'. change (b "<!ENTITY") with E.kw_entity. rewrite prefix_param.
        rewrite (lex_param text context ev _ ws1 wsp name ws2 def ws3' rest c HWa H1 Hp Hn H2 Hd H3'). cbn [bind].
        assert (Epos : q + blen ws0 + blen (r_param ws1 wsp name ws2 def ws3' rest) - blen rest =
                       q + blen (r_sdecl (SParam ws0 ws1 wsp name ws2 def ws3'))).
        { unfold r_param. cbn [r_sdecl]. repeat (rewrite ?blen_app, ?blen_cons, ?blen_nil). clear. lia. }
        rewrite Epos.
        destruct (IH _ c fu HWn Hds H3 H4 Hf' I Hat NR) as (c' & K & es' & E & S & Fe & I' & A' & Tr & F).
        fold rest in E. rewrite E. exists c', K, es'. split.
        { f_equal. f_equal. f_equal. rewrite blen_app. clear. lia. }
        auto 10. }
      { (* an external entity *)
        rewrite !andb_true_iff in Hs. destruct Hs as [[[[[[H0 H1] Hn] H2] Hx] Hnd] H3'].
        rewrite r_sext_eq in HW, HWv |- *.
        rewrite (skip_spaces_st text); [|exact HW|apply s_spaces; exact H0|reflexivity].
        pose proof (WV_lit _ _ _ _ HWv (s_lit _ H0)) as HWa. pose proof (WV_W _ _ _ HWa) as HWa'.
        rewrite (starts_with_st text) by exact HWa'. change (b "<!ENTITY") with E.kw_entity. rewrite prefix_ext.
        rewrite (lex_ext text context ev _ ws1 name ws2 x nd ws3' rest c HWa H1 Hn H2 Hx Hnd H3'). cbn [bind].
        assert (Epos : q + blen ws0 + blen (r_ext ws1 name ws2 x nd ws3' rest) - blen rest =
                       q + blen (r_sdecl (SExternal ws0 ws1 name ws2 x nd ws3'))).
        { unfold r_ext. cbn [r_sdecl]. repeat (rewrite ?blen_app, ?blen_cons, ?blen_nil). clear. lia. }
        rewrite Epos.
        destruct (IH _ c fu HWn Hds H3 H4 Hf' I Hat NR) as (c' & K & es' & E & S & Fe & I' & A' & Tr & F).
        fold rest in E. rewrite E. exists c', K, es'. split.
        { f_equal. f_equal. f_equal. rewrite blen_app. clear. lia. }
        auto 10. }
      { (* a skipped declaration *)
        rewrite !andb_true_iff in Hs. destruct Hs as [[H0 _] Hb].
        rewrite r_smarkup_eq in HW, HWv |- *.
        rewrite (skip_spaces_st text); [|exact HW|apply s_spaces; exact H0|destruct k; reflexivity].
        pose proof (WV_lit _ _ _ _ HWv (s_lit _ H0)) as HWa. pose proof (WV_W _ _ _ HWa) as HWa'.
        rewrite !(starts_with_st text) by exact HWa'.
        assert (Ek : prefix_b (b "<!ENTITY") (kw_of k ++ utf8s body ++ [62] ++ rest) = false /\
                     prefix_b (b "<!--") (kw_of k ++ utf8s body ++ [62] ++ rest) = false /\
                     prefix_b (b "<?") (kw_of k ++ utf8s body ++ [62] ++ rest) = false /\
                     prefix_b (b "]") (kw_of k ++ utf8s body ++ [62] ++ rest) = false /\
                     prefix_b (b "<!ELEMENT") (kw_of k ++ utf8s body ++ [62] ++ rest) || prefix_b (b "<!ATTLIST") (kw_of k ++ utf8s body ++ [62] ++ rest)
                     || prefix_b (b "<!NOTATION") (kw_of k ++ utf8s body ++ [62] ++ rest) = true).
        { destruct k; cbn [kw_of].
          - change (b "<!ELEMENT") with kw_element. rewrite prefix_b_app_same. repeat split; reflexivity.
          - change (b "<!ATTLIST") with kw_attlist. rewrite prefix_b_app_same. rewrite orb_true_r. repeat split; reflexivity.
          - change (b "<!NOTATION") with kw_notation. rewrite prefix_b_app_same. rewrite orb_true_r. repeat split; reflexivity. }
        destruct Ek as (K1 & K2 & K3 & K4 & K5). rewrite K1, K2, K3, K4, K5.
        rewrite (lex_markup text _ k body rest HWa Hb).
        destruct (IH _ c fu HWn Hds H3 H4 Hf' I Hat NR) as (c' & K & es' & E & S & Fe & I' & A' & Tr & F).
        fold rest in E.
        replace (q + blen ws0 + blen (kw_of k) + blen (utf8s body) + 1) with (q + blen (r_sdecl (SMarkup ws0 k body)))
          by (cbn [r_sdecl]; repeat (rewrite ?blen_app, ?blen_cons, ?blen_nil); clear; lia).
        rewrite E. exists c', K, es'. split.
        { f_equal. f_equal. f_equal. rewrite blen_app. clear. lia. }
        auto 10. }
      { (* a comment or a PI *)
        rewrite !andb_true_iff in Hs. destruct Hs as [H0 Hi].
        rewrite r_smisc_eq in HW, HWv |- *.
        pose proof (WV_lit _ _ _ _ HWv (s_lit _ H0)) as HWa. pose proof (WV_W _ _ _ HWa) as HWa'.
        destruct i as [? ? ? ?|?|bs|t sp v]; try discriminate.
        * assert (R : room c).
          { apply (CstFullS5Items.node_room_room _ _ NR). cbn [CstFullTree.dens]. rewrite nsizes_app. cbn [den]. rewrite nsizes_one.
            pose proof (NT.nsize_pos (CstNs.IComment (utf8s bs))). clear - H. lia. }
          rewrite (skip_spaces_st text); [|exact HW|apply s_spaces; exact H0|reflexivity].
          rewrite !(starts_with_st text) by exact HWa'.
          replace (prefix_b (b "<!ENTITY") (r_item (@IComment epieces bs) ++ rest)) with false by reflexivity.
          replace (prefix_b (b "<!--") (r_item (@IComment epieces bs) ++ rest)) with true by reflexivity.
          destruct (evf_comment [] bs (q + blen ws0) rest c Hi HWa I R) as (c1 & K1 & E1 & S1 & I1 & A1 & _ & F1 & Tr1).
          rewrite E1. cbn [bind].
          pose proof (CstFullS5Items.Stepn_nodes_len _ _ _ _ S1) as Ln1.
          rewrite (CstFullS5Items.Forall2_len_N _ _ _ F1) in Ln1. unfold len_N at 3 in Ln1. rewrite NT.tag_list_len in Ln1.
          pose proof (CstFullS5Items.Stepn_opt _ _ _ _ (proj1 S1)) as Lo1.
          replace (q + blen ws0 + blen (r_item (@IComment epieces bs))) with (q + blen (r_sdecl (SMisc ws0 (@IComment epieces bs)))) in *
            by (cbn [r_sdecl]; rewrite blen_app; clear; lia).
          destruct (IH _ c1 fu HWn Hds H3 H4 Hf' I1 A1) as (c' & K & es' & E & S & Fe & I' & A' & Tr & F).
          { unfold CstNsItems.node_room in *. rewrite Ln1, Lo1. cbn [CstFullTree.dens] in NR. rewrite nsizes_app in NR. clia. }
          fold rest in E. rewrite E. exists c', (K1 ++ K), es'. split.
          { f_equal. f_equal. f_equal. rewrite blen_app. clear. lia. }
          pose proof (sn_keep _ _ _ _ (proj1 S1)) as (_ & Ee & _).
          split.
          { apply (Stepn_trans _ (set_entities c1 (c_entities c ++ es')) _ K1 K [] []).
            - apply Stepn_set_entities. exact S1.
            - rewrite <- Ee. exact S. }
          split; [exact Fe|]. split; [exact I'|]. split; [exact A'|]. split; [rewrite Tr, Tr1; reflexivity|].
          cbn [CstFullTree.dens]. rewrite CstNsDoc.tag_list_app. apply Forall2_app.
          -- apply (kmn_Forall2_ext (c_doc c1)); [|exact F1].
             pose proof (Step0n_DocExt _ _ _ _ (proj1 S)) as X. exact X.
          -- destruct S1 as (_ & P1 & _). rewrite P1, Ln1 in F. exact F.
        * assert (R : room c).
          { apply (CstFullS5Items.node_room_room _ _ NR). cbn [CstFullTree.dens]. rewrite nsizes_app. cbn [den]. rewrite nsizes_one.
            pose proof (NT.nsize_pos (CstNs.IPI (utf8s t) sp (utf8s v))). clear - H. lia. }
          rewrite (skip_spaces_st text); [|exact HW|apply s_spaces; exact H0|reflexivity].
          rewrite !(starts_with_st text) by exact HWa'.
          replace (prefix_b (b "<!ENTITY") (r_item (@IPI epieces t sp v) ++ rest)) with false by reflexivity.
          replace (prefix_b (b "<!--") (r_item (@IPI epieces t sp v) ++ rest)) with false by reflexivity.
          replace (prefix_b (b "<?") (r_item (@IPI epieces t sp v) ++ rest)) with true by reflexivity.
          destruct (evf_pi [] t sp v (q + blen ws0) rest c Hi HWa I R) as (c1 & K1 & E1 & S1 & I1 & A1 & _ & F1 & Tr1).
          rewrite E1. cbn [bind].
          pose proof (CstFullS5Items.Stepn_nodes_len _ _ _ _ S1) as Ln1.
          rewrite (CstFullS5Items.Forall2_len_N _ _ _ F1) in Ln1. unfold len_N at 3 in Ln1. rewrite NT.tag_list_len in Ln1.
          pose proof (CstFullS5Items.Stepn_opt _ _ _ _ (proj1 S1)) as Lo1.
          replace (q + blen ws0 + blen (r_item (@IPI epieces t sp v))) with (q + blen (r_sdecl (SMisc ws0 (@IPI epieces t sp v)))) in *
            by (cbn [r_sdecl]; rewrite blen_app; clear; lia).
          destruct (IH _ c1 fu HWn Hds H3 H4 Hf' I1 A1) as (c' & K & es' & E & S & Fe & I' & A' & Tr & F).
          { unfold CstNsItems.node_room in *. rewrite Ln1, Lo1. cbn [CstFullTree.dens] in NR. rewrite nsizes_app in NR. clia. }
          fold rest in E. rewrite E. exists c', (K1 ++ K), es'. split.
          { f_equal. f_equal. f_equal. rewrite blen_app. clear. lia. }
          pose proof (sn_keep _ _ _ _ (proj1 S1)) as (_ & Ee & _).
          split.
          { apply (Stepn_trans _ (set_entities c1 (c_entities c ++ es')) _ K1 K [] []).
            - apply Stepn_set_entities. exact S1.
            - rewrite <- Ee. exact S. }
          split; [exact Fe|]. split; [exact I'|]. split; [exact A'|]. split; [rewrite Tr, Tr1; reflexivity|].
          cbn [CstFullTree.dens]. rewrite CstNsDoc.tag_list_app. apply Forall2_app.
          -- apply (kmn_Forall2_ext (c_doc c1)); [|exact F1].
             pose proof (Step0n_DocExt _ _ _ _ (proj1 S)) as X. exact X.
          -- destruct S1 as (_ & P1 & _). rewrite P1, Ln1 in F. exact F. }
Qed.

End Build.

Section Doctype9.
Variable text : bytes.
Variable D : list Scope.binding.
Hypothesis HD : forall l, NoDup l -> incl l D -> N.of_nat (length l) <= 65535.

Notation W := (CstLex.W text).
Notation WV := (CstULex.WV text).
Notation st := (CstLex.st text).
Notation ev := (tok_ev text).
Notation CIn := (CstNsBuild.CIn text D).
Notation kmn := (CstNsBuild.kmn text).
Notation node_room := CstNsItems.node_room.
Notation dens0 := (CstFullTree.dens epieces M0).

Lemma doctype_start_ok9 p t post : WV p (r_doctype6 t ++ post) -> wf_doctype9 t = true ->
  let pt := p + 9 + blen (z_ws1 t) + blen (utf8s (z_name t)) + blen (z_ws2 t) + blen (r_ext_opt (z_ext t)) in
  parse_doctype_start text (st p (r_doctype6 t ++ post)) = Ok (st pt (dt_tail6 t post)) /\ WV pt (dt_tail6 t post).
Proof.
  intros HWv Hwf pt. unfold wf_doctype9 in Hwf. rewrite !andb_true_iff in Hwf. destruct Hwf as [[[[H1 Hn] H2] Hext] Hsub].
  destruct (s1_parts _ H1) as [Hne1 Hw1].
  rewrite r_doctype6_eq in *. pose proof (WV_W _ _ _ HWv) as HW.
  destruct (dt_tail6_head t post) as (b0 & tl & Et & Hb0).
  assert (Hb0sp : byte_is_space b0 = false) by (destruct Hb0 as [-> | ->]; reflexivity).
  assert (Hb0n : not_name_byte b0) by (destruct Hb0 as [-> | ->]; [apply not_name_91|apply not_name_62]).
  unfold parse_doctype_start.
  rewrite (advance_st text 9 p E.kw_doctype) by (try reflexivity; exact HW). cbn [bind].
  pose proof (WV_lit _ _ _ _ HWv (eq_refl : forallb (fun y => y <? 128) E.kw_doctype = true)) as HWa. change (blen E.kw_doctype) with 9 in HWa.
  destruct (SL.name7_head _ Hn) as (n0 & nr & En & Hnsp).
  rewrite (consume_spaces_s text); [|apply (WV_W _ _ _ HWa)|exact Hne1|exact Hw1|rewrite En; cbn [app stops]; exact Hnsp]. cbn [bind].
  pose proof (WV_lit _ _ _ _ HWa (s_lit _ Hw1)) as HWb.
  assert (Hmid : exists m0 ml, r_ext_opt (z_ext t) ++ dt_tail6 t post = m0 :: ml /\ byte_is_space m0 = false /\
                               (z_ws2 t = [] -> not_name_byte m0)).
  { destruct (z_ext t) as [[x w]|]; cbn [r_ext_opt r_opt fst snd app].
    - rewrite <- app_assoc. destruct (extid_head x (w ++ dt_tail6 t post)) as (e0 & el & Ee & _ & He). rewrite Ee.
      eexists. eexists. split; [reflexivity|]. split; [exact He|]. intros E2. rewrite !andb_true_iff in Hext.
      destruct Hext as [[Hx _] _]. rewrite E2 in Hx. discriminate.
    - rewrite Et. eexists. eexists. split; [reflexivity|]. split; [exact Hb0sp|]. intros _. exact Hb0n. }
  destruct Hmid as (m0 & ml & Em & Hm0 & Hm0n).
  rewrite skip_name7_top; [|exact HWb|exact Hn|].
  2:{ destruct (z_ws2 t) as [|x w] eqn:E2; [cbn [app]; rewrite Em; apply Hm0n; reflexivity|].
      cbn [app name_stop]. apply s_not_name_byte. cbn [wf_s forallb] in H2. apply andb_true_iff in H2. apply H2. }
  cbn [bind]. pose proof (WV_app _ _ _ _ HWb (SL.name7_valid _ Hn)) as HWc.
  rewrite (skip_spaces_st text); [|apply (WV_W _ _ _ HWc)|apply s_spaces; exact H2|rewrite Em; exact Hm0].
  pose proof (WV_lit _ _ _ _ HWc (s_lit _ H2)) as HWd. pose proof (WV_W _ _ _ HWd) as HWd'.
  set (pm := p + 9 + blen (z_ws1 t) + blen (utf8s (z_name t)) + blen (z_ws2 t)) in *.
  assert (Eext : (let! (_, s) := parse_external_id text (st pm (r_ext_opt (z_ext t) ++ dt_tail6 t post)) in
                  Ok (skip_spaces s)) = Ok (st pt (dt_tail6 t post)) /\ WV pt (dt_tail6 t post)).
  { unfold pt. fold pm. destruct (z_ext t) as [[x w]|]; cbn [r_ext_opt r_opt fst snd] in *.
    - rewrite !andb_true_iff in Hext. destruct Hext as [[_ Hx] Hw]. rewrite <- app_assoc in *.
      rewrite (lex_extid text _ _ _ HWd Hx). cbn [bind].
      pose proof (WV_app _ _ _ _ HWd (extid_valid _ Hx)) as HWe.
      rewrite (skip_spaces_st text); [|apply (WV_W _ _ _ HWe)|apply s_spaces; exact Hw|rewrite Et; exact Hb0sp].
      pose proof (WV_lit _ _ _ _ HWe (s_lit _ Hw)) as HWf.
      rewrite blen_app, N.add_assoc. split; [reflexivity|exact HWf].
    - cbn [app] in *. change (blen []) with 0. rewrite N.add_0_r. rewrite Et in HWd' |- *.
      rewrite (lex_extid_none text) by (try exact HWd'; clear - Hb0; lia). cbn [bind].
      rewrite (CstDoc.skip_spaces_none text) by (try exact HWd'; exact Hb0sp). rewrite <- Et. split; [reflexivity|exact HWd]. }
  destruct Eext as [Eext HWt].
  destruct (parse_external_id text (st pm (r_ext_opt (z_ext t) ++ dt_tail6 t post))) as [[fnd s1]| | |]; cbn [bind] in Eext |- *; try discriminate.
  apply ok_inj in Eext. rewrite Eext. split; [|exact HWt].
  pose proof (WV_W _ _ _ HWt) as HWt'. rewrite Et in HWt' |- *. rewrite (curr_byte_st text) by exact HWt'. cbn [bind].
  replace (negb (b0 =? 91) && negb (b0 =? 62)) with false by (clear - Hb0; lia). reflexivity.
Qed.

Lemma doctype_ok9 p t post c : WV p (r_doctype6 t ++ post) -> wf_doctype9 t = true ->
  CIn [] c -> c_after_text c = [] -> node_room c (NT.nsizes (dens0 (subset_misc6 t))) ->
  exists c' K es',
    parse_doctype text context ev (st p (r_doctype6 t ++ post)) c = Ok (st (p + blen (r_doctype6 t)) post, c') /\
    Stepn (set_entities c (c_entities c ++ es')) c' K [] /\
    Forall2 (uent_ok text) (map pd (ge_decls6 t)) es' /\
    CIn [] c' /\ c_after_text c' = [] /\ d_ns_tree (c_doc c') = d_ns_tree (c_doc c) /\
    Forall2 (kmn (c_doc c')) K (NT.tag_list [] (c_parent_id c) (len_N (d_nodes (c_doc c))) (dens0 (subset_misc6 t))).
Proof.
  intros HWv Hwf I Hat NR. destruct (doctype_start_ok9 p t post HWv Hwf) as [Est HWt]. cbv zeta in Est, HWt.
  set (pt := p + 9 + blen (z_ws1 t) + blen (utf8s (z_name t)) + blen (z_ws2 t) + blen (r_ext_opt (z_ext t))) in *.
  assert (Elen : p + blen (r_doctype6 t) = pt + blen (dt_tail6 t post) - blen post).
  { assert (E : blen (r_doctype6 t ++ post) = blen (r_doctype6 t) + blen post) by apply blen_app.
    rewrite r_doctype6_eq in E. unfold pt. repeat (rewrite ?blen_app in E). change (blen E.kw_doctype) with 9 in E.
    clear - E. lia. }
  unfold parse_doctype. cbv zeta. rewrite Est. cbn [bind]. clear Est.
  unfold wf_doctype9 in Hwf. rewrite !andb_true_iff in Hwf. destruct Hwf as [_ Hsub].
  pose proof (WV_W _ _ _ HWt) as HWt'.
  unfold subset_misc6, ge_decls6, subset_decls6 in *. unfold dt_tail6 in *.
  destruct (z_subset t) as [u|]; cbn [r_opt wf_opt] in *.
  - (* an internal subset *)
    unfold wf_subset9 in Hsub. rewrite !andb_true_iff in Hsub. destruct Hsub as [[Hds H3] H4].
    unfold r_subset6 in *. rewrite <- !app_assoc in *. cbn [app] in HWt, HWt' |- *.
    rewrite (CstDoc.skip_spaces_none text) by (try exact HWt'; reflexivity).
    rewrite (curr_byte_opt_st text) by exact HWt'. change (91 =? 62) with false. cbv iota.
    rewrite (advance1_st text) by exact HWt'. cbn [bind CstLex.st s_rest].
    pose proof (WV_cons _ _ _ _ HWt ltac:(lia)) as HWu.
    change (flat_map r_sdecl6 (zu_decls u) ++ zu_ws3 u ++ 93 :: zu_ws4 u ++ 62 :: post)
      with (flat_map r_sdecl6 (zu_decls u) ++ zu_ws3 u ++ [93] ++ zu_ws4 u ++ [62] ++ post) in *.
    destruct (subset_loop_ok9 text D HD p (zu_ws3 u) (zu_ws4 u) post (zu_decls u) (pt + 1) c
                (S (length (flat_map r_sdecl6 (zu_decls u) ++ zu_ws3 u ++ [93] ++ zu_ws4 u ++ [62] ++ post))) HWu Hds H3 H4)
      as (c' & K & es' & E & S & Fe & I' & A' & Tr & F); try assumption.
    { rewrite app_length. pose proof (sdecls9_len _ Hds). lia. }
    fold (st (pt + 1) (flat_map r_sdecl6 (zu_decls u) ++ zu_ws3 u ++ [93] ++ zu_ws4 u ++ [62] ++ post)).
    change (s_pos (st p (r_doctype6 t ++ post))) with p. rewrite E. exists c', K, es'. split.
    { f_equal. f_equal. f_equal. rewrite Elen. repeat (rewrite ?blen_app, ?blen_cons, ?blen_nil). clear. lia. }
    auto 10.
  - (* no internal subset *)
    cbn [app] in HWt, HWt' |- *.
    rewrite (CstDoc.skip_spaces_none text) by (try exact HWt'; reflexivity).
    rewrite (curr_byte_opt_st text) by exact HWt'. change (62 =? 62) with true. cbv iota.
    rewrite (advance1_st text) by exact HWt'. cbn [bind].
    exists c, [], []. split.
    { f_equal. f_equal. f_equal. rewrite Elen. cbn [app]. rewrite blen_cons. clear. lia. }
    split; [rewrite app_nil_r, set_entities_same; apply Stepn_refl|].
    split; [constructor|]. split; [exact I|]. split; [exact Hat|]. split; [reflexivity|constructor].
Qed.

Lemma doctype_valid9 t : wf_doctype9 t = true -> U8.Valid (r_doctype6 t).
Proof.
  unfold wf_doctype9. rewrite !andb_true_iff. intros [[[[H1 Hn] H2] Hext] Hsub]. destruct (s1_parts _ H1) as [_ Hw1].
  unfold r_doctype6. apply U8.Valid_app; [apply Valid_lit; reflexivity|]. apply U8.Valid_app; [apply s_valid; exact Hw1|].
  apply U8.Valid_app; [apply SL.name7_valid; exact Hn|]. apply U8.Valid_app; [apply s_valid; exact H2|].
  apply U8.Valid_app.
  { apply (ext_opt_valid (z_ext t)). destruct (z_ext t) as [[x w]|]; [|reflexivity]. rewrite !andb_true_iff in Hext. apply andb_true_iff. tauto. }
  apply U8.Valid_app; [|apply Valid_lit; reflexivity].
  destruct (z_subset t) as [u|]; cbn [r_opt wf_opt] in *; [|constructor].
  unfold wf_subset9 in Hsub. rewrite !andb_true_iff in Hsub. destruct Hsub as [[Hds H3] H4]. unfold r_subset6.
  apply U8.Valid_app; [apply Valid_lit; reflexivity|]. apply U8.Valid_app; [apply sdecls9_valid; exact Hds|].
  apply U8.Valid_app; [apply s_valid; exact H3|]. apply U8.Valid_app; [apply Valid_lit; reflexivity|apply s_valid; exact H4].
Qed.

End Doctype9.

Print Assumptions doctype_ok9.
