(* Proofs/CstUDoc.v -- Unicode fragment (Spec/CstU.v), M4: parse_document on the rendering of a
   well-formed document.  (Proofs/CstDoc.v with the Unicode lexer; the shape lemmas of CstDoc.v are
   applied to the encoded document.) *)
From Coq Require Import Ascii String.
From Coq Require Import List NArith PeanoNat Bool Lia ZifyBool ZifyN ZifyNat.
Import ListNotations.
From RX Require Import Generated.
From RX.Model Require Import Base CharClass Stream Tokenizer Doc Builder Parse.
From RX.Spec Require Cst CstU.
From RX.Proofs Require Import Tactics CstLex CstBuild CstTree CstItems CstDoc CstULex CstUBuild CstUItems.
Open Scope N_scope.

Definition enc_pairs (l : pairs) : pairs := map (fun x => (fst x, enc_item (snd x))) l.
Definition uwf_pairs (l : pairs) : bool :=
  forallb (fun x => Cst.wf_ws (fst x) && Cst.is_misc (snd x) && CstU.wf_item (snd x)) l.

Lemma enc_items_map l : enc_items l = map enc_item l.
Proof. induction l as [|c r IH]; [reflexivity|]. cbn [enc_items map]. rewrite IH. reflexivity. Qed.

Lemma enc_pairs_items l : map snd (enc_pairs l) = enc_items (map snd l).
Proof. unfold enc_pairs. rewrite map_map, enc_items_map, map_map. reflexivity. Qed.

Lemma upairs_valid l : uwf_pairs l = true -> U8.Valid (r_pairs (enc_pairs l)).
Proof.
  induction l as [|[w i] r IH]; intros H; [constructor|]. cbn [uwf_pairs forallb fst snd] in H.
  rewrite !andb_true_iff in H. destruct H as [[[H1 H2] H3] H4]. cbn [enc_pairs map r_pairs flat_map fst snd].
  repeat apply U8.Valid_app; [apply Valid_lit; apply ws_lit; exact H1|apply uitem_valid; exact H3|apply IH; exact H4].
Qed.

Lemma upairs_len l : uwf_pairs l = true -> (length l <= length (r_pairs (enc_pairs l)))%nat.
Proof.
  induction l as [|[w i] r IH]; intros H; [cbn; lia|]. cbn [uwf_pairs forallb fst snd] in H.
  rewrite !andb_true_iff in H. destruct H as [[[H1 H2] H3] H4]. cbn [enc_pairs map r_pairs flat_map fst snd length].
  rewrite !app_length. specialize (IH H4). unfold r_pairs, enc_pairs in IH.
  assert (Hst : exists l0, Cst.r_item (enc_item i) = 60 :: l0)
    by (apply nontext_starts; destruct i; try discriminate; reflexivity).
  destruct Hst as [l0 El0]. rewrite El0. cbn [length]. clear - IH. lia.
Qed.

Section UDoc.
Variable text : bytes.

Notation ev := (tok_ev text).
Notation st := (CstLex.st text).
Notation W := (CstLex.W text).
Notation WV := (CstULex.WV text).

Lemma misc_loop_ok_u : forall (l : pairs) p wl rest c fuel,
  WV p (r_pairs (enc_pairs l) ++ wl ++ rest) -> uwf_pairs l = true -> Cst.wf_ws wl = true -> misc_stop rest ->
  (length l < fuel)%nat -> CI c -> c_after_text c = [] -> node_room c (nsizes (map snd (enc_pairs l))) ->
  exists c' K,
    parse_misc_loop text context ev fuel (st p (r_pairs (enc_pairs l) ++ wl ++ rest)) c =
    Ok (st (p + blen (r_pairs (enc_pairs l)) + blen wl) rest, c') /\
    Step c c' K [] /\ CI c' /\ c_after_text c' = [] /\
    Forall2 (km text (d_attrs (c_doc c'))) K (tag_list (c_parent_id c) (len_N (d_nodes (c_doc c))) (map snd (enc_pairs l))).
Proof.
  induction l as [|[w i] l IH]; intros p wl rest c fuel HW Hwf Hwl (Hs1 & Hs2 & Hs3) Hf I Hat NR.
  - cbn [enc_pairs map r_pairs flat_map app tag_list] in *. change (blen []) with 0. rewrite N.add_0_r.
    destruct fuel as [|fu]; [cbn in Hf; lia|]. cbn [parse_misc_loop].
    exists c, []. split; [|split; [apply Step_refl|split; [exact I|split; [exact Hat|constructor]]]].
    pose proof (WV_W _ _ _ HW) as HW0. rewrite at_end_st by exact HW0.
    destruct (wl ++ rest) as [|x0 l0] eqn:E0.
    + apply app_eq_nil in E0. destruct E0 as [-> ->]. change (blen []) with 0. rewrite N.add_0_r. reflexivity.
    + rewrite <- E0 in *. clear E0 x0 l0. cbv zeta.
      rewrite skip_spaces_st; [|exact HW0|apply ws_spaces; exact Hwl|exact Hs1].
      pose proof (W_app _ _ _ _ HW0) as HW1.
      rewrite !starts_with_st by exact HW1.
      change (b "<!--") with [60; 33; 45; 45]. change (b "<?") with [60; 63]. rewrite Hs2, Hs3. reflexivity.
  - cbn [uwf_pairs forallb fst snd] in Hwf. rewrite !andb_true_iff in Hwf. destruct Hwf as [[[H1 H2] H3] H4].
    cbn [enc_pairs map r_pairs flat_map fst snd] in HW, NR |- *. fold (enc_pairs l) in HW, NR |- *. fold (r_pairs (enc_pairs l)) in HW |- *.
    rewrite <- !app_assoc in HW |- *.
    rewrite nsizes_cons in NR.
    cbn [length] in Hf. destruct fuel as [|fu]; [lia|]. cbn [parse_misc_loop].
    pose proof (WV_W _ _ _ HW) as HW0. rewrite at_end_st by exact HW0.
    assert (Hst : exists l0, Cst.r_item (enc_item i) = 60 :: l0)
      by (apply nontext_starts; destruct i; try discriminate; reflexivity).
    destruct Hst as [l0 El0].
    replace (match w ++ Cst.r_item (enc_item i) ++ r_pairs (enc_pairs l) ++ wl ++ rest with [] => true | _ :: _ => false end) with false
      by (rewrite El0; destruct w; reflexivity).
    cbv zeta.
    rewrite skip_spaces_st; [|exact HW0|apply ws_spaces; exact H1|rewrite El0; reflexivity].
    pose proof (WV_lit _ _ _ _ HW (ws_lit _ H1)) as HW1. pose proof (WV_W _ _ _ HW1) as HW1'.
    assert (R : room c) by (apply (node_room_room _ _ NR); pose proof (nsize_pos (enc_item i)); lia).
    pose proof (uitem_valid i H3) as Hvi.
    pose proof (WV_app _ _ _ _ HW1 Hvi) as HW2.
    destruct i as [? ? ? ?|?|bs|t s v]; try discriminate.
    + (* comment *)
      rewrite starts_with_st by exact HW1'. change (b "<!--") with [60; 33; 45; 45].
      replace (prefix_b [60; 33; 45; 45] (Cst.r_item (enc_item (Cst.IComment bs)) ++ r_pairs (enc_pairs l) ++ wl ++ rest)) with true
        by (cbn [CstU.enc_item Cst.r_item]; rewrite <- !app_assoc; rewrite prefix_b_app_same; reflexivity).
      destruct (ev_comment_u text bs (p + blen w) (r_pairs (enc_pairs l) ++ wl ++ rest) c H3 HW1 I R)
        as (c1 & K1 & E1 & S1 & I1 & A1 & _ & _ & F1 & _).
      rewrite E1. cbn [bind].
      pose proof (Step_nodes_len _ _ _ _ S1) as Ln1.
      rewrite (Forall2_len_N _ _ _ F1) in Ln1. unfold len_N at 3 in Ln1. rewrite tag_len in Ln1.
      pose proof (Step_opt _ _ _ _ (proj1 S1)) as Lo1.
      destruct (IH _ wl rest c1 fu HW2 H4 Hwl (conj Hs1 (conj Hs2 Hs3)) ltac:(clia) I1 (A1 eq_refl))
        as (c2 & K2 & E2 & S2 & I2 & A2 & F2).
      { unfold node_room in *. rewrite Ln1, Lo1. clia. }
      rewrite E2. exists c2, (K1 ++ K2). split.
      { f_equal. f_equal. f_equal. rewrite !blen_app. clia. }
      split; [apply (Step_trans _ _ _ _ _ _ _ S1 S2)|]. split; [exact I2|]. split; [exact A2|].
      cbn [map snd tag_list]. apply Forall2_app.
      * rewrite (s_attrs _ _ _ _ (proj1 S2)). apply km_Forall2_ext. exact F1.
      * destruct S1 as (_ & P1 & _). rewrite P1, Ln1 in F2. exact F2.
    + (* processing instruction *)
      rewrite !starts_with_st by exact HW1'. change (b "<!--") with [60; 33; 45; 45]. change (b "<?") with [60; 63].
      replace (prefix_b [60; 33; 45; 45] (Cst.r_item (enc_item (Cst.IPI t s v)) ++ r_pairs (enc_pairs l) ++ wl ++ rest)) with false
        by reflexivity.
      replace (prefix_b [60; 63] (Cst.r_item (enc_item (Cst.IPI t s v)) ++ r_pairs (enc_pairs l) ++ wl ++ rest)) with true
        by reflexivity.
      destruct (ev_pi_u text t s v (p + blen w) (r_pairs (enc_pairs l) ++ wl ++ rest) c H3 HW1 I R)
        as (c1 & K1 & E1 & S1 & I1 & A1 & _ & _ & F1 & _).
      rewrite E1. cbn [bind].
      pose proof (Step_nodes_len _ _ _ _ S1) as Ln1.
      rewrite (Forall2_len_N _ _ _ F1) in Ln1. unfold len_N at 3 in Ln1. rewrite tag_len in Ln1.
      pose proof (Step_opt _ _ _ _ (proj1 S1)) as Lo1.
      destruct (IH _ wl rest c1 fu HW2 H4 Hwl (conj Hs1 (conj Hs2 Hs3)) ltac:(clia) I1 (A1 eq_refl))
        as (c2 & K2 & E2 & S2 & I2 & A2 & F2).
      { unfold node_room in *. rewrite Ln1, Lo1. clia. }
      rewrite E2. exists c2, (K1 ++ K2). split.
      { f_equal. f_equal. f_equal. rewrite !blen_app. clia. }
      split; [apply (Step_trans _ _ _ _ _ _ _ S1 S2)|]. split; [exact I2|]. split; [exact A2|].
      cbn [map snd tag_list]. apply Forall2_app.
      * rewrite (s_attrs _ _ _ _ (proj1 S2)). apply km_Forall2_ext. exact F1.
      * destruct S1 as (_ & P1 & _). rewrite P1, Ln1 in F2. exact F2.
Qed.

End UDoc.

(* ------------------------------------------------------------------------------------------ *)
(* shape of the rendering of a well-formed Unicode document                                   *)
(* ------------------------------------------------------------------------------------------ *)

Definition enc_before (l : list (Cst.item * Cst.bytes)) := map (fun p => (enc_item (fst p), snd p)) l.

Lemma regroup_enc : forall l w0, regroup w0 (enc_before l) = enc_pairs (regroup w0 l).
Proof.
  induction l as [|[i w] r IH]; intros w0; [reflexivity|].
  cbn [enc_before map regroup fst snd enc_pairs]. fold (enc_before r). rewrite IH. reflexivity.
Qed.

Lemma last_ws_enc : forall l w0, last_ws w0 (enc_before l) = last_ws w0 l.
Proof. induction l as [|[i w] r IH]; intros w0; [reflexivity|]. cbn [enc_before map last_ws fst snd]. apply IH. Qed.

Lemma regroup_uwf : forall l w0, Cst.wf_ws w0 = true ->
  forallb (fun p => Cst.is_misc (fst p) && CstU.wf_item (fst p) && Cst.wf_ws (snd p)) l = true ->
  uwf_pairs (regroup w0 l) = true /\ Cst.wf_ws (last_ws w0 l) = true.
Proof.
  induction l as [|[i w] r IH]; intros w0 H0 H; cbn [regroup last_ws uwf_pairs forallb fst snd] in *; [auto|].
  rewrite !andb_true_iff in H. destruct H as [[[H1 H2] H3] H4].
  destruct (IH w H3 H4) as [I1 I2]. split; [|exact I2].
  rewrite H0, H1, H2. exact I1.
Qed.

Record udoc_parts (c : Cst.doc) : Prop := {
  up_ws0 : Cst.wf_ws (Cst.d_ws0 c) = true;
  up_wsend : Cst.wf_ws (Cst.d_ws_end c) = true;
  up_before : forallb (fun p => Cst.is_misc (fst p) && CstU.wf_item (fst p) && Cst.wf_ws (snd p)) (Cst.d_before c) = true;
  up_root : exists name attrs ws body, Cst.d_root c = Cst.IElem name attrs ws body;
  up_rootwf : CstU.wf_item (Cst.d_root c) = true;
  up_after : uwf_pairs (Cst.d_after c) = true
}.

Lemma uwf_doc_parts c : CstU.wf_doc c = true -> udoc_parts c.
Proof.
  unfold CstU.wf_doc. rewrite !andb_true_iff. intros [[[[H1 H2] H3] H4] H5].
  constructor; try assumption.
  - destruct (Cst.d_root c); try discriminate. eauto.
  - destruct (Cst.d_root c); try discriminate. exact H4.
Qed.

Lemma render_shape_u c :
  CstU.render c =
  r_pairs (enc_pairs (regroup (Cst.d_ws0 c) (Cst.d_before c))) ++ last_ws (Cst.d_ws0 c) (Cst.d_before c) ++
  Cst.r_item (enc_item (Cst.d_root c)) ++ r_pairs (enc_pairs (Cst.d_after c)) ++ Cst.d_ws_end c ++ [].
Proof.
  unfold CstU.render. rewrite render_shape. cbn [CstU.enc_doc Cst.d_ws0 Cst.d_before Cst.d_root Cst.d_after Cst.d_ws_end].
  fold (enc_before (Cst.d_before c)). rewrite regroup_enc, last_ws_enc. reflexivity.
Qed.

Lemma doc_items_u c :
  doc_items (CstU.enc_doc c) =
  map snd (enc_pairs (regroup (Cst.d_ws0 c) (Cst.d_before c))) ++ enc_item (Cst.d_root c) :: map snd (enc_pairs (Cst.d_after c)).
Proof.
  unfold doc_items. cbn [CstU.enc_doc Cst.d_ws0 Cst.d_before Cst.d_root Cst.d_after Cst.d_ws_end].
  fold (enc_before (Cst.d_before c)). rewrite <- (regroup_items (enc_before (Cst.d_before c)) (Cst.d_ws0 c)), regroup_enc.
  reflexivity.
Qed.

Lemma render_valid c : CstU.wf_doc c = true -> U8.Valid (CstU.render c).
Proof.
  intros H. apply uwf_doc_parts in H. destruct H as [H1 H2 H3 H4 H5 H6].
  destruct (regroup_uwf _ _ H1 H3) as [R1 R2].
  rewrite render_shape_u. repeat apply U8.Valid_app.
  - apply upairs_valid; exact R1.
  - apply Valid_lit, ws_lit; exact R2.
  - apply uitem_valid; exact H5.
  - apply upairs_valid; exact H6.
  - apply Valid_lit, ws_lit; exact H2.
  - constructor.
Qed.

(* ---- no BOM, no XML declaration ---- *)

Lemma bom_false_lt x l : x < 128 -> prefix_b [239; 187; 191] (x :: l) = false.
Proof. intros H. cbn [prefix_b]. replace (239 =? x) with false by lia. reflexivity. Qed.

Lemma space_not_uname x : byte_is_space x = true -> CstU.is_name_char x = false /\ x < 128.
Proof.
  intros H. assert (E : x = 32 \/ x = 9 \/ x = 10 \/ x = 13) by (revert H; cls; lia).
  destruct E as [->|[->|[->| ->]]]; split; try reflexivity; vm_compute; reflexivity.
Qed.

Lemma decl_pi_u t s v rest : pi_ok_u t s v ->
  decl_test ([60; 63] ++ utf8s t ++ s ++ utf8s v ++ [63; 62] ++ rest) = false.
Proof.
  intros Hok. pose proof (pi_after_target_u _ _ _ rest Hok) as [Hst _].
  destruct Hok as (Hn & _ & _ & _ & Hx & _).
  change ([60; 63] ++ utf8s t ++ s ++ utf8s v ++ [63; 62] ++ rest) with (60 :: 63 :: (utf8s t ++ s ++ utf8s v ++ [63; 62] ++ rest)).
  rewrite decl_test_pi.
  set (L := utf8s t ++ s ++ utf8s v ++ [63; 62] ++ rest) in *.
  destruct (nth_error L 3) as [x|] eqn:E3; [|apply andb_false_r].
  destruct (byte_is_space x) eqn:Es; [|apply andb_false_r]. rewrite andb_true_r.
  destruct (space_not_uname _ Es) as [Hxn Hxl].
  pose proof (not_xml_gen_u x t (s ++ utf8s v ++ [63; 62] ++ rest) Hn Hx Hst Hxn Hxl) as G.
  fold L in G.
  destruct L as [|a [|b0 [|c0 [|d0 L']]]]; try discriminate. cbn [nth_error] in E3. injection E3 as ->.
  cbn [prefix_b] in *. rewrite N.eqb_refl in G. rewrite !andb_true_r in *. exact G.
Qed.

Lemma root_starts_u name attrs ws body : CstU.wf_name name = true ->
  exists n l, Cst.r_item (enc_item (Cst.IElem name attrs ws body)) = 60 :: n :: l /\
              byte_is_space n = false /\ n <> 33 /\ n <> 63.
Proof.
  intros Hn. rewrite enc_item_elem, r_item_elem.
  destruct (uname_head name Hn) as (b0 & r & E & Hs & _ & _ & H33 & H63 & _). rewrite E.
  eexists. eexists. split; [reflexivity|]. auto.
Qed.

Lemma ws_head x w : Cst.wf_ws (x :: w) = true -> x <> 60 /\ x < 128.
Proof.
  cbn [Cst.wf_ws forallb]. intros H. apply andb_true_iff in H. destruct H as [H _]. unfold Cst.is_ws in H. lia.
Qed.

(* the first byte of the rendering is ASCII, and the rendering does not start with an XML declaration *)
Lemma head_render_u c : CstU.wf_doc c = true ->
  decl_test (CstU.render c) = false /\ prefix_b [239; 187; 191] (CstU.render c) = false.
Proof.
  intros H. apply uwf_doc_parts in H. destruct H as [H1 H2 H3 (name & attrs & ws & body & Er) H5 H6].
  destruct (regroup_uwf _ _ H1 H3) as [R1 R2]. rewrite render_shape_u.
  destruct (uwf_elem_parts _ _ _ _ ltac:(rewrite <- Er; exact H5)) as (Hn & _).
  destruct (root_starts_u name attrs ws body Hn) as (n & l & El & _ & _ & H63).
  destruct (regroup (Cst.d_ws0 c) (Cst.d_before c)) as [|[w i] B].
  - cbn [enc_pairs map r_pairs flat_map app]. destruct (last_ws (Cst.d_ws0 c) (Cst.d_before c)) as [|x wl].
    + cbn [app]. rewrite Er, El. cbn [app]. split; [apply decl_lt; exact H63|apply bom_false_lt; lia].
    + cbn [app]. destruct (ws_head _ _ R2). split; [apply decl_ws; assumption|apply bom_false_lt; assumption].
  - cbn [uwf_pairs forallb fst snd] in R1. rewrite !andb_true_iff in R1. destruct R1 as [[[W1 M1] I1] _].
    cbn [enc_pairs map r_pairs flat_map fst snd]. rewrite <- !app_assoc. destruct w as [|x w].
    + cbn [app]. destruct i as [? ? ? ?|?|bs|t s v]; try discriminate.
      * cbn [CstU.enc_item Cst.r_item app]. split; [apply decl_lt; clear; lia|apply bom_false_lt; clear; lia].
      * cbn [CstU.enc_item Cst.r_item]. rewrite <- !app_assoc. split; [apply decl_pi_u; apply uwf_pi; exact I1|].
        cbn [app]. apply bom_false_lt. clear. lia.
    + cbn [app]. destruct (ws_head _ _ W1). split; [apply decl_ws; assumption|apply bom_false_lt; assumption].
Qed.

(* ------------------------------------------------------------------------------------------ *)
(* parse_document                                                                             *)
(* ------------------------------------------------------------------------------------------ *)

Lemma parse_document_ok_u (c : Cst.doc) (dtd : bool) (c0 : context) :
  CstU.wf_doc c = true ->
  let text := CstU.render c in
  CI c0 -> c_after_text c0 = [] ->
  node_room c0 (nsizes (doc_items (CstU.enc_doc c))) -> attr_room c0 (nattrs (enc_item (Cst.d_root c))) ->
  exists cf K ext,
    parse_document text context (tok_ev text) dtd c0 = Ok cf /\
    Step c0 cf K ext /\ CI cf /\
    Forall2 (km text (d_attrs (c_doc cf))) K
            (tag_list (c_parent_id c0) (len_N (d_nodes (c_doc c0))) (doc_items (CstU.enc_doc c))).
Proof.
  intros Hwf text I0 A0 NR AR.
  pose proof (render_valid c Hwf) as Hvalid. fold text in Hvalid.
  pose proof (head_render_u c Hwf) as [Hdecl Hbom]. fold text in Hdecl, Hbom.
  pose proof (uwf_doc_parts c Hwf) as [H1 H2 H3 (name & attrs & ws & body & Er) H5 H6].
  clear Hwf.
  destruct (regroup_uwf _ _ H1 H3) as [R1 R2].
  assert (Etext : text = r_pairs (enc_pairs (regroup (Cst.d_ws0 c) (Cst.d_before c))) ++ last_ws (Cst.d_ws0 c) (Cst.d_before c) ++
                         Cst.r_item (enc_item (Cst.d_root c)) ++ r_pairs (enc_pairs (Cst.d_after c)) ++ Cst.d_ws_end c ++ [])
    by apply render_shape_u.
  rewrite doc_items_u in *. rewrite Er in *. clear Er H1 H3.
  set (B := regroup (Cst.d_ws0 c) (Cst.d_before c)) in *.
  set (wB := last_ws (Cst.d_ws0 c) (Cst.d_before c)) in *.
  set (A := Cst.d_after c) in *. set (wE := Cst.d_ws_end c) in *.
  set (root := enc_item (Cst.IElem name attrs ws body)) in *.
  rewrite nsizes_app, nsizes_cons in NR.
  pose proof (WV_new text Hvalid) as HW0.
  destruct (uwf_elem_parts _ _ _ _ H5) as (Hn & _).
  destruct (root_starts_u name attrs ws body Hn) as (n & l & El & Hnsp & H33 & H63). fold root in El.
  clear Hn.
  remember (Cst.r_item root ++ r_pairs (enc_pairs A) ++ wE ++ []) as rest eqn:Erest.
  assert (Hstop : misc_stop rest).
  { rewrite Erest, El. cbn [app]. split; [reflexivity|]. cbn [prefix_b].
    replace (33 =? n) with false by clia. replace (63 =? n) with false by clia. split; reflexivity. }
  assert (Hdt : prefix_b [60; 33; 68; 79; 67; 84; 89; 80; 69] rest = false).
  { rewrite Erest, El. cbn [app prefix_b]. replace (33 =? n) with false by clia. rewrite andb_false_r. reflexivity. }
  assert (Hcb : forall p, CstLex.W text p rest ->
            match curr_byte_opt (CstLex.st text p rest) with Some x => x =? 60 | None => false end = true).
  { intros p HWp. rewrite Erest, El in *. cbn [app] in *. rewrite curr_byte_opt_st by exact HWp. reflexivity. }
  clear El.
  unfold parse_document. rewrite st_new.
  rewrite starts_with_st by exact (WV_W _ _ _ HW0). rewrite Hbom. cbn [bind].
  unfold starts_with_declaration. rewrite starts_with_st, avail_st by exact (WV_W _ _ _ HW0).
  change (b "<?xml") with [60; 63; 120; 109; 108]. fold (decl_test text). rewrite Hdecl. cbn [bind].
  (* prolog *)
  unfold parse_misc. cbn [CstLex.st s_rest].
  fold (CstLex.st text 0 text).
  assert (HW0' : WV text 0 (r_pairs (enc_pairs B) ++ wB ++ rest)) by (rewrite <- Etext; exact HW0).
  replace (CstLex.st text 0 text) with (CstLex.st text 0 (r_pairs (enc_pairs B) ++ wB ++ rest))
    by (rewrite <- Etext; reflexivity).
  assert (Elen : length text = length (r_pairs (enc_pairs B) ++ wB ++ rest)) by (rewrite <- Etext; reflexivity).
  destruct (misc_loop_ok_u text B 0 wB rest c0 (S (length text)) HW0' R1 R2 Hstop)
    as (c1 & K1 & E1 & S1 & I1 & A1 & F1).
  { pose proof (upairs_len B R1). rewrite Elen, app_length. clia. }
  { exact I0. } { exact A0. } { unfold node_room in *. clia. }
  rewrite E1. cbn [bind]. clear E1.
  pose proof (WV_app _ _ _ _ HW0' (upairs_valid B R1)) as HWa.
  pose proof (WV_lit _ _ _ _ HWa (ws_lit _ R2)) as HW1v. pose proof (WV_W _ _ _ HW1v) as HW1.
  set (p1 := 0 + blen (r_pairs (enc_pairs B)) + blen wB) in *.
  rewrite skip_spaces_none by (try exact HW1; apply Hstop).
  rewrite starts_with_st by exact HW1. change (b "<!DOCTYPE") with [60; 33; 68; 79; 67; 84; 89; 80; 69].
  rewrite Hdt.
  cbn [bind]. rewrite skip_spaces_none by (try exact HW1; apply Hstop).
  rewrite (Hcb p1 HW1).
  (* root *)
  pose proof (Step_nodes_len _ _ _ _ S1) as Ln1.
  rewrite (Forall2_len_N _ _ _ F1) in Ln1. unfold len_N at 3 in Ln1. rewrite tag_list_len in Ln1.
  pose proof (Step_opt _ _ _ _ (proj1 S1)) as Lo1.
  pose proof (Step_attrs_len _ _ _ _ (proj1 S1)) as La1. change (len_N []) with 0 in La1.
  rewrite Erest in HW1v |- *.
  destruct (root_ok_u text name attrs ws body p1 (r_pairs (enc_pairs A) ++ wE ++ []) c1 H5 HW1v I1)
    as (c2 & K2 & e2 & E2 & S2 & I2 & A2 & _ & _ & F2 & L2).
  { unfold node_room in *. rewrite Ln1, Lo1. fold root. clia. }
  { unfold attr_room in *. rewrite La1. fold root. clia. }
  fold root in E2, S2, A2, F2, L2, HW1v.
  rewrite E2. cbn [bind]. clear E2.
  pose proof (WV_app _ _ _ _ HW1v (uitem_valid _ H5)) as HW2. fold root in HW2.
  set (p2 := p1 + blen (Cst.r_item root)) in *.
  pose proof (Step_nodes_len _ _ _ _ S2) as Ln2.
  rewrite (Forall2_len_N _ _ _ F2) in Ln2. unfold len_N at 3 in Ln2. rewrite tag_len in Ln2.
  pose proof (Step_opt _ _ _ _ (proj1 S2)) as Lo2.
  (* epilog *)
  unfold parse_misc. cbn [CstLex.st s_rest]. fold (CstLex.st text p2 (r_pairs (enc_pairs A) ++ wE ++ [])).
  destruct (misc_loop_ok_u text A p2 wE [] c2
              (S (length (r_pairs (enc_pairs A) ++ wE ++ []))) HW2 H6 H2)
    as (c3 & K3 & E3 & S3 & I3 & A3 & F3).
  { split; [exact Logic.I|split; reflexivity]. }
  { pose proof (upairs_len A H6). rewrite app_length. clia. }
  { exact I2. } { apply A2. reflexivity. }
  { unfold node_room in *. rewrite Ln2, Lo2, Ln1, Lo1. clia. }
  rewrite E3. cbn [bind]. clear E3.
  pose proof (WV_W _ _ _ HW2) as HW2'.
  pose proof (W_app _ _ _ _ HW2') as HWb. pose proof (W_app _ _ _ _ HWb) as HW3.
  rewrite at_end_st by exact HW3. cbn [negb].
  exists c3, (K1 ++ K2 ++ K3), ([] ++ e2 ++ []). split; [reflexivity|].
  split; [apply (Step_trans _ _ _ _ _ _ _ S1 (Step_trans _ _ _ _ _ _ _ S2 S3))|]. split; [exact I3|].
  rewrite tag_list_app. cbn [tag_list].
  destruct S1 as (S1 & P1 & _). destruct S2 as (S2 & P2 & _). destruct S3 as (S3 & _ & _).
  apply Forall2_app; [|apply Forall2_app].
  - rewrite (s_attrs _ _ _ _ S3), (s_attrs _ _ _ _ S2), <- app_assoc. apply km_Forall2_ext. exact F1.
  - rewrite (s_attrs _ _ _ _ S3). apply km_Forall2_ext. rewrite P1, Ln1 in F2. exact F2.
  - rewrite P2, P1, Ln2, Ln1 in F3. exact F3.
Qed.

Print Assumptions misc_loop_ok_u.
Print Assumptions parse_document_ok_u.
