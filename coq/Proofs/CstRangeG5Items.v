(* Proofs/CstRangeG5Items.v -- C13 / C18 on the capstone fragment, stage S5: CstRangeFItems.v (the frame
   induction with the observations [ExtraF]) for the well-formedness conditions of Spec/CstFullS5.v,
   where markup white space is the production S: the scripts are those of CstRangeFItems.v with the
   adaptation that turns CstFullItems.v into CstFullS5Items.v.  The observations, [ExtraF] and the
   statement [PIf_r] for a run of character data are those of CstRangeFItems.v (the latter up to
   conversion), so the obligations a stage has discharged there are reused as they are. *)
From Coq Require Import Ascii String.
From Coq Require Import List NArith PeanoNat Bool Lia ZifyBool ZifyN ZifyNat.
Import ListNotations.
From RX Require Import Generated.
From RX.Model Require Import Base CharClass Stream Tokenizer Doc Builder Parse.
From RX.Spec Require Cst Scope CstNs CstU Chars.
From RX.Spec Require Import CstFull CstFullS5.
From RX.Proofs Require Import Tactics CstLex CstBuild CstNsLex CstNsView CstNsBuild CstULex CstFullLex CstFullBuild CstFullTree.
From RX.Proofs Require Import CstFullS5Ws CstFullS5Lex CstFullS5Items.
From RX.Proofs Require CstItems CstNsItems CstNsDoc CstUItems CstTextItems AttrListProofs.
From RX.Proofs Require Import CstRangeDefs CstRangeBuild CstRangeTDefs CstRangeTBuild CstRangeFDefs CstRangeFBuild.
From RX.Proofs Require Import CstRangeFItems.
Open Scope N_scope.

Ltac clia := repeat match goal with H : @eq bool _ true |- _ => clear H end; lia.

Notation text_follow := CstTextItems.text_follow.
Notation pr := CstRangeTBuild.pr.

Section FItemsR5.
Variable Sy : syntax.
Variable M : meaning Sy.
Variable run_steps : run Sy -> nat.
Variable vstore : N -> val Sy -> tstore.
Variable run_nodes : N -> run Sy -> list ((N * N) * tstore).

Notation item := (CstFull.item Sy).
Notation entry := (CstFull.entry Sy).
Notation node_room := CstNsItems.node_room.
Notation attr_room := CstNsItems.attr_room.
Notation ns_room := CstNsItems.ns_room.
Notation dens := (CstFullTree.dens Sy M).
Notation wf_items := (wf_items_s Sy M).
Notation ns_oks := CstFullTree.ns_oks.

Hypothesis Hval_lex : forall q v, wf_val M q v = true -> q = 39 \/ q = 34 -> uval_ok q (r_val Sy v).
Hypothesis Hrun_valid : forall r, wf_run M r = true -> U8.Valid (r_run Sy r).
Hypothesis Hrun_steps : forall r, wf_run M r = true -> (1 <= run_steps r <= length (r_run Sy r))%nat.

Variable text : bytes.
Variable D : list Scope.binding.
Hypothesis HD : forall l, NoDup l -> incl l D -> N.of_nat (length l) <= 65535.
Variable es0 : list entity.

Notation ev := (tok_ev text).
Notation loop := (parse_content_loop text context (tok_ev text)).
Notation st := (CstLex.st text).
Notation W := (CstLex.W text).
Notation WV := (CstULex.WV text).
Notation CIn := (CstNsBuild.CIn text D).
Notation NC := (CstFullBuild.NC es0).
Notation kmn := (CstNsBuild.kmn text).
Notation NsVals := (CstRangeFBuild.NsVals text).
Notation pair_of := (CstNsBuild.pair_of text).

Notation fnode_of := (CstRangeFDefs.fnode_of Sy run_nodes).
Notation fitem_aspans := (CstRangeFDefs.fitem_aspans Sy vstore).
Notation fitem_decls := (CstRangeFDefs.fitem_decls Sy M vstore).
Notation entries_aspans := (CstRangeFDefs.entries_aspans Sy vstore).
Notation entries_decls := (CstRangeFDefs.entries_decls Sy M vstore).
Notation fitems_at := (CstRangeFDefs.fitems_at Sy).

Hypothesis Hval_norm_r : forall q v p more, wf_val M q v = true -> q = 39 \/ q = 34 ->
  WV p (r_val Sy v ++ [q] ++ more) ->
  exists stor, norm_ok text es0 (sl p (p + blen (r_val Sy v))) stor /\ storage_bytes text stor = val_sem M v /\
               stored stor (vstore p v).

Notation ExtraF := (CstRangeFItems.ExtraF Sy M vstore run_nodes text).
Notation ExtraF_app := (CstRangeFItems.ExtraF_app Sy M vstore run_nodes text).
Notation ExtraF_nil := (CstRangeFItems.ExtraF_nil Sy M vstore run_nodes text).
Notation NsVals_same := (CstRangeFItems.NsVals_same text).
Notation fitems_list := (CstRangeFItems.fitems_list Sy).
Notation fitems_at_elem := (CstRangeFItems.fitems_at_elem Sy).
Notation fnode_elem := (CstRangeFItems.fnode_elem Sy run_nodes).
Notation fspan_elem_empty := (CstRangeFItems.fspan_elem_empty Sy M vstore run_nodes Hval_lex text D HD es0 Hval_norm_r).
Notation fspan_elem_open := (CstRangeFItems.fspan_elem_open Sy M vstore run_nodes Hval_lex text D HD es0 Hval_norm_r).
Notation NsVals_of_push := (CstRangeFItems.NsVals_of_push text).
Notation Hval_norm := (CstRangeFItems.Hval_norm Sy M vstore text es0 Hval_norm_r).
Notation uq_of := (CstFullS5Items.uq_of).
Notation uq_local_ne := (CstFullS5Items.uq_local_ne).
Notation layout_quote := (CstFullS5Items.layout_quote).
Notation uentry_of := (CstFullS5Items.uentry_of Sy M Hval_lex).
Notation uentries_of := (CstFullS5Items.uentries_of Sy M Hval_lex).
Notation r_entries_x := (CstFullS5Items.r_entries_x Sy).
Notation uentries_valid := (CstFullS5Items.uentries_valid Sy M Hval_lex).
Notation fitem_valid := (CstFullS5Items.fitem_valid Sy M Hval_lex Hrun_valid).
Notation fitems_valid := (CstFullS5Items.fitems_valid Sy M Hval_lex Hrun_valid).
Notation nontext_follow := (CstFullS5Items.nontext_follow Sy M).
Notation close_follow := (CstFullS5Items.close_follow).
Notation steps_le := (CstFullS5Items.steps_le Sy M run_steps Hrun_steps).
Notation steps_list_le := (CstFullS5Items.steps_list_le Sy M run_steps Hrun_steps).
Notation Stepn_NC := (CstFullS5Items.Stepn_NC es0).
Notation sentries_of := (CstFullS5Items.sentries_of Sy M Hval_lex text es0 Hval_norm).
Notation evf_comment := (CstFullS5Items.evf_comment Sy M Hval_lex text D HD es0 Hval_norm).
Notation evf_pi := (CstFullS5Items.evf_pi Sy M Hval_lex text D HD es0 Hval_norm).
Notation loop_elem_f := (CstFullS5Items.loop_elem_f Sy M Hval_lex text D HD es0 Hval_norm).
Notation felem_parts := (CstFullS5Items.felem_parts Sy M).
Notation nsizes_den_elem := (CstFullS5Items.nsizes_den_elem Sy M D HD).
Notation nattrs_den_elem := (CstFullS5Items.nattrs_den_elem Sy M).
Notation ns_costs_den_elem := (CstFullS5Items.ns_costs_den_elem Sy M).
Notation decls_den_elem := (CstFullS5Items.decls_den_elem Sy M).
Notation start_tag_f := (CstFullS5Items.start_tag_f Sy M Hval_lex text D HD es0 Hval_norm).
Notation Stepn_nodes_len := (CstFullS5Items.Stepn_nodes_len).
Notation Stepn_attrs_len := (CstFullS5Items.Stepn_attrs_len).
Notation Stepn_opt := (CstFullS5Items.Stepn_opt).
Notation kmn_Forall2_ext := (CstFullS5Items.kmn_Forall2_ext text D HD).
Notation elem_ok := (CstFullS5Items.elem_ok Sy M).
Notation PIf := (CstFullS5Items.PIf Sy M run_steps text D es0).
Notation PLf := (CstFullS5Items.PLf Sy M run_steps text D es0).
Notation steps := (CstFullS5Items.steps Sy run_steps).
Notation steps_list := (CstFullS5Items.steps_list Sy run_steps).
Notation steps_elem := (CstFullS5Items.steps_elem Sy run_steps).
Notation is_elem := (CstFullS5Items.is_elem Sy).
Notation eo_name := (CstFullS5Items.eo_name Sy M).
Notation eo_es := (CstFullS5Items.eo_es Sy M).
Notation eo_ws := (CstFullS5Items.eo_ws Sy M).
Notation eo_n1 := (CstFullS5Items.eo_n1 Sy M).
Notation eo_ns := (CstFullS5Items.eo_ns Sy M).
Notation eo_n6 := (CstFullS5Items.eo_n6 Sy M).
Notation eo_n2e := (CstFullS5Items.eo_n2e Sy M).
Notation eo_n2a := (CstFullS5Items.eo_n2a Sy M).
Notation eo_n7 := (CstFullS5Items.eo_n7 Sy M).
Notation node_room_room := (CstFullS5Items.node_room_room).
Notation Forall2_len_N := (CstFullS5Items.Forall2_len_N).
Notation same_tn := (CstFullS5Items.same_tn).
Notation x_qname_xq := (CstFullS5Items.x_qname_xq).

(* ---- the entries of a start tag rendered at q, with what is observed of them ---- *)
Lemma sentries_of_r more : forall es q, WV q (flat_map r_entry es ++ more) -> forallb (wf_entry_s M) es = true ->
  exists xs, raws xs = map (x_entry Sy (r_val Sy)) es /\ CstFullBuild.dens xs = map (x_entry Sy (val_sem M)) es /\
             sentries_ok text es0 q xs /\
             Forall2 ta_obs (tas_g q xs) (entries_aspans q es) /\
             sdecls q xs = map (fun kd => (fst kd, nsv_of (snd kd))) (entries_decls q es).
Proof.
  induction es as [|e es IH]; intros q HW Hwf.
  - exists []. repeat split. constructor.
  - cbn [forallb] in Hwf. apply andb_true_iff in Hwf. destruct Hwf as [H1 H2].
    cbn [flat_map] in HW. rewrite <- app_assoc in HW.
    pose proof (uentry_valid_s _ (uentry_of e H1)) as Hv. change (CstNs.r_entry (x_entry Sy (r_val Sy) e)) with (r_entry e) in Hv.
    destruct (IH (q + blen (r_entry e)) (WV_app _ _ _ _ HW Hv) H2) as (xs & E1 & E2 & E3 & E4 & E5).
    assert (Hl : wf_layout_s (e_layout Sy e) = true /\ wf_val M (CstNs.l_quote (e_layout Sy e)) (e_value Sy e) = true).
    { unfold wf_entry_s in H1. rewrite !andb_true_iff in H1. tauto. }
    destruct Hl as [Hl Hvw]. pose proof (layout_quote _ Hl) as Hq.
    set (re := x_entry Sy (r_val Sy) e).
    assert (Ere : CstNs.e_layout re = e_layout Sy e /\ CstNs.e_value re = r_val Sy (e_value Sy e)) by (destruct e; split; reflexivity).
    destruct Ere as [Ere1 Ere2].
    assert (Epos : q + blen (CstNs.l_ws (CstNs.e_layout re)) + blen (CstNs.r_qname (e_qname re)) + blen (CstNs.l_ws1 (CstNs.e_layout re)) + 1
                   + blen (CstNs.l_ws2 (CstNs.e_layout re)) + 1 = e_vstart Sy q e).
    { unfold e_vstart, e_name_end, e_start, nlen, blen. fold re. rewrite e_name_qname, Ere1. reflexivity. }
    (* the value stands between the quotes *)
    assert (HWv : WV (e_vstart Sy q e)
                     (r_val Sy (e_value Sy e) ++ [CstNs.l_quote (e_layout Sy e)] ++ (flat_map r_entry es ++ more))).
    { rewrite <- Epos.
      destruct (uentry_parts_s _ (uentry_of e H1)) as (_ & Hw & Hw1 & Hw2 & Hqq & _ & Hn). fold re in Hw, Hw1, Hw2, Hqq, Hn.
      rewrite Ere1 in Hw, Hw1, Hw2, Hqq.
      revert HW. change (r_entry e) with (CstNs.r_entry re). unfold CstNs.r_entry. cbv zeta.
      rewrite e_name_qname, Ere2, Ere1, <- !app_assoc. intros HW.
      pose proof (WV_lit _ _ _ _ HW (s_lit _ Hw)) as A1.
      pose proof (WV_app _ _ _ _ A1 (uq_valid _ Hn)) as A2.
      pose proof (WV_lit _ _ _ _ A2 (s_lit _ Hw1)) as A3.
      pose proof (WV_lit _ _ _ _ A3 (eq_refl : forallb (fun y => y <? 128) [61] = true)) as A4. change (blen [61]) with 1 in A4.
      pose proof (WV_lit _ _ _ _ A4 (s_lit _ Hw2)) as A5.
      assert (Hq1 : forallb (fun y => y <? 128) [CstNs.l_quote (e_layout Sy e)] = true) by (cbn; destruct Hqq as [-> | ->]; reflexivity).
      pose proof (WV_lit _ _ _ _ A5 Hq1) as A6. change (blen [CstNs.l_quote (e_layout Sy e)]) with 1 in A6. exact A6. }
    destruct (Hval_norm_r _ _ _ _ Hvw Hq HWv) as (stor & Hn & Hs & Hsd).
    exists ({| s_raw := re; s_den := x_entry Sy (val_sem M) e; s_stor := stor |} :: xs).
    cbn [raws CstFullBuild.dens map s_raw s_den]. fold (raws xs). fold (CstFullBuild.dens xs). rewrite E1, E2.
    split; [reflexivity|]. split; [reflexivity|]. split.
    { cbn [sentries_ok s_raw]. split; [|exact E3].
      split; [destruct e; reflexivity|]. cbn [s_raw s_den s_stor]. split.
      + unfold vsl. cbv zeta. rewrite Epos, Ere2. exact Hn.
      + rewrite Hs. destruct e; reflexivity. }
    change (r_entry e) with (CstNs.r_entry re) in E4, E5.
    rewrite tas_g_cons. cbn [sdecls entries_aspans entries_decls s_raw].
    change (nlen (r_entry e)) with (blen (CstNs.r_entry re)). rewrite map_app.
    split; [apply Forall2_app; [|exact E4]|f_equal; [|exact E5]].
    + (* an ordinary attribute *)
      subst re. cbn [tas_g s_den s_raw s_stor]. destruct e as [l n v|l p v]; cbn [x_entry entry_aspans app]; [|constructor].
      constructor; [|constructor]. unfold ta_obs, ta_g, ta_e. cbv zeta.
      cbn [ta_range ta_local ta_value ta_qname_len ta_eq_len fa_range fa_qname fa_local fa_value fa_store fst snd].
      assert (Hnq : wf_qname n = true) by (unfold wf_entry_s in H1; rewrite !andb_true_iff in H1; tauto).
      unfold e_vend, e_vstart, e_name_end, e_start, nlen, blen in *. cbn [x_entry e_layout e_value CstNs.e_layout CstNs.e_value CstNs.e_name e_qname] in *.
      rewrite fq_off_q_off. unfold pr. cbn [sl sl_start sl_end].
      split; [f_equal; lia|]. split; [reflexivity|]. split; [f_equal; lia|]. split; [f_equal; lia|]. exact Hsd.
    + (* a declaration *)
      subst re. unfold sdecl_rec. cbn [s_den s_raw s_stor]. destruct e as [l n v|l p v]; cbn [x_entry entry_decls map]; [reflexivity|].
      change (bytes_eqb (utf8s p) ns_xml_prefix) with (Scope.bytes_eqb (utf8s p) Scope.xml_prefix).
      destruct (Scope.bytes_eqb (utf8s p) Scope.xml_prefix); [reflexivity|]. cbn [map fst snd]. f_equal. f_equal.
      * destruct p as [|x0 pr0]; [reflexivity|]. destruct (utf8s (x0 :: pr0)) eqn:Eu; [apply (proj1 (utf8s_nil_iff _)) in Eu; discriminate Eu|]. reflexivity.
      * unfold nsv_of. cbn [fn_prefix fn_uri]. pose proof (stored_stor_of _ _ Hsd) as Es. cbn [e_value] in Es. rewrite <- Es. f_equal.
        destruct p as [|x0 pr0]; [reflexivity|].
        destruct (utf8s (x0 :: pr0)) as [|y0 yr] eqn:Eu; [apply (proj1 (utf8s_nil_iff _)) in Eu; discriminate Eu|]. rewrite <- Eu.
        f_equal. f_equal. unfold ta_e. cbv zeta. cbn [ta_local]. unfold sl_of. cbn [fst snd].
        unfold e_name_end, e_start, nlen, blen, q_off. cbn [x_entry e_layout CstNs.e_layout CstNs.e_name e_qname CstNs.q_prefix].
        rewrite Eu. rewrite <- Eu. cbn [e_qname CstNs.q_prefix CstNs.r_qname CstNs.q_local]. rewrite Eu. rewrite <- Eu.
        unfold CstNs.xmlns_b. rewrite !app_length. cbn [length]. f_equal; lia.
Qed.

(* the start tag: lexer + builder, with what is observed *)
Lemma start_tag_f_r inh p name es ws empty post c :
  WV p ([60] ++ r_qname name ++ flat_map r_entry es ++ ws ++ tag_tail empty ++ post) ->
  elem_ok inh name es ws ->
  let des := map (x_entry Sy (val_sem M)) es in
  let own := CstNs.own_bindings des in
  let sc := NT.esc des inh in
  incl own D -> CIn inh c -> NC c -> room c -> c_after_text c = [] ->
  len_N (d_attrs (c_doc c)) + N.of_nat (NT.nea des) < u32_max ->
  len_N (d_ns_tree (c_doc c)) + own_cost own sc <= u32_max ->
  let q' := p + 1 + blen (r_qname name) + blen (flat_map r_entry es) + blen ws in
  exists c' kind ext,
    parse_element text context ev (st p ([60] ++ r_qname name ++ flat_map r_entry es ++ ws ++ tag_tail empty ++ post)) c =
    Ok (negb empty, st (q' + blen (tag_tail empty)) post, c') /\
    Step0n c c' [(Some (c_parent_id c), kind)] ext /\ length ext = NT.nea des /\
    (forall m, kmn (c_doc c') (Some (c_parent_id c), kind) (c_parent_id c, NT.elem_v inh (x_qname name) des m)) /\
    c_after_text c' = [] /\ tn_set c' /\
    len_N (d_ns_tree (c_doc c')) = len_N (d_ns_tree (c_doc c)) + own_cost own sc /\
    (fkshape kind (TSElem (p + 1 + fq_off name, p + 1 + nlen (r_qname name))) /\
     Forall2 fattr_obs ext (entries_aspans (p + 1 + nlen (r_qname name)) es) /\
     rng c' = rng c ++ [(p, q' + blen (tag_tail empty))] /\
     NsVals (d_ns_values (c_doc c)) (d_ns_values (c_doc c')) (entries_decls (p + 1 + nlen (r_qname name)) es)) /\
    if empty
    then CIn inh c' /\ c_parent_id c' = c_parent_id c /\ c_parent_prefixes c' = c_parent_prefixes c
    else CstNsBuild.CIn text D sc c' /\ c_parent_id c' = len_N (d_nodes (c_doc c)) /\
         c_parent_prefixes c' = c_parent_prefixes c ++ [sl (p + 1) (p + 1 + blen (CstNs.q_prefix (x_qname name)))] /\
         c_awaiting c' = [].
Proof.
  intros HW [Hn Hes Hw N1 Hns N6 N2e N2a N7] des own sc HinD I HC R Hat AR SR. cbv zeta.
  pose proof (WV_lit _ _ _ _ HW (eq_refl : forallb (fun y => y <? 128) [60] = true)) as HW1. change (blen [60]) with 1 in HW1.
  pose proof (WV_app _ _ _ _ HW1 (uq_valid _ (uq_of _ Hn))) as HW2.
  destruct (sentries_of_r _ es _ HW2 Hes) as (xs & E1 & E2 & Hok & E4 & E5).
  assert (Hns' : forallb CstFull.ns_entry_ok (CstFullBuild.dens xs) = true) by (rewrite E2; exact Hns).
  unfold r_qname in *. rewrite r_entries_x in *. rewrite <- E1 in *.
  rewrite (lex_element_full_s text context ev p (x_qname name) (raws xs) ws empty post c HW (uq_of _ Hn))
    by (try exact Hw; rewrite E1; apply uentries_of; exact Hes).
  cbv zeta.
  destruct (start_tag_ok_g text D HD es0 inh p (x_qname name) xs ws empty post c (WV_W _ _ _ HW) (uq_local_ne _ Hn) N1 Hok)
    as (c' & kind & ext & E & S0 & Lx & Hkm & A & T & Tr & Hrest); try (rewrite E2; assumption); try assumption.
  { rewrite E2, NT.sem_attrs_len. exact AR. }
  pose proof E as E00.
  assert (HX : fkshape kind (TSElem (p + 1 + fq_off name, p + 1 + nlen (r_qname name))) /\
               Forall2 fattr_obs ext (entries_aspans (p + 1 + nlen (r_qname name)) es) /\
               rng c' = rng c ++ [(p, p + 1 + blen (CstNs.r_qname (x_qname name)) + blen (flat_map CstNs.r_entry (raws xs)) + blen ws + blen (tag_tail empty))] /\
               NsVals (d_ns_values (c_doc c)) (d_ns_values (c_doc c')) (entries_decls (p + 1 + nlen (r_qname name)) es)).
  { cbv zeta in E00.
    destruct (start_tag_obs text D HD es0 p (x_qname name) xs _ empty _ c c' (WV_W _ _ _ HW2) Hok Hns' HC Hat (cn_cur _ _ _ _ I) E00)
      as (tns & ar & nss & new & K2 & A2 & F2 & V2 & Kk & Rg).
    pose proof (f_equal (map snd) (sn_nodes _ _ _ _ S0)) as Ek. rewrite map_app, !absn_kinds in Ek. cbn [map snd] in Ek.
    unfold kinds in K2. rewrite K2 in Ek. apply app_inv_head in Ek. injection Ek as Ek.
    pose proof (sn_attrs _ _ _ _ S0) as Ea0. rewrite A2 in Ea0. apply app_inv_head in Ea0.
    split; [rewrite <- Ek; cbn [fkshape]; rewrite fq_off_q_off; reflexivity|].
    split; [rewrite <- Ea0; apply (copied_obs _ _ _ F2 E4)|].
    split; [rewrite Rg; destruct empty; reflexivity|].
    apply (NsVals_of_push _ _ _ _ E5 Kk V2). }
  rewrite E2 in *. cbv zeta in E. apply bind_ok in E. destruct E as (c1 & Ea & Eb).
  rewrite Ea. cbn [bind]. rewrite Eb. cbn [bind].
  exists c', kind, ext. split; [reflexivity|]. split; [exact S0|]. split; [rewrite Lx, NT.sem_attrs_len; reflexivity|].
  split; [exact Hkm|]. split; [exact A|]. split; [exact T|]. split; [exact Tr|]. split; [|exact Hrest].
  destruct HX as (X1 & X2 & X3 & X4). split; [exact X1|]. split; [exact X2|]. split; [|exact X4].
  rewrite X3. rewrite E1. unfold r_qname. rewrite <- r_entries_x. reflexivity.
Qed.


(* ------------------------------------------------------------------------------------------ *)
(* the parser                                                                                 *)
(* ------------------------------------------------------------------------------------------ *)
Definition PIf_r (i : item) : Prop :=
  forall inh p post c depth fuel,
    wf_item_s M i = true -> ns_oks inh (den M i) = true -> incl (NT.items_decls (den M i)) D ->
    WV p (r_item i ++ post) -> (is_text Sy i = true -> text_follow post) ->
    CIn inh c -> NC c -> c_after_text c = [] ->
    node_room c (NT.nsizes (den M i)) -> attr_room c (NT.nattrs_items (den M i)) -> ns_room c (NT.ns_costs inh (den M i)) ->
    exists c' K ext,
      loop (steps i + fuel) depth (st p (r_item i ++ post)) c =
      loop fuel depth (st (p + blen (r_item i)) post) c' /\
      Stepn c c' K ext /\ CIn inh c' /\ c_after_text c' = [] /\ (tn_set c -> tn_set c') /\
      (is_elem i = true -> tn_set c') /\
      Forall2 (kmn (c_doc c')) K (NT.tag_list inh (c_parent_id c) (len_N (d_nodes (c_doc c))) (den M i)) /\
      length ext = NT.nattrs_items (den M i) /\
      len_N (d_ns_tree (c_doc c')) = len_N (d_ns_tree (c_doc c)) + N.of_nat (NT.ns_costs inh (den M i)) /\
      ExtraF (fitems_at p i) c c' K ext.


(* ---- what the stage supplies: runs of character data ---- *)
Hypothesis Hrun_r : forall r, PIf_r (IText r).

Lemma Hrun : forall r, PIf (IText r).
Proof.
  intros r inh p post c depth fuel H1 H2 H3 H4 H5 H6 H7 H8 H9 H10 H11.
  destruct (Hrun_r r inh p post c depth fuel H1 H2 H3 H4 H5 H6 H7 H8 H9 H10 H11) as (c' & K & ext & A1 & A2 & A3 & A4 & A5 & A6 & A7 & A8 & A9 & _).
  exists c', K, ext. repeat (split; [assumption|]). assumption.
Qed.

(* ---- comments ---- *)
Lemma evf_comment_r inh bs p post c : CstU.wf_item (Cst.IComment bs) = true ->
  WV p (r_item (@IComment Sy bs) ++ post) -> CIn inh c -> room c ->
  exists c' K,
    parse_comment text context ev (st p (r_item (@IComment Sy bs) ++ post)) c =
    Ok (st (p + blen (r_item (@IComment Sy bs))) post, c') /\
    Stepn c c' K [] /\ CIn inh c' /\ c_after_text c' = [] /\ c_tag_name c' = c_tag_name c /\
    Forall2 (kmn (c_doc c')) K (NT.tag_list inh (c_parent_id c) (len_N (d_nodes (c_doc c))) (den M (IComment bs))) /\
    d_ns_tree (c_doc c') = d_ns_tree (c_doc c) /\
    ExtraF [(p, IComment bs)] c c' K [].
Proof.
  intros Hwf HW I R. apply CstUItems.uwf_comment in Hwf.
  cbn [r_item Cst.r_item] in *. rewrite <- !app_assoc in *.
  rewrite lex_comment_u by assumption.
  destruct (tokn_comment text D HD inh (sl (p + 4) (p + 4 + blen (utf8s bs))) (p, p + 4 + blen (utf8s bs) + 3) c I R)
    as (c' & E & S0 & I' & A & T & Tr).
  rewrite E. cbn [bind].
  exists c', [(Some (c_parent_id c), KComment (sl (p + 4) (p + 4 + blen (utf8s bs))))].
  split.
  - f_equal. f_equal. f_equal. rewrite !blen_app. change (blen [60; 33; 45; 45]) with 4. change (blen [45; 45; 62]) with 3. lia.
  - split; [exact S0|]. split; [exact I'|]. split; [exact A|]. split; [exact T|]. split; [|split; [exact Tr|]].
    cbn [den NT.tag_list NT.tag app]. constructor; [|constructor]. split; [reflexivity|]. cbn [snd].
    pose proof (W_app _ _ _ _ (WV_W _ _ _ HW)) as HW1. change (blen [60; 33; 45; 45]) with 4 in HW1.
    apply (W_slice _ _ _ _ HW1).
    split; [|split; [|split]].
    + cbn. constructor; [reflexivity|constructor].
    + constructor.
    + rewrite (comment_rng text _ _ _ _ E). cbn [flat_map fnode_of fst snd app map]. unfold nlen, blen. cbn [r_item Cst.r_item].
      rewrite !app_length. cbn [length]. do 3 f_equal. lia.
    + apply NsVals_same. apply (comment_nsv text _ _ _ _ E).
Qed.



Lemma PIf_comment_r bs : PIf_r (IComment bs).
Proof.
  intros inh p post c depth fuel Hwf _ _ HW _ I HC Hat NR _ _.
  destruct (evf_comment_r inh bs p post c Hwf HW I) as (c' & K & E & S0 & I' & A & T & F & Tr & HX).
  { apply (node_room_room _ _ NR). cbn [den]. rewrite nsizes_one. apply NT.nsize_pos. }
  exists c', K, []. split.
  { cbn [steps Nat.add]. cbn [r_item Cst.r_item] in *. rewrite <- !app_assoc in *.
    rewrite (CstItems.loop_comment text) by (apply (WV_W _ _ _ HW)). rewrite E. reflexivity. }
  split; [exact S0|]. split; [exact I'|]. split; [exact A|]. split; [apply same_tn; exact T|].
  split; [discriminate|]. split; [exact F|]. split; [reflexivity|]. split; [rewrite Tr; cbn; lia|exact HX].
Qed.


Lemma evf_pi_r inh t s v p post c : wf_pi_s t s v = true ->
  WV p (r_item (@IPI Sy t s v) ++ post) -> CIn inh c -> room c ->
  exists c' K,
    parse_pi text context ev (st p (r_item (@IPI Sy t s v) ++ post)) c =
    Ok (st (p + blen (r_item (@IPI Sy t s v))) post, c') /\
    Stepn c c' K [] /\ CIn inh c' /\ c_after_text c' = [] /\ c_tag_name c' = c_tag_name c /\
    Forall2 (kmn (c_doc c')) K (NT.tag_list inh (c_parent_id c) (len_N (d_nodes (c_doc c))) (den M (IPI t s v))) /\
    d_ns_tree (c_doc c') = d_ns_tree (c_doc c) /\
    ExtraF [(p, IPI t s v)] c c' K [].
Proof.
  intros Hwf HW I R. apply swf_pi in Hwf.
  cbn [r_item Cst.r_item] in *. rewrite <- !app_assoc in *.
  rewrite lex_pi_s by assumption. cbv zeta.
  set (vs := match v with [] => None | _ :: _ => Some (sl (p + 2 + blen (utf8s t) + blen s) (p + 2 + blen (utf8s t) + blen s + blen (utf8s v))) end).
  destruct (tokn_pi text D HD inh (sl (p + 2) (p + 2 + blen (utf8s t))) vs (p, p + 2 + blen (utf8s t) + blen s + blen (utf8s v) + 2) c I R)
    as (c' & E & S0 & I' & A & T & Tr).
  rewrite E. cbn [bind].
  exists c', [(Some (c_parent_id c), KPI (sl (p + 2) (p + 2 + blen (utf8s t))) vs)].
  split.
  - f_equal. f_equal. f_equal. rewrite !blen_app. change (blen [60; 63]) with 2. change (blen [63; 62]) with 2. lia.
  - split; [exact S0|]. split; [exact I'|]. split; [exact A|]. split; [exact T|]. split; [|split; [exact Tr|]].
    cbn [den NT.tag_list NT.tag app]. constructor; [|constructor]. split; [reflexivity|]. cbn [snd].
    pose proof (W_app _ _ _ _ (WV_W _ _ _ HW)) as HW1. change (blen [60; 63]) with 2 in HW1.
    split; [apply (W_slice _ _ _ _ HW1)|].
    pose proof (W_app _ _ _ _ HW1) as HW2. pose proof (W_app _ _ _ _ HW2) as HW3.
    unfold vs. destruct v as [|x v]; [exact Logic.I|].
    assert (Hne : utf8s (x :: v) <> []).
    { rewrite utf8s_cons. pose proof (utf8_len x). destruct (utf8 x); [unfold blen in *; cbn in *; lia|discriminate]. }
    { destruct (utf8s (x :: v)) as [|y0 yr] eqn:Ey; [congruence|]. rewrite <- Ey in *. apply (W_slice _ _ _ _ HW3). }
    split; [|split; [|split]].
    + cbn [flat_map fnode_of fst snd app map]. constructor; [|constructor]. cbn [fkshape]. split; [reflexivity|].
      unfold vs. destruct v; [exact Logic.I|]. reflexivity.
    + constructor.
    + rewrite (pi_rng text _ _ _ _ _ E). cbn [flat_map fnode_of fst snd app map]. unfold nlen, blen. cbn [r_item Cst.r_item].
      rewrite !app_length. cbn [length]. do 3 f_equal. lia.
    + apply NsVals_same. apply (pi_nsv text _ _ _ _ _ E).
Qed.



Lemma PIf_pi_r t s v : PIf_r (IPI t s v).
Proof.
  intros inh p post c depth fuel Hwf _ _ HW _ I HC Hat NR _ _.
  destruct (evf_pi_r inh t s v p post c Hwf HW I) as (c' & K & E & S0 & I' & A & T & F & Tr & HX).
  { apply (node_room_room _ _ NR). cbn [den]. rewrite nsizes_one. apply NT.nsize_pos. }
  exists c', K, []. split.
  { cbn [steps Nat.add]. cbn [r_item Cst.r_item] in *. rewrite <- !app_assoc in *.
    rewrite (CstItems.loop_pi text) by (apply (WV_W _ _ _ HW)). rewrite E. reflexivity. }
  split; [exact S0|]. split; [exact I'|]. split; [exact A|]. split; [apply same_tn; exact T|].
  split; [discriminate|]. split; [exact F|]. split; [reflexivity|]. split; [rewrite Tr; cbn; lia|exact HX].
Qed.


(* ---- elements ---- *)
Lemma PIf_empty_r name es ws : PIf_r (IElem name es ws None).
Proof.
  intros inh p post c depth fuel Hwf Hns HinD HW _ I HC Hat NR AR SR.
  destruct (felem_parts _ _ _ _ _ Hwf Hns) as (Hok & _). clear Hwf Hns.
  rewrite r_item_elem in *. rewrite <- !app_assoc in HW |- *.
  change ([47; 62] ++ post) with (tag_tail true ++ post) in *.
  rewrite nsizes_den_elem in NR. rewrite nattrs_den_elem, Nat.add_0_r in AR. rewrite ns_costs_den_elem, Nat.add_0_r in SR.
  rewrite decls_den_elem, app_nil_r in HinD.
  cbn [steps Nat.add]. unfold r_qname at 1. rewrite loop_elem_f by (try apply (WV_W _ _ _ HW); apply uq_of; apply (eo_name _ _ _ _ Hok)).
  fold (r_qname name).
  destruct (start_tag_f_r inh p name es ws true post c HW Hok HinD I HC)
    as (c' & kind & ext & E & S0 & Lx & Hkm & A & T & Tr & (X1 & X2 & X3 & X4) & I' & P1 & P2).
  { unfold CstNsItems.node_room, room in *. clia. }
  { exact Hat. }
  { exact AR. }
  { unfold CstNsItems.ns_room in SR. unfold own_cost. destruct (CstNs.own_bindings (map (x_entry Sy (val_sem M)) es)); clia. }
  rewrite E. cbn [bind negb].
  exists c', [(Some (c_parent_id c), kind)], ext.
  split.
  { f_equal. f_equal. rewrite !blen_app. change (blen [60]) with 1. change (blen (tag_tail true)) with 2.
    change (blen [47; 62]) with 2. clia. }
  split; [split; [exact S0|split; assumption]|]. split; [exact I'|]. split; [exact A|].
  split; [intros _; exact T|]. split; [intros _; exact T|]. split; [|split; [|split]].
  - rewrite den_elem. cbn [NT.tag_list NT.tag app]. constructor; [|constructor]. apply Hkm.
  - rewrite Lx, nattrs_den_elem, Nat.add_0_r. reflexivity.
  - rewrite Tr, ns_costs_den_elem, Nat.add_0_r. unfold own_cost. fold (NT.esc (map (x_entry Sy (val_sem M)) es) inh).
    destruct (CstNs.own_bindings (map (x_entry Sy (val_sem M)) es)); clia.
  - rewrite fitems_at_elem. unfold ExtraF. cbn [flat_map app]. rewrite fnode_elem, !app_nil_r. cbn [map fst snd CstRangeFDefs.fitem_aspans CstRangeFDefs.fitem_decls].
    split; [constructor; [exact X1|constructor]|]. split; [exact X2|]. split; [|exact X4].
    rewrite X3, fspan_elem_empty. change (blen (tag_tail true)) with 2. reflexivity.
Qed.




Definition PLf_r (cs : list item) : Prop :=
  forall inh p post c depth fuel,
    wf_items cs = true -> ns_oks inh (dens cs) = true -> incl (NT.items_decls (dens cs)) D ->
    no_adjacent_text Sy cs = true -> WV p (r_items cs ++ post) -> text_follow post ->
    CIn inh c -> NC c -> c_after_text c = [] ->
    node_room c (NT.nsizes (dens cs)) -> attr_room c (NT.nattrs_items (dens cs)) -> ns_room c (NT.ns_costs inh (dens cs)) ->
    exists c' K ext,
      loop (steps_list cs + fuel) depth (st p (r_items cs ++ post)) c =
      loop fuel depth (st (p + blen (r_items cs)) post) c' /\
      Stepn c c' K ext /\ CIn inh c' /\ c_after_text c' = [] /\ (tn_set c -> tn_set c') /\
      Forall2 (kmn (c_doc c')) K (NT.tag_list inh (c_parent_id c) (len_N (d_nodes (c_doc c))) (dens cs)) /\
      length ext = NT.nattrs_items (dens cs) /\
      len_N (d_ns_tree (c_doc c')) = len_N (d_ns_tree (c_doc c)) + N.of_nat (NT.ns_costs inh (dens cs)) /\
      ExtraF (fitems_list p cs) c c' K ext.


Lemma PLf_of_r cs : Forall PIf_r cs -> PLf_r cs.
Proof.
  induction 1 as [|i r Hi _ IH]; intros inh p post c depth fuel Hwf Hns HinD Hna HW Hfol I HC Hat NR AR SR.
  - exists c, [], []. cbn [steps_list r_items app Nat.add blen length CstFullTree.dens NT.ns_costs NT.nattrs_items NT.tag_list] in *.
    change (N.of_nat 0) with 0. rewrite !N.add_0_r.
    split; [reflexivity|]. split; [apply Stepn_refl|]. split; [exact I|]. split; [exact Hat|]. split; [auto|].
    split; [constructor|]. split; [reflexivity|]. split; [reflexivity|apply ExtraF_nil].
  - cbn [wf_items_s] in Hwf. apply andb_true_iff in Hwf. destruct Hwf as [Hw1 Hw2].
    cbn [CstFullTree.dens] in Hns, HinD, NR, AR, SR |- *.
    rewrite ns_oks_app in Hns. apply andb_true_iff in Hns. destruct Hns as [Hn1 Hn2].
    cbn [r_items] in HW |- *. rewrite <- app_assoc in HW |- *.
    rewrite nsizes_app in NR. rewrite nattrs_items_app in AR. rewrite ns_costs_app in SR. rewrite items_decls_app in HinD.
    assert (Hna2 : no_adjacent_text Sy r = true).
    { destruct r as [|d r']; [reflexivity|]. cbn [no_adjacent_text] in Hna. apply andb_true_iff in Hna. apply Hna. }
    assert (Hfollow : is_text Sy i = true -> text_follow (r_items r ++ post)).
    { intros Hi1. destruct r as [|d r']; [exact Hfol|].
      cbn [no_adjacent_text] in Hna. apply andb_true_iff in Hna. destruct Hna as [Hna _]. rewrite Hi1 in Hna.
      cbn [andb] in Hna. apply negb_true_iff in Hna.
      cbn [wf_items_s] in Hw2. apply andb_true_iff in Hw2. destruct Hw2 as [Hd _].
      cbn [r_items]. rewrite <- app_assoc. apply nontext_follow; assumption. }
    destruct (Hi inh p (r_items r ++ post) c depth (steps_list r + fuel)%nat Hw1 Hn1) with (2 := HW) (3 := Hfollow) (4 := I) (5 := HC) (6 := Hat)
      as (c1 & K1 & e1 & E1 & S1 & I1 & A1 & T1 & _ & F1 & L1 & Tr1 & X1).
    { intros x Hx. apply HinD. apply in_or_app. left. exact Hx. }
    { unfold CstNsItems.node_room in *. clia. }
    { unfold CstNsItems.attr_room in *. clia. }
    { unfold CstNsItems.ns_room in *. clia. }
    pose proof (Stepn_nodes_len _ _ _ _ S1) as Ln1.
    rewrite (Forall2_len_N _ _ _ F1) in Ln1. unfold len_N at 3 in Ln1. rewrite NT.tag_list_len in Ln1.
    pose proof (Stepn_attrs_len _ _ _ _ (proj1 S1)) as La1. unfold len_N at 3 in La1. rewrite L1 in La1.
    pose proof (Stepn_opt _ _ _ _ (proj1 S1)) as Lo1.
    assert (HW' : WV (p + blen (r_item i)) (r_items r ++ post)) by (apply (WV_app _ _ _ _ HW); apply fitem_valid; exact Hw1).
    destruct (IH inh (p + blen (r_item i)) post c1 depth fuel Hw2 Hn2) with (2 := Hna2) (3 := HW') (4 := Hfol) (5 := I1)
      as (c2 & K2 & e2 & E2 & S2 & I2 & A2 & T2 & F2 & L2 & Tr2 & X2).
    { intros x Hx. apply HinD. apply in_or_app. right. exact Hx. }
    { apply (Stepn_NC _ _ _ _ S1 HC). }
    { exact A1. }
    { unfold CstNsItems.node_room in *. rewrite Ln1, Lo1. clia. }
    { unfold CstNsItems.attr_room in *. rewrite La1. clia. }
    { unfold CstNsItems.ns_room in *. rewrite Tr1. clia. }
    exists c2, (K1 ++ K2), (e1 ++ e2). split.
    { cbn [steps_list]. rewrite <- Nat.add_assoc, E1, E2. f_equal. f_equal. rewrite blen_app. clia. }
    split; [eapply Stepn_trans; eassumption|]. split; [exact I2|]. split; [exact A2|]. split; [auto|]. split; [|split; [|split]].
    + rewrite CstNsDoc.tag_list_app. apply Forall2_app.
      * apply (kmn_Forall2_ext (c_doc c1)); [apply (Step0n_DocExt _ _ _ _ (proj1 S2))|exact F1].
      * destruct S1 as (_ & P1 & _). rewrite P1, Ln1 in F2. exact F2.
    + rewrite app_length, L1, L2, nattrs_items_app. reflexivity.
    + rewrite Tr2, Tr1, ns_costs_app. clia.
    + cbn [fitems_list]. change (nlen (r_item i)) with (blen (r_item i)). eapply ExtraF_app; eassumption.
Qed.


Lemma body_f_r inh name es ws cs ws2 p post c c1 depth fuel tns lsl ar nss ext1 :
  PLf_r cs ->
  let des := map (x_entry Sy (val_sem M)) es in
  let sc := NT.esc des inh in
  let q := p + 1 + blen (r_qname name) + blen (flat_map r_entry es) + blen ws + 1 in
  let post2 := [60; 47] ++ r_qname name ++ ws2 ++ [62] ++ post in
  wf_qname name = true -> wf_s ws2 = true -> no_adjacent_text Sy cs = true -> wf_items cs = true ->
  ns_oks sc (dens cs) = true -> incl (NT.items_decls (dens cs)) D ->
  W p ([60] ++ r_qname name ++ flat_map r_entry es ++ ws ++ [62] ++ r_items cs ++ post2) ->
  WV q (r_items cs ++ post2) ->
  CIn inh c -> NC c ->
  Step0n c c1 [(Some (c_parent_id c), KElement tns lsl ar nss)] ext1 -> slice_bytes text lsl = CstNs.q_local (x_qname name) ->
  CstNsBuild.CIn text D sc c1 -> c_after_text c1 = [] -> tn_set c1 ->
  c_parent_id c1 = len_N (d_nodes (c_doc c)) ->
  c_parent_prefixes c1 = c_parent_prefixes c ++ [sl (p + 1) (p + 1 + blen (CstNs.q_prefix (x_qname name)))] ->
  node_room c1 (NT.nsizes (dens cs)) -> attr_room c1 (NT.nattrs_items (dens cs)) -> ns_room c1 (NT.ns_costs sc (dens cs)) ->
  rng c1 = rng c ++ [(p, q)] ->
  exists c3 K2 e2,
    loop (steps_list cs + S fuel) depth (st q (r_items cs ++ post2)) c1 =
    (if depth =? 0 then Ok (st (q + blen (r_items cs) + blen post2 - blen post) post, c3)
     else loop fuel (depth - 1) (st (q + blen (r_items cs) + blen post2 - blen post) post) c3) /\
    Stepn c c3 ((Some (c_parent_id c), KElement tns lsl ar nss) :: K2) (ext1 ++ e2) /\ CIn inh c3 /\
    c_after_text c3 = [] /\ tn_set c3 /\
    DocExt (c_doc c1) (c_doc c3) /\
    Forall2 (kmn (c_doc c3)) K2 (NT.tag_list sc (len_N (d_nodes (c_doc c))) (len_N (d_nodes (c_doc c)) + 1) (dens cs)) /\
    length e2 = NT.nattrs_items (dens cs) /\
    len_N (d_ns_tree (c_doc c3)) = len_N (d_ns_tree (c_doc c1)) + N.of_nat (NT.ns_costs sc (dens cs)) /\
    (Forall2 fkshape (map snd K2) (map snd (flat_map fnode_of (fitems_list q cs))) /\
     Forall2 fattr_obs e2 (flat_map fitem_aspans (fitems_list q cs)) /\
     rng c3 = rng c ++ (p, q + blen (r_items cs) + blen post2 - blen post) :: map fst (flat_map fnode_of (fitems_list q cs)) /\
     NsVals (d_ns_values (c_doc c1)) (d_ns_values (c_doc c3)) (flat_map fitem_decls (fitems_list q cs))).
Proof.
  intros HPL des sc q post2 Hn Hw2 Hna Hcs Hnsc HinD HW HW5 I HC S1 Hlsl I1 A1 T1 P1 P2 NR AR SR X1c.
  pose proof (W_app _ _ _ _ HW) as HW1. change (blen [60]) with 1 in HW1.
  pose proof (Step0n_len _ _ _ _ S1) as Ln1. change (len_N [_]) with 1 in Ln1.
  destruct (HPL sc q post2 c1 depth (S fuel) Hcs Hnsc HinD Hna HW5) with (2 := I1)
    as (c2 & K2 & e2 & E2 & S2 & I2 & A2 & T2 & F2 & L2 & Tr2 & (X2a & X2b & X2c & X2d)); try assumption.
  { apply close_follow. }
  { apply (Step0n_NC es0 _ _ _ _ S1 HC). }
  rewrite E2. clear E2.
  pose proof (WV_app _ _ _ _ HW5 (fitems_valid _ Hcs)) as HW6. set (e := q + blen (r_items cs)) in *.
  unfold post2 in HW6 |- *. rewrite (CstItems.loop_close text) by (apply (WV_W _ _ _ HW6)).
  unfold r_qname at 1 2. rewrite (lex_close_full_s text context ev e (x_qname name) ws2 post c2 HW6 (uq_of _ Hn) Hw2). cbv zeta.
  destruct S2 as (S2 & Pid2 & Pp2).
  pose proof (W_app _ _ _ _ (WV_W _ _ _ HW6)) as HW7. change (blen [60; 47]) with 2 in HW7.
  destruct (qname_slices text D HD _ _ _ HW1) as [Sp1 Sl1]. destruct (qname_slices text D HD _ _ _ HW7) as [Sp7 Sl7].
  destruct (cn_par _ _ _ _ I) as (par0 & k0 & Ep0 & Hk0).
  destruct (close_tag_ok_ns text D HD inh sc (sl (e + 2) (e + 2 + blen (CstNs.q_prefix (x_qname name))))
              (sl (e + 2 + q_off (x_qname name)) (e + 2 + blen (CstNs.r_qname (x_qname name))))
              (e, e + 2 + blen (CstNs.r_qname (x_qname name)) + blen ws2 + 1) c2 (c_parent_id c) tns lsl ar nss (x_qname name)
              (c_parent_prefixes c) (sl (p + 1) (p + 1 + blen (CstNs.q_prefix (x_qname name)))) I2)
    as (c3 & E3 & S3 & I3 & Pid3 & Pp3 & A3 & Tn3 & Tr3).
  { rewrite Pid2, P1, (sn_nodes _ _ _ _ S2), (sn_nodes _ _ _ _ S1).
    replace (N.to_nat (len_N (d_nodes (c_doc c)))) with (length (absn (c_doc c)))
      by (unfold absn, len_N; rewrite map_length; clia).
    rewrite <- app_assoc, nth_error_app2 by clia. rewrite Nat.sub_diag. reflexivity. }
  { exact Hlsl. }
  { exact Sl7. }
  { exact Sp7. }
  { rewrite Pp2, P2. reflexivity. }
  { apply (cn_pp _ _ _ _ I). }
  { exact Sp1. }
  { apply T2. exact T1. }
  { rewrite (Step0n_len _ _ _ _ S2), Ln1. pose proof (cn_pid _ _ _ _ I). clia. }
  { exists par0, k0. split.
    - rewrite (sn_nodes _ _ _ _ S2), (sn_nodes _ _ _ _ S1), <- app_assoc.
      rewrite nth_error_app1; [exact Ep0|].
      pose proof (cn_pid _ _ _ _ I) as Hp. rewrite <- absn_len in Hp. unfold len_N in Hp. clia.
    - apply (par_ok_ext text D HD (c_doc c)); [|exact Hk0].
      eapply NsExt_trans; [apply (sn_ns _ _ _ _ S1)|apply (sn_ns _ _ _ _ S2)]. }
  { apply (cn_uniq _ _ _ _ I). }
  pose proof E3 as E3'. unfold tok_ev in E3'.
  rewrite E3. cbn [bind].
  assert (Epos : e + 2 + blen (CstNs.r_qname (x_qname name)) + blen ws2 + 1 = e + blen ([60; 47] ++ r_qname name ++ ws2 ++ [62] ++ post) - blen post).
  { unfold r_qname. rewrite !blen_app. change (blen [60; 47]) with 2. change (blen [62]) with 1. clia. }
  rewrite Epos.
  exists c3, K2, e2. split; [reflexivity|].
  pose proof (Step0n_trans _ _ _ _ _ _ _ (Step0n_trans _ _ _ _ _ _ _ S1 S2) S3) as S13.
  rewrite !app_nil_r in S13. cbn [app] in S13.
  split; [split; [exact S13|split; [exact Pid3|exact Pp3]]|]. split; [exact I3|].
  split; [exact A3|].
  split; [apply (same_tn _ _ Tn3); apply T2; exact T1|].
  split; [eapply DocExt_trans; [apply (Step0n_DocExt _ _ _ _ S2)|apply (Step0n_DocExt _ _ _ _ S3)]|].
  split; [|split].
  - apply (kmn_Forall2_ext (c_doc c2)); [apply (Step0n_DocExt _ _ _ _ S3)|].
    rewrite P1, Ln1 in F2. exact F2.
  - exact L2.
  - split; [rewrite Tr3, Tr2; reflexivity|].
    split; [exact X2a|]. split; [exact X2b|]. split.
    + assert (Er2 : rng c2 = rng c ++ (p, q) :: map fst (flat_map fnode_of (fitems_list q cs))).
      { rewrite X2c, X1c, <- app_assoc. reflexivity. }
      rewrite (close_rng text _ _ _ _ _ _ _ _ E3' Er2).
      * cbn [fst snd]. fold e. rewrite <- Epos. reflexivity.
      * rewrite Pid2, P1. unfold rng, len_N. rewrite map_length. clear. lia.
    + destruct X2d as [Xf Xe]. split; [exact Xf|]. rewrite (close_nsv text _ _ _ _ _ E3'). exact Xe.
Qed.



Lemma open_f_r inh name es ws cs ws2 p post c depth fuel :
  PLf_r cs ->
  wf_item_s M (IElem name es ws (Some (cs, ws2))) = true -> ns_oks inh (den M (IElem name es ws (Some (cs, ws2)))) = true ->
  incl (NT.items_decls (den M (IElem name es ws (Some (cs, ws2))))) D ->
  WV p (r_item (IElem name es ws (Some (cs, ws2))) ++ post) ->
  CIn inh c -> NC c -> c_after_text c = [] ->
  node_room c (NT.nsizes (den M (IElem name es ws (Some (cs, ws2))))) ->
  attr_room c (NT.nattrs_items (den M (IElem name es ws (Some (cs, ws2))))) ->
  ns_room c (NT.ns_costs inh (den M (IElem name es ws (Some (cs, ws2))))) ->
  exists c1 c3 K ext q,
    parse_element text context ev (st p (r_item (IElem name es ws (Some (cs, ws2))) ++ post)) c =
    Ok (true, st q (r_items cs ++ [60; 47] ++ r_qname name ++ ws2 ++ [62] ++ post), c1) /\
    loop (steps_list cs + S fuel) depth (st q (r_items cs ++ [60; 47] ++ r_qname name ++ ws2 ++ [62] ++ post)) c1 =
    (if depth =? 0 then Ok (st (p + blen (r_item (IElem name es ws (Some (cs, ws2))))) post, c3)
     else loop fuel (depth - 1) (st (p + blen (r_item (IElem name es ws (Some (cs, ws2))))) post) c3) /\
    Stepn c c3 K ext /\ CIn inh c3 /\ c_after_text c3 = [] /\ tn_set c3 /\
    Forall2 (kmn (c_doc c3)) K (NT.tag_list inh (c_parent_id c) (len_N (d_nodes (c_doc c))) (den M (IElem name es ws (Some (cs, ws2))))) /\
    length ext = NT.nattrs_items (den M (IElem name es ws (Some (cs, ws2)))) /\
    len_N (d_ns_tree (c_doc c3)) = len_N (d_ns_tree (c_doc c)) + N.of_nat (NT.ns_costs inh (den M (IElem name es ws (Some (cs, ws2))))) /\
    ExtraF (fitems_at p (IElem name es ws (Some (cs, ws2)))) c c3 K ext.
Proof.
  intros HPL Hwf Hns HinD HW I HC Hat NR AR SR.
  destruct (felem_parts _ _ _ _ _ Hwf Hns) as (Hok & Hw2 & Hna & Hcs & Hnsc). clear Hwf Hns.
  rewrite r_item_elem in *. rewrite <- !app_assoc in HW |- *.
  set (post2 := [60; 47] ++ r_qname name ++ ws2 ++ [62] ++ post) in *.
  change ([62] ++ r_items cs ++ post2) with (tag_tail false ++ (r_items cs ++ post2)) in HW |- *.
  rewrite nsizes_den_elem in NR. rewrite nattrs_den_elem in AR. rewrite ns_costs_den_elem in SR. rewrite decls_den_elem in HinD.
  set (des := map (x_entry Sy (val_sem M)) es) in *. set (sc := NT.esc des inh) in *.
  destruct (start_tag_f_r inh p name es ws false (r_items cs ++ post2) c HW Hok) with (2 := I) (3 := HC)
    as (c1 & kind & ext1 & E & S1 & Lx & Hkm & A1 & T1 & Tr1 & (Y1 & Y2 & Y3 & Y4) & I1 & P1 & P2 & P3).
  { intros x Hx. apply HinD. apply in_or_app. left. exact Hx. }
  { unfold CstNsItems.node_room, room in *. clia. }
  { exact Hat. }
  { unfold CstNsItems.attr_room in AR. fold des. clia. }
  { unfold CstNsItems.ns_room in SR. unfold own_cost. fold des. fold sc. destruct (CstNs.own_bindings des); clia. }
  fold des in Lx, Hkm, Tr1, I1. fold sc in Tr1, I1.
  assert (Hlsl : exists tns lsl ar nss, kind = KElement tns lsl ar nss /\ slice_bytes text lsl = CstNs.q_local (x_qname name)).
  { destruct (Hkm O) as [_ Hk]. cbn [snd] in Hk. unfold NT.elem_v in Hk. cbv zeta in Hk.
    destruct kind as [|tns lsl ar nss| | |]; try contradiction.
    exists tns, lsl, ar, nss. split; [reflexivity|apply Hk]. }
  destruct Hlsl as (tns & lsl & ar & nss & -> & Hlsl).
  change (blen (tag_tail false)) with 1 in E.
  set (q := p + 1 + blen (r_qname name) + blen (flat_map r_entry es) + blen ws + 1) in *.
  pose proof (Step0n_len _ _ _ _ S1) as Ln1. change (len_N [_]) with 1 in Ln1.
  pose proof (Stepn_attrs_len _ _ _ _ S1) as La1. unfold len_N at 3 in La1. rewrite Lx in La1.
  pose proof (Stepn_opt _ _ _ _ S1) as Lo1.
  assert (HW5 : WV q (r_items cs ++ post2)).
  { pose proof (WV_lit _ _ _ _ HW (eq_refl : forallb (fun y => y <? 128) [60] = true)) as B1. change (blen [60]) with 1 in B1.
    pose proof (WV_app _ _ _ _ B1 (uq_valid _ (uq_of _ (eo_name _ _ _ _ Hok)))) as B2.
    pose proof (WV_app _ _ _ _ B2 (uentries_valid _ (eo_es _ _ _ _ Hok))) as B3.
    pose proof (WV_lit _ _ _ _ B3 (s_lit _ (eo_ws _ _ _ _ Hok))) as B4.
    pose proof (WV_lit _ _ _ _ B4 (eq_refl : forallb (fun y => y <? 128) (tag_tail false) = true)) as B5.
    change (blen (tag_tail false)) with 1 in B5. exact B5. }
  destruct (body_f_r inh name es ws cs ws2 p post c c1 depth fuel tns lsl ar nss ext1 HPL (eo_name _ _ _ _ Hok) Hw2 Hna Hcs Hnsc)
    with (2 := WV_W _ _ _ HW) (3 := HW5) (4 := I) (5 := HC) (6 := S1) (7 := Hlsl) (8 := I1)
    as (c3 & K2 & e2 & E2 & S3 & I3 & A3 & T3 & X3 & F3 & L3 & Tr3 & (Z1 & Z2 & Z3 & Z4)); try assumption.
  { intros x Hx. apply HinD. apply in_or_app. right. exact Hx. }
  { unfold CstNsItems.node_room in *. rewrite Ln1, Lo1. clia. }
  { unfold CstNsItems.attr_room in *. rewrite La1. clia. }
  { unfold CstNsItems.ns_room in *. rewrite Tr1. unfold own_cost. change (NT.esc (map (x_entry Sy (val_sem M)) es) inh) with sc.
    destruct (CstNs.own_bindings des); clia. }
  exists c1, c3, ((Some (c_parent_id c), KElement tns lsl ar nss) :: K2), (ext1 ++ e2), q.
  split; [exact E|]. split.
  { assert (EX : q + blen (r_items cs) + blen post2 - blen post =
                 p + blen ([60] ++ r_qname name ++ flat_map r_entry es ++ ws ++ [62] ++ r_items cs ++ [60; 47] ++ r_qname name ++ ws2 ++ [62])).
    { unfold q, post2. rewrite !blen_app. change (blen [60]) with 1. change (blen [62]) with 1. clia. }
    unfold q, post2 in EX |- *. rewrite E2, EX. reflexivity. }
  split; [exact S3|]. split; [exact I3|]. split; [exact A3|]. split; [exact T3|]. split; [|split; [|split]].
  - rewrite den_elem. cbn [NT.tag_list]. rewrite app_nil_r, NT.tag_elem. fold des. fold sc. constructor.
    + apply (kmn_ext text D HD (c_doc c1)); [exact X3|]. apply Hkm.
    + exact F3.
  - rewrite app_length, Lx, L3, nattrs_den_elem. reflexivity.
  - rewrite Tr3, Tr1, ns_costs_den_elem. fold des. fold sc. unfold own_cost. destruct (CstNs.own_bindings des); clia.
  - rewrite fitems_at_elem.
    replace (p + fstart_tag_len Sy name es ws) with q
      by (unfold q, fstart_tag_len, nlen, blen; clear; lia).
    unfold ExtraF. cbn [flat_map]. rewrite fnode_elem. cbn [app map fst snd CstRangeFDefs.fitem_aspans CstRangeFDefs.fitem_decls].
    split; [constructor; [exact Y1|exact Z1]|]. split; [apply Forall2_app; [exact Y2|exact Z2]|]. split.
    + rewrite Z3. do 3 f_equal. rewrite fspan_elem_open. unfold q, post2. rewrite !blen_app. change (blen [60; 47]) with 2. change (blen [62]) with 1. clear. lia.
    + eapply NsVals_app; [exact Y4|exact Z4].
Qed.



Lemma PIf_open_r name es ws cs ws2 : PLf_r cs -> PIf_r (IElem name es ws (Some (cs, ws2))).
Proof.
  intros HPL inh p post c depth fuel Hwf Hns HinD HW _ I HC Hat NR AR SR.
  destruct (open_f_r inh name es ws cs ws2 p post c (depth + 1) fuel HPL Hwf Hns HinD HW I HC Hat NR AR SR)
    as (c1 & c3 & K & ext & q & E1 & E2 & S3 & I3 & A3 & T3 & F3 & L3 & Tr3 & HX).
  exists c3, K, ext. split.
  { rewrite steps_elem. cbn [Nat.add].
    assert (Hn : wf_qname name = true) by (rewrite wf_item_elem_s, !andb_true_iff in Hwf; tauto).
    assert (El : loop (S (steps_list cs + 1 + fuel)) depth (st p (r_item (IElem name es ws (Some (cs, ws2))) ++ post)) c =
                 let! (open, s, c) := parse_element text context ev (st p (r_item (IElem name es ws (Some (cs, ws2))) ++ post)) c in
                 loop (steps_list cs + 1 + fuel) (if open then depth + 1 else depth) s c).
    { revert HW. rewrite r_item_elem, <- !app_assoc. unfold r_qname at 1 3. intros HW.
      apply loop_elem_f; [apply (WV_W _ _ _ HW)|apply uq_of; exact Hn]. }
    rewrite El, E1. cbn [bind].
    replace (steps_list cs + 1 + fuel)%nat with (steps_list cs + S fuel)%nat by clia.
    rewrite E2. replace (depth + 1 =? 0) with false by clia. replace (depth + 1 - 1) with depth by clia. reflexivity. }
  split; [exact S3|]. split; [exact I3|]. split; [exact A3|]. split; [intros _; exact T3|]. split; [intros _; exact T3|].
  split; [exact F3|]. split; [exact L3|]. split; [exact Tr3|exact HX].
Qed.


Theorem PIf_all_r : forall i, PIf_r i.
Proof.
  intros i. induction i as [n a w|n a w cs w2 IH|r|bs|t s v] using fitem_ind.
  - apply PIf_empty_r.
  - apply PIf_open_r. apply PLf_of_r. exact IH.
  - apply Hrun_r.
  - apply PIf_comment_r.
  - apply PIf_pi_r.
Qed.

Theorem PLf_all_r : forall cs, PLf_r cs.
Proof. intros cs. apply PLf_of_r. apply Forall_forall. intros i _. apply PIf_all_r. Qed.

Lemma root_ok_f_r inh name es ws body p post c :
  wf_item_s M (IElem name es ws body) = true -> ns_oks inh (den M (IElem name es ws body)) = true ->
  incl (NT.items_decls (den M (IElem name es ws body))) D ->
  WV p (r_item (IElem name es ws body) ++ post) ->
  CIn inh c -> NC c -> c_after_text c = [] ->
  node_room c (NT.nsizes (den M (IElem name es ws body))) ->
  attr_room c (NT.nattrs_items (den M (IElem name es ws body))) ->
  ns_room c (NT.ns_costs inh (den M (IElem name es ws body))) ->
  exists c' K ext,
    (let! (open, s, c) := parse_element text context ev (st p (r_item (IElem name es ws body) ++ post)) c in
     if open then parse_content text context ev s c else Ok (s, c)) =
    Ok (st (p + blen (r_item (IElem name es ws body))) post, c') /\
    Stepn c c' K ext /\ CIn inh c' /\ c_after_text c' = [] /\ tn_set c' /\
    Forall2 (kmn (c_doc c')) K (NT.tag_list inh (c_parent_id c) (len_N (d_nodes (c_doc c))) (den M (IElem name es ws body))) /\
    length ext = NT.nattrs_items (den M (IElem name es ws body)) /\
    len_N (d_ns_tree (c_doc c')) = len_N (d_ns_tree (c_doc c)) + N.of_nat (NT.ns_costs inh (den M (IElem name es ws body))) /\
    ExtraF (fitems_at p (IElem name es ws body)) c c' K ext.
Proof.
  intros Hwf Hns HinD HW I HC Hat NR AR SR. destruct body as [[cs ws2]|].
  - (* open *)
    assert (Hcs : wf_items cs = true) by (rewrite wf_item_elem_s, !andb_true_iff in Hwf; tauto).
    pose proof (steps_list_le cs Hcs) as Hst.
    set (rest := r_items cs ++ [60; 47] ++ r_qname name ++ ws2 ++ [62] ++ post).
    destruct (open_f_r inh name es ws cs ws2 p post c 0 (length rest - steps_list cs) (PLf_all_r cs) Hwf Hns HinD HW I HC Hat NR AR SR)
      as (c1 & c3 & K & ext & q & E1 & E2 & S3 & I3 & A3 & T3 & F3 & L3 & Tr3 & HX).
    exists c3, K, ext. split.
    { rewrite E1. cbn [bind]. unfold parse_content. cbn [CstLex.st s_rest]. fold rest.
      replace (S (length rest)) with (steps_list cs + S (length rest - steps_list cs))%nat
        by (unfold rest; rewrite app_length; clia).
      fold (st q rest). subst rest. rewrite E2. reflexivity. }
    split; [exact S3|]. split; [exact I3|]. split; [exact A3|]. split; [exact T3|].
    split; [exact F3|]. split; [exact L3|]. split; [exact Tr3|exact HX].
  - (* empty *)
    destruct (felem_parts _ _ _ _ _ Hwf Hns) as (Hok & _). clear Hwf Hns.
    rewrite r_item_elem in *. rewrite <- !app_assoc in HW |- *.
    change ([47; 62] ++ post) with (tag_tail true ++ post) in *.
    rewrite nsizes_den_elem in NR. rewrite nattrs_den_elem, Nat.add_0_r in AR. rewrite ns_costs_den_elem, Nat.add_0_r in SR.
    rewrite decls_den_elem, app_nil_r in HinD.
    destruct (start_tag_f_r inh p name es ws true post c HW Hok HinD I HC)
      as (c' & kind & ext & E & S0 & Lx & Hkm & A & T & Tr & (X1 & X2 & X3 & X4) & I' & P1 & P2).
    { unfold CstNsItems.node_room, room in *. clia. }
    { exact Hat. }
    { exact AR. }
    { unfold CstNsItems.ns_room in SR. unfold own_cost. destruct (CstNs.own_bindings (map (x_entry Sy (val_sem M)) es)); clia. }
    rewrite E. cbn [bind negb].
    exists c', [(Some (c_parent_id c), kind)], ext.
    split.
    { f_equal. f_equal. f_equal. rewrite !blen_app. change (blen [60]) with 1. change (blen (tag_tail true)) with 2.
      change (blen [47; 62]) with 2. clia. }
    split; [split; [exact S0|split; assumption]|]. split; [exact I'|]. split; [exact A|]. split; [exact T|]. split; [|split; [|split]].
    + rewrite den_elem. cbn [NT.tag_list NT.tag app]. constructor; [|constructor]. apply Hkm.
    + rewrite Lx, nattrs_den_elem, Nat.add_0_r. reflexivity.
    + rewrite Tr, ns_costs_den_elem, Nat.add_0_r. unfold own_cost. fold (NT.esc (map (x_entry Sy (val_sem M)) es) inh).
      destruct (CstNs.own_bindings (map (x_entry Sy (val_sem M)) es)); clia.
    + rewrite fitems_at_elem. unfold ExtraF. cbn [flat_map app]. rewrite fnode_elem, !app_nil_r. cbn [map fst snd CstRangeFDefs.fitem_aspans CstRangeFDefs.fitem_decls].
      split; [constructor; [exact X1|constructor]|]. split; [exact X2|]. split; [|exact X4].
      rewrite X3, fspan_elem_empty. change (blen (tag_tail true)) with 2. reflexivity.
Qed.



End FItemsR5.

Print Assumptions PIf_all_r.
Print Assumptions root_ok_f_r.
