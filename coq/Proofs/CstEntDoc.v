(* Proofs/CstEntDoc.v -- C07 on whole documents whose entities are all character data:
   parse_document on the rendering of a well-formed document of Spec/CstEnt.v.  The prolog, the
   items between the DOCTYPE and the root, and the epilog are comments and PIs of Spec/Cst.v
   (Proofs/CstDoc.v); the DOCTYPE records the entities (Proofs/CstEntDtd.v); the root is
   Proofs/CstEntItems.v. *)
From Coq Require Import Ascii String.
From Coq Require Import List NArith PeanoNat Bool Lia ZifyBool ZifyN ZifyNat.
Import ListNotations.
From RX Require Import Generated.
From RX.Model Require Import Base CharClass Stream Tokenizer Doc Builder Parse.
From RX.Spec Require Cst CstText CstEnt Detector.
From RX.Spec Require Import Text.
From RX.Proofs Require Import Tactics CstLex CstBuild CstTree CstItems CstDoc TextMerge DetectorProofs.
From RX.Proofs Require Import CstTextSem CstTextLex CstTextBuild CstTextItems CstTextDoc.
From RX.Proofs Require Import CstEntSem CstEntText CstEntAttr CstEntMeaning CstEntRun CstEntLex CstEntDtd CstEntBuild CstEntInline CstEntItems.
Open Scope N_scope.

(* the restriction of the partial theorems: every declared entity is character data *)
Definition is_etext (d : E.edecl) : bool := match E.e_value d with E.EText _ => true | _ => false end.
Definition etext_only (c : E.doc) : bool := forallb is_etext (E.t_decls (E.d_dtd c)).

Lemma etext_forall ds : forallb is_etext ds = true -> Forall (fun d => exists vps, E.e_value d = E.EText vps) ds.
Proof.
  intros H. apply Forall_forall. intros d Hd. rewrite forallb_forall in H. specialize (H d Hd).
  unfold is_etext in H. destruct (E.e_value d); [eauto|discriminate].
Qed.

(* ------------------------------------------------------------------------------------------ *)
(* renderings are ASCII                                                                       *)
(* ------------------------------------------------------------------------------------------ *)
Lemma asc_epiece q cd ch iv p : E.wf_epiece q cd ch iv p = true -> asc (E.r_epiece p).
Proof.
  destruct p as [[bs|hex ds|e|bs]|n]; cbn [E.wf_epiece E.r_epiece]; intros H.
  - rewrite !andb_true_iff in H. destruct H as [[_ H] _]. apply (asc_vbytes 60).
    apply (vpiece_bytes 60 (T.PLit bs)); [auto|]. apply (vpiece_quote_60 q). exact H.
  - rewrite !andb_true_iff in H. destruct H as [[_ H] _]. apply (asc_vbytes 60).
    apply (vpiece_bytes 60 (T.PCharRef hex ds)); [auto|exact H].
  - apply (asc_vbytes 60). apply (vpiece_bytes 60 (T.PPredef e)); [auto|reflexivity].
  - apply andb_true_iff in H. destruct H as [_ H]. cbn [T.wf_tpiece] in H. apply andb_true_iff in H. destruct H as [H _].
    cbn [T.r_piece]. repeat apply asc_app; [apply asc_lit; reflexivity|apply asc_tplain; exact H|apply asc_lit; reflexivity].
  - apply andb_true_iff in H. destruct H as [H _].
    repeat apply asc_app; [apply asc_lit; reflexivity|apply asc_name; exact H|apply asc_lit; reflexivity].
Qed.

Lemma asc_epieces q cd ch iv ps : forallb (E.wf_epiece q cd ch iv) ps = true -> asc (E.r_epieces ps).
Proof.
  induction ps as [|p ps IH]; intros H; [constructor|]. cbn [forallb] in H. apply andb_true_iff in H.
  destruct H as [H1 H2]. rewrite r_epieces_cons. apply asc_app; [apply (asc_epiece _ _ _ _ _ H1)|apply IH; exact H2].
Qed.

Lemma asc_quote q : q = 39 \/ q = 34 -> asc [q].
Proof. intros [-> | ->]; (constructor; [lia|constructor]). Qed.

Lemma asc_eattr iv a : E.wf_attr iv a = true -> asc (E.r_attr a).
Proof.
  unfold E.wf_attr, E.wf_epieces. rewrite !andb_true_iff. intros (((((H1 & H2) & H3) & H4) & H5) & (H6 & H7)).
  assert (Hq : E.a_quote a = 39 \/ E.a_quote a = 34) by lia.
  destruct (ws1_parts _ H1) as [_ H1'].
  unfold E.r_attr. repeat apply asc_app; try (apply asc_ws; assumption); try (apply asc_quote; exact Hq).
  - apply asc_name. exact H2.
  - apply asc_lit. reflexivity.
  - apply (asc_epieces _ _ _ _ _ H6).
Qed.

Lemma asc_eattrs iv attrs : forallb (E.wf_attr iv) attrs = true -> asc (flat_map E.r_attr attrs).
Proof.
  induction attrs as [|a r IH]; intros H; [constructor|]. cbn [forallb] in H.
  apply andb_true_iff in H. destruct H as [H1 H2]. cbn [flat_map]. apply asc_app; [apply (asc_eattr iv); exact H1|auto].
Qed.

Lemma asc_eitem : forall i, E.wf_item false i = true -> asc (E.r_item i).
Proof.
  intros i. induction i as [n a w|n a w cs w2 IH|ps|bs|t s v] using eitem_ind; intros Hwf.
  - destruct (ewf_elem_parts _ _ _ _ Hwf) as (Hn & Ha & _ & _ & Hw & _). rewrite er_item_elem.
    repeat apply asc_app; try (apply asc_lit; reflexivity).
    + apply asc_name; exact Hn.
    + apply (asc_eattrs false); exact Ha.
    + apply asc_ws; exact Hw.
  - destruct (ewf_elem_parts _ _ _ _ Hwf) as (Hn & Ha & _ & _ & Hw & Hw2 & _ & Hcs). rewrite er_item_elem.
    repeat apply asc_app; try (apply asc_lit; reflexivity).
    + apply asc_name; exact Hn.
    + apply (asc_eattrs false); exact Ha.
    + apply asc_ws; exact Hw.
    + clear - IH Hcs. induction IH as [|c r Hc _ IHr]; [constructor|].
      cbn [ewf_items] in Hcs. apply andb_true_iff in Hcs. destruct Hcs as [H1 H2].
      rewrite r_items_cons. apply asc_app; auto.
    + apply asc_name; exact Hn.
    + apply asc_ws; exact Hw2.
  - cbn [E.wf_item E.r_item] in *. unfold E.wf_epieces in Hwf. rewrite !andb_true_iff in Hwf.
    destruct Hwf as [_ [H _]]. apply (asc_epieces _ _ _ _ _ H).
  - apply (asc_item (Cst.IComment bs)). exact Hwf.
  - apply (asc_item (Cst.IPI t s v)). exact Hwf.
Qed.

(* ------------------------------------------------------------------------------------------ *)
(* declarations                                                                               *)
(* ------------------------------------------------------------------------------------------ *)
Lemma wf_epiece_weaken q p : E.wf_epiece q false true true p = true -> E.wf_epiece 60 true true false p = true.
Proof.
  destruct p as [[bs|hex ds|e|bs]|n]; cbn [E.wf_epiece]; intros H; try discriminate; try exact H.
  - rewrite !andb_true_iff in *. destruct H as [[H1 H2] _]. split; [split; [exact H1|apply (vpiece_quote_60 q); exact H2]|reflexivity].
  - rewrite !andb_true_iff in *. destruct H as [[H1 H2] _]. auto.
Qed.

Lemma wf_epiece_value_ok q p : E.wf_epiece q false true true p = true -> ep_ok true p /\ is_ecdata p = false.
Proof.
  destruct p as [[bs|hex ds|e|bs]|n]; cbn [E.wf_epiece ep_ok is_ecdata]; intros H; try discriminate.
  - rewrite !andb_true_iff in H. destruct H as [[_ H] H']. split; [|reflexivity]. split; [apply (vpiece_quote_60 q); exact H|auto].
  - rewrite !andb_true_iff in H. destruct H as [[_ H] H']. split; [|reflexivity]. split; [exact H|auto].
  - split; [|reflexivity]. split; [reflexivity|auto].
  - apply andb_true_iff in H. destruct H as [H1 H2]. split; [|reflexivity]. split; [exact H1|]. apply negb_true_iff in H2. exact H2.
Qed.

Record decl_facts (d : E.edecl) : Prop := {
  df_lex : decl_lex_ok d;
  df_ok : decl_ok d;
  df_adj : decl_adj d;
  df_asc : asc (E.r_decl d)
}.

Lemma wf_decl_facts d : E.wf_decl d = true -> is_etext d = true -> decl_facts d.
Proof.
  unfold E.wf_decl, E.wf_value, is_etext. rewrite !andb_true_iff.
  intros ((((((H0 & H1) & Hn) & H2) & Hq) & (Hv & Hps)) & H3) Het.
  destruct (E.e_value d) as [ps|its] eqn:Ev; [|discriminate]. cbn [E.r_value] in Hv.
  unfold E.wf_epieces in Hps. apply andb_true_iff in Hps. destruct Hps as [Hw Hadj].
  assert (Hq' : E.e_quote d = 39 \/ E.e_quote d = 34) by lia.
  assert (Hok : Forall (ep_ok true) ps).
  { apply Forall_forall. intros p Hp. rewrite forallb_forall in Hw. apply (wf_epiece_value_ok _ _ (Hw p Hp)). }
  pose proof (ep_bytes true ps Hok) as Hb.
  destruct (ws1_parts _ H1) as [_ H1']. destruct (ws1_parts _ H2) as [_ H2'].
  constructor.
  - constructor; try assumption. rewrite Ev. cbn [E.r_value]. split; [|split].
    + revert Hv. apply forallb_imp. intros x Hx. apply andb_true_iff in Hx. apply Hx.
    + revert Hb. apply forallb_imp. intros x Hx. apply andb_true_iff in Hx. destruct Hx as [Hx _].
      destruct (tplain_char _ Hx) as (L & _). lia.
    + revert Hb. apply forallb_imp. intros x Hx. apply andb_true_iff in Hx. destruct Hx as [Hx _].
      apply (tplain_char _ Hx).
  - unfold decl_ok. rewrite Ev. split; [exact Hok|].
    apply estretch_no_cdata_end; [| |exact Hadj].
    + apply Forall_forall. intros p Hp. rewrite forallb_forall in Hw. apply (wf_epiece_weaken _ _ (Hw p Hp)).
    + apply forallb_forall. intros p Hp. rewrite forallb_forall in Hw. rewrite (proj2 (wf_epiece_value_ok _ _ (Hw p Hp))). reflexivity.
  - unfold decl_adj. rewrite Ev. exact Hadj.
  - unfold E.r_decl. rewrite Ev. cbn [E.r_value].
    repeat apply asc_app; try (apply asc_ws; assumption); try (apply asc_quote; exact Hq'); try (apply asc_lit; reflexivity).
    + apply asc_name. exact Hn.
    + apply (asc_epieces _ _ _ _ _ Hw).
Qed.

Lemma asc_flat {A} (f : A -> bytes) l : Forall (fun x => asc (f x)) l -> asc (flat_map f l).
Proof. induction 1; [constructor|]. cbn [flat_map]. apply asc_app; assumption. Qed.

(* ------------------------------------------------------------------------------------------ *)
(* the parts of a well-formed document                                                        *)
(* ------------------------------------------------------------------------------------------ *)
Definition cmisc (i : E.item) : Cst.item := erase (E.misc_item i).

Lemma cmisc_facts i : E.is_misc i = true ->
  Cst.is_misc (cmisc i) = true /\ Cst.r_item (cmisc i) = E.r_item i /\ Cst.wf_item (cmisc i) = E.wf_item false i.
Proof. destruct i; try discriminate; intros _; repeat split; reflexivity. Qed.

Definition bef (c : E.doc) : list (Cst.item * bytes) := map (fun x => (cmisc (fst x), snd x)) (E.d_before c).
Definition mid (c : E.doc) : pairs := map (fun x => (fst x, cmisc (snd x))) (E.d_mid c).
Definition aft (c : E.doc) : pairs := map (fun x => (fst x, cmisc (snd x))) (E.d_after c).

Lemma pairs_of l : forallb (fun p => Cst.wf_ws (fst p) && E.is_misc (snd p) && E.wf_item false (snd p)) l = true ->
  wf_pairs (map (fun x => (fst x, cmisc (snd x))) l) = true /\
  flat_map (fun p => fst p ++ E.r_item (snd p)) l = r_pairs (map (fun x => (fst x, cmisc (snd x))) l).
Proof.
  unfold wf_pairs, r_pairs. induction l as [|[w i] r IH]; intros H; [split; reflexivity|].
  cbn [forallb map flat_map fst snd] in *. rewrite !andb_true_iff in H. destruct H as [[[A B0] C0] D].
  destruct (cmisc_facts i B0) as (E1 & E2 & E3). destruct (IH D) as [I1 I2].
  rewrite E1, E2, E3, A, C0, I1, I2. split; reflexivity.
Qed.

Record edoc_parts (c : E.doc) : Prop := {
  ep_ws0 : Cst.wf_ws (E.d_ws0 c) = true;
  ep_ws1 : Cst.wf_ws (E.d_ws1 c) = true;
  ep_wsend : Cst.wf_ws (E.d_ws_end c) = true;
  ep_before : forallb (fun p => Cst.is_misc (fst p) && Cst.wf_item (fst p) && Cst.wf_ws (snd p)) (bef c) = true;
  ep_dtd : E.wf_dtd (E.d_dtd c) = true;
  ep_mid : wf_pairs (mid c) = true;
  ep_root : exists name attrs ws body, E.d_root c = E.IElem name attrs ws body;
  ep_rootwf : E.wf_item false (E.d_root c) = true;
  ep_after : wf_pairs (aft c) = true;
  ep_inline : exists root' tr,
      E.inline_item (E.table_of c) false (E.d_root c) = Some ([root'], tr) /\
      E.inline c = Some ({| T.d_before := map (fun p => (E.misc_item (fst p), snd p)) (E.d_before c)
                                           ++ map (fun p => (E.misc_item (snd p), fst p)) (E.d_mid c);
                            T.d_ws0 := E.d_ws0 c; T.d_root := root';
                            T.d_after := map (fun p => (fst p, E.misc_item (snd p))) (E.d_after c);
                            T.d_ws_end := E.d_ws_end c |}, tr) /\
      Detector.within_limits 10 255 0 0 tr = true /\ E.provisos_item root' = true;
  ep_render :
    E.render c =
    E.d_ws0 c ++ flat_map (fun p => Cst.r_item (fst p) ++ snd p) (bef c) ++ E.r_dtd (E.d_dtd c) ++
    r_pairs (mid c) ++ E.d_ws1 c ++ E.r_item (E.d_root c) ++ r_pairs (aft c) ++ E.d_ws_end c
}.

Lemma ewf_doc_parts c : E.wf_doc c = true -> edoc_parts c.
Proof.
  unfold E.wf_doc. rewrite !andb_true_iff. intros [[[[[[[[H1 H2] H3] H4] H5] H6] H7] H8] H9].
  destruct (pairs_of _ H6) as [M1 M2]. destruct (pairs_of _ H8) as [A1 A2].
  constructor; try assumption.
  - unfold bef. clear - H4. induction (E.d_before c) as [|[i w] r IH]; [reflexivity|].
    cbn [forallb map fst snd] in *. rewrite !andb_true_iff in H4. destruct H4 as [[[A B0] C0] D].
    destruct (cmisc_facts i A) as (E1 & _ & E3). rewrite E1, E3, B0, C0, IH by exact D. reflexivity.
  - destruct (E.d_root c); try discriminate. eauto.
  - destruct (E.d_root c); try discriminate. exact H7.
  - unfold E.inline in *. destruct (E.inline_item (E.table_of c) false (E.d_root c)) as [[its tr]|]; [|discriminate].
    cbn [E.obind fst snd] in *. destruct its as [|root' [|x its]]; try discriminate.
    apply andb_true_iff in H9. destruct H9 as [L P]. exists root', tr. cbn [T.d_root] in P. auto.
  - unfold E.render. f_equal. f_equal; [|f_equal; f_equal; [exact M2|f_equal; f_equal; f_equal; exact A2]].
    unfold bef. clear - H4. induction (E.d_before c) as [|[i w] r IH]; [reflexivity|].
    cbn [forallb map flat_map fst snd] in *. rewrite !andb_true_iff in H4. destruct H4 as [[[A _] _] D].
    destruct (cmisc_facts i A) as (_ & E2 & _). rewrite E2, IH by exact D. reflexivity.
Qed.

Lemma erender_shape c : E.wf_doc c = true ->
  E.render c =
  r_pairs (CstDoc.regroup (E.d_ws0 c) (bef c)) ++ last_ws (E.d_ws0 c) (bef c) ++ E.r_dtd (E.d_dtd c) ++
  r_pairs (mid c) ++ E.d_ws1 c ++ E.r_item (E.d_root c) ++ r_pairs (aft c) ++ E.d_ws_end c ++ [].
Proof.
  intros H. rewrite (ep_render _ (ewf_doc_parts c H)). rewrite app_nil_r.
  rewrite app_assoc, regroup_render, <- app_assoc. reflexivity.
Qed.

Record dtd_facts (t : E.dtd) : Prop := {
  tf_ws1 : Cst.wf_ws1 (E.t_ws1 t) = true;
  tf_name : Cst.wf_name (E.t_name t) = true;
  tf_ws2 : Cst.wf_ws (E.t_ws2 t) = true;
  tf_decls : Forall decl_facts (E.t_decls t);
  tf_ws3 : Cst.wf_ws (E.t_ws3 t) = true;
  tf_ws4 : Cst.wf_ws (E.t_ws4 t) = true
}.

Lemma wf_dtd_facts t : E.wf_dtd t = true -> forallb is_etext (E.t_decls t) = true -> dtd_facts t.
Proof.
  unfold E.wf_dtd. rewrite !andb_true_iff. intros [[[[[H1 H2] H3] H4] H5] H6] He.
  constructor; try assumption. apply Forall_forall. intros d Hd. rewrite forallb_forall in H4, He.
  apply wf_decl_facts; auto.
Qed.

Lemma asc_dtd t : dtd_facts t -> asc (E.r_dtd t).
Proof.
  intros [H1 H2 H3 H4 H5 H6]. destruct (ws1_parts _ H1) as [_ H1'].
  unfold E.r_dtd. repeat apply asc_app; try (apply asc_ws; assumption); try (apply asc_lit; reflexivity).
  - apply asc_name. exact H2.
  - apply asc_flat. revert H4. apply Forall_impl. intros d Hd. apply (df_asc _ Hd).
Qed.

Lemma erender_asc c : E.wf_doc c = true -> etext_only c = true -> asc (E.render c).
Proof.
  intros H He. rewrite (erender_shape c H). pose proof (ewf_doc_parts c H) as [H1 H2 H3 H4 H5 H6 _ H8 H9 _ _].
  destruct (regroup_wf _ _ H1 H4) as [R1 R2].
  apply asc_app; [apply asc_pairs; exact R1|].
  apply asc_app; [apply asc_ws; exact R2|].
  apply asc_app; [apply asc_dtd; apply wf_dtd_facts; assumption|].
  apply asc_app; [apply asc_pairs; exact H6|].
  apply asc_app; [apply asc_ws; exact H2|].
  apply asc_app; [apply asc_eitem; exact H8|].
  apply asc_app; [apply asc_pairs; exact H9|].
  apply asc_app; [apply asc_ws; exact H3|constructor].
Qed.

Lemma edecl_render c : E.wf_doc c = true -> decl_test (E.render c) = false.
Proof.
  intros H. rewrite (erender_shape c H). pose proof (ewf_doc_parts c H) as [H1 H2 H3 H4 _ _ _ _ _ _ _].
  destruct (regroup_wf _ _ H1 H4) as [R1 R2].
  destruct (CstDoc.regroup (E.d_ws0 c) (bef c)) as [|[w i] B].
  - cbn [r_pairs flat_map app]. destruct (last_ws (E.d_ws0 c) (bef c)) as [|x wl].
    + cbn [app]. unfold E.r_dtd, E.kw_doctype. cbn [app]. apply decl_lt. lia.
    + cbn [app]. apply decl_ws. cbn [Cst.wf_ws forallb] in R2. apply andb_true_iff in R2.
      destruct R2 as [R2 _]. unfold Cst.is_ws in R2. clear - R2. lia.
  - cbn [wf_pairs forallb fst snd] in R1. rewrite !andb_true_iff in R1. destruct R1 as [[[W1 M1] I1] _].
    cbn [r_pairs flat_map fst snd]. rewrite <- !app_assoc. destruct w as [|x w].
    + cbn [app]. destruct i as [? ? ? ?|?|bs|t s v]; try discriminate.
      * cbn [Cst.r_item app]. apply decl_lt. clear. lia.
      * cbn [Cst.r_item]. rewrite <- !app_assoc. apply decl_pi. apply wf_pi. exact I1.
    + cbn [app]. apply decl_ws. cbn [Cst.wf_ws forallb] in W1. apply andb_true_iff in W1.
      destruct W1 as [W1 _]. unfold Cst.is_ws in W1. clear - W1. lia.
Qed.

Ltac clia := repeat match goal with H : @eq bool _ true |- _ => clear H end; lia.

Lemma CI_set_entities c v : CI c -> CI (set_entities c v).
Proof. intros [A1 A2 A3 A4 A5 A6 A7 A8 A9 A10]. constructor; assumption. Qed.

(* the items of the inlined document *)
Lemma inlined_items c root' :
  doc_items (erase_doc {| T.d_before := map (fun p => (E.misc_item (fst p), snd p)) (E.d_before c)
                                          ++ map (fun p => (E.misc_item (snd p), fst p)) (E.d_mid c);
                           T.d_ws0 := E.d_ws0 c; T.d_root := root';
                           T.d_after := map (fun p => (fst p, E.misc_item (snd p))) (E.d_after c);
                           T.d_ws_end := E.d_ws_end c |}) =
  map snd (CstDoc.regroup (E.d_ws0 c) (bef c)) ++ map snd (mid c) ++ erase root' :: map snd (aft c).
Proof.
  unfold doc_items, erase_doc. cbn [Cst.d_before Cst.d_root Cst.d_after T.d_before T.d_root T.d_after].
  rewrite regroup_items. unfold bef, mid, aft, cmisc. rewrite !map_app, !map_map. cbn [fst snd].
  rewrite <- app_assoc. reflexivity.
Qed.

(* ------------------------------------------------------------------------------------------ *)
(* parse_document                                                                             *)
(* ------------------------------------------------------------------------------------------ *)
Lemma eparse_document_ok (c : E.doc) (c0 : context) (cT : T.doc) (tr : list Detector.lop) :
  E.wf_doc c = true -> etext_only c = true -> E.inline c = Some (cT, tr) ->
  let text := E.render c in
  CI c0 -> c_ld c0 = ld_init -> c_entities c0 = [] -> c_after_text c0 = [] ->
  node_room c0 (nsizes (doc_items (erase_doc cT))) -> attr_room c0 (nattrs (erase (T.d_root cT))) ->
  exists cf K,
    parse_document text context (tok_ev text) true c0 = Ok cf /\
    absn (c_doc cf) = absn (c_doc c0) ++ K /\ c_parent_prefixes cf = c_parent_prefixes c0 /\ CI cf /\
    Forall2 (km text (d_attrs (c_doc cf))) K
            (tag_list (c_parent_id c0) (len_N (d_nodes (c_doc c0))) (doc_items (erase_doc cT))).
Proof.
  intros Hwf Het Hinl text I0 Hld0 Hes0 A0 NR AR.
  pose proof (erender_asc c Hwf Het) as Hascii. fold text in Hascii.
  pose proof (edecl_render c Hwf) as Hdecl. fold text in Hdecl.
  pose proof (erender_shape c Hwf) as Etext. fold text in Etext.
  pose proof (ewf_doc_parts c Hwf) as [H1 H2 H3 H4 H5 H6 (name & attrs & ws & body & Er) H8 H9 (root' & tr' & Hroot & Hinl' & Hlim & Hprov) _].
  rewrite Hinl' in Hinl. injection Hinl as <- <-.
  pose proof (wf_dtd_facts _ H5 Het) as [T1 T2 T3 T4 T5 T6]. clear Hwf H5.
  destruct (regroup_wf _ _ H1 H4) as [R1 R2]. clear H1 H4.
  rewrite inlined_items in *. cbn [T.d_root] in AR.
  set (B := CstDoc.regroup (E.d_ws0 c) (bef c)) in *. set (wB := last_ws (E.d_ws0 c) (bef c)) in *.
  set (M := mid c) in *. set (A := aft c) in *. set (wE := E.d_ws_end c) in *. set (w1 := E.d_ws1 c) in *.
  set (t := E.d_dtd c) in *. set (decls := E.t_decls t) in *.
  rewrite Er in *. clear Er. set (root := E.IElem name attrs ws body) in *.
  rewrite !nsizes_app, nsizes_cons in NR.
  pose proof (W_new text) as HW0.
  destruct (ewf_elem_parts _ _ _ _ H8) as (Hn & _).
  assert (El : exists n l, E.r_item root = 60 :: n :: l /\ Cst.is_name_start n = true).
  { unfold root. rewrite er_item_elem. destruct name as [|n r]; [discriminate|].
    cbn [Cst.wf_name] in Hn. apply andb_true_iff in Hn. destruct Hn as [Hn _]. eexists. eexists. split; [reflexivity|exact Hn]. }
  destruct El as (n & l & El & Hns).
  destruct (name_start_byte _ Hns) as (_ & _ & Hnsp & _ & _ & H33 & H63 & _). clear Hns Hn.
  remember (E.r_item root ++ r_pairs A ++ wE ++ []) as rest3 eqn:Erest3.
  remember (r_pairs M ++ w1 ++ rest3) as rest2 eqn:Erest2.
  assert (Hstop3 : misc_stop rest3).
  { rewrite Erest3, El. cbn [app]. split; [reflexivity|]. cbn [prefix_b].
    replace (33 =? n) with false by clia. replace (63 =? n) with false by clia. split; reflexivity. }
  assert (Hcb : forall p, CstLex.W text p rest3 ->
            match curr_byte_opt (CstLex.st text p rest3) with Some x => x =? 60 | None => false end = true).
  { intros p HWp. rewrite Erest3, El in *. cbn [app] in *. rewrite curr_byte_opt_st by exact HWp. reflexivity. }
  clear El.
  assert (Hstop1 : misc_stop (E.r_dtd t ++ rest2)).
  { unfold E.r_dtd, E.kw_doctype. cbn [app]. split; [reflexivity|]. split; reflexivity. }
  unfold parse_document. rewrite st_new.
  rewrite starts_with_st by exact HW0. rewrite bom_false by exact Hascii. cbn [bind].
  unfold starts_with_declaration. rewrite starts_with_st, avail_st by exact HW0.
  change (b "<?xml") with [60; 63; 120; 109; 108]. fold (decl_test text). rewrite Hdecl. cbn [bind].
  (* prolog *)
  unfold parse_misc at 1. cbn [CstLex.st s_rest].
  fold (CstLex.st text 0 text).
  assert (Etext' : text = r_pairs B ++ wB ++ E.r_dtd t ++ rest2) by exact Etext.
  assert (HW0' : CstLex.W text 0 (r_pairs B ++ wB ++ E.r_dtd t ++ rest2)) by (rewrite <- Etext'; exact HW0).
  replace (CstLex.st text 0 text) with (CstLex.st text 0 (r_pairs B ++ wB ++ E.r_dtd t ++ rest2))
    by (rewrite <- Etext'; reflexivity).
  assert (Elen : length text = length (r_pairs B ++ wB ++ E.r_dtd t ++ rest2)) by (rewrite <- Etext'; reflexivity).
  destruct (misc_loop_ok text Hascii B 0 wB (E.r_dtd t ++ rest2) c0 (S (length text)) HW0' R1 R2 Hstop1)
    as (c1 & K1 & E1 & S1 & I1 & A1 & F1).
  { pose proof (pairs_len B R1). rewrite Elen, app_length. clia. }
  { exact I0. } { exact A0. } { unfold node_room in *. clia. }
  rewrite E1. cbn [bind]. clear E1.
  pose proof (W_app _ _ _ _ HW0') as HWa. pose proof (W_app _ _ _ _ HWa) as HW1.
  set (p1 := 0 + blen (r_pairs B) + blen wB) in *.
  rewrite skip_spaces_none by (try exact HW1; apply Hstop1).
  rewrite starts_with_st by exact HW1. change (b "<!DOCTYPE") with E.kw_doctype.
  replace (prefix_b E.kw_doctype (E.r_dtd t ++ rest2)) with true
    by (unfold E.r_dtd; rewrite <- !app_assoc; symmetry; apply prefix_b_app_same).
  change (negb true) with false. cbv iota.
  (* the DOCTYPE *)
  assert (Hlex : Forall decl_lex_ok decls) by (revert T4; apply Forall_impl; intros d Hd; apply (df_lex _ Hd)).
  rewrite (lex_doctype text Hascii context (tok_ev text) p1 t rest2 c1 HW1 T1 T2 T3 Hlex T5 T6). cbv zeta.
  set (q := p1 + 9 + blen (E.t_ws1 t) + blen (E.t_name t) + blen (E.t_ws2 t) + 1) in *.
  rewrite decls_recorded. cbn [bind].
  destruct (Step_keep _ _ _ _ S1) as [Kld1 Kes1]. rewrite Kes1, Hes0. cbn [app].
  set (es := decl_ents q decls) in *. set (c1' := set_entities c1 es).
  assert (Henv : Forall2 (ent_ok text) decls es).
  { unfold es. pose proof HW1 as X0. unfold E.r_dtd in X0. rewrite <- !app_assoc in X0.
    pose proof (W_app _ _ _ _ X0) as X1. change (blen E.kw_doctype) with 9 in X1.
    pose proof (W_app _ _ _ _ X1) as X2. pose proof (W_app _ _ _ _ X2) as X3. pose proof (W_app _ _ _ _ X3) as X4.
    pose proof (W_app _ _ _ _ X4) as X5. change (blen [91]) with 1 in X5. fold q in X5.
    apply (decl_ents_ok text decls q _ X5). }
  assert (Hdecls : Forall decl_ok decls) by (revert T4; apply Forall_impl; intros d Hd; apply (df_ok _ Hd)).
  assert (Hadjs : Forall decl_adj decls) by (revert T4; apply Forall_impl; intros d Hd; apply (df_adj _ Hd)).
  pose proof (etext_forall _ Het) as Hetext. fold t in Hetext. fold decls in Hetext.
  pose proof (CI_set_entities c1 es I1) as I1'. fold c1' in I1'.
  pose proof (W_app _ _ _ _ HW1) as HW2. set (p2 := p1 + blen (E.r_dtd t)) in *.
  (* items between the DOCTYPE and the root *)
  pose proof (Step_nodes_len _ _ _ _ S1) as Ln1.
  rewrite (Forall2_len_N _ _ _ F1) in Ln1. unfold len_N at 3 in Ln1. rewrite tag_list_len in Ln1.
  pose proof (Step_opt _ _ _ _ (proj1 S1)) as Lo1.
  pose proof (Step_attrs_len _ _ _ _ (proj1 S1)) as La1. change (len_N []) with 0 in La1.
  unfold parse_misc at 1. cbn [CstLex.st s_rest]. fold (CstLex.st text p2 rest2).
  rewrite Erest2 in HW2 |- *.
  destruct (misc_loop_ok text Hascii M p2 w1 rest3 c1' (S (length (r_pairs M ++ w1 ++ rest3))) HW2 H6 H2 Hstop3)
    as (c2 & K2 & E2 & S2 & I2 & A2 & F2).
  { pose proof (pairs_len M H6). rewrite app_length. clia. }
  { exact I1'. } { exact A1. }
  { unfold node_room in *. change (d_nodes (c_doc c1')) with (d_nodes (c_doc c1)). change (c_opt c1') with (c_opt c1).
    rewrite Ln1, Lo1. clia. }
  change (set_entities c1 (decl_ents q (E.t_decls t))) with c1'. rewrite E2. cbn [bind]. clear E2.
  pose proof (W_app _ _ _ _ HW2) as HWb. pose proof (W_app _ _ _ _ HWb) as HW3.
  set (p3 := p2 + blen (r_pairs M) + blen w1) in *.
  rewrite skip_spaces_none by (try exact HW3; apply Hstop3).
  rewrite (Hcb p3 HW3).
  (* root *)
  pose proof (Step_nodes_len _ _ _ _ S2) as Ln2.
  rewrite (Forall2_len_N _ _ _ F2) in Ln2. unfold len_N at 3 in Ln2. rewrite tag_list_len in Ln2.
  change (d_nodes (c_doc c1')) with (d_nodes (c_doc c1)) in Ln2.
  pose proof (Step_opt _ _ _ _ (proj1 S2)) as Lo2. change (c_opt c1') with (c_opt c1) in Lo2.
  pose proof (Step_attrs_len _ _ _ _ (proj1 S2)) as La2. change (len_N []) with 0 in La2.
  change (d_attrs (c_doc c1')) with (d_attrs (c_doc c1)) in La2.
  destruct (Step_keep _ _ _ _ S2) as [Kld2 Kes2]. change (c_ld c1') with (c_ld c1) in Kld2.
  change (c_entities c1') with es in Kes2.
  destruct (DetectorProofs.detector_complete_gen tr' 0 0 Hlim) as [ld' Hrun]. change (DetectorProofs.mk 0 0) with ld_init in Hrun.
  assert (Hprov' : forallb E.provisos_item (E.regroup [root']) = true).
  { assert (Hnt : is_titext root' = false).
    { unfold root in Hroot. rewrite inline_elem in Hroot. destruct (E.inline_attrs _ false attrs) as [[a' ta]|]; [|discriminate].
      cbn [E.obind] in Hroot. destruct body as [[cs w2]|].
      - destruct (E.inline_items _ false cs) as [[b0 tb0]|]; [|discriminate]. cbn [E.obind] in Hroot. injection Hroot as <- _. reflexivity.
      - injection Hroot as <- _. reflexivity. }
    rewrite regroup_nontext by exact Hnt. cbn [E.regroup forallb]. rewrite Hprov. reflexivity. }
  assert (Eden : den [root'] = [erase root']).
  { unfold den. unfold root in Hroot. rewrite inline_elem in Hroot. destruct (E.inline_attrs _ false attrs) as [[a' ta]|]; [|discriminate].
    cbn [E.obind] in Hroot. destruct body as [[cs w2]|].
    - destruct (E.inline_items _ false cs) as [[b0 tb0]|]; [|discriminate]. cbn [E.obind] in Hroot. injection Hroot as <- _. reflexivity.
    - injection Hroot as <- _. reflexivity. }
  rewrite Erest3 in HW3 |- *.
  destruct (root_ok_e text Hascii decls es Henv Hdecls Hadjs Hetext E.max_level name attrs ws body p3 (r_pairs A ++ wE ++ []) c2
              [root'] tr' ld' H8 HW3 I2 ltac:(congruence) Kes2 Hroot Hrun Hprov')
    as (c3 & K3 & e3 & E3 & S3 & I3 & A3 & F3 & L3).
  { rewrite Eden, nsizes_cons. change (nsizes []) with 0. unfold node_room in *. rewrite Ln2, Lo2, Ln1, Lo1. clia. }
  { rewrite Eden. cbn [nattrs_items]. rewrite Nat.add_0_r. unfold attr_room in *. rewrite La2, La1. clia. }
  fold root in E3, HW3. rewrite Eden in F3, L3.
  rewrite E3. cbn [bind]. clear E3.
  pose proof (W_app _ _ _ _ HW3) as HW4.
  set (p4 := p3 + blen (E.r_item root)) in *.
  pose proof (Step_nodes_len _ _ _ _ S3) as Ln3.
  rewrite (Forall2_len_N _ _ _ F3) in Ln3. unfold len_N at 3 in Ln3. rewrite tag_list_len in Ln3.
  pose proof (Step_opt _ _ _ _ (proj1 S3)) as Lo3.
  (* epilog *)
  unfold parse_misc. cbn [CstLex.st s_rest]. fold (CstLex.st text p4 (r_pairs A ++ wE ++ [])).
  destruct (misc_loop_ok text Hascii A p4 wE [] c3
              (S (length (r_pairs A ++ wE ++ []))) HW4 H9 H3)
    as (c4 & K4 & E4 & S4 & I4 & A4 & F4).
  { split; [exact Logic.I|split; reflexivity]. }
  { pose proof (pairs_len A H9). rewrite app_length. clia. }
  { exact I3. } { exact A3. }
  { rewrite nsizes_cons in Ln3. change (nsizes []) with 0 in Ln3. unfold node_room in *. rewrite Ln3, Lo3, Ln2, Lo2, Ln1, Lo1. clia. }
  rewrite E4. cbn [bind]. clear E4.
  pose proof (W_app _ _ _ _ HW4) as HWc. pose proof (W_app _ _ _ _ HWc) as HW5.
  rewrite at_end_st by exact HW5. cbn [negb].
  exists c4, (K1 ++ K2 ++ K3 ++ K4). split; [reflexivity|].
  destruct S1 as (S1 & P1 & Q1). destruct S2 as (S2 & P2 & Q2). destruct S3 as (S3 & P3 & Q3). destruct S4 as (S4 & P4 & Q4).
  change (c_parent_id c1') with (c_parent_id c1) in P2. change (c_parent_prefixes c1') with (c_parent_prefixes c1) in Q2.
  split.
  { rewrite (s_nodes _ _ _ _ S4), (s_nodes _ _ _ _ S3), (s_nodes _ _ _ _ S2). change (c_doc c1') with (c_doc c1).
    rewrite (s_nodes _ _ _ _ S1), <- !app_assoc. reflexivity. }
  split; [congruence|]. split; [exact I4|].
  rewrite !tag_list_app. cbn [tag_list].
  pose proof (s_attrs _ _ _ _ S2) as X2. change (d_attrs (c_doc c1')) with (d_attrs (c_doc c1)) in X2.
  apply Forall2_app; [|apply Forall2_app; [|apply Forall2_app]].
  - rewrite (s_attrs _ _ _ _ S4), (s_attrs _ _ _ _ S3), X2, <- !app_assoc. apply km_Forall2_ext. exact F1.
  - rewrite (s_attrs _ _ _ _ S4), (s_attrs _ _ _ _ S3), <- !app_assoc. apply km_Forall2_ext.
    change (c_parent_id c1') with (c_parent_id c1) in F2. change (d_nodes (c_doc c1')) with (d_nodes (c_doc c1)) in F2.
    rewrite P1, Ln1 in F2. exact F2.
  - rewrite (s_attrs _ _ _ _ S4). apply km_Forall2_ext. rewrite P2, P1, Ln2, Ln1 in F3.
    cbn [tag_list] in F3. rewrite app_nil_r in F3. exact F3.
  - rewrite P3, P2, P1, Ln3, Ln2, Ln1 in F4. cbn [tag_list]. rewrite nsizes_cons in F4. change (nsizes []) with 0 in F4. rewrite N.add_0_r in F4. exact F4.
Qed.

Print Assumptions eparse_document_ok.
