(* Proofs/CstFullS11Sanity.v -- stage S11 (Spec/CstFullS11.v), computed: a sample document with character references
   to TAB and LF in the character data of content entities (directly, inside an element, next to references to other
   entities, after a CDATA section that ends in CR) is well formed, its rendering is valid UTF-8, the model parses it
   and the view is the meaning; it is not a document of stage S10; the sample documents of the earlier stages still
   are documents of this one. *)
From Coq Require Import Ascii String.
From Coq Require Import List NArith Bool.
Import ListNotations.
From RX Require Import Generated.
From RX.Model Require Import Base Stream Tokenizer Doc Builder Parse.
From RX.Spec Require CstNs CstU.
From RX.Spec Require Import CstFull CstFullS6 CstFullS7 CstFullS8 CstFullS9 CstFullS10 CstFullS11.
From RX.Proofs Require Import CstNsView CstFullS6Sanity CstFullS7Sanity CstFullS8Sanity CstFullS9Sanity CstFullS10Sanity.
Open Scope N_scope.

Definition check11 (c : S11.doc) : bool * bool * bool :=
  (S11.wf_doc c, valid_utf8_b (S11.render c),
   match parse (S11.render c) opt_dtd with
   | Ok d => match view (S11.render c) d with
             | Some v => if list_eq_dec vnode_eq_dec v (S11.sem c) then true else false
             | None => false end
   | _ => false
   end).

Definition cr : N := 13.

Definition subset11 : subset6 :=
  {| zu_decls :=
       [ XEntity (xd (b "t") (X4.XContent [tx [lit (b "a"); dref "9"; lit (b "b"); xref "A"; lit (b "c")]]));      (* <!ENTITY t "a&#9;b&#xA;c"> read as content *)
         XEntity (xd (b "cr") (X4.XText [lit (b "x" ++ [cr])]));                                                   (* <!ENTITY cr "x CR">: character data, also used in an attribute value *)
         XEntity (xd (b "m") (X4.XContent                                                                          (* markup, with references next to other references *)
           [ el [] (b "p") [at1 [] (b "k") [lit (b "v"); rf (b "cr")]]
                [tx [rf (b "t"); dref "10"; rf (b "cr"); dref "10"; E.EP (T.PCData (b "z" ++ [cr])); dref "10"; lit (b "w" ++ [cr; 10]); xref "a"]];
             tx [dref "9"] ]));
         XEntity (xd (b "u") (X4.XContent [tx [rf (b "t"); lit (b "|"); rf (b "m"); dref "38"; dref "9"]])) ];    (* an entity that refers to content entities is one *)
     zu_ws3 := []; zu_ws4 := [] |}.
Definition ex11 : S11.doc :=
  {| S6.x_bom := false; S6.x_decl := None;
     S6.x_dtd := Some {| S6.g_ws0 := []; S6.g_before := [];
                         S6.g_dtd := {| z_ws1 := [32]; z_name := b "r"; z_ws2 := []; z_ext := None; z_subset := Some subset11 |} |};
     S6.x_main := {| d_before := []; d_ws0 := [];
                     d_root := el [] (b "r") [at2 [] (b "a") [rf (b "cr"); dref "9"]]
                                  [tx [lit (b "x" ++ [cr]); rf (b "t"); rf (b "u")]];
                     d_after := []; d_ws_end := [] |} |}.
Eval vm_compute in (check11 ex11, S10.wf_doc ex11).
Eval vm_compute in (S11.render ex11).
Eval vm_compute in (S11.sem ex11).
(* S10 .. S6 documents are S11 documents *)
Eval vm_compute in (check11 ex10, check11 ex9, check11 ex8, check11 ex7, check11 ex1, check11 ex2).
