(* Proofs/LookupProofs.v -- property C12: name-based lookups agree with enumeration. *)
From Coq Require Import Lia ZifyBool ZifyN ZifyNat.
From RX Require Import Generated.
From RX.Model Require Import Base CharClass Stream Tokenizer Doc Builder Api.
From RX.Proofs Require Import Tactics.

Local Open Scope N_scope.

(* the attribute indices / namespace positions of a node, as the iterators yield them *)
Definition enum_attrs (d : document) (id : N) : res (list N) := let! it := attributes d id in Ok (sit_list it).
Definition enum_ns (d : document) (id : N) : res (list N) := let! it := namespaces d id in Ok (sit_list it).

Lemma Ok_inj : forall (A : Type) (x y : A), Ok x = Ok y -> x = y.
Proof. intros A x y H; inversion H; reflexivity. Qed.

(* ------------------------------------------------------------------ *)
(** * Attributes *)

Lemma find_attr_spec : forall text d name l r,
  find_attr text d l name = Ok r ->
  match r with
  | Some i => exists pre post a n, l = pre ++ i :: post /\ attr_at d i = Ok a /\ attr_ename text d a = Ok n /\ ename_eqb n name = true /\
              (forall j, In j pre -> forall a' n', attr_at d j = Ok a' -> attr_ename text d a' = Ok n' -> ename_eqb n' name = false)
  | None => forall j, In j l -> forall a' n', attr_at d j = Ok a' -> attr_ename text d a' = Ok n' -> ename_eqb n' name = false
  end.
Proof.
  intros text d name l. induction l as [|i l IH]; intros r H; cbn [find_attr] in H.
  - apply Ok_inj in H; subst r. intros j [].
  - apply bind_ok in H; destruct H as [a [Ha H]].
    apply bind_ok in H; destruct H as [n [Hn H]].
    destruct (ename_eqb n name) eqn:E.
    + apply Ok_inj in H; subst r.
      exists [], l, a, n. repeat split; auto. intros j [].
    + specialize (IH r H). destruct r as [i'|].
      * destruct IH as (pre & post & a0 & n0 & Hl & Ha0 & Hn0 & He & Hpre).
        exists (i :: pre), post, a0, n0. repeat split; auto.
        { rewrite Hl. reflexivity. }
        intros j [Hj|Hj] a' n' Ha' Hn'.
        { subst j. rewrite Ha in Ha'. apply Ok_inj in Ha'; subst a'.
          rewrite Hn in Hn'. apply Ok_inj in Hn'; subst n'. exact E. }
        { eapply Hpre; eauto. }
      * intros j [Hj|Hj] a' n' Ha' Hn'.
        { subst j. rewrite Ha in Ha'. apply Ok_inj in Ha'; subst a'.
          rewrite Hn in Hn'. apply Ok_inj in Hn'; subst n'. exact E. }
        { eapply IH; eauto. }
Qed.

(* attribute_node is the first enumerated attribute whose expanded name equals the query *)
Theorem attribute_node_first_match : forall text d id name l r,
  enum_attrs d id = Ok l -> attribute_node text d id name = Ok r ->
  match r with
  | Some i => exists pre post a n, l = pre ++ i :: post /\ attr_at d i = Ok a /\ attr_ename text d a = Ok n /\ ename_eqb n name = true /\
              (forall j, In j pre -> forall a' n', attr_at d j = Ok a' -> attr_ename text d a' = Ok n' -> ename_eqb n' name = false)
  | None => forall j, In j l -> forall a' n', attr_at d j = Ok a' -> attr_ename text d a' = Ok n' -> ename_eqb n' name = false
  end.
Proof.
  intros text d id name l r Hl Hr.
  unfold enum_attrs in Hl. apply bind_ok in Hl; destruct Hl as [it [Hit Hl]].
  apply Ok_inj in Hl; subst l.
  unfold attribute_node in Hr. rewrite Hit in Hr. cbn [bind] in Hr.
  apply find_attr_spec. exact Hr.
Qed.
Print Assumptions attribute_node_first_match.

Theorem has_attribute_iff : forall text d id name r, attribute_node text d id name = Ok r ->
  has_attribute text d id name = Ok (match r with Some _ => true | None => false end).
Proof.
  intros text d id name r H. unfold has_attribute. rewrite H. reflexivity.
Qed.
Print Assumptions has_attribute_iff.

Theorem attribute_is_value_of_node : forall text d id name r, attribute_node text d id name = Ok r ->
  attribute text d id name = match r with Some i => let! a := attr_at d i in Ok (Some (storage_bytes text (ad_value a))) | None => Ok None end.
Proof.
  intros text d id name r H. unfold attribute. rewrite H. reflexivity.
Qed.
Print Assumptions attribute_is_value_of_node.

(* a bare name (no namespace in the query) matches only attributes without a namespace *)
Theorem bare_name_no_namespace : forall n1 l1 l2, ename_eqb (Some n1, l1) (None, l2) = false.
Proof. intros. reflexivity. Qed.
Print Assumptions bare_name_no_namespace.

(* two attributes are equal exactly when expanded name and value are equal *)
Theorem attr_eqb_spec : forall text d i j a c na nc, attr_at d i = Ok a -> attr_at d j = Ok c ->
  attr_ename text d a = Ok na -> attr_ename text d c = Ok nc ->
  attr_eqb text d i j = Ok (ename_eqb na nc && bytes_eqb (storage_bytes text (ad_value a)) (storage_bytes text (ad_value c))).
Proof.
  intros text d i j a c na nc Ha Hc Hna Hnc. unfold attr_eqb.
  rewrite Ha. cbn [bind]. rewrite Hc. cbn [bind]. rewrite Hna. cbn [bind]. rewrite Hnc. reflexivity.
Qed.
Print Assumptions attr_eqb_spec.

(* ------------------------------------------------------------------ *)
(** * Tag names *)

Theorem has_tag_name_spec : forall text d id name tn, tag_name text d id = Ok tn ->
  (exists nd ns local a nss, node_data_of d id = Ok nd /\ nd_kind nd = KElement ns local a nss) ->
  has_tag_name text d id name = Ok (match fst name with Some _ => ename_eqb tn name | None => bytes_eqb (snd tn) (snd name) end).
Proof.
  intros text d id name tn Htn (nd & ns & local & a & nss & Hnd & Hk).
  unfold tag_name in Htn. unfold has_tag_name.
  rewrite Hnd in *. cbn [bind] in *. rewrite Hk in *.
  apply bind_ok in Htn; destruct Htn as [u [Hu Htn]]. apply Ok_inj in Htn; subst tn.
  destruct (fst name).
  - rewrite Hu. reflexivity.
  - reflexivity.
Qed.
Print Assumptions has_tag_name_spec.

Theorem has_tag_name_non_element : forall text d id name nd, node_data_of d id = Ok nd ->
  is_element_kind (nd_kind nd) = false -> has_tag_name text d id name = Ok false /\ tag_name text d id = Ok (None, []).
Proof.
  intros text d id name nd Hnd Hk. unfold has_tag_name, tag_name. rewrite Hnd. cbn [bind].
  destruct (nd_kind nd); cbn [is_element_kind] in Hk; try discriminate; split; reflexivity.
Qed.
Print Assumptions has_tag_name_non_element.

(* ------------------------------------------------------------------ *)
(** * Namespaces *)

Lemma find_ns_by_spec : forall d pred l r,
  find_ns_by d l pred = Ok r ->
  match r with
  | Some v => exists pre post p, l = pre ++ p :: post /\ namespace_at d p = Ok v /\ pred v = true /\
              (forall q v', In q pre -> namespace_at d q = Ok v' -> pred v' = false)
  | None => forall q v', In q l -> namespace_at d q = Ok v' -> pred v' = false
  end.
Proof.
  intros d pred l. induction l as [|p l IH]; intros r H; cbn [find_ns_by] in H.
  - apply Ok_inj in H; subst r. intros q v' [].
  - apply bind_ok in H; destruct H as [v [Hv H]].
    destruct (pred v) eqn:E.
    + apply Ok_inj in H; subst r. exists [], l, p. repeat split; auto. intros q v' [].
    + specialize (IH r H). destruct r as [w|].
      * destruct IH as (pre & post & p0 & Hl & Hp0 & Hw & Hpre).
        exists (p :: pre), post, p0. repeat split; auto.
        { rewrite Hl. reflexivity. }
        intros q v' [Hq|Hq] Hv'.
        { subst q. rewrite Hv in Hv'. apply Ok_inj in Hv'; subst v'. exact E. }
        { eapply Hpre; eauto. }
      * intros q v' [Hq|Hq] Hv'.
        { subst q. rewrite Hv in Hv'. apply Ok_inj in Hv'; subst v'. exact E. }
        { eapply IH; eauto. }
Qed.

Lemma find_ns_by_ext : forall d p1 p2 l, (forall v, p1 v = p2 v) ->
  find_ns_by d l p1 = find_ns_by d l p2.
Proof.
  intros d p1 p2 l Hext. induction l as [|p l IH]; cbn [find_ns_by]; [reflexivity|].
  destruct (namespace_at d p) as [v| | |]; cbn [bind]; try reflexivity.
  rewrite Hext, IH. reflexivity.
Qed.

(* namespace lookups return the first matching binding of namespaces() *)
Theorem lookup_namespace_uri_first : forall text d id prefix l r,
  enum_ns d id = Ok l -> lookup_namespace_uri text d id prefix = Ok r ->
  match r with
  | Some u => exists pre post p v, l = pre ++ p :: post /\ namespace_at d p = Ok v /\ opt_str_eqb (ns_name_bytes text v) prefix = true /\ u = storage_bytes text (ns_uri v) /\
              (forall q v', In q pre -> namespace_at d q = Ok v' -> opt_str_eqb (ns_name_bytes text v') prefix = false)
  | None => forall q v', In q l -> namespace_at d q = Ok v' -> opt_str_eqb (ns_name_bytes text v') prefix = false
  end.
Proof.
  intros text d id prefix l r Hl Hr.
  unfold enum_ns in Hl. apply bind_ok in Hl; destruct Hl as [it [Hit Hl]].
  apply Ok_inj in Hl; subst l.
  unfold lookup_namespace_uri in Hr. rewrite Hit in Hr. cbn [bind] in Hr.
  apply bind_ok in Hr; destruct Hr as [o [Ho Hr]]. apply Ok_inj in Hr.
  apply find_ns_by_spec in Ho. destruct o as [v|]; subst r.
  - destruct Ho as (pre & post & p & Hl & Hp & Hv & Hpre).
    exists pre, post, p, v. repeat split; auto.
  - exact Ho.
Qed.
Print Assumptions lookup_namespace_uri_first.

Theorem default_namespace_is_lookup_none : forall text d id, default_namespace text d id = lookup_namespace_uri text d id None.
Proof.
  intros text d id. unfold default_namespace, lookup_namespace_uri.
  destruct (namespaces d id) as [it| | |]; cbn [bind]; try reflexivity.
  rewrite (find_ns_by_ext d _ (fun v => opt_str_eqb (ns_name_bytes text v) None)).
  - reflexivity.
  - intros v. unfold ns_name_bytes. destruct (ns_name v); reflexivity.
Qed.
Print Assumptions default_namespace_is_lookup_none.

Theorem lookup_prefix_xml : forall text d id, lookup_prefix text d id ns_xml_uri = Ok (Some ns_xml_prefix).
Proof.
  intros text d id. unfold lookup_prefix.
  assert (E : bytes_eqb ns_xml_uri ns_xml_uri = true) by (vm_compute; reflexivity).
  rewrite E. reflexivity.
Qed.
Print Assumptions lookup_prefix_xml.

Theorem lookup_prefix_first : forall text d id uri l r, bytes_eqb uri ns_xml_uri = false ->
  enum_ns d id = Ok l -> lookup_prefix text d id uri = Ok r ->
  (exists pre post p v, l = pre ++ p :: post /\ namespace_at d p = Ok v /\ bytes_eqb (storage_bytes text (ns_uri v)) uri = true /\ r = ns_name_bytes text v /\
      (forall q v', In q pre -> namespace_at d q = Ok v' -> bytes_eqb (storage_bytes text (ns_uri v')) uri = false))
  \/ (r = None /\ forall q v', In q l -> namespace_at d q = Ok v' -> bytes_eqb (storage_bytes text (ns_uri v')) uri = false).
Proof.
  intros text d id uri l r Hx Hl Hr.
  unfold enum_ns in Hl. apply bind_ok in Hl; destruct Hl as [it [Hit Hl]].
  apply Ok_inj in Hl; subst l.
  unfold lookup_prefix in Hr. rewrite Hx, Hit in Hr. cbn [bind] in Hr.
  apply bind_ok in Hr; destruct Hr as [o [Ho Hr]]. apply Ok_inj in Hr.
  apply find_ns_by_spec in Ho. destruct o as [v|]; subst r.
  - left. destruct Ho as (pre & post & p & Hl & Hp & Hv & Hpre).
    exists pre, post, p, v. repeat split; auto.
  - right. split; [reflexivity|exact Ho].
Qed.
Print Assumptions lookup_prefix_first.
