(* Proofs/CstFullS4Sanity.v -- the capstone fragment, stage S4 (Spec/CstFullS4.v): the model on sample documents, by
   computation: "inline, then resolve the namespaces" is what the model computes. *)
From Coq Require Import Ascii String.
From Coq Require Import List NArith Bool.
Import ListNotations.
From RX.Model Require Import Base Stream Tokenizer Doc Builder Parse.
From RX.Spec Require CstNs CstU.
From RX.Spec Require Import CstFull CstFullS4.
From RX.Proofs Require Import CstNsView CstFullSanity.
Open Scope N_scope.

Definition lay ws w1 w2 q := {| CstNs.l_ws := b ws; CstNs.l_ws1 := b w1; CstNs.l_ws2 := b w2; CstNs.l_quote := q |}.
Definition qn (p l : scalars) : qname := {| q_prefix := p; q_local := l |}.
(* in the document: double quotes for attributes, single quotes for declarations; in entity values
   (quoted by the double quote): single quotes *)
Definition at_ p l v : uentry := EAttr (lay " " "" "" 34) (qn p l) v.
Definition dc p u : uentry := EDecl (lay " " " " "" 39) p u.
Definition at1 p l v : uentry := EAttr (lay " " "" "" 39) (qn p l) v.
Definition el p l es cs : uitem := IElem (qn p l) es [] (Some (cs, [])).
Definition em p l es : uitem := IElem (qn p l) es (b " ") None.
Definition tx (r : list E.epiece) : uitem := @IText epieces r.
Definition lit cs := E.EP (T.PLit cs).
Definition rf n := E.ERef n.
Definition xd n v : xdecl :=
  {| x_ws0 := [10]; x_ws1 := [32]; x_name := n; x_ws2 := [32]; x_quote := 34; x_value := v; x_ws3 := [] |}.
Definition mk decls root : S4.doc :=
  {| S4.x_ws0 := []; S4.x_before := [(IComment (b "c"), [10])];
     S4.x_dtd := {| t_ws1 := [32]; t_name := b "r"; t_ws2 := [32]; t_decls := decls; t_ws3 := [10]; t_ws4 := [] |};
     S4.x_main := {| d_before := [(IPI (b "p") [] [], [])]; d_ws0 := [10]; d_root := root; d_after := []; d_ws_end := [10] |} |}.
Definition opt4 := {| allow_dtd := true; nodes_limit := 1000 |}.

Definition check (c : S4.doc) : bool * bool * bool :=
  (S4.wf_doc c, valid_utf8_b (S4.render c),
   match parse (S4.render c) opt4 with
   | Ok d => match view (S4.render c) d with
             | Some v => if list_eq_dec vnode_eq_dec v (S4.sem c) then true else false
             | None => false end
   | _ => false
   end).
Definition rejected (c : S4.doc) : bool * bool :=
  (S4.wf_doc c, match parse (S4.render c) opt4 with Err _ => true | _ => false end).

Definition na := 21517. Definition mae := 21069. Definition eacute := 233.
Definition p_ := b "p".

(* 1. an entity holding <p:x xmlns:p='u' p:a='1'/>, referred to under two different outer bindings of p
      (and once where p is not bound outside at all) *)
Definition d1 := [xd (b "e") (XContent [em p_ (b "x") [dc p_ [lit (b "u")]; at1 p_ (b "a") [lit (b "1")]]])].
Definition ex1 := mk d1
  (el [] (b "r") []
     [ el [] (b "a") [dc p_ [lit (b "outer1")]] [tx [rf (b "e")]];
       el [] (b "b") [dc p_ [lit (b "outer2")]] [tx [lit (b "t"); rf (b "e"); lit (b "u")]];
       tx [rf (b "e")] ]).
Eval vm_compute in (check ex1).
Eval vm_compute in (S4.sem ex1).

(* 2. an entity holding an element that uses a prefix bound only at the place of reference *)
Definition d2 := [xd (b "e") (XContent [el p_ (b "y") [at1 p_ (b "k") [lit (b "v")]] [tx [lit (b "in")]]])].
Definition ex2 := mk d2
  (el [] (b "r") []
     [ el p_ (b "a") [dc p_ [lit (b "urn:1")]] [tx [rf (b "e")]];
       el [] (b "b") [dc p_ [lit (b "urn:2")]] [tx [rf (b "e")]; em [] (b "z") []; tx [rf (b "e")]] ]).
Eval vm_compute in (check ex2).
Eval vm_compute in (S4.sem ex2).
(* ... and is refused where the prefix is not bound *)
Definition bad2 := mk d2 (el [] (b "r") [] [tx [rf (b "e")]]).
Eval vm_compute in (rejected bad2).

(* 3. the default namespace is inherited into entity content; 4. a declaration inside the value shadows it *)
Definition d3 := [xd (b "e") (XContent [el [] (b "i") [] [em [] (b "j") []]; tx [lit (b "x")];
                                         el [] (b "k") [dc [] [lit (b "inner")]] [em [] (b "l") []; em [] (b "m") [dc [] []]]])].
Definition ex3 := mk d3
  (el [] (b "r") [dc [] [lit (b "dflt")]]
     [ tx [rf (b "e")];
       el [] (b "s") [dc [] [lit (b "other")]; dc p_ [lit (b "pp")]] [tx [lit (b "a"); rf (b "e"); lit (b "b")]] ]).
Eval vm_compute in (check ex3).
Eval vm_compute in (S4.sem ex3).

(* 5. Unicode names everywhere; 6. nested: a markup entity refers to another markup entity and to character-data
   entities (in character data, in an attribute value and in the URI of a namespace declaration) *)
Definition d5 :=
  [ xd [na] (XText [lit (b "rn:"); E.EP (T.PCharRef true (b "540D"))]);
    xd (b "u") (XText [lit (b "u"); rf [na]]);
    xd [mae] (XContent [em [na] [eacute] [at1 [na] [mae] [rf (b "u"); lit [eacute]]]; tx [rf (b "u")]]);
    xd [eacute] (XContent [el [na] [mae; 183] [dc [mae] [rf (b "u")]]
                             [tx [lit [na]; rf [mae]; lit [13; 10]]; IComment [128512]; em [mae] (b "q") []; tx [rf [mae]]]]);
    xd (b "u") (XText [lit (b "ignored")]) ].
Definition ex5 := mk d5
  (el [na] [eacute] [dc [na] [rf (b "u")]; at_ [na] (b "a") [rf (b "u")]]
     [ tx [rf [eacute]];
       el [] (b "w") [dc [na] [lit (b "second")]] [tx [lit (b "x"); rf [eacute]; rf [mae]]];
       IPI (b "pi") [32] [eacute] ]).
Eval vm_compute in (check ex5).
Eval vm_compute in (S4.sem ex5).

(* an entity whose elements are all gone: empty value, value of marks only *)
Definition d6 := [xd (b "n") (XContent []); xd (b "m") (XContent [tx [rf (b "n")]]); xd (b "c") (XContent [IComment (b "k")])].
Definition ex6 := mk d6 (el [] (b "r") [] [tx [rf (b "m")]; em [] (b "a") []; tx [rf (b "n"); rf (b "c"); rf (b "m")]]).
Eval vm_compute in (check ex6).
Eval vm_compute in (S4.sem ex6).

(* rejected and not well-formed *)
Definition bad3 := mk d1 (em [] (b "r") [at_ [] (b "a") [rf (b "e")]]).                       (* markup entity in a value *)
Definition bad4 := mk [xd (b "e") (XContent [em [] (b "x") [at1 [] (b "a") []; at1 [] (b "a") []]])]
                      (el [] (b "r") [] [tx [rf (b "e")]]).                                     (* N7 inside the value *)
Definition bad5 := mk [xd (b "e") (XContent [em p_ (b "x") [at1 [] (b "a") []; at1 p_ (b "a") []]])]
                      (el [] (b "r") [dc p_ [lit (b "u")]] [el [] (b "s") [dc [] [lit (b "u")]] [tx [rf (b "e")]]]).
                                                                                                (* fine: a and p:a differ (unprefixed attribute has no namespace) *)
Definition bad6 := mk [xd (b "e") (XContent [em [] (b "x") [at1 p_ (b "a") []; at1 (b "q") (b "a") []]])]
                      (el [] (b "r") [dc p_ [lit (b "u")]] [el [] (b "s") [dc (b "q") [lit (b "u")]] [tx [rf (b "e")]]]).
                                                                                                (* N7 only at the place of reference *)
Definition bad7 := mk [xd (b "e") (XContent [tx [rf (b "e")]])] (el [] (b "r") [] [tx [rf (b "e")]]).   (* recursion *)
Eval vm_compute in (map rejected [bad3; bad4; bad6; bad7]).
Eval vm_compute in (check bad5).
