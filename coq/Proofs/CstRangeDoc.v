(* Proofs/CstRangeDoc.v -- C13 / C18 on the fragment, part 4: the prolog / epilog loop and
   parse_document of CstDoc.v once more, with the observations of CstRangeItems.v. *)
From Coq Require Import Ascii String.
From Coq Require Import List NArith PeanoNat Bool Lia ZifyBool ZifyN ZifyNat.
Import ListNotations.
From RX Require Import Generated.
From RX.Model Require Import Base CharClass Stream Tokenizer Doc Builder Parse.
From RX.Spec Require Cst.
From RX.Proofs Require Import Tactics CstLex CstBuild CstTree CstItems CstDoc CstRangeDefs CstRangeBuild CstRangeItems.
Open Scope N_scope.

(* the items of a prolog / epilog list, with their offsets *)
Fixpoint pairs_at (p : N) (l : pairs) : list (N * Cst.item) :=
  match l with
  | [] => []
  | (w, i) :: r => (p + blen w, i) :: pairs_at (p + blen w + blen (Cst.r_item i)) r
  end.

Section Doc.
Variable text : bytes.
Hypothesis Hascii : Forall (fun x => x < 128) text.

Notation ev := (tok_ev text).
Notation st := (CstLex.st text).
Notation W := (CstLex.W text).

Lemma misc_loop_ok_r : forall (l : pairs) p wl rest c fuel,
  W p (r_pairs l ++ wl ++ rest) -> wf_pairs l = true -> Cst.wf_ws wl = true -> misc_stop rest ->
  (length l < fuel)%nat -> CI c -> c_after_text c = [] -> node_room c (nsizes (map snd l)) ->
  exists c' K,
    parse_misc_loop text context ev fuel (st p (r_pairs l ++ wl ++ rest)) c =
    Ok (st (p + blen (r_pairs l) + blen wl) rest, c') /\
    Step c c' K [] /\ CI c' /\ c_after_text c' = [] /\
    Forall2 (km text (d_attrs (c_doc c'))) K (tag_list (c_parent_id c) (len_N (d_nodes (c_doc c))) (map snd l)) /\
    Extra (pairs_at p l) c c' K [].
Proof.
  induction l as [|[w i] l IH]; intros p wl rest c fuel HW Hwf Hwl (Hs1 & Hs2 & Hs3) Hf I Hat NR.
  - cbn [r_pairs flat_map app map tag_list] in *. change (blen []) with 0. rewrite N.add_0_r.
    destruct fuel as [|fu]; [cbn in Hf; lia|]. cbn [parse_misc_loop].
    exists c, []. split; [|split; [apply Step_refl|split; [exact I|split; [exact Hat|split; [constructor|]]]]].
    2:{ split; [constructor|]. split; [reflexivity|]. cbn [pairs_at map]. rewrite app_nil_r. reflexivity. }
    rewrite at_end_st by exact HW.
    destruct (wl ++ rest) as [|x0 l0] eqn:E0.
    + apply app_eq_nil in E0. destruct E0 as [-> ->]. change (blen []) with 0. rewrite N.add_0_r. reflexivity.
    + rewrite <- E0 in *. clear E0 x0 l0. cbv zeta.
      rewrite skip_spaces_st; [|exact HW|apply ws_spaces; exact Hwl|exact Hs1].
      pose proof (W_app _ _ _ _ HW) as HW1.
      rewrite !starts_with_st by exact HW1.
      change (b "<!--") with [60; 33; 45; 45]. change (b "<?") with [60; 63]. rewrite Hs2, Hs3. reflexivity.
  - cbn [wf_pairs forallb fst snd] in Hwf. rewrite !andb_true_iff in Hwf. destruct Hwf as [[[H1 H2] H3] H4].
    cbn [r_pairs flat_map fst snd] in HW |- *. fold (r_pairs l) in HW |- *.
    rewrite <- !app_assoc in HW |- *.
    cbn [map snd] in NR. rewrite nsizes_cons in NR.
    cbn [length] in Hf. destruct fuel as [|fu]; [lia|]. cbn [parse_misc_loop].
    rewrite at_end_st by exact HW.
    assert (Hst : exists l0, Cst.r_item i = 60 :: l0) by (apply nontext_starts; destruct i; try discriminate; reflexivity).
    destruct Hst as [l0 El0].
    replace (match w ++ Cst.r_item i ++ r_pairs l ++ wl ++ rest with [] => true | _ :: _ => false end) with false
      by (rewrite El0; destruct w; reflexivity).
    cbv zeta.
    rewrite skip_spaces_st; [|exact HW|apply ws_spaces; exact H1|rewrite El0; reflexivity].
    pose proof (W_app _ _ _ _ HW) as HW1.
    assert (R : room c) by (apply (node_room_room _ _ NR); pose proof (nsize_pos i); lia).
    destruct i as [? ? ? ?|?|bs|t s v]; try discriminate.
    + (* comment *)
      rewrite starts_with_st by exact HW1. change (b "<!--") with [60; 33; 45; 45].
      cbn [Cst.r_item] in HW1 |- *. rewrite <- !app_assoc in HW1 |- *. rewrite prefix_b_app_same.
      pose proof (ev_comment_r text Hascii bs (p + blen w) (r_pairs l ++ wl ++ rest) c H3) as Hev.
      cbn [Cst.r_item] in Hev. rewrite <- !app_assoc in Hev.
      destruct (Hev HW1 I R) as (c1 & K1 & E1 & (S1 & I1 & A1 & _ & _ & F1 & _) & X1). clear Hev.
      rewrite E1. cbn [bind].
      pose proof (Step_nodes_len _ _ _ _ S1) as Ln1.
      rewrite (Forall2_len_N _ _ _ F1) in Ln1. unfold len_N at 3 in Ln1. rewrite tag_len in Ln1.
      pose proof (Step_opt _ _ _ _ (proj1 S1)) as Lo1.
      set (p1 := p + blen w + blen ([60; 33; 45; 45] ++ bs ++ [45; 45; 62])) in *.
      assert (HW2 : W p1 (r_pairs l ++ wl ++ rest)).
      { pose proof (W_app _ _ ([60; 33; 45; 45] ++ bs ++ [45; 45; 62]) _ ltac:(rewrite <- !app_assoc; exact HW1)) as X.
        exact X. }
      destruct (IH p1 wl rest c1 fu HW2 H4 Hwl (conj Hs1 (conj Hs2 Hs3)) ltac:(clia) I1 (A1 eq_refl))
        as (c2 & K2 & E2 & S2 & I2 & A2 & F2 & X2).
      { unfold node_room in *. rewrite Ln1, Lo1. clia. }
      rewrite E2. exists c2, (K1 ++ K2). split.
      { f_equal. f_equal. f_equal. unfold p1. rewrite !blen_app. clia. }
      split; [apply (Step_trans _ _ _ _ _ _ _ S1 S2)|]. split; [exact I2|]. split; [exact A2|].
      split.
      { cbn [map snd tag_list]. apply Forall2_app.
        * rewrite (s_attrs _ _ _ _ (proj1 S2)). apply km_Forall2_ext. exact F1.
        * destruct S1 as (_ & P1 & _). rewrite P1, Ln1 in F2. exact F2. }
      cbn [pairs_at fst snd]. change (@nil attr_data) with (@nil attr_data ++ []).
      eapply (Extra_app [_] _ c c1 c2); [exact X1|]. exact X2.
    + (* processing instruction *)
      rewrite !starts_with_st by exact HW1. change (b "<!--") with [60; 33; 45; 45]. change (b "<?") with [60; 63].
      cbn [Cst.r_item] in HW1 |- *. rewrite <- !app_assoc in HW1 |- *. rewrite prefix_b_app_same.
      replace (prefix_b [60; 33; 45; 45] ([60; 63] ++ t ++ s ++ v ++ [63; 62] ++ r_pairs l ++ wl ++ rest)) with false
        by reflexivity.
      pose proof (ev_pi_r text Hascii t s v (p + blen w) (r_pairs l ++ wl ++ rest) c H3) as Hev.
      cbn [Cst.r_item] in Hev. rewrite <- !app_assoc in Hev.
      destruct (Hev HW1 I R) as (c1 & K1 & E1 & (S1 & I1 & A1 & _ & _ & F1 & _) & X1). clear Hev.
      rewrite E1. cbn [bind].
      pose proof (Step_nodes_len _ _ _ _ S1) as Ln1.
      rewrite (Forall2_len_N _ _ _ F1) in Ln1. unfold len_N at 3 in Ln1. rewrite tag_len in Ln1.
      pose proof (Step_opt _ _ _ _ (proj1 S1)) as Lo1.
      set (p1 := p + blen w + blen ([60; 63] ++ t ++ s ++ v ++ [63; 62])) in *.
      assert (HW2 : W p1 (r_pairs l ++ wl ++ rest)).
      { pose proof (W_app _ _ ([60; 63] ++ t ++ s ++ v ++ [63; 62]) _ ltac:(rewrite <- !app_assoc; exact HW1)) as X.
        exact X. }
      destruct (IH p1 wl rest c1 fu HW2 H4 Hwl (conj Hs1 (conj Hs2 Hs3)) ltac:(clia) I1 (A1 eq_refl))
        as (c2 & K2 & E2 & S2 & I2 & A2 & F2 & X2).
      { unfold node_room in *. rewrite Ln1, Lo1. clia. }
      rewrite E2. exists c2, (K1 ++ K2). split.
      { f_equal. f_equal. f_equal. unfold p1. rewrite !blen_app. clia. }
      split; [apply (Step_trans _ _ _ _ _ _ _ S1 S2)|]. split; [exact I2|]. split; [exact A2|].
      split.
      { cbn [map snd tag_list]. apply Forall2_app.
        * rewrite (s_attrs _ _ _ _ (proj1 S2)). apply km_Forall2_ext. exact F1.
        * destruct S1 as (_ & P1 & _). rewrite P1, Ln1 in F2. exact F2. }
      cbn [pairs_at fst snd]. change (@nil attr_data) with (@nil attr_data ++ []).
      eapply (Extra_app [_] _ c c1 c2); [exact X1|]. exact X2.
Qed.

End Doc.

(* ---- the items of the whole document, regrouped as the parser meets them ---- *)
Lemma misc_items_at q i : Cst.is_misc i = true -> items_at q i = [(q, i)].
Proof. destruct i; try discriminate; reflexivity. Qed.

Lemma pairs_at_regroup : forall l p w0,
  forallb (fun x => Cst.is_misc (fst x) && Cst.wf_item (fst x) && Cst.wf_ws (snd x)) l = true ->
  pairs_at p (regroup w0 l) = before_at (p + nlen w0) l.
Proof.
  induction l as [|[i w] r IH]; intros p w0 H; cbn [regroup pairs_at before_at]; [reflexivity|].
  cbn [forallb fst snd] in H. rewrite !andb_true_iff in H. destruct H as [[[H1 _] _] H4].
  rewrite (misc_items_at _ _ H1). cbn [app]. f_equal. rewrite (IH _ _ H4). f_equal.
Qed.

Lemma pairs_at_after : forall l p, wf_pairs l = true -> pairs_at p l = after_at p l.
Proof.
  induction l as [|[w i] r IH]; intros p H; cbn [pairs_at after_at]; [reflexivity|].
  cbn [wf_pairs forallb fst snd] in H. rewrite !andb_true_iff in H. destruct H as [[[_ H2] _] H4].
  rewrite (misc_items_at _ _ H2). cbn [app]. f_equal. apply IH. exact H4.
Qed.

Lemma doc_items_at_eq c : Cst.wf_doc c = true ->
  doc_items_at c =
  pairs_at 0 (regroup (Cst.d_ws0 c) (Cst.d_before c)) ++
  items_at (0 + blen (r_pairs (regroup (Cst.d_ws0 c) (Cst.d_before c))) + blen (last_ws (Cst.d_ws0 c) (Cst.d_before c)))
           (Cst.d_root c) ++
  pairs_at (0 + blen (r_pairs (regroup (Cst.d_ws0 c) (Cst.d_before c))) + blen (last_ws (Cst.d_ws0 c) (Cst.d_before c))
            + blen (Cst.r_item (Cst.d_root c))) (Cst.d_after c).
Proof.
  intros Hwf. pose proof (wf_doc_parts c Hwf) as [H1 H2 H3 _ H5 H6].
  unfold doc_items_at. rewrite (pairs_at_regroup _ 0 _ H3), (pairs_at_after _ _ H6).
  assert (Ero : root_offset c =
                0 + blen (r_pairs (regroup (Cst.d_ws0 c) (Cst.d_before c))) + blen (last_ws (Cst.d_ws0 c) (Cst.d_before c))).
  { unfold root_offset, before_len.
    pose proof (f_equal (@length N) (regroup_render (Cst.d_before c) (Cst.d_ws0 c))) as E.
    rewrite !app_length in E. unfold nlen, blen. lia. }
  rewrite Ero. reflexivity.
Qed.

Lemma parse_document_ok_r (c : Cst.doc) (dtd : bool) (c0 : context) :
  Cst.wf_doc c = true ->
  let text := Cst.render c in
  CI c0 -> c_after_text c0 = [] ->
  node_room c0 (nsizes (doc_items c)) -> attr_room c0 (nattrs (Cst.d_root c)) ->
  exists cf K ext,
    parse_document text context (tok_ev text) dtd c0 = Ok cf /\
    Step c0 cf K ext /\ CI cf /\
    Forall2 (km text (d_attrs (c_doc cf))) K
            (tag_list (c_parent_id c0) (len_N (d_nodes (c_doc c0))) (doc_items c)) /\
    Extra (doc_items_at c) c0 cf K ext.
Proof.
  intros Hwf text I0 A0 NR AR. pose proof (doc_items_at_eq c Hwf) as Eat.
  pose proof (render_asc c Hwf) as Hascii. fold text in Hascii.
  pose proof (decl_render c Hwf) as Hdecl. fold text in Hdecl.
  pose proof (wf_doc_parts c Hwf) as [H1 H2 H3 (name & attrs & ws & body & Er) H5 H6].
  clear Hwf.
  destruct (regroup_wf _ _ H1 H3) as [R1 R2].
  assert (Etext : text = r_pairs (regroup (Cst.d_ws0 c) (Cst.d_before c)) ++ last_ws (Cst.d_ws0 c) (Cst.d_before c) ++
                         Cst.r_item (Cst.d_root c) ++ r_pairs (Cst.d_after c) ++ Cst.d_ws_end c ++ [])
    by apply render_shape.
  assert (Eitems : doc_items c = map snd (regroup (Cst.d_ws0 c) (Cst.d_before c)) ++ Cst.d_root c :: map snd (Cst.d_after c)).
  { unfold doc_items. rewrite regroup_items. reflexivity. }
  rewrite Eitems in *. clear Eitems. rewrite Er in *. clear Er H1 H3.
  set (B := regroup (Cst.d_ws0 c) (Cst.d_before c)) in *.
  set (wB := last_ws (Cst.d_ws0 c) (Cst.d_before c)) in *.
  set (A := Cst.d_after c) in *. set (wE := Cst.d_ws_end c) in *.
  set (root := Cst.IElem name attrs ws body) in *.
  rewrite nsizes_app, nsizes_cons in NR.
  pose proof (W_new text) as HW0.
  destruct (wf_elem_parts _ _ _ _ H5) as (Hn & _).
  destruct (root_starts name attrs ws body Hn) as (n & l & El & Hns). fold root in El.
  destruct (name_start_byte _ Hns) as (_ & _ & Hnsp & _ & _ & H33 & H63 & _). clear Hns Hn.
  remember (Cst.r_item root ++ r_pairs A ++ wE ++ []) as rest eqn:Erest.
  assert (Hstop : misc_stop rest).
  { rewrite Erest, El. cbn [app]. split; [reflexivity|]. cbn [prefix_b].
    replace (33 =? n) with false by clia. replace (63 =? n) with false by clia. split; reflexivity. }
  assert (Hdt : prefix_b [60; 33; 68; 79; 67; 84; 89; 80; 69] rest = false).
  { rewrite Erest, El. cbn [app prefix_b]. replace (33 =? n) with false by clia. rewrite andb_false_r. reflexivity. }
  assert (Hcb : forall p, CstLex.W text p rest ->
            match curr_byte_opt (CstLex.st text p rest) with Some x => x =? 60 | None => false end = true).
  { intros p HWp. rewrite Erest, El in *. cbn [app] in *. rewrite curr_byte_opt_st by exact HWp. reflexivity. }
  clear El.
  unfold parse_document. rewrite st_new.
  rewrite starts_with_st by exact HW0. rewrite bom_false by exact Hascii. cbn [bind].
  unfold starts_with_declaration. rewrite starts_with_st, avail_st by exact HW0.
  change (b "<?xml") with [60; 63; 120; 109; 108]. fold (decl_test text). rewrite Hdecl. cbn [bind].
  (* prolog *)
  unfold parse_misc. cbn [CstLex.st s_rest].
  fold (CstLex.st text 0 text).
  assert (HW0' : CstLex.W text 0 (r_pairs B ++ wB ++ rest)) by (rewrite <- Etext; exact HW0).
  replace (CstLex.st text 0 text) with (CstLex.st text 0 (r_pairs B ++ wB ++ rest))
    by (rewrite <- Etext; reflexivity).
  assert (Elen : length text = length (r_pairs B ++ wB ++ rest)) by (rewrite <- Etext; reflexivity).
  destruct (misc_loop_ok_r text Hascii B 0 wB rest c0 (S (length text)) HW0' R1 R2 Hstop)
    as (c1 & K1 & E1 & S1 & I1 & A1 & F1 & X1).
  { pose proof (pairs_len B R1). rewrite Elen, app_length. clia. }
  { exact I0. } { exact A0. } { unfold node_room in *. clia. }
  rewrite E1. cbn [bind]. clear E1.
  pose proof (W_app _ _ _ _ HW0') as HWa. pose proof (W_app _ _ _ _ HWa) as HW1.
  set (p1 := 0 + blen (r_pairs B) + blen wB) in *.
  rewrite skip_spaces_none by (try exact HW1; apply Hstop).
  rewrite starts_with_st by exact HW1. change (b "<!DOCTYPE") with [60; 33; 68; 79; 67; 84; 89; 80; 69].
  rewrite Hdt.
  cbn [bind]. rewrite skip_spaces_none by (try exact HW1; apply Hstop).
  rewrite (Hcb p1 HW1).
  (* root *)
  pose proof (Step_nodes_len _ _ _ _ S1) as Ln1.
  rewrite (Forall2_len_N _ _ _ F1) in Ln1. unfold len_N at 3 in Ln1. rewrite tag_list_len in Ln1.
  pose proof (Step_opt _ _ _ _ (proj1 S1)) as Lo1.
  pose proof (Step_attrs_len _ _ _ _ (proj1 S1)) as La1. change (len_N []) with 0 in La1.
  rewrite Erest in HW1 |- *.
  destruct (root_ok_r text Hascii name attrs ws body p1 (r_pairs A ++ wE ++ []) c1 H5 HW1 I1)
    as (c2 & K2 & e2 & E2 & (S2 & I2 & A2 & _ & _ & F2 & L2) & X2).
  { unfold node_room in *. rewrite Ln1, Lo1. fold root. clia. }
  { unfold attr_room in *. rewrite La1. fold root. clia. }
  fold root in E2, S2, A2, F2, L2, HW1, X2.
  rewrite E2. cbn [bind]. clear E2.
  pose proof (W_app _ _ _ _ HW1) as HW2.
  set (p2 := p1 + blen (Cst.r_item root)) in *.
  pose proof (Step_nodes_len _ _ _ _ S2) as Ln2.
  rewrite (Forall2_len_N _ _ _ F2) in Ln2. unfold len_N at 3 in Ln2. rewrite tag_len in Ln2.
  pose proof (Step_opt _ _ _ _ (proj1 S2)) as Lo2.
  (* epilog *)
  unfold parse_misc. cbn [CstLex.st s_rest]. fold (CstLex.st text p2 (r_pairs A ++ wE ++ [])).
  destruct (misc_loop_ok_r text Hascii A p2 wE [] c2
              (S (length (r_pairs A ++ wE ++ []))) HW2 H6 H2)
    as (c3 & K3 & E3 & S3 & I3 & A3 & F3 & X3).
  { split; [exact Logic.I|split; reflexivity]. }
  { pose proof (pairs_len A H6). rewrite app_length. clia. }
  { exact I2. } { apply A2. reflexivity. }
  { unfold node_room in *. rewrite Ln2, Lo2, Ln1, Lo1. clia. }
  rewrite E3. cbn [bind]. clear E3.
  pose proof (W_app _ _ _ _ HW2) as HWb. pose proof (W_app _ _ _ _ HWb) as HW3.
  rewrite at_end_st by exact HW3. cbn [negb].
  exists c3, (K1 ++ K2 ++ K3), ([] ++ e2 ++ []). split; [reflexivity|].
  split; [apply (Step_trans _ _ _ _ _ _ _ S1 (Step_trans _ _ _ _ _ _ _ S2 S3))|]. split; [exact I3|].
  split.
  2:{ rewrite Eat. eapply Extra_app; [exact X1|]. eapply Extra_app; [exact X2|exact X3]. }
  rewrite tag_list_app. cbn [tag_list].
  destruct S1 as (S1 & P1 & _). destruct S2 as (S2 & P2 & _). destruct S3 as (S3 & _ & _).
  apply Forall2_app; [|apply Forall2_app].
  - rewrite (s_attrs _ _ _ _ S3), (s_attrs _ _ _ _ S2), <- app_assoc. apply km_Forall2_ext. exact F1.
  - rewrite (s_attrs _ _ _ _ S3). apply km_Forall2_ext. rewrite P1, Ln1 in F2. exact F2.
  - rewrite P2, P1, Ln2, Ln1 in F3. exact F3.
Qed.

Print Assumptions parse_document_ok_r.
