(* Proofs/OrderProofs.v -- property C17: identity, equality and order of nodes.
   A node is the key (document address, node id). *)
From Coq Require Import Lia ZifyBool ZifyN ZifyNat Sorted.
From RX Require Import Generated.
From RX.Model Require Import Base CharClass Stream Tokenizer Doc Builder Api.
From RX.Proofs Require Import Tactics.

Local Open Scope N_scope.

(* ---- equality ---- *)

Theorem node_eqb_iff : forall x y : node_key, node_eqb x y = true <-> x = y.
Proof.
  intros [a i] [c j]; unfold node_eqb; cbn [fst snd].
  rewrite andb_true_iff, !N.eqb_eq. split.
  - intros [-> ->]; reflexivity.
  - intros H; inversion H; auto.
Qed.
Print Assumptions node_eqb_iff.

(* ---- order ---- *)

Theorem node_cmp_eq_iff : forall x y, node_cmp x y = Eq <-> x = y.
Proof.
  intros [a i] [c j]; unfold node_cmp; cbn [fst snd]. split.
  - destruct (a ?= c) eqn:E; try discriminate.
    apply N.compare_eq_iff in E. intros H; apply N.compare_eq_iff in H. congruence.
  - intros H; inversion H; subst. rewrite !N.compare_refl. reflexivity.
Qed.
Print Assumptions node_cmp_eq_iff.

Theorem node_cmp_antisym : forall x y, node_cmp y x = CompOpp (node_cmp x y).
Proof.
  intros [a i] [c j]; unfold node_cmp; cbn [fst snd].
  rewrite (N.compare_antisym a c), (N.compare_antisym i j).
  destruct (a ?= c); reflexivity.
Qed.
Print Assumptions node_cmp_antisym.

(* the order is the lexicographic one *)
Lemma node_cmp_lt_iff : forall a i c j,
  node_cmp (a, i) (c, j) = Lt <-> a < c \/ (a = c /\ i < j).
Proof.
  intros a i c j; unfold node_cmp; cbn [fst snd].
  destruct (N.compare_spec a c) as [E|E|E].
  - subst. rewrite N.compare_lt_iff. split; [auto|]. intros [H|[_ H]]; [lia|auto].
  - split; [auto|reflexivity].
  - split; [discriminate|]. intros [H|[H _]]; lia.
Qed.

Lemma node_cmp_gt_iff : forall a i c j,
  node_cmp (a, i) (c, j) = Gt <-> c < a \/ (a = c /\ j < i).
Proof.
  intros a i c j. rewrite (node_cmp_antisym (c, j) (a, i)).
  destruct (node_cmp (c, j) (a, i)) eqn:E; cbn [CompOpp].
  - apply node_cmp_eq_iff in E. inversion E; subst.
    split; [discriminate|]. intros [H|[_ H]]; lia.
  - apply node_cmp_lt_iff in E. split; [intros _|reflexivity].
    destruct E as [E|[E1 E2]]; [left|right]; auto.
  - split; [discriminate|]. intros H.
    assert (L : node_cmp (c, j) (a, i) = Lt).
    { apply node_cmp_lt_iff. destruct H as [H|[H1 H2]]; [left|right]; auto. }
    congruence.
Qed.

Theorem node_cmp_trans : forall x y z, node_cmp x y = Lt -> node_cmp y z = Lt -> node_cmp x z = Lt.
Proof.
  intros [a i] [c j] [e k]. rewrite !node_cmp_lt_iff. lia.
Qed.
Print Assumptions node_cmp_trans.

Theorem node_cmp_same_doc : forall a i j, node_cmp (a, i) (a, j) = (i ?= j).
Proof.
  intros a i j; unfold node_cmp; cbn [fst snd]. rewrite N.compare_refl. reflexivity.
Qed.
Print Assumptions node_cmp_same_doc.

Theorem node_cmp_groups : forall a b i j k, a <> b ->
  node_cmp (a, i) (b, k) = Lt -> node_cmp (b, k) (a, j) = Lt -> False.
Proof.
  intros a c i j k Hne. rewrite !node_cmp_lt_iff. lia.
Qed.
Print Assumptions node_cmp_groups.

(* ---- get_node ---- *)

Lemma nth_error_is_some : forall (A : Type) (l : list A) (n : nat),
  (n < length l)%nat -> exists x, nth_error l n = Some x.
Proof.
  intros A l n H. destruct (nth_error l n) eqn:E; [eauto|].
  apply nth_error_None in E. lia.
Qed.

Theorem get_node_id_spec : forall d k, k < 4294967295 ->
  get_node_id d k = Ok (if k <? len_N (d_nodes d) then Some k else None).
Proof.
  intros d k Hk. unfold get_node_id, node_id_new, u32_max.
  destruct (4294967295 <=? k) eqn:E; [lia|]. cbn [bind].
  unfold get_node, nth_N.
  destruct (len_N (d_nodes d) <=? k) eqn:E1; destruct (k <? len_N (d_nodes d)) eqn:E2; try lia.
  - reflexivity.
  - unfold len_N in *.
    destruct (nth_error_is_some _ (d_nodes d) (N.to_nat k)) as [x Hx]; [lia|].
    rewrite Hx. reflexivity.
Qed.
Print Assumptions get_node_id_spec.

(* ---- sorting: a sorted list keeps the nodes of one document together ---- *)

Definition key_le (x y : node_key) : Prop := node_cmp x y <> Gt.

Lemma key_le_iff : forall a i c j, key_le (a, i) (c, j) <-> a < c \/ (a = c /\ i <= j).
Proof.
  intros a i c j. unfold key_le. rewrite node_cmp_gt_iff. lia.
Qed.

Lemma key_le_trans : forall x y z, key_le x y -> key_le y z -> key_le x z.
Proof.
  intros [a i] [c j] [e k]. rewrite !key_le_iff. lia.
Qed.

Lemma key_le_fst : forall x y, key_le x y -> fst x <= fst y.
Proof.
  intros [a i] [c j]. rewrite key_le_iff. cbn [fst]. lia.
Qed.

Lemma StronglySorted_app_r : forall (A : Type) (R : A -> A -> Prop) (l1 l2 : list A),
  StronglySorted R (l1 ++ l2) -> StronglySorted R l2.
Proof.
  intros A R l1 l2. induction l1 as [|h t IH]; cbn [app]; intros H; [exact H|].
  apply IH. inversion H; assumption.
Qed.

Lemma StronglySorted_head_le : forall (A : Type) (R : A -> A -> Prop) (x : A) (l : list A) (y : A),
  StronglySorted R (x :: l) -> In y l -> R x y.
Proof.
  intros A R x l y H Hin. inversion H as [|? ? _ Hall]; subst.
  rewrite Forall_forall in Hall. auto.
Qed.

Theorem sorted_groups_documents : forall (l : list node_key), Sorted key_le l ->
  forall l1 x l2 y l3 z l4, l = l1 ++ x :: l2 ++ y :: l3 ++ z :: l4 -> fst x = fst z -> fst y = fst x.
Proof.
  intros l Hs l1 x l2 y l3 z l4 -> Hxz.
  apply Sorted_StronglySorted in Hs; [|exact key_le_trans].
  apply StronglySorted_app_r in Hs.
  assert (Hxy : key_le x y).
  { apply (StronglySorted_head_le _ _ _ _ y Hs). apply in_or_app; right; left; reflexivity. }
  inversion Hs as [|? ? Hs' _]; subst.
  apply StronglySorted_app_r in Hs'.
  assert (Hyz : key_le y z).
  { apply (StronglySorted_head_le _ _ _ _ z Hs'). apply in_or_app; right; left; reflexivity. }
  apply key_le_fst in Hxy. apply key_le_fst in Hyz. lia.
Qed.
Print Assumptions sorted_groups_documents.
