(* Proofs/BorrowLocal.v -- C18, part 1: what a borrowed string is, the fast paths that do not
   copy, and the small "result satisfies Q" logic used by the other Borrow*.v files. *)
From Coq Require Import List NArith Bool Lia ZifyBool ZifyN.
Import ListNotations.
From RX Require Import Generated.
From RX.Model Require Import Base CharClass Stream Tokenizer Doc Builder Parse.
From RX.Proofs Require Import Tactics.
Open Scope N_scope.

(* ------------------------------------------------------------------ *)
(* a borrowed string is a sub-slice of the input                       *)

Definition valid_slice (text : bytes) (s : slice) : Prop :=
  sl_start s <= sl_end s /\ sl_end s <= tlen text /\
  is_boundary text (sl_start s) = true /\ is_boundary text (sl_end s) = true.
Definition valid_str (text : bytes) (s : str) : Prop :=
  match s with SIn sl => valid_slice text sl | SStatic _ => True end.
Definition valid_storage (text : bytes) (s : storage) : Prop :=
  match s with Borrowed x => valid_str text x | Owned _ => True end.

(* every borrowed string stored in a document *)
Definition doc_borrows_ok (text : bytes) (d : document) : Prop :=
  (forall nd, In nd (d_nodes d) -> match nd_kind nd with
      | KElement _ local _ _ => valid_slice text local
      | KPI target value => valid_slice text target /\
                            match value with Some v => valid_slice text v | None => True end
      | KComment s => valid_slice text s
      | KText st => valid_storage text st
      | KRoot => True end) /\
  (forall a, In a (d_attrs d) -> valid_slice text (ad_local a) /\ valid_storage text (ad_value a)) /\
  (forall v, In v (d_ns_values d) ->
      match ns_name v with Some s => valid_str text s | None => True end /\
      valid_storage text (ns_uri v)).

(* every slice inside the token is a valid_slice *)
Definition token_ok (text : bytes) (tok : Tokenizer.token) : Prop :=
  match tok with
  | TPI target content _ =>
    valid_slice text target /\ match content with Some v => valid_slice text v | None => True end
  | TComment t _ => valid_slice text t
  | TEntityDecl name value => valid_slice text name /\ valid_slice text value
  | TElementStart prefix local _ => valid_slice text prefix /\ valid_slice text local
  | TAttribute _ _ _ prefix local value =>
    valid_slice text prefix /\ valid_slice text local /\ valid_slice text value
  | TElementEnd e _ =>
    match e with
    | EClose prefix local => valid_slice text prefix /\ valid_slice text local
    | _ => True
    end
  | TText t _ => valid_slice text t
  | TCdata t _ => valid_slice text t
  end.

Theorem mk_slice_valid : forall text a e s,
  mk_slice text a e = Ok s -> valid_slice text s /\ sl_start s = a /\ sl_end s = e.
Proof.
  intros text a e s. unfold mk_slice.
  destruct ((e <? a) || (tlen text <? e)) eqn:E1; [discriminate|].
  destruct (is_boundary text a && is_boundary text e) eqn:E2; [|discriminate].
  intros [= <-]. cbn [sl_start sl_end]. unfold valid_slice. cbn [sl_start sl_end].
  apply orb_false_iff in E1. destruct E1 as [E1 E3].
  apply N.ltb_ge in E1. apply N.ltb_ge in E3.
  apply andb_true_iff in E2. destruct E2 as [E2 E4].
  repeat split; assumption.
Qed.
Print Assumptions mk_slice_valid.

Lemma empty_slice_valid : forall text, valid_slice text empty_slice.
Proof.
  intros text. unfold valid_slice, empty_slice. cbn [sl_start sl_end].
  repeat split; try reflexivity. apply N.le_0_l.
Qed.

(* ------------------------------------------------------------------ *)
(* the fast paths: nothing to decode, nothing copied                    *)

Theorem fast_path_text : forall text pc t r c,
  existsb (fun x => (x =? 38) || (x =? 13)) (slice_bytes text t) = false ->
  process_text_with text pc t r c = append_text (CowBorrowed t) r c.
Proof.
  intros text pc t r c H. unfold process_text_with. cbv zeta. rewrite H. reflexivity.
Qed.
Print Assumptions fast_path_text.

Theorem fast_path_attr : forall text value c,
  existsb (fun x => (x =? 38) || (x =? 9) || (x =? 10) || (x =? 13)) (slice_bytes text value) = false ->
  normalize_attribute text value c = Ok (Borrowed (SIn value), c).
Proof.
  intros text value c H. unfold normalize_attribute. cbv zeta. rewrite H. reflexivity.
Qed.
Print Assumptions fast_path_attr.

Theorem fast_path_cdata : forall text txt r c,
  mem_b 13 (slice_bytes text txt) = false ->
  process_cdata text txt r c = append_text (CowBorrowed txt) r c.
Proof.
  intros text txt r c H. unfold process_cdata. cbv zeta. rewrite H. reflexivity.
Qed.
Print Assumptions fast_path_cdata.

(* ------------------------------------------------------------------ *)
(* [okP r Q]: if [r] is a value, the value satisfies Q                  *)

Definition okP {A} (r : res A) (Q : A -> Prop) : Prop := forall a, r = Ok a -> Q a.

Lemma okP_ret {A} (a : A) (Q : A -> Prop) : Q a -> okP (Ok a) Q.
Proof. intros H x [= <-]. exact H. Qed.
Lemma okP_err {A} e (Q : A -> Prop) : okP (Err e) Q.
Proof. intros x H; discriminate. Qed.
Lemma okP_panic {A} p (Q : A -> Prop) : okP (Panic p) Q.
Proof. intros x H; discriminate. Qed.
Lemma okP_fuel {A} (Q : A -> Prop) : okP OutOfFuel Q.
Proof. intros x H; discriminate. Qed.

Lemma okP_bind {A B} (r : res A) (f : A -> res B) (Q' : A -> Prop) (Q : B -> Prop) :
  okP r Q' -> (forall a, Q' a -> okP (f a) Q) -> okP (bind r f) Q.
Proof.
  intros H1 H2 y H. apply bind_ok in H. destruct H as [a [Ha Hf]].
  exact (H2 a (H1 a Ha) y Hf).
Qed.

Lemma okP_bind_any {A B} (r : res A) (f : A -> res B) (Q : B -> Prop) :
  (forall a, okP (f a) Q) -> okP (bind r f) Q.
Proof. intros H. apply (okP_bind r f (fun _ => True)); [intros a _; exact I|auto]. Qed.

(* keeps the equation *)
Lemma okP_bind_eq {A B} (r : res A) (f : A -> res B) (Q : B -> Prop) :
  (forall a, r = Ok a -> okP (f a) Q) -> okP (bind r f) Q.
Proof. intros H. apply (okP_bind r f (fun a => r = Ok a)); [intros a Ha; exact Ha|auto]. Qed.

Lemma okP_weaken {A} (r : res A) (Q' Q : A -> Prop) :
  okP r Q' -> (forall a, Q' a -> Q a) -> okP r Q.
Proof. intros H1 H2 a Ha. auto. Qed.

Lemma okP_err_at {A} text s mk (Q : A -> Prop) : okP (err_at text s mk) Q.
Proof.
  intros a H. unfold err_at in H. apply bind_ok in H. destruct H as [p [_ H]]. discriminate.
Qed.
Lemma okP_err_from {A} text p mk (Q : A -> Prop) : okP (err_from text p mk) Q.
Proof.
  intros a H. unfold err_from in H. apply bind_ok in H. destruct H as [q [_ H]]. discriminate.
Qed.

Lemma okP_bind_assoc {A B D} (r : res A) (f : A -> res B) (g : B -> res D) (Q : D -> Prop) :
  okP (bind r (fun a => bind (f a) g)) Q -> okP (bind (bind r f) g) Q.
Proof. destruct r; cbn [bind]; auto. Qed.
Lemma okP_bind_ret {A B} (a : A) (f : A -> res B) (Q : B -> Prop) :
  okP (f a) Q -> okP (bind (Ok a) f) Q.
Proof. auto. Qed.
Lemma okP_bind_err {A B} e (f : A -> res B) (Q : B -> Prop) : okP (bind (Err e) f) Q.
Proof. intros x H; discriminate. Qed.
Lemma okP_bind_panic {A B} p (f : A -> res B) (Q : B -> Prop) : okP (bind (Panic p) f) Q.
Proof. intros x H; discriminate. Qed.
Lemma okP_bind_fuel {A B} (f : A -> res B) (Q : B -> Prop) : okP (bind OutOfFuel f) Q.
Proof. intros x H; discriminate. Qed.
Lemma okP_bind_err_at {A B} text s mk (f : A -> res B) (Q : B -> Prop) :
  okP (bind (err_at text s mk) f) Q.
Proof. apply (okP_bind _ _ (fun _ => False)); [apply okP_err_at|intros a []]. Qed.
Lemma okP_bind_err_from {A B} text p mk (f : A -> res B) (Q : B -> Prop) :
  okP (bind (err_from text p mk) f) Q.
Proof. apply (okP_bind _ _ (fun _ => False)); [apply okP_err_from|intros a []]. Qed.

(* one step of symbolic execution of a goal [okP e Q]; [spec] is tried on the first
   computation of a bind, with the bind taken blindly when it fails *)
Ltac ok_simpl_hyps :=
  cbv beta in *; cbn [fst snd] in *;
  repeat match goal with
         | H : _ /\ _ |- _ => destruct H
         | H : True |- _ => clear H
         end.

Ltac ok_step spec :=
  lazymatch goal with
  | |- okP (Ok _) _ => apply okP_ret
  | |- okP (Err _) _ => apply okP_err
  | |- okP (Panic _) _ => apply okP_panic
  | |- okP OutOfFuel _ => apply okP_fuel
  | |- okP (err_at _ _ _) _ => apply okP_err_at
  | |- okP (err_from _ _ _) _ => apply okP_err_from
  | |- okP (bind (match ?x with _ => _ end) _) _ =>
    first [ is_var x; destruct x | let E := fresh "E" in destruct x eqn:E ];
    ok_simpl_hyps
  | |- okP (bind (let _ := _ in _) _) _ => cbv zeta
  | |- okP (bind (bind _ _) _) _ => apply okP_bind_assoc
  | |- okP (bind (Ok _) _) _ => apply okP_bind_ret; cbv beta
  | |- okP (bind (Err _) _) _ => apply okP_bind_err
  | |- okP (bind (Panic _) _) _ => apply okP_bind_panic
  | |- okP (bind OutOfFuel _) _ => apply okP_bind_fuel
  | |- okP (bind (err_at _ _ _) _) _ => apply okP_bind_err_at
  | |- okP (bind (err_from _ _ _) _) _ => apply okP_bind_err_from
  | |- okP (bind _ _) _ =>
    first [ eapply okP_bind; [ solve [spec] | let a := fresh "a" in let Ha := fresh "Ha" in
                                              intros a Ha ]
          | apply okP_bind_any; let a := fresh "a" in intros a ];
    ok_simpl_hyps
  | |- okP (match ?x with _ => _ end) _ =>
    first [ is_var x; destruct x | let E := fresh "E" in destruct x eqn:E ];
    ok_simpl_hyps
  | |- okP (let _ := _ in _) _ => cbv zeta
  | |- okP _ _ => solve [spec]
  end.

(* ------------------------------------------------------------------ *)
(* the stream primitives that produce slices                           *)

Section Stream.
Variable text : bytes.
Notation V := (valid_slice text).

Lemma mk_slice_okP a e : okP (mk_slice text a e) V.
Proof. intros s H. apply mk_slice_valid in H. tauto. Qed.

Lemma slice_back_okP start s : okP (slice_back text start s) V.
Proof. apply mk_slice_okP. Qed.

Ltac sspec := first [ apply slice_back_okP | apply mk_slice_okP ].

Lemma consume_bytes_okP f s :
  okP (consume_bytes text f s) (fun p => V (fst p)).
Proof. unfold consume_bytes. repeat ok_step sspec. assumption. Qed.

Lemma consume_chars_okP f s :
  okP (consume_chars text f s) (fun p => V (fst p)).
Proof. unfold consume_chars. repeat ok_step sspec. assumption. Qed.

Lemma consume_name_okP s :
  okP (consume_name text s) (fun p => V (fst p)).
Proof. unfold consume_name. repeat ok_step sspec. assumption. Qed.

Lemma consume_qname_okP s :
  okP (consume_qname text s) (fun p => V (fst (fst p)) /\ V (snd (fst p))).
Proof.
  unfold consume_qname. ok_step sspec. ok_step sspec.
  eapply okP_bind with (Q' := fun p => V (fst p) /\ V (snd p)).
  { repeat ok_step sspec; cbn [fst snd]; split; assumption. }
  intros [p l] [Hp Hl]. cbn [fst snd] in *.
  repeat ok_step sspec. cbn [fst snd]. split; assumption.
Qed.

End Stream.
