(* Proofs/Readers.v -- C20, the logic part: the read API of the model consists of functions of an
   immutable [document]; no operation returns a new document.  Hence, whatever the interleaving
   of the operation sequences of N readers over one document, each reader observes exactly what
   it observes when running alone.  (Trivial by construction, and labelled so: the content of
   C20 that is NOT trivial -- Send/Sync, no interior mutability, no unsafe -- is decided by rustc
   and by the threads run of the harness, see DESIGN.md.) *)
From Coq Require Import List Arith Lia.
Import ListNotations.
From RX.Model Require Import Base Doc.
Close Scope N_scope.

Section Readers.
Variable Out : Type.
(* a read operation: any function of the document (accessors, iterators run to completion, ...) *)
Definition rop := document -> Out.

(* a schedule picks, at each step, which reader performs its next operation *)
Fixpoint run_schedule (d : document) (readers : list (list rop)) (sched : list nat)
  : list (nat * Out) :=
  match sched with
  | [] => []
  | r :: rest =>
    match nth_error readers r with
    | Some (o :: ops) =>
      (r, o d) :: run_schedule d (firstn r readers ++ ops :: skipn (S r) readers) rest
    | _ => run_schedule d readers rest
    end
  end.

Definition outputs_of (r : nat) (log : list (nat * Out)) : list Out :=
  map snd (filter (fun p => Nat.eqb (fst p) r) log).

Lemma nth_error_replace {A} (l : list A) r x k :
  r < length l ->
  nth_error (firstn r l ++ x :: skipn (S r) l) k = if Nat.eqb k r then Some x else nth_error l k.
Proof.
  revert r k; induction l as [|a l IH]; intros r k Hr; simpl in Hr; [lia|].
  destruct r as [|r]; destruct k as [|k]; simpl; auto.
  apply IH; lia.
Qed.

(* what reader r observes is a prefix of its sequential outputs, in order *)
Theorem readers_schedule_independent :
  forall d sched readers r ops,
    nth_error readers r = Some ops ->
    exists k, outputs_of r (run_schedule d readers sched) = map (fun o => o d) (firstn k ops).
Proof.
  intros d sched; induction sched as [|s sched IH]; intros readers r ops Hr.
  - exists 0; reflexivity.
  - simpl. destruct (nth_error readers s) as [[|o ops']|] eqn:Es.
    + apply IH; exact Hr.
    + assert (Hs : s < length readers) by (apply nth_error_Some; congruence).
      destruct (Nat.eqb s r) eqn:Esr.
      * apply PeanoNat.Nat.eqb_eq in Esr; subst s.
        rewrite Hr in Es; inversion Es; subst ops.
        destruct (IH (firstn r readers ++ ops' :: skipn (S r) readers) r ops') as [k Hk].
        { rewrite nth_error_replace by exact Hs. rewrite PeanoNat.Nat.eqb_refl. reflexivity. }
        exists (S k). unfold outputs_of in *. cbn [filter fst map firstn]. rewrite PeanoNat.Nat.eqb_refl.
        cbn [map snd]. f_equal. exact Hk.
      * destruct (IH (firstn s readers ++ ops' :: skipn (S s) readers) r ops) as [k Hk].
        { rewrite nth_error_replace by exact Hs.
          rewrite PeanoNat.Nat.eqb_sym, Esr. exact Hr. }
        exists k. unfold outputs_of in *. cbn [filter fst]. rewrite Esr. exact Hk.
    + apply IH; exact Hr.
Qed.

End Readers.
Print Assumptions readers_schedule_independent.
