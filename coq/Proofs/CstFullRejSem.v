(* Proofs/CstFullRejSem.v -- C09 on the capstone fragment, the semantic side (no parser): Proofs/CstEntRejSem.v and
   Proofs/CstEntRejLevel.v for the abstract syntax of Spec/CstFullS4.v / Spec/CstFullS6.v.
   To say what a document with a reference cycle, or with references nested too deep, "would be inlined to", the
   table of Spec/CstFullS4.v is built over a bottom level in which every declared entity has a (dummy) value instead of
   none: [glevel4 decls k].  Inlining with glevel4 12 succeeds whenever every name referred to is declared and the
   restrictions on values hold -- cycle or not --, and whenever an expansion is within the limits of the loop
   detector it never reaches the bottom level, so that it is the inlining of the specification ([agree4_*],
   [ginline4_inline]). *)
From Coq Require Import List NArith PeanoNat Bool Lia ZifyBool ZifyN ZifyNat.
Import ListNotations.
From RX Require Import Generated.
From RX.Model Require Import Base Stream Builder Parse.
From RX.Spec Require Cst CstText CstEnt Chars Detector CstNs.
From RX.Spec Require Import Text CstFull CstFullS4 CstFullS6.
From RX.Proofs Require Import DetectorProofs CstTextSem CstEntSem CstEntMeaning CstEntInline CstFullTree CstFullS4Sem.
From RX.Proofs Require CstEntRejSem.
Open Scope N_scope.

Notation Bal := CstEntRejSem.Bal.
Notation Bal_nil := CstEntRejSem.Bal_nil.
Notation Bal_app := CstEntRejSem.Bal_app.
Notation Bal_ent := CstEntRejSem.Bal_ent.
Notation enter_d := CstEntRejSem.enter_d.
Notation dec_d := CstEntRejSem.dec_d.

(* ------------------------------------------------------------------------------------------ *)
(* the unfolding                                                                              *)
(* ------------------------------------------------------------------------------------------ *)
Definition ydummy (v : xvalue) : yval :=
  match v with
  | XText _ => {| y_items := [@IText bpieces []]; y_pieces := Some []; y_trace := [] |}
  | XContent _ => {| y_items := []; y_pieces := None; y_trace := [] |}
  end.

Fixpoint glevel4 (decls : list xdecl) (k : nat) : ytable :=
  match k with
  | O => map (fun e => (utf8s (x_name e), Some (ydummy (x_value e)))) decls
  | S k' => let tb := glevel4 decls k' in map (fun e => (utf8s (x_name e), inline_value tb (x_value e))) decls
  end.

(* two levels more than the detector allows *)
Definition glevels : nat := 12.

(* S4.inline with a given table *)
Definition inline_with4 (tb : ytable) (d : S4.doc) : option (CstFull.doc bpieces * list Detector.lop) :=
  E.obind (inline_item tb false (d_root (S4.x_main d))) (fun x =>
  match fst x with
  | [root] =>
    Some ({| d_before := map (fun p => (S4.misc_item (fst p), snd p)) (d_before (S4.x_main d));
             d_ws0 := d_ws0 (S4.x_main d); d_root := root;
             d_after := map (fun p => (fst p, S4.misc_item (snd p))) (d_after (S4.x_main d));
             d_ws_end := d_ws_end (S4.x_main d) |}, snd x)
  | _ => None
  end).

Definition ginline4 (d : S4.doc) := inline_with4 (glevel4 (t_decls (S4.x_dtd d)) glevels) d.
Definition ginline6 (d : S6.doc) := ginline4 (S6.core d).

Lemma inline_with4_table d : S4.inline d = inline_with4 (S4.table d) d.
Proof. reflexivity. Qed.

(* everything in S6.wf_doc that does not look at the inlining *)
Definition wf_syntax6 (d : S6.doc) : bool :=
  X5.wf_opt X5.wf_xmldecl (S6.x_decl d) && X5.wf_opt S6.wf_dtd_part (S6.x_dtd d) &&
  wf_s (d_ws0 (S6.x_main d)) && wf_s (d_ws_end (S6.x_main d)) &&
  forallb (fun p => X5.wf_misc_s (fst p) && wf_s (snd p)) (d_before (S6.x_main d)) &&
  match d_root (S6.x_main d) with IElem _ _ _ _ => wf_uitem_s false (d_root (S6.x_main d)) | _ => false end &&
  forallb (fun p => wf_s (fst p) && X5.wf_misc_s (snd p)) (d_after (S6.x_main d)).

Lemma wf_doc6_split d : S6.wf_doc d = wf_syntax6 d &&
  match S4.inline (S6.core d) with
  | None => false
  | Some (c, tr) => limits_ok tr && provisos_item (d_root c) && forallb (ns_ok []) (den bmeaning (d_root c))
  end.
Proof. reflexivity. Qed.

(* ------------------------------------------------------------------------------------------ *)
(* two families of tables that differ below the reach of the detector                         *)
(* ------------------------------------------------------------------------------------------ *)
Section Sim.
Variable decls : list xdecl.
Variables T1 T2 : nat -> ytable.
Variable B : N.
Hypothesis HB : 10 <= B.
Hypothesis Hstep1 : forall k n, ylookup (T1 (S k)) n =
  match first_xdecl decls n with Some d => inline_value (T1 k) (x_value d) | None => None end.
Hypothesis Hstep2 : forall k n, ylookup (T2 (S k)) n =
  match first_xdecl decls n with Some d => inline_value (T2 k) (x_value d) | None => None end.

Definition Sim {A} (k : nat) (g : ytable -> option (A * list Detector.lop)) : Prop :=
  forall res tr ld ld', g (T1 k) = Some (res, tr) -> ld_run ld tr = Some ld' ->
    B <= N.of_nat k + ld_depth ld ->
    g (T2 k) = Some (res, tr) /\ ld_depth ld' = ld_depth ld.

Definition SimV (k : nat) : Prop :=
  forall v x ld ld', inline_value (T1 k) v = Some x -> ld_run ld (y_trace x) = Some ld' ->
    B <= N.of_nat k + ld_depth ld ->
    inline_value (T2 k) v = Some x /\ ld_depth ld' = ld_depth ld.

(* a reference *)
Lemma sim_lookup k n v ld ld1 ld1' :
  (forall k', k = S k' -> SimV k') ->
  ylookup (T1 k) n = Some v -> ld_enter ld = Some ld1 -> ld_run ld1 (y_trace v) = Some ld1' ->
  B <= N.of_nat k + ld_depth ld ->
  ylookup (T2 k) n = Some v /\ ld_depth (dec_depth ld1') = ld_depth ld.
Proof.
  intros IH Hl He Hr Hk. destruct (enter_d _ _ He) as [D1 D2].
  destruct k as [|k']; [lia|].
  rewrite Hstep1 in Hl. rewrite Hstep2. destruct (first_xdecl decls n) as [d|]; [|discriminate].
  destruct (IH k' eq_refl _ _ ld1 ld1' Hl Hr ltac:(lia)) as [E1 E2].
  split; [exact E1|]. rewrite dec_d by lia. lia.
Qed.

Section Lvl.
Variable k : nat.
Hypothesis IH : forall k', k = S k' -> SimV k'.

Lemma sim_ps fa ie : forall ps, Sim k (fun tb => E.inline_ps (ptable tb) fa ie ps).
Proof.
  induction ps as [|p ps IHp]; intros res tr ld ld' H Hr Hk.
  - cbn [E.inline_ps] in *. injection H as <- <-. cbn [ld_run] in Hr. injection Hr as <-. auto.
  - cbn [E.inline_ps] in *. destruct p as [q|n].
    + destruct (fa && ie && E.is_lt_ref q); [discriminate|].
      destruct (E.inline_ps (ptable (T1 k)) fa ie ps) as [[q' tr']|] eqn:Er; [|discriminate]. cbn [E.obind fst snd] in H.
      injection H as <- <-. destruct (IHp _ _ _ _ Er Hr Hk) as [E1 E2]. rewrite E1. auto.
    + rewrite lookup_ptable in H |- *.
      destruct (ylookup (T1 k) n) as [v|] eqn:El; [|discriminate]. cbn [E.obind E.x_pieces E.x_trace] in H.
      destruct (y_pieces v) as [qv|] eqn:Ex; [|discriminate]. cbn [E.obind] in H.
      destruct (fa && existsb E.is_lt_ref qv) eqn:Elt; [discriminate|].
      destruct (E.inline_ps (ptable (T1 k)) fa ie ps) as [[q' tr']|] eqn:Er; [|discriminate]. cbn [E.obind fst snd] in H.
      injection H as <- <-.
      cbn [ld_run] in Hr. destruct (ld_enter ld) as [ld1|] eqn:Een; [|discriminate].
      rewrite ld_run_app in Hr. destruct (ld_run ld1 (y_trace v)) as [ld1'|] eqn:Er1; [|discriminate]. cbn [ld_run] in Hr.
      destruct (sim_lookup k n v ld ld1 ld1' IH El Een Er1 Hk) as [L1 L2].
      destruct (IHp _ _ _ _ Er Hr ltac:(lia)) as [E1 E2].
      rewrite L1. cbn [E.obind E.x_pieces E.x_trace]. rewrite Ex. cbn [E.obind]. rewrite Elt, E1. split; [reflexivity|lia].
Qed.

Lemma sim_run ie : forall ps, Sim k (fun tb => inline_run tb ie ps).
Proof.
  induction ps as [|p ps IHp]; intros res tr ld ld' H Hr Hk.
  - cbn [inline_run] in *. injection H as <- <-. cbn [ld_run] in Hr. injection Hr as <-. auto.
  - cbn [inline_run] in *. destruct p as [q|n].
    + destruct (inline_run (T1 k) ie ps) as [[q' tr']|] eqn:Er; [|discriminate]. cbn [E.obind fst snd] in H.
      injection H as <- <-. destruct (IHp _ _ _ _ Er Hr Hk) as [E1 E2]. rewrite E1. auto.
    + destruct (ylookup (T1 k) n) as [v|] eqn:El; [|discriminate]. cbn [E.obind] in H.
      destruct (inline_run (T1 k) ie ps) as [[q' tr']|] eqn:Er; [|discriminate]. cbn [E.obind fst snd] in H.
      injection H as <- <-.
      cbn [ld_run] in Hr. destruct (ld_enter ld) as [ld1|] eqn:Een; [|discriminate].
      rewrite ld_run_app in Hr. destruct (ld_run ld1 (y_trace v)) as [ld1'|] eqn:Er1; [|discriminate]. cbn [ld_run] in Hr.
      destruct (sim_lookup k n v ld ld1 ld1' IH El Een Er1 Hk) as [L1 L2].
      destruct (IHp _ _ _ _ Er Hr ltac:(lia)) as [E1 E2].
      rewrite L1. cbn [E.obind]. rewrite E1. split; [reflexivity|lia].
Qed.

Lemma sim_entry ie e : Sim k (fun tb => inline_entry tb ie e).
Proof.
  intros res tr ld ld' H Hr Hk. destruct e as [l n v|l p v]; cbn [inline_entry] in *.
  - destruct (E.inline_ps (ptable (T1 k)) true ie (enc_epieces v)) as [[qv tra]|] eqn:Ea; [|discriminate].
    cbn [E.obind fst snd] in H. injection H as <- <-.
    destruct (sim_ps true ie _ _ _ _ _ Ea Hr Hk) as [E1 E2]. rewrite E1. auto.
  - destruct (E.inline_ps (ptable (T1 k)) true ie (enc_epieces v)) as [[qv tra]|] eqn:Ea; [|discriminate].
    cbn [E.obind fst snd] in H. injection H as <- <-.
    destruct (sim_ps true ie _ _ _ _ _ Ea Hr Hk) as [E1 E2]. rewrite E1. auto.
Qed.

Lemma sim_entries ie : forall ens, Sim k (fun tb => inline_entries tb ie ens).
Proof.
  induction ens as [|a r IHa]; intros res tr ld ld' H Hr Hk.
  - cbn [inline_entries] in *. injection H as <- <-. cbn [ld_run] in Hr. injection Hr as <-. auto.
  - cbn [inline_entries] in *.
    destruct (inline_entry (T1 k) ie a) as [[qv tra]|] eqn:Ea; [|discriminate].
    cbn [E.obind fst snd] in H.
    destruct (inline_entries (T1 k) ie r) as [[ar trr]|] eqn:Er; [|discriminate].
    cbn [E.obind fst snd] in H. injection H as <- <-.
    rewrite ld_run_app in Hr. destruct (ld_run ld tra) as [ld1|] eqn:El1; [|discriminate].
    destruct (sim_entry ie a _ _ _ _ Ea El1 Hk) as [E1 E2].
    destruct (IHa _ _ _ _ Er Hr ltac:(lia)) as [E3 E4].
    rewrite E1. cbn [E.obind fst snd]. rewrite E3. split; [reflexivity|lia].
Qed.

Definition SimL (ie : bool) (cs : list uitem) : Prop := Sim k (fun tb => inline_items tb ie cs).

Lemma sim_items_of ie cs : Forall (fun i => Sim k (fun tb => inline_item tb ie i)) cs -> SimL ie cs.
Proof.
  induction 1 as [|i r Hi _ IHr]; intros res tr ld ld' H Hr Hk.
  - cbn [inline_items] in *. injection H as <- <-. cbn [ld_run] in Hr. injection Hr as <-. auto.
  - cbn [inline_items] in *.
    destruct (inline_item (T1 k) ie i) as [[its1 tr1]|] eqn:Ei; [|discriminate]. cbn [E.obind fst snd] in H.
    destruct (inline_items (T1 k) ie r) as [[its2 tr2]|] eqn:Er; [|discriminate]. cbn [E.obind fst snd] in H.
    injection H as <- <-.
    rewrite ld_run_app in Hr. destruct (ld_run ld tr1) as [ld1|] eqn:El1; [|discriminate].
    destruct (Hi _ _ _ _ Ei El1 Hk) as [E1 E2]. destruct (IHr _ _ _ _ Er Hr ltac:(lia)) as [E3 E4].
    rewrite E1. cbn [E.obind fst snd]. rewrite E3. split; [reflexivity|lia].
Qed.

Lemma sim_item ie : forall i, Sim k (fun tb => inline_item tb ie i).
Proof.
  intros i. induction i as [n a w|n a w cs w2 IHc|ps|bs|t s v] using fitem_ind; intros res tr ld ld' H Hr Hk.
  - rewrite inline_item_elem in *. destruct (inline_entries (T1 k) ie a) as [[a' ta]|] eqn:Ea; [|discriminate].
    cbn [E.obind fst snd] in H. injection H as <- <-.
    destruct (sim_entries ie _ _ _ _ _ Ea Hr Hk) as [E1 E2]. rewrite E1. auto.
  - rewrite inline_item_elem in *. destruct (inline_entries (T1 k) ie a) as [[a' ta]|] eqn:Ea; [|discriminate].
    cbn [E.obind fst snd] in H. destruct (inline_items (T1 k) ie cs) as [[b0 tb0]|] eqn:Ec; [|discriminate].
    cbn [E.obind fst snd] in H. injection H as <- <-.
    rewrite ld_run_app in Hr. destruct (ld_run ld ta) as [ld1|] eqn:El1; [|discriminate].
    destruct (sim_entries ie _ _ _ _ _ Ea El1 Hk) as [E1 E2].
    destruct (sim_items_of ie cs IHc _ _ _ _ Ec Hr ltac:(lia)) as [E3 E4].
    rewrite E1. cbn [E.obind fst snd]. rewrite E3. split; [reflexivity|lia].
  - cbn [inline_item] in *. apply (sim_run ie _ _ _ _ _ H Hr Hk).
  - cbn [inline_item] in *. injection H as <- <-. cbn [ld_run] in Hr. injection Hr as <-. auto.
  - cbn [inline_item] in *. injection H as <- <-. cbn [ld_run] in Hr. injection Hr as <-. auto.
Qed.

Lemma sim_items ie cs : SimL ie cs.
Proof. apply sim_items_of. apply Forall_forall. intros i _. apply sim_item. Qed.

Lemma sim_value : SimV k.
Proof.
  intros v x ld ld' H Hr Hk. destruct v as [ps|its]; cbn [inline_value] in *.
  - destruct (E.inline_ps (ptable (T1 k)) false true (enc_epieces ps)) as [[q tr]|] eqn:Ei; [|discriminate].
    cbn [E.obind fst snd] in H. injection H as <-. cbn [y_trace] in Hr.
    destruct (sim_ps false true _ _ _ _ _ Ei Hr Hk) as [E1 E2]. rewrite E1. auto.
  - destruct (inline_items (T1 k) true its) as [[it tr]|] eqn:Ei; [|discriminate].
    cbn [E.obind fst snd] in H. injection H as <-. cbn [y_trace] in Hr.
    destruct (sim_items true its _ _ _ _ Ei Hr Hk) as [E1 E2]. rewrite E1. auto.
Qed.

End Lvl.

Theorem sim_value_all : forall k, SimV k.
Proof.
  induction k as [|k IHk].
  - apply sim_value. intros k' E0. discriminate.
  - apply sim_value. intros k' E0. injection E0 as <-. exact IHk.
Qed.

Lemma IHsim k : forall k', k = S k' -> SimV k'.
Proof. intros k' _. apply sim_value_all. Qed.

Lemma sim_item_all k ie i : Sim k (fun tb => inline_item tb ie i).
Proof. apply sim_item, IHsim. Qed.
Lemma sim_items_all k ie cs : Sim k (fun tb => inline_items tb ie cs).
Proof. apply sim_items, IHsim. Qed.
Lemma sim_entries_all k ie ens : Sim k (fun tb => inline_entries tb ie ens).
Proof. apply sim_entries, IHsim. Qed.
Lemma sim_run_all k ie ps : Sim k (fun tb => inline_run tb ie ps).
Proof. apply sim_run, IHsim. Qed.
Lemma sim_ps_all k fa ie ps : Sim k (fun tb => E.inline_ps (ptable tb) fa ie ps).
Proof. apply sim_ps, IHsim. Qed.

End Sim.

(* ------------------------------------------------------------------------------------------ *)
(* the two instances                                                                          *)
(* ------------------------------------------------------------------------------------------ *)
Section G4.
Variable decls : list xdecl.

Lemma ylookup_glevel k n :
  ylookup (glevel4 decls k) n =
  match first_xdecl decls n with
  | Some d => match k with O => Some (ydummy (x_value d)) | S k' => inline_value (glevel4 decls k') (x_value d) end
  | None => None
  end.
Proof.
  destruct k as [|k']; cbn [glevel4].
  - rewrite (ylookup_map (fun e => Some (ydummy (x_value e)))). reflexivity.
  - rewrite (ylookup_map (fun e => inline_value (glevel4 decls k') (x_value e))). reflexivity.
Qed.

Lemma ylookup_level_S k n :
  ylookup (level decls (S k)) n =
  match first_xdecl decls n with Some d => inline_value (level decls k) (x_value d) | None => None end.
Proof. exact (ylookup_level decls (S k) n). Qed.

(* glevel4 k and level k, when 12 <= k + depth *)
Definition Agree4 {A} := @Sim (glevel4 decls) (level decls) 12 A.
Lemma agree4_item k ie i : Agree4 k (fun tb => inline_item tb ie i).
Proof.
  apply (sim_item_all decls (glevel4 decls) (level decls) 12 ltac:(lia)); [intros; apply ylookup_glevel|intros; apply ylookup_level_S].
Qed.
Lemma agree4_items k ie cs : Agree4 k (fun tb => inline_items tb ie cs).
Proof.
  apply (sim_items_all decls (glevel4 decls) (level decls) 12 ltac:(lia)); [intros; apply ylookup_glevel|intros; apply ylookup_level_S].
Qed.
Lemma agree4_entries k ie ens : Agree4 k (fun tb => inline_entries tb ie ens).
Proof.
  apply (sim_entries_all decls (glevel4 decls) (level decls) 12 ltac:(lia)); [intros; apply ylookup_glevel|intros; apply ylookup_level_S].
Qed.
Lemma agree4_run k ie ps : Agree4 k (fun tb => inline_run tb ie ps).
Proof.
  apply (sim_run_all decls (glevel4 decls) (level decls) 12 ltac:(lia)); [intros; apply ylookup_glevel|intros; apply ylookup_level_S].
Qed.
Lemma agree4_ps k fa ie ps : Agree4 k (fun tb => E.inline_ps (ptable tb) fa ie ps).
Proof.
  apply (sim_ps_all decls (glevel4 decls) (level decls) 12 ltac:(lia)); [intros; apply ylookup_glevel|intros; apply ylookup_level_S].
Qed.
Lemma agree4_value k : @SimV (glevel4 decls) (level decls) 12 k.
Proof. apply (sim_value_all decls); [lia|intros; apply ylookup_glevel|intros; apply ylookup_level_S]. Qed.

Lemma agree4_lookup k n v ld ld1 ld1' :
  ylookup (glevel4 decls k) n = Some v -> ld_enter ld = Some ld1 -> ld_run ld1 (y_trace v) = Some ld1' ->
  12 <= N.of_nat k + ld_depth ld ->
  ylookup (level decls k) n = Some v /\ ld_depth (dec_depth ld1') = ld_depth ld.
Proof.
  apply (sim_lookup decls (glevel4 decls) (level decls) 12 ltac:(lia)); [intros; apply ylookup_glevel|intros; apply ylookup_level_S|].
  apply (IHsim decls); [lia|intros; apply ylookup_glevel|intros; apply ylookup_level_S].
Qed.

(* level (S k) and level k, when 10 <= k + depth *)
Lemma down4_item k ie i : @Sim (fun j => level decls (S j)) (level decls) 10 _ k (fun tb => inline_item tb ie i).
Proof.
  apply (sim_item_all decls (fun j => level decls (S j)) (level decls) 10 ltac:(lia)); [intros; apply ylookup_level_S|intros; apply ylookup_level_S].
Qed.

End G4.

(* ------------------------------------------------------------------------------------------ *)
(* the traces of an inlining are well nested                                                  *)
(* ------------------------------------------------------------------------------------------ *)
Definition BalT4 (tb : ytable) : Prop := forall n v, ylookup tb n = Some v -> Bal (y_trace v).

Section Tb.
Variable tb : ytable.
Hypothesis Htb : BalT4 tb.

Lemma balT_ptable : CstEntRejSem.BalT (ptable tb).
Proof.
  intros n v Hl. rewrite lookup_ptable in Hl. destruct (ylookup tb n) as [y|] eqn:El; [|discriminate].
  injection Hl as <-. cbn [E.x_trace]. apply (Htb n y El).
Qed.

Lemma bal4_ps fa ie ps q tr : E.inline_ps (ptable tb) fa ie ps = Some (q, tr) -> Bal tr.
Proof. apply (CstEntRejSem.bal_ps (ptable tb) balT_ptable). Qed.

Lemma bal4_run ie : forall ps its tr, inline_run tb ie ps = Some (its, tr) -> Bal tr.
Proof.
  induction ps as [|p ps IH]; intros its tr H; cbn [inline_run] in H.
  - injection H as _ <-. constructor.
  - destruct p as [p|n].
    + destruct (inline_run tb ie ps) as [[q' tr']|] eqn:Er; [|discriminate]. cbn [E.obind fst snd] in H.
      injection H as _ <-. apply (IH _ _ eq_refl).
    + destruct (ylookup tb n) as [v|] eqn:El; [|discriminate]. cbn [E.obind] in H.
      destruct (inline_run tb ie ps) as [[q' tr']|] eqn:Er; [|discriminate]. cbn [E.obind fst snd] in H.
      injection H as _ <-. apply Bal_ent; [apply (Htb n v El)|apply (IH _ _ eq_refl)].
Qed.

Lemma bal4_entry ie e e' tr : inline_entry tb ie e = Some (e', tr) -> Bal tr.
Proof.
  destruct e as [l n v|l p v]; cbn [inline_entry]; intros H;
    (destruct (E.inline_ps (ptable tb) true ie (enc_epieces v)) as [[qv tra]|] eqn:Ea; [|discriminate]);
    cbn [E.obind fst snd] in H; injection H as _ <-; apply (bal4_ps _ _ _ _ _ Ea).
Qed.

Lemma bal4_entries ie : forall ens a' tr, inline_entries tb ie ens = Some (a', tr) -> Bal tr.
Proof.
  induction ens as [|a r IH]; intros a' tr H; cbn [inline_entries] in H.
  - injection H as _ <-. constructor.
  - destruct (inline_entry tb ie a) as [[qv tra]|] eqn:Ea; [|discriminate].
    cbn [E.obind fst snd] in H. destruct (inline_entries tb ie r) as [[ar trr]|] eqn:Er; [|discriminate].
    cbn [E.obind fst snd] in H. injection H as _ <-. apply Bal_app; [apply (bal4_entry _ _ _ _ Ea)|apply (IH _ _ eq_refl)].
Qed.

Lemma bal4_items_of ie cs : Forall (fun i => forall its tr, inline_item tb ie i = Some (its, tr) -> Bal tr) cs ->
  forall its tr, inline_items tb ie cs = Some (its, tr) -> Bal tr.
Proof.
  induction 1 as [|i r Hi _ IH]; intros its tr H; cbn [inline_items] in H.
  - injection H as _ <-. constructor.
  - destruct (inline_item tb ie i) as [[its1 tr1]|] eqn:Ei; [|discriminate]. cbn [E.obind fst snd] in H.
    destruct (inline_items tb ie r) as [[its2 tr2]|] eqn:Er; [|discriminate]. cbn [E.obind fst snd] in H.
    injection H as _ <-. apply Bal_app; [apply (Hi _ _ eq_refl)|apply (IH _ _ eq_refl)].
Qed.

Lemma bal4_item ie : forall i its tr, inline_item tb ie i = Some (its, tr) -> Bal tr.
Proof.
  intros i. induction i as [n a w|n a w cs w2 IHc|ps|bs|t s v] using fitem_ind; intros its tr H.
  - rewrite inline_item_elem in H. destruct (inline_entries tb ie a) as [[a' ta]|] eqn:Ea; [|discriminate].
    cbn [E.obind fst snd] in H. injection H as _ <-. apply (bal4_entries _ _ _ _ Ea).
  - rewrite inline_item_elem in H. destruct (inline_entries tb ie a) as [[a' ta]|] eqn:Ea; [|discriminate].
    cbn [E.obind fst snd] in H. destruct (inline_items tb ie cs) as [[b0 tb0]|] eqn:Ec; [|discriminate].
    cbn [E.obind fst snd] in H. injection H as _ <-.
    apply Bal_app; [apply (bal4_entries _ _ _ _ Ea)|apply (bal4_items_of ie cs IHc _ _ Ec)].
  - cbn [inline_item] in H. apply (bal4_run _ _ _ _ H).
  - cbn [inline_item] in H. injection H as _ <-. constructor.
  - cbn [inline_item] in H. injection H as _ <-. constructor.
Qed.

Lemma bal4_items ie cs its tr : inline_items tb ie cs = Some (its, tr) -> Bal tr.
Proof. apply bal4_items_of. apply Forall_forall. intros i _. apply bal4_item. Qed.

Lemma bal4_value v x : inline_value tb v = Some x -> Bal (y_trace x).
Proof.
  destruct v as [ps|its]; cbn [inline_value]; intros H.
  - destruct (E.inline_ps (ptable tb) false true (enc_epieces ps)) as [[q tr]|] eqn:Ei; [|discriminate]. cbn [E.obind fst snd] in H.
    injection H as <-. apply (bal4_ps _ _ _ _ _ Ei).
  - destruct (inline_items tb true its) as [[it tr]|] eqn:Ei; [|discriminate]. cbn [E.obind fst snd] in H.
    injection H as <-. apply (bal4_items _ _ _ _ Ei).
Qed.

End Tb.

Lemma balT_glevel4 decls : forall k, BalT4 (glevel4 decls k).
Proof.
  induction k as [|k IH]; intros n v Hl; rewrite ylookup_glevel in Hl; destruct (first_xdecl decls n) as [d|]; try discriminate.
  - injection Hl as <-. destruct (x_value d); constructor.
  - apply (bal4_value (glevel4 decls k) IH _ _ Hl).
Qed.

Lemma balT_level4 decls : forall k, BalT4 (level decls k).
Proof.
  induction k as [|k IH]; intros n v Hl; rewrite ylookup_level in Hl; [discriminate|].
  destruct (first_xdecl decls n) as [d|]; [|discriminate]. apply (bal4_value (level decls k) IH _ _ Hl).
Qed.

(* the unfolding is the inlining of Spec/CstFullS4.v when the detector runs through its trace *)
Theorem ginline4_inline (c : S4.doc) cT tr ld' :
  ginline4 c = Some (cT, tr) -> ld_run ld_init tr = Some ld' -> S4.inline c = Some (cT, tr).
Proof.
  intros H Hr. unfold ginline4, inline_with4 in H. unfold S4.inline, S4.table, table_of4, E.max_level.
  set (decls := t_decls (S4.x_dtd c)) in *.
  destruct (inline_item (glevel4 decls glevels) false (d_root (S4.x_main c))) as [[its tr0]|] eqn:Ei; [|discriminate].
  cbn [E.obind fst snd] in H.
  assert (tr0 = tr) by (destruct its as [|r [|x its]]; try discriminate; injection H as _ <-; reflexivity). subst tr0.
  destruct (agree4_item decls glevels false _ _ _ _ _ Ei Hr ltac:(unfold glevels; cbn; lia)) as [E1 _].
  unfold glevels in E1.
  destruct (down4_item decls 11 false _ _ _ _ _ E1 Hr ltac:(cbn; lia)) as [E2 _].
  destruct (down4_item decls 10 false _ _ _ _ _ E2 Hr ltac:(cbn; lia)) as [E3 _].
  rewrite E3. cbn [E.obind fst snd]. exact H.
Qed.

Print Assumptions ginline4_inline.
