(* Proofs/CstSoundN.v -- C08, soundness half WITH NAMESPACES, on stage S2 of Spec/CstFull.v
   (Unicode + qualified names + namespace declarations + piece lists for text, attribute values
   and declaration values): the fragment, the statement and sanity examples.

   [in_fragment_n text] (all byte-level, on the input):
     N0  valid_utf8_b text = true                (the input is a Rust &str)
     N1  no CR (13) byte anywhere: CR is legal in character data / values of S2, but the markup
         white space of the frame is SP / TAB / LF (Cst.wf_ws); as in CstSoundT.v it is excluded
         entirely
     N2  no "<!D", no "<?xml" anywhere; the text does not start with a byte order mark
     N3  [charrefs_scalar text] (T4 of CstSoundT.v): numeric references denote scalar values
     N4  [no_colon_start text]: no ':' right after '<', '/', SP, TAB or LF.  The crate accepts a
         qualified name with an EMPTY prefix in front of the colon (<:a/>, </:a>, :b='1'; tokenizer
         test element_08) and treats it as the unprefixed name: a documented leniency, not a QName
     N5  [pi_targets_nc text]: wherever "<?" occurs, the name that follows contains no ':'.
         FINDING: the crate accepts a processing instruction whose target contains a colon
         (<?a:b?>), which Namespaces in XML 1.0 (section 3, "no ... processing instruction targets
         ... contain any colons") forbids; S2 (CstU.wf_name for the target) follows the
         recommendation
   ':' and "xmlns" are allowed.  No condition on the result. *)
From Coq Require Import String.
From Coq Require Import List NArith Bool Lia.
Import ListNotations.
From RX Require Import Generated.
From RX.Model Require Import Base CharClass Stream Tokenizer Doc Builder Parse.
From RX.Spec Require Cst Chars CstU CstNs CstText Scope.
From RX.Spec Require Import CstFull.
From RX.Proofs Require Import CstSound CstSoundT.
Open Scope N_scope.

Definition no_colon_start (text : bytes) : bool :=
  negb (contains_b [60; 58] text) && negb (contains_b [47; 58] text) &&
  negb (contains_b [32; 58] text) && negb (contains_b [9; 58] text) && negb (contains_b [10; 58] text).

(* the bytes of Names: ASCII NameChars (':' included) and everything above ASCII *)
Definition name_byte (x : N) : bool := (128 <=? x) || byte_is_name x.
Fixpoint name_run (l : bytes) : bytes :=
  match l with x :: r => if name_byte x then x :: name_run r else [] | [] => [] end.
Fixpoint pi_targets_nc (l : bytes) : bool :=
  match l with
  | [] => true
  | x :: r => (match l with 60 :: 63 :: r2 => negb (mem_b 58 (name_run r2)) | _ => true end) && pi_targets_nc r
  end.

Definition in_fragment_n (text : bytes) : bool :=
  valid_utf8_b text && negb (mem_b 13 text) &&
  negb (contains_b (b "<!D") text) && negb (contains_b (b "<?xml") text) &&
  negb (prefix_b [239; 187; 191] text) &&
  charrefs_scalar text && no_colon_start text && pi_targets_nc text.

Definition parse_sound_fragment_n_stmt : Prop :=
  forall text opt d, in_fragment_n text = true -> parse text opt = Ok d ->
  exists c : S2.doc, S2.wf_doc c = true /\ S2.render c = text.

(* ---- sanity examples ---- *)
Definition witness_n (c : S2.doc) : bool :=
  let text := S2.render c in in_fragment_n text && accepted text && S2.wf_doc c.
Definition lay ws w1 w2 q := {| CstNs.l_ws := b ws; CstNs.l_ws1 := b w1; CstNs.l_ws2 := b w2; CstNs.l_quote := q |}.
Definition qn (p l : scalars) : qname := {| q_prefix := p; q_local := l |}.
Definition at_ p l v : entry pieces := EAttr (lay " " "" "" 34) (qn p l) v.
Definition dc p u : entry pieces := EDecl (lay " " "" "" 39) p u.
Definition el p l es cs : item pieces := IElem (qn p l) es [] (Some (cs, [])).
Definition em p l es : item pieces := IElem (qn p l) es [] None.
Definition tx (r : list T.piece) : item pieces := @IText pieces r.
Definition mk root : S2.doc := {| d_before := []; d_ws0 := []; d_root := root; d_after := []; d_ws_end := [] |}.
Definition lit (x : string) : list T.piece := [T.PLit (b x)].
Definition xml_ns := "http://www.w3.org/XML/1998/namespace"%string.

(* accepted inputs with their abstract documents *)
(* <P:e xmlns:P='&#117;rn:x' P:P="a TAB &quot; U+10FFFF" xmlns="d">U+540D LF &gt;<![CDATA[]] e-acute]]>&amp;<c P:x='' x=''/></P:e> *)
Example exn_ok1 : witness_n
  (mk (el [21517] [233]
        [dc [21517] [T.PCharRef false (b "117"); T.PLit (b "rn:x")];
         at_ [21517] [21517] [T.PLit [228; 10; 9]; T.PPredef T.Quot; T.PLit [1114111]]; dc [] (lit "d")]
        [ tx [T.PLit [21517; 10]; T.PPredef T.Gt; T.PCData [93; 93; 233]; T.PPredef T.Amp];
          em [] (b "c") [at_ [21517] (b "x") []; at_ [] (b "x") []] ])) = true.
Proof. vm_compute. reflexivity. Qed.
(* the cases asked for: xmlns:p='' (a binding to the empty URI, usable below); xml:xmlns is an ordinary
   attribute in the xml namespace; xmlns:xml with the right URI (also through a reference); a p:xmlns
   attribute; the xml prefix needs no declaration; re-declaration in a child; same local name in two
   different namespaces / in no namespace *)
Example exn_ok2 : forallb witness_n
  [ mk (el [] (b "a") [dc (b "p") []] [em (b "p") (b "c") []]);
    mk (em [] (b "a") [at_ (b "xml") (b "xmlns") (lit "x")]);
    mk (em [] (b "a") [dc (b "xml") (lit xml_ns); at_ (b "xml") (b "a") (lit "1")]);
    mk (em [] (b "a") [dc (b "xml") [T.PLit (b "http://www.w3.org/XML/1998/namespac"); T.PCharRef false (b "101")]]);
    mk (em [] (b "a") [dc (b "p") (lit "u"); at_ (b "p") (b "xmlns") (lit "1")]);
    mk (em (b "xml") (b "a") [at_ (b "xml") (b "b") (lit "1")]);
    mk (el [] (b "a") [dc (b "p") (lit "u")] [el [] (b "b") [dc (b "p") (lit "v"); dc [] (lit "u")] [em (b "p") (b "c") []]; em (b "p") (b "c") []]);
    mk (em [] (b "a") [dc (b "b") (lit "1"); dc (b "c") (lit "2"); dc [] (lit "1"); at_ (b "b") (b "x") (lit "1"); at_ (b "c") (b "x") (lit "2"); at_ [] (b "x") (lit "3")]);
    mk (em [] (b "a") [dc (b "p") (lit (xml_ns ++ " "))]) ] = true.
Proof. vm_compute. reflexivity. Qed.

(* inputs of the fragment that are rejected: the namespace constraints of C08 *)
Example exn_rej : forallb (fun t => in_fragment_n (b t) && negb (accepted (b t)))
  [ "<a xmlns:xml='x'/>"; "<a xmlns:p='http://www.w3.org/XML/1998/namespace'/>"; "<a xmlns='http://www.w3.org/XML/1998/namespace'/>";
    "<a xmlns:p='http://www.w3.org/2000/xmlns/'/>"; "<a xmlns='http://www.w3.org/2000/xmlns/'/>"; "<a xmlns:xmlns='x'/>";
    "<a xmlns:p='http://www.w3.org/XML/1998/namespac&#101;'/>";                (* the NORMALISED URI is tested *)
    "<a xmlns:='u'/>"; "<a xmlns:p='u' xmlns:p='v'/>"; "<a xmlns:p='u' xmlns:p='u'/>"; "<a xmlns='u' xmlns='v'/>";
    "<p:a/>"; "<a p:b='1'/>"; "<xmlns:a/>"; "<a><b xmlns:p='u'/><p:c/></a>";
    "<a xmlns:b='1' xmlns:c='1' b:x='1' c:x='2'/>";                            (* duplicate by expanded name *)
    "<a xmlns:b='1' xmlns:c='&#49;' b:x='1' c:x='2'/>";
    "<a xml:x='1' xmlns:p='http://www.w3.org/XML/1998/namespace' />";
    "<a:/>"; "<a:b:c/>"; "<1:a/>"; "<a:1/>"; "<a b:='1'/>"; "<a b:c:d='1'/>";
    "<p:a xmlns:p='u'></q:a>"; "<p:a xmlns:p='u' xmlns:q='u'></q:a>"; "<p:a xmlns:p='u'></a>"; "<a xmlns:p='u'></p:a>" ]%string = true.
Proof. vm_compute. reflexivity. Qed.

(* N4: the documented leniency (an empty prefix in front of a colon): accepted, satisfy every other
   condition, not renderings *)
Example cexn_colon : forallb (fun t => accepted (b t) && negb (no_colon_start (b t)))
  [ "<:a/>"; "<a></:a>"; "<a :b='1'/>"; "<a :xmlns='u'/>"; "<a	:b='1'/>" ]%string = true.
Proof. vm_compute. reflexivity. Qed.
(* N5: FINDING, a colon in a PI target is accepted *)
Example cexn_pi : forallb (fun t => accepted (b t) && negb (pi_targets_nc (b t)))
  [ "<?a:b?><a/>"; "<a><?p:q x?></a>"; "<a/><?xsl:x ?>"; "<?:a?><a/>" ]%string = true.
Proof. vm_compute. reflexivity. Qed.
(* ... whereas colons elsewhere (in the content of a PI, in values, in character data) are inside the fragment *)
Example exn_colon_ok : forallb (fun t => in_fragment_n (b t) && accepted (b t))
  [ "<?a b:c?><a/>"; "<a b='x:y:'>p:q:r<!--:--></a>" ]%string = true.
Proof. vm_compute. reflexivity. Qed.
(* N4 / N5 are byte-level, hence over-approximations: accepted renderings of well-formed documents outside
   the fragment (a limit of the fragment, not a finding) *)
Example exn_over : forallb (fun t => accepted (b t) && negb (in_fragment_n (b t)))
  [ "<a>x : y</a>"; "<a b='/:'/>"; "<!--<?x:y--><a/>"; "<a><![CDATA[<?x:y]]></a>" ]%string = true.
Proof. vm_compute. reflexivity. Qed.

(* OBSERVATION, recorded as known finding D20 (not a counterexample to the theorem: both sides agree): xmlns:xml='http://www.w3.org/XML/1998/namespace'
   may be written twice on one element: the crate stores nothing for it, so its duplicate test
   (DuplicatedNamespace) does not see it, and N6 of the specification is on [own_bindings], which skip
   xmlns:xml as well.  XML 1.0 (WFC: Unique Att Spec) refuses the element. *)
Example obs_xml_twice :
  witness_n (mk (em [] (b "a") [dc (b "xml") (lit xml_ns); dc (b "xml") (lit xml_ns)])) = true.
Proof. vm_compute. reflexivity. Qed.
