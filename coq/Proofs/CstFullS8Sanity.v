(* Proofs/CstFullS8Sanity.v -- the capstone fragment, stage S8 (Spec/CstFullS8.v): the model on sample documents, by
   computation.  A bare '%' in the literal of a general internal entity (character data or MARKUP) is an ordinary
   character of the replacement text: in character data, in an attribute value, in a namespace URI, also when a
   parameter entity of that name is declared ("%p;" stays "%p;"). *)
From Coq Require Import Ascii String.
From Coq Require Import List NArith Bool.
Import ListNotations.
From RX.Model Require Import Base Stream Tokenizer Doc Builder Parse.
From RX.Spec Require CstNs CstU.
From RX.Spec Require Import CstFull CstFullS6 CstFullS7 CstFullS8.
From RX.Proofs Require Import CstNsView CstFullS6Sanity CstFullS7Sanity.
Open Scope N_scope.

Definition check8 (c : S8.doc) : bool * bool * bool :=
  (S8.wf_doc c, valid_utf8_b (S8.render c),
   match parse (S8.render c) opt_dtd with
   | Ok d => match view (S8.render c) d with
             | Some v => if list_eq_dec vnode_eq_dec v (S8.sem c) then true else false
             | None => false end
   | _ => false
   end).

Definition subset8 : subset6 :=
  {| zu_decls :=
       [ XOther (X5.SParam [10] [32] [32] (b "p") [32] (X5.PLiteral 39 (b "x")) []);                   (* <!ENTITY % p 'x'> *)
         XEntity (xd (b "e") (X4.XText [lit (b "100%")]));                                              (* &e; = "100%" *)
         XEntity (xd (b "f") (X4.XText [lit (b "a%p;b% %%")]));                                         (* &f; = "a%p;b% %%" *)
         XEntity (xd (b "u") (X4.XText [lit (b "urn:%41")]));                                           (* a URI with an escape *)
         XEntity (xd (b "m") (X4.XContent [ em [] (b "y") [at1 [] (b "k") [lit (b "%p;"); rf (b "e")]]; tx [lit (b "%")];
                                            IComment (b "%p;"); IPI (b "t") [32] (b "%") ])) ];
     zu_ws3 := []; zu_ws4 := [] |}.
Definition ex8 : S8.doc :=
  {| S6.x_bom := false; S6.x_decl := None;
     S6.x_dtd := Some {| S6.g_ws0 := []; S6.g_before := [];
                         S6.g_dtd := {| z_ws1 := [32]; z_name := b "r"; z_ws2 := []; z_ext := None; z_subset := Some subset8 |} |};
     S6.x_main := {| d_before := []; d_ws0 := [];
                     d_root := el p_ (b "r") [@EDecl epieces (layb [32] [] [] 34) p_ [rf (b "u")]; at2 [] (b "a") [rf (b "f"); lit (b "%")]]
                                  [tx [rf (b "e"); lit (b " "); rf (b "f"); rf (b "m")]];
                     d_after := []; d_ws_end := [] |} |}.
Eval vm_compute in (check8 ex8, S7.wf_doc ex8).
Eval vm_compute in (S8.sem ex8).
(* S7 / S6 documents are S8 documents *)
Eval vm_compute in (check8 ex7, check8 ex1, check8 ex2).
(* still excluded: the quote inside the literal *)
Definition bad8 : S8.doc :=
  {| S6.x_bom := false; S6.x_decl := None;
     S6.x_dtd := Some {| S6.g_ws0 := []; S6.g_before := [];
                         S6.g_dtd := {| z_ws1 := [32]; z_name := b "r"; z_ws2 := []; z_ext := None;
                                        z_subset := Some {| zu_decls := [XEntity (xd (b "e") (X4.XText [lit (b "a'b""c")]))]; zu_ws3 := []; zu_ws4 := [] |} |} |};
     S6.x_main := {| d_before := []; d_ws0 := []; d_root := el [] (b "r") [] []; d_after := []; d_ws_end := [] |} |}.
Eval vm_compute in (S8.wf_doc bad8).
