(* Proofs/KeystoneWf.v -- the refined builder invariant: no adjacent text nodes, number of
   element / text children of the root, and the link between [after_text] and the last child. *)
From Coq Require Import List NArith Bool Lia ZifyBool ZifyN ZifyNat.
From RX Require Import Generated.
From RX.Model Require Import Base CharClass Stream Tokenizer Doc Builder.
From RX.Spec Require Import Tree.
From RX.Proofs Require Import Tactics KeystoneEnc KeystoneBuilder.
Import ListNotations.
Open Scope N_scope.

(* ------------------------------------------------------------------ *)
(** * Trees: adjacent text, kinds of the children of the root *)

Definition is_text (t : tree) : bool := kind_eqb (tkind t) KdText.

Fixpoint last_not_text (cs : list tree) : bool :=
  match cs with
  | [] => true
  | c :: r => match r with [] => negb (is_text c) | _ => last_not_text r end
  end.

Lemma last_not_text_snoc cs x : last_not_text (cs ++ [x]) = negb (is_text x).
Proof.
  induction cs as [|a r IH]; [reflexivity|].
  cbn [app last_not_text]. destruct r as [|b r']; [reflexivity|]. exact IH.
Qed.

Lemma nat_list_snoc cs x :
  no_adjacent_text_list (cs ++ [x]) =
  no_adjacent_text_list cs && (last_not_text cs || negb (is_text x)).
Proof.
  induction cs as [|a r IH]; [reflexivity|].
  destruct r as [|b r'].
  - cbn [app no_adjacent_text_list last_not_text]. unfold is_text.
    destruct (kind_eqb (tkind a) KdText); destruct (kind_eqb (tkind x) KdText); reflexivity.
  - change ((a :: b :: r') ++ [x]) with (a :: (b :: r') ++ [x]).
    change (no_adjacent_text_list (a :: (b :: r') ++ [x]))
      with (negb (kind_eqb (tkind a) KdText && kind_eqb (tkind b) KdText)
            && no_adjacent_text_list ((b :: r') ++ [x])).
    rewrite IH.
    change (no_adjacent_text_list (a :: b :: r'))
      with (negb (kind_eqb (tkind a) KdText && kind_eqb (tkind b) KdText)
            && no_adjacent_text_list (b :: r')).
    change (last_not_text (a :: b :: r')) with (last_not_text (b :: r')).
    rewrite andb_assoc. reflexivity.
Qed.

Definition nat_frame (cs : list tree) : bool :=
  no_adjacent_text_list cs && forallb no_adjacent_text cs.

Lemma nat_frame_snoc cs x :
  nat_frame cs = true -> last_not_text cs || negb (is_text x) = true ->
  no_adjacent_text x = true -> nat_frame (cs ++ [x]) = true.
Proof.
  unfold nat_frame. intros H1 H2 H3. apply andb_true_iff in H1. destruct H1 as [H1 H1'].
  rewrite nat_list_snoc, forallb_app, H1, H1', H2. cbn [forallb]. rewrite H3. reflexivity.
Qed.

Lemma no_adjacent_text_T k cs : no_adjacent_text (T k cs) = nat_frame cs.
Proof. reflexivity. Qed.

Lemma count_kind_snoc kd cs x :
  count_kind kd (cs ++ [x]) =
  (count_kind kd cs + (if kind_eqb (tkind x) kd then 1 else 0))%nat.
Proof.
  unfold count_kind. rewrite filter_app, app_length. cbn [filter].
  destruct (kind_eqb (tkind x) kd); reflexivity.
Qed.

Lemma count_kind_kinds kd l : forall l',
  map tkind l = map tkind l' -> count_kind kd l = count_kind kd l'.
Proof.
  unfold count_kind. induction l as [|a r IH]; intros l' H; destruct l' as [|a' r']; try discriminate.
  - reflexivity.
  - cbn [map] in H. injection H as H1 H2. cbn [filter]. rewrite H1.
    destruct (kind_eqb (tkind a') kd); cbn [length]; rewrite (IH r' H2); reflexivity.
Qed.

Lemma plug_root_kinds outer : outer <> [] -> forall t1 t2,
  tkind t1 = tkind t2 ->
  map tkind (tchildren (plug outer t1)) = map tkind (tchildren (plug outer t2)).
Proof.
  induction outer as [|[k' cs'] o IH]; [congruence|]. intros _ t1 t2 Hk. cbn [plug].
  destruct o as [|f o'].
  - cbn [plug tchildren]. rewrite !map_app. cbn [map]. rewrite Hk. reflexivity.
  - apply IH; [discriminate|reflexivity].
Qed.

Lemma count_root_append kd k cs outer x :
  count_kind kd (tchildren (ztree k (cs ++ [x]) outer)) =
  (count_kind kd (tchildren (ztree k cs outer)) +
   match outer with [] => if kind_eqb (tkind x) kd then 1 else 0 | _ => 0 end)%nat.
Proof.
  unfold ztree. destruct outer as [|f o].
  - cbn [plug tchildren]. apply count_kind_snoc.
  - rewrite Nat.add_0_r. apply count_kind_kinds. apply plug_root_kinds; [discriminate|reflexivity].
Qed.

(* ------------------------------------------------------------------ *)
(** * The refined invariant *)

Record Inv2 (e : nat) (at_ : bool) (k : kind) (cs : list tree) (outer : list frame) (c : context)
  : Prop := {
  i2_inv : Inv k cs outer c;
  i2_nat : nat_frame cs = true;
  i2_nat_outer : forallb (fun f => nat_frame (snd f)) outer = true;
  i2_elem : count_kind KdElem (tchildren (ztree k cs outer)) = e;
  i2_text : count_kind KdText (tchildren (ztree k cs outer)) = 0%nat;
  i2_at : at_ = true -> c_after_text c = [] -> last_not_text cs = true
}.

Lemma Inv2_weaken e at_ k cs outer c : Inv2 e at_ k cs outer c -> Inv2 e false k cs outer c.
Proof. intros [H1 H2 H3 H4 H5 H6]. constructor; try assumption. discriminate. Qed.

Lemma Inv2_same e at_ k cs outer c c' :
  Inv2 e at_ k cs outer c -> same_tree c c' ->
  (at_ = true -> c_after_text c' = [] -> c_after_text c = []) ->
  Inv2 e at_ k cs outer c'.
Proof.
  intros [H1 H2 H3 H4 H5 H6] [E1 [E2 [E3 E4]]] Ha. constructor; try assumption.
  - eapply Inv_same; eassumption.
  - intros Hat Hc'. apply H6; [exact Hat|]. apply Ha; assumption.
Qed.

(* a childless non-text node under the innermost open node *)
Lemma Inv2_append_closed e at_ k cs outer c kind r id c' :
  Inv2 e at_ k cs outer c ->
  append_node kind r c = Ok (id, c') ->
  kind_of kind <> KdRoot -> kind_of kind <> KdText ->
  Inv2 (e + match outer with
            | [] => if kind_eqb (kind_of kind) KdElem then 1 else 0
            | _ => 0 end)
       true k (cs ++ [T (kind_of kind) []]) outer (set_awaiting c' [id]).
Proof.
  intros [H1 H2 H3 H4 H5 H6] H Hk Ht.
  assert (Hnt : is_text (T (kind_of kind) []) = false).
  { unfold is_text. cbn [tkind]. destruct (kind_of kind); try reflexivity. congruence. }
  constructor.
  - eapply Inv_append_closed; eassumption.
  - apply nat_frame_snoc; [exact H2| |reflexivity]. rewrite Hnt. apply orb_true_r.
  - exact H3.
  - rewrite count_root_append, H4. reflexivity.
  - rewrite count_root_append, H5. cbn [tkind].
    destruct outer; [|reflexivity]. destruct (kind_of kind); try reflexivity. congruence.
  - intros _ _. rewrite last_not_text_snoc, Hnt. reflexivity.
Qed.

(* a text node: only directly after a non-text sibling, and not under the root *)
Lemma Inv2_append_text e k cs outer c st r id c' :
  Inv2 e true k cs outer c ->
  c_after_text c = [] -> outer <> [] ->
  append_node (KText st) r c = Ok (id, c') ->
  Inv2 e false k (cs ++ [T KdText []]) outer (set_awaiting c' [id]).
Proof.
  intros [H1 H2 H3 H4 H5 H6] Hat Ho H.
  constructor.
  - eapply (Inv_append_closed k cs outer c (KText st)); [eassumption|eassumption|discriminate].
  - apply nat_frame_snoc; [exact H2| |reflexivity]. rewrite H6 by auto. reflexivity.
  - exact H3.
  - rewrite count_root_append, H4. destruct outer; [congruence|]. lia.
  - rewrite count_root_append, H5. destruct outer; [congruence|]. reflexivity.
  - discriminate.
Qed.

Lemma Inv2_open e at_ k cs outer c kind r id c' px :
  Inv2 e at_ k cs outer c ->
  append_node kind r c = Ok (id, c') ->
  kind_of kind = KdElem ->
  Inv2 (e + match outer with [] => 1 | _ => 0 end) true KdElem [] ((k, cs) :: outer)
       (set_parent_prefixes (set_parent_id c' id) (c_parent_prefixes c' ++ [px])).
Proof.
  intros [H1 H2 H3 H4 H5 H6] H Hk. constructor.
  - eapply Inv_open; eassumption.
  - reflexivity.
  - cbn [forallb snd]. rewrite H2, H3. reflexivity.
  - change (ztree KdElem [] ((k, cs) :: outer)) with (ztree k (cs ++ [T KdElem []]) outer).
    rewrite count_root_append, H4. reflexivity.
  - change (ztree KdElem [] ((k, cs) :: outer)) with (ztree k (cs ++ [T KdElem []]) outer).
    rewrite count_root_append, H5. destruct outer; reflexivity.
  - reflexivity.
Qed.

Lemma Inv2_close e at_ k cs k' cs' o c c' :
  Inv2 e at_ k cs ((k', cs') :: o) c ->
  links_of_nodes (d_nodes (c_doc c')) = links_of_nodes (d_nodes (c_doc c)) ->
  c_parent_id c' = zoff o ->
  c_awaiting c' = c_awaiting c ++ [c_parent_id c] ->
  length (c_parent_prefixes c') = S (length o) ->
  Inv2 e true k' (cs' ++ [T k cs]) o c'.
Proof.
  intros [H1 H2 H3 H4 H5 H6] E1 E2 E3 E4.
  cbn [forallb snd] in H3. apply andb_true_iff in H3. destruct H3 as [H3 H3'].
  pose proof (inv_kinds _ _ _ _ H1) as Hk. cbn [kinds_ok] in Hk. destruct Hk as [-> _].
  constructor.
  - eapply Inv_close; eassumption.
  - apply nat_frame_snoc; [exact H3|apply orb_true_r|]. rewrite no_adjacent_text_T. exact H2.
  - exact H3'.
  - exact H4.
  - exact H5.
  - intros _ _. rewrite last_not_text_snoc. reflexivity.
Qed.
