(* Proofs/KeystoneWf.v -- the refined builder invariant: no adjacent text nodes, number of
   element / text children of the root, and the link between [after_text] and the last child. *)
From Coq Require Import List PeanoNat NArith Bool Lia ZifyBool ZifyN ZifyNat.
From RX Require Import Generated.
From RX.Model Require Import Base CharClass Stream Tokenizer Doc Builder.
From RX.Spec Require Import Tree.
From RX.Proofs Require Import Tactics KeystoneEnc KeystoneBuilder.
Import ListNotations.
Open Scope N_scope.

(* ------------------------------------------------------------------ *)
(** * Trees: adjacent text, kinds of the children of the root *)

Definition is_text (t : tree) : bool := kind_eqb (tkind t) KdText.

Fixpoint last_not_text (cs : list tree) : bool :=
  match cs with
  | [] => true
  | c :: r => match r with [] => negb (is_text c) | _ => last_not_text r end
  end.

Lemma last_not_text_snoc cs x : last_not_text (cs ++ [x]) = negb (is_text x).
Proof.
  induction cs as [|a r IH]; [reflexivity|].
  cbn [app last_not_text]. destruct r as [|b r']; [reflexivity|]. exact IH.
Qed.

Lemma nat_list_snoc cs x :
  no_adjacent_text_list (cs ++ [x]) =
  no_adjacent_text_list cs && (last_not_text cs || negb (is_text x)).
Proof.
  induction cs as [|a r IH]; [reflexivity|].
  destruct r as [|b r'].
  - cbn [app no_adjacent_text_list last_not_text]. unfold is_text.
    destruct (kind_eqb (tkind a) KdText); destruct (kind_eqb (tkind x) KdText); reflexivity.
  - change ((a :: b :: r') ++ [x]) with (a :: (b :: r') ++ [x]).
    change (no_adjacent_text_list (a :: (b :: r') ++ [x]))
      with (negb (kind_eqb (tkind a) KdText && kind_eqb (tkind b) KdText)
            && no_adjacent_text_list ((b :: r') ++ [x])).
    rewrite IH.
    change (no_adjacent_text_list (a :: b :: r'))
      with (negb (kind_eqb (tkind a) KdText && kind_eqb (tkind b) KdText)
            && no_adjacent_text_list (b :: r')).
    change (last_not_text (a :: b :: r')) with (last_not_text (b :: r')).
    rewrite andb_assoc. reflexivity.
Qed.

Definition nat_frame (cs : list tree) : bool :=
  no_adjacent_text_list cs && forallb no_adjacent_text cs.

Lemma nat_frame_snoc cs x :
  nat_frame cs = true -> last_not_text cs || negb (is_text x) = true ->
  no_adjacent_text x = true -> nat_frame (cs ++ [x]) = true.
Proof.
  unfold nat_frame. intros H1 H2 H3. apply andb_true_iff in H1. destruct H1 as [H1 H1'].
  rewrite nat_list_snoc, forallb_app, H1, H1', H2. cbn [forallb]. rewrite H3. reflexivity.
Qed.

Lemma no_adjacent_text_T k cs : no_adjacent_text (T k cs) = nat_frame cs.
Proof. reflexivity. Qed.

Lemma count_kind_snoc kd cs x :
  count_kind kd (cs ++ [x]) =
  (count_kind kd cs + (if kind_eqb (tkind x) kd then 1 else 0))%nat.
Proof.
  unfold count_kind. rewrite filter_app, app_length. cbn [filter].
  destruct (kind_eqb (tkind x) kd); reflexivity.
Qed.

Lemma count_kind_kinds kd l : forall l',
  map tkind l = map tkind l' -> count_kind kd l = count_kind kd l'.
Proof.
  unfold count_kind. induction l as [|a r IH]; intros l' H; destruct l' as [|a' r']; try discriminate.
  - reflexivity.
  - cbn [map] in H. injection H as H1 H2. cbn [filter]. rewrite H1.
    destruct (kind_eqb (tkind a') kd); cbn [length]; rewrite (IH r' H2); reflexivity.
Qed.

Lemma plug_root_kinds outer : outer <> [] -> forall t1 t2,
  tkind t1 = tkind t2 ->
  map tkind (tchildren (plug outer t1)) = map tkind (tchildren (plug outer t2)).
Proof.
  induction outer as [|[k' cs'] o IH]; [congruence|]. intros _ t1 t2 Hk. cbn [plug].
  destruct o as [|f o'].
  - cbn [plug tchildren]. rewrite !map_app. cbn [map]. rewrite Hk. reflexivity.
  - apply IH; [discriminate|reflexivity].
Qed.

Lemma count_root_append kd k cs outer x :
  count_kind kd (tchildren (ztree k (cs ++ [x]) outer)) =
  (count_kind kd (tchildren (ztree k cs outer)) +
   match outer with [] => if kind_eqb (tkind x) kd then 1 else 0 | _ => 0 end)%nat.
Proof.
  unfold ztree. destruct outer as [|f o].
  - cbn [plug tchildren]. apply count_kind_snoc.
  - rewrite Nat.add_0_r. apply count_kind_kinds. apply plug_root_kinds; [discriminate|reflexivity].
Qed.

(* ------------------------------------------------------------------ *)
(** * The refined invariant *)

Record Inv2 (e : nat) (at_ : bool) (k : kind) (cs : list tree) (outer : list frame) (c : context)
  : Prop := {
  i2_inv : Inv k cs outer c;
  i2_nat : nat_frame cs = true;
  i2_nat_outer : forallb (fun f => nat_frame (snd f)) outer = true;
  i2_elem : count_kind KdElem (tchildren (ztree k cs outer)) = e;
  i2_text : count_kind KdText (tchildren (ztree k cs outer)) = 0%nat;
  i2_at : at_ = true -> c_after_text c = [] -> last_not_text cs = true
}.

Lemma Inv2_weaken e at_ k cs outer c : Inv2 e at_ k cs outer c -> Inv2 e false k cs outer c.
Proof. intros [H1 H2 H3 H4 H5 H6]. constructor; try assumption. discriminate. Qed.

Lemma Inv2_same e at_ k cs outer c c' :
  Inv2 e at_ k cs outer c -> same_tree c c' ->
  (at_ = true -> c_after_text c' = [] -> c_after_text c = []) ->
  Inv2 e at_ k cs outer c'.
Proof.
  intros [H1 H2 H3 H4 H5 H6] [E1 [E2 [E3 E4]]] Ha. constructor; try assumption.
  - eapply Inv_same; eassumption.
  - intros Hat Hc'. apply H6; [exact Hat|]. apply Ha; assumption.
Qed.

(* a childless non-text node under the innermost open node *)
Lemma Inv2_append_closed e at_ k cs outer c kind r id c' :
  Inv2 e at_ k cs outer c ->
  append_node kind r c = Ok (id, c') ->
  kind_of kind <> KdRoot -> kind_of kind <> KdText ->
  Inv2 (e + match outer with
            | [] => if kind_eqb (kind_of kind) KdElem then 1 else 0
            | _ => 0 end)
       true k (cs ++ [T (kind_of kind) []]) outer (set_awaiting c' [id]).
Proof.
  intros [H1 H2 H3 H4 H5 H6] H Hk Ht.
  assert (Hnt : is_text (T (kind_of kind) []) = false).
  { unfold is_text. cbn [tkind]. destruct (kind_of kind); try reflexivity. congruence. }
  constructor.
  - eapply Inv_append_closed; eassumption.
  - apply nat_frame_snoc; [exact H2| |reflexivity]. rewrite Hnt. apply orb_true_r.
  - exact H3.
  - rewrite count_root_append, H4. reflexivity.
  - rewrite count_root_append, H5. cbn [tkind].
    destruct outer; [|reflexivity]. destruct (kind_of kind); try reflexivity. congruence.
  - intros _ _. rewrite last_not_text_snoc, Hnt. reflexivity.
Qed.

(* a text node: only directly after a non-text sibling, and not under the root *)
Lemma Inv2_append_text e k cs outer c st r id c' :
  Inv2 e true k cs outer c ->
  c_after_text c = [] -> outer <> [] ->
  append_node (KText st) r c = Ok (id, c') ->
  Inv2 e false k (cs ++ [T KdText []]) outer (set_awaiting c' [id]).
Proof.
  intros [H1 H2 H3 H4 H5 H6] Hat Ho H.
  constructor.
  - eapply (Inv_append_closed k cs outer c (KText st)); [eassumption|eassumption|discriminate].
  - apply nat_frame_snoc; [exact H2| |reflexivity]. rewrite H6 by auto. reflexivity.
  - exact H3.
  - rewrite count_root_append, H4. destruct outer; [congruence|]. lia.
  - rewrite count_root_append, H5. destruct outer; [congruence|]. reflexivity.
  - discriminate.
Qed.

Lemma Inv2_open e at_ k cs outer c kind r id c' px :
  Inv2 e at_ k cs outer c ->
  append_node kind r c = Ok (id, c') ->
  kind_of kind = KdElem ->
  Inv2 (e + match outer with [] => 1 | _ => 0 end) true KdElem [] ((k, cs) :: outer)
       (set_parent_prefixes (set_parent_id c' id) (c_parent_prefixes c' ++ [px])).
Proof.
  intros [H1 H2 H3 H4 H5 H6] H Hk. constructor.
  - eapply Inv_open; eassumption.
  - reflexivity.
  - cbn [forallb snd]. rewrite H2, H3. reflexivity.
  - change (ztree KdElem [] ((k, cs) :: outer)) with (ztree k (cs ++ [T KdElem []]) outer).
    rewrite count_root_append, H4. reflexivity.
  - change (ztree KdElem [] ((k, cs) :: outer)) with (ztree k (cs ++ [T KdElem []]) outer).
    rewrite count_root_append, H5. destruct outer; reflexivity.
  - reflexivity.
Qed.

Lemma Inv2_close e at_ k cs k' cs' o c c' :
  Inv2 e at_ k cs ((k', cs') :: o) c ->
  links_of_nodes (d_nodes (c_doc c')) = links_of_nodes (d_nodes (c_doc c)) ->
  c_parent_id c' = zoff o ->
  c_awaiting c' = c_awaiting c ++ [c_parent_id c] ->
  length (c_parent_prefixes c') = S (length o) ->
  Inv2 e true k' (cs' ++ [T k cs]) o c'.
Proof.
  intros [H1 H2 H3 H4 H5 H6] E1 E2 E3 E4.
  cbn [forallb snd] in H3. apply andb_true_iff in H3. destruct H3 as [H3 H3'].
  pose proof (inv_kinds _ _ _ _ H1) as Hk. cbn [kinds_ok] in Hk. destruct Hk as [-> _].
  constructor.
  - eapply Inv_close; eassumption.
  - apply nat_frame_snoc; [exact H3|apply orb_true_r|]. rewrite no_adjacent_text_T. exact H2.
  - exact H3'.
  - exact H4.
  - exact H5.
  - intros _ _. rewrite last_not_text_snoc. reflexivity.
Qed.

(* ------------------------------------------------------------------ *)
(** * Contexts that differ in fields the invariant does not read *)

Definition lp (c : context) : nat := length (c_parent_prefixes c).
Definition fl (c : context) : N := c_entity_floor c.

Definition same_ctx (c c' : context) : Prop :=
  same_tree c c' /\ c_after_text c' = c_after_text c /\ c_entity_floor c' = c_entity_floor c.

Lemma same_ctx_refl c : same_ctx c c.
Proof. split; [apply same_tree_refl|split; reflexivity]. Qed.

Lemma same_ctx_trans c1 c2 c3 : same_ctx c1 c2 -> same_ctx c2 c3 -> same_ctx c1 c3.
Proof.
  intros [H1 [H2 H3]] [G1 [G2 G3]]. split; [eapply same_tree_trans; eassumption|].
  split; congruence.
Qed.

Lemma same_ctx_nodes c c' :
  d_nodes (c_doc c') = d_nodes (c_doc c) ->
  c_parent_id c' = c_parent_id c ->
  c_awaiting c' = c_awaiting c ->
  c_parent_prefixes c' = c_parent_prefixes c ->
  c_after_text c' = c_after_text c ->
  c_entity_floor c' = c_entity_floor c ->
  same_ctx c c'.
Proof. intros. split; [apply same_tree_nodes; assumption|split; assumption]. Qed.

Lemma same_ctx_lp c c' : same_ctx c c' -> lp c' = lp c.
Proof. intros [[_ [_ [_ H]]] _]. unfold lp. rewrite H. reflexivity. Qed.

Lemma same_ctx_fl c c' : same_ctx c c' -> fl c' = fl c.
Proof. intros [_ [_ H]]. exact H. Qed.

Definition Core (e : nat) (at_ : bool) (c : context) : Prop :=
  exists k cs outer, Inv2 e at_ k cs outer c.

Lemma Core_weaken e at_ c : Core e at_ c -> Core e false c.
Proof. intros [k [cs [outer H]]]. exists k, cs, outer. eapply Inv2_weaken. exact H. Qed.

Lemma Core_ctx e at_ c c' : Core e at_ c -> same_ctx c c' -> Core e at_ c'.
Proof.
  intros [k [cs [outer H]]] [H1 [H2 H3]]. exists k, cs, outer.
  eapply Inv2_same; [exact H|exact H1|]. intros _. congruence.
Qed.

Lemma Core_tree e c c' : Core e false c -> same_tree c c' -> Core e false c'.
Proof.
  intros [k [cs [outer H]]] H1. exists k, cs, outer.
  eapply Inv2_same; [exact H|exact H1|]. discriminate.
Qed.

Lemma Core_lp e at_ c k cs outer : Inv2 e at_ k cs outer c -> lp c = S (length outer).
Proof. intros H. exact (inv_pp _ _ _ _ (i2_inv _ _ _ _ _ _ H)). Qed.

Section WithText.
Variable text : bytes.

Lemma resolve_namespaces_ctx c r c' :
  resolve_namespaces text c = Ok (r, c') -> same_ctx c c'.
Proof.
  unfold resolve_namespaces. intros H.
  apply bind_ok in H. destruct H as [pnd [_ H]].
  destruct (nd_kind pnd).
  - apply bind_ok in H. destruct H as [r0 [_ H]]. injection H as _ <-. apply same_ctx_refl.
  - destruct (c_ns_start_idx c =? _).
    + injection H as _ <-. apply same_ctx_refl.
    + destruct nss as [pa pe].
      apply bind_ok in H. destruct H as [d1 [Hd1 H]].
      apply bind_ok in H. destruct H as [r0 [_ H]]. injection H as _ <-.
      apply resolve_ns_loop_nodes in Hd1. apply same_ctx_nodes; try reflexivity. exact Hd1.
  - apply bind_ok in H. destruct H as [r0 [_ H]]. injection H as _ <-. apply same_ctx_refl.
  - apply bind_ok in H. destruct H as [r0 [_ H]]. injection H as _ <-. apply same_ctx_refl.
  - apply bind_ok in H. destruct H as [r0 [_ H]]. injection H as _ <-. apply same_ctx_refl.
Qed.

Lemma resolve_attributes_ctx nss c r c' :
  resolve_attributes text nss c = Ok (r, c') -> same_ctx c c'.
Proof.
  unfold resolve_attributes. destruct (c_cur_attrs c) as [|a l] eqn:E.
  - intros H. injection H as _ <-. apply same_ctx_refl.
  - destruct (u32_max <=? _); [discriminate|]. intros H.
    apply bind_ok in H. destruct H as [d1 [Hd1 H]].
    apply bind_ok in H. destruct H as [r0 [_ H]]. injection H as _ <-.
    apply resolve_attrs_loop_nodes in Hd1. apply same_ctx_nodes; try reflexivity. exact Hd1.
Qed.

Lemma normalize_attribute_ctx value c v c' :
  normalize_attribute text value c = Ok (v, c') -> same_ctx c c'.
Proof.
  unfold normalize_attribute. intros H. mstep H.
  - mstep H. destruct a as [t ld]. mstep H. injection H as _ <-.
    apply same_ctx_nodes; reflexivity.
  - injection H as _ <-. apply same_ctx_refl.
Qed.

Lemma process_attribute_ctx r ql el prefix local value c c' :
  process_attribute text r ql el prefix local value c = Ok c' -> same_ctx c c'.
Proof.
  unfold process_attribute. intros H. mstep H. destruct a as [v c1].
  apply normalize_attribute_ctx in Hb.
  eapply same_ctx_trans; [exact Hb|]. clear Hb.
  repeat (mstep H).
  all: try (injection H as <-); try apply same_ctx_refl.
  all: try (apply same_ctx_nodes; reflexivity).
  all: match goal with Hp : push_ns _ _ _ _ = Ok _ |- _ =>
         apply push_ns_nodes in Hp; apply same_ctx_nodes; try reflexivity; exact Hp end.
Qed.

Lemma append_node_fields kind r c id c' :
  append_node kind r c = Ok (id, c') ->
  c_parent_prefixes c' = c_parent_prefixes c /\ c_entity_floor c' = c_entity_floor c /\
  c_after_text c' = c_after_text c.
Proof.
  unfold append_node. intros H. repeat (mstep H). injection H as _ <-. repeat split.
Qed.

Lemma reset_after_text_fields c c' :
  reset_after_text text c = Ok c' ->
  same_tree c c' /\ c_after_text c' = [] /\ c_entity_floor c' = c_entity_floor c.
Proof.
  intros H. split; [eapply reset_after_text_same; exact H|].
  unfold reset_after_text in H. destruct (c_after_text c) as [|x [|y l]] eqn:E.
  - injection H as <-. split; [exact E|reflexivity].
  - injection H as <-. split; reflexivity.
  - mstep H. injection H as <-. split; [reflexivity|].
    unfold merge_text in Hb. repeat (mstep Hb). injection Hb as <-. reflexivity.
Qed.

(* ---- tokens ---- *)

Lemma K_reset e at_ c c' :
  Core e at_ c -> reset_after_text text c = Ok c' ->
  Core e false c' /\ lp c' = lp c /\ fl c' = fl c /\ c_after_text c' = [].
Proof.
  intros HC H. apply reset_after_text_fields in H. destruct H as [H1 [H2 H3]].
  split; [eapply Core_tree; [eapply Core_weaken; exact HC|exact H1]|].
  split; [|split; assumption].
  destruct H1 as [_ [_ [_ H1]]]. unfold lp. rewrite H1. reflexivity.
Qed.

Lemma K_leaf e at_ kind r c id c' :
  Core e at_ c -> append_node kind r c = Ok (id, c') ->
  is_element_kind kind = false -> kind_of kind <> KdRoot -> kind_of kind <> KdText ->
  Core e true c' /\ lp c' = lp c /\ fl c' = fl c.
Proof.
  intros [k [cs [outer HI]]] H He Hr Ht.
  pose proof (append_node_fields _ _ _ _ _ H) as [F1 [F2 F3]].
  split; [|split; [unfold lp; rewrite F1; reflexivity|exact F2]].
  exists k, (cs ++ [T (kind_of kind) []]), outer.
  pose proof (Inv2_append_closed _ _ _ _ _ _ _ _ _ _ HI H Hr Ht) as HI'.
  destruct (append_node_rows _ _ _ _ _ _ _ _ (i2_inv _ _ _ _ _ _ HI) H) as [nodes' [_ [Hc' _]]].
  rewrite He in Hc'.
  assert (Hz : (e + match outer with
                    | [] => if kind_eqb (kind_of kind) KdElem then 1 else 0
                    | _ :: _ => 0 end = e)%nat).
  { destruct outer; [|lia]. destruct kind; try discriminate; cbn [kind_of kind_eqb]; lia. }
  rewrite Hz in HI'. rewrite Hc' in HI' |- *. exact HI'.
Qed.

Definition root_inc (c : context) : nat := if Nat.eqb (lp c) 1 then 1%nat else 0%nat.

Lemma root_inc_outer e at_ k cs outer c :
  Inv2 e at_ k cs outer c -> root_inc c = match outer with [] => 1%nat | _ => 0%nat end.
Proof.
  intros H. unfold root_inc. rewrite (Core_lp _ _ _ _ _ _ H). destruct outer; reflexivity.
Qed.

Lemma process_element_K e at_ el r c c' :
  Core e at_ c -> process_element text el r c = Ok c' ->
  match el with
  | EOpen => Core (e + root_inc c) true c' /\ lp c' = S (lp c) /\ fl c' = fl c
  | EEmpty => Core (e + root_inc c) true c' /\ lp c' = lp c /\ fl c' = fl c
  | EClose _ _ => Core e true c' /\ S (lp c') = lp c /\ fl c' = fl c /\
                  fl c < len_N (c_parent_prefixes c)
  end.
Proof.
  unfold process_element. intros HC H.
  destruct (slice_len _ =? 0). { destruct el; try discriminate; mstep H. }
  mbind H nc1 H1. destruct nc1 as [nss c1]. apply resolve_namespaces_ctx in H1.
  mbind H ac2 H2. destruct ac2 as [attrs c2]. apply resolve_attributes_ctx in H2.
  assert (Hctx : same_ctx c c2).
  { eapply same_ctx_trans; [exact H1|]. eapply same_ctx_trans; [|exact H2].
    apply same_ctx_nodes; reflexivity. }
  assert (HC2 : Core e at_ c2) by (eapply Core_ctx; eassumption).
  assert (Hri : root_inc c2 = root_inc c) by (unfold root_inc; rewrite (same_ctx_lp _ _ Hctx); reflexivity).
  rewrite <- (same_ctx_lp _ _ Hctx), <- (same_ctx_fl _ _ Hctx), <- Hri.
  assert (Hpp : c_parent_prefixes c = c_parent_prefixes c2).
  { destruct Hctx as [[_ [_ [_ Hx]]] _]. symmetry. exact Hx. }
  rewrite Hpp.
  clear HC H1 H2 Hctx Hri Hpp c c1. destruct HC2 as [k [cs [outer HI]]].
  pose proof (i2_inv _ _ _ _ _ _ HI) as HI1.
  destruct el as [|prefix local|].
  - (* open *)
    mbind H tns Htns. mbind H ic3 H3. destruct ic3 as [id c3]. injection H as <-.
    pose proof (append_node_fields _ _ _ _ _ H3) as [F1 [F2 F3]].
    split; [|split].
    + exists KdElem, [], ((k, cs) :: outer). rewrite (root_inc_outer _ _ _ _ _ _ HI).
      eapply Inv2_open; [exact HI|exact H3|reflexivity].
    + unfold lp. cbn [c_parent_prefixes set_parent_prefixes]. rewrite app_length, F1.
      cbn [length]. lia.
    + unfold fl. cbn [c_entity_floor set_parent_prefixes set_parent_id]. exact F2.
  - (* close *)
    mstep H; [mstep H|]. mbind H pnd' Hpnd.
    destruct (nth_N _ _) as [pnd|] eqn:Epnd; [|discriminate].
    injection Hpnd as <-.
    mbind H ppx Hppx. mbind H nodes1 Hb1. mbind H u Hu.
    pose proof (inv_parent_row _ _ _ _ _ HI1 Epnd) as Hrow.
    assert (Hpar : nd_parent pnd = zpar outer).
    { change (nd_parent pnd) with (l_parent (link_of pnd)). rewrite Hrow. reflexivity. }
    rewrite Hpar in H. destruct outer as [|[k' cs'] o]; cbn [zpar] in H; [mstep H|].
    destruct (removelast _) eqn:Erl in H; [discriminate|]. injection H as <-.
    apply upd_node_spec in Hb1. destruct Hb1 as [-> _].
    assert (Hlen : length (removelast (c_parent_prefixes c2)) = S (length o)).
    { rewrite removelast_len, (inv_pp _ _ _ _ HI1). reflexivity. }
    split; [|split; [|split]].
    + exists k', (cs' ++ [T k cs]), o.
      eapply Inv2_close; [exact HI| | | |].
      * cbn [c_doc set_parent_prefixes set_parent_id set_awaiting set_doc d_nodes set_nodes].
        apply links_mapi_same. intros i x. destruct (i =? _); reflexivity.
      * reflexivity.
      * reflexivity.
      * cbn [c_parent_prefixes set_parent_prefixes]. rewrite <- Erl.
        cbn [c_parent_prefixes set_parent_id set_awaiting set_doc]. exact Hlen.
    + unfold lp. cbn [c_parent_prefixes set_parent_prefixes]. rewrite <- Erl.
      cbn [c_parent_prefixes set_parent_id set_awaiting set_doc].
      rewrite Hlen, (inv_pp _ _ _ _ HI1). reflexivity.
    + reflexivity.
    + unfold fl. lia.
  - (* empty *)
    mbind H tns Htns. mbind H ic3 H3. destruct ic3 as [id c3]. injection H as <-.
    pose proof (append_node_fields _ _ _ _ _ H3) as [F1 [F2 F3]].
    split; [|split; [unfold lp; cbn [c_parent_prefixes set_awaiting]; rewrite F1; reflexivity|exact F2]].
    exists k, (cs ++ [T KdElem []]), outer. rewrite (root_inc_outer _ _ _ _ _ _ HI).
    match type of H3 with append_node ?kd _ _ = _ =>
      pose proof (Inv2_append_closed _ _ _ _ _ _ kd _ _ _ HI H3) as HI' end.
    destruct (append_node_rows _ _ _ _ _ _ _ _ HI1 H3) as [nodes' [_ [Hc' _]]].
    cbn [is_element_kind] in Hc'. rewrite Hc'. cbn [c_awaiting set_awaiting app].
    rewrite Hc' in HI'. cbn [kind_of kind_eqb] in HI'.
    assert (HI'' := HI' ltac:(discriminate) ltac:(discriminate)).
    destruct outer; exact HI''.
Qed.

Lemma K_append_text e t r c c' :
  Core e true c -> (2 <= lp c)%nat -> append_text t r c = Ok c' ->
  Core e true c' /\ lp c' = lp c /\ fl c' = fl c.
Proof.
  unfold append_text. intros [k [cs [outer HI]]] Hlp H. mbind H c1 H1. injection H as <-.
  assert (Ho : outer <> []).
  { rewrite (Core_lp _ _ _ _ _ _ HI) in Hlp. destruct outer; [cbn in Hlp; lia|discriminate]. }
  destruct (c_after_text c) as [|x l] eqn:Eat.
  - mbind H1 ic2 H2. destruct ic2 as [id c2]. injection H1 as <-.
    pose proof (append_node_fields _ _ _ _ _ H2) as [F1 [F2 F3]].
    split; [|split; [unfold lp; cbn [c_parent_prefixes set_after_text]; rewrite F1; reflexivity|exact F2]].
    exists k, (cs ++ [T KdText []]), outer.
    pose proof (Inv2_append_text _ _ _ _ _ _ _ _ _ HI Eat Ho H2) as HI'.
    destruct (append_node_rows _ _ _ _ _ _ _ _ (i2_inv _ _ _ _ _ _ HI) H2) as [nodes' [_ [Hc' _]]].
    cbn [is_element_kind] in Hc'. rewrite Hc' in HI'.
    destruct HI' as [G1 G2 G3 G4 G5 G6]. rewrite Hc'. constructor; try assumption.
    + eapply Inv_same; [exact G1| | | |]; reflexivity.
    + intros _ Hn. cbn [c_after_text set_after_text] in Hn. destruct (c_after_text _); discriminate.
  - injection H1 as <-. split; [|split; reflexivity].
    exists k, cs, outer. destruct HI as [G1 G2 G3 G4 G5 G6]. constructor; try assumption.
    + eapply Inv_same; [exact G1| | | |]; reflexivity.
    + intros _ Hn. cbn [c_after_text set_after_text] in Hn. rewrite Eat in Hn. discriminate.
Qed.

Lemma K_cdata e txt r c c' :
  Core e true c -> (2 <= lp c)%nat -> process_cdata text txt r c = Ok c' ->
  Core e true c' /\ lp c' = lp c /\ fl c' = fl c.
Proof.
  unfold process_cdata. intros HC Hlp H. destruct (mem_b 13 _); eapply K_append_text; eassumption.
Qed.
End WithText.
