(* Proofs/CstFullS9aPlug.v -- the capstone fragment, stage S9 (Spec/CstFullS9.v):
   Proofs/CstFullS3Plug.v (from the well-formedness conditions to the byte-level ones; the part about pieces) with Spec/CstFullS9.v [wf_uepiece9].
   An adapted copy: the statements and proofs are those of that file over the definitions of Proofs/CstFullS9aSem.v. *)
From Coq Require Import Ascii String.
From Coq Require Import List NArith PeanoNat Bool Lia ZifyBool ZifyN ZifyNat.
Import ListNotations.
From RX Require Import Generated.
From RX.Model Require Import Base CharClass Stream Tokenizer Doc Builder Parse.
From RX.Spec Require Cst CstText CstEnt Detector Scope CstU CstNs.
From RX.Spec Require Import Text CstFull.
From RX.Spec Require CstFullS9.
From RX.Proofs Require Import Tactics CstLex CstBuild CstULex TextMachine NoPanicUtf8 DetectorProofs.
From RX.Proofs Require Import CstTextSem CstTextLex CstTextBuild CstEntSem CstEntMeaning CstEntRun CstEntInline CstNsBuild CstNsView.
From RX.Proofs Require Import CstFullLex CstFullBuild CstFullTree CstFullItems.
From RX.Proofs Require Import CstFullS2Sem CstFullS2Lex CstFullS2Build CstFullS9aSem CstFullS9aText CstFullS9aAttr CstFullS9aRun CstFullS3Dtd.
From RX.Proofs Require CstItems CstNsItems CstTextItems CstEntAttr CstEntBuild.
Open Scope N_scope.

(* ------------------------------------------------------------------------------------------ *)
(* pieces                                                                                     *)
(* ------------------------------------------------------------------------------------------ *)
Lemma uep_weaken p : uep_ok true p -> uep_ok false p.
Proof. destruct p as [q|n]; cbn [uep_ok]; [intros [H _]; split; [exact H|discriminate]|auto]. Qed.

Definition lit3 (p : E.epiece) : Prop := match p with E.EP (T.PLit bs) => contains_b n3 bs = false | _ => True end.

Lemma uepieces_ok q cd ch iv ps : q < 128 -> CstFullS9.wf_uepieces9 q cd ch iv ps = true ->
  forallb (fun p => negb (is_ecdata p)) ps = true ->
  Forall (uep_ok iv) (enc_epieces ps) /\ E.no_adjacent_elit (enc_epieces ps) = true /\
  (ch = true -> Forall lit3 (enc_epieces ps)).
Proof.
  intros Hq H Hc. unfold CstFullS9.wf_uepieces9 in H. apply andb_true_iff in H. destruct H as [H Hadj].
  split; [|split; [rewrite enc_no_adjacent_elit; exact Hadj|]].
  - apply Forall_forall. intros p Hp. apply in_map_iff in Hp. destruct Hp as (p0 & <- & Hp0).
    rewrite forallb_forall in H, Hc. apply (uepiece_ok q cd ch iv p0 Hq (H _ Hp0)). apply negb_true_iff. apply Hc. exact Hp0.
  - intros Hch. apply Forall_forall. intros p Hp. apply in_map_iff in Hp. destruct Hp as (p0 & <- & Hp0).
    rewrite forallb_forall in H, Hc. destruct (uepiece_ok q cd ch iv p0 Hq (H _ Hp0)) as [_ G]; [apply negb_true_iff; apply Hc; exact Hp0|].
    specialize (G Hch). unfold lit3. destruct (enc_epiece p0) as [[| | |]|]; auto.
Qed.

Lemma no_cdata_of q ch iv ps : forallb (CstFullS9.wf_uepiece9 q false ch iv) ps = true -> forallb (fun p => negb (is_ecdata p)) ps = true.
Proof.
  apply CstLex.forallb_imp. intros p H. destruct p as [[| | |cs]|]; try reflexivity. cbn [CstFullS9.wf_uepiece9 andb] in H. discriminate.
Qed.

(* the bytes of a value quoted by q *)
Lemma uepieces_vbytes q ps : q = 39 \/ q = 34 -> CstFullS9.wf_uepieces9 q false false false ps = true ->
  uval_ok q (E.r_epieces (enc_epieces ps)).
Proof.
  intros Hq H. assert (Hq128 : q < 128) by lia.
  pose proof H as H0. unfold CstFullS9.wf_uepieces9 in H0. apply andb_true_iff in H0. destruct H0 as [Hw _].
  destruct (uepieces_ok q false false false ps Hq128 H (no_cdata_of _ _ _ _ Hw)) as (Hok & _ & _).
  destruct (uep_bytes false _ Hok) as [(cs & E & Hu) Hb]. exists cs. split; [exact E|]. split; [exact Hu|].
  clear - Hq Hw Hq128. induction ps as [|p ps IH]; [reflexivity|]. cbn [forallb] in Hw. apply andb_true_iff in Hw. destruct Hw as [H1 H2].
  change (enc_epieces (p :: ps)) with (enc_epiece p :: enc_epieces ps). rewrite r_epieces_cons, forallb_app. rewrite (IH H2), andb_true_r.
  destruct p as [[cs|hex ds|e|cs]|n]; cbn [CstFullS9.wf_uepiece9 enc_epiece enc_piece E.r_epiece andb] in *; try discriminate.
  - rewrite andb_true_r in H1. destruct (vpieces_bytes_u q ltac:(destruct Hq; auto) [T.PLit (utf8s cs)]) as [_ Hb].
    { constructor; [apply (uvpiece_b q (T.PLit cs) Hq128 H1)|constructor]. }
    unfold T.r_pieces in Hb. cbn [flat_map] in Hb. rewrite app_nil_r in Hb. exact Hb.
  - rewrite andb_true_r in H1. destruct (vpieces_bytes_u q ltac:(destruct Hq; auto) [T.PCharRef hex ds]) as [_ Hb].
    { constructor; [exact H1|constructor]. }
    unfold T.r_pieces in Hb. cbn [flat_map] in Hb. rewrite app_nil_r in Hb. exact Hb.
  - destruct (vpieces_bytes_u q ltac:(destruct Hq; auto) [T.PPredef e]) as [_ Hb].
    { constructor; [exact I|constructor]. }
    unfold T.r_pieces in Hb. cbn [flat_map] in Hb. rewrite app_nil_r in Hb. exact Hb.
  - apply andb_true_iff in H1. destruct H1 as [Hn _]. destruct (uname_bytes (utf8s n) ltac:(exists n; auto)) as (_ & _ & Hb).
    assert (G : forallb (fun y => negb ((y =? q) || (y =? 60))) (utf8s n) = true).
    { revert Hb. apply CstLex.forallb_imp. intros x Hx. destruct Hq as [-> | ->]; lia. }
    rewrite !forallb_app, G. destruct Hq as [-> | ->]; reflexivity.
Qed.

(* ---- the segments of a run ---- *)
Lemma esegs_enc : forall ps, esegs (enc_epieces ps) =
  map (fun s => match s with ESS l => ESS (enc_epieces l) | ESC cs => ESC (utf8s cs) end) (esegs ps).
Proof.
  unfold enc_epieces. induction ps as [|p ps IH]; [reflexivity|]. cbn [map].
  destruct p as [[cs|hex ds|e|cs]|n]; cbn [enc_epiece enc_piece esegs]; rewrite IH;
    try (destruct (esegs ps) as [|[l|b0] t]; reflexivity).
Qed.

Lemma esegs_wf_u : forall ps, CstFullS9.wf_uepieces9 60 true true false ps = true -> Forall ueseg_wf (esegs (enc_epieces ps)).
Proof.
  intros ps H. unfold CstFullS9.wf_uepieces9 in H. apply andb_true_iff in H. destruct H as [Hw Ha].
  assert (Hss : forall l, l <> [] -> forallb (CstFullS9.wf_uepiece9 60 true true false) l = true ->
            forallb (fun p => negb (is_ecdata p)) l = true -> E.no_adjacent_elit l = true -> ueseg_wf (ESS (enc_epieces l))).
  { intros l Hne Hwl Hc Hal.
    destruct (uepieces_ok 60 true true false l ltac:(lia) ltac:(unfold CstFullS9.wf_uepieces9; rewrite Hwl, Hal; reflexivity) Hc) as (Hok & Hadj & H3).
    cbn [ueseg_wf]. split; [destruct l; [congruence|discriminate]|]. split; [exact Hok|]. split; [exact Hadj|].
    apply ustretch_no_cdata_end; [exact Hok|apply H3; reflexivity|exact Hadj]. }
  rewrite esegs_enc.
  revert Hw Ha. induction ps as [|p ps IH]; intros Hw Ha; [constructor|].
  cbn [forallb] in Hw. apply andb_true_iff in Hw. destruct Hw as [Hw1 Hw2].
  specialize (IH Hw2 (CstEntAttr.no_adj_etail _ _ Ha)). destruct (is_ecdata p) eqn:Ec.
  - destruct p as [[bs|hex ds|e|bs]|n]; try discriminate. cbn [esegs map]. constructor; [|exact IH].
    cbn [ueseg_wf CstFullS9.wf_uepiece9 wf_utpiece andb] in *. apply andb_true_iff in Hw1. destruct Hw1 as [H1 H2]. split.
    + exists bs. split; [reflexivity|apply uchars_of; exact H1].
    + rewrite n3_utf8. apply negb_true_iff. exact H2.
  - rewrite esegs_cons_plain by exact Ec.
    pose proof (esegs_flat ps) as Hflat.
    destruct (esegs ps) as [|[l|b0] t] eqn:Es; cbn [map] in IH |- *.
    + constructor; [|constructor]. apply Hss; [discriminate|cbn [forallb]; rewrite Hw1; reflexivity|cbn [forallb]; rewrite Ec; reflexivity|reflexivity].
    + apply Forall_cons_iff in IH. destruct IH as [(Hne & Hok & Hadj & _) IHt].
      constructor; [|exact IHt].
      cbn [flat_map seg_pieces] in Hflat.
      assert (Hl : exists rest, ps = l ++ rest) by (eexists; symmetry; exact Hflat). destruct Hl as [rest ->].
      rewrite forallb_app in Hw2. apply andb_true_iff in Hw2. destruct Hw2 as [Hwl _].
      assert (Hlne : l <> []) by (intros ->; apply Hne; reflexivity).
      apply Hss; [discriminate|cbn [forallb]; rewrite Hw1, Hwl; reflexivity| |].
      * cbn [forallb]. rewrite Ec. cbn [negb andb]. clear - Hok. unfold enc_epieces in Hok. rewrite Forall_map in Hok.
        induction Hok as [|q l Hq _ IHl]; [reflexivity|].
        cbn [forallb]. rewrite IHl, andb_true_r. destruct q as [[| | |bs]|]; try reflexivity. destruct Hq as [Hq _]. contradiction.
      * destruct l as [|q l']; [congruence|]. cbn [app] in Ha. rewrite eno_adj_cons2 in Ha |- *.
        apply andb_true_iff in Ha. destruct Ha as [Ha1 _]. rewrite Ha1. rewrite enc_no_adjacent_elit in Hadj. rewrite Hadj. reflexivity.
    + constructor; [|exact IH]. apply Hss; [discriminate|cbn [forallb]; rewrite Hw1; reflexivity|cbn [forallb]; rewrite Ec; reflexivity|reflexivity].
Qed.

Lemma eseg_ne s : ueseg_wf s -> (1 <= length (r_eseg s))%nat.
Proof.
  destruct s as [l|bs]; cbn [ueseg_wf r_eseg].
  - intros (Hne & Hok & _). destruct l as [|p l]; [congruence|]. apply Forall_cons_iff in Hok. destruct Hok as [Hp _].
    destruct (uep_piece_ne false p Hp) as (x & r & E). rewrite r_epieces_cons, E. cbn. lia.
  - intros _. rewrite !app_length. unfold T.cdata_open. cbn [length]. lia.
Qed.

Lemma esegs_len_le L : Forall ueseg_wf L -> (length L <= length (flat_map r_eseg L))%nat.
Proof.
  induction 1 as [|s L Hs _ IH]; [cbn; lia|]. cbn [flat_map length]. rewrite app_length. pose proof (eseg_ne s Hs). lia.
Qed.

Lemma HD_nil : forall l : list Scope.binding, NoDup l -> incl l [] -> N.of_nat (length l) <= 65535.
Proof. intros l _ H. destruct l as [|x l]; [cbn; lia|]. exfalso. apply (H x). left. reflexivity. Qed.

Lemma esegs_valid L : Forall ueseg_wf L -> U8.Valid (flat_map r_eseg L).
Proof. induction 1 as [|s L Hs _ IH]; [constructor|]. cbn [flat_map]. apply U8.Valid_app; [apply (eseg_valid [] HD_nil s Hs)|exact IH]. Qed.

(* ------------------------------------------------------------------------------------------ *)
(* declarations and the DOCTYPE                                                               *)
(* ------------------------------------------------------------------------------------------ *)
