(* Proofs/ErrShiftBuilder.v -- C14, part 4: the builder functions under the shift, with related
   errors. *)
From Coq Require Import Ascii String.
From Coq Require Import List Arith NArith Bool Lia ZifyBool ZifyN ZifyNat.
Import ListNotations.
From RX Require Import Generated.
From RX.Model Require Import Base CharClass Stream Tokenizer Doc Builder.
From RX.Proofs Require Import Tactics NoPanicUtf8 NoPanicStream BorrowLocal RangeBuilder
  RangeShiftBase RangeShiftStream RangeShiftTokenizer RangeShiftBuilder
  ErrShiftBase ErrShiftStream ErrShiftTokenizer.
Open Scope N_scope.

(* ---- computations that can only fail without a position ---- *)
Lemma nopos_bind {A B} (r : res A) (f : A -> res B) :
  nopos_res r -> (forall a, nopos_res (f a)) -> nopos_res (bind r f).
Proof. destruct r; cbn; auto. Qed.

Lemma np_node_id_new n : nopos_res (node_id_new n).
Proof. unfold node_id_new. destruct (_ <=? _); exact I. Qed.

Lemma np_short_range a e : nopos_res (short_range a e).
Proof. unfold short_range. destruct (_ || _); exact I. Qed.

Lemma np_ns_range_checked a e : nopos_res (ns_range_checked a e).
Proof. unfold ns_range_checked. destruct (_ <? _); [reflexivity|exact I]. Qed.

Lemma np_ns_range_slice d r : nopos_res (ns_range_slice d r).
Proof. unfold ns_range_slice. destruct r. destruct (_ || _); exact I. Qed.

Lemma np_ns_prefix_at text d i : nopos_res (ns_prefix_at text d i).
Proof. unfold ns_prefix_at. destruct (nth_N _ _); exact I. Qed.

Lemma np_tb_finish t : nopos_res (tb_finish t).
Proof. unfold tb_finish. cbv zeta. destruct (valid_utf8_b _); exact I. Qed.

Lemma np_any_prefix text d : forall idxs p, nopos_res (any_prefix text d idxs p).
Proof.
  induction idxs as [|i r IH]; intros p; cbn [any_prefix]; [exact I|].
  apply nopos_bind; [apply np_ns_prefix_at|]. intros a. destruct (opt_str_eqb _ _); [exact I|apply IH].
Qed.

Lemma np_ns_exists text d s p : nopos_res (ns_exists text d s p).
Proof. unfold ns_exists. destruct (_ <? _); [exact I|apply np_any_prefix]. Qed.

Lemma np_find_prefix_idx text d : forall idxs p, nopos_res (find_prefix_idx text d idxs p).
Proof.
  induction idxs as [|i r IH]; intros p; cbn [find_prefix_idx]; [exact I|].
  apply nopos_bind; [apply np_ns_prefix_at|]. intros a. destruct (opt_str_eqb _ _); [exact I|apply IH].
Qed.

Lemma np_attr_expanded_name text d i l : nopos_res (attr_expanded_name text d i l).
Proof. unfold attr_expanded_name. destruct i; [|exact I]. destruct (nth_N _ _); exact I. Qed.

Lemma np_any_same_name text d : forall l n, nopos_res (any_same_name text d l n).
Proof.
  induction l as [|a l IH]; intros n; cbn [any_same_name]; [exact I|].
  apply nopos_bind; [apply np_attr_expanded_name|]. intros x. destruct (_ && _); [exact I|apply IH].
Qed.

Lemma np_opt {A} (o : option A) p : nopos_res (match o with Some x => Ok x | None => Panic p end).
Proof. destruct o; exact I. Qed.

Ltac np :=
  first [ exact I | apply np_node_id_new | apply np_short_range | apply np_ns_range_checked
        | apply np_ns_range_slice | apply np_ns_prefix_at | apply np_tb_finish | apply np_any_prefix
        | apply np_ns_exists | apply np_find_prefix_idx | apply np_attr_expanded_name
        | apply np_any_same_name | apply np_opt ].

Section Shift.
Variable ws text : bytes.
Hypothesis Hvalid : valid_utf8_b text = true.
Hypothesis Hws : forallb byte_is_space ws = true.
Notation text2 := (ws ++ text).
Notation k := (blen ws).
Notation shs := (sh_s k).
Notation shl := (sh_sl k).
Notation shc := (sh_ctx k).
Notation shd := (sh_doc k).
Notation rsimE := (rsimE ws text).
Notation sh_refres := (RangeShiftStream.sh_refres ws).
Notation sh_chunk := (RangeShiftBuilder.sh_chunk ws).

Ltac cproj :=
  cbn [sh_ctx sh_doc c_opt c_ns_start_idx c_cur_attrs c_awaiting c_parent_prefixes c_entities c_after_text
       c_parent_id c_tag_name c_entity_floor c_ld c_doc
       set_doc set_ns_start_idx set_cur_attrs set_awaiting set_parent_prefixes set_entities
       set_after_text set_parent_id set_tag_name set_entity_floor set_ld
       d_nodes d_attrs d_ns_values d_ns_tree set_nodes set_attrs fst snd pmap] in *; unfold idf in *.

Ltac bsync1 :=
  rewrite ?len_N_map, ?nth_N_map, ?(slice_bytes_shift ws), ?slice_bytes_sl0, ?str_bytes_sh, ?storage_bytes_sh,
          ?cow_bytes_sh, ?find_ns_sh, ?find_entity_sh, ?(slice_len_shift ws), ?slice_len_tn,
          ?ns_name_bytes_sh,
          ?(at_end_sh ws), ?(starts_with_sh ws), ?(curr_byte_opt_sh ws), ?(skip_spaces_sh ws),
          ?s_rest_sh, ?s_pos_sh.
Ltac bsync := cproj; repeat (progress bsync1).

Ltac eat := apply (err_at_shE ws text Hvalid); pc.
Ltac efr := apply (err_from_shE ws text Hvalid); [pc|first [reflexivity|cbn [sh_rng fst snd]; lia]].
Ltac use L := solve [eapply L; try eassumption; try (intros; reflexivity)].

Lemma upd_node_sh_atE nodes i f1 f2 :
  (forall x, nth_error nodes (N.to_nat i) = Some x -> f2 (sh_node k x) = sh_node k (f1 x)) ->
  rsimE (map (sh_node k)) (upd_node nodes i f1) (upd_node (map (sh_node k) nodes) i f2).
Proof.
  intros Hf. unfold upd_node. rewrite (list_upd_map_at _ f1 f2) by exact Hf.
  destruct (list_upd nodes (N.to_nat i) f1); reflexivity.
Qed.

Lemma upd_node_shE nodes i f1 f2 :
  (forall x, f2 (sh_node k x) = sh_node k (f1 x)) ->
  rsimE (map (sh_node k)) (upd_node nodes i f1) (upd_node (map (sh_node k) nodes) i f2).
Proof. intros Hf. apply upd_node_sh_atE. intros x _. apply Hf. Qed.

Lemma set_next_subtree_all_shE : forall ids nodes v,
  rsimE (map (sh_node k)) (set_next_subtree_all nodes ids v)
        (set_next_subtree_all (map (sh_node k) nodes) ids v).
Proof.
  induction ids as [|i ids IH]; intros nodes v; cbn [set_next_subtree_all]; [reflexivity|].
  eapply rsimE_bind; [apply upd_node_shE; intros x; reflexivity|]. intros l _. apply IH.
Qed.

Lemma append_node_shE kind r c : non_root kind ->
  rsimE (pmap idf shc) (append_node kind r c) (append_node (sh_kind k kind) (sh_rng k r) (shc c)).
Proof.
  intros Hk. unfold append_node. cbv zeta. bsync.
  destruct (_ <=? _); [apply rsimE_same_err; reflexivity|].
  eapply rsimE_bind; [apply id_simE; np|]. intros id _. cbv beta.
  set (new1 := {| nd_parent := Some (c_parent_id c); nd_prev_sibling := None; nd_next_subtree := None;
                  nd_last_child := None; nd_kind := kind; nd_range := r |}).
  match goal with |- rsimE _ _ (bind (match nth_N (?l ++ [?n2]) _ with _ => _ end) _) =>
    replace (l ++ [n2]) with (map (sh_node k) (d_nodes (c_doc c) ++ [new1]))
  end.
  2:{ rewrite map_app. cbn [map]. unfold sh_node, new1. cbn. rewrite Hk. reflexivity. }
  rewrite nth_N_map.
  destruct (nth_N (d_nodes (c_doc c) ++ [new1]) (c_parent_id c)) as [pnd|]; cbn [option_map bind]; [|reflexivity].
  eapply rsimE_bind; [apply upd_node_shE; intros x; reflexivity|]. intros l1 _. cbv beta.
  eapply rsimE_bind; [apply upd_node_shE; intros x; reflexivity|]. intros l2 _. cbv beta.
  eapply rsimE_bind; [apply set_next_subtree_all_shE|]. intros l3 _. cbv beta.
  replace (is_element_kind (sh_kind k kind)) with (is_element_kind kind) by (destruct kind; reflexivity).
  reflexivity.
Qed.

(* ---- text ---- *)
Lemma append_text_shE t r c :
  rsimE shc (append_text t r c) (append_text (sh_cow k t) (sh_rng k r) (shc c)).
Proof.
  unfold append_text. bsync.
  eapply rsimE_bind with (f := shc).
  - destruct (c_after_text c); cbn [map]; [|reflexivity].
    eapply rsimE_bind.
    + replace (KText match sh_cow k t with CowBorrowed s => Borrowed (SIn s) | CowOwned bs => Owned bs end)
        with (sh_kind k (KText match t with CowBorrowed s => Borrowed (SIn s) | CowOwned bs => Owned bs end))
        by (destruct t; reflexivity).
      apply append_node_shE. reflexivity.
    + intros [id c1] _. reflexivity.
  - intros c1 _. cbv beta. apply rsimE_ret. unfold sh_ctx. cproj. rewrite map_app. reflexivity.
Qed.

Lemma merge_text_shE c : rsimE shc (merge_text text c) (merge_text text2 (shc c)).
Proof.
  unfold merge_text. cbv zeta. bsync. rewrite rev_map_hd.
  destruct (rev (d_nodes (c_doc c))) as [|nd l] eqn:Er; cbn [map]; [reflexivity|].
  cbn [sh_node nd_kind]. destruct (nd_kind nd) eqn:Ek; cbn [sh_kind]; try reflexivity.
  rewrite map_map.
  replace (map (fun x => cow_bytes text2 (sh_cow k x)) (c_after_text c)) with (map (cow_bytes text) (c_after_text c))
    by (apply map_ext; intros; symmetry; apply cow_bytes_sh).
  eapply rsimE_bind.
  - apply upd_node_sh_atE. intros x Hx. rewrite (rev_last_nth ws text _ _ _ Er) in Hx. injection Hx as <-.
    unfold sh_node, nd_set_kind. cbn. rewrite Ek. reflexivity.
  - intros nodes' _. reflexivity.
Qed.

Lemma reset_after_text_shE c : rsimE shc (reset_after_text text c) (reset_after_text text2 (shc c)).
Proof.
  unfold reset_after_text. bsync.
  destruct (c_after_text c) as [|x [|y l]]; cbn [map]; try reflexivity.
  eapply rsimE_bind; [apply merge_text_shE|]. intros c1 _. reflexivity.
Qed.

Lemma process_cdata_shE t r c :
  rsimE shc (process_cdata text t r c) (process_cdata text2 (shl t) (sh_rng k r) (shc c)).
Proof.
  unfold process_cdata. cbv zeta. bsync.
  destruct (mem_b 13 _).
  - apply (append_text_shE (CowOwned _)).
  - apply (append_text_shE (CowBorrowed t)).
Qed.

(* ---- namespaces ---- *)
Lemma push_ns_shE name uri d :
  rsimE shd (push_ns text name uri d) (push_ns text2 (option_map (sh_str k) name) (sh_sto k uri) (shd d)).
Proof.
  unfold push_ns. cbn [sh_doc d_ns_values d_nodes d_attrs d_ns_tree].
  replace (match option_map (sh_str k) name with Some s => Some (str_bytes text2 s) | None => None end)
    with (match name with Some s => Some (str_bytes text s) | None => None end)
    by (destruct name; cbn; [rewrite str_bytes_sh|]; reflexivity).
  rewrite storage_bytes_sh, find_ns_sh, len_N_map.
  destruct (find_ns _ _ _ _ _); [reflexivity|]. destruct (_ <? _); [apply rsimE_same_err; reflexivity|].
  apply rsimE_ret. unfold sh_doc. cbn. rewrite map_app. reflexivity.
Qed.

Lemma push_ref_shE i d : rsimE shd (push_ref i d) (push_ref i (shd d)).
Proof.
  unfold push_ref. cbn [sh_doc d_ns_tree]. destruct (nth_N _ _); reflexivity.
Qed.

Lemma get_ns_idx_by_prefix_shE nss pp prefix prefix' d :
  slice_bytes text2 prefix' = slice_bytes text prefix ->
  rsimE idf (get_ns_idx_by_prefix text nss pp prefix d) (get_ns_idx_by_prefix text2 nss (pp + k) prefix' (shd d)).
Proof.
  intros Hb. unfold get_ns_idx_by_prefix. cbv zeta. rewrite Hb.
  destruct (bytes_eqb _ _); [reflexivity|].
  change (ns_range_slice (shd d) nss) with (ns_range_slice d nss).
  eapply rsimE_bind; [apply id_simE; np|]. intros idxs _. unfold idf.
  rewrite find_prefix_idx_sh.
  eapply rsimE_bind; [apply id_simE; np|]. intros found _. unfold idf.
  destruct found; [reflexivity|]. destruct (slice_bytes text prefix); [reflexivity|].
  efr.
Qed.

Lemma resolve_ns_loop_shE start : forall is d,
  rsimE shd (resolve_ns_loop text start is d) (resolve_ns_loop text2 start is (shd d)).
Proof.
  induction is as [|i is IH]; intros d; cbn [resolve_ns_loop]; [reflexivity|].
  cbn [sh_doc d_ns_tree].
  eapply rsimE_bind; [apply id_simE; np|]. intros vidx _. unfold idf.
  change {| d_nodes := map (sh_node k) (d_nodes d); d_attrs := map (sh_attr k) (d_attrs d);
            d_ns_values := map (sh_ns k) (d_ns_values d); d_ns_tree := d_ns_tree d |} with (shd d).
  rewrite ns_prefix_at_sh.
  eapply rsimE_bind; [apply id_simE; np|]. intros name _. unfold idf. rewrite ns_exists_sh.
  eapply rsimE_bind; [apply id_simE; np|]. intros ex _. unfold idf.
  eapply rsimE_bind with (f := shd). { destruct ex; [reflexivity|apply push_ref_shE]. }
  intros d1 _. apply IH.
Qed.

Lemma resolve_namespaces_shE c :
  rsimE (pmap idf shc) (resolve_namespaces text c) (resolve_namespaces text2 (shc c)).
Proof.
  unfold resolve_namespaces. cbv zeta. bsync.
  destruct (nth_N (d_nodes (c_doc c)) (c_parent_id c)) as [pnd|]; cbn [option_map bind]; [|reflexivity].
  cbn [sh_node nd_kind]. destruct (nd_kind pnd) as [|ns local ar [pa pe]| | |]; cbn [sh_kind].
  all: try (eapply rsimE_bind; [apply id_simE; np|]; intros r _; reflexivity).
  destruct (_ =? _); [reflexivity|].
  eapply rsimE_bind; [apply (resolve_ns_loop_shE _ _ (c_doc c))|]. intros d1 _. cbv beta.
  cbn [sh_doc d_ns_tree].
  eapply rsimE_bind; [apply id_simE; np|]. intros r _. reflexivity.
Qed.

Lemma resolve_attrs_loop_shE nss start : forall l d,
  rsimE shd (resolve_attrs_loop text nss start l d)
        (resolve_attrs_loop text2 nss start (map (sh_tattr k) l) (shd d)).
Proof.
  induction l as [|a l IH]; intros d; cbn [map resolve_attrs_loop]; [reflexivity|].
  cbv zeta. cbn [sh_tattr ta_prefix ta_local ta_range ta_value ta_qname_len ta_eq_len].
  rewrite !(slice_bytes_shift ws).
  eapply rsimE_bind with (f := idf).
  { destruct (bytes_eqb _ _); [reflexivity|]. destruct (slice_bytes text (ta_prefix a)) eqn:Eb; [reflexivity|].
    apply get_ns_idx_by_prefix_shE. apply (slice_bytes_shift ws). }
  intros ns_idx _. unfold idf. rewrite attr_expanded_name_sh.
  eapply rsimE_bind; [apply id_simE; np|]. intros name _. unfold idf.
  cbn [sh_doc d_attrs]. rewrite skipn_map.
  change {| d_nodes := map (sh_node k) (d_nodes d); d_attrs := map (sh_attr k) (d_attrs d);
            d_ns_values := map (sh_ns k) (d_ns_values d); d_ns_tree := d_ns_tree d |} with (shd d).
  rewrite any_same_name_sh.
  eapply rsimE_bind; [apply id_simE; np|]. intros dup _. unfold idf.
  destruct dup; [efr|].
  match goal with |- rsimE _ _ (resolve_attrs_loop _ _ _ _ ?d2) =>
    replace d2 with (shd (set_attrs d (d_attrs d ++ [{| ad_ns_idx := ns_idx; ad_local := ta_local a;
                        ad_value := ta_value a; ad_range := ta_range a;
                        ad_qname_len := ta_qname_len a; ad_eq_len := ta_eq_len a |}])))
  end.
  - apply IH.
  - unfold sh_doc, set_attrs. cbn. rewrite map_app. reflexivity.
Qed.

Lemma resolve_attributes_shE nss c :
  rsimE (pmap idf shc) (resolve_attributes text nss c) (resolve_attributes text2 nss (shc c)).
Proof.
  unfold resolve_attributes. bsync.
  destruct (c_cur_attrs c) as [|a0 l0] eqn:Ec; cbn [map]; [reflexivity|].
  change (sh_tattr k a0 :: map (sh_tattr k) l0) with (map (sh_tattr k) (a0 :: l0)). rewrite len_N_map.
  destruct (_ <=? _); [apply rsimE_same_err; reflexivity|].
  eapply rsimE_bind; [apply (resolve_attrs_loop_shE nss _ (a0 :: l0) (c_doc c))|]. intros d1 _. cbv beta.
  cbn [sh_doc d_attrs]. rewrite len_N_map.
  eapply rsimE_bind; [apply id_simE; np|]. intros r _. reflexivity.
Qed.

(* ---- the loop detector ---- *)
Lemma inc_depth_shE s ld : rsimE idf (inc_depth text s ld) (inc_depth text2 (shs s) ld).
Proof. unfold inc_depth. destruct (_ <? _); [reflexivity|eat]. Qed.

Lemma inc_references_shE s ld : rsimE idf (inc_references text s ld) (inc_references text2 (shs s) ld).
Proof.
  unfold inc_references. destruct (_ =? 0); [reflexivity|].
  destruct (_ =? _); [eat|reflexivity].
Qed.

Lemma norm_loop_shE rec1 rec2 entities :
  (forall v t ld, rsimE idf (rec1 entities v t ld) (rec2 (map (sh_ent k) entities) (shl v) t ld)) ->
  forall fuel s t ld,
    rsimE idf (norm_loop text rec1 entities fuel s t ld)
          (norm_loop text2 rec2 (map (sh_ent k) entities) fuel (shs s) t ld).
Proof.
  intros Hrec. induction fuel as [|fu IH]; intros s t ld; cbn [norm_loop]; [reflexivity|].
  rewrite (at_end_sh ws). destruct (at_end s); [reflexivity|].
  eapply rsimE_bind; [use curr_byte_unchecked_simE|]. intros x _. unfold idf.
  destruct (negb (x =? 38)).
  - destruct (_ && _); [eat|].
    eapply rsimE_bind; [use advance_shE|]. intros s1 _. cbv beta. rewrite (curr_byte_opt_sh ws). apply IH.
  - cbv zeta.
    eapply rsimE_bind; [use consume_reference_shE|]. intros r _.
    destruct r as [[[name|ch] s1]|]; cbn [sh_refres option_map pmap sh_ref fst snd].
    + rewrite (slice_bytes_shift ws), find_entity_sh.
      destruct (find_entity text entities (slice_bytes text name)) as [e|]; cbn [option_map];
        [|efr].
      eapply rsimE_bind; [apply inc_references_shE; assumption|]. intros ld1 _. unfold idf.
      eapply rsimE_bind; [apply inc_depth_shE; assumption|]. intros ld2 _. unfold idf.
      eapply rsimE_bind; [apply (Hrec (en_value e))|]. intros [t1 ld3] _. unfold idf. apply IH.
    + destruct (push_char_bytes_attr _ _ _); [apply IH|efr].
    + efr.
Qed.

Lemma norm_attr_lvl_shE : forall lvl entities value t ld,
  rsimE idf (norm_attr_lvl text lvl entities value t ld)
        (norm_attr_lvl text2 lvl (map (sh_ent k) entities) (shl value) t ld).
Proof.
  induction lvl as [|lvl IH]; intros entities value t ld; [reflexivity|].
  rewrite !norm_attr_lvl_S. cbn [sh_sl sl_start sl_end].
  eapply rsimE_bind; [use stream_from_substr_shE|]. intros s0 _. cbv beta. rewrite s_rest_sh.
  apply norm_loop_shE. intros v t1 ld1. apply IH.
Qed.

Lemma normalize_attribute_shE value c :
  rsimE (pmap (sh_sto k) shc) (normalize_attribute text value c)
        (normalize_attribute text2 (shl value) (shc c)).
Proof.
  unfold normalize_attribute. cbv zeta. rewrite (slice_bytes_shift ws). cproj.
  destruct (existsb _ _); [|reflexivity].
  eapply rsimE_bind; [apply norm_attr_lvl_shE|]. intros [t ld] _. unfold idf.
  eapply rsimE_bind; [apply id_simE; np|]. intros bs _. reflexivity.
Qed.

Lemma process_attribute_shE r ql el prefix local value c :
  rsimE shc (process_attribute text r ql el prefix local value c)
        (process_attribute text2 (sh_rng k r) ql el (shl prefix) (shl local) (shl value) (shc c)).
Proof.
  unfold process_attribute.
  eapply rsimE_bind; [apply normalize_attribute_shE|]. intros [v c1] _. cbn [pmap fst snd]. cbv beta iota zeta.
  rewrite !(slice_bytes_shift ws), storage_bytes_sh. cproj. rewrite !ns_exists_sh.
  destruct (bytes_eqb (slice_bytes text prefix) xmlns_str).
  - destruct (bytes_eqb _ _); [efr|].
    destruct (bytes_eqb _ _); [efr|].
    destruct (_ && _); [efr|].
    destruct (_ && _); [efr|].
    eapply rsimE_bind; [apply id_simE; np|]. intros ex _. unfold idf.
    destruct ex; [efr|].
    destruct (negb _); [|reflexivity].
    eapply rsimE_bind; [apply (push_ns_shE (Some (SIn local)) v (c_doc c1))|]. intros d1 _. reflexivity.
  - rewrite ?(slice_len_shift ws).
    match goal with |- rsimE _ (if ?b then _ else _) _ => destruct b end.
    + destruct (bytes_eqb _ _); [efr|].
      destruct (bytes_eqb _ _); [efr|].
      eapply rsimE_bind; [apply id_simE; np|]. intros ex _. unfold idf.
      destruct ex; [efr|].
      eapply rsimE_bind; [apply (push_ns_shE None v (c_doc c1))|]. intros d1 _. reflexivity.
    + apply rsimE_ret. unfold sh_ctx. cproj. rewrite map_app. reflexivity.
Qed.

Lemma parse_next_chunk_shE s entities :
  rsimE (pmap sh_chunk shs) (parse_next_chunk text s entities)
        (parse_next_chunk text2 (shs s) (map (sh_ent k) entities)).
Proof.
  unfold parse_next_chunk. rewrite (at_end_sh ws). destruct (at_end s); [reflexivity|].
  eapply rsimE_bind; [use curr_byte_unchecked_simE|]. intros x _. unfold idf.
  destruct (x =? 38).
  - cbv zeta. eapply rsimE_bind; [use consume_reference_shE|]. intros r _.
    destruct r as [[[name|ch] s1]|]; cbn [sh_refres option_map pmap sh_ref fst snd].
    + rewrite (slice_bytes_shift ws), find_entity_sh.
      destruct (find_entity text entities (slice_bytes text name)); cbn [option_map];
        [reflexivity|efr].
    + reflexivity.
    + efr.
  - eapply rsimE_bind; [use advance_shE|]. intros s1 _. reflexivity.
Qed.

Lemma process_element_shE e r c :
  rsimE shc (process_element text e r c) (process_element text2 (sh_ee k e) (sh_rng k r) (shc c)).
Proof.
  unfold process_element. cproj. rewrite slice_len_tn.
  destruct (slice_len (tn_name (c_tag_name c)) =? 0) eqn:Etn.
  { destruct e; cbn [sh_ee]; first [reflexivity | efr]. }
  eapply rsimE_bind; [apply (resolve_namespaces_shE)|]. intros [nss c1] E1. cbn [pmap fst snd idf]. cbv beta iota.
  assert (T1 : c_tag_name c1 = c_tag_name c).
  { pose proof (resolve_namespaces_same text c _ E1) as (_ & _ & _ & T & _). exact T. }
  cbv zeta. cproj.
  change (set_ns_start_idx (shc c1) (len_N (d_ns_tree (c_doc c1))))
    with (shc (set_ns_start_idx c1 (len_N (d_ns_tree (c_doc c1))))).
  eapply rsimE_bind; [apply (resolve_attributes_shE)|]. intros [ar c3] E3.
  cbn [pmap fst snd idf]. cbv beta iota.
  assert (T3 : c_tag_name c3 = c_tag_name c).
  { apply resolve_attributes_tn in E3. cbn [set_ns_start_idx c_tag_name] in E3. congruence. }
  assert (Etn3 : (slice_len (tn_name (c_tag_name c3)) =? 0) = false) by (rewrite T3; exact Etn).
  cproj. rewrite (sh_tn_real ws _ Etn3). cbn [tn_prefix tn_name tn_pos tn_prefix_pos].
  destruct e as [|prefix local|]; cbn [sh_ee].
  - (* open *)
    eapply rsimE_bind; [apply (get_ns_idx_by_prefix_shE); apply slice_bytes_sl0|].
    intros idx _. unfold idf.
    eapply rsimE_bind.
    { apply (append_node_shE (KElement idx (tn_name (c_tag_name c3)) ar nss)
                            (tn_pos (c_tag_name c3), snd r) c3). reflexivity. }
    intros [id c4] _. cbn [pmap fst snd idf]. cbv beta iota.
    apply rsimE_ret. unfold sh_ctx. cproj. rewrite map_app. cbn [map]. reflexivity.
  - (* close *)
    rewrite len_N_map. destruct (_ <=? _); [efr|].
    rewrite nth_N_map.
    destruct (nth_N (d_nodes (c_doc c3)) (c_parent_id c3)) as [pnd|]; cbn [option_map bind]; [|reflexivity].
    rewrite rev_map_hd. destruct (rev (c_parent_prefixes c3)) as [|pp0 ppr]; cbn [map bind]; [reflexivity|].
    cbn [sh_rng snd].
    eapply rsimE_bind.
    { apply (upd_node_shE). intros x. apply sh_node_range_end. }
    intros nodes' _. cbv beta.
    eapply rsimE_bind with (f := idf).
    { cbn [sh_node nd_kind]. destruct (nd_kind pnd); cbn [sh_kind]; try reflexivity.
      rewrite slice_bytes_sl0, !(slice_bytes_shift ws).
      destruct (_ || _); [efr|reflexivity]. }
    intros _ _. cbn [sh_node nd_parent].
    destruct (nd_parent pnd); [|efr].
    cproj. rewrite removelast_map.
    destruct (removelast (c_parent_prefixes c3)) eqn:Erl; cbn [map]; [reflexivity|].
    apply rsimE_ret. unfold sh_ctx, sh_doc. cproj. rewrite ?removelast_map, ?Erl. reflexivity.
  - (* empty *)
    eapply rsimE_bind; [apply (get_ns_idx_by_prefix_shE); apply slice_bytes_sl0|].
    intros idx _. unfold idf.
    eapply rsimE_bind.
    { apply (append_node_shE (KElement idx (tn_name (c_tag_name c3)) ar nss)
                            (tn_pos (c_tag_name c3), snd r) c3). reflexivity. }
    intros [id c4] _. cbn [pmap fst snd idf]. cbv beta iota. reflexivity.
Qed.

End Shift.
