(* Proofs/CstSoundPInj.v -- C08 soundness WITH A PROLOG AND ENTITIES, first milestone: the items of
   stage S2 (values and runs are piece lists) as items of stage S3/S5 (entity pieces) that contain no
   reference &n;.  Rendering, well-formedness and denotation are preserved, whatever entities are
   declared: inlining leaves the pieces as they are, with an empty trace and no entity boundary. *)
From Coq Require Import String.
From Coq Require Import List Arith NArith Bool Lia ZifyBool ZifyN ZifyNat.
Import ListNotations.
From RX.Spec Require Cst Chars CstU CstNs CstText CstEnt Scope Detector.
From RX.Spec Require Import CstFull CstFullS5.
From RX.Proofs Require CstFullTree CstFullS5.
From RX.Proofs Require Import CstLex.
Open Scope N_scope.

Lemma forallb_map {A B} (f : A -> B) (g : B -> bool) l : forallb g (map f l) = forallb (fun x => g (f x)) l.
Proof. induction l as [|x l IH]; [reflexivity|]. cbn [map forallb]. rewrite IH. reflexivity. Qed.

Definition inj_ps (ps : list T.piece) : list E.epiece := map E.EP ps.
Definition inj_entry (e : entry pieces) : entry epieces :=
  match e with
  | EAttr l n v => @EAttr epieces l n (inj_ps v)
  | EDecl l p v => @EDecl epieces l p (inj_ps v)
  end.
Fixpoint inj_item (i : item pieces) : item epieces :=
  match i with
  | IElem n es w body =>
    IElem n (map inj_entry es) w
      (match body with
       | None => None
       | Some (cs, w2) =>
         Some ((fix go (l : list (item pieces)) : list (item epieces) :=
                  match l with [] => [] | c :: r => inj_item c :: go r end) cs, w2)
       end)
  | IText r => @IText epieces (inj_ps r)
  | IComment cs => @IComment epieces cs
  | IPI t s v => @IPI epieces t s v
  end.

Lemma inj_item_elem n es w body :
  inj_item (IElem n es w body) =
  IElem n (map inj_entry es) w (match body with None => None | Some (cs, w2) => Some (map inj_item cs, w2) end).
Proof.
  destruct body as [[cs w2]|]; reflexivity.
Qed.

Section Inj.
Variable tb : E.table.
Notation M3 := (ents_meaning tb).
Notation M2 := pieces_meaning.

(* ---- pieces ---- *)
Lemma enc_inj ps : enc_epieces (inj_ps ps) = map E.EP (enc_pieces ps).
Proof. unfold enc_epieces, inj_ps, enc_pieces. rewrite !map_map. reflexivity. Qed.

Lemma r_inj_ps ps : E.r_epieces (enc_epieces (inj_ps ps)) = T.r_pieces (enc_pieces ps).
Proof.
  rewrite enc_inj. unfold E.r_epieces, T.r_pieces. induction (enc_pieces ps) as [|q r IH]; [reflexivity|].
  cbn [map flat_map E.r_epiece]. rewrite IH. reflexivity.
Qed.

Lemma inline_inj for_attr : forall Q, E.inline_ps tb for_attr false (map E.EP Q) = Some (Q, []).
Proof.
  induction Q as [|p r IH]; [reflexivity|]. cbn [map E.inline_ps]. rewrite andb_false_r. cbn [andb]. rewrite IH. reflexivity.
Qed.

Lemma no_adj_inj : forall ps, E.no_adjacent_elit (inj_ps ps) = T.no_adjacent_lit ps.
Proof.
  induction ps as [|a r IH]; [reflexivity|]. destruct r as [|c r']; [reflexivity|].
  change (E.no_adjacent_elit (inj_ps (a :: c :: r'))) with
    (negb (E.is_elit (E.EP a) && E.is_elit (E.EP c)) && E.no_adjacent_elit (inj_ps (c :: r'))).
  change (T.no_adjacent_lit (a :: c :: r')) with (negb (T.is_lit a && T.is_lit c) && T.no_adjacent_lit (c :: r')).
  rewrite IH. reflexivity.
Qed.

(* no entity boundary: the line-end proviso holds *)
Lemma crlf_no_marks : forall Q, forallb (fun p => negb (E.is_mark p)) Q = true -> E.crlf_split_ok Q = true.
Proof.
  induction Q as [|p r IH]; [reflexivity|]. cbn [forallb]. intros H. apply andb_true_iff in H. destruct H as [Hp Hr].
  cbn [E.crlf_split_ok]. rewrite (IH Hr), andb_true_r. destruct (E.ends_cr p); [|reflexivity].
  destruct r as [|m r']; [reflexivity|]. cbn [forallb] in Hr. apply andb_true_iff in Hr. destruct Hr as [Hm _].
  apply negb_true_iff in Hm. rewrite Hm. reflexivity.
Qed.

Lemma enc_not_mark_v q ps : forallb (wf_uvpiece q) ps = true -> forallb (fun p => negb (E.is_mark p)) (enc_pieces ps) = true.
Proof.
  unfold enc_pieces. rewrite forallb_map. apply forallb_imp. intros p. destruct p as [cs| | |]; try reflexivity.
  cbn [wf_uvpiece enc_piece E.is_mark]. unfold wf_ulit. destruct cs as [|c cs]; [discriminate|]. intros _.
  rewrite CstULex.utf8s_cons. destruct (CstULex.utf8 c) as [|b0 t] eqn:E.
  - pose proof (CstULex.utf8_len c) as Hl. rewrite E in Hl. unfold Base.blen in Hl. cbn in Hl. lia.
  - reflexivity.
Qed.
Lemma enc_not_mark_t ps : forallb wf_utpiece ps = true -> forallb (fun p => negb (E.is_mark p)) (enc_pieces ps) = true.
Proof.
  unfold enc_pieces. rewrite forallb_map. apply forallb_imp. intros p. destruct p as [cs| | |]; try reflexivity.
  cbn [wf_utpiece enc_piece E.is_mark]. unfold wf_ulit. destruct cs as [|c cs]; [discriminate|]. intros _.
  rewrite CstULex.utf8s_cons. destruct (CstULex.utf8 c) as [|b0 t] eqn:E.
  - pose proof (CstULex.utf8_len c) as Hl. rewrite E in Hl. unfold Base.blen in Hl. cbn in Hl. lia.
  - reflexivity.
Qed.

Lemma wf_eval_inj q ps : wf_uvalue q ps = true -> wf_eval tb q (inj_ps ps) = true.
Proof.
  unfold wf_uvalue, wf_eval, wf_uepieces. intros H. apply andb_true_iff in H. destruct H as [H1 H2].
  rewrite no_adj_inj, H2, andb_true_r, enc_inj, inline_inj.
  assert (Hp : forallb (wf_uepiece q false false false) (inj_ps ps) = true).
  { unfold inj_ps. rewrite forallb_map. eapply forallb_imp; [|exact H1]. intros p Hp.
    destruct p; cbn [wf_uepiece wf_uvpiece] in *; try rewrite Hp; try reflexivity. discriminate. }
  rewrite Hp. cbn [andb]. rewrite (crlf_no_marks _ (enc_not_mark_v q ps H1)). reflexivity.
Qed.

Lemma wf_erun_inj ps : wf_utext ps = true -> wf_erun tb (inj_ps ps) = true.
Proof.
  unfold wf_utext, wf_erun, wf_uepieces. intros H. apply andb_true_iff in H. destruct H as [H H3].
  apply andb_true_iff in H. destruct H as [H1 H2].
  rewrite no_adj_inj, H3, andb_true_r, enc_inj, inline_inj.
  assert (Hne : match inj_ps ps with [] => false | _ => true end = true) by (destruct ps; [discriminate|reflexivity]).
  rewrite Hne. cbn [andb].
  assert (Hp : forallb (wf_uepiece 60 true true false) (inj_ps ps) = true).
  { unfold inj_ps. rewrite forallb_map. eapply forallb_imp; [|exact H2]. intros p Hp.
    destruct p as [cs|hex ds|pe|cs]; cbn [wf_uepiece wf_uvpiece wf_utpiece] in *; try rewrite Hp; try reflexivity.
    apply andb_true_iff in Hp. destruct Hp as [Hp _]. rewrite Hp. reflexivity. }
  rewrite Hp. cbn [andb]. rewrite (crlf_no_marks _ (enc_not_mark_t ps H2)). reflexivity.
Qed.

Lemma eval_sem_inj ps : eval_sem tb (inj_ps ps) = T.value_sem (enc_pieces ps).
Proof. unfold eval_sem. rewrite enc_inj, inline_inj. reflexivity. Qed.

Lemma erun_sem_inj ps : wf_utext ps = true -> erun_sem tb (inj_ps ps) = Some (T.text_sem (enc_pieces ps)).
Proof.
  intros H. unfold erun_sem. rewrite enc_inj, inline_inj. unfold wf_utext in H. apply andb_true_iff in H. destruct H as [H _].
  apply andb_true_iff in H. destruct H as [Hne Ht]. pose proof (enc_not_mark_t ps Ht) as Hm.
  destruct ps as [|p ps']; [discriminate|]. unfold enc_pieces in *. cbn [map forallb] in *.
  apply andb_true_iff in Hm. destruct Hm as [Hm _]. apply negb_true_iff in Hm. rewrite Hm. reflexivity.
Qed.

(* ---- entries and items ---- *)
Lemma r_inj_entry e : r_entry (inj_entry e) = r_entry e.
Proof.
  destruct e as [l n v|l p v]; unfold r_entry; cbn [inj_entry x_entry r_val epieces pieces]; rewrite r_inj_ps; reflexivity.
Qed.

Lemma r_inj_item : forall i, r_item (inj_item i) = r_item i.
Proof.
  intros i. induction i as [n a w|n a w cs w2 IH|r|bs|t s v] using CstFullTree.fitem_ind.
  - rewrite inj_item_elem, !CstFullTree.r_item_elem. do 3 f_equal.
    induction a as [|e a IHa]; [reflexivity|]. cbn [map flat_map]. rewrite r_inj_entry, IHa. reflexivity.
  - rewrite inj_item_elem, !CstFullTree.r_item_elem. f_equal. f_equal. f_equal.
    + induction a as [|e a IHa]; [reflexivity|]. cbn [map flat_map]. rewrite r_inj_entry, IHa. reflexivity.
    + f_equal. f_equal. f_equal. induction IH as [|c r Hc _ IHr]; [reflexivity|]. cbn [map CstFullTree.r_items]. rewrite Hc, IHr. reflexivity.
  - cbn [inj_item r_item r_run epieces pieces]. apply r_inj_ps.
  - reflexivity.
  - reflexivity.
Qed.

Lemma wf_inj_entry e : wf_entry M2 e = true -> wf_entry M3 (inj_entry e) = true.
Proof.
  destruct e as [l n v|l p v]; unfold wf_entry; cbn [inj_entry e_layout e_value wf_val ents_meaning pieces_meaning];
    intros H; apply andb_true_iff in H; destruct H as [H Hn]; apply andb_true_iff in H; destruct H as [Hl Hv];
    rewrite Hl, (wf_eval_inj _ _ Hv), Hn; reflexivity.
Qed.

Lemma den_inj_entries es : map (x_entry epieces (val_sem M3)) (map inj_entry es) = map (x_entry pieces (val_sem M2)) es.
Proof.
  rewrite map_map. apply map_ext. intros e. destruct e as [l n v|l p v]; cbn [inj_entry x_entry val_sem ents_meaning pieces_meaning];
    rewrite eval_sem_inj; reflexivity.
Qed.

Lemma no_adj_inj_items : forall cs, no_adjacent_text epieces (map inj_item cs) = no_adjacent_text pieces cs.
Proof.
  induction cs as [|a r IH]; [reflexivity|]. destruct r as [|c r']; [reflexivity|].
  change (no_adjacent_text epieces (map inj_item (a :: c :: r'))) with
    (negb (is_text epieces (inj_item a) && is_text epieces (inj_item c)) && no_adjacent_text epieces (map inj_item (c :: r'))).
  change (no_adjacent_text pieces (a :: c :: r')) with (negb (is_text pieces a && is_text pieces c) && no_adjacent_text pieces (c :: r')).
  rewrite IH. f_equal. destruct a, c; reflexivity.
Qed.

Lemma wf_den_inj_item : forall i, wf_item M2 i = true ->
  wf_item M3 (inj_item i) = true /\ den M3 (inj_item i) = den M2 i.
Proof.
  intros i. induction i as [n a w|n a w cs w2 IH|r|bs|t s v] using CstFullTree.fitem_ind; intros H.
  - rewrite inj_item_elem. rewrite CstFullTree.wf_item_elem in *. rewrite !CstFullTree.den_elem, den_inj_entries.
    split; [|reflexivity]. rewrite !andb_true_iff in H |- *. destruct H as [[[Hn Ha] Hw] _]. repeat split; try assumption.
    rewrite forallb_map. eapply forallb_imp; [|exact Ha]. intros e. apply wf_inj_entry.
  - rewrite inj_item_elem. rewrite CstFullTree.wf_item_elem in *. rewrite !CstFullTree.den_elem, den_inj_entries.
    rewrite !andb_true_iff in H. destruct H as [[[Hn Ha] Hw] [[Hw2 Hna] Hcs]].
    assert (CH : CstFullTree.wf_items epieces M3 (map inj_item cs) = true /\
                 CstFullTree.dens epieces M3 (map inj_item cs) = CstFullTree.dens pieces M2 cs).
    { clear - IH Hcs. induction IH as [|c r Hc _ IHr]; [split; reflexivity|]. cbn [CstFullTree.wf_items] in Hcs.
      apply andb_true_iff in Hcs. destruct Hcs as [H1 H2]. destruct (Hc H1) as [A B]. destruct (IHr H2) as [A' B'].
      cbn [map CstFullTree.wf_items CstFullTree.dens]. rewrite A, A', B, B'. split; reflexivity. }
    destruct CH as [CH1 CH2]. split; [|rewrite CH2; reflexivity].
    rewrite !andb_true_iff. repeat split; try assumption.
    + rewrite forallb_map. eapply forallb_imp; [|exact Ha]. intros e. apply wf_inj_entry.
    + rewrite no_adj_inj_items. exact Hna.
  - cbn [inj_item wf_item wf_run den run_sem ents_meaning pieces_meaning] in *. rewrite (wf_erun_inj _ H), (erun_sem_inj _ H). split; reflexivity.
  - split; [exact H|reflexivity].
  - split; [exact H|reflexivity].
Qed.

Lemma wf_s_inj_item i : wf_item M2 i = true -> @wf_item_s epieces M3 (inj_item i) = true.
Proof. intros H. apply CstFullS5.wf_item_s_of. apply (wf_den_inj_item i H). Qed.

End Inj.
