(* Proofs/CstFullDoc.v -- the capstone fragment (Spec/CstFull.v), the document frame without a DOCTYPE:
   parse_document on the rendering of a well-formed document (Proofs/CstNsDoc.v over Unicode, for
   the items of Proofs/CstFullItems.v).  The pieces (shape of the rendering, the misc loop) are
   stated separately so that the variant with a DOCTYPE can reuse them. *)
From Coq Require Import Ascii String.
From Coq Require Import List NArith PeanoNat Bool Lia ZifyBool ZifyN ZifyNat.
Import ListNotations.
From RX Require Import Generated.
From RX.Model Require Import Base CharClass Stream Tokenizer Doc Builder Parse.
From RX.Spec Require Cst Scope CstNs CstU.
From RX.Spec Require Import CstFull.
From RX.Proofs Require Import Tactics CstLex CstBuild CstNsLex CstNsView CstNsBuild CstULex CstFullLex CstFullBuild CstFullTree CstFullItems.
From RX.Proofs Require CstItems CstNsItems CstNsDoc CstUItems CstUDoc CstDoc.
Open Scope N_scope.

Section DocA.
Variable Sy : syntax.
Variable M : meaning Sy.
Variable run_steps : run Sy -> nat.
Hypothesis Hval_lex : forall q v, wf_val M q v = true -> q = 39 \/ q = 34 -> uval_ok q (r_val Sy v).
Hypothesis Hrun_valid : forall r, wf_run M r = true -> U8.Valid (r_run Sy r).

Notation item := (CstFull.item Sy).
Notation doc := (CstFull.doc Sy).
Notation dens := (CstFullTree.dens Sy M).
Notation fitem_valid := (CstFullItems.fitem_valid Sy M Hval_lex Hrun_valid).

Definition pairs := list (bytes * item).
Definition r_pairs (l : pairs) : bytes := flat_map (fun x => fst x ++ r_item (snd x)) l.
Definition wf_pairs (l : pairs) : bool :=
  forallb (fun x => Cst.wf_ws (fst x) && is_misc Sy (snd x) && wf_item M (snd x)) l.

(* a comment or a PI denotes one item, declares nothing, costs nothing *)
Lemma misc_den i : is_misc Sy i = true ->
  exists x, den M i = [x] /\ NT.nsize x = 1 /\ NT.nattrs x = O /\ CstNs.item_decls x = [] /\
            (forall inh, CstNs.ns_cost inh x = O) /\ (forall inh, ns_ok inh x = true) /\ CstNs.is_misc x = true.
Proof.
  destruct i as [n a w b0|r|bs|t s v]; try discriminate; intros _; eexists; (split; [reflexivity|]); repeat split.
Qed.

Lemma misc_starts i : is_misc Sy i = true -> exists l, r_item i = 60 :: l.
Proof. destruct i as [n a w b0|r|bs|t s v]; try discriminate; intros _; eexists; reflexivity. Qed.

Lemma pairs_valid l : wf_pairs l = true -> U8.Valid (r_pairs l).
Proof.
  induction l as [|[w i] r IH]; intros H; [constructor|]. cbn [wf_pairs forallb fst snd] in H.
  rewrite !andb_true_iff in H. destruct H as [[[H1 H2] H3] H4]. cbn [r_pairs flat_map fst snd].
  repeat apply U8.Valid_app; [apply Valid_lit; apply ws_lit; exact H1|apply fitem_valid; exact H3|apply IH; exact H4].
Qed.

Lemma pairs_len l : wf_pairs l = true -> (length l <= length (r_pairs l))%nat.
Proof.
  induction l as [|[w i] r IH]; intros H; [cbn; lia|]. cbn [wf_pairs forallb fst snd] in H.
  rewrite !andb_true_iff in H. destruct H as [[[H1 H2] H3] H4]. cbn [r_pairs flat_map fst snd length].
  rewrite !app_length. specialize (IH H4). unfold r_pairs in IH.
  destruct (misc_starts i H2) as [l0 El0]. rewrite El0. cbn [length]. clear - IH. lia.
Qed.

Lemma pairs_dens (l : pairs) : wf_pairs l = true ->
  NT.items_decls (dens (map snd l)) = [] /\ (forall inh, NT.ns_costs inh (dens (map snd l)) = O) /\
  NT.nattrs_items (dens (map snd l)) = O /\ NT.nsizes (dens (map snd l)) = N.of_nat (length l) /\
  (forall inh, CstFullTree.ns_oks inh (dens (map snd l)) = true).
Proof.
  induction l as [|[w i] r IH]; intros H; [repeat split|]. cbn [wf_pairs forallb fst snd] in H.
  rewrite !andb_true_iff in H. destruct H as [[[H1 H2] H3] H4]. destruct (IH H4) as (I1 & I2 & I3 & I4 & I5).
  destruct (misc_den i H2) as (x & Ex & M1 & M2 & M3 & M4 & M5 & _).
  cbn [map snd CstFullTree.dens]. rewrite Ex. cbn [app NT.items_decls NT.ns_costs NT.nattrs_items CstFullTree.ns_oks length].
  rewrite I1, I3, M2, M3, NT.nsizes_cons, I4, M1. repeat split; try reflexivity.
  - intros inh. rewrite I2, M4. reflexivity.
  - lia.
  - intros inh. rewrite I5, M5. reflexivity.
Qed.

(* ---- regrouping the prolog: (ws0, [(item, ws)]) as [(ws, item)] followed by a last ws ---- *)
Fixpoint regroup (w0 : bytes) (l : list (item * bytes)) : pairs :=
  match l with [] => [] | (i, w) :: r => (w0, i) :: regroup w r end.
Fixpoint last_ws (w0 : bytes) (l : list (item * bytes)) : bytes :=
  match l with [] => w0 | (i, w) :: r => last_ws w r end.

Lemma regroup_render : forall l w0,
  w0 ++ flat_map (fun p => r_item (fst p) ++ snd p) l = r_pairs (regroup w0 l) ++ last_ws w0 l.
Proof.
  induction l as [|[i w] r IH]; intros w0; cbn [flat_map regroup last_ws r_pairs app fst snd]; [apply app_nil_r|].
  fold (r_pairs (regroup w r)). rewrite <- !app_assoc. rewrite <- IH. reflexivity.
Qed.

Lemma regroup_wf : forall l w0, Cst.wf_ws w0 = true ->
  forallb (fun p => is_misc Sy (fst p) && wf_item M (fst p) && Cst.wf_ws (snd p)) l = true ->
  wf_pairs (regroup w0 l) = true /\ Cst.wf_ws (last_ws w0 l) = true.
Proof.
  induction l as [|[i w] r IH]; intros w0 H0 H; cbn [regroup last_ws wf_pairs forallb fst snd] in *; [auto|].
  rewrite !andb_true_iff in H. destruct H as [[[H1 H2] H3] H4].
  destruct (IH w H3 H4) as [I1 I2]. split; [|exact I2].
  rewrite H0, H1, H2. exact I1.
Qed.

Lemma regroup_items : forall l w0, map snd (regroup w0 l) = map fst l.
Proof. induction l as [|[i w] r IH]; intros w0; cbn [regroup map fst snd]; [reflexivity|]. rewrite IH. reflexivity. Qed.

Record doc_parts (c : doc) : Prop := {
  dp_ws0 : Cst.wf_ws (d_ws0 c) = true;
  dp_wsend : Cst.wf_ws (d_ws_end c) = true;
  dp_before : forallb (fun p => is_misc Sy (fst p) && wf_item M (fst p) && Cst.wf_ws (snd p)) (d_before c) = true;
  dp_root : exists name es ws body, d_root c = IElem name es ws body;
  dp_rootwf : wf_item M (d_root c) = true;
  dp_after : wf_pairs (d_after c) = true;
  dp_ns : CstFullTree.ns_oks [] (den M (d_root c)) = true
}.

Lemma wf_doc_parts c : wf_doc M c = true -> doc_parts c.
Proof.
  unfold wf_doc. rewrite !andb_true_iff. intros [[[[[H1 H2] H3] H4] H5] H6].
  constructor; try assumption.
  - destruct (d_root c); try discriminate. eauto.
  - destruct (d_root c); try discriminate. exact H4.
  - rewrite <- ns_oks_forallb. exact H6.
Qed.

Lemma render_shape c :
  render c =
  r_pairs (regroup (d_ws0 c) (d_before c)) ++ last_ws (d_ws0 c) (d_before c) ++
  r_item (d_root c) ++ r_pairs (d_after c) ++ d_ws_end c ++ [].
Proof. unfold render. rewrite app_nil_r. rewrite app_assoc, regroup_render, <- app_assoc. reflexivity. Qed.

Lemma doc_items_shape c :
  doc_items c = map snd (regroup (d_ws0 c) (d_before c)) ++ d_root c :: map snd (d_after c).
Proof. unfold doc_items. rewrite regroup_items. reflexivity. Qed.

Lemma dens_app l1 l2 : dens (l1 ++ l2) = dens l1 ++ dens l2.
Proof. induction l1 as [|c r IH]; [reflexivity|]. cbn [app CstFullTree.dens]. rewrite IH, app_assoc. reflexivity. Qed.

Lemma dens_flat l : flat_map (den M) l = dens l.
Proof. induction l as [|c r IH]; [reflexivity|]. cbn [flat_map CstFullTree.dens]. rewrite IH. reflexivity. Qed.

Lemma sem_dens c : sem M c = NT.sem_items [] (dens (doc_items c)).
Proof.
  unfold sem. rewrite dens_flat. induction (dens (doc_items c)) as [|x r IH]; [reflexivity|].
  cbn [flat_map NT.sem_items]. rewrite IH. reflexivity.
Qed.

Lemma render_valid c : wf_doc M c = true -> U8.Valid (render c).
Proof.
  intros H. apply wf_doc_parts in H. destruct H as [H1 H2 H3 H4 H5 H6 _].
  destruct (regroup_wf _ _ H1 H3) as [R1 R2].
  rewrite render_shape. repeat apply U8.Valid_app.
  - apply pairs_valid; exact R1.
  - apply Valid_lit, ws_lit; exact R2.
  - apply fitem_valid; exact H5.
  - apply pairs_valid; exact H6.
  - apply Valid_lit, ws_lit; exact H2.
  - constructor.
Qed.

(* ---- no BOM, no XML declaration ---- *)
Lemma root_starts name es ws body : wf_qname name = true ->
  exists n l, r_item (@IElem Sy name es ws body) = 60 :: n :: l /\ byte_is_space n = false /\ n <> 33 /\ n <> 63.
Proof.
  intros Hn. rewrite r_item_elem.
  destruct (uq_head _ (uq_of _ Hn)) as (b0 & r & E & Hs & _ & _ & H33 & H63 & _). unfold r_qname. rewrite E.
  eexists. eexists. split; [reflexivity|]. auto.
Qed.

Lemma root_name name es ws body : wf_item M (@IElem Sy name es ws body) = true -> wf_qname name = true.
Proof. rewrite wf_item_elem, !andb_true_iff. tauto. Qed.

Lemma head_render c : wf_doc M c = true ->
  CstDoc.decl_test (render c) = false /\ prefix_b [239; 187; 191] (render c) = false.
Proof.
  intros H. apply wf_doc_parts in H. destruct H as [H1 H2 H3 (name & es & ws & body & Er) H5 H6 _].
  destruct (regroup_wf _ _ H1 H3) as [R1 R2]. rewrite render_shape.
  rewrite Er in H5. pose proof (root_name _ _ _ _ H5) as Hn.
  destruct (root_starts name es ws body Hn) as (n & l & El & _ & _ & H63).
  destruct (regroup (d_ws0 c) (d_before c)) as [|[w i] B].
  - cbn [r_pairs flat_map app]. destruct (last_ws (d_ws0 c) (d_before c)) as [|x wl].
    + cbn [app]. rewrite Er, El. cbn [app]. split; [apply CstDoc.decl_lt; exact H63|apply CstUDoc.bom_false_lt; lia].
    + cbn [app]. destruct (CstUDoc.ws_head _ _ R2). split; [apply CstDoc.decl_ws; assumption|apply CstUDoc.bom_false_lt; assumption].
  - cbn [wf_pairs forallb fst snd] in R1. rewrite !andb_true_iff in R1. destruct R1 as [[[W1 M1] I1] _].
    cbn [r_pairs flat_map fst snd]. rewrite <- !app_assoc. destruct w as [|x w].
    + cbn [app]. destruct i as [? ? ? ?|?|bs|t s v]; try discriminate.
      * cbn [r_item Cst.r_item app]. split; [apply CstDoc.decl_lt; clear; lia|apply CstUDoc.bom_false_lt; clear; lia].
      * cbn [r_item Cst.r_item]. rewrite <- !app_assoc. split; [apply CstUDoc.decl_pi_u; apply CstUItems.uwf_pi; exact I1|].
        cbn [app]. apply CstUDoc.bom_false_lt. clear. lia.
    + cbn [app]. destruct (CstUDoc.ws_head _ _ W1). split; [apply CstDoc.decl_ws; assumption|apply CstUDoc.bom_false_lt; assumption].
Qed.

End DocA.

Arguments r_pairs {Sy}. Arguments regroup {Sy}. Arguments last_ws {Sy}.

Section DocB.
Variable Sy : syntax.
Variable M : meaning Sy.
Variable run_steps : run Sy -> nat.
Hypothesis Hval_lex : forall q v, wf_val M q v = true -> q = 39 \/ q = 34 -> uval_ok q (r_val Sy v).
Hypothesis Hrun_valid : forall r, wf_run M r = true -> U8.Valid (r_run Sy r).
Hypothesis Hrun_steps : forall r, wf_run M r = true -> (1 <= run_steps r <= length (r_run Sy r))%nat.
Variable text : bytes.
Variable D : list Scope.binding.
Hypothesis HD : forall l, NoDup l -> incl l D -> N.of_nat (length l) <= 65535.
Variable es0 : list entity.
Hypothesis Hval_norm : forall q v p more, wf_val M q v = true -> q = 39 \/ q = 34 ->
  CstULex.WV text p (r_val Sy v ++ [q] ++ more) ->
  exists stor, norm_ok text es0 (sl p (p + blen (r_val Sy v))) stor /\ storage_bytes text stor = val_sem M v.
Hypothesis Hrun : forall r, PIf Sy M run_steps text D es0 (IText r).

Notation item := (CstFull.item Sy).
Notation doc := (CstFull.doc Sy).
Notation dens := (CstFullTree.dens Sy M).
Notation ev := (tok_ev text).
Notation st := (CstLex.st text).
Notation W := (CstLex.W text).
Notation WV := (CstULex.WV text).
Notation CIn := (CstNsBuild.CIn text D).
Notation NC := (CstFullBuild.NC es0).
Notation kmn := (CstNsBuild.kmn text).
Notation node_room := CstNsItems.node_room.
Notation attr_room := CstNsItems.attr_room.
Notation ns_room := CstNsItems.ns_room.
Notation pairs := (pairs Sy).
Notation wf_pairs := (wf_pairs Sy M).
Notation fitem_valid := (CstFullItems.fitem_valid Sy M Hval_lex Hrun_valid).
Notation evf_comment := (CstFullItems.evf_comment Sy M Hval_lex text D HD es0 Hval_norm).
Notation evf_pi := (CstFullItems.evf_pi Sy M Hval_lex text D HD es0 Hval_norm).
Notation root_ok_f := (CstFullItems.root_ok_f Sy M run_steps Hval_lex Hrun_valid Hrun_steps text D HD es0 Hval_norm Hrun).
Notation kmn_Forall2_ext := (CstFullItems.kmn_Forall2_ext text D HD).

Lemma misc_loop_ok_f : forall (l : pairs) p wl rest c fuel,
  WV p (r_pairs l ++ wl ++ rest) -> wf_pairs l = true -> Cst.wf_ws wl = true -> CstDoc.misc_stop rest ->
  (length l < fuel)%nat -> CIn [] c -> c_after_text c = [] -> node_room c (NT.nsizes (dens (map snd l))) ->
  exists c' K,
    parse_misc_loop text context ev fuel (st p (r_pairs l ++ wl ++ rest)) c =
    Ok (st (p + blen (r_pairs l) + blen wl) rest, c') /\
    Stepn c c' K [] /\ CIn [] c' /\ c_after_text c' = [] /\ d_ns_tree (c_doc c') = d_ns_tree (c_doc c) /\
    Forall2 (kmn (c_doc c')) K (NT.tag_list [] (c_parent_id c) (len_N (d_nodes (c_doc c))) (dens (map snd l))).
Proof.
  induction l as [|[w i] l IH]; intros p wl rest c fuel HW Hwf Hwl (Hs1 & Hs2 & Hs3) Hf I Hat NR.
  - cbn [r_pairs flat_map app map CstFullTree.dens NT.tag_list] in *. change (blen []) with 0. rewrite N.add_0_r.
    destruct fuel as [|fu]; [cbn in Hf; lia|]. cbn [parse_misc_loop].
    exists c, []. split; [|split; [apply Stepn_refl|split; [exact I|split; [exact Hat|split; [reflexivity|constructor]]]]].
    pose proof (WV_W _ _ _ HW) as HW0. rewrite at_end_st by exact HW0.
    destruct (wl ++ rest) as [|x0 l0] eqn:E0.
    + apply app_eq_nil in E0. destruct E0 as [-> ->]. change (blen []) with 0. rewrite N.add_0_r. reflexivity.
    + rewrite <- E0 in *. clear E0 x0 l0. cbv zeta.
      rewrite skip_spaces_st; [|exact HW0|apply ws_spaces; exact Hwl|exact Hs1].
      pose proof (W_app _ _ _ _ HW0) as HW1.
      rewrite !starts_with_st by exact HW1.
      change (b "<!--") with [60; 33; 45; 45]. change (b "<?") with [60; 63]. rewrite Hs2, Hs3. reflexivity.
  - cbn [CstFullDoc.wf_pairs forallb fst snd] in Hwf. rewrite !andb_true_iff in Hwf. destruct Hwf as [[[H1 H2] H3] H4].
    cbn [r_pairs flat_map fst snd map CstFullTree.dens] in HW, NR |- *. fold (@r_pairs Sy l) in HW |- *.
    rewrite <- !app_assoc in HW |- *.
    rewrite nsizes_app in NR.
    cbn [length] in Hf. destruct fuel as [|fu]; [lia|]. cbn [parse_misc_loop].
    pose proof (WV_W _ _ _ HW) as HW0. rewrite at_end_st by exact HW0.
    destruct (misc_starts Sy i H2) as [l0 El0].
    replace (match w ++ r_item i ++ r_pairs l ++ wl ++ rest with [] => true | _ :: _ => false end) with false
      by (rewrite El0; destruct w; reflexivity).
    cbv zeta.
    rewrite skip_spaces_st; [|exact HW0|apply ws_spaces; exact H1|rewrite El0; reflexivity].
    pose proof (WV_lit _ _ _ _ HW (ws_lit _ H1)) as HW1. pose proof (WV_W _ _ _ HW1) as HW1'.
    pose proof (fitem_valid i H3) as Hvi.
    pose proof (WV_app _ _ _ _ HW1 Hvi) as HW2.
    destruct i as [? ? ? ?|?|bs|t s v]; try discriminate.
    + (* comment *)
      assert (R : room c).
      { apply (node_room_room _ _ NR). cbn [den]. rewrite nsizes_one. pose proof (NT.nsize_pos (CstNs.IComment (utf8s bs))). lia. }
      rewrite starts_with_st by exact HW1'. change (b "<!--") with [60; 33; 45; 45].
      replace (prefix_b [60; 33; 45; 45] (r_item (@IComment Sy bs) ++ r_pairs l ++ wl ++ rest)) with true
        by (cbn [r_item Cst.r_item]; rewrite <- !app_assoc; rewrite prefix_b_app_same; reflexivity).
      destruct (evf_comment [] bs (p + blen w) (r_pairs l ++ wl ++ rest) c H3 HW1 I R)
        as (c1 & K1 & E1 & S1 & I1 & A1 & _ & F1 & Tr1).
      rewrite E1. cbn [bind].
      pose proof (Stepn_nodes_len _ _ _ _ S1) as Ln1.
      rewrite (Forall2_len_N _ _ _ F1) in Ln1. unfold len_N at 3 in Ln1. rewrite NT.tag_list_len in Ln1.
      pose proof (Stepn_opt _ _ _ _ (proj1 S1)) as Lo1.
      destruct (IH _ wl rest c1 fu HW2 H4 Hwl (conj Hs1 (conj Hs2 Hs3)) ltac:(clia) I1 A1)
        as (c2 & K2 & E2 & S2 & I2 & A2 & Tr2 & F2).
      { unfold CstNsItems.node_room in *. rewrite Ln1, Lo1. clia. }
      rewrite E2. exists c2, (K1 ++ K2). split.
      { f_equal. f_equal. f_equal. rewrite !blen_app. clia. }
      split; [apply (Stepn_trans _ _ _ _ _ _ _ S1 S2)|]. split; [exact I2|]. split; [exact A2|].
      split; [rewrite Tr2, Tr1; reflexivity|].
      rewrite CstNsDoc.tag_list_app. apply Forall2_app.
      * apply (kmn_Forall2_ext (c_doc c1)); [apply (Step0n_DocExt _ _ _ _ (proj1 S2))|exact F1].
      * destruct S1 as (_ & P1 & _). rewrite P1, Ln1 in F2. exact F2.
    + (* processing instruction *)
      assert (R : room c).
      { apply (node_room_room _ _ NR). cbn [den]. rewrite nsizes_one. pose proof (NT.nsize_pos (CstNs.IPI (utf8s t) s (utf8s v))). lia. }
      rewrite !starts_with_st by exact HW1'. change (b "<!--") with [60; 33; 45; 45]. change (b "<?") with [60; 63].
      replace (prefix_b [60; 33; 45; 45] (r_item (@IPI Sy t s v) ++ r_pairs l ++ wl ++ rest)) with false
        by reflexivity.
      replace (prefix_b [60; 63] (r_item (@IPI Sy t s v) ++ r_pairs l ++ wl ++ rest)) with true
        by reflexivity.
      destruct (evf_pi [] t s v (p + blen w) (r_pairs l ++ wl ++ rest) c H3 HW1 I R)
        as (c1 & K1 & E1 & S1 & I1 & A1 & _ & F1 & Tr1).
      rewrite E1. cbn [bind].
      pose proof (Stepn_nodes_len _ _ _ _ S1) as Ln1.
      rewrite (Forall2_len_N _ _ _ F1) in Ln1. unfold len_N at 3 in Ln1. rewrite NT.tag_list_len in Ln1.
      pose proof (Stepn_opt _ _ _ _ (proj1 S1)) as Lo1.
      destruct (IH _ wl rest c1 fu HW2 H4 Hwl (conj Hs1 (conj Hs2 Hs3)) ltac:(clia) I1 A1)
        as (c2 & K2 & E2 & S2 & I2 & A2 & Tr2 & F2).
      { unfold CstNsItems.node_room in *. rewrite Ln1, Lo1. clia. }
      rewrite E2. exists c2, (K1 ++ K2). split.
      { f_equal. f_equal. f_equal. rewrite !blen_app. clia. }
      split; [apply (Stepn_trans _ _ _ _ _ _ _ S1 S2)|]. split; [exact I2|]. split; [exact A2|].
      split; [rewrite Tr2, Tr1; reflexivity|].
      rewrite CstNsDoc.tag_list_app. apply Forall2_app.
      * apply (kmn_Forall2_ext (c_doc c1)); [apply (Step0n_DocExt _ _ _ _ (proj1 S2))|exact F1].
      * destruct S1 as (_ & P1 & _). rewrite P1, Ln1 in F2. exact F2.
Qed.


Lemma items_decls_flat l : NT.items_decls l = flat_map CstNs.item_decls l.
Proof. induction l as [|x r IH]; [reflexivity|]. cbn [NT.items_decls flat_map]. rewrite IH. reflexivity. Qed.

Lemma ns_costs_sum inh l : NT.ns_costs inh l = list_sum (map (CstNs.ns_cost inh) l).
Proof. induction l as [|x r IH]; [reflexivity|]. cbn [NT.ns_costs map list_sum]. rewrite IH. reflexivity. Qed.

Lemma parse_document_ok_f (c : doc) (dtd : bool) (c0 : context) :
  wf_doc M c = true -> text = render c -> incl (doc_decls M c) D ->
  CIn [] c0 -> NC c0 -> c_after_text c0 = [] ->
  node_room c0 (NT.nsizes (dens (doc_items c))) -> attr_room c0 (NT.nattrs_items (den M (d_root c))) ->
  ns_room c0 (ns_cost M c) ->
  exists cf K ext,
    parse_document text context (tok_ev text) dtd c0 = Ok cf /\
    Stepn c0 cf K ext /\ CIn [] cf /\
    Forall2 (kmn (c_doc cf)) K
            (NT.tag_list [] (c_parent_id c0) (len_N (d_nodes (c_doc c0))) (dens (doc_items c))).
Proof.
  intros Hwf Etext0 HinD I0 HC0 A0 NR AR SR.
  unfold doc_decls in HinD. rewrite <- items_decls_flat in HinD. unfold ns_cost in SR. rewrite <- ns_costs_sum in SR.
  pose proof (render_valid Sy M Hval_lex Hrun_valid c Hwf) as Hvalid. rewrite <- Etext0 in Hvalid.
  pose proof (head_render Sy M Hval_lex c Hwf) as [Hdecl Hbom]. rewrite <- Etext0 in Hdecl, Hbom.
  pose proof (wf_doc_parts Sy M c Hwf) as [H1 H2 H3 (name & es & ws & body & Er) H5 H6 H7].
  clear Hwf.
  destruct (regroup_wf Sy M _ _ H1 H3) as [R1 R2].
  assert (Etext : text = r_pairs (regroup (d_ws0 c) (d_before c)) ++ last_ws (d_ws0 c) (d_before c) ++
                         r_item (d_root c) ++ r_pairs (d_after c) ++ d_ws_end c ++ [])
    by (rewrite Etext0; apply render_shape).
  rewrite (doc_items_shape Sy) in *. rewrite Er in *. clear Er H1 H3.
  set (B := regroup (d_ws0 c) (d_before c)) in *.
  set (wB := last_ws (d_ws0 c) (d_before c)) in *.
  set (A := d_after c) in *. set (wE := d_ws_end c) in *.
  set (root := IElem name es ws body) in *.
  rewrite (dens_app Sy M) in NR |- *. cbn [CstFullTree.dens] in NR |- *. rewrite !nsizes_app in NR.
  destruct (pairs_dens Sy M B R1) as (_ & _ & _ & _ & _).
  pose proof (WV_new text Hvalid) as HW0.
  pose proof (root_name Sy M _ _ _ _ H5) as Hn.
  destruct (root_starts Sy name es ws body Hn) as (n & l & El & Hnsp & H33 & H63). fold root in El.
  clear Hn.
  remember (r_item root ++ r_pairs A ++ wE ++ []) as rest eqn:Erest.
  assert (Hstop : CstDoc.misc_stop rest).
  { rewrite Erest, El. cbn [app]. split; [reflexivity|]. cbn [prefix_b].
    replace (33 =? n) with false by clia. replace (63 =? n) with false by clia. split; reflexivity. }
  assert (Hdt : prefix_b [60; 33; 68; 79; 67; 84; 89; 80; 69] rest = false).
  { rewrite Erest, El. cbn [app prefix_b]. replace (33 =? n) with false by clia. rewrite andb_false_r. reflexivity. }
  assert (Hcb : forall p, CstLex.W text p rest ->
            match curr_byte_opt (CstLex.st text p rest) with Some x => x =? 60 | None => false end = true).
  { intros p HWp. rewrite Erest, El in *. cbn [app] in *. rewrite curr_byte_opt_st by exact HWp. reflexivity. }
  clear El.
  unfold parse_document. rewrite st_new.
  rewrite starts_with_st by exact (WV_W _ _ _ HW0). rewrite Hbom. cbn [bind].
  unfold starts_with_declaration. rewrite starts_with_st, avail_st by exact (WV_W _ _ _ HW0).
  change (b "<?xml") with [60; 63; 120; 109; 108]. fold (CstDoc.decl_test text). rewrite Hdecl. cbn [bind].
  (* prolog *)
  unfold parse_misc. cbn [CstLex.st s_rest].
  fold (CstLex.st text 0 text).
  assert (HW0' : WV 0 (r_pairs B ++ wB ++ rest)) by (rewrite <- Etext; exact HW0).
  replace (CstLex.st text 0 text) with (CstLex.st text 0 (r_pairs B ++ wB ++ rest))
    by (rewrite <- Etext; reflexivity).
  assert (Elen : length text = length (r_pairs B ++ wB ++ rest)) by (rewrite <- Etext; reflexivity).
  destruct (misc_loop_ok_f B 0 wB rest c0 (S (length text)) HW0' R1 R2 Hstop)
    as (c1 & K1 & E1 & S1 & I1 & A1 & Tr1 & F1).
  { pose proof (pairs_len Sy M B R1). rewrite Elen, app_length. clia. }
  { exact I0. } { exact A0. } { unfold CstNsItems.node_room in *. clia. }
  rewrite E1. cbn [bind]. clear E1.
  pose proof (WV_app _ _ _ _ HW0' (pairs_valid Sy M Hval_lex Hrun_valid B R1)) as HWa.
  pose proof (WV_lit _ _ _ _ HWa (ws_lit _ R2)) as HW1v. pose proof (WV_W _ _ _ HW1v) as HW1.
  set (p1 := 0 + blen (r_pairs B) + blen wB) in *.
  rewrite (CstDoc.skip_spaces_none text) by (try exact HW1; apply Hstop).
  rewrite starts_with_st by exact HW1. change (b "<!DOCTYPE") with [60; 33; 68; 79; 67; 84; 89; 80; 69].
  rewrite Hdt.
  cbn [bind]. rewrite (CstDoc.skip_spaces_none text) by (try exact HW1; apply Hstop).
  rewrite (Hcb p1 HW1).
  (* root *)
  pose proof (Stepn_nodes_len _ _ _ _ S1) as Ln1.
  rewrite (Forall2_len_N _ _ _ F1) in Ln1. unfold len_N at 3 in Ln1. rewrite NT.tag_list_len in Ln1.
  pose proof (Stepn_opt _ _ _ _ (proj1 S1)) as Lo1.
  pose proof (Stepn_attrs_len _ _ _ _ (proj1 S1)) as La1. change (len_N []) with 0 in La1.
  rewrite Erest in HW1v |- *.
  destruct (root_ok_f [] name es ws body p1 (r_pairs A ++ wE ++ []) c1 H5 H7 HinD HW1v I1)
    as (c2 & K2 & e2 & E2 & S2 & I2 & A2 & _ & F2 & L2 & Tr2).
  { apply (Stepn_NC _ _ _ _ _ S1 HC0). }
  { exact A1. }
  { unfold CstNsItems.node_room in *. rewrite Ln1, Lo1. fold root. clia. }
  { unfold CstNsItems.attr_room in *. rewrite La1. fold root. clia. }
  { unfold CstNsItems.ns_room in *. rewrite Tr1. fold root. exact SR. }
  fold root in E2, S2, A2, F2, L2, Tr2, HW1v.
  rewrite E2. cbn [bind]. clear E2.
  pose proof (WV_app _ _ _ _ HW1v (fitem_valid _ H5)) as HW2. fold root in HW2.
  set (p2 := p1 + blen (r_item root)) in *.
  pose proof (Stepn_nodes_len _ _ _ _ S2) as Ln2.
  rewrite (Forall2_len_N _ _ _ F2) in Ln2. unfold len_N at 3 in Ln2. rewrite NT.tag_list_len in Ln2.
  pose proof (Stepn_opt _ _ _ _ (proj1 S2)) as Lo2.
  (* epilog *)
  unfold parse_misc. cbn [CstLex.st s_rest]. fold (CstLex.st text p2 (r_pairs A ++ wE ++ [])).
  destruct (misc_loop_ok_f A p2 wE [] c2
              (S (length (r_pairs A ++ wE ++ []))) HW2 H6 H2)
    as (c3 & K3 & E3 & S3 & I3 & A3 & Tr3 & F3).
  { split; [exact Logic.I|split; reflexivity]. }
  { pose proof (pairs_len Sy M A H6). rewrite app_length. clia. }
  { exact I2. } { exact A2. }
  { unfold CstNsItems.node_room in *. rewrite Ln2, Lo2, Ln1, Lo1, <- !N.add_assoc. exact NR. }
  rewrite E3. cbn [bind]. clear E3.
  pose proof (WV_W _ _ _ HW2) as HW2'.
  pose proof (W_app _ _ _ _ HW2') as HWb. pose proof (W_app _ _ _ _ HWb) as HW3.
  rewrite at_end_st by exact HW3. cbn [negb].
  exists c3, (K1 ++ K2 ++ K3), ([] ++ e2 ++ []). split; [reflexivity|].
  split; [apply (Stepn_trans _ _ _ _ _ _ _ S1 (Stepn_trans _ _ _ _ _ _ _ S2 S3))|]. split; [exact I3|].
  rewrite !CstNsDoc.tag_list_app.
  destruct S1 as (S1 & P1 & _). destruct S2 as (S2 & P2 & _). destruct S3 as (S3 & _ & _).
  apply Forall2_app; [|apply Forall2_app].
  - apply (kmn_Forall2_ext (c_doc c1)); [|exact F1].
    eapply DocExt_trans; [apply (Step0n_DocExt _ _ _ _ S2)|apply (Step0n_DocExt _ _ _ _ S3)].
  - apply (kmn_Forall2_ext (c_doc c2)); [apply (Step0n_DocExt _ _ _ _ S3)|].
    rewrite P1, Ln1 in F2. exact F2.
  - rewrite P2, P1, Ln2, Ln1 in F3. exact F3.
Qed.

End DocB.

Print Assumptions parse_document_ok_f.
