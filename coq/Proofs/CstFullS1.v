(* Proofs/CstFullS1.v -- the capstone fragment, stage S1 (Spec/CstFull.v, [plain]: Spec/CstNs.v over Unicode):
   what the stage supplies to the frame (Proofs/CstFullItems.v) and the whole-document theorem
   [parse_render_sem_full_s1], with [layout_insensitive_full_s1]. *)
From Coq Require Import Ascii String.
From Coq Require Import List NArith PeanoNat Bool Lia ZifyBool ZifyN ZifyNat.
Import ListNotations.
From RX Require Import Generated.
From RX.Model Require Import Base CharClass Stream Tokenizer Doc Builder Parse.
From RX.Spec Require Cst Scope CstNs CstU.
From RX.Spec Require Import CstFull.
From RX.Proofs Require Import Tactics CstLex CstBuild CstNsLex CstNsView CstNsBuild CstULex CstFullLex CstFullBuild CstFullTree CstFullItems CstFullDoc CstFullMain.
From RX.Proofs Require CstItems CstNsItems CstUItems CstTextItems.
Open Scope N_scope.

(* ------------------------------------------------------------------------------------------ *)
(* a text token leaves one pending fragment: the next token resets it                         *)
(* ------------------------------------------------------------------------------------------ *)
Section Reset.
Variable text : bytes.
Variable D : list Scope.binding.
Notation CIn := (CstNsBuild.CIn text D).
Notation loop := (parse_content_loop text context (tok_ev text)).

Lemma CIn_reset inh c : CIn inh c -> CIn inh (set_after_text c []).
Proof. intros [H1 H2 H3 H4 H5 H6 H7 H8 H9 H10]. constructor; try assumption. cbn. lia. Qed.

Lemma Stepn_reset c c' K ext : Stepn c c' K ext -> Stepn c (set_after_text c' []) K ext.
Proof. intros [[A1 A2 A3 A4 A5] [B1 B2]]. split; [constructor; assumption|split; assumption]. Qed.

Lemma loop_after_text inh c p post fuel depth : CIn inh c -> CstTextItems.text_follow post -> CstLex.W text p post ->
  loop fuel depth (CstLex.st text p post) c = loop fuel depth (CstLex.st text p post) (set_after_text c []).
Proof.
  intros I Hf HW. apply (CstTextItems.loop_reset_eq text c (set_after_text c []) p post); try assumption; [|reflexivity].
  apply reset_after_text_ok. apply (cn_at _ _ _ _ I).
Qed.
End Reset.

(* ------------------------------------------------------------------------------------------ *)
(* what S1 supplies                                                                           *)
(* ------------------------------------------------------------------------------------------ *)
Definition steps1 (r : run plain) : nat := 1.

Lemma s1_val_lex : forall q v, wf_val plain_meaning q v = true -> q = 39 \/ q = 34 -> uval_ok q (r_val plain v).
Proof.
  intros q v Hv Hq. cbn [wf_val plain_meaning plain_wf_val r_val plain] in *. unfold plain_wf_val in Hv.
  destruct (uattr_value_facts q v Hv Hq) as (H1 & H2 & _). exists v. split; [reflexivity|]. split; [exact H2|exact H1].
Qed.

Lemma s1_val_norm : forall text q v p more, wf_val plain_meaning q v = true -> q = 39 \/ q = 34 ->
  CstULex.WV text p (r_val plain v ++ [q] ++ more) ->
  exists stor, norm_ok text [] (sl p (p + blen (r_val plain v))) stor /\ storage_bytes text stor = val_sem plain_meaning v.
Proof.
  intros text q v p more Hv Hq HW. cbn [wf_val plain_meaning r_val plain val_sem] in *. unfold plain_wf_val in Hv.
  destruct (uattr_value_facts q v Hv Hq) as (_ & _ & H3).
  pose proof (W_slice _ _ _ _ (WV_W _ _ _ HW)) as Hs.
  exists (Borrowed (SIn (sl p (p + blen (utf8s v))))). split; [|exact Hs].
  intros c _. unfold normalize_attribute. cbv zeta. rewrite Hs, H3. reflexivity.
Qed.

Lemma s1_run_valid : forall r, wf_run plain_meaning r = true -> U8.Valid (r_run plain r).
Proof. intros r H. apply (CstUItems.uitem_valid (Cst.IText r) H). Qed.

Lemma s1_run_steps : forall r, wf_run plain_meaning r = true -> (1 <= steps1 r <= length (r_run plain r))%nat.
Proof.
  intros r H. destruct (CstUItems.uwf_text _ H) as (_ & Hne & _). unfold steps1. cbn [r_run plain].
  pose proof (utf8s_len_le r). destruct r; [congruence|]. cbn [length] in *. lia.
Qed.

Lemma s1_run text D (HD : forall l, NoDup l -> incl l D -> N.of_nat (length l) <= 65535) :
  forall r, PIf plain plain_meaning steps1 text D [] (IText r).
Proof.
  intros bs inh p post c depth fuel Hwf _ _ HW Hfol I HC Hat NR _ _.
  cbn [wf_item wf_run plain_meaning plain_wf_run] in Hwf. destruct (CstUItems.uwf_text _ Hwf) as (Hok & Hne & Hex).
  specialize (Hfol eq_refl). cbn [r_item r_run plain steps steps1 den run_sem plain_meaning] in *.
  assert (Hhd : exists x r, utf8s bs = x :: r /\ x <> 60).
  { destruct bs as [|c0 r0]; [congruence|]. destruct Hok as [Hok _]. cbn [forallb] in Hok.
    apply andb_true_iff in Hok. destruct Hok as [Hc0 _]. rewrite !andb_true_iff in Hc0.
    rewrite utf8s_cons. destruct (head_byte_ne c0 60 (utf8s r0) ltac:(lia)) as (b0 & t & Eb & Hb); [lia|]. eauto. }
  destruct Hhd as (x & r & Ex & Hx).
  pose proof (WV_W _ _ _ HW) as HW0.
  assert (El : parse_content_loop text context (tok_ev text) (S fuel) depth (CstLex.st text p (utf8s bs ++ post)) c =
               let! (s, c) := parse_text text context (tok_ev text) (CstLex.st text p (utf8s bs ++ post)) c in
               parse_content_loop text context (tok_ev text) fuel depth s c).
  { revert HW0. rewrite Ex. cbn [app]. intros HW0. apply (CstItems.loop_text text); assumption. }
  unfold steps1. cbn [Nat.add]. rewrite El. clear El.
  rewrite lex_text_u by (try assumption; apply (CstTextItems.text_follow_stop _ Hfol)).
  destruct (tokn_text text D HD inh (sl p (p + blen (utf8s bs))) (p, p + blen (utf8s bs)) c I)
    as (c' & E & S & I' & T & Tr).
  { apply (node_room_room _ _ NR). rewrite nsizes_one. apply NT.nsize_pos. }
  { exact Hat. }
  { rewrite (W_slice _ _ _ _ HW0). exact Hex. }
  rewrite E. cbn [bind].
  exists (set_after_text c' []), [(Some (c_parent_id c), KText (Borrowed (SIn (sl p (p + blen (utf8s bs))))))], [].
  split.
  { apply (loop_after_text text D inh c' _ post fuel depth I' Hfol). apply (W_app _ _ _ _ HW0). }
  split; [apply Stepn_reset; exact S|]. split; [apply CIn_reset; exact I'|]. split; [reflexivity|].
  split; [apply same_tn; exact T|]. split; [discriminate|]. split; [|split; [reflexivity|]].
  - cbn [NT.tag_list NT.tag app]. constructor; [|constructor]. split; [reflexivity|]. cbn [snd storage_bytes str_bytes].
    apply (W_slice _ _ _ _ HW0).
  - cbn [set_after_text c_doc]. rewrite Tr. cbn. lia.
Qed.

(* ------------------------------------------------------------------------------------------ *)
(* the theorems                                                                               *)
(* ------------------------------------------------------------------------------------------ *)
Theorem parse_render_sem_full_s1 : forall (c : S1.doc) (opt : options),
  S1.wf_doc c = true ->
  N.of_nat (length (S1.sem c)) < nodes_limit opt ->               (* room for all nodes + the Root *)
  N.of_nat (length (S1.render c)) <= u32_max ->                    (* the input is at most u32::MAX bytes long *)
  S1.distinct_decls_le c (N.to_nat 65535) ->                       (* at most 65535 distinct declared bindings *)
  1 + N.of_nat (S1.ns_cost c) <= u32_max ->                        (* the namespace table fits *)
  exists d, parse (S1.render c) opt = Ok d /\ view (S1.render c) d = Some (S1.sem c).
Proof.
  apply (parse_render_sem_frame plain plain_meaning steps1 s1_val_lex s1_run_valid s1_run_steps s1_val_norm s1_run).
Qed.
Print Assumptions parse_render_sem_full_s1.

Theorem layout_insensitive_full_s1 : forall (c1 c2 : S1.doc) opt,
  S1.wf_doc c1 = true -> S1.wf_doc c2 = true -> S1.sem c1 = S1.sem c2 ->
  N.of_nat (length (S1.sem c1)) < nodes_limit opt ->
  N.of_nat (length (S1.render c1)) <= u32_max -> N.of_nat (length (S1.render c2)) <= u32_max ->
  S1.distinct_decls_le c1 (N.to_nat 65535) -> S1.distinct_decls_le c2 (N.to_nat 65535) ->
  1 + N.of_nat (S1.ns_cost c1) <= u32_max -> 1 + N.of_nat (S1.ns_cost c2) <= u32_max ->
  exists d1 d2, parse (S1.render c1) opt = Ok d1 /\ parse (S1.render c2) opt = Ok d2 /\
                view (S1.render c1) d1 = view (S1.render c2) d2.
Proof.
  intros c1 c2 opt W1 W2 E L S1 S2 D1 D2 C1 C2.
  destruct (parse_render_sem_full_s1 c1 opt W1 L S1 D1 C1) as (d1 & P1 & V1).
  destruct (parse_render_sem_full_s1 c2 opt W2 ltac:(rewrite <- E; exact L) S2 D2 C2) as (d2 & P2 & V2).
  exists d1, d2. split; [exact P1|]. split; [exact P2|]. rewrite V1, V2, E. reflexivity.
Qed.
Print Assumptions layout_insensitive_full_s1.

Theorem render_valid_utf8_s1 : forall c : S1.doc, S1.wf_doc c = true -> valid_utf8_b (S1.render c) = true.
Proof. intros c H. apply U8.valid_iff_Valid. apply (render_valid plain plain_meaning s1_val_lex s1_run_valid c H). Qed.
Print Assumptions render_valid_utf8_s1.

(* ------------------------------------------------------------------------------------------ *)
(* the theorem is not vacuous: a concrete Unicode document satisfies every hypothesis          *)
(* ------------------------------------------------------------------------------------------ *)
Module Example1.
Definition lay ws w1 w2 q := {| CstNs.l_ws := b ws; CstNs.l_ws1 := b w1; CstNs.l_ws2 := b w2; CstNs.l_quote := q |}.
Definition qn (p l : scalars) : qname := {| q_prefix := p; q_local := l |}.
Definition at_ p l v : entry plain := EAttr (lay " " "" "" 34) (qn p l) v.
Definition dc p u : entry plain := EDecl (lay " " " " "" 39) p u.
Definition el p l es cs : item plain := IElem (qn p l) es [] (Some (cs, [])).
Definition em p l es : item plain := IElem (qn p l) es (b " ") None.
Definition tx (r : scalars) : item plain := @IText plain r.
(* U+540D as a prefix, U+00E9 as a local name, Unicode URIs and values, a redeclaration, xml:lang *)
Definition ex : S1.doc :=
  {| d_before := [(IComment [21517; 45; 21069], [10])]; d_ws0 := [];
     d_root := el [] [233] [dc [] (b "urn:" ++ [21517]); at_ [] [21517] [228; 32; 1114111]; dc [21517] (b "urn:" ++ [233]);
                            at_ [21517] [21517] [65536]; at_ (b "xml") (b "lang") (b "ja")]
       [ tx [65533; 133; 93; 93];
         el [21517] [65536; 120] [dc [21517] (b "urn:" ++ [21069]); at_ [21517] [21069] (b "v")] [em [] (b "g") []; tx [97; 128512]];
         em [] (b "c3") [dc [] []] ];
     d_after := [([32], IPI (b "pi") [] [])]; d_ws_end := [10] |}.

Example ex_parses : exists d, parse (S1.render ex) default_options = Ok d /\ view (S1.render ex) d = Some (S1.sem ex).
Proof.
  apply parse_render_sem_full_s1.
  - vm_compute. reflexivity.
  - vm_compute. reflexivity.
  - vm_compute. intros H. discriminate H.
  - apply distinct_by_count. remember (length (doc_decls plain_meaning ex)) as n eqn:En. vm_compute in En. subst n. lia.
  - vm_compute. intros H. discriminate H.
Qed.
End Example1.
Print Assumptions Example1.ex_parses.
