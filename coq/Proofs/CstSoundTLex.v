(* Proofs/CstSoundTLex.v -- C08 soundness on the fragment of Spec/CstText.v, lexical half: inversion
   of the tokenizer functions (CstSoundLex.v with '&' and CDATA allowed: text tokens and attribute
   values are returned RAW, their pieces come from the builder; CDATA tokens are new).  "If the function returns Ok on the stream at
   position p whose remaining input is l, then l = <pieces> ++ l' with the pieces in the classes of
   Spec/Cst.v, the callback was called on exactly this token, and the stream is now at l'."
   Generic in the callback.  Streams are the canonical [st p l] / [W p l] of CstLex.v. *)
From Coq Require Import String.
From Coq Require Import List Arith NArith Bool Lia ZifyBool ZifyN ZifyNat.
Import ListNotations.
From RX Require Import Generated.
From RX.Model Require Import Base CharClass Stream Tokenizer.
From RX.Spec Require Cst.
From RX.Proofs Require Import Tactics CstLex.
From RX.Proofs Require RejectProofs.
From RX.Proofs Require Import CstSound CstSoundT.
Open Scope N_scope.

Ltac ib H x Hx := apply bind_ok in H; destruct H as (x & Hx & H).
Ltac noerr :=
  exfalso;
  match goal with
  | H : err_at _ _ _ = Ok _ |- _ => exact (RejectProofs.err_at_ok _ _ _ _ H)
  | H : err_from _ _ _ = Ok _ |- _ => exact (RejectProofs.err_from_ok _ _ _ _ H)
  | H : Err _ = Ok _ |- _ => discriminate H
  | H : Panic _ = Ok _ |- _ => discriminate H
  | H : OutOfFuel = Ok _ |- _ => discriminate H
  end.

(* ------------------------------------------------------------------------------------------ *)
(* the fragment, as facts about the text and its suffixes                                       *)

Record FragT (text : bytes) : Prop := {
  fr_plain : Forall (fun x => Cst.is_plain x = true) text;
  fr_colon : Forall (fun x => x <> 58) text;
  fr_doctype : contains_b [60; 33; 68] text = false;
  fr_decl : contains_b [60; 63; 120; 109; 108] text = false;
  fr_xmlns : contains_b [120; 109; 108; 110; 115] text = false;
  fr_refs : charrefs_scalar text = true
}.

Lemma mem_b_Forall q : forall l, mem_b q l = false -> Forall (fun x => x <> q) l.
Proof.
  induction l as [|x l IH]; cbn [mem_b]; intros H; [constructor|].
  apply orb_false_iff in H. destruct H as [H1 H2]. constructor; [lia|auto].
Qed.

Lemma in_fragment_t_FragT text : in_fragment_t text = true -> FragT text.
Proof.
  unfold in_fragment_t. intros H. repeat (apply andb_true_iff in H; destruct H as [H ?]).
  repeat match goal with X : negb _ = true |- _ => apply negb_true_iff in X end.
  constructor; try assumption.
  - apply Forall_forall. rewrite forallb_forall in H. exact H.
  - apply mem_b_Forall; assumption.
Qed.

Lemma contains_skipn needle : forall n l, contains_b needle l = false -> needle <> [] ->
  contains_b needle (skipn n l) = false.
Proof.
  induction n as [|n IH]; intros l H Hn; [exact H|].
  destruct l as [|x l]; [exact H|]. cbn [skipn]. apply IH; [|exact Hn].
  cbn [contains_b] in H. apply orb_false_iff in H. tauto.
Qed.

Lemma contains_prefix needle l : contains_b needle l = false -> needle <> [] -> prefix_b needle l = false.
Proof.
  intros H Hn. destruct l as [|x l].
  - destruct needle; [congruence|reflexivity].
  - cbn [contains_b] in H. apply orb_false_iff in H. tauto.
Qed.

Lemma prefix_b_split : forall p l, prefix_b p l = true -> exists r, l = p ++ r.
Proof.
  induction p as [|a p IH]; intros l H; [exists l; reflexivity|].
  destruct l as [|c l]; [discriminate|]. cbn [prefix_b] in H. apply andb_true_iff in H.
  destruct H as [H1 H2]. destruct (IH _ H2) as [r ->]. exists r. assert (a = c) by lia. subst. reflexivity.
Qed.

Lemma span_split (f : N -> bool) : forall l, exists x l', l = x ++ l' /\ forallb f x = true /\ stops f l'.
Proof.
  induction l as [|c l IH]; [exists [], []; repeat split|].
  destruct (f c) eqn:E.
  - destruct IH as (x & l' & -> & Hx & Hl). exists (c :: x), l'. cbn [forallb app]. rewrite E. auto.
  - exists [], (c :: l). repeat split. exact E.
Qed.

Section Lex.
Variable text : bytes.
Hypothesis HF : FragT text.

Lemma Hascii : Forall (fun x => x < 128) text.
Proof.
  eapply Forall_impl; [|exact (fr_plain _ HF)]. cbv beta. intros x H. destruct (plain_char _ H). assumption.
Qed.

Notation st := (st text).
Notation W := (W text).

(* facts about a suffix of the text *)
Record Suf (l : bytes) : Prop := {
  su_plain : forallb Cst.is_plain l = true;
  su_colon : Forall (fun x => x <> 58) l
}.

Lemma W_Suf p l : W p l -> Suf l.
Proof.
  intros [H _]. rewrite <- H. constructor.
  - apply forallb_forall. intros x Hx. pose proof (Forall_skipn _ (N.to_nat p) _ (fr_plain _ HF)) as F.
    rewrite Forall_forall in F. exact (F x Hx).
  - apply Forall_skipn. exact (fr_colon _ HF).
Qed.

Lemma W_noprefix p l needle : W p l -> contains_b needle text = false -> needle <> [] -> prefix_b needle l = false.
Proof. intros [H _] Hc Hn. rewrite <- H. apply contains_prefix; [|exact Hn]. apply contains_skipn; assumption. Qed.

Lemma Suf_app_l x l : Suf (x ++ l) -> forallb Cst.is_plain x = true.
Proof. intros [H _]. rewrite forallb_app in H. apply andb_true_iff in H. tauto. Qed.

Lemma plain_firstn p x l : W p (x ++ l) -> forallb Cst.is_plain x = true.
Proof. intros H. eapply Suf_app_l. eapply W_Suf. exact H. Qed.

Lemma space_ws x : Cst.is_plain x = true -> byte_is_space x = true -> Cst.is_ws x = true.
Proof. cls. lia. Qed.

Lemma spaces_ws w : forallb Cst.is_plain w = true -> forallb byte_is_space w = true -> Cst.wf_ws w = true.
Proof.
  unfold Cst.wf_ws. induction w as [|x w IH]; cbn [forallb]; [reflexivity|].
  intros H1 H2. apply andb_true_iff in H1. apply andb_true_iff in H2.
  destruct H1 as [A1 A2], H2 as [B1 B2]. rewrite (space_ws _ A1 B1), IH by assumption. reflexivity.
Qed.

Lemma byte_name_char x : x < 128 -> x <> 58 -> byte_is_name x = true -> Cst.is_name_char x = true.
Proof. cls. lia. Qed.
Lemma byte_name_start x : x < 128 -> x <> 58 -> byte_is_name_start x = true -> Cst.is_name_start x = true.
Proof. cls. lia. Qed.

(* ---- primitives ---- *)

Lemma skip_bytes_inv f p l : W p l ->
  exists x l', l = x ++ l' /\ forallb f x = true /\ stops f l' /\ skip_bytes f (st p l) = st (p + blen x) l'.
Proof.
  intros HW. destruct (span_split f l) as (x & l' & -> & Hx & Hl). exists x, l'.
  repeat split; auto. apply (skip_bytes_st text); assumption.
Qed.

Lemma skip_spaces_inv p l : W p l ->
  exists w l', l = w ++ l' /\ Cst.wf_ws w = true /\ stops byte_is_space l' /\
               skip_spaces (st p l) = st (p + blen w) l' /\ W (p + blen w) l'.
Proof.
  intros HW. destruct (skip_bytes_inv byte_is_space p l HW) as (w & l' & -> & Hw & Hl & E).
  exists w, l'. split; [reflexivity|].
  split; [apply spaces_ws; [eapply plain_firstn; exact HW|exact Hw]|].
  split; [exact Hl|]. split; [exact E|]. apply (W_app text); exact HW.
Qed.

Lemma starts_with_space_st p l : W p l ->
  starts_with_space (st p l) = match l with x :: _ => byte_is_space x | [] => false end.
Proof.
  intros HW. unfold starts_with_space, curr_byte_opt. rewrite (at_end_st text) by exact HW.
  destruct l; reflexivity.
Qed.

Lemma consume_spaces_inv p l s' : W p l -> consume_spaces text (st p l) = Ok s' ->
  exists w l', l = w ++ l' /\ w <> [] /\ Cst.wf_ws w = true /\ stops byte_is_space l' /\
               s' = st (p + blen w) l' /\ W (p + blen w) l'.
Proof.
  intros HW H. unfold consume_spaces in H. rewrite (at_end_st text) in H by exact HW.
  destruct l as [|x l0]; [noerr|]. rewrite starts_with_space_st in H by exact HW.
  destruct (byte_is_space x) eqn:Ex; cbn [negb] in H.
  2:{ ib H y Hy. noerr. }
  inversion H; subst. clear H.
  destruct (skip_spaces_inv p (x :: l0) HW) as (w & l' & E & Hw & Hst & E1 & HW1).
  exists w, l'. split; [exact E|]. split.
  { intros ->. cbn [app] in E. subst l'. cbn [stops] in Hst. congruence. }
  split; [exact Hw|]. split; [exact Hst|]. split; [exact E1|exact HW1].
Qed.

Lemma advance_inv n p l s' : W p l -> advance n (st p l) = Ok s' ->
  exists x l', l = x ++ l' /\ blen x = n /\ s' = st (p + n) l' /\ W (p + n) l'.
Proof.
  intros HW H. unfold advance in H. cbn [CstLex.st s_pos s_end s_rest] in H.
  destruct (tlen text <? p + n) eqn:E; [discriminate|]. inversion H; subst. clear H.
  destruct HW as [H1 H2].
  exists (firstn (N.to_nat n) l), (skipn (N.to_nat n) l).
  assert (Hl : blen (firstn (N.to_nat n) l) = n).
  { unfold blen in *. rewrite firstn_length_le; lia. }
  split; [symmetry; apply firstn_skipn|]. split; [exact Hl|]. split; [reflexivity|].
  rewrite <- Hl at 1. apply (W_app text). rewrite firstn_skipn. split; assumption.
Qed.

Lemma advance1_inv p l s' : W p l -> advance 1 (st p l) = Ok s' ->
  exists x l', l = x :: l' /\ s' = st (p + 1) l' /\ W (p + 1) l'.
Proof.
  intros HW H. destruct (advance_inv _ _ _ _ HW H) as (x & l' & -> & Hx & -> & HW').
  destruct x as [|a [|b0 x]]; unfold blen in Hx; cbn [length] in Hx; try lia.
  exists a, l'. auto.
Qed.

Lemma curr_byte_inv p l x : W p l -> curr_byte (st p l) = Ok x -> exists l', l = x :: l'.
Proof.
  intros HW H. unfold curr_byte in H. rewrite (at_end_st text) in H by exact HW.
  destruct l as [|y l']; [discriminate|]. cbn in H. inversion H; subst. eauto.
Qed.

Lemma consume_byte_inv c p l s' : W p l -> consume_byte text c (st p l) = Ok s' ->
  exists l', l = c :: l' /\ s' = st (p + 1) l' /\ W (p + 1) l'.
Proof.
  intros HW H. unfold consume_byte in H. ib H x Hx.
  destruct (curr_byte_inv _ _ _ HW Hx) as (l' & ->).
  destruct (x =? c) eqn:E; cbn [negb] in H; [|noerr]. assert (x = c) by lia. subst x.
  rewrite (advance1_st text) in H by exact HW. inversion H; subst.
  exists l'. split; [reflexivity|]. split; [reflexivity|]. apply (W_cons text) in HW. exact HW.
Qed.

Lemma skip_string_inv lit p l s' : W p l -> skip_string text lit (st p l) = Ok s' ->
  exists l', l = lit ++ l' /\ s' = st (p + blen lit) l' /\ W (p + blen lit) l'.
Proof.
  intros HW H. unfold skip_string in H. rewrite (starts_with_st text) in H by exact HW.
  destruct (prefix_b lit l) eqn:E; cbn [negb] in H; [|noerr].
  destruct (prefix_b_split _ _ E) as (l' & ->).
  rewrite (advance_st text) in H by (auto; exact HW). inversion H; subst.
  exists l'. split; [reflexivity|]. split; [reflexivity|]. apply (W_app text). exact HW.
Qed.

Lemma mk_slice_sl a e s0 : mk_slice text a e = Ok s0 -> s0 = sl a e.
Proof. apply RejectProofs.mk_slice_ok. Qed.

(* ---- chars ---- *)
Lemma skip_chars_loop_inv f : forall fuel p l s', W p l -> skip_chars_loop text fuel f (st p l) = Ok s' ->
  exists x l', l = x ++ l' /\ s' = st (p + blen x) l' /\ walk_ok text f p x l' /\ walk_stop text f (p + blen x) l'.
Proof.
  induction fuel as [|fu IH]; intros p l s' HW H; cbn [skip_chars_loop] in H; [noerr|].
  destruct l as [|c l].
  - rewrite (next_char_end text) in H by exact HW. cbn [bind] in H. inversion H; subst.
    exists [], []. rewrite blen_nil, N.add_0_r. repeat split.
  - rewrite (next_char_st text Hascii) in H by exact HW. cbn [bind] in H.
    destruct (char_is_char c) eqn:Ec; cbn [negb] in H; [|noerr].
    destruct (f (st p (c :: l)) c) eqn:Ef.
    + rewrite (advance1_st text) in H by exact HW. cbn [bind] in H.
      destruct (IH _ _ _ (W_cons text _ _ _ HW) H) as (x & l' & -> & -> & Hx & Hl).
      exists (c :: x), l'. rewrite blen_cons. replace (p + (1 + blen x)) with (p + 1 + blen x) by lia.
      split; [reflexivity|]. split; [reflexivity|]. split; [|exact Hl].
      cbn [walk_ok app]. auto.
    + inversion H; subst. exists [], (c :: l). rewrite blen_nil, N.add_0_r.
      split; [reflexivity|]. split; [reflexivity|]. split; [exact I|]. cbn [walk_stop]. auto.
Qed.

Lemma consume_chars_inv f p l s0 s' : W p l -> consume_chars text f (st p l) = Ok (s0, s') ->
  exists x l', l = x ++ l' /\ s0 = sl p (p + blen x) /\ s' = st (p + blen x) l' /\ W (p + blen x) l' /\
               walk_ok text f p x l' /\ walk_stop text f (p + blen x) l'.
Proof.
  intros HW H. unfold consume_chars in H. ib H s1 H1. ib H s2 H2.
  unfold skip_chars in H1. destruct (skip_chars_loop_inv _ _ _ _ _ HW H1) as (x & l' & -> & -> & Hx & Hl).
  unfold slice_back in H2. apply mk_slice_sl in H2. cbn [CstLex.st s_pos] in H2. subst s2.
  inversion H; subst. clear H.
  exists x, l'. split; [reflexivity|]. split; [reflexivity|]. split; [reflexivity|].
  split; [apply (W_app text); exact HW|]. split; assumption.
Qed.

(* ---- names ---- *)
Lemma name_stop_of l : Suf l -> (match l with [] => True | c :: _ => byte_is_name c = false end) -> name_stop l.
Proof.
  intros HS H. destruct l as [|c l]; [exact I|]. cbn [name_stop]. unfold not_name_byte.
  destruct HS as [Hp Hc]. cbn [forallb] in Hp. apply andb_true_iff in Hp. destruct Hp as [Hp _].
  destruct (plain_char _ Hp) as (L & _). inversion Hc; subst. auto.
Qed.

Lemma consume_qname_loop_inv start : forall fuel p l spl' s', W p l ->
  consume_qname_loop text fuel start None (st p l) = Ok (spl', s') ->
  exists x l', l = x ++ l' /\ spl' = None /\ s' = st (p + blen x) l' /\
               forallb Cst.is_name_char x = true /\ name_stop l'.
Proof.
  induction fuel as [|fu IH]; intros p l spl' s' HW H; cbn [consume_qname_loop] in H; [noerr|].
  rewrite (at_end_st text) in H by exact HW.
  destruct l as [|c l].
  { inversion H; subst. exists [], []. rewrite blen_nil, N.add_0_r. repeat split. }
  cbn [curr_byte_unchecked CstLex.st s_rest bind] in H.
  pose proof (W_Suf _ _ HW) as HS. destruct HS as [Hp Hc].
  cbn [forallb] in Hp. apply andb_true_iff in Hp. destruct Hp as [Hp _].
  destruct (plain_char _ Hp) as (L & _). inversion Hc as [|? ? Hc1 _]; subst.
  replace (c <? 128) with true in H by lia.
  replace (c =? 58) with false in H by lia.
  destruct (byte_is_name c) eqn:Eb.
  - fold (CstLex.st text p (c :: l)) in H. rewrite (advance1_st text) in H by exact HW. cbn [bind] in H.
    destruct (IH _ _ _ _ (W_cons text _ _ _ HW) H) as (x & l' & -> & -> & -> & Hx & Hl).
    exists (c :: x), l'. rewrite blen_cons. replace (p + (1 + blen x)) with (p + 1 + blen x) by lia.
    assert (Hcx : forallb Cst.is_name_char (c :: x) = true)
      by (cbn [forallb]; rewrite (byte_name_char c L Hc1 Eb); exact Hx).
    repeat split; auto.
  - inversion H; subst. exists [], (c :: l). rewrite blen_nil, N.add_0_r.
    assert (Hns : name_stop (c :: l)) by (cbn [name_stop]; unfold not_name_byte; auto).
    repeat split; auto.
Qed.

Lemma wf_name_intro name : forallb Cst.is_name_char name = true ->
  (match name with [] => False | x :: _ => Cst.is_name_start x = true end) -> Cst.wf_name name = true.
Proof.
  destruct name as [|x r]; [tauto|]. cbn [forallb Cst.wf_name]. intros H1 H2.
  apply andb_true_iff in H1. rewrite H2. tauto.
Qed.

Lemma consume_qname_inv p l pfx loc s' : W p l -> consume_qname text (st p l) = Ok (pfx, loc, s') ->
  exists name l', l = name ++ l' /\ Cst.wf_name name = true /\ name_stop l' /\
                  pfx = sl p p /\ loc = sl p (p + blen name) /\ s' = st (p + blen name) l' /\
                  W (p + blen name) l'.
Proof.
  intros HW H. unfold consume_qname in H. cbn [CstLex.st s_pos] in H.
  ib H q Hq. destruct q as [spl s1].
  destruct (consume_qname_loop_inv _ _ _ _ _ _ HW Hq) as (name & l' & -> & -> & -> & Hn & Hl).
  ib H pl Hpl. destruct pl as [p0 l0]. ib Hpl l1 Hl1. ib Hpl p1 Hp1. inversion Hpl; subst p0 l0. clear Hpl.
  unfold slice_back in Hl1. apply mk_slice_sl in Hl1. apply mk_slice_sl in Hp1. subst l1 p1.
  cbn [CstLex.st s_pos] in H.
  destruct (negb (slice_len (sl p p) =? 0) && negb (str_is_name_start (slice_bytes text (sl p p)))); [noerr|].
  destruct (str_is_name_start (slice_bytes text (sl p (p + blen name)))) eqn:Es; cbn [negb] in H; [|noerr].
  inversion H; subst. clear H.
  rewrite (W_slice text p name l' HW) in Es.
  assert (Hwf : Cst.wf_name name = true).
  { apply wf_name_intro; [exact Hn|].
    destruct name as [|x r]; [discriminate|]. cbn [str_is_name_start] in Es.
    pose proof (W_Suf _ _ HW) as [Hp Hc]. cbn [app forallb] in Hp. apply andb_true_iff in Hp.
    destruct Hp as [Hp _]. destruct (plain_char _ Hp) as (L & _). inversion Hc; subst.
    replace (x <? 128) with true in Es by lia. apply byte_name_start; auto. }
  exists name, l'. split; [reflexivity|]. split; [exact Hwf|]. split; [exact Hl|].
  split; [reflexivity|]. split; [reflexivity|]. split; [reflexivity|]. apply (W_app text); exact HW.
Qed.

Lemma skip_name_loop_inv : forall fuel p l s', W p l -> skip_name_loop fuel (st p l) = Ok s' ->
  exists x l', l = x ++ l' /\ s' = st (p + blen x) l' /\ forallb Cst.is_name_char x = true /\ name_stop l'.
Proof.
  induction fuel as [|fu IH]; intros p l s' HW H; cbn [skip_name_loop] in H; [noerr|].
  destruct l as [|c l].
  { rewrite (next_char_end text) in H by exact HW. cbn [bind] in H. inversion H; subst.
    exists [], []. rewrite blen_nil, N.add_0_r. repeat split. }
  rewrite (next_char_st text Hascii) in H by exact HW. cbn [bind] in H.
  pose proof (W_Suf _ _ HW) as [Hp Hc]. cbn [forallb] in Hp. apply andb_true_iff in Hp.
  destruct Hp as [Hp _]. destruct (plain_char _ Hp) as (L & _). inversion Hc as [|? ? Hc1 _]; subst.
  rewrite char_is_name_ascii in H by exact L.
  destruct (byte_is_name c) eqn:Eb.
  - rewrite (advance1_st text) in H by exact HW. cbn [bind] in H.
    destruct (IH _ _ _ (W_cons text _ _ _ HW) H) as (x & l' & -> & -> & Hx & Hl).
    exists (c :: x), l'. rewrite blen_cons. replace (p + (1 + blen x)) with (p + 1 + blen x) by lia.
    assert (Hcx : forallb Cst.is_name_char (c :: x) = true)
      by (cbn [forallb]; rewrite (byte_name_char c L Hc1 Eb); exact Hx).
    repeat split; auto.
  - inversion H; subst. exists [], (c :: l). rewrite blen_nil, N.add_0_r.
    assert (Hns : name_stop (c :: l)) by (cbn [name_stop]; unfold not_name_byte; auto).
    repeat split; auto.
Qed.

Lemma consume_name_inv p l s0 s' : W p l -> consume_name text (st p l) = Ok (s0, s') ->
  exists name l', l = name ++ l' /\ Cst.wf_name name = true /\ name_stop l' /\
                  s0 = sl p (p + blen name) /\ s' = st (p + blen name) l' /\ W (p + blen name) l'.
Proof.
  intros HW H. unfold consume_name in H. cbn [CstLex.st s_pos] in H. ib H s1 H1. ib H s2 H2.
  unfold slice_back in H2. apply mk_slice_sl in H2. subst s2.
  destruct (slice_len (sl p (s_pos s1)) =? 0) eqn:El; [noerr|]. inversion H; subst. clear H.
  unfold skip_name in H1. destruct l as [|c l].
  { rewrite (next_char_end text) in H1 by exact HW. cbn [bind] in H1. inversion H1; subst.
    unfold slice_len in El. cbn in El. lia. }
  rewrite (next_char_st text Hascii) in H1 by exact HW. cbn [bind] in H1.
  pose proof (W_Suf _ _ HW) as [Hp Hc]. cbn [forallb] in Hp. apply andb_true_iff in Hp.
  destruct Hp as [Hp _]. destruct (plain_char _ Hp) as (L & _). inversion Hc as [|? ? Hc1 _]; subst.
  rewrite char_is_name_start_ascii in H1 by exact L.
  destruct (byte_is_name_start c) eqn:Eb; [|noerr].
  rewrite (advance1_st text) in H1 by exact HW. cbn [bind] in H1.
  destruct (skip_name_loop_inv _ _ _ _ (W_cons text _ _ _ HW) H1) as (x & l' & -> & -> & Hx & Hl).
  assert (Hwf : Cst.wf_name (c :: x) = true)
    by (cbn [Cst.wf_name]; rewrite (byte_name_start c L Hc1 Eb); exact Hx).
  assert (HW' : W (p + blen (c :: x)) l') by (apply (W_app text); exact HW).
  exists (c :: x), l'. cbn [CstLex.st s_pos].
  replace (p + 1 + blen x) with (p + blen (c :: x)) by (rewrite blen_cons; lia).
  split; [reflexivity|]. split; [exact Hwf|]. split; [exact Hl|].
  split; [reflexivity|]. split; [reflexivity|]. exact HW'.
Qed.

Lemma W_inj p p' l : W p l -> W p' l -> p = p'.
Proof. intros [_ H1] [_ H2]. lia. Qed.

(* ---- '=' and quoted values ---- *)
Lemma consume_eq_inv p l s' : W p l -> consume_eq text (st p l) = Ok s' ->
  exists w1 w2 l', l = w1 ++ [61] ++ w2 ++ l' /\ Cst.wf_ws w1 = true /\ Cst.wf_ws w2 = true /\
    stops byte_is_space l' /\ s' = st (p + blen w1 + 1 + blen w2) l' /\ W (p + blen w1 + 1 + blen w2) l'.
Proof.
  intros HW H. unfold consume_eq in H.
  destruct (skip_spaces_inv p l HW) as (w1 & l1 & -> & Hw1 & _ & E1 & HW1). rewrite E1 in H.
  ib H s1 H1. destruct (consume_byte_inv _ _ _ _ HW1 H1) as (l2 & -> & -> & HW2).
  destruct (skip_spaces_inv _ l2 HW2) as (w2 & l3 & -> & Hw2 & Hst & E2 & HW3). rewrite E2 in H.
  inversion H; subst. exists w1, w2, l3.
  split; [reflexivity|]. split; [exact Hw1|]. split; [exact Hw2|]. split; [exact Hst|].
  split; [reflexivity|exact HW3].
Qed.

Lemma consume_quote_inv p l q s' : W p l -> consume_quote text (st p l) = Ok (q, s') ->
  exists l', l = q :: l' /\ (q = 39 \/ q = 34) /\ s' = st (p + 1) l' /\ W (p + 1) l'.
Proof.
  intros HW H. unfold consume_quote in H. ib H x Hx. destruct (curr_byte_inv _ _ _ HW Hx) as (l' & ->).
  destruct ((x =? 39) || (x =? 34)) eqn:E; [|noerr].
  rewrite (advance1_st text) in H by exact HW. cbn [bind] in H. inversion H; subst.
  exists l'. split; [reflexivity|]. split; [lia|]. split; [reflexivity|]. apply (W_cons text) in HW. exact HW.
Qed.

Lemma find_idx_inv f : forall l i, find_idx f l = Some i ->
  exists v c l', l = v ++ c :: l' /\ blen v = i /\ forallb (fun y => negb (f y)) v = true /\ f c = true.
Proof.
  induction l as [|y l IH]; intros i H; cbn [find_idx] in H; [discriminate|].
  destruct (f y) eqn:E.
  - inversion H; subst. exists [], y, l. repeat split; auto.
  - destruct (find_idx f l) as [j|]; [|discriminate]. inversion H; subst.
    destruct (IH j eq_refl) as (v & c & l' & -> & Hv & Hf & Hc).
    exists (y :: v), c, l'. rewrite blen_cons. cbn [forallb]. rewrite E. cbn [negb andb].
    repeat split; auto. lia.
Qed.

Lemma advance_until2_inv a c0 p l s' : W p l -> advance_until2 a c0 (st p l) = Ok s' ->
  exists v c l', l = v ++ c :: l' /\ forallb (fun y => negb ((y =? a) || (y =? c0))) v = true /\
    (c = a \/ c = c0) /\ s' = st (p + blen v) (c :: l') /\ W (p + blen v) (c :: l').
Proof.
  intros HW H. unfold advance_until2 in H. rewrite (avail_st text) in H by exact HW.
  destruct (find_idx _ l) as [i|] eqn:Ef; [|noerr].
  destruct (find_idx_inv _ _ _ Ef) as (v & c & l' & -> & Hv & Hf & Hc).
  rewrite (advance_st text i p v) in H by (auto; exact HW). inversion H; subst.
  exists v, c, l'. split; [reflexivity|]. split; [exact Hf|]. split; [lia|]. split; [reflexivity|].
  apply (W_app text). exact HW.
Qed.

(* ------------------------------------------------------------------------------------------ *)
(* the productions, generic in the callback                                                     *)

Variable C : Type.
Variable ev : token -> C -> res C.
Notation evs := (evs C ev).

(* ---- comments ---- *)
Lemma wf_comment_intro bs : forallb Cst.is_plain bs = true -> contains_b [45; 45] bs = false ->
  ends_with_byte 45 bs = false -> Cst.wf_item (Cst.IComment bs) = true.
Proof.
  intros H1 H2 H3. cbn [Cst.wf_item]. rewrite H1, contains_eq, H2. cbn [negb andb].
  unfold ends_with_byte in H3. destruct (rev bs); [reflexivity|]. rewrite H3. reflexivity.
Qed.

Lemma inv_comment p l1 c s' c' : W p ([60; 33; 45; 45] ++ l1) ->
  parse_comment text C ev (st p ([60; 33; 45; 45] ++ l1)) c = Ok (s', c') ->
  exists bs l', l1 = bs ++ [45; 45; 62] ++ l' /\ Cst.wf_item (Cst.IComment bs) = true /\
    s' = st (p + 4 + blen bs + 3) l' /\ W (p + 4 + blen bs + 3) l' /\
    ev (TComment (sl (p + 4) (p + 4 + blen bs)) (p, p + 4 + blen bs + 3)) c = Ok c'.
Proof.
  intros HW H. unfold parse_comment in H. cbv zeta in H. cbn [CstLex.st s_pos] in H.
  fold (CstLex.st text p ([60; 33; 45; 45] ++ l1)) in H.
  rewrite (advance_st text 4 p [60; 33; 45; 45]) in H by (try reflexivity; exact HW). cbn [bind] in H.
  pose proof (W_app text _ _ _ HW) as HW1. change (blen [60; 33; 45; 45]) with 4 in HW1.
  ib H q Hq. destruct q as [txt s2].
  destruct (consume_chars_inv _ _ _ _ _ HW1 Hq) as (bs & l2 & -> & -> & -> & HW2 & Hwalk & Hstop).
  ib H s3 H3. change (b "-->") with [45; 45; 62] in H3.
  destruct (skip_string_inv _ _ _ _ HW2 H3) as (l' & -> & -> & HW3). change (blen [45; 45; 62]) with 3 in *.
  rewrite (W_slice text (p + 4) bs _ HW1) in H. change (b "--") with [45; 45] in H.
  destruct (contains_b [45; 45] bs) eqn:E1; [noerr|].
  destruct (ends_with_byte 45 bs) eqn:E2; [noerr|].
  ib H c1 Hc. inversion H; subst. cbn [CstLex.st s_pos] in Hc.
  exists bs, l'. split; [reflexivity|].
  split; [apply wf_comment_intro; auto; eapply plain_firstn; exact HW1|].
  split; [reflexivity|]. split; [exact HW3|exact Hc].
Qed.

(* ---- text ---- *)
Lemma text_walk_inv : forall bs p l', walk_ok text text_f p bs l' -> forallb (fun x => negb (x =? 60)) bs = true.
Proof.
  induction bs as [|x bs IH]; intros p l' H; cbn [forallb]; [reflexivity|].
  cbn [walk_ok] in H. destruct H as (_ & Hf & Hr). unfold text_f in Hf. rewrite Hf. cbn [andb]. eapply IH; eauto.
Qed.

Lemma Suf_firstn x l : Suf (x ++ l) -> Suf x.
Proof.
  intros [H1 H2]. rewrite forallb_app in H1. apply andb_true_iff in H1.
  apply Forall_app in H2. constructor; tauto.
Qed.

(* a raw text token: plain bytes without '<', no "]]>" *)
Definition raw_text_ok (bs : bytes) : Prop :=
  bs <> [] /\ forallb Cst.is_plain bs = true /\ forallb (fun x => negb (x =? 60)) bs = true /\
  contains_b [93; 93; 62] bs = false.

Lemma inv_text p x l0 c s' c' : W p (x :: l0) -> x <> 60 ->
  parse_text text C ev (st p (x :: l0)) c = Ok (s', c') ->
  exists bs l', x :: l0 = bs ++ l' /\ raw_text_ok bs /\ text_stop l' /\
    s' = st (p + blen bs) l' /\ W (p + blen bs) l' /\
    ev (TText (sl p (p + blen bs)) (p, p + blen bs)) c = Ok c'.
Proof.
  intros HW Hx H. unfold parse_text in H. cbv zeta in H. cbn [CstLex.st s_pos] in H.
  fold (CstLex.st text p (x :: l0)) in H.
  ib H q Hq. destruct q as [txt s1].
  destruct (consume_chars_inv _ _ _ _ _ HW Hq) as (bs & l' & E & -> & -> & HW1 & Hwalk & Hstop).
  rewrite E in HW. rewrite (W_slice text p bs _ HW) in H. change (b "]]>") with [93; 93; 62] in H.
  destruct (contains_b [93; 93; 62] bs) eqn:Ec.
  { rewrite (RejectProofs.contains_cdata_end_mem _ Ec) in H. cbn [andb] in H. noerr. }
  rewrite andb_false_r in H. ib H c1 Hc. inversion H; subst. cbn [CstLex.st s_pos] in Hc.
  assert (Hne : bs <> []).
  { intros ->. cbn [app] in E. subst l'. cbn [walk_stop] in Hstop. destruct Hstop as [_ Hf].
    unfold text_f in Hf. lia. }
  exists bs, l'. split; [exact E|]. split.
  { split; [exact Hne|]. split; [eapply plain_firstn; exact HW|]. split; [eapply text_walk_inv; exact Hwalk|exact Ec]. }
  split.
  { destruct l' as [|y l']; [exact I|]. cbn [walk_stop] in Hstop. destruct Hstop as [_ Hf].
    unfold text_f in Hf. cbn [text_stop]. lia. }
  split; [reflexivity|]. split; [exact HW1|exact Hc].
Qed.

(* ---- CDATA sections ---- *)
Definition cdata_fm (s : stream) (ch : N) : bool := negb ((ch =? 93) && starts_with s [93; 93; 62]).

Lemma cdata_walk_inv : forall v p post, W p (v ++ [93; 93; 62] ++ post) ->
  walk_ok text cdata_fm p v ([93; 93; 62] ++ post) -> contains_b [93; 93; 62] v = false.
Proof.
  induction v as [|x v IH]; intros p post HW H; [reflexivity|].
  cbn [walk_ok] in H. destruct H as (_ & Hf & Hr). cbn [contains_b].
  rewrite (IH _ _ (W_cons text _ _ _ HW) Hr), orb_false_r.
  unfold cdata_fm in Hf. rewrite (starts_with_st text) in Hf by exact HW.
  destruct (prefix_b [93; 93; 62] (x :: v)) eqn:E; [|reflexivity]. exfalso.
  destruct (prefix_b_split _ _ E) as (r & Er). cbn [app] in Er. injection Er as -> ->.
  cbn in Hf. discriminate.
Qed.

Definition cdata_tok (p : N) (bs : bytes) : token :=
  TCdata (sl (p + 9) (p + 9 + blen bs)) (p, p + 9 + blen bs + 3).

Lemma inv_cdata p l1 c s' c' : W p ([60; 33; 91; 67; 68; 65; 84; 65; 91] ++ l1) ->
  parse_cdata text C ev (st p ([60; 33; 91; 67; 68; 65; 84; 65; 91] ++ l1)) c = Ok (s', c') ->
  exists bs l', l1 = bs ++ [93; 93; 62] ++ l' /\ forallb Cst.is_plain bs = true /\
    contains_b [93; 93; 62] bs = false /\
    s' = st (p + 9 + blen bs + 3) l' /\ W (p + 9 + blen bs + 3) l' /\
    ev (cdata_tok p bs) c = Ok c'.
Proof.
  intros HW H. unfold parse_cdata in H. cbv zeta in H. cbn [CstLex.st s_pos] in H.
  fold (CstLex.st text p ([60; 33; 91; 67; 68; 65; 84; 65; 91] ++ l1)) in H.
  rewrite (advance_st text 9 p [60; 33; 91; 67; 68; 65; 84; 65; 91]) in H by (try reflexivity; exact HW).
  cbn [bind] in H. pose proof (W_app text _ _ _ HW) as HW1.
  change (blen [60; 33; 91; 67; 68; 65; 84; 65; 91]) with 9 in HW1.
  ib H q Hq. destruct q as [txt s2].
  destruct (consume_chars_inv _ _ _ _ _ HW1 Hq) as (bs & l2 & -> & -> & -> & HW2 & Hwalk & Hstop).
  ib H s3 H3. change (b "]]>") with [93; 93; 62] in H3.
  destruct (skip_string_inv _ _ _ _ HW2 H3) as (l' & -> & -> & HW3). change (blen [93; 93; 62]) with 3 in *.
  ib H c1 Hc. inversion H; subst. cbn [CstLex.st s_pos] in Hc.
  exists bs, l'. split; [reflexivity|]. split; [eapply plain_firstn; exact HW1|].
  split; [eapply cdata_walk_inv; [exact HW1|exact Hwalk]|]. split; [reflexivity|]. split; [exact HW3|exact Hc].
Qed.

(* ---- processing instructions ---- *)
Lemma pi_walk_inv : forall v p post, W p (v ++ [63; 62] ++ post) -> walk_ok text pi_f p v ([63; 62] ++ post) ->
  contains_b [63; 62] v = false.
Proof.
  induction v as [|x v IH]; intros p post HW H; [reflexivity|].
  cbn [walk_ok] in H. destruct H as (_ & Hf & Hr). cbn [contains_b].
  rewrite (IH _ _ (W_cons text _ _ _ HW) Hr), orb_false_r.
  unfold pi_f in Hf. rewrite (starts_with_st text) in Hf by exact HW.
  destruct (x =? 63) eqn:E; [|cbn [prefix_b]; rewrite N.eqb_sym, E; reflexivity].
  cbn [andb negb] in Hf. apply negb_true_iff in Hf. cbn [app prefix_b] in *.
  assert (x = 63) by lia. subst x. rewrite N.eqb_refl in *. cbn [andb] in *.
  destruct v as [|y v]; [reflexivity|]. cbn [app] in Hf. exact Hf.
Qed.

Lemma prefix_b_app_l a r l : prefix_b (a ++ r) l = true -> prefix_b a l = true.
Proof.
  revert l. induction a as [|x a IH]; intros l H; [reflexivity|].
  destruct l as [|y l]; [discriminate|]. cbn [app prefix_b] in *. apply andb_true_iff in H.
  destruct H as [H1 H2]. rewrite H1, (IH _ H2). reflexivity.
Qed.

Lemma prefix_is_xml_true t : Cst.prefix_is_xml t = true -> t = [120; 109; 108].
Proof.
  intros H. destruct t as [|a [|b0 [|c0 [|d r]]]]; cbn in H; try discriminate.
  all: repeat match goal with H : match ?x with _ => _ end = true |- _ => destruct x; try discriminate end.
  reflexivity.
Qed.

Definition pi_tok (p : N) (target sep v : bytes) : token :=
  let a := p + 2 + blen target + blen sep in
  TPI (sl (p + 2) (p + 2 + blen target)) (if blen v =? 0 then None else Some (sl a (a + blen v)))
      (p, a + blen v + 2).

(* everything Cst.wf_item asks of a PI except the separator when there is a content *)
Definition pi_pre (target sep v : bytes) : Prop :=
  Cst.wf_name target = true /\ Cst.wf_ws sep = true /\ forallb Cst.is_plain v = true /\
  contains_b [63; 62] v = false /\ Cst.prefix_is_xml target = false /\
  match v with [] => True | x :: _ => Cst.is_ws x = false end.

Lemma wf_pi_intro target sep v : pi_pre target sep v -> (v = [] \/ sep <> []) ->
  Cst.wf_item (Cst.IPI target sep v) = true.
Proof.
  intros (H1 & H2 & H3 & H4 & H5 & H6) Hs. cbn [Cst.wf_item]. rewrite H1, H2, H3, contains_eq, H4, H5.
  cbn [negb andb]. destruct v as [|x v]; [reflexivity|]. rewrite H6. cbn [negb andb].
  destruct Hs as [Hs|Hs]; [discriminate|]. destruct sep; [congruence|reflexivity].
Qed.

Lemma inv_pi p l1 c s' c' : W p ([60; 63] ++ l1) ->
  parse_pi text C ev (st p ([60; 63] ++ l1)) c = Ok (s', c') ->
  exists target sep v l', l1 = target ++ sep ++ v ++ [63; 62] ++ l' /\
    Cst.wf_item (Cst.IPI target sep v) = true /\
    s' = st (p + 2 + blen target + blen sep + blen v + 2) l' /\
    W (p + 2 + blen target + blen sep + blen v + 2) l' /\
    ev (pi_tok p target sep v) c = Ok c'.
Proof.
  intros HW H. unfold parse_pi in H. rewrite (starts_with_st text) in H by exact HW.
  pose proof (W_noprefix _ _ _ HW (fr_decl _ HF) ltac:(discriminate)) as Hnd.
  destruct (prefix_b (b "<?xml ") ([60; 63] ++ l1)) eqn:Ed.
  { change (b "<?xml ") with ([60; 63; 120; 109; 108] ++ [32]) in Ed. apply prefix_b_app_l in Ed. congruence. }
  cbv zeta in H. cbn [CstLex.st s_pos] in H. fold (CstLex.st text p ([60; 63] ++ l1)) in H.
  rewrite (advance_st text 2 p [60; 63]) in H by (try reflexivity; exact HW). cbn [bind] in H.
  pose proof (W_app text _ _ _ HW) as HW1. change (blen [60; 63]) with 2 in HW1.
  ib H q Hq. destruct q as [tg s2].
  destruct (consume_name_inv _ _ _ _ HW1 Hq) as (target & l2 & -> & Hn & Hns & -> & -> & HW2).
  ib H s3 H3.
  (* the separator: nothing before "?>", at least one space otherwise *)
  assert (SEP : exists sep l3, l2 = sep ++ l3 /\ Cst.wf_ws sep = true /\ stops byte_is_space l3 /\
                  s3 = st (p + 2 + blen target + blen sep) l3 /\ W (p + 2 + blen target + blen sep) l3 /\
                  (sep = [] -> prefix_b [63; 62] l3 = true)).
  { rewrite (starts_with_st text) in H3 by exact HW2. change (b "?>") with [63; 62] in H3.
    destruct (prefix_b [63; 62] l2) eqn:Eq.
    - inversion H3; subst s3. exists [], l2. rewrite blen_nil, N.add_0_r.
      split; [reflexivity|]. split; [reflexivity|]. split.
      { destruct l2 as [|y l2]; [exact I|]. cbn [prefix_b] in Eq. cbn [stops].
        apply andb_true_iff in Eq. destruct Eq as [Ey _]. assert (y = 63) by lia. subst. reflexivity. }
      split; [reflexivity|]. split; [exact HW2|]. intros _. exact Eq.
    - destruct (consume_spaces_inv _ _ _ HW2 H3) as (sep & l3 & -> & Hne & Hw & Hst & -> & HW3).
      exists sep, l3. split; [reflexivity|]. split; [exact Hw|]. split; [exact Hst|].
      split; [reflexivity|]. split; [exact HW3|]. intros ->. congruence. }
  destruct SEP as (sep & l3 & -> & Hsep & Hst & -> & HW3 & Hnil).
  ib H q4 H4. destruct q4 as [ct s4].
  destruct (consume_chars_inv _ _ _ _ _ HW3 H4) as (v & l4 & -> & -> & -> & HW4 & Hwalk & Hstop).
  ib H s5 H5. change (b "?>") with [63; 62] in H5.
  destruct (skip_string_inv _ _ _ _ HW4 H5) as (l' & -> & -> & HW5). change (blen [63; 62]) with 2 in *.
  ib H c1 Hc. inversion H; subst. clear H. cbn [CstLex.st s_pos] in Hc.
  exists target, sep, v, l'. split; [reflexivity|]. split.
  { apply wf_pi_intro.
    - split; [exact Hn|]. split; [exact Hsep|]. split; [eapply plain_firstn; exact HW3|].
      split; [eapply pi_walk_inv; eauto|]. split.
      + destruct (Cst.prefix_is_xml target) eqn:Ex; [|reflexivity]. exfalso.
        apply prefix_is_xml_true in Ex. subst target. cbn in Hnd. discriminate.
      + destruct v as [|x v]; [exact I|]. cbn [app stops] in Hst.
        pose proof (plain_firstn _ _ _ HW3) as Hp. cbn [forallb] in Hp. apply andb_true_iff in Hp.
        destruct Hp as [Hp _]. destruct (Cst.is_ws x) eqn:Ew; [|reflexivity].
        rewrite (ws_space _ Ew) in Hst. discriminate.
    - destruct sep as [|y sep]; [|right; discriminate]. left.
      specialize (Hnil eq_refl). destruct v as [|x v]; [reflexivity|exfalso].
      cbn [walk_ok] in Hwalk. destruct Hwalk as (_ & Hf & _). unfold pi_f in Hf.
      rewrite (starts_with_st text) in Hf by exact HW3. change (b "?>") with [63; 62] in Hf.
      cbn [app] in Hf, Hnil. rewrite Hnil in Hf.
      cbn [prefix_b] in Hnil. apply andb_true_iff in Hnil. destruct Hnil as [Hx _].
      assert (x = 63) by lia. subst x. cbn in Hf. discriminate. }
  split; [reflexivity|]. split; [exact HW5|].
  unfold pi_tok. cbv zeta. unfold slice_len in Hc. cbn [sl sl_start sl_end] in Hc.
  replace (p + 2 + blen target + blen sep + blen v - (p + 2 + blen target + blen sep)) with (blen v) in Hc by lia.
  exact Hc.
Qed.

(* ---- end tags ---- *)
Definition close_tok (p : N) (name ws2 : bytes) : token :=
  TElementEnd (EClose (sl (p + 2) (p + 2)) (sl (p + 2) (p + 2 + blen name))) (p, p + 2 + blen name + blen ws2 + 1).

Lemma inv_close p l1 c s' c' : W p ([60; 47] ++ l1) ->
  parse_close_element text C ev (st p ([60; 47] ++ l1)) c = Ok (s', c') ->
  exists name ws2 l', l1 = name ++ ws2 ++ [62] ++ l' /\ Cst.wf_name name = true /\ Cst.wf_ws ws2 = true /\
    s' = st (p + 2 + blen name + blen ws2 + 1) l' /\ W (p + 2 + blen name + blen ws2 + 1) l' /\
    ev (close_tok p name ws2) c = Ok c'.
Proof.
  intros HW H. unfold parse_close_element in H. cbv zeta in H. cbn [CstLex.st s_pos] in H.
  fold (CstLex.st text p ([60; 47] ++ l1)) in H.
  rewrite (advance_st text 2 p [60; 47]) in H by (try reflexivity; exact HW). cbn [bind] in H.
  pose proof (W_app text _ _ _ HW) as HW1. change (blen [60; 47]) with 2 in HW1.
  ib H q Hq. destruct q as [[pfx loc] s2].
  destruct (consume_qname_inv _ _ _ _ _ HW1 Hq) as (name & l2 & -> & Hn & Hns & -> & -> & -> & HW2).
  destruct (skip_spaces_inv _ l2 HW2) as (ws2 & l3 & -> & Hws & Hst & E3 & HW3). rewrite E3 in H.
  ib H s4 H4. destruct (consume_byte_inv _ _ _ _ HW3 H4) as (l' & -> & -> & HW4).
  ib H c1 Hc. inversion H; subst. clear H. cbn [CstLex.st s_pos] in Hc.
  exists name, ws2, l'. split; [reflexivity|]. split; [exact Hn|]. split; [exact Hws|].
  split; [reflexivity|]. split; [exact HW4|exact Hc].
Qed.

(* ---- start tags ---- *)
(* a RAW attribute (Cst.attr whose value is the literal source text between the quotes) *)
Definition attr_raw_ok (a : Cst.attr) : bool :=
  Cst.wf_ws1 (Cst.a_ws a) && Cst.wf_name (Cst.a_name a) && Cst.wf_ws (Cst.a_ws1 a) && Cst.wf_ws (Cst.a_ws2 a) &&
  ((Cst.a_quote a =? 39) || (Cst.a_quote a =? 34)) &&
  forallb (fun x => Cst.is_plain x && negb (x =? 60) && negb (x =? Cst.a_quote a)) (Cst.a_value a).

Lemma value_ok quote v l : Suf (v ++ l) ->
  forallb (fun y => negb ((y =? quote) || (y =? 60))) v = true ->
  forallb (fun x => Cst.is_plain x && negb (x =? 60) && negb (x =? quote)) v = true.
Proof.
  intros HS Hv. apply Suf_firstn in HS. destruct HS as [Hp _].
  apply forallb_forall. intros x Hx. rewrite forallb_forall in Hp, Hv.
  specialize (Hp x Hx). specialize (Hv x Hx). rewrite Hp. cbn [andb].
  apply negb_true_iff, orb_false_iff in Hv. destruct Hv as [V1 V2]. rewrite V1, V2. reflexivity.
Qed.

Lemma inv_elem_loop : forall fuel ts q l c open s' c', W q l ->
  parse_element_loop text C ev fuel ts (st q l) c = Ok (open, s', c') ->
  exists attrs ws_end l' c2,
    l = flat_map Cst.r_attr attrs ++ ws_end ++ tag_tail (negb open) ++ l' /\
    forallb attr_raw_ok attrs = true /\ Cst.wf_ws ws_end = true /\
    evs (attr_toks q attrs) c = Ok c2 /\
    ev (end_tok (q + blen (flat_map Cst.r_attr attrs) + blen ws_end) (negb open)) c2 = Ok c' /\
    s' = st (q + blen (flat_map Cst.r_attr attrs) + blen ws_end + blen (tag_tail (negb open))) l' /\
    W (q + blen (flat_map Cst.r_attr attrs) + blen ws_end + blen (tag_tail (negb open))) l'.
Proof.
  induction fuel as [|fu IH]; intros ts q l c open s' c' HW H; cbn [parse_element_loop] in H; [noerr|].
  destruct (at_end (st q l)) eqn:Ea; [noerr|]. cbv zeta in H.
  rewrite starts_with_space_st in H by exact HW.
  destruct (skip_spaces_inv q l HW) as (w & l1 & El & Hw & Hst & E1 & HW1). rewrite E1 in H.
  cbn [CstLex.st s_pos] in H. fold (CstLex.st text (q + blen w) l1) in H.
  ib H x Hx. destruct (curr_byte_inv _ _ _ HW1 Hx) as (l2 & ->).
  destruct (x =? 47) eqn:E47.
  { assert (x = 47) by lia. subst x. rewrite (advance1_st text) in H by exact HW1. cbn [bind] in H.
    ib H s2 H2. destruct (consume_byte_inv _ _ _ _ (W_cons text _ _ _ HW1) H2) as (l' & -> & -> & HW3).
    ib H c1 Hc. inversion H; subst. clear H. cbn [CstLex.st s_pos] in Hc.
    exists [], w, l', c. cbn [flat_map negb tag_tail app evs attr_toks]. rewrite blen_nil, N.add_0_r.
    change (blen [47; 62]) with 2.
    split; [reflexivity|]. split; [reflexivity|]. split; [exact Hw|]. split; [reflexivity|].
    replace (q + blen w + 2) with (q + blen w + 1 + 1) by lia.
    split; [|split; [reflexivity|exact HW3]].
    unfold end_tok. replace (q + blen w + 2) with (q + blen w + 1 + 1) by lia. exact Hc. }
  destruct (x =? 62) eqn:E62.
  { assert (x = 62) by lia. subst x. rewrite (advance1_st text) in H by exact HW1. cbn [bind] in H.
    ib H c1 Hc. inversion H; subst. clear H. cbn [CstLex.st s_pos] in Hc.
    exists [], w, l2, c. cbn [flat_map negb tag_tail app evs attr_toks]. rewrite blen_nil, N.add_0_r.
    change (blen [62]) with 1.
    split; [reflexivity|]. split; [reflexivity|]. split; [exact Hw|]. split; [reflexivity|].
    split; [exact Hc|]. split; [reflexivity|]. apply (W_cons text) in HW1. exact HW1. }
  (* an attribute: whitespace is mandatory *)
  ib H s1 H1.
  assert (Hs1 : s1 = st (q + blen w) (x :: l2) /\ w <> []).
  { subst l. destruct w as [|w0 wr].
    - cbn [app] in H1. cbn [stops] in Hst. rewrite Hst in H1.
      unfold consume_spaces in H1. rewrite (at_end_st text) in H1 by exact HW1.
      rewrite starts_with_space_st in H1 by exact HW1. rewrite Hst in H1. cbn [negb] in H1.
      ib H1 y Hy. noerr.
    - cbn [app] in H1. unfold Cst.wf_ws in Hw. cbn [forallb] in Hw. apply andb_true_iff in Hw.
      destruct Hw as [Hw0 _]. rewrite (ws_space _ Hw0) in H1. inversion H1. split; [reflexivity|discriminate]. }
  destruct Hs1 as [-> Hwne]. clear H1.
  ib H qn Hqn. destruct qn as [[pfx loc] s2].
  destruct (consume_qname_inv _ _ _ _ _ HW1 Hqn) as (name & l3 & En & Hname & Hns & -> & -> & -> & HW3).
  cbn [CstLex.st s_pos] in H. fold (CstLex.st text (q + blen w + blen name) l3) in H.
  ib H s3 H3. destruct (consume_eq_inv _ _ _ HW3 H3) as (w1 & w2 & l4 & -> & Hw1 & Hw2 & _ & -> & HW4).
  ib H qq Hqq. destruct qq as [quote s4].
  destruct (consume_quote_inv _ _ _ _ HW4 Hqq) as (l5 & -> & Hquote & -> & HW5).
  cbn [CstLex.st s_pos] in H.
  fold (CstLex.st text (q + blen w + blen name + blen w1 + 1 + blen w2 + 1) l5) in H.
  ib H s5 H5. destruct (advance_until2_inv _ _ _ _ _ HW5 H5) as (v & cq & l6 & -> & Hv & Hcq & -> & HW6).
  ib H vsl Hvsl. unfold slice_back in Hvsl. apply mk_slice_sl in Hvsl. cbn [CstLex.st s_pos] in Hvsl. subst vsl.
  ib H u Hu. ib H s6 H6. destruct (consume_byte_inv _ _ _ _ HW6 H6) as (l7 & E7 & -> & HW7).
  inversion E7; subst cq l7. clear E7 Hcq.
  ib H c1 Hc. cbn [CstLex.st s_pos] in Hc.
  destruct (IH _ _ _ _ _ _ _ HW7 H) as (attrs & ws_end & l' & c2 & -> & Hattrs & Hwe & Hevs & Hend & -> & HWe).
  set (a := {| Cst.a_ws := w; Cst.a_name := name; Cst.a_ws1 := w1; Cst.a_ws2 := w2;
               Cst.a_quote := quote; Cst.a_value := v |}).
  assert (Hq' : q + blen w + blen name + blen w1 + 1 + blen w2 + 1 + blen v + 1 = q + blen (Cst.r_attr a)).
  { unfold Cst.r_attr, a. cbn [Cst.a_ws Cst.a_name Cst.a_ws1 Cst.a_ws2 Cst.a_quote Cst.a_value].
    rewrite !blen_app. change (blen [61]) with 1. change (blen [quote]) with 1. lia. }
  rewrite Hq' in *.
  exists (a :: attrs), ws_end, l', c2. cbn [flat_map]. rewrite blen_app.
  replace (q + (blen (Cst.r_attr a) + blen (flat_map Cst.r_attr attrs))) with
          (q + blen (Cst.r_attr a) + blen (flat_map Cst.r_attr attrs)) by lia.
  split.
  { subst l. rewrite En. unfold Cst.r_attr, a.
    cbn [Cst.a_ws Cst.a_name Cst.a_ws1 Cst.a_ws2 Cst.a_quote Cst.a_value]. rewrite <- !app_assoc. cbn [app].
    rewrite <- ?app_assoc. reflexivity. }
  split.
  { cbn [forallb]. rewrite Hattrs, andb_true_r. unfold attr_raw_ok, a.
    cbn [Cst.a_ws Cst.a_name Cst.a_ws1 Cst.a_ws2 Cst.a_quote Cst.a_value].
    assert (Hws1 : Cst.wf_ws1 w = true) by (unfold Cst.wf_ws1; destruct w; [congruence|exact Hw]).
    rewrite Hws1, Hname, Hw1, Hw2. cbn [andb].
    assert (Hqq2 : ((quote =? 39) || (quote =? 34)) = true) by lia. rewrite Hqq2. cbn [andb].
    eapply value_ok; [eapply W_Suf; exact HW5|exact Hv]. }
  split; [exact Hwe|]. split; [|split; [exact Hend|split; [reflexivity|exact HWe]]].
  cbn [attr_toks evs].
  assert (Etok : attr_tok q a =
     TAttribute (q + blen w, q + blen (Cst.r_attr a))
       (N.min (q + blen w + blen name - (q + blen w)) qname_len_sat)
       (N.min (q + blen w + blen name + blen w1 + 1 + blen w2 - (q + blen w + blen name)) eq_len_sat)
       (sl (q + blen w) (q + blen w)) (sl (q + blen w) (q + blen w + blen name))
       (sl (q + blen w + blen name + blen w1 + 1 + blen w2 + 1)
           (q + blen w + blen name + blen w1 + 1 + blen w2 + 1 + blen v))).
  { rewrite <- Hq'. unfold attr_tok, a. cbv zeta. cbn [Cst.a_ws Cst.a_name Cst.a_ws1 Cst.a_ws2 Cst.a_quote Cst.a_value].
    reflexivity. }
  rewrite Etok, Hc. cbn [bind]. exact Hevs.
Qed.

Lemma inv_element p l1 c open s' c' : W p ([60] ++ l1) ->
  parse_element text C ev (st p ([60] ++ l1)) c = Ok (open, s', c') ->
  exists name attrs ws_end l' c1 c2,
    l1 = name ++ flat_map Cst.r_attr attrs ++ ws_end ++ tag_tail (negb open) ++ l' /\
    Cst.wf_name name = true /\ forallb attr_raw_ok attrs = true /\ Cst.wf_ws ws_end = true /\
    ev (TElementStart (sl (p + 1) (p + 1)) (sl (p + 1) (p + 1 + blen name)) p) c = Ok c1 /\
    evs (attr_toks (p + 1 + blen name) attrs) c1 = Ok c2 /\
    ev (end_tok (p + 1 + blen name + blen (flat_map Cst.r_attr attrs) + blen ws_end) (negb open)) c2 = Ok c' /\
    s' = st (p + 1 + blen name + blen (flat_map Cst.r_attr attrs) + blen ws_end + blen (tag_tail (negb open))) l' /\
    W (p + 1 + blen name + blen (flat_map Cst.r_attr attrs) + blen ws_end + blen (tag_tail (negb open))) l'.
Proof.
  intros HW H. unfold parse_element in H. cbv zeta in H. cbn [CstLex.st s_pos] in H.
  fold (CstLex.st text p ([60] ++ l1)) in H.
  rewrite (advance_st text 1 p [60]) in H by (try reflexivity; exact HW). cbn [bind] in H.
  pose proof (W_app text _ _ _ HW) as HW1. change (blen [60]) with 1 in HW1.
  ib H qn Hqn. destruct qn as [[pfx loc] s2].
  destruct (consume_qname_inv _ _ _ _ _ HW1 Hqn) as (name & l2 & -> & Hname & Hns & -> & -> & -> & HW2).
  ib H c1 Hc1.
  destruct (inv_elem_loop _ _ _ _ _ _ _ _ HW2 H) as (attrs & ws_end & l' & c2 & -> & Ha & Hw & Hevs & Hend & -> & HWe).
  exists name, attrs, ws_end, l', c1, c2.
  split; [reflexivity|]. split; [exact Hname|]. split; [exact Ha|]. split; [exact Hw|].
  split; [exact Hc1|]. split; [exact Hevs|]. split; [exact Hend|]. split; [reflexivity|exact HWe].
Qed.

End Lex.
