(* Proofs/CstSound6uRMain.v -- CstSoundPRMain.v re-instantiated on Frag6u.  References to declared
   entities used in the body: CstSoundNMain.v / CstSoundPMain.v (start tags, content loop) with the
   syntax epieces and the meaning ents_meaning of Spec/CstFull.v for the table of the declarations. *)
From Coq Require Import String.
From Coq Require Import List Arith NArith Bool Lia ZifyBool ZifyN ZifyNat.
Import ListNotations.
From RX Require Import Generated.
From RX.Model Require Import Base CharClass Stream Tokenizer Doc Builder Parse.
From RX.Spec Require Cst Chars CstU CstNs Scope.
From RX.Spec Require CstText.
From RX.Spec Require Import CstFull CstFullS5.
From RX.Proofs Require Import Tactics CstLex CstULex CstTextLex.
From RX.Proofs Require CstBuild RejectProofs CstFullTree CstFullS2Sem CstNsTree.
From RX.Proofs Require Import CstFullS3Sem CstFullS3Text.
From RX.Proofs Require Import CstSound CstSoundT CstSoundTLex CstSoundULex CstSoundBuild CstSoundTBuild CstSoundTText CstSoundTMain.
From RX.Proofs Require Import CstSoundN CstSoundNLex CstSoundNBuild CstSoundNText CstSoundNMain.
From RX.Proofs Require Import CstSoundP CstSoundPEnt CstSoundPLex CstSoundPDtd CstSoundPBuild CstSoundPText.
From RX.Proofs Require Import CstSoundPRef.
From RX.Proofs Require CstFullS4TSem.
From RX.Proofs Require Import CstSound6 CstSound6U CstSound6uLex CstSound6uDtd CstSound6uText CstSound6uRText CstSound6uRTok.
Open Scope N_scope.

Section MainR.
Variable text : bytes.
Hypothesis HF : Frag6u text.
Variable decls : list E.edecl.
Variable ets : list entity.
Hypothesis Henv : Forall2 (uent_ok text) decls ets.
Hypothesis Hdecls : Forall CstFullS4TSem.udecl_okc decls.
Hypothesis Hunref : forall d its, In d decls -> E.e_value d = E.EContent its -> contains_b ([38] ++ E.e_name d ++ [59]) text = false.
Hypothesis Hnames : Forall (fun d => uname (E.e_name d)) decls.
Notation tb := (E.level decls E.max_level).
Notation M3 := (ents_meaning (E.level decls E.max_level)).
Notation item3 := (CstFull.item epieces).
Notation entry3 := (CstFull.entry epieces).
Notation r_items3 := (@CstFullTree.r_items epieces).
Notation wf_items3 := (CstFullTree.wf_items epieces M3).
Notation dens3 := (CstFullTree.dens epieces M3).
Notation xe3 := (x_entry epieces (val_sem M3)).
Notation decls3 cs := (NT.items_decls (dens3 cs)).
Notation costs3 sc cs := (NT.ns_costs sc (dens3 cs)).
Notation T_ := (Parse.token text).
Notation st := (CstLex.st text).
Notation W := (CstLex.W text).
Notation WV := (CstULex.WV text).
Notation sb := (slice_bytes text).
Notation SimP := (CstSoundPBuild.SimP text ets).
Notation InTagP := (CstSoundPBuild.InTagP text ets).
Notation evs := (CstLex.evs context T_).
Notation Res := (CstSoundPBuild.Res text).

(* ---- entries: a raw entry with the epieces of its value ---- *)
Definition lay_of (a : rattr) : CstNs.layout :=
  {| CstNs.l_ws := ra_ws a; CstNs.l_ws1 := ra_ws1 a; CstNs.l_ws2 := ra_ws2 a; CstNs.l_quote := ra_quote a |}.

Definition entry_of_r (a : rattr) (ps : list E.epiece) : entry3 :=
  let pb := utf8s (ra_pre a) in
  let lb := utf8s (ra_loc a) in
  if bytes_eqb pb CstNs.xmlns_b then @EDecl epieces (lay_of a) (ra_loc a) ps
  else match pb with
       | [] => if bytes_eqb lb CstNs.xmlns_b then @EDecl epieces (lay_of a) [] ps
               else @EAttr epieces (lay_of a) (mkq (ra_pre a) (ra_loc a)) ps
       | _ => @EAttr epieces (lay_of a) (mkq (ra_pre a) (ra_loc a)) ps
       end.

Lemma entry_of_den_r a ps :
  xe3 (entry_of_r a ps) = classify (lay_of a) (utf8s (ra_pre a)) (utf8s (ra_loc a)) (eval_sem tb ps).
Proof.
  unfold entry_of_r, classify. cbv zeta. destruct (bytes_eqb (utf8s (ra_pre a)) CstNs.xmlns_b); [reflexivity|].
  destruct (utf8s (ra_pre a)) eqn:Ep.
  - destruct (bytes_eqb (utf8s (ra_loc a)) CstNs.xmlns_b); [reflexivity|].
    cbn [x_entry]. unfold x_qname, mkq. cbn [q_prefix q_local]. rewrite Ep. reflexivity.
  - cbn [x_entry]. unfold x_qname, mkq. cbn [q_prefix q_local]. rewrite Ep. reflexivity.
Qed.

Lemma entry_of_render_r a ps : rattr_ok a -> utf8s (ra_val a) = E.r_epieces (enc_epieces ps) ->
  r_entry (entry_of_r a ps) = r_rattr a.
Proof.
  intros (_ & (Hpre & Hloc) & _) Ev. unfold r_entry, CstNs.r_entry, r_rattr. cbv zeta.
  assert (Hlne : utf8s (ra_loc a) <> []).
  { intros E. apply utf8s_nil_inv in E. rewrite E in Hloc. discriminate. }
  assert (En : CstNs.e_name (x_entry epieces (r_val epieces) (entry_of_r a ps)) = rq (ra_pre a) (ra_loc a) /\
               CstNs.e_layout (x_entry epieces (r_val epieces) (entry_of_r a ps)) = lay_of a /\
               CstNs.e_value (x_entry epieces (r_val epieces) (entry_of_r a ps)) = E.r_epieces (enc_epieces ps)).
  { unfold entry_of_r, rq. cbv zeta. destruct (bytes_eqb (utf8s (ra_pre a)) CstNs.xmlns_b) eqn:Ex.
    - apply bytes_eqb_true in Ex. cbn [x_entry CstNs.e_name CstNs.e_layout CstNs.e_value]. split; [|split; reflexivity].
      destruct (ra_pre a) as [|c0 p0] eqn:Ep; [discriminate|]. rewrite Ex.
      destruct (utf8s (ra_loc a)); [congruence|reflexivity].
    - destruct (utf8s (ra_pre a)) eqn:Ep.
      + apply utf8s_nil_inv in Ep. rewrite Ep.
        destruct (bytes_eqb (utf8s (ra_loc a)) CstNs.xmlns_b) eqn:El.
        * apply bytes_eqb_true in El. cbn [x_entry CstNs.e_name CstNs.e_layout CstNs.e_value CstU.utf8s flat_map]. rewrite El. auto.
        * cbn [x_entry CstNs.e_name CstNs.e_layout CstNs.e_value]. unfold x_qname, mkq, CstNs.r_qname.
          cbn [q_prefix q_local CstNs.q_prefix CstNs.q_local CstU.utf8s flat_map]. auto.
      + cbn [x_entry CstNs.e_name CstNs.e_layout CstNs.e_value]. unfold x_qname, mkq, CstNs.r_qname.
        cbn [q_prefix q_local CstNs.q_prefix CstNs.q_local]. rewrite Ep.
        destruct (ra_pre a); [cbn in Ep; discriminate|]. auto. }
  destruct En as (E1 & E2 & E3). rewrite E1, E2, E3, Ev. reflexivity.
Qed.

Lemma entry_of_wf_r a ps : rattr_ok a -> wf_eval tb (ra_quote a) ps = true -> wf_entry M3 (entry_of_r a ps) = true.
Proof.
  intros (H1 & (Hpre & Hloc) & H3 & H4 & H5 & _) Hv.
  assert (Hlay : CstNs.wf_layout (lay_of a) = true).
  { unfold CstNs.wf_layout, lay_of. cbn [CstNs.l_ws CstNs.l_ws1 CstNs.l_ws2 CstNs.l_quote]. rewrite H1, H3, H4. cbn [andb]. lia. }
  unfold wf_entry, entry_of_r. cbv zeta.
  destruct (bytes_eqb (utf8s (ra_pre a)) CstNs.xmlns_b).
  - cbn [e_layout e_value]. rewrite Hlay. cbn [lay_of CstNs.l_quote wf_val M3]. rewrite Hv. cbn [andb].
    destruct (ra_loc a); [reflexivity|exact Hloc].
  - assert (Ha : CstNs.wf_layout (e_layout epieces (@EAttr epieces (lay_of a) (mkq (ra_pre a) (ra_loc a)) ps)) &&
                 wf_val M3 (CstNs.l_quote (e_layout epieces (@EAttr epieces (lay_of a) (mkq (ra_pre a) (ra_loc a)) ps)))
                   (e_value epieces (@EAttr epieces (lay_of a) (mkq (ra_pre a) (ra_loc a)) ps)) &&
                 wf_qname (mkq (ra_pre a) (ra_loc a)) = true).
    { cbn [e_layout e_value]. rewrite Hlay. cbn [lay_of CstNs.l_quote wf_val M3]. rewrite Hv. cbn [andb].
      apply wf_qname_intro. split; assumption. }
    destruct (utf8s (ra_pre a)); [|exact Ha].
    destruct (bytes_eqb (utf8s (ra_loc a)) CstNs.xmlns_b); [|exact Ha].
    cbn [e_layout e_value]. rewrite Hlay. cbn [lay_of CstNs.l_quote wf_val M3]. rewrite Hv. reflexivity.
Qed.

(* ---- levels ---- *)
Definition levels_r := list (list item3 * bytes).

Fixpoint r_levels_r (fs : list frame) (lv : levels_r) : bytes :=
  match fs, lv with
  | f :: fs', (cs, w) :: lv' => r_items3 cs ++ [60; 47] ++ fq f ++ w ++ [62] ++ r_levels_r fs' lv'
  | _, _ => []
  end.

Definition level_ok_r (f : frame) (cw : list item3 * bytes) : Prop :=
  wf_items3 (fst cw) = true /\ no_adjacent_text epieces (fst cw) = true /\ Cst.wf_ws (snd cw) = true /\
  ns_oks (f_sc f) (dens3 (fst cw)) = true.
Definition lv_wf_r (fs : list frame) (lv : levels_r) : Prop := Forall2 level_ok_r fs lv.

Definition head_ok_r (lv : levels_r) : Prop :=
  match lv with (IText (p :: _) :: _, _) :: _ => E.is_elit p = false | _ => True end.

Definition cons_text_r (ps : list E.epiece) (cs : list item3) : list item3 :=
  match cs with IText qs :: r => @IText epieces (ps ++ qs) :: r | _ => @IText epieces ps :: cs end.

Lemma r_cons_text_r ps cs : r_items3 (cons_text_r ps cs) = E.r_epieces (enc_epieces ps) ++ r_items3 cs.
Proof.
  destruct cs as [|[n a w bd|qs|bs|t s v] r]; cbn [cons_text_r CstFullTree.r_items]; try reflexivity.
  cbn [r_item r_run epieces]. rewrite enc_epieces_app, r_epieces_app, <- app_assoc. reflexivity.
Qed.

Lemma no_adj_elit_app : forall ps qs, E.no_adjacent_elit ps = true -> E.no_adjacent_elit qs = true ->
  match qs with q :: _ => E.is_elit q = false | [] => True end -> E.no_adjacent_elit (ps ++ qs) = true.
Proof.
  induction ps as [|a ps IH]; intros qs H1 H2 Hq; [exact H2|].
  destruct ps as [|c r].
  - cbn [app]. destruct qs as [|q qs']; [reflexivity|].
    change (negb (E.is_elit a && E.is_elit q) && E.no_adjacent_elit (q :: qs') = true). rewrite Hq, andb_false_r. exact H2.
  - change (negb (E.is_elit a && E.is_elit c) && E.no_adjacent_elit (c :: r) = true) in H1.
    apply andb_true_iff in H1. destruct H1 as [A B].
    change (negb (E.is_elit a && E.is_elit c) && E.no_adjacent_elit ((c :: r) ++ qs) = true).
    rewrite A. apply IH; assumption.
Qed.

(* what a text item denotes: nothing that matters for the namespace rules *)
Lemma den_text_facts sc (x : list E.epiece) rest :
  ns_oks sc (den M3 (@IText epieces x) ++ rest) = ns_oks sc rest /\
  NT.items_decls (den M3 (@IText epieces x) ++ rest) = NT.items_decls rest /\
  NT.ns_costs sc (den M3 (@IText epieces x) ++ rest) = NT.ns_costs sc rest.
Proof. cbn [den run_sem ents_meaning]. destruct (erun_sem tb x); cbn [app]; auto. Qed.

Lemma no_adj_text_cons_text_r ps cs : no_adjacent_text epieces cs = true -> no_adjacent_text epieces (cons_text_r ps cs) = true.
Proof.
  intros H. destruct cs as [|[n a w bd|qs|bs|t s v] r]; cbn [cons_text_r]; try reflexivity.
  - change (negb (true && false) && no_adjacent_text epieces (IElem n a w bd :: r) = true). exact H.
  - destruct r as [|c0 r']; [reflexivity|]. exact H.
  - change (negb (true && false) && no_adjacent_text epieces (@IComment epieces bs :: r) = true). exact H.
  - change (negb (true && false) && no_adjacent_text epieces (@IPI epieces t s v :: r) = true). exact H.
Qed.

Lemma wf_cons_text_r ps cs : erun_parts decls ps -> wf_items3 cs = true ->
  (forall qs r, cs = IText qs :: r -> wf_erun tb qs = true -> E.no_adjacent_elit (ps ++ qs) = true) ->
  wf_items3 (cons_text_r ps cs) = true.
Proof.
  intros Hp Hc Hh. destruct cs as [|[n a w bd|qs|bs|t s v] r]; cbn [cons_text_r CstFullTree.wf_items] in *.
  - cbn [wf_item wf_run ents_meaning]. rewrite (wf_erun_intro decls _ Hp). reflexivity.
  - cbn [wf_item wf_run ents_meaning] in *. rewrite (wf_erun_intro decls _ Hp). exact Hc.
  - apply andb_true_iff in Hc. destruct Hc as [Hq Hr]. cbn [wf_item wf_run ents_meaning] in *. rewrite Hr, andb_true_r.
    apply (wf_erun_merge decls); [exact Hp|exact Hq|]. apply (Hh qs r eq_refl Hq).
  - cbn [wf_item wf_run ents_meaning] in *. rewrite (wf_erun_intro decls _ Hp). exact Hc.
  - cbn [wf_item wf_run ents_meaning] in *. rewrite (wf_erun_intro decls _ Hp). exact Hc.
Qed.

Lemma ns_oks_cons_text_r sc ps cs : ns_oks sc (dens3 (cons_text_r ps cs)) = ns_oks sc (dens3 cs).
Proof.
  destruct cs as [|[n a w bd|qs|bs|t s v] r]; cbn [cons_text_r CstFullTree.dens];
    rewrite ?(proj1 (den_text_facts sc _ _)); reflexivity.
Qed.

Lemma ns_oks_nonelem_r sc (i : item3) : match i with IElem _ _ _ _ => False | _ => True end -> ns_oks sc (den M3 i) = true.
Proof.
  destruct i as [? ? ? ?|x| |]; try contradiction; intros _; try reflexivity.
  rewrite <- (app_nil_r (den M3 (IText x))), (proj1 (den_text_facts sc x [])). reflexivity.
Qed.

(* ---- what the levels declare and cost (the two namespace resources) ---- *)

Fixpoint lv_decls_r (lv : levels_r) : list Scope.binding :=
  match lv with (cs, _) :: lv' => decls3 cs ++ lv_decls_r lv' | [] => [] end.
Fixpoint lv_cost_r (fs : list frame) (lv : levels_r) : nat :=
  match fs, lv with f :: fs', (cs, _) :: lv' => (costs3 (f_sc f) cs + lv_cost_r fs' lv')%nat | _, _ => 0%nat end.

Lemma decls_cons_text_r ps cs : decls3 (cons_text_r ps cs) = decls3 cs.
Proof.
  destruct cs as [|[n a w bd|qs|bs|t s v] r]; cbn [cons_text_r CstFullTree.dens];
    rewrite ?(proj1 (proj2 (den_text_facts [] _ _))); reflexivity.
Qed.
Lemma costs_cons_text_r sc ps cs : costs3 sc (cons_text_r ps cs) = costs3 sc cs.
Proof.
  destruct cs as [|[n a w bd|qs|bs|t s v] r]; cbn [cons_text_r CstFullTree.dens];
    rewrite ?(proj2 (proj2 (den_text_facts sc _ _))); reflexivity.
Qed.

Lemma decls_cons_r (i : item3) cs : decls3 (i :: cs) = NT.items_decls (den M3 i) ++ decls3 cs.
Proof. cbn [CstFullTree.dens]. apply CstFullTree.items_decls_app. Qed.
Lemma costs_cons_r sc (i : item3) cs : costs3 sc (i :: cs) = (NT.ns_costs sc (den M3 i) + costs3 sc cs)%nat.
Proof. cbn [CstFullTree.dens]. apply CstFullTree.ns_costs_app. Qed.

Lemma decls_nonelem_r (i : item3) : match i with IElem _ _ _ _ => False | _ => True end -> NT.items_decls (den M3 i) = [].
Proof.
  destruct i as [? ? ? ?|x| |]; try contradiction; intros _; try reflexivity.
  rewrite <- (app_nil_r (den M3 (IText x))), (proj1 (proj2 (den_text_facts [] x []))). reflexivity.
Qed.
Lemma costs_nonelem_r sc (i : item3) : match i with IElem _ _ _ _ => False | _ => True end -> NT.ns_costs sc (den M3 i) = 0%nat.
Proof.
  destruct i as [? ? ? ?|x| |]; try contradiction; intros _; try reflexivity.
  rewrite <- (app_nil_r (den M3 (IText x))), (proj2 (proj2 (den_text_facts sc x []))). reflexivity.
Qed.


Lemma decls_elem_r pre loc (es : list entry3) ws body :
  NT.items_decls (den M3 (IElem (mkq pre loc) es ws body)) =
  CstNs.own_bindings (map xe3 es) ++ match body with None => [] | Some (cs, _) => decls3 cs end.
Proof.
  rewrite CstFullTree.den_elem. cbn [NT.items_decls]. rewrite app_nil_r, NT.item_decls_elem.
  destruct body as [[cs w2]|]; reflexivity.
Qed.
Lemma costs_elem_r inh pre loc (es : list entry3) ws body :
  NT.ns_costs inh (den M3 (IElem (mkq pre loc) es ws body)) =
  (elem_cost (CstNs.own_bindings (map xe3 es)) (Scope.scope_of (CstNs.own_bindings (map xe3 es)) inh) +
   match body with None => 0 | Some (cs, _) => costs3 (Scope.scope_of (CstNs.own_bindings (map xe3 es)) inh) cs end)%nat.
Proof.
  rewrite CstFullTree.den_elem. cbn [NT.ns_costs]. rewrite Nat.add_0_r, NT.ns_cost_elem. unfold NT.esc, elem_cost.
  destruct body as [[cs w2]|]; reflexivity.
Qed.


(* the slices of a qualified name *)
Lemma qname_slices_r s pre loc rest : W s (rq pre loc ++ rest) ->
  sb (sl s (s + blen (utf8s pre))) = utf8s pre /\
  sb (sl (s + qoff pre) (s + qoff pre + blen (utf8s loc))) = utf8s loc /\
  slice_len (sl s (s + blen (utf8s pre))) = blen (utf8s pre).
Proof.
  intros HW. split; [|split; [|unfold slice_len; cbn [sl sl_start sl_end]; lia]].
  - unfold rq in HW. destruct pre as [|c pre].
    + cbn [CstU.utf8s flat_map]. change (blen []) with 0. apply (W_slice text s [] _ HW).
    + rewrite <- !app_assoc in HW. apply (W_slice text _ _ _ HW).
  - unfold rq, qoff in *. destruct pre as [|c pre].
    + rewrite N.add_0_r. apply (W_slice text _ _ _ HW).
    + rewrite <- !app_assoc in HW. pose proof (W_app text _ _ _ HW) as H1. pose proof (W_app text _ _ _ H1) as H2.
      change (blen [58]) with 1 in H2. rewrite <- N.add_assoc in H2. apply (W_slice text _ _ _ H2).
Qed.

Lemma wf_name_bytes_ne_r n : CstU.wf_name n = true -> utf8s n <> [].
Proof. intros H E. apply utf8s_nil_inv in E. subst. discriminate. Qed.

(* ---- the entries of a start tag ---- *)
Lemma attrs_steps_r : forall attrs q rest c1 c2 stk tp tn des,
  WV q (flat_map r_rattr attrs ++ rest) -> Forall rattr_ok attrs -> InTagP c1 stk tp tn des ->
  forall D K, Res c1 D K (CstNs.own_bindings des) ->
  evs (nattr_toks q attrs) c1 = Ok c2 ->
  exists es, InTagP c2 stk tp tn (des ++ map xe3 es) /\ erows c2 = erows c1 /\
             flat_map r_entry es = flat_map r_rattr attrs /\ forallb (wf_entry M3) es = true /\
             Res c2 D K (CstNs.own_bindings (des ++ map xe3 es)).
Proof.
  induction attrs as [|a attrs IH]; intros q rest c1 c2 stk tp tn des HWV Hok HI D K HR H.
  - cbn [nattr_toks CstLex.evs] in H. inversion H; subst. exists []. cbn [map]. rewrite app_nil_r. auto.
  - cbn [nattr_toks CstLex.evs] in H. ib H c1' H1. cbn [flat_map] in HWV. rewrite <- app_assoc in HWV.
    inversion Hok as [|? ? Hra Hras]; subst.
    pose proof Hra as (Hw1 & (Hpre & Hloc) & Hws1 & Hws2 & Hq & Hu & Hb).
    (* the windows *)
    pose proof HWV as HWa. unfold r_rattr in HWa. rewrite <- !app_assoc in HWa.
    assert (Hlit : forall w, Cst.wf_ws w = true -> forallb (fun y => y <? 128) w = true) by (intros w; apply ws_lit).
    assert (Hw1' : Cst.wf_ws (ra_ws a) = true) by (unfold Cst.wf_ws1 in Hw1; destruct (ra_ws a); [discriminate|exact Hw1]).
    pose proof (WV_lit text _ _ _ HWa (Hlit _ Hw1')) as Hn.
    assert (Hqv : U8.Valid (rq (ra_pre a) (ra_loc a))).
    { unfold rq. destruct Hpre as [->|Hp]; [apply CstFullLex.uname_valid; exact Hloc|].
      destruct (ra_pre a); [apply CstFullLex.uname_valid; exact Hloc|].
      apply U8.Valid_app; [apply CstFullLex.uname_valid; exact Hp|].
      apply U8.Valid_app; [apply Valid_lit; reflexivity|apply CstFullLex.uname_valid; exact Hloc]. }
    pose proof (WV_app text _ _ _ Hn Hqv) as H2. pose proof (WV_lit text _ _ _ H2 (Hlit _ Hws1)) as H3.
    pose proof (WV_lit text _ [61] _ H3 eq_refl) as H4. pose proof (WV_lit text _ _ _ H4 (Hlit _ Hws2)) as H5.
    assert (Hq128 : ra_quote a < 128) by lia.
    pose proof (WV_cons text _ _ _ H5 Hq128) as Hv. change (blen [61]) with 1 in *.
    destruct (qname_slices_r _ _ _ _ (WV_W _ _ _ Hn)) as (Sp & Sl & Slen).
    unfold nattr_tok in H1. cbv zeta in H1.
    set (vs := q + blen (ra_ws a) + blen (rq (ra_pre a) (ra_loc a)) + blen (ra_ws1 a) + 1 + blen (ra_ws2 a) + 1) in *.
    assert (Hnorm : forall v c0, normalize_attribute text (sl vs (vs + blen (utf8s (ra_val a)))) c1 = Ok (v, c0) -> c0 = c1).
    { intros v c0 Hn0. exact (proj1 (value_r text HF decls ets Henv Hdecls Hunref Hnames _ _ _ _ _ _ _ Hv Hu Hb Hq (tn_ent _ _ _ _ _ _ _ HI) (tn_ld _ _ _ _ _ _ _ HI) Hn0)). }
    destruct (step_attr_p text ets (lay_of a) _ _ _ _ _ _ _ _ _ _ _ _ HI ltac:(rewrite Slen, Sp; reflexivity)
                ltac:(rewrite Sl; apply wf_name_bytes_ne_r; exact Hloc) Hnorm H1) as (v & Hnv & HI' & R1 & Heff).
    pose proof (res_attr text _ _ D K des _ HR Heff) as HR'.
    destruct (value_r text HF decls ets Henv Hdecls Hunref Hnames _ _ _ _ _ _ _ Hv Hu Hb Hq (tn_ent _ _ _ _ _ _ _ HI) (tn_ld _ _ _ _ _ _ _ HI) Hnv)
      as (_ & ps & Eps & Hwf & Hst).
    rewrite Sp, Sl, Hst, <- entry_of_den_r in HI', HR'.
    assert (HWn : WV (q + blen (r_rattr a)) (flat_map r_rattr attrs ++ rest)).
    { pose proof (WV_app text _ _ _ Hv (Valid_uchars _ Hu)) as H7. pose proof (WV_cons text _ _ _ H7 Hq128) as H8.
      replace (q + blen (r_rattr a)) with (vs + blen (utf8s (ra_val a)) + 1); [exact H8|].
      unfold vs, r_rattr. rewrite !blen_app. change (blen [61]) with 1. change (blen [ra_quote a]) with 1. lia. }
    destruct (IH _ _ _ _ _ _ _ _ HWn Hras HI' D K HR' H) as (es & HI2 & R2 & E1 & E2 & HR2).
    exists (entry_of_r a ps :: es). cbn [map flat_map forallb]. rewrite <- app_assoc in HI2, HR2.
    split; [exact HI2|]. split; [congruence|]. split; [|split; [|exact HR2]].
    + rewrite E1, (entry_of_render_r a ps Hra Eps). reflexivity.
    + rewrite E2, (entry_of_wf_r a ps Hra Hwf). reflexivity.
Qed.

Definition elem_ok_r (inh : list Scope.binding) (pre loc : list N) (es : list entry3) (ws_end : bytes) : Prop :=
  wf_qname (mkq pre loc) = true /\ forallb (wf_entry M3) es = true /\ Cst.wf_ws ws_end = true /\
  ns_own inh (x_qname (mkq pre loc)) (map xe3 es) = true.

Definition frame_of_r (stk : list frame) (pre loc : list N) (es : list entry3) (nss : range) : frame :=
  {| f_pre := utf8s pre; f_loc := utf8s loc;
     f_sc := Scope.scope_of (CstNs.own_bindings (map xe3 es)) (top_sc stk); f_nss := nss |}.

Lemma tag_sound_r p pre loc attrs ws_end open l' c c1 c2 c' stk :
  WV p ([60] ++ rq pre loc ++ flat_map r_rattr attrs ++ ws_end ++ tag_tail (negb open) ++ l') ->
  qn_ok pre loc -> Forall rattr_ok attrs -> Cst.wf_ws ws_end = true -> SimP c stk ->
  forall D K, Res c D K [] ->
  T_ (nstart_tok p pre loc) c = Ok c1 ->
  evs (nattr_toks (p + 1 + blen (rq pre loc)) attrs) c1 = Ok c2 ->
  T_ (end_tok (p + 1 + blen (rq pre loc) + blen (flat_map r_rattr attrs) + blen ws_end) (negb open)) c2 = Ok c' ->
  exists es nss, SimP c' (if open then frame_of_r stk pre loc es nss :: stk else stk) /\
    flat_map r_entry es = flat_map r_rattr attrs /\ elem_ok_r (top_sc stk) pre loc es ws_end /\
    Res c' (D ++ CstNs.own_bindings (map xe3 es))
        (K + elem_cost (CstNs.own_bindings (map xe3 es)) (Scope.scope_of (CstNs.own_bindings (map xe3 es)) (top_sc stk))) [].
Proof.
  intros HWV (Hpre & Hloc) Hattrs Hwe HS D K HR H1 H2 H3.
  pose proof (WV_lit text _ [60] _ HWV eq_refl) as HW1. change (blen [60]) with 1 in HW1.
  destruct (qname_slices_r _ _ _ _ (WV_W _ _ _ HW1)) as (Sp & Sl & _).
  assert (Hqv : U8.Valid (rq pre loc)).
  { unfold rq. destruct Hpre as [->|Hp]; [apply CstFullLex.uname_valid; exact Hloc|].
    destruct pre; [apply CstFullLex.uname_valid; exact Hloc|].
    apply U8.Valid_app; [apply CstFullLex.uname_valid; exact Hp|].
    apply U8.Valid_app; [apply Valid_lit; reflexivity|apply CstFullLex.uname_valid; exact Hloc]. }
  pose proof (WV_app text _ _ _ HW1 Hqv) as HW2.
  unfold nstart_tok in H1.
  destruct (step_start_p text ets _ _ _ _ _ _ HS H1) as (HI & R1 & Hx).
  pose proof (Res_eq text _ _ _ _ _ (start_nseq text _ _ _ _ _ H1) HR) as HR1.
  destruct (attrs_steps_r _ _ _ _ _ _ _ _ _ HW2 Hattrs HI D K HR1 H2) as (es & HI2 & R2 & E1 & E2 & HR2).
  cbn [app] in HI2, HR2. unfold end_tok in H3.
  destruct (step_tagend_p text ets (if negb open then EEmpty else EOpen) _ _ _ _ _ _ _ HI2
              ltac:(destruct open; auto) H3) as (nss & HS' & _ & Hb & Hab & Hnd & Hvals & Heff).
  pose proof (res_tagend text _ _ D K _ _ HR2 (intag_own_len text ets _ _ _ _ _ HI2) Hvals Heff) as HR3.
  exists es, nss. rewrite Sp, Sl in HS'. split; [destruct open; exact HS'|]. split; [exact E1|].
  split; [|exact HR3].
  split; [apply wf_qname_intro; split; assumption|]. split; [exact E2|]. split; [exact Hwe|].
  unfold ns_own. cbv zeta. unfold x_qname, mkq. cbn [q_prefix q_local CstNs.q_prefix CstNs.q_local].
  change Scope.bytes_eqb with bytes_eqb. rewrite <- Sp, Hx. cbn [negb andb].
  rewrite (tn_eok _ _ _ _ _ _ _ HI2), (tn_uniq _ _ _ _ _ _ _ HI2). cbn [andb].
  rewrite Sp in Hb. rewrite Sp. rewrite Hb. cbn [andb]. rewrite attrs_bound, Hab. cbn [andb].
  rewrite sem_attrs_names. apply NoDup_enames_distinct. exact Hnd.
Qed.

(* ---- the content loop ---- *)
Definition Closed_r (D : list Scope.binding) (K : nat) (depth : N) (l : bytes) (stk : list frame) (s' : stream) (c' : context) : Prop :=
  exists lv l' p' opn rest,
    stk = opn ++ rest /\ N.of_nat (length lv) = depth + 1 /\
    l = r_levels_r opn lv ++ l' /\ s' = st p' l' /\ WV p' l' /\ SimP c' rest /\
    (text_stop l -> head_ok_r lv) /\ lv_wf_r opn lv /\
    Res c' (D ++ lv_decls_r lv) (K + lv_cost_r opn lv) [].

(* a non-text item in front *)
Lemma Closed_prepend_r D K depth (i : item3) l1 stk s' c' :
  Closed_r (D ++ NT.items_decls (den M3 i)) (K + NT.ns_costs (top_sc stk) (den M3 i)) depth l1 stk s' c' ->
  wf_item M3 i = true -> is_text epieces i = false ->
  ns_oks (top_sc stk) (den M3 i) = true ->
  Closed_r D K depth (r_item i ++ l1) stk s' c'.
Proof.
  intros (lv & l' & p' & opn & rest & E1 & E3 & E4 & E5 & E6 & E7 & E9 & E10 & E11) Hwf Htx Hns.
  inversion E10 as [|n [cs w] opn' lv' (A1 & A2 & A3 & A4) Hr]; subst; [cbn [length] in E3; lia|].
  exists ((i :: cs, w) :: lv'), l', p', (n :: opn'), rest.
  split; [reflexivity|]. split; [exact E3|]. split.
  { cbn [r_levels_r CstFullTree.r_items]. rewrite <- !app_assoc. reflexivity. }
  split; [reflexivity|]. split; [exact E6|]. split; [exact E7|]. split.
  { intros _. destruct i; try exact I. discriminate. }
  cbn [fst snd] in *. split.
  2:{ cbn [lv_decls_r lv_cost_r top_sc app] in *. rewrite decls_cons_r, costs_cons_r.
      rewrite <- !app_assoc in E11. rewrite <- Nat.add_assoc in E11. rewrite <- app_assoc, <- Nat.add_assoc. exact E11. }
  constructor; [|exact Hr]. unfold level_ok_r. cbn [fst snd CstFullTree.wf_items CstFullTree.dens].
  rewrite Hwf, A1. split; [reflexivity|]. split; [|split; [exact A3|]].
  - destruct cs as [|c0 r]; [reflexivity|].
    change (no_adjacent_text epieces (i :: c0 :: r)) with
      (negb (is_text epieces i && is_text epieces c0) && no_adjacent_text epieces (c0 :: r)).
    rewrite A2, Htx. reflexivity.
  - rewrite CstFullTree.ns_oks_app, A4, andb_true_r. exact Hns.
Qed.

(* comments and processing instructions declare nothing and cost nothing *)
Lemma Closed_prepend_leaf_r D K depth (i : item3) l1 stk s' c' :
  Closed_r D K depth l1 stk s' c' -> wf_item M3 i = true -> is_text epieces i = false ->
  match i with IElem _ _ _ _ => False | _ => True end ->
  Closed_r D K depth (r_item i ++ l1) stk s' c'.
Proof.
  intros HC Hwf Htx Hne. apply Closed_prepend_r; [|exact Hwf|exact Htx|apply ns_oks_nonelem_r; exact Hne].
  rewrite (decls_nonelem_r i Hne), (costs_nonelem_r _ i Hne), app_nil_r, Nat.add_0_r. exact HC.
Qed.

(* a text fragment in front: it joins the run at the head, if there is one *)
Lemma Closed_prepend_frag_r D K depth ps l1 stk s' c' :
  Closed_r D K depth l1 stk s' c' -> erun_parts decls ps ->
  (forall lv qs r w lv', lv = (IText qs :: r, w) :: lv' -> (text_stop l1 -> head_ok_r lv) -> wf_erun tb qs = true ->
     E.no_adjacent_elit (ps ++ qs) = true) ->
  (text_stop (E.r_epieces (enc_epieces ps) ++ l1) -> match ps with q :: _ => E.is_elit q = false | [] => True end) ->
  Closed_r D K depth (E.r_epieces (enc_epieces ps) ++ l1) stk s' c'.
Proof.
  intros (lv & l' & p' & opn & rest & E1 & E3 & E4 & E5 & E6 & E7 & E9 & E10 & E11) Hps Hmerge Hhd.
  inversion E10 as [|n [cs w] opn' lv' (A1 & A2 & A3 & A4) Hr]; subst; [cbn [length] in E3; lia|].
  exists ((cons_text_r ps cs, w) :: lv'), l', p', (n :: opn'), rest.
  split; [reflexivity|]. split; [exact E3|]. split.
  { cbn [r_levels_r]. rewrite r_cons_text_r, <- !app_assoc. reflexivity. }
  split; [reflexivity|]. split; [exact E6|]. split; [exact E7|]. split.
  { intros Hs. specialize (Hhd Hs). destruct Hps as (_ & _ & Hne & _). destruct ps as [|q ps']; [congruence|].
    destruct cs as [|[n0 a0 w0 bd|qs|bs|t s v] r]; cbn [cons_text_r head_ok_r app]; exact Hhd. }
  cbn [fst snd] in *. split.
  2:{ cbn [lv_decls_r lv_cost_r] in *. rewrite decls_cons_text_r, costs_cons_text_r. exact E11. }
  constructor; [|exact Hr]. unfold level_ok_r. cbn [fst snd].
  split; [|split; [apply no_adj_text_cons_text_r; exact A2|split; [exact A3|rewrite ns_oks_cons_text_r; exact A4]]].
  apply wf_cons_text_r; [exact Hps|exact A1|].
  intros qs r -> Hq. eapply Hmerge; [reflexivity|exact E9|exact Hq].
Qed.

Lemma Closed_prepend_text_r D K depth ps l1 stk s' c' :
  Closed_r D K depth l1 stk s' c' -> erun_parts decls ps -> text_stop l1 ->
  (text_stop (E.r_epieces (enc_epieces ps) ++ l1) -> match ps with q :: _ => E.is_elit q = false | [] => True end) ->
  Closed_r D K depth (E.r_epieces (enc_epieces ps) ++ l1) stk s' c'.
Proof.
  intros HC Hps Hst Hhd. apply Closed_prepend_frag_r; [exact HC|exact Hps| |exact Hhd].
  intros lv qs r w lv' -> Hh Hq. specialize (Hh Hst). cbn [head_ok_r] in Hh.
  apply no_adj_elit_app; [apply Hps|apply (wf_erun_no_adj decls); exact Hq|]. destruct qs; [exact I|exact Hh].
Qed.

Lemma Closed_prepend_cdata_r D K depth cs l1 stk s' c' :
  Closed_r D K depth l1 stk s' c' -> wf_utpiece (T.PCData cs) = true ->
  Closed_r D K depth (T.cdata_open ++ utf8s cs ++ T.cdata_close ++ l1) stk s' c'.
Proof.
  intros HC Hwf.
  pose proof (Closed_prepend_frag_r D K depth [E.EP (T.PCData cs)] l1 stk s' c' HC) as H.
  unfold enc_epieces in H. cbn [map enc_epiece enc_piece E.r_epieces flat_map E.r_epiece T.r_piece] in H. rewrite app_nil_r, <- !app_assoc in H. apply H.
  - apply erun_parts_cdata. exact Hwf.
  - intros lv qs r w lv' _ _ Hq. cbn [app]. destruct qs as [|q qs']; [reflexivity|].
    change (negb (false && E.is_elit q) && E.no_adjacent_elit (q :: qs') = true). apply (wf_erun_no_adj decls). exact Hq.
  - intros _. reflexivity.
Qed.

Lemma wf_elem_intro_r inh pre loc es ws_end body : elem_ok_r inh pre loc es ws_end ->
  match body with
  | None => True
  | Some (cs, ws2) => Cst.wf_ws ws2 = true /\ no_adjacent_text epieces cs = true /\ wf_items3 cs = true /\
      ns_oks (Scope.scope_of (CstNs.own_bindings (map xe3 es)) inh) (dens3 cs) = true
  end ->
  wf_item M3 (IElem (mkq pre loc) es ws_end body) = true /\
  ns_oks inh (den M3 (IElem (mkq pre loc) es ws_end body)) = true.
Proof.
  intros (H1 & H2 & H3 & H4) Hb. split.
  - rewrite CstFullTree.wf_item_elem, H1, H2, H3. cbn [andb]. destruct body as [[cs ws2]|]; [|reflexivity].
    destruct Hb as (B1 & B2 & B3 & _). rewrite B1, B2, B3. reflexivity.
  - rewrite CstFullTree.den_elem. cbn [CstFullTree.ns_oks]. rewrite andb_true_r, CstFullTree.ns_ok_elem. cbv zeta.
    unfold CstNsTree.esc. unfold ns_own in H4. cbv zeta in H4. rewrite H4. cbn [andb].
    destruct body as [[cs ws2]|]; [|reflexivity]. apply Hb.
Qed.

Lemma Closed_nest_r D K depth pre loc es ws_end nss l1 stk s' c' :
  Closed_r (D ++ CstNs.own_bindings (map xe3 es))
           (K + elem_cost (CstNs.own_bindings (map xe3 es)) (Scope.scope_of (CstNs.own_bindings (map xe3 es)) (top_sc stk)))
           (depth + 1) l1 (frame_of_r stk pre loc es nss :: stk) s' c' -> elem_ok_r (top_sc stk) pre loc es ws_end ->
  N.of_nat (length stk) = depth + 1 ->
  Closed_r D K depth ([60] ++ rq pre loc ++ flat_map r_entry es ++ ws_end ++ [62] ++ l1) stk s' c'.
Proof.
  intros (lv & l' & p' & opn & rest & E1 & E3 & E4 & E5 & E6 & E7 & E9 & E10 & E11) Hok Hlen.
  inversion E10 as [|n0 [cs_in w_in] opn1 lv1 (A1 & A2 & A3 & A4) Hr1]; subst; [cbn [length] in E3; lia|].
  inversion Hr1 as [|n1 [cs w] opn' lv' (B1 & B2 & B3 & B4) Hr']; subst; [cbn [length] in E3; lia|].
  cbn [app] in E1. injection E1 as En Estk. subst n0.
  set (item := IElem (mkq pre loc) es ws_end (Some (cs_in, w_in))).
  exists ((item :: cs, w) :: lv'), l', p', (n1 :: opn'), rest.
  split; [exact Estk|]. split; [cbn [length] in *; lia|]. split.
  { cbn [r_levels_r CstFullTree.r_items]. unfold item. rewrite CstFullTree.r_item_elem, rq_eq.
    unfold fq, frame_of_r. cbn [f_pre f_loc].
    change (CstNs.r_qname {| CstNs.q_prefix := utf8s pre; CstNs.q_local := utf8s loc |}) with (r_qname (mkq pre loc)).
    rewrite rq_eq. rewrite <- !app_assoc. cbn [app]. rewrite <- ?app_assoc. reflexivity. }
  split; [reflexivity|]. split; [exact E6|]. split; [exact E7|]. split; [intros _; exact I|].
  cbn [fst snd] in *.
  assert (Htop : top_sc stk = f_sc n1) by (rewrite Estk; reflexivity).
  destruct (wf_elem_intro_r (top_sc stk) pre loc es ws_end (Some (cs_in, w_in)) Hok) as (W1 & W2).
  { split; [exact A3|]. split; [exact A2|]. split; [exact A1|exact A4]. }
  split.
  2:{ cbn [lv_decls_r lv_cost_r] in *. rewrite decls_cons_r, costs_cons_r. unfold item.
      rewrite decls_elem_r, (costs_elem_r (f_sc n1)). cbn [frame_of_r f_sc] in E11. rewrite Htop in E11.
      rewrite <- !app_assoc in E11. rewrite <- !app_assoc. rewrite <- !Nat.add_assoc in E11. rewrite <- !Nat.add_assoc. exact E11. }
  constructor; [|exact Hr']. unfold level_ok_r. cbn [fst snd CstFullTree.wf_items CstFullTree.dens].
  fold item in W1, W2. rewrite W1, B1. split; [reflexivity|]. split; [|split; [exact B3|]].
  - destruct cs as [|c0 r]; [reflexivity|].
    change (no_adjacent_text epieces (item :: c0 :: r)) with
      (negb (is_text epieces item && is_text epieces c0) && no_adjacent_text epieces (c0 :: r)).
    rewrite B2. reflexivity.
  - rewrite CstFullTree.ns_oks_app, B4, andb_true_r, <- Htop. exact W2.
Qed.

Lemma Closed_prepend_empty_r D K depth pre loc es ws_end l1 stk s' c' :
  Closed_r (D ++ CstNs.own_bindings (map xe3 es))
           (K + elem_cost (CstNs.own_bindings (map xe3 es)) (Scope.scope_of (CstNs.own_bindings (map xe3 es)) (top_sc stk)))
           depth l1 stk s' c' -> elem_ok_r (top_sc stk) pre loc es ws_end ->
  Closed_r D K depth ([60] ++ rq pre loc ++ flat_map r_entry es ++ ws_end ++ [47; 62] ++ l1) stk s' c'.
Proof.
  intros HC Hok.
  pose proof (Closed_prepend_r D K depth (IElem (mkq pre loc) es ws_end None) l1 stk s' c') as H.
  rewrite CstFullTree.r_item_elem, rq_eq in H. rewrite <- !app_assoc in H.
  destruct (wf_elem_intro_r (top_sc stk) pre loc es ws_end None Hok I) as (W1 & W2).
  apply H; [|exact W1|reflexivity|exact W2].
  rewrite decls_elem_r, costs_elem_r, app_nil_r, Nat.add_0_r. exact HC.
Qed.

Lemma Closed_close_r D K depth f ws2 l1 stk' s' c' :
  Closed_r D K (depth - 1) l1 stk' s' c' -> 0 < depth -> Cst.wf_ws ws2 = true ->
  Closed_r D K depth ([60; 47] ++ fq f ++ ws2 ++ [62] ++ l1) (f :: stk') s' c'.
Proof.
  intros (lv & l' & p' & opn & rest & E1 & E3 & E4 & E5 & E6 & E7 & E9 & E10 & E11) Hd Hw.
  exists (([], ws2) :: lv), l', p', (f :: opn), rest.
  split; [rewrite E1; reflexivity|]. split; [cbn [length]; lia|]. split.
  { rewrite E4. cbn [r_levels_r CstFullTree.r_items app]. rewrite <- !app_assoc. reflexivity. }
  split; [exact E5|]. split; [exact E6|]. split; [exact E7|]. split; [intros _; exact I|].
  split; [|exact E11].
  constructor; [|exact E10]. unfold level_ok_r. cbn. auto.
Qed.

Lemma Closed_base_r D K f ws2 l' p' stk' c' : WV p' l' -> SimP c' stk' -> Cst.wf_ws ws2 = true -> Res c' D K [] ->
  Closed_r D K 0 ([60; 47] ++ fq f ++ ws2 ++ [62] ++ l') (f :: stk') (st p' l') c'.
Proof.
  intros HW HS Hw HR. exists [([], ws2)], l', p', [f], stk'.
  split; [reflexivity|]. split; [reflexivity|]. split.
  { cbn [r_levels_r CstFullTree.r_items app]. rewrite <- !app_assoc. reflexivity. }
  split; [reflexivity|]. split; [exact HW|]. split; [exact HS|]. split; [intros _; exact I|].
  split; [|cbn [lv_decls_r lv_cost_r CstFullTree.dens NT.items_decls NT.ns_costs app]; rewrite app_nil_r, !Nat.add_0_r; exact HR].
  constructor; [|constructor]. unfold level_ok_r. cbn. auto.
Qed.

Lemma content_sound_r : forall fuel depth p l c s' c' stk D K,
  WV p l -> bom_len text < p -> SimP c stk -> Res c D K [] -> N.of_nat (length stk) = depth + 1 ->
  parse_content_loop text context T_ fuel depth (st p l) c = Ok (s', c') ->
  Closed_r D K depth l stk s' c' \/ exists stk2 p2 l2, s' = st p2 l2 /\ WV p2 l2 /\ SimP c' stk2 /\ stk2 <> [] /\ bom_len text < p2.
Proof.
  induction fuel as [|fu IH]; intros depth p l c s' c' stk D K HWV Hbp HS HR Hlen H;
    cbn [parse_content_loop] in H; [noerr|].
  pose proof (WV_W _ _ _ HWV) as HW.
  rewrite (at_end_st text) in H by exact HW.
  destruct l as [|x l0].
  { inversion H; subst. right. exists stk, p, [].
    split; [reflexivity|]. split; [exact HWV|]. split; [exact HS|].
    split; [destruct stk; [cbn [length] in Hlen; lia|discriminate]|exact Hbp]. }
  cbn [curr_byte_unchecked CstLex.st s_rest bind] in H. fold (st p (x :: l0)) in H.
  destruct (x =? 60) eqn:E60.
  2:{ (* a text token *)
    ib H q Hq. destruct q as [s1 c1].
    destruct (inv_text_p text context T_ _ _ _ _ _ _ HWV ltac:(lia) Hq) as (cs & l1 & El & Hraw & Hstop & -> & HW1 & Hev).
    rewrite El in HWV.
    destruct (step_text_r text HF decls ets Henv Hdecls Hunref Hnames _ _ _ _ _ _ HWV Hraw HS Hev) as (HS1 & Hnq & _ & ps & Eps & Hps).
    pose proof (Res_eq text _ _ _ _ _ Hnq HR) as HR1.
    destruct (IH _ _ _ _ _ _ _ _ _ HW1 ltac:(lia) HS1 HR1 Hlen H) as [HC|HU]; [left|right; exact HU].
    rewrite El, Eps. apply Closed_prepend_text_r; [exact HC|exact Hps|exact Hstop|].
    intros Hs. exfalso. rewrite <- Eps, <- El in Hs. cbn [text_stop] in Hs. lia. }
  assert (x = 60) by lia. subst x.
  destruct l0 as [|y l1].
  { unfold next_byte in H. cbn [CstLex.st s_pos s_end s_rest] in H. destruct HW as [_ HW].
    unfold blen in HW. cbn [length] in HW. replace (tlen text <=? p + 1) with true in H by lia. noerr. }
  rewrite (next_byte_st text) in H by exact HW.
  destruct (y =? 33) eqn:E33.
  { assert (y = 33) by lia. subst y. rewrite !(starts_with_st text) in H by exact HW.
    destruct (prefix_b (b "<!--") (60 :: 33 :: l1)) eqn:Ec.
    - change (b "<!--") with [60; 33; 45; 45] in Ec. destruct (prefix_b_split _ _ Ec) as (l2 & El).
      rewrite El in H, HWV. ib H q Hq. destruct q as [s1 c1].
      destruct (inv_comment_p text HF context T_ _ _ _ _ _ HWV Hq) as (bs & l3 & -> & Hwf & -> & HW1 & Hev).
      destruct (step_comment_p text ets _ _ _ _ _ HS Hev) as (HS1 & _).
      pose proof (Res_eq text _ _ _ _ _ (leaf_nseq text _ _ _ _ Hev) HR) as HR1.
      destruct (IH _ _ _ _ _ _ _ _ _ HW1 ltac:(lia) HS1 HR1 Hlen H) as [HC|HU]; [left|right; exact HU].
      rewrite El. pose proof (Closed_prepend_leaf_r D K depth (@IComment epieces bs) l3 stk s' c' HC) as HP.
      cbn [r_item Cst.r_item] in HP. rewrite <- !app_assoc in HP. apply HP; [exact Hwf|reflexivity|exact I].
    - destruct (prefix_b (b "<![CDATA[") (60 :: 33 :: l1)) eqn:Ed; [|noerr].
      change (b "<![CDATA[") with [60; 33; 91; 67; 68; 65; 84; 65; 91] in Ed. destruct (prefix_b_split _ _ Ed) as (l2 & El).
      rewrite El in H, HWV. ib H q Hq. destruct q as [s1 c1].
      destruct (inv_cdata_p text context T_ _ _ _ _ _ HWV Hq) as (cs & l3 & -> & Hu & Hnc & -> & HW1 & Hev).
      unfold cdata_tok in Hev.
      destruct (step_cdata_p text ets _ _ _ _ _ HS Hev) as (HS1 & _).
      pose proof (Res_eq text _ _ _ _ _ (cdata_nseq text _ _ _ _ Hev) HR) as HR1.
      destruct (IH _ _ _ _ _ _ _ _ _ HW1 ltac:(lia) HS1 HR1 Hlen H) as [HC|HU]; [left|right; exact HU].
      rewrite El. apply (Closed_prepend_cdata_r D K depth cs l3 stk s' c' HC).
      cbn [wf_utpiece]. rewrite contains_eq. change T.cdata_close with [93; 93; 62]. rewrite Hnc, andb_true_r.
      apply uchars_xml. exact Hu. }
  destruct (y =? 63) eqn:E63.
  { assert (y = 63) by lia. subst y. ib H q Hq. destruct q as [s1 c1].
    change (60 :: 63 :: l1) with ([60; 63] ++ l1) in *.
    destruct (inv_pi_p text HF context T_ _ _ _ _ _ HWV (xml_at_pos text HF _ _ HW Hbp) Hq) as (tg & sep & v & l3 & -> & Hwf & -> & HW1 & Hev).
    unfold pi_tok in Hev. cbv zeta in Hev.
    destruct (step_pi_p text ets _ _ _ _ _ _ HS Hev) as (HS1 & _).
    pose proof (Res_eq text _ _ _ _ _ (leaf_nseq text _ _ _ _ Hev) HR) as HR1.
    destruct (IH _ _ _ _ _ _ _ _ _ HW1 ltac:(lia) HS1 HR1 Hlen H) as [HC|HU]; [left|right; exact HU].
    pose proof (Closed_prepend_leaf_r D K depth (@IPI epieces tg sep v) l3 stk s' c' HC) as HP.
    cbn [r_item Cst.r_item] in HP. rewrite <- !app_assoc in HP. apply HP; [exact Hwf|reflexivity|exact I]. }
  destruct (y =? 47) eqn:E47.
  { assert (y = 47) by lia. subst y. ib H q Hq. destruct q as [s1 c1].
    change (60 :: 47 :: l1) with ([60; 47] ++ l1) in *.
    destruct (inv_close_p text HF context T_ _ _ _ _ _ HWV Hq) as (pre & loc & ws2 & l3 & -> & Hname & Hws & -> & HW1 & Hev).
    unfold nclose_tok in Hev.
    destruct (step_close_p text ets _ _ _ _ _ _ HS Hev) as (f & stk' & Estk & Ep & El & HS1 & _ & Hnq).
    pose proof (Res_eq text _ _ _ _ _ Hnq HR) as HR1.
    pose proof (W_app text _ _ _ HW) as HWn. change (blen [60; 47]) with 2 in HWn.
    destruct (qname_slices_r _ _ _ _ HWn) as (Sp & Sl & _). rewrite Sp in Ep. rewrite Sl in El.
    assert (Efq : fq f = rq pre loc).
    { unfold fq. rewrite <- Ep, <- El. change (CstNs.r_qname {| CstNs.q_prefix := utf8s pre; CstNs.q_local := utf8s loc |}) with (r_qname (mkq pre loc)).
      apply rq_eq. }
    rewrite <- Efq. subst stk.
    destruct (depth =? 0) eqn:Ed.
    - inversion H; subst. assert (depth = 0) by lia. subst depth. left. apply Closed_base_r; assumption.
    - assert (Hlen' : N.of_nat (length stk') = depth - 1 + 1) by (cbn [length] in Hlen; lia).
      destruct (IH _ _ _ _ _ _ _ _ _ HW1 ltac:(lia) HS1 HR1 Hlen' H) as [HC|HU]; [left|right; exact HU].
      apply Closed_close_r; [exact HC|lia|exact Hws]. }
  (* a start tag *)
  ib H q Hq. destruct q as [[open s1] c1].
  change (60 :: y :: l1) with ([60] ++ (y :: l1)) in *.
  destruct (inv_element_p text HF context T_ _ _ _ _ _ _ HWV Hq)
    as (pre & loc & attrs & ws_end & l3 & ca & cb & El & Hname & Hraw & Hwe & Hev1 & Hev2 & Hev3 & -> & HW1).
  rewrite El in HWV.
  destruct (tag_sound_r _ _ _ _ _ _ _ _ _ _ _ _ HWV Hname Hraw Hwe HS D K HR Hev1 Hev2 Hev3) as (es & nss & HS1 & Ees & Hok & HR1).
  rewrite El, <- Ees. destruct open.
  - assert (Hlen' : N.of_nat (length (frame_of_r stk pre loc es nss :: stk)) = depth + 1 + 1).
    { cbn [length]. rewrite Nat2N.inj_succ. etransitivity; [apply f_equal; exact Hlen|lia]. }
    destruct (IH _ _ _ _ _ _ _ _ _ HW1 ltac:(lia) HS1 HR1 Hlen' H) as [HC|HU]; [left|right; exact HU].
    cbn [negb tag_tail] in *. eapply Closed_nest_r; eassumption.
  - destruct (IH _ _ _ _ _ _ _ _ _ HW1 ltac:(lia) HS1 HR1 Hlen H) as [HC|HU]; [left|right; exact HU].
    cbn [negb tag_tail] in *. apply Closed_prepend_empty_r; assumption.
Qed.

End MainR.
