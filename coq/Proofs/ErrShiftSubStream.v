(* Proofs/ErrShiftSubStream.v -- C14 (inside the internal subset), part 4.  COPY of
   ErrShiftEntStream.v over ErrShiftSubBase.v (margin 2), otherwise unchanged.  Original header:
   Proofs/ErrShiftSubStream.v -- C14 (entities), part 2: every Stream primitive run on T2 from the
   stream [F hi s] does what it does on T1 from s, moved by [dd hi]; the results of the first run
   lie on the side hi again. *)
From Coq Require Import List Arith NArith Bool Lia ZifyBool ZifyN ZifyNat.
Import ListNotations.
From RX Require Import Generated.
From RX.Model Require Import Base CharClass Stream.
From RX.Proofs Require Import Tactics NoPanicUtf8 NoPanicStream PositionProofs RangeShiftBase RangeShiftStream
  ErrShiftBase ErrShiftSubBase.
Open Scope N_scope.

Definition TT {A} (_ : A) : Prop := True.

Lemma blen_cons x (r : bytes) : blen (x :: r) = 1 + blen r.
Proof. unfold blen. cbn [length]. lia. Qed.

Lemma decode1_len_le l c n : decode1 l = Some (c, n) -> (N.to_nat n <= length l)%nat.
Proof.
  unfold decode1. destruct l as [|b0 l]; [discriminate|].
  destruct (b0 <? 128); [intros [= _ <-]; cbn; lia|]. destruct (b0 <? 192); [discriminate|].
  destruct (b0 <? 224). { destruct l as [|b1 l]; [discriminate|]. destruct (is_cont b1); [intros [= _ <-]; cbn; lia|discriminate]. }
  destruct (b0 <? 240). { destruct l as [|b1 [|b2 l]]; try discriminate. destruct (_ && _); [intros [= _ <-]; cbn; lia|discriminate]. }
  destruct (b0 <? 248); [|discriminate].
  destruct l as [|b1 [|b2 [|b3 l]]]; try discriminate. destruct (_ && _); [intros [= _ <-]; cbn; lia|discriminate].
Qed.

Section Ent.
Variable S : setting.
Notation pre := (st_pre S).
Notation ws := (st_ws S).
Notation post := (st_post S).
Notation T1 := (pre ++ post).
Notation T2 := (pre ++ ws ++ post).
Notation P := (blen pre).
Notation k := (blen ws).
Notation psim := (psim S).
Notation F := (F S).
Notation SI := (SI S).
Notation LS := (LS S).
Notation NS := (NS S).
Notation dd := (dd S).

Variable hi : bool.
Notation d := (dd hi).
Notation Fh := (F hi).
Notation shl := (sh_sl d).

Ltac eat := apply (err_at_ps S); [pc|assumption].
Ltac efr := apply (err_from_ps S hi); [pc|first [assumption|eapply SI_NS; eassumption]|first [reflexivity|lia]].

Lemma curr_byte_ps s : SI hi s -> psim TT idf (curr_byte s) (curr_byte (Fh s)).
Proof.
  intros H. rewrite (curr_byte_F S) by exact H. apply id_psim. unfold curr_byte, curr_byte_unchecked.
  destruct (at_end s); [reflexivity|]. destruct (s_rest s); exact I.
Qed.

Lemma curr_byte_unchecked_ps s : SI hi s -> psim TT idf (curr_byte_unchecked s) (curr_byte_unchecked (Fh s)).
Proof.
  intros H. rewrite (curr_byte_unchecked_F S) by exact H. apply id_psim. unfold curr_byte_unchecked.
  destruct (s_rest s); exact I.
Qed.

Lemma next_char_ps s : SI hi s ->
  psim (fun oc => match oc with Some (c, n) => s_pos s + n <= s_end s | None => True end) idf
       (next_char s) (next_char (Fh s)).
Proof.
  intros H. rewrite (next_char_F S) by exact H. destruct (next_char s) as [oc| | |] eqn:E; cbn.
  - split; [|reflexivity]. destruct oc as [[c n]|]; [|exact I]. eapply next_char_n; eassumption.
  - unfold next_char in E. destruct (at_end s); [discriminate|]. destruct (decode1 _) as [[c n]|]; [|discriminate].
    destruct (_ <? _); discriminate.
  - reflexivity.
  - exact I.
Qed.

Lemma advance_ps' n s : SI hi s -> psim (SI hi) Fh (advance n s) (advance n (Fh s)).
Proof. intros H. eapply psim_weaken; [apply (advance_ps S); exact H|]. intros a [Ha _]. auto. Qed.

Lemma consume_byte_ps c s : SI hi s -> psim (SI hi) Fh (consume_byte T1 c s) (consume_byte T2 c (Fh s)).
Proof.
  intros H. unfold consume_byte.
  eapply psim_bind; [apply curr_byte_ps; exact H|]. intros x _. unfold idf.
  destruct (negb (x =? c)); [eat|apply advance_ps'; exact H].
Qed.

Lemma try_consume_byte_F c s : SI hi s ->
  try_consume_byte c (Fh s) = pmap idf Fh (try_consume_byte c s) /\ SI hi (snd (try_consume_byte c s)).
Proof.
  intros H. unfold try_consume_byte. rewrite (curr_byte_opt_F S) by exact H.
  destruct (curr_byte_opt s) as [x|]; [|split; [reflexivity|exact H]].
  destruct (x =? c); [|split; [reflexivity|exact H]].
  pose proof (advance_ps' 1 s H) as A. destruct (advance 1 s) as [s'| | |] eqn:E; cbn in A.
  - destruct A as [A1 ->]. split; [reflexivity|exact A1].
  - destruct A as [e' [-> _]]. split; [reflexivity|exact H].
  - rewrite A. split; [reflexivity|exact H].
  - unfold advance in E. destruct (_ <? _); discriminate.
Qed.

Lemma skip_string_ps p s : SI hi s -> psim (SI hi) Fh (skip_string T1 p s) (skip_string T2 p (Fh s)).
Proof.
  intros H. unfold skip_string. rewrite (starts_with_F S) by exact H.
  destruct (negb (starts_with s p)); [eat|apply advance_ps'; exact H].
Qed.

Definition LSI (x : slice * stream) : Prop := LS hi (fst x) /\ SI hi (snd x).

Lemma slice_back_ps' start s : NS hi start -> SI hi s ->
  psim (LS hi) shl (slice_back T1 start s) (slice_back T2 (start + d) (Fh s)).
Proof.
  intros H1 H2. eapply psim_weaken; [apply (slice_back_ps S); assumption|]. intros a [Ha _]. auto.
Qed.

Lemma consume_bytes_ps f s : SI hi s ->
  psim LSI (pmap shl Fh) (consume_bytes T1 f s) (consume_bytes T2 f (Fh s)).
Proof.
  intros H. unfold consume_bytes. cbv zeta. destruct (skip_bytes_F S hi f s H) as [E H'].
  rewrite E, (s_pos_F S).
  eapply psim_bind; [apply slice_back_ps'; [eapply SI_NS; eassumption|exact H']|]. intros sl Hsl.
  apply psim_ret; [split; assumption|reflexivity].
Qed.

Lemma consume_spaces_ps s : SI hi s -> psim (SI hi) Fh (consume_spaces T1 s) (consume_spaces T2 (Fh s)).
Proof.
  intros H. unfold consume_spaces. rewrite (at_end_F S), (starts_with_space_F S) by exact H.
  destruct (at_end s); [apply psim_same_err; reflexivity|].
  destruct (negb (starts_with_space s)).
  - eapply psim_bind; [apply curr_byte_unchecked_ps; exact H|]. intros c _. unfold idf. eat.
  - destruct (skip_spaces_F S hi s H) as [E H']. rewrite E. apply psim_ret; [exact H'|reflexivity].
Qed.

Lemma advance_until2_ps n1 n2 s : SI hi s ->
  psim (SI hi) Fh (advance_until2 n1 n2 s) (advance_until2 n1 n2 (Fh s)).
Proof.
  intros H. unfold advance_until2. rewrite (avail_F S) by exact H.
  destruct (find_idx _ (avail s)); [apply advance_ps'; exact H|apply psim_same_err; reflexivity].
Qed.

Lemma skip_chars_loop_ps f : (forall s c, SI hi s -> f (Fh s) c = f s c) ->
  forall fu1 fu2 s, (fu1 <= fu2)%nat -> SI hi s ->
    psim (SI hi) Fh (skip_chars_loop T1 fu1 f s) (skip_chars_loop T2 fu2 f (Fh s)).
Proof.
  intros Hf. induction fu1 as [|fu IH]; intros fu2 s Hle H; [exact I|].
  destruct fu2 as [|fu2]; [lia|]. cbn [skip_chars_loop].
  eapply psim_bind; [apply next_char_ps; exact H|]. intros oc Hoc. unfold idf.
  destruct oc as [[c n]|]; [|apply psim_ret; [exact H|reflexivity]].
  destruct (negb (char_is_char c)); [eat|].
  rewrite Hf by exact H. destruct (f s c); [|apply psim_ret; [exact H|reflexivity]].
  eapply psim_bind; [apply advance_ps'; exact H|]. intros s1 H1. apply IH; [lia|exact H1].
Qed.

Lemma skip_chars_ps f s : (forall s c, SI hi s -> f (Fh s) c = f s c) -> SI hi s ->
  psim (SI hi) Fh (skip_chars T1 f s) (skip_chars T2 f (Fh s)).
Proof.
  intros Hf H. unfold skip_chars. apply skip_chars_loop_ps; [exact Hf| |exact H].
  pose proof (rest_len_le S hi s H). lia.
Qed.

(* positions only grow *)
Lemma skip_chars_loop_pos f : forall fu s s', skip_chars_loop T1 fu f s = Ok s' -> s_pos s <= s_pos s'.
Proof.
  induction fu as [|fu IH]; intros s s' H; cbn [skip_chars_loop] in H; [discriminate|].
  destruct (next_char s) as [[[c n]|]| | |]; cbn [bind] in H; try discriminate; [|injection H as <-; lia].
  destruct (negb (char_is_char c)). { unfold err_at in H. destruct (gen_text_pos T1 s); discriminate. }
  destruct (f s c); [|injection H as <-; lia].
  destruct (advance n s) as [s1| | |] eqn:E; cbn [bind] in H; try discriminate.
  apply advance_pos in E. specialize (IH _ _ H). lia.
Qed.

Lemma consume_chars_ps f s : (forall s c, SI hi s -> f (Fh s) c = f s c) -> SI hi s ->
  psim LSI (pmap shl Fh) (consume_chars T1 f s) (consume_chars T2 f (Fh s)).
Proof.
  intros Hf H. unfold consume_chars.
  eapply psim_bind; [apply skip_chars_ps; assumption|]. intros s1 H1. rewrite (s_pos_F S).
  eapply psim_bind; [apply slice_back_ps'; [eapply SI_NS; eassumption|exact H1]|]. intros sl Hsl.
  apply psim_ret; [split; assumption|reflexivity].
Qed.

Lemma skip_name_loop_ps : forall fu1 fu2 s, (fu1 <= fu2)%nat -> SI hi s ->
  psim (SI hi) Fh (skip_name_loop fu1 s) (skip_name_loop fu2 (Fh s)).
Proof.
  induction fu1 as [|fu IH]; intros fu2 s Hle H; [exact I|].
  destruct fu2 as [|fu2]; [lia|]. cbn [skip_name_loop].
  eapply psim_bind; [apply next_char_ps; exact H|]. intros oc _. unfold idf.
  destruct oc as [[c n]|]; [|apply psim_ret; [exact H|reflexivity]].
  destruct (char_is_name c); [|apply psim_ret; [exact H|reflexivity]].
  eapply psim_bind; [apply advance_ps'; exact H|]. intros s1 H1. apply IH; [lia|exact H1].
Qed.

Lemma skip_name_ps s : SI hi s -> psim (SI hi) Fh (skip_name T1 s) (skip_name T2 (Fh s)).
Proof.
  intros H. unfold skip_name. cbv zeta.
  eapply psim_bind; [apply next_char_ps; exact H|]. intros oc _. unfold idf.
  destruct oc as [[c n]|]; [|apply psim_ret; [exact H|reflexivity]].
  destruct (char_is_name_start c); [|rewrite (s_pos_F S); efr].
  eapply psim_bind; [apply advance_ps'; exact H|]. intros s1 H1. cbv beta.
  apply skip_name_loop_ps; [|exact H1]. pose proof (rest_len_le S hi s1 H1). lia.
Qed.

Lemma consume_name_ps s : SI hi s ->
  psim LSI (pmap shl Fh) (consume_name T1 s) (consume_name T2 (Fh s)).
Proof.
  intros H. unfold consume_name. cbv zeta. rewrite (s_pos_F S).
  eapply psim_bind; [apply skip_name_ps; exact H|]. intros s1 H1. cbv beta.
  eapply psim_bind; [apply slice_back_ps'; [eapply SI_NS; eassumption|exact H1]|]. intros nm Hnm. cbv beta.
  rewrite (slice_len_s d). destruct (slice_len nm =? 0); [efr|apply psim_ret; [split; assumption|reflexivity]].
Qed.

Definition sh_opt (o : option N) : option N := option_map (fun x => x + d) o.
Definition OptI (x : option N * stream) : Prop :=
  SI hi (snd x) /\ match fst x with Some sp => NS hi sp /\ sp + 1 <= s_pos (snd x) | None => True end.

Lemma consume_qname_loop_ps : forall fu1 fu2 start spl s, (fu1 <= fu2)%nat -> NS hi start -> OptI (spl, s) ->
  psim OptI (pmap sh_opt Fh) (consume_qname_loop T1 fu1 start spl s)
       (consume_qname_loop T2 fu2 (start + d) (sh_opt spl) (Fh s)).
Proof.
  induction fu1 as [|fu IH]; intros fu2 start spl s Hle Hst HI; [exact I|].
  destruct fu2 as [|fu2]; [lia|]. cbn [consume_qname_loop]. destruct HI as [H Hspl]. cbn [fst snd] in *.
  rewrite (at_end_F S). destruct (at_end s); [apply psim_ret; [split; assumption|reflexivity]|].
  eapply psim_bind; [apply curr_byte_unchecked_ps; exact H|]. intros x _. unfold idf.
  destruct (x <? 128).
  - destruct (x =? 58).
    + destruct spl as [sp|]; cbn [sh_opt option_map]; [efr|].
      eapply psim_bind; [apply (advance_ps S); exact H|]. intros s1 (H1 & Hp1 & _). cbv beta. rewrite (s_pos_F S).
      apply (IH fu2 start (Some (s_pos s)) s1); [lia|exact Hst|].
      split; [exact H1|]. cbn [fst snd]. split; [eapply SI_NS; eassumption|lia].
    + destruct (byte_is_name x); [|apply psim_ret; [split; assumption|reflexivity]].
      eapply psim_bind; [apply (advance_ps S); exact H|]. intros s1 (H1 & Hp1 & _).
      apply IH; [lia|exact Hst|]. split; [exact H1|]. cbn [fst snd]. destruct spl; [split; [tauto|lia]|exact I].
  - eapply psim_bind; [apply next_char_ps; exact H|]. intros oc _. unfold idf.
    destruct oc as [[c n]|]; [|apply psim_ret; [split; assumption|reflexivity]].
    destruct (char_is_name c); [|apply psim_ret; [split; assumption|reflexivity]].
    eapply psim_bind; [apply (advance_ps S); exact H|]. intros s1 (H1 & Hp1 & _).
    apply IH; [lia|exact Hst|]. split; [exact H1|]. cbn [fst snd]. destruct spl; [split; [tauto|lia]|exact I].
Qed.

Definition sh_qn (x : slice * slice * stream) : slice * slice * stream :=
  (shl (fst (fst x)), shl (snd (fst x)), Fh (snd x)).
Definition QnI (x : slice * slice * stream) : Prop :=
  LS hi (fst (fst x)) /\ LS hi (snd (fst x)) /\ SI hi (snd x).

Lemma NS_lo_end p s : SI hi s -> p <= s_end s -> hi = false -> p + 2 <= P.
Proof. intros (_ & _ & _ & H) Hp ->. lia. Qed.

Lemma consume_qname_ps s : SI hi s -> psim QnI sh_qn (consume_qname T1 s) (consume_qname T2 (Fh s)).
Proof.
  intros H. unfold consume_qname. cbv zeta. rewrite (s_pos_F S).
  pose proof (SI_NS S hi s H) as Hst.
  eapply psim_bind.
  { apply (consume_qname_loop_ps _ _ (s_pos s) None s); [|exact Hst|split; [exact H|exact I]].
    pose proof (rest_len_le S hi s H). lia. }
  intros [spl s1] [H1 Hspl]. cbn [pmap fst snd] in *. cbv beta iota.
  eapply psim_bind with (I := fun x => LS hi (fst x) /\ LS hi (snd x)) (g := pmap shl shl).
  - destruct spl as [sp|]; cbn [sh_opt option_map].
    + destruct Hspl as [Hsp Hle].
      eapply psim_bind.
      { apply (mk_slice_ps S hi); [exact Hst|]. intros ->. destruct H1 as (_ & A & _ & B). lia. }
      intros p (Hp & _ & _). cbv beta.
      replace (sp + d + 1) with (sp + 1 + d) by lia.
      assert (Hsp1 : NS hi (sp + 1)).
      { destruct H1 as (_ & A & _ & B). destruct hi; cbn [ErrShiftSubBase.NS] in *; lia. }
      eapply psim_bind; [apply slice_back_ps'; [exact Hsp1|exact H1]|].
      intros l Hl. apply psim_ret; [split; assumption|reflexivity].
    + eapply psim_bind; [apply slice_back_ps'; [exact Hst|exact H1]|]. intros l Hl. cbv beta.
      eapply psim_bind.
      { apply (mk_slice_ps S hi); [exact Hst|]. intros ->. destruct H as (_ & A & _ & B). lia. }
      intros p (Hp & _ & _). apply psim_ret; [split; assumption|reflexivity].
  - intros [p l] [Hp Hl]. cbn [pmap fst snd] in *. cbv beta iota.
    rewrite !(slice_len_s d), !(slice_bytes_s S hi) by assumption.
    destruct (_ && _); [efr|]. destruct (negb _); [efr|].
    apply psim_ret; [unfold QnI; cbn [fst snd]; auto|reflexivity].
Qed.


Lemma consume_eq_ps s : SI hi s -> psim (SI hi) Fh (consume_eq T1 s) (consume_eq T2 (Fh s)).
Proof.
  intros H. unfold consume_eq. cbv zeta. destruct (skip_spaces_F S hi s H) as [E H']. rewrite E.
  eapply psim_bind; [apply consume_byte_ps; exact H'|]. intros s1 H1. cbv beta.
  destruct (skip_spaces_F S hi s1 H1) as [E1 H1']. rewrite E1. apply psim_ret; [exact H1'|reflexivity].
Qed.

Lemma consume_quote_ps s : SI hi s ->
  psim (fun x => SI hi (snd x)) (pmap idf Fh) (consume_quote T1 s) (consume_quote T2 (Fh s)).
Proof.
  intros H. unfold consume_quote.
  eapply psim_bind; [apply curr_byte_ps; exact H|]. intros c _. unfold idf.
  destruct (_ || _); [|eat].
  eapply psim_bind; [apply advance_ps'; exact H|]. intros s1 H1. apply psim_ret; [exact H1|reflexivity].
Qed.

Definition sh_refres (o : option (reference * stream)) : option (reference * stream) :=
  option_map (pmap (sh_ref d) Fh) o.
Definition RefI (o : option (reference * stream)) : Prop :=
  match o with
  | Some (r, s) => SI hi s /\ match r with RefEntity name => LS hi name | RefChar _ => True end
  | None => True
  end.

Lemma consume_reference_ps s : SI hi s ->
  psim RefI sh_refres (consume_reference T1 s) (consume_reference T2 (Fh s)).
Proof.
  intros H. unfold consume_reference.
  destruct (try_consume_byte_F 38 s H) as [E1 H1]. rewrite E1.
  destruct (try_consume_byte 38 s) as [ok s1]. cbn [pmap fst snd idf] in *.
  destruct (negb ok); [apply psim_ret; [exact I|reflexivity]|].
  destruct (try_consume_byte_F 35 s1 H1) as [E2 H2]. rewrite E2.
  destruct (try_consume_byte 35 s1) as [is_num s2]. cbn [pmap fst snd idf] in *.
  eapply psim_bind with (I := RefI) (g := sh_refres).
  - destruct is_num.
    + destruct (try_consume_byte_F 120 s2 H2) as [E3 H3]. rewrite E3.
      destruct (try_consume_byte 120 s2) as [is_hex s3]. cbn [pmap fst snd idf] in *.
      eapply psim_bind; [apply consume_bytes_ps; exact H3|]. intros [value s4] [Hv4 H4]. cbn [pmap fst snd] in *. cbv beta iota.
      rewrite (slice_bytes_s S hi) by exact Hv4. destruct (slice_bytes T1 value); [apply psim_ret; [exact I|reflexivity]|].
      destruct (u32_max <? _); [apply psim_ret; [exact I|reflexivity]|].
      destruct (negb _); [apply psim_ret; [exact I|reflexivity]|apply psim_ret; [split; [exact H4|exact I]|reflexivity]].
    + pose proof (consume_name_ps s2 H2) as Hn.
      destruct (consume_name T1 s2) as [[name s3]| | |]; cbn in Hn.
      * destruct Hn as [[Hnm H3] ->]. cbn [pmap fst snd] in *. rewrite (slice_bytes_s S hi) by exact Hnm.
        apply psim_ret.
        -- cbn [RefI]. split; [exact H3|].
           repeat match goal with |- context [if ?b then _ else _] => destruct b end; first [exact I|exact Hnm].
        -- cbn [sh_refres option_map pmap fst snd].
           repeat match goal with |- context [if ?b then _ else _] => destruct b end; reflexivity.
      * destruct Hn as [e' [-> _]]. apply psim_ret; [exact I|reflexivity].
      * rewrite Hn. reflexivity.
      * exact I.
  - intros [[r s5]|] Hr; cbn [sh_refres option_map pmap fst snd]; [|apply psim_ret; [exact I|reflexivity]].
    destruct Hr as [H5 Hr].
    pose proof (consume_byte_ps 59 s5 H5) as Hc. destruct (consume_byte T1 59 s5) as [s6| | |]; cbn in Hc.
    + destruct Hc as [H6 ->]. apply psim_ret; [split; assumption|reflexivity].
    + destruct Hc as [e' [-> _]]. apply psim_ret; [exact I|reflexivity].
    + rewrite Hc. reflexivity.
    + exact I.
Qed.

Lemma is_xml_str_ascii_ps : forall l i, NS hi i -> (hi = false -> i + blen l + 2 <= P) ->
  psim TT idf (is_xml_str_ascii T1 l i) (is_xml_str_ascii T2 l (i + d)).
Proof.
  induction l as [|x l IH]; intros i Hi Hlo; cbn [is_xml_str_ascii]; [apply psim_ret; [exact I|reflexivity]|].
  destruct (negb (byte_is_char x)); [efr|]. replace (i + d + 1) with (i + 1 + d) by lia. apply IH.
  - destruct hi; cbn [ErrShiftSubBase.NS] in *; [lia|]. specialize (Hlo eq_refl). rewrite blen_cons in Hlo. lia.
  - intros E. specialize (Hlo E). rewrite blen_cons in Hlo. lia.
Qed.

Lemma is_xml_str_unicode_ps : forall fu l i, NS hi i -> (hi = false -> i + blen l + 2 <= P) ->
  psim TT idf (is_xml_str_unicode T1 fu l i) (is_xml_str_unicode T2 fu l (i + d)).
Proof.
  induction fu as [|fu IH]; intros l i Hi Hlo; cbn [is_xml_str_unicode]; [exact I|].
  destruct l as [|x l']; [apply psim_ret; [exact I|reflexivity]|].
  destruct (decode1 (x :: l')) as [[c n]|] eqn:Ed; [|reflexivity].
  destruct (negb (char_is_char c)); [efr|]. replace (i + d + n) with (i + n + d) by lia.
  pose proof (decode1_len_le _ _ _ Ed) as Hn.
  apply IH.
  - destruct hi; cbn [ErrShiftSubBase.NS] in *; [lia|]. specialize (Hlo eq_refl). unfold blen in *. lia.
  - intros E. specialize (Hlo E). unfold blen in *. rewrite skipn_length. lia.
Qed.

Lemma is_xml_str_ps sl i : LS hi sl -> i = sl_start sl ->
  psim TT idf (is_xml_str T1 sl i) (is_xml_str T2 (shl sl) (i + d)).
Proof.
  intros Hsl ->. unfold is_xml_str. cbv zeta. rewrite (slice_bytes_s S hi) by exact Hsl.
  assert (Hlen : blen (slice_bytes T1 sl) <= sl_end sl - sl_start sl).
  { unfold slice_bytes, sub, blen. rewrite firstn_length. lia. }
  assert (Hi : NS hi (sl_start sl)) by (destruct Hsl as [A B]; destruct hi; cbn [ErrShiftSubBase.NS]; lia).
  assert (Hlo : hi = false -> sl_start sl + blen (slice_bytes T1 sl) + 2 <= P).
  { intros ->. destruct Hsl as [A B]. lia. }
  destruct (forallb (fun x => x <? 128) (slice_bytes T1 sl));
    [apply is_xml_str_ascii_ps|apply is_xml_str_unicode_ps]; assumption.
Qed.

End Ent.
