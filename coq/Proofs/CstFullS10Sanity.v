(* Proofs/CstFullS10Sanity.v -- the capstone fragment, stage S10 (Spec/CstFullS10.v): the model on sample documents, by
   computation.  Character references to '&' and '<' inside entity literals: alone, followed by text that looks like
   a reference ("&#38;lt;") or like a tag ("&#60;b/>"), decimal and hexadecimal, nested (an entity whose literal
   refers to another one), in a MARKUP entity (text, attribute value, namespace URI), referenced from character data,
   from an attribute value and from a namespace URI.  The samples that stay outside the fragment (TAB / LF / CR) are
   in Proofs/CstFullS10Example.v, each with the crate's result next to the inlined meaning. *)
From Coq Require Import Ascii String.
From Coq Require Import List NArith Bool.
Import ListNotations.
From RX.Model Require Import Base Stream Tokenizer Doc Builder Parse.
From RX.Spec Require CstNs CstU.
From RX.Spec Require Import CstFull CstFullS6 CstFullS7 CstFullS8 CstFullS9 CstFullS10.
From RX.Proofs Require Import CstNsView CstFullS6Sanity CstFullS7Sanity CstFullS8Sanity CstFullS9Sanity.
Open Scope N_scope.

Definition check10 (c : S10.doc) : bool * bool * bool :=
  (S10.wf_doc c, valid_utf8_b (S10.render c),
   match parse (S10.render c) opt_dtd with
   | Ok d => match view (S10.render c) d with
             | Some v => if list_eq_dec vnode_eq_dec v (S10.sem c) then true else false
             | None => false end
   | _ => false
   end).

Definition dref (ds : string) : E.epiece := E.EP (T.PCharRef false (b ds)).     (* &#ds; *)
Definition xref (ds : string) : E.epiece := E.EP (T.PCharRef true (b ds)).      (* &#xds; *)

Definition subset10 : subset6 :=
  {| zu_decls :=
       [ XEntity (xd (b "amp2") (X4.XText [dref "38"]));                                                   (* <!ENTITY amp2 "&#38;"> *)
         XEntity (xd (b "lt2") (X4.XText [xref "3C"]));                                                    (* <!ENTITY lt2 "&#x3C;"> *)
         XEntity (xd (b "esc") (X4.XText [dref "38"; lit (b "lt;b"); xref "26"; lit (b "gt;")]));          (* "&#38;lt;b&#x26;gt;": the text &lt;b&gt; *)
         XEntity (xd (b "num") (X4.XText [dref "38"; lit (b "#60;")]));                                    (* "&#38;#60;": the text &#60; *)
         XEntity (xd (b "tag") (X4.XText [dref "60"; lit (b "b/>"); rf (b "lt2"); rf (b "amp2")]));        (* "&#60;b/>&lt2;&amp2;": the text <b/><& *)
         XEntity (xd (b "m") (X4.XContent                                                                  (* markup *)
           [ el [] (b "p") [at1 [] (b "k") [lit (b "a"); dref "38"; lit (b "b"); rf (b "amp2"); rf (b "esc")];
                            dc1 (b "q") [lit (b "u"); dref "38"; lit (b "v")]]
                [tx [dref "60"; lit (b "q/>"); dref "38"; lit (b "amp;"); rf (b "lt2")]] ]));
         XEntity (xd (b "amp2") (X4.XText [lit (b "ignored")])) ];
     zu_ws3 := []; zu_ws4 := [] |}.
Definition ex10 : S10.doc :=
  {| S6.x_bom := false; S6.x_decl := None;
     S6.x_dtd := Some {| S6.g_ws0 := []; S6.g_before := [];
                         S6.g_dtd := {| z_ws1 := [32]; z_name := b "r"; z_ws2 := []; z_ext := None; z_subset := Some subset10 |} |};
     S6.x_main := {| d_before := []; d_ws0 := [];
                     d_root := el [] (b "r") [@EDecl epieces (layb [32] [] [] 34) p_ [rf (b "amp2"); lit (b "u"); rf (b "num")];
                                              at2 [] (b "a") [lit (b "x"); rf (b "amp2"); lit (b "y"); rf (b "esc"); rf (b "num")]]
                                  [tx [rf (b "amp2"); lit (b "|"); rf (b "lt2"); lit (b "|"); rf (b "esc"); lit (b "|"); rf (b "num"); lit (b "|"); rf (b "tag")];
                                   em [] (b "s") []; tx [rf (b "m")]];
                     d_after := []; d_ws_end := [] |} |}.
Eval vm_compute in (check10 ex10, S9.wf_doc ex10).
Eval vm_compute in (S10.render ex10).
Eval vm_compute in (S10.sem ex10).
(* S9 .. S6 documents are S10 documents *)
Eval vm_compute in (check10 ex9, check10 ex8, check10 ex7, check10 ex1, check10 ex2).

(* still excluded, and rejected by the crate: a referenced '<' that reaches an attribute value (D15 / D15b) *)
Definition mk10 (ds : list sdecl6) (es : list uentry) (ps : list E.epiece) : S10.doc :=
  {| S6.x_bom := false; S6.x_decl := None;
     S6.x_dtd := Some {| S6.g_ws0 := []; S6.g_before := [];
                         S6.g_dtd := {| z_ws1 := [32]; z_name := b "r"; z_ws2 := []; z_ext := None;
                                        z_subset := Some {| zu_decls := ds; zu_ws3 := []; zu_ws4 := [] |} |} |};
     S6.x_main := {| d_before := []; d_ws0 := []; d_root := el [] (b "r") es [tx ps]; d_after := []; d_ws_end := [] |} |}.
Definition rejected10 (c : S10.doc) : bool * bool :=
  (S10.wf_doc c, match parse (S10.render c) opt_dtd with Err _ => true | _ => false end).
Eval vm_compute in (map rejected10
  [ mk10 [XEntity (xd (b "e") (X4.XText [dref "60"]))] [at2 [] (b "a") [rf (b "e")]] [lit (b "t")];                           (* a="&e;", e = "&#60;" *)
    mk10 [XEntity (xd (b "e") (X4.XContent [em [] (b "p") [at1 [] (b "k") [xref "3c"]]]))] [] [rf (b "e")] ]).                (* <p k='&#x3c;'/> in a markup entity *)
