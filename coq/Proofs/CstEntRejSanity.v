(* Proofs/CstEntRejSanity.v -- the hypotheses of the rejection theorems of Proofs/CstEntRejMain.v are satisfiable: boolean
   versions of them ([hyps], [deepb], [cyclicb], [over_budgetb]) hold, by computation, of the documents used in the
   vm_compute sanity runs (self loop, 2-cycle, cycle entered from outside, chain of 11, 256 references; in content
   and in attribute values), so that their rejection with EntityReferenceLoop is an INSTANCE of the theorems; and the
   neighbours within the limits (chain of 10, 255 references) are accepted by [limits_decide_ent]. *)
From Coq Require Import Ascii String.
From Coq Require Import List NArith PeanoNat Bool Lia ZifyBool ZifyN ZifyNat.
Import ListNotations.
From RX Require Import Generated.
From RX.Model Require Import Base CharClass Stream Tokenizer Doc Builder Parse.
From RX.Spec Require Cst CstText CstEnt Detector.
From RX.Spec Require Import Text.
From RX.Proofs Require Import CstMain CstTextSem CstTextMain CstEntSem CstEntSanity.
From RX.Proofs Require Import CstEntRejSem CstEntRejTrace CstEntRejMain.
Open Scope N_scope.

(* ---- the hypotheses shared by the theorems, as a boolean ---- *)
Definition hyps (c : E.doc) (opt : options) : bool :=
  wf_syntax c && allow_dtd opt &&
  match ginline c with
  | Some (cT, _) =>
    E.provisos_item (T.d_root cT) &&
    (N.of_nat (length (T.sem cT)) <? nodes_limit opt) && (N.of_nat (length (T.sem cT)) <? u32_max) &&
    (N.of_nat (tdoc_nattrs cT) <? u32_max)
  | None => false
  end.

Definition limits_of (c : E.doc) : option bool :=
  match ginline c with Some (_, tr) => Some (Detector.within_limits 10 255 0 0 tr) | None => None end.

Lemma hyps_use c opt (P : Prop) :
  hyps c opt = true ->
  (forall cT tr, wf_syntax c = true -> ginline c = Some (cT, tr) -> E.provisos_item (T.d_root cT) = true ->
     allow_dtd opt = true -> N.of_nat (length (T.sem cT)) < nodes_limit opt ->
     N.of_nat (length (T.sem cT)) < u32_max -> N.of_nat (tdoc_nattrs cT) < u32_max -> P) -> P.
Proof.
  unfold hyps. intros H K. destruct (ginline c) as [[cT tr]|]; [|rewrite andb_false_r in H; discriminate].
  rewrite !andb_true_iff in H. destruct H as [[H1 H2] [[[H3 H4] H5] H6]].
  apply (K cT tr); try assumption; try reflexivity; lia.
Qed.

(* ---- deciders for the graph properties ---- *)
Section Dec.
Variable decls : list E.edecl.

Lemma beq_eq x y : E.beq x y = true -> x = y.
Proof. unfold E.beq. destruct (list_eq_dec N.eq_dec x y); [auto|discriminate]. Qed.

Fixpoint has_path (L : nat) (n : bytes) : bool :=
  match L with
  | O => false
  | S O => true
  | S L' => match first_decl decls n with Some d => existsb (has_path L') (refs_value (E.e_value d)) | None => false end
  end.

Lemma has_path_sound : forall L n, has_path L n = true -> rpath decls n L.
Proof.
  induction L as [|L IH]; intros n H; [discriminate|]. destruct L as [|L]; [constructor|].
  cbn [has_path] in H. change (match L with O => true | S _ => match first_decl decls n with Some d => existsb (has_path (S L)) (refs_value (E.e_value d)) | None => false end end) with (has_path (S L) n) in H.
  destruct (first_decl decls n) as [d|] eqn:Ed; [|discriminate].
  apply existsb_exists in H. destruct H as (n' & Hin & Hp).
  apply (rpath_S decls n n' (S L)); [exists d; split; assumption|apply IH; exact Hp].
Qed.

Fixpoint reachb (fuel : nat) (n m : bytes) : bool :=
  E.beq n m ||
  match fuel with
  | O => false
  | S f => match first_decl decls n with Some d => existsb (fun n' => reachb f n' m) (refs_value (E.e_value d)) | None => false end
  end.

Lemma reachb_sound : forall fuel n m, reachb fuel n m = true -> reach decls n m.
Proof.
  induction fuel as [|f IH]; intros n m H; cbn [reachb] in H; apply orb_true_iff in H; destruct H as [H|H].
  - apply beq_eq in H. subst. constructor.
  - discriminate.
  - apply beq_eq in H. subst. constructor.
  - destruct (first_decl decls n) as [d|] eqn:Ed; [|discriminate].
    apply existsb_exists in H. destruct H as (n' & Hin & Hp).
    apply (reach_step decls n n' m); [exists d; split; assumption|apply IH; exact Hp].
Qed.

Definition on_cycleb (fuel : nat) (m : bytes) : bool :=
  match first_decl decls m with Some d => existsb (fun m' => reachb fuel m' m) (refs_value (E.e_value d)) | None => false end.

Lemma on_cycleb_sound fuel m : on_cycleb fuel m = true -> on_cycle decls m.
Proof.
  unfold on_cycleb. destruct (first_decl decls m) as [d|] eqn:Ed; [|discriminate]. intros H.
  apply existsb_exists in H. destruct H as (m' & Hin & Hp). exists m'. split; [exists d; split; assumption|].
  apply (reachb_sound _ _ _ Hp).
Qed.

End Dec.

Definition deepb (c : E.doc) (L : nat) : bool :=
  existsb (has_path (E.t_decls (E.d_dtd c)) L) (refs_item (E.d_root c)).

(* the names that are candidates for lying on a cycle: the declared ones *)
Definition cyclicb (c : E.doc) : bool :=
  let decls := E.t_decls (E.d_dtd c) in
  let fuel := length decls in
  existsb (fun n => existsb (fun d => reachb decls fuel n (E.e_name d) && on_cycleb decls fuel (E.e_name d)) decls)
          (refs_item (E.d_root c)).

Definition over_budgetb (c : E.doc) : bool :=
  existsb (fun n => (255 <? nested (E.t_decls (E.d_dtd c)) glevels n)%nat) (refs_item (E.d_root c)).

Lemma deepb_sound c L : deepb c L = true -> deep_doc c L.
Proof.
  unfold deepb. intros H. apply existsb_exists in H. destruct H as (n & Hin & Hp).
  exists n. split; [exact Hin|apply has_path_sound; exact Hp].
Qed.

Lemma cyclicb_sound c : cyclicb c = true -> cyclic_doc c.
Proof.
  unfold cyclicb. intros H. apply existsb_exists in H. destruct H as (n & Hin & H).
  apply existsb_exists in H. destruct H as (d & _ & H). apply andb_true_iff in H. destruct H as [H1 H2].
  exists n, (E.e_name d). split; [exact Hin|]. split; [apply (reachb_sound _ _ _ _ H1)|apply (on_cycleb_sound _ _ _ H2)].
Qed.

Lemma over_budgetb_sound c : over_budgetb c = true -> over_budget_doc c.
Proof.
  unfold over_budgetb. intros H. apply existsb_exists in H. destruct H as (n & Hin & Hp).
  exists n. split; [exact Hin|]. apply Nat.ltb_lt. exact Hp.
Qed.

(* ---- the theorems with boolean hypotheses ---- *)
Definition Loop (c : E.doc) (opt : options) : Prop := exists pos, parse (E.render c) opt = Err (EntityReferenceLoop pos).

Theorem cycle_rejected_b c opt : hyps c opt = true -> cyclicb c = true -> Loop c opt.
Proof.
  intros H Hc. apply (hyps_use c opt _ H). intros cT tr H1 H2 H3 H4 H5 H6 H7.
  apply (cycle_rejected_ent c opt cT tr); try assumption. apply cyclicb_sound. exact Hc.
Qed.

Theorem depth_rejected_b c opt : hyps c opt = true -> deepb c 11 = true -> Loop c opt.
Proof.
  intros H Hc. apply (hyps_use c opt _ H). intros cT tr H1 H2 H3 H4 H5 H6 H7.
  apply (depth_exceeded_rejected_ent c opt cT tr 11); try assumption; [lia|]. apply deepb_sound. exact Hc.
Qed.

Theorem budget_rejected_b c opt : hyps c opt = true -> over_budgetb c = true -> Loop c opt.
Proof.
  intros H Hc. apply (hyps_use c opt _ H). intros cT tr H1 H2 H3 H4 H5 H6 H7.
  apply (budget_exceeded_rejected_ent c opt cT tr); try assumption. apply over_budgetb_sound. exact Hc.
Qed.

Theorem within_accepted_b c opt : hyps c opt = true -> limits_of c = Some true -> exists d, parse (E.render c) opt = Ok d.
Proof.
  intros H Hc. apply (hyps_use c opt _ H). intros cT tr H1 H2 H3 H4 H5 H6 H7.
  unfold limits_of in Hc. rewrite H2 in Hc. injection Hc as Hc.
  destruct (limits_decide_ent c opt cT tr H1 H2 H3 H4 H5 H6 H7) as (Hacc & _).
  destruct (Hacc Hc) as (d & Hd & _). eauto.
Qed.

(* ---- instances ---- *)
Import E.
Definition Tx (s : string) := IText [R s].

(* self loop, in content *)
Example self1 : Loop (mk [dc "a" 34 (EText [R "a"])] (el "r" [] [Tx "a"])) opt1.
Proof. apply cycle_rejected_b; vm_compute; reflexivity. Qed.
Example self2 : Loop (mk [dc "a" 34 (EText [L "x"; R "a"; L "y"])] (el "r" [] [IText [L "p"; R "a"]])) opt1.
Proof. apply cycle_rejected_b; vm_compute; reflexivity. Qed.
Example self3 : Loop (mk [dc "a" 34 (EContent [el "i" [] []; IText [R "a"]])] (el "r" [] [Tx "a"])) opt1.
Proof. apply cycle_rejected_b; vm_compute; reflexivity. Qed.
Example self4 : Loop (mk [dc "a" 34 (EContent [el "i" [] [IText [R "a"]]])] (el "r" [] [Tx "a"])) opt1.
Proof. apply cycle_rejected_b; vm_compute; reflexivity. Qed.
(* self loop, in an attribute value *)
Example self5 : Loop (mk [dc "a" 34 (EText [R "a"])] (el "r" [at_ "k" 39 [R "a"]] [])) opt1.
Proof. apply cycle_rejected_b; vm_compute; reflexivity. Qed.
Example self6 : Loop (mk [dc "a" 34 (EText [L "x"; R "a"])] (el "r" [at_ "k" 39 [L "q"; R "a"]] [])) opt1.
Proof. apply cycle_rejected_b; vm_compute; reflexivity. Qed.
(* an attribute inside an entity with markup refers to a looping entity *)
Example self7 : Loop (mk [dc "a" 34 (EContent [el "i" [at_ "k" 39 [R "b"]] []]); dc "b" 34 (EText [R "b"])] (el "r" [] [Tx "a"])) opt1.
Proof. apply cycle_rejected_b; vm_compute; reflexivity. Qed.
(* 2-cycle *)
Example two1 : Loop (mk [dc "a" 34 (EText [R "b"]); dc "b" 34 (EText [R "a"])] (el "r" [] [Tx "a"])) opt1.
Proof. apply cycle_rejected_b; vm_compute; reflexivity. Qed.
Example two2 : Loop (mk [dc "a" 34 (EText [R "b"]); dc "b" 34 (EText [R "a"])] (el "r" [at_ "k" 34 [R "b"]] [])) opt1.
Proof. apply cycle_rejected_b; vm_compute; reflexivity. Qed.
Example two3 : Loop (mk [dc "a" 34 (EContent [IText [R "b"]]); dc "b" 34 (EContent [el "j" [] [IText [R "a"]]])] (el "r" [] [Tx "a"])) opt1.
Proof. apply cycle_rejected_b; vm_compute; reflexivity. Qed.
(* a cycle entered from outside *)
Example outside1 : Loop (mk [dc "o" 34 (EText [L "o"; R "a"]); dc "a" 34 (EText [R "b"]); dc "b" 34 (EText [R "a"])]
                            (el "r" [] [IText [L "z"; R "o"]])) opt1.
Proof. apply cycle_rejected_b; vm_compute; reflexivity. Qed.
Example outside2 : Loop (mk [dc "o" 34 (EText [L "o"; R "a"]); dc "a" 34 (EText [R "b"]); dc "b" 34 (EText [R "a"])]
                            (el "r" [at_ "k" 34 [L "z"; R "o"]] [])) opt1.
Proof. apply cycle_rejected_b; vm_compute; reflexivity. Qed.
(* a harmless entity first, the cycle after elements *)
Example later1 : Loop (mk [dc "t" 34 (EText [L "T"]); dc "a" 34 (EText [R "t"; R "a"])] (el "r" [] [IText [R "t"; R "a"]])) opt1.
Proof. apply cycle_rejected_b; vm_compute; reflexivity. Qed.
Example later2 : Loop (mk [dc "a" 34 (EText [R "a"])] (el "r" [] [el "x" [] []; IText [R "a"]; el "y" [] []])) opt1.
Proof. apply cycle_rejected_b; vm_compute; reflexivity. Qed.

(* chains: 10 names accepted, 11 rejected *)
Definition nm (m : nat) : string := String "e" (String (ascii_of_nat (97 + m)) "").
Fixpoint chainL (n : nat) : list edecl :=
  match n with
  | O => [dc (nm 0) 34 (EText [L "x"])]
  | S m => chainL m ++ [dc (nm (S m)) 34 (EText [R (nm m)])]
  end.
Example chain10 : exists d, parse (render (mk (chainL 9) (el "r" [] [IText [R (nm 9)]]))) opt1 = Ok d.
Proof. apply within_accepted_b; vm_compute; reflexivity. Qed.
Example chain11 : Loop (mk (chainL 10) (el "r" [] [IText [R (nm 10)]])) opt1.
Proof. apply depth_rejected_b; vm_compute; reflexivity. Qed.
Example chain12 : Loop (mk (chainL 11) (el "r" [] [IText [L "p"; R (nm 11)]; el "x" [] []])) opt1.
Proof. apply depth_rejected_b; vm_compute; reflexivity. Qed.
Example chain10a : exists d, parse (render (mk (chainL 9) (el "r" [at_ "k" 34 [R (nm 9)]] []))) opt1 = Ok d.
Proof. apply within_accepted_b; vm_compute; reflexivity. Qed.
Example chain11a : Loop (mk (chainL 10) (el "r" [at_ "k" 34 [R (nm 10)]] [])) opt1.
Proof. apply depth_rejected_b; vm_compute; reflexivity. Qed.
(* a chain through elements and attribute values of entities with markup *)
Example chain11m : Loop (mk (chainL 8 ++ [dc "p" 34 (EContent [el "i" [at_ "k" 39 [R (nm 8)]] []]);
                                          dc "q" 34 (EContent [el "j" [] [IText [R "p"]]])])
                            (el "r" [] [el "s" [] [IText [R "q"]]])) opt1.
Proof. apply depth_rejected_b; vm_compute; reflexivity. Qed.

(* the budget: 255 references below one accepted, 256 rejected *)
Definition fan (n : nat) := mk [dc "t" 34 (EText [L "T"]); dc "e" 34 (EText (repeat (R "t") n))] (el "r" [] [IText [R "e"]]).
Definition fana (n : nat) := mk [dc "t" 34 (EText [L "T"]); dc "e" 34 (EText (repeat (R "t") n))] (el "r" [at_ "k" 34 [R "e"]] []).
Example fan255 : exists d, parse (render (fan 255)) opt1 = Ok d.
Proof. apply within_accepted_b; vm_compute; reflexivity. Qed.
Example fan256 : Loop (fan 256) opt1.
Proof. apply budget_rejected_b; vm_compute; reflexivity. Qed.
Example fana255 : exists d, parse (render (fana 255)) opt1 = Ok d.
Proof. apply within_accepted_b; vm_compute; reflexivity. Qed.
Example fana256 : Loop (fana 256) opt1.
Proof. apply budget_rejected_b; vm_compute; reflexivity. Qed.

(* what the hypotheses exclude: another defect met before the detector stops gives another error *)
Example undeclared_first :
  ginline (mk [dc "a" 34 (EText [R "u"; R "a"])] (el "r" [] [Tx "a"])) = None /\
  match parse (render (mk [dc "a" 34 (EText [R "u"; R "a"])] (el "r" [] [Tx "a"]))) opt1 with
  | Err (UnknownEntityReference _ _) => True | _ => False end.
Proof. split; vm_compute; [reflexivity|exact I]. Qed.
Example lt_in_attr_first :
  ginline (mk [dc "a" 34 (EText [EP (T.PPredef T.Lt); R "a"])] (el "r" [at_ "k" 34 [R "a"]] [])) = None /\
  match parse (render (mk [dc "a" 34 (EText [EP (T.PPredef T.Lt); R "a"])] (el "r" [at_ "k" 34 [R "a"]] []))) opt1 with
  | Err (InvalidAttributeValue _) => True | _ => False end.
Proof. split; vm_compute; [reflexivity|exact I]. Qed.

Print Assumptions cycle_rejected_b.
Print Assumptions fan256.
