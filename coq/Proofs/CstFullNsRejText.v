(* Proofs/CstFullNsRejText.v -- C06/C08 on the capstone fragment, rejection half: (1) the namespace rules of Spec/CstFull.v on
   what the inlined items denote, as "no first violation" in the reading order of the parser (Proofs/NsRejDefs.v) plus
   the condition on the names of ordinary attributes that Spec/CstFull.v counts among them ([ns_ok_split]); (2) character
   data with references to entities with MARKUP one of whose start tags violates a rule: the text token fails with the
   error of the first violated rule, after whatever has been read before (Proofs/CstFullS6Text.v for that part). *)
From Coq Require Import Ascii String.
From Coq Require Import List NArith PeanoNat Bool Lia ZifyBool ZifyN ZifyNat.
Import ListNotations.
From RX Require Import Generated.
From RX.Model Require Import Base CharClass Stream Tokenizer Doc Builder Parse.
From RX.Spec Require Cst CstText CstEnt Detector Scope CstU CstNs.
From RX.Spec Require Chars.
From RX.Spec Require Import CstFullS5.
From RX.Spec Require Import Text CstFull CstFullS4.
From RX.Spec Require Import CstFullS6.
From RX.Proofs Require Import Tactics CstLex CstBuild CstULex TextMachine TextMerge HoistProofs NoPanicUtf8 DetectorProofs.
From RX.Proofs Require Import CstTextSem CstTextLex CstTextBuild CstEntSem CstEntMeaning CstEntRun CstEntInline.
From RX.Proofs Require Import CstNsLex CstNsView CstNsBuild CstFullLex CstFullBuild CstFullTree.
From RX.Proofs Require Import CstFullS2Sem CstFullS2Lex CstFullS2Build CstFullS3Sem CstFullS3Text CstFullS3Plug.
From RX.Proofs Require Import CstEntCFloor CstEntCBuild CstEntCSem CstEntCLoop.
From RX.Proofs Require Import CstFullS4Sem CstFullS4TSem CstFullS4TText CstFullS4Build CstFullS4Attr.
From RX.Proofs Require Import CstFullS5Ws.
From RX.Proofs Require Import CstFullS6Text CstFullS6Items.
From RX.Proofs Require Import CstFullRejSem CstFullRejText CstFullNsRejBuild.
From RX.Proofs Require NsRejDefs NsRejBuild.
From RX.Proofs Require CstEntText CstEntCLex CstEntCText CstFullS6Lex CstNsItems CstNsDoc CstFullItems CstTextItems.
Open Scope N_scope.

Notation rule := NsRejDefs.rule.
Notation item_viol := NsRejDefs.item_viol.
Notation items_viol := NsRejDefs.items_viol.
Notation tag_viol := NsRejDefs.tag_viol.
Notation is_none := NsRejDefs.is_none.

(* ------------------------------------------------------------------------------------------ *)
(* the rules of Spec/CstFull.v and the first violation                                        *)
(* ------------------------------------------------------------------------------------------ *)
Fixpoint attrs_ok (i : CstNs.item) : bool :=
  match i with
  | CstNs.IElem _ es _ body =>
    forallb attr_name_ok es &&
    match body with
    | None => true
    | Some (cs, _) => (fix all (l : list CstNs.item) : bool := match l with [] => true | c :: r => attrs_ok c && all r end) cs
    end
  | _ => true
  end.
Fixpoint attrs_oks (l : list CstNs.item) : bool := match l with [] => true | c :: r => attrs_ok c && attrs_oks r end.

Lemma attrs_ok_elem name es ws body :
  attrs_ok (CstNs.IElem name es ws body) = forallb attr_name_ok es && match body with None => true | Some (cs, _) => attrs_oks cs end.
Proof.
  destruct body as [[cs ws2]|]; reflexivity.
Qed.

Lemma attrs_oks_app l1 l2 : attrs_oks (l1 ++ l2) = attrs_oks l1 && attrs_oks l2.
Proof. induction l1 as [|c r IH]; [reflexivity|]. cbn [app attrs_oks]. rewrite IH, andb_assoc. reflexivity. Qed.

Lemma ns_ok_split : forall i inh, ns_ok inh i = attrs_ok i && NsRejDefs.ns_item inh i.
Proof.
  intros i. induction i as [n a w|n a w cs w2 IH|bs|bs|t s v] using CstNsTree.item_ind'; intros inh; try reflexivity.
  - rewrite ns_ok_elem, attrs_ok_elem, NsRejDefs.ns_item_elem. cbv zeta. unfold NsRejDefs.ns_tag. cbv zeta.
    rewrite ns_entries_ok_split. change (NT.esc a inh) with (CstNsTree.esc a inh).
    generalize (forallb attr_name_ok a) (forallb NsRejDefs.ns_entry a). intros b1 b2.
    destruct b1, b2; repeat (cbn [andb]; rewrite ?andb_true_r, ?andb_false_r); reflexivity.
  - rewrite ns_ok_elem, attrs_ok_elem, NsRejDefs.ns_item_elem. cbv zeta. unfold NsRejDefs.ns_tag. cbv zeta.
    rewrite ns_entries_ok_split. change (NT.esc a inh) with (CstNsTree.esc a inh).
    assert (Hcs : ns_oks (CstNsTree.esc a inh) cs = attrs_oks cs && NsRejDefs.ns_items (CstNsTree.esc a inh) cs).
    { generalize (CstNsTree.esc a inh). intros sc. induction IH as [|c r Hc _ IHr]; [reflexivity|].
      cbn [ns_oks attrs_oks NsRejDefs.ns_items]. rewrite Hc, IHr.
      destruct (attrs_ok c), (NsRejDefs.ns_item sc c), (attrs_oks r), (NsRejDefs.ns_items sc r); reflexivity. }
    rewrite Hcs.
    generalize (forallb attr_name_ok a) (forallb NsRejDefs.ns_entry a) (attrs_oks cs) (NsRejDefs.ns_items (CstNsTree.esc a inh) cs).
    intros b1 b2 b3 b4.
    destruct b1, b2, b3, b4; repeat (cbn [andb]; rewrite ?andb_true_r, ?andb_false_r); reflexivity.
Qed.

Lemma ns_items_viol : forall l inh, NsRejDefs.ns_items inh l = is_none (items_viol inh l).
Proof.
  induction l as [|c r IH]; intros inh; [reflexivity|]. cbn [NsRejDefs.ns_items NsRejDefs.items_viol].
  rewrite NsRejDefs.item_viol_spec, IH. destruct (item_viol inh c); reflexivity.
Qed.

Lemma ns_oks_split l inh : ns_oks inh l = attrs_oks l && is_none (items_viol inh l).
Proof.
  rewrite <- ns_items_viol. induction l as [|c r IH]; [reflexivity|]. cbn [ns_oks attrs_oks NsRejDefs.ns_items].
  rewrite ns_ok_split, IH. destruct (attrs_ok c), (NsRejDefs.ns_item inh c), (attrs_oks r), (NsRejDefs.ns_items inh r); reflexivity.
Qed.

Lemma items_viol_app inh l1 l2 :
  items_viol inh (l1 ++ l2) = match items_viol inh l1 with Some x => Some x | None => items_viol inh l2 end.
Proof.
  induction l1 as [|c r IH]; [reflexivity|]. cbn [app NsRejDefs.items_viol]. destruct (item_viol inh c); [reflexivity|exact IH].
Qed.

(* ---- on the inlined items met so far ---- *)
Notation bden := (den bmeaning).
Notation bdens := (CstFullTree.dens bpieces bmeaning).

(* the first violation among the COMPLETE items *)
Definition V (inh : list Scope.binding) (acc : list T.piece) (its : list bitem) : option rule :=
  items_viol inh (bdens (fst (walk acc its))).
(* what does not depend on the scope: names of ordinary attributes, and the declarations are among D *)
Definition Syn (D : list Scope.binding) (acc : list T.piece) (its : list bitem) : Prop :=
  attrs_oks (bdens (fst (walk acc its))) = true /\ incl (NT.items_decls (bdens (fst (walk acc its)))) D.

Lemma V_app inh acc x y : V inh acc (x ++ y) = match V inh acc x with Some r => Some r | None => V inh (snd (walk acc x)) y end.
Proof. unfold V. rewrite walk_app. cbn [fst]. rewrite bdens_app. apply items_viol_app. Qed.

Lemma Syn_app D acc x y : Syn D acc (x ++ y) -> Syn D acc x /\ Syn D (snd (walk acc x)) y.
Proof.
  unfold Syn. rewrite walk_app. cbn [fst]. rewrite bdens_app, attrs_oks_app, items_decls_app, andb_true_iff.
  intros [[A1 A2] B0]. split; (split; [assumption|]); intros z Hz; apply B0; apply in_or_app; [left|right]; exact Hz.
Qed.

Lemma nsok_of D inh acc its : Syn D acc its -> V inh acc its = None -> CstFullS6Text.NsOk D inh acc its.
Proof. intros [A B0] H. split; [|exact B0]. rewrite ns_oks_split, A. unfold V in H. rewrite H. reflexivity. Qed.

Lemma V_texts inh acc its : forallb is_btext its = true -> V inh acc its = None.
Proof. intros H. unfold V. rewrite (walk_texts its acc H). reflexivity. Qed.

(* ------------------------------------------------------------------------------------------ *)
(* the machine side                                                                           *)
(* ------------------------------------------------------------------------------------------ *)
Section NsText.
Variable text : bytes.
Hypothesis Hvalid : valid_utf8_b text = true.
Variable D : list Scope.binding.
Hypothesis HD : forall l, NoDup l -> incl l D -> N.of_nat (length l) <= 65535.
Variable decls : list xdecl.
Variable es : list entity.
Hypothesis Henv : Forall2 (uent_ok text) (map pd decls) es.
Hypothesis Hdecls : Forall udecl_okc (map pd decls).
Hypothesis Hcont : Forall decl_cont decls.

Notation W := (CstLex.W text).
Notation WV := (CstULex.WV text).
Notation WVs := (CstFullS6Lex.WV text).
Notation sst4 := CstEntCLex.st.
Notation evl := (CstEntCBuild.evl text).
Notation OR := (CstFullS6Text.OR text D es).
Notation Res := (CstFullS6Text.Res text D es).
Notation Rooms := (CstFullS6Text.Rooms).
Notation NsOk := (CstFullS6Text.NsOk D).
Notation SemI := (CstEntCText.SemI text).
Notation decls3 := (map pd decls).

(* what is proved of a list of items one of whose start tags violates a namespace rule *)
Definition ItemsN (k : nat) (cs : list uitem) : Prop :=
  forall inh m en tl p post c0 c frs acc lvl depth fuel its tr ld' rl,
    forallb (wf_uitem_s m) cs = true -> no_adjacent_text epieces cs = true ->
    WVs en tl p (r_uitems cs ++ post) -> text_stop post ->
    OR inh c0 c frs -> SemI frs acc -> bnd_if cs acc ->
    m = (0 <? ld_depth (c_ld c)) -> N.of_nat lvl + ld_depth (c_ld c) = 12 -> ld_ok (c_ld c) ->
    c_entity_floor c <= len_N (c_parent_prefixes c) ->
    inline_items (level decls k) m cs = Some (its, tr) -> ld_run (c_ld c) tr = Some ld' ->
    Pok acc its -> Rooms inh c0 acc its -> Syn D acc its -> V inh acc its = Some rl ->
    exists er,
      parse_content_loop text context (evl lvl) (usteps_list cs + fuel) depth (sst4 en tl p (r_uitems cs ++ post)) c = Err er /\
      rule_error rl er = true.

(* ... and of the pieces of a text token *)
Definition TLnS (k : nat) : Prop :=
  forall ps bps bacc inh m e p more c0 c frs acc fuel L r its tr ld' rl,
  Forall (uep_ok m) ps -> WV p (E.r_epieces ps ++ more) -> p + blen (E.r_epieces ps) = e -> e <= tlen text ->
  m = (0 <? ld_depth (c_ld c)) -> N.of_nat L + ld_depth (c_ld c) = 12 -> ld_ok (c_ld c) ->
  acc_ok m bacc -> bacc = chunks bps -> nomarks bps ->
  OR inh c0 c frs -> SemI frs acc -> bnd acc = true ->
  c_entity_floor c <= len_N (c_parent_prefixes c) ->
  inline_run (level decls k) m ps = Some (its, tr) -> ld_run (c_ld c) tr = Some ld' ->
  Pok (acc ++ bps) its -> Rooms inh c0 (acc ++ bps) its -> Syn D (acc ++ bps) its -> V inh (acc ++ bps) its = Some rl ->
  (length (E.r_epieces ps) < fuel)%nat ->
  exists er,
    (let! (b0, c1) := text_loop text (parse_content_lvl text L) r fuel (sst e p (E.r_epieces ps ++ more))
                        (push_text_chunks m bacc tb_new) c in finish_text r b0 c1) = Err er /\ rule_error rl er = true.

Section Level.
Variable k : nat.
Hypothesis IHn : forall k', k = S k' -> forall cs, ItemsN k' cs.
Notation tb := (level decls k).
Notation IHk := (IHok text D HD decls es Henv Hdecls Hcont k).

(* a reference whose value is entered, and fails *)
Lemma ref_step_value_err pc r fu s buf c value s1 c1 ld1 sv er :
  at_end s = false -> parse_next_chunk text s (c_entities c) = Ok (ChText value, s1) ->
  finish_text r buf c = Ok c1 -> ld_enter (c_ld c1) = Some ld1 ->
  stream_from_substr text (sl_start value) (sl_end value) = Ok sv ->
  pc sv (set_entity_floor (set_tag_name (set_ld c1 ld1) tag_name_null) (len_N (c_parent_prefixes c1))) = Err er ->
  text_loop text pc r (S fu) s buf c = Err er.
Proof.
  intros He Hp Ef Een Es Epc. rewrite (text_loop_entity_step text pc r fu s buf c value s1 He Hp).
  rewrite Ef. cbn [bind]. destruct (CstEntText.enter_model text s1 _ _ Een) as (l0 & Ei1 & Ei2).
  rewrite Ei1. cbn [bind]. rewrite Ei2. cbn [bind]. rewrite Es. cbn [bind]. cbv zeta.
  cbn [c_parent_prefixes c_tag_name c_entity_floor set_ld]. rewrite Epc. reflexivity.
Qed.

(* the value of an entity with markup, with a violation *)
Lemma value_n inh n v d en L c0 c2 frs2 acc2 ld1' rl :
  ylookup tb n = Some v -> first_xdecl decls n = Some d -> uent_ok text (pd d) en ->
  OR inh c0 c2 frs2 -> SemI frs2 acc2 -> bnd acc2 = true ->
  0 < ld_depth (c_ld c2) <= 10 -> N.of_nat L + ld_depth (c_ld c2) = 13 -> ld_ok (c_ld c2) ->
  c_entity_floor c2 = len_N (c_parent_prefixes c2) ->
  ld_run (c_ld c2) (y_trace v) = Some ld1' ->
  Pok acc2 (y_items v) -> Rooms inh c0 acc2 (y_items v) -> Syn D acc2 (y_items v) -> V inh acc2 (y_items v) = Some rl ->
  exists sv er,
    stream_from_substr text (sl_start (en_value en)) (sl_end (en_value en)) = Ok sv /\
    parse_content_lvl text L sv c2 = Err er /\ rule_error rl er = true.
Proof.
  intros El Hfd Hent HO HS Hbnd Hd0 Hlvl Hok Hfl Hld HP HR HSy HV.
  rewrite ylookup_level in El. destruct k as [|k'] eqn:Ek; [discriminate|]. rewrite Hfd in El.
  pose proof (first_xdecl_in _ _ _ Hfd) as Hin.
  destruct L as [|L']; [lia|].
  destruct (x_value d) as [vps0|its_v] eqn:Hval; cbn [inline_value] in El.
  - (* character data: nothing to violate *)
    destruct (E.inline_ps (ptable (level decls k')) false true (enc_epieces vps0)) as [[qv trv]|]; [|discriminate].
    cbn [E.obind fst snd] in El. injection El as <-. cbn [y_items] in HV. unfold V in HV. cbn [walk fst CstFullTree.dens NsRejDefs.items_viol] in HV. discriminate.
  - (* items *)
    destruct (inline_items (level decls k') true its_v) as [[itv trv]|] eqn:Ei; [|discriminate].
    cbn [E.obind fst snd] in El. injection El as <-. cbn [y_items y_trace] in *.
    assert (Hc : decl_cont d) by (rewrite Forall_forall in Hcont; apply Hcont; exact Hin).
    unfold decl_cont in Hc. rewrite Hval in Hc. destruct Hc as [Hwf Hna].
    destruct Hent as (Hen & vs & tail & Eval & HWv).
    change (E.e_value (pd d)) with (pv (x_value d)) in Eval, HWv. rewrite r_value_pv, Hval in Eval, HWv. cbn [r_xvalue] in Eval, HWv.
    rewrite Eval. cbn [sl sl_start sl_end].
    rewrite (stream_from_substr_W text vs (r_uitems its_v) tail (WV_W _ _ _ HWv)).
    set (ve := vs + blen (r_uitems its_v)).
    pose proof (usteps_list_le D HD true its_v Hwf) as Hst.
    assert (HW' : WVs ve tail vs (r_uitems its_v ++ [])).
    { split; [rewrite app_nil_r; exact HWv|rewrite app_nil_r; reflexivity]. }
    assert (Hm' : true = (0 <? ld_depth (c_ld c2))) by (replace (0 <? ld_depth (c_ld c2)) with true by lia; reflexivity).
    assert (Hb' : bnd_if its_v acc2) by (destruct its_v; [exact I|]; intros _; exact Hbnd).
    destruct (IHn k' eq_refl its_v inh true ve tail vs [] c0 c2 frs2 acc2 L' 0
                (S (length (r_uitems its_v ++ tail) - usteps_list its_v)) itv trv ld1' rl
                Hwf Hna HW' I HO HS Hb' Hm' ltac:(lia) Hok ltac:(lia) Ei Hld HP HR HSy HV) as (er & Ef & R).
    eexists. exists er. split; [reflexivity|]. split; [|exact R].
    rewrite parse_content_lvl_S. unfold parse_content. cbn [sst s_rest].
    replace (S (length (r_uitems its_v ++ tail)))
      with (usteps_list its_v + S (length (r_uitems its_v ++ tail) - usteps_list its_v))%nat
      by (rewrite app_length; lia).
    change (sst ve vs (r_uitems its_v ++ tail)) with (sst4 ve tail vs (r_uitems its_v)).
    rewrite <- (app_nil_r (r_uitems its_v)) at 2. exact Ef.
Qed.

(* ---- the loop of process_text_with ---- *)
Lemma TLn : TLnS k.
Proof.
  intros ps. induction ps as [|pc0 rest IH]; intros bps bacc inh m e p more c0 c frs acc fuel L r its tr ld' rl
    Hok HW He Hle Hm Hlvl Hldok Hacc Hb Hnm HO HS Hbnd Hfl Hin Hld HP HR HSy HV Hfu.
  - cbn [inline_run] in Hin. injection Hin as <- <-. discriminate.
  - apply Forall_cons_iff in Hok. destruct Hok as [Hp Hrest]. destruct pc0 as [q|n].
    + (* a piece *)
      cbn [inline_run] in Hin. destruct (inline_run tb m rest) as [[itr trr]|] eqn:Er; [|discriminate].
      cbn [E.obind fst snd] in Hin. injection Hin as <- <-.
      cbn [E.r_epieces flat_map E.r_epiece] in *. fold (E.r_epieces rest) in *.
      rewrite <- app_assoc in HW |- *. rewrite blen_app in He.
      pose proof Hp as [Hvp _]. pose proof (chunks_le_piece_u D HD q Hvp) as Hcl. rewrite app_length in Hfu.
      replace fuel with (length (T.piece_chunks q) + (fuel - length (T.piece_chunks q)))%nat by lia.
      rewrite (loop_piece_u text D HD) by (try assumption; lia). rewrite <- Hm.
      rewrite <- push_text_chunks_app.
      apply (IH (bps ++ [q]) (bacc ++ T.piece_chunks q) inh m e (p + blen (T.r_piece q)) more c0 c frs acc
                (fuel - length (T.piece_chunks q))%nat L r itr trr ld' rl); try assumption; try lia.
      * apply (WV_app _ _ _ _ HW (vpiece_valid 60 q Hvp)).
      * apply acc_app; [exact Hacc|apply uep_chunks; exact Hp].
      * rewrite chunks_app, Hb. f_equal. unfold chunks. cbn [flat_map]. rewrite app_nil_r. reflexivity.
      * apply Forall_app. split; [exact Hnm|]. constructor; [apply (uep_nonmark _ _ Hp)|constructor].
      * rewrite app_assoc. exact HP.
      * rewrite app_assoc. exact HR.
      * rewrite app_assoc. exact HSy.
      * rewrite app_assoc. exact HV.
    + (* a reference *)
      destruct Hp as [Hn Hpre].
      cbn [inline_run] in Hin. destruct (ylookup tb n) as [v|] eqn:El; [|discriminate]. cbn [E.obind] in Hin.
      destruct (inline_run tb m rest) as [[itr trr]|] eqn:Er; [|discriminate].
      cbn [E.obind fst snd] in Hin. injection Hin as <- <-.
      cbn [E.r_epieces flat_map E.r_epiece] in *. fold (E.r_epieces rest) in *.
      rewrite <- !app_assoc in HW |- *. rewrite !blen_app in He. change (blen [38]) with 1 in He. change (blen [59]) with 1 in He.
      assert (Hfd : exists d, first_xdecl decls n = Some d).
      { rewrite ylookup_level in El. destruct k; [discriminate|]. destruct (first_xdecl decls n); [eauto|discriminate]. }
      destruct Hfd as [d Hfd].
      assert (Hfd3 : first_decl decls3 n = Some (pd d)) by (rewrite first_decl_pd, Hfd; reflexivity).
      destruct (pnc_entity_u text D HD decls3 es Henv e p n (E.r_epieces rest ++ more) (pd d) HW Hn Hpre ltac:(lia) Hle Hfd3)
        as (en & Epnc & Hent).
      destruct fuel as [|fu]; [lia|].
      set (acc1 := acc ++ bps) in *.
      set (acc2 := acc1 ++ [E.mark]).
      assert (Eits : bmark :: y_items v ++ bmark :: itr = (bmark :: y_items v ++ [bmark]) ++ itr)
        by (cbn [app]; rewrite <- app_assoc; reflexivity).
      assert (Ew1 : walk acc1 (bmark :: y_items v ++ [bmark]) =
                    (fst (walk acc2 (y_items v)), snd (walk acc2 (y_items v)) ++ [E.mark])).
      { unfold bmark. cbn [walk]. fold acc2. rewrite walk_app. cbn [walk fst snd]. rewrite app_nil_r. reflexivity. }
      rewrite Eits in HP, HR, HSy, HV.
      destruct (Pok_app _ _ _ HP) as [HP1 HP2]. rewrite Ew1 in HP2. cbn [snd] in HP2.
      destruct (Syn_app _ _ _ _ HSy) as [HSy1 HSy2]. rewrite Ew1 in HSy2. cbn [snd] in HSy2.
      assert (HSyv : Syn D acc2 (y_items v)).
      { unfold Syn in HSy1 |- *. rewrite Ew1 in HSy1. cbn [fst] in HSy1. exact HSy1. }
      rewrite V_app in HV. rewrite Ew1 in HV. cbn [snd] in HV.
      assert (EV1 : V inh acc1 (bmark :: y_items v ++ [bmark]) = V inh acc2 (y_items v)).
      { unfold V. rewrite Ew1. reflexivity. }
      rewrite EV1 in HV.
      assert (HPv : Pok acc2 (y_items v)).
      { destruct HP1 as [X1 X2]. rewrite Ew1 in X1, X2. cbn [fst snd] in X1, X2. split; [exact X1|].
        apply (crlf_split_app_l _ [E.mark]). exact X2. }
      pose proof (CstFullS6Text.Rooms_app_l D HD _ _ _ _ _ HR) as HR1.
      (* flush *)
      destruct (CstFullS6Text.buf_flush text D es inh m bacc bps r c0 c frs acc Hacc Hb Hnm HO HS Hbnd) as (c1 & G0 & E0 & HO1 & HS1 & L1 & L2 & L3).
      { apply (crlf_split_app_l _ [E.mark]). apply (Pok_acc _ _ HPv). }
      { intros Z0 Z1. destruct HR1 as [HR1 _]. rewrite Ew1 in HR1. cbn [fst snd] in HR1.
        apply (CstFullItems.node_room_room _ _ HR1).
        pose proof (CstFullS6Text.flush_later (y_items v ++ [bmark]) acc2) as Hl.
        rewrite walk_app in Hl. unfold bmark in Hl. cbn [walk fst snd] in Hl. rewrite app_nil_r in Hl.
        assert (X : NT.nsizes (CstFullTree.dens bpieces bmeaning (flush acc2)) = 1).
        { rewrite CstFullS6Text.nsizes_flush. unfold acc2, acc1. rewrite !CstEntCText.all_marks_app, Z0. cbn [andb].
          destruct (all_marks bps) eqn:Em; [apply (nomarks_all bps Hnm) in Em; congruence|]. reflexivity. }
        lia. }
      assert (Hend : at_end (sst e p ([38] ++ n ++ [59] ++ E.r_epieces rest ++ more)) = false) by (rewrite at_end_sst; lia).
      assert (Hpnc : parse_next_chunk text (sst e p ([38] ++ n ++ [59] ++ E.r_epieces rest ++ more)) (c_entities c) =
                     Ok (ChText (en_value en), sst e (p + 2 + blen n) (E.r_epieces rest ++ more)))
        by (rewrite (or_es _ _ _ _ _ _ _ HO); exact Epnc).
      assert (HWn : WV (p + 2 + blen n) (E.r_epieces rest ++ more)).
      { pose proof (WV_cons _ _ _ _ HW ltac:(lia)) as X1. cbn [app] in X1.
        destruct (uname_bytes n Hn) as (Hun & _). pose proof (WV_app _ _ _ _ X1 (ustr_valid _ Hun)) as X2.
        pose proof (WV_cons _ _ _ _ X2 ltac:(lia)) as X3.
        replace (p + 2 + blen n) with (p + 1 + blen n + 1) by lia. exact X3. }
      (* the detector *)
      cbn [ld_run] in Hld. destruct (ld_enter (c_ld c)) as [ld1|] eqn:Eenter; [|discriminate].
      rewrite ld_run_app in Hld. destruct (ld_run ld1 (y_trace v)) as [ld1'|] eqn:Erun1; [|discriminate]. cbn [ld_run] in Hld.
      destruct (enter_d _ _ Eenter) as [Hd1 Hd10].
      set (c2 := set_entity_floor (set_tag_name (set_ld c1 ld1) tag_name_null) (len_N (c_parent_prefixes c1))).
      assert (HO2 : OR inh c0 c2 (frs ++ G0)) by (apply (CstFullS6Text.OR_frame text D es inh c0 c1 c2 _ HO1); unfold c2; repeat split).
      assert (HS2 : SemI (frs ++ G0) acc2) by (apply CstEntCText.SemI_marks; [exact HS1|reflexivity]).
      assert (Hb2 : bnd acc2 = true) by (unfold acc2; rewrite CstEntCText.bnd_snoc; reflexivity).
      assert (Hok2 : ld_ok (c_ld c2)) by (unfold c2; cbn; apply (ld_ok_enter _ _ Eenter Hldok)).
      assert (HRv : Rooms inh c0 acc2 (y_items v)).
      { destruct HR1 as (X1 & X2 & X3). rewrite Ew1 in X1, X2, X3. cbn [fst snd] in X1, X2, X3. split; [|split; assumption].
        unfold CstNsItems.node_room in *. rewrite !bdens_app, !nsizes_app in *.
        assert (Y : NT.nsizes (CstFullTree.dens bpieces bmeaning (flush (snd (walk acc2 (y_items v))))) <=
                    NT.nsizes (CstFullTree.dens bpieces bmeaning (flush (snd (walk acc2 (y_items v)) ++ [E.mark])))).
        { rewrite !CstFullS6Text.nsizes_flush, CstEntCText.all_marks_app. change (all_marks [E.mark]) with true. rewrite andb_true_r. apply N.le_refl. }
        lia. }
      destruct (V inh acc2 (y_items v)) as [rv|] eqn:EVv.
      * (* the violation is inside the value *)
        injection HV as ->.
        destruct (value_n inh n v d en L c0 c2 (frs ++ G0) acc2 ld1' rl El Hfd Hent HO2 HS2 Hb2) as (sv & er & Es & Epc & R); try assumption.
        { unfold c2. cbn. lia. }
        { unfold c2. cbn. lia. }
        { unfold c2. reflexivity. }
        rewrite (ref_step_value_err (parse_content_lvl text L) r fu (sst e p ([38] ++ n ++ [59] ++ E.r_epieces rest ++ more))
                   (push_text_chunks m bacc tb_new) c (en_value en) (sst e (p + 2 + blen n) (E.r_epieces rest ++ more)) c1 ld1 sv er
                   Hend Hpnc E0 ltac:(rewrite L1; exact Eenter) Es Epc).
        cbn [bind]. eauto.
      * (* the value is read; the violation comes later *)
        pose proof (nsok_of D inh acc2 (y_items v) HSyv EVv) as HNv.
        destruct (CstFullS6Text.value_ok text D HD decls es Henv Hdecls Hcont k IHk inh n v d en L c0 c2 (frs ++ G0) acc2 ld1' El Hfd Hent HO2 HS2 Hb2)
          as (sv & s' & c0a & c2' & frsa & K1 & e1 & Es & Epc & HRes1); try assumption.
        { unfold c2. cbn. lia. }
        { unfold c2. cbn. lia. }
        { unfold c2. reflexivity. }
        pose proof HRes1 as (S1 & O1 & M1 & F1 & Le1 & Nc1 & D1 & D1' & Fl1 & T1).
        assert (Hpp : len_N (c_parent_prefixes c2') = c_entity_floor c2').
        { rewrite Fl1. change (c_entity_floor c2) with (len_N (c_parent_prefixes c1)).
          rewrite (CstEntText.Run_pp _ _ _ (or_run _ _ _ _ _ _ _ O1)), (CstEntText.Run_pp _ _ _ (or_run _ _ _ _ _ _ _ HO1)).
          destruct S1 as (_ & _ & ->). reflexivity. }
        rewrite (CstEntCText.ref_step text (parse_content_lvl text L) r fu (sst e p ([38] ++ n ++ [59] ++ E.r_epieces rest ++ more))
                   (push_text_chunks m bacc tb_new) c (en_value en) (sst e (p + 2 + blen n) (E.r_epieces rest ++ more)) c1 ld1 sv s' c2');
          try assumption.
        2:{ rewrite L1. exact Eenter. }
        set (c3 := set_ld (set_entity_floor (set_tag_name c2' (c_tag_name c1)) (c_entity_floor c1)) (dec_depth (c_ld c2'))).
        assert (HO3 : OR inh c0a c3 frsa) by (apply (CstFullS6Text.OR_frame text D es inh c0a c2' c3 _ O1); unfold c3; repeat split).
        assert (Eld3 : c_ld c3 = dec_depth ld1') by (unfold c3; cbn; rewrite D1; reflexivity).
        assert (Hdd : ld_depth (dec_depth ld1') = ld_depth (c_ld c)).
        { rewrite dec_d; rewrite D1'; unfold c2; cbn [c_ld set_entity_floor set_tag_name set_ld]; lia. }
        assert (HResE : Res inh c0 c acc1 (bmark :: y_items v ++ [bmark]) (dec_depth ld1') c0a c3 frsa K1 e1).
        { unfold CstFullS6Text.Res. rewrite Ew1. cbn [fst snd].
          split; [exact S1|]. split; [exact HO3|]. split; [apply CstEntCText.SemI_marks; [exact M1|reflexivity]|].
          split; [exact F1|]. split; [exact Le1|]. split; [exact Nc1|]. split; [exact Eld3|]. split; [exact Hdd|].
          split; [unfold c3; cbn; exact L3|]. unfold tn_set, c3. cbn. rewrite L2. auto. }
        apply (IH [] [] inh m e (p + 2 + blen n) more c0a c3 frsa (snd (walk acc2 (y_items v)) ++ [E.mark]) fu L r itr trr ld' rl); try assumption.
        -- lia.
        -- rewrite Eld3, Hdd. exact Hm.
        -- rewrite Eld3, Hdd. exact Hlvl.
        -- rewrite Eld3. apply ld_ok_dec. apply (ld_ok_run _ _ _ Erun1). apply (ld_ok_enter _ _ Eenter Hldok).
        -- apply acc_nil.
        -- reflexivity.
        -- constructor.
        -- apply CstEntCText.SemI_marks; [exact M1|reflexivity].
        -- rewrite CstEntCText.bnd_snoc. reflexivity.
        -- unfold c3. cbn [c_entity_floor c_parent_prefixes set_ld set_entity_floor set_tag_name].
           rewrite (CstEntText.Run_pp _ _ _ (or_run _ _ _ _ _ _ _ O1)). destruct S1 as (_ & _ & ->). rewrite L3.
           rewrite <- (CstEntText.Run_pp _ _ _ (or_run _ _ _ _ _ _ _ HO)). exact Hfl.
        -- rewrite Eld3. exact Hld.
        -- rewrite app_nil_r. exact HP2.
        -- rewrite app_nil_r. pose proof (CstFullS6Text.Rooms_app_r text D HD es _ _ _ _ _ _ _ _ _ _ _ _ HResE HR) as X. rewrite Ew1 in X. exact X.
        -- rewrite app_nil_r. exact HSy2.
        -- rewrite app_nil_r. exact HV.
        -- rewrite !app_length in Hfu. cbn [length] in Hfu. lia.
Qed.

End Level.

End NsText.

Print Assumptions ns_ok_split.
Print Assumptions value_n.
Print Assumptions TLn.
