(* Proofs/CstFullS11Base.v -- the capstone fragment, stage S11 (Spec/CstFullS11.v): what is new with respect to stage
   S10, on the semantic side (no parser).

   In entity mode (depth > 0) the crate normalises the line ends of the whole buffer, referenced characters included
   (Proofs/TextMachine.v [text_chunks_in_entity]).  Proofs/CstEntSem.v [in_entity_decode] shows that this is the
   decoding of the chunk list when no referenced character is a CR or a LF; here the same is shown when no referenced
   character is a CR and no referenced LF directly follows a literal CR ([in_entity_decode_w]).  The conditions on
   the pieces of a run ([wep_ok]: Proofs/CstFullS10aSem.v [uep_ok] with [charref_ok11]), on the buffer ([wacc_ok]:
   [acc_ok] with the adjacency condition) and the step that appends the chunks of one piece ([wacc_step], driven by
   Spec/CstFullS11.v [lf_ok]) replace [uep_ok] / [acc_ok] / [acc_app] in the copies of Proofs/CstFullS10Text.v and
   Proofs/CstFullS10Items.v.  The values [XText] and the attribute values keep the conditions of stage S10, so the
   files CstFullS10aSem .. CstFullS10bAttr and CstFullS10Ent are used as they are. *)
From Coq Require Import List NArith PeanoNat Bool Lia ZifyBool ZifyN ZifyNat.
Import ListNotations.
From RX Require Import Generated.
From RX.Model Require Import Base Builder.
From RX.Spec Require Cst CstText CstEnt Chars CstU Detector.
From RX.Spec Require Import Text CstFull.
From RX.Spec Require CstFullS7 CstFullS10 CstFullS11.
From RX.Proofs Require Import TextMachine HoistProofs NoPanicUtf8 CstTextSem CstEntSem CstEntMeaning CstEntRun CstEntInline.
From RX.Proofs Require CstLex CstULex.
From RX.Proofs Require Import CstFullS2Sem CstFullS10aSem.
Open Scope N_scope.

Notation charref_ok11 := CstFullS11.charref_ok11.
Notation lf_ok := CstFullS11.lf_ok.
Notation is_lf_ref := CstFullS11.is_lf_ref.
Notation lit_ends_cr := CstFullS11.lit_ends_cr.

(* ------------------------------------------------------------------------------------------ *)
(* decoding in entity mode, with referenced TAB / LF                                          *)
(* ------------------------------------------------------------------------------------------ *)
(* a chunk whose reference bytes contain no CR, and are not empty *)
Definition wchunk_plain (c : chunk) : Prop :=
  match c with
  | CLit _ => True
  | CRef bs => bs <> [] /\ forallb (fun x => negb (x =? 13)) bs = true
  end.

(* no referenced LF directly after a literal CR *)
Fixpoint adj_ok (cs : list chunk) : bool :=
  match cs with
  | [] => true
  | c :: r =>
    match c, r with
    | CLit x, CRef (y :: _) :: _ => negb ((x =? 13) && (y =? 10))
    | _, _ => true
    end && adj_ok r
  end.

Definition startsref10 (cs : list chunk) : bool :=
  match cs with CRef (y :: _) :: _ => y =? 10 | _ => false end.

Lemma adj_ok_tail c r : adj_ok (c :: r) = true -> adj_ok r = true.
Proof. cbn [adj_ok]. intros H. apply andb_true_iff in H. apply H. Qed.

Lemma adj_ok_lits bs : adj_ok (map CLit bs) = true.
Proof.
  induction bs as [|x bs IH]; [reflexivity|]. cbn [map adj_ok]. rewrite IH, andb_true_r.
  destruct bs; reflexivity.
Qed.

Lemma adj_ok_app a b : adj_ok a = true -> adj_ok b = true -> ends13 a && startsref10 b = false -> adj_ok (a ++ b) = true.
Proof.
  intros Ha Hb Hs. induction a as [|c a IH]; [exact Hb|].
  destruct a as [|c' a'].
  - cbn [app]. cbn [adj_ok]. rewrite Hb, andb_true_r. destruct c as [x|bs]; [|reflexivity].
    destruct b as [|[y|[|y b2]] b']; try reflexivity.
    unfold ends13 in Hs. cbn [last startsref10] in Hs. rewrite Hs. reflexivity.
  - change ((c :: c' :: a') ++ b) with (c :: (c' :: a') ++ b). cbn [adj_ok] in Ha |- *.
    apply andb_true_iff in Ha. destruct Ha as [H1 H2]. fold (adj_ok (c' :: a')) in H2.
    fold (adj_ok ((c' :: a') ++ b)). rewrite IH; [|exact H2|rewrite ends13_cons in Hs by discriminate; exact Hs].
    rewrite andb_true_r. cbn [app]. exact H1.
Qed.

Lemma in_entity_decode_len_w : forall n cs, (length cs <= n)%nat -> Forall wchunk_plain cs -> adj_ok cs = true ->
  norm_eol (concat (map chunk_bytes cs)) = decode_chunks cs.
Proof.
  induction n as [|n IH]; intros cs Hl HF Hadj.
  - destruct cs; [reflexivity|cbn in Hl; lia].
  - rewrite decode_chunks_gen. destruct cs as [|[x|bs] r]; [reflexivity| |].
    + inversion HF as [|? ? _ Hr]; subst. cbn [length] in Hl. cbn [map concat chunk_bytes app].
      pose proof (adj_ok_tail _ _ Hadj) as Hadj'.
      destruct (x =? 13) eqn:E13.
      * destruct r as [|[y|b2] r'].
        -- rewrite (gen_cr _ _ x []) by (assumption || exact I). rewrite gen_nil.
           cbn [map concat]. apply norm_eol_cr_end. exact E13.
        -- cbn [map concat chunk_bytes app]. destruct (y =? 10) eqn:E10.
           ++ rewrite (gen_crlf _ _ x y) by assumption. rewrite norm_eol_crlf by assumption.
              inversion Hr; subst. cbn [length] in Hl. rewrite <- decode_chunks_gen, <- IH; [reflexivity|lia|assumption|].
              apply (adj_ok_tail _ _ Hadj').
           ++ rewrite (gen_cr _ _ x (CLit y :: r')) by assumption. rewrite norm_eol_cr_other by assumption.
              rewrite <- decode_chunks_gen, <- (IH (CLit y :: r')) by (assumption || (cbn [length] in *; lia)). reflexivity.
        -- rewrite (gen_cr _ _ x (CRef b2 :: r')) by (assumption || exact I).
           rewrite <- decode_chunks_gen, <- (IH (CRef b2 :: r')) by (assumption || (cbn [length] in *; lia)).
           cbn [map concat chunk_bytes]. inversion Hr as [|? ? Hc _]; subst. cbn [wchunk_plain] in Hc. destruct Hc as [Hne Hb].
           destruct b2 as [|z b2]; [congruence|]. cbn [app forallb] in *.
           cbn [adj_ok] in Hadj. rewrite E13 in Hadj. cbn [andb] in Hadj. apply andb_true_iff in Hadj. destruct Hadj as [Hz _].
           rewrite norm_eol_cr_other; [reflexivity|exact E13|]. apply negb_true_iff in Hz. exact Hz.
      * rewrite (gen_lit_ne _ _ x) by assumption. rewrite norm_eol_ne by assumption.
        rewrite <- decode_chunks_gen, <- IH by (assumption || lia). reflexivity.
    + inversion HF as [|? ? Hc Hr]; subst. cbn [wchunk_plain] in Hc. destruct Hc as [Hne Hb]. cbn [length] in Hl. cbn [map concat chunk_bytes].
      rewrite gen_ref, norm_eol_app_no13 by exact Hb.
      rewrite <- decode_chunks_gen, <- IH; [reflexivity|lia|assumption|apply (adj_ok_tail _ _ Hadj)].
Qed.

(* in entity mode the crate normalises the line ends of the whole string; when no referenced character is a CR and
   no referenced LF directly follows a literal CR this is the decoding of the chunk list *)
Lemma in_entity_decode_w : forall cs, Forall wchunk_plain cs -> adj_ok cs = true -> run_text_chunks true cs = decode_chunks cs.
Proof. intros cs H Ha. rewrite text_chunks_in_entity. apply (in_entity_decode_len_w (length cs)); [lia|exact H|exact Ha]. Qed.

(* the condition is necessary: D30 *)
Example in_entity_pairs : run_text_chunks true [CLit 13; CRef [10]] = [10] /\ decode_chunks [CLit 13; CRef [10]] = [10; 10].
Proof. split; vm_compute; reflexivity. Qed.

(* ------------------------------------------------------------------------------------------ *)
(* the conditions on a run of character data inside a content entity                          *)
(* ------------------------------------------------------------------------------------------ *)
Definition wep_ok (m : bool) (p : E.epiece) : Prop :=
  match p with
  | E.EP q => bvpiece 60 q /\ (m = true -> charref_ok11 q = true)
  | E.ERef n => uname n /\ E.is_predef_name n = false
  end.

Definition wuchunk_okm (m : bool) (c : chunk) : Prop := c <> CRef [] /\ (m = true -> wchunk_plain c).
Definition wacc_ok (m : bool) (acc : list chunk) : Prop :=
  CV acc /\ Forall (wuchunk_okm m) acc /\ (m = true -> adj_ok acc = true).

Lemma charref_10_11 q : CstFullS10.charref_ok10 q = true -> charref_ok11 q = true.
Proof.
  destruct q as [cs|hex ds|e|cs]; try (intros _; reflexivity).
  cbn [CstFullS10.charref_ok10 CstFullS11.charref_ok11]. cbv zeta. intros H. lia.
Qed.

Lemma uep_wep m p : uep_ok m p -> wep_ok m p.
Proof.
  destruct p as [q|n]; cbn [uep_ok wep_ok]; [|auto]. intros [H1 H2]. split; [exact H1|].
  intros Hm. apply charref_10_11. apply H2. exact Hm.
Qed.

Lemma wep_false p : wep_ok false p -> uep_ok false p.
Proof. destruct p as [q|n]; cbn [uep_ok wep_ok]; [|auto]. intros [H1 _]. split; [exact H1|discriminate]. Qed.

Lemma wep_weaken m p : wep_ok m p -> wep_ok false p.
Proof. destruct p as [q|n]; cbn [wep_ok]; [intros [H _]; split; [exact H|discriminate]|auto]. Qed.

Lemma wacc_nil m : wacc_ok m [].
Proof. split; [apply CV_nil|]. split; [constructor|reflexivity]. Qed.

Lemma wacc_app m a b : wacc_ok m a -> wacc_ok m b -> (m = true -> ends13 a && startsref10 b = false) -> wacc_ok m (a ++ b).
Proof.
  intros (A1 & A2 & A3) (B1 & B2 & B3) Hs. split; [apply CV_app; assumption|]. split; [apply Forall_app; split; assumption|].
  intros Hm. apply adj_ok_app; auto.
Qed.

Lemma wep_chunks m q : wep_ok m (E.EP q) -> wacc_ok m (T.piece_chunks q).
Proof.
  intros [Hv Hc]. destruct (CV_vpiece 60 q Hv) as [H1 H2]. split; [exact H1|].
  destruct q as [bs|hex ds|e|bs]; cbn [bvpiece] in Hv; try contradiction; cbn [T.piece_chunks] in *.
  - split; [|intros _; apply adj_ok_lits]. apply Forall_forall. intros c Hin. rewrite Forall_forall in H2.
    split; [apply H2; exact Hin|]. intros _.
    apply in_map_iff in Hin. destruct Hin as (x & <- & _). exact I.
  - split; [|intros _; reflexivity]. inversion H2 as [|? ? Hc2 _]; subst.
    constructor; [|constructor]. split; [exact Hc2|]. intros Hm. specialize (Hc Hm).
    cbn [wchunk_plain]. split; [intros E0; apply Hc2; rewrite E0; reflexivity|].
    cbn [CstFullS11.charref_ok11] in Hc.
    change (T.utf8 (T.ref_val hex ds)) with (encode_utf8 (T.ref_val hex ds)).
    destruct (T.ref_val hex ds <? 128) eqn:E128.
    + rewrite encode_ascii by exact E128. cbn [forallb]. lia.
    + pose proof (encode_high _ E128) as Hh. revert Hh. apply CstLex.forallb_imp. intros x Hx. lia.
  - split; [|intros _; reflexivity]. constructor; [|constructor]. split; [discriminate|].
    intros _. cbn [wchunk_plain]. split; [discriminate|]. destruct e; reflexivity.
Qed.

Lemma wep_nonmark m p : wep_ok m (E.EP p) -> E.is_mark p = false.
Proof.
  intros [Hv _]. destruct p as [[|x bs]| | |]; try reflexivity. cbn [bvpiece] in Hv. destruct Hv as (Hne & _). congruence.
Qed.

(* the first chunk of a piece is a referenced LF exactly when the piece is a reference to LF *)
Lemma startsref10_piece q : bvpiece 60 q -> startsref10 (T.piece_chunks q) = is_lf_ref (E.EP q).
Proof.
  destruct q as [bs|hex ds|e|bs]; cbn [bvpiece T.piece_chunks CstFullS11.is_lf_ref]; intros Hv; try contradiction.
  - destruct bs; reflexivity.
  - change (T.utf8 (T.ref_val hex ds)) with (encode_utf8 (T.ref_val hex ds)).
    destruct (T.ref_val hex ds <? 128) eqn:E128.
    + rewrite encode_ascii by exact E128. reflexivity.
    + pose proof (encode_high _ E128) as Hh. pose proof (encode_nonempty (T.ref_val hex ds)) as Hn.
      destruct (encode_utf8 (T.ref_val hex ds)) as [|y r]; [cbn in Hn; lia|].
      cbn [forallb] in Hh. cbn [startsref10]. lia.
  - destruct e; reflexivity.
Qed.

(* one more piece in the buffer *)
Lemma wacc_step m acc q r : wacc_ok m acc -> wep_ok m (E.EP q) ->
  (m = true -> lf_ok (ends13 acc) (E.EP q :: r) = true) ->
  wacc_ok m (acc ++ T.piece_chunks q) /\ (m = true -> lf_ok (ends13 (acc ++ T.piece_chunks q)) r = true).
Proof.
  intros Hacc Hp Hlf. pose proof Hp as [Hv _]. split.
  - apply wacc_app; [exact Hacc|apply wep_chunks; exact Hp|]. intros Hm. specialize (Hlf Hm).
    cbn [CstFullS11.lf_ok] in Hlf. apply andb_true_iff in Hlf. destruct Hlf as [Hlf _].
    rewrite (startsref10_piece q Hv). apply negb_true_iff in Hlf. exact Hlf.
  - intros Hm. specialize (Hlf Hm). cbn [CstFullS11.lf_ok] in Hlf. apply andb_true_iff in Hlf. destruct Hlf as [_ Hlf].
    destruct (nonmark_chunks q (wep_nonmark _ _ Hp)) as (Hne & H13 & _).
    rewrite ends13_app by exact Hne. rewrite H13. exact Hlf.
Qed.

(* after a reference to an entity the buffer is empty *)
Lemma lf_ok_ref pend n r : lf_ok pend (E.ERef n :: r) = true -> lf_ok (ends13 []) r = true.
Proof. cbn [CstFullS11.lf_ok CstFullS11.is_lf_ref CstFullS11.lit_ends_cr]. rewrite andb_false_r. intros H. exact H. Qed.

Lemma emit_valid_w m acc : wacc_ok m acc ->
  run_text_chunks m acc = decode_chunks acc /\ Valid (decode_chunks acc).
Proof.
  intros (Hcv & H & Hadj). split; [|apply CV_decode; exact Hcv].
  destruct m.
  - apply in_entity_decode_w; [|apply Hadj; reflexivity]. eapply Forall_impl; [|exact H]. intros c (_ & Hc). apply Hc. reflexivity.
  - apply text_chunks_decode_partial. eapply Forall_impl; [|exact H]. intros c (Hc & _). exact Hc.
Qed.

Lemma wacc_decode_ne m c acc' : wacc_ok m (c :: acc') -> decode_chunks (c :: acc') <> [].
Proof.
  intros (_ & Hacc & _). rewrite decode_chunks_gen. apply gen_cons_ne. apply Forall_cons_iff in Hacc. destruct Hacc as [(Hc & _) _].
  destruct c as [x|bs]; [exact I|]. intros E0. apply Hc. cbv beta in E0. rewrite E0. reflexivity.
Qed.

(* ------------------------------------------------------------------------------------------ *)
(* (P2) on sub-lists, and through the encoding                                                *)
(* ------------------------------------------------------------------------------------------ *)
Lemma lf_ok_weaken pend ps : lf_ok pend ps = true -> lf_ok false ps = true.
Proof. destruct ps as [|p r]; [reflexivity|]. cbn [CstFullS11.lf_ok]. rewrite !andb_true_iff. intros [_ H]. split; [reflexivity|exact H]. Qed.

Lemma lf_ok_app_l pend a b : lf_ok pend (a ++ b) = true -> lf_ok pend a = true.
Proof.
  revert pend. induction a as [|p a IH]; intros pend H; [reflexivity|]. cbn [app CstFullS11.lf_ok] in *.
  apply andb_true_iff in H. destruct H as [H1 H2]. rewrite H1. apply (IH _ H2).
Qed.

Lemma lf_ok_app_r pend a b : lf_ok pend (a ++ b) = true -> lf_ok false b = true.
Proof.
  revert pend. induction a as [|p a IH]; intros pend H; [apply (lf_ok_weaken _ _ H)|]. cbn [app CstFullS11.lf_ok] in H.
  apply andb_true_iff in H. destruct H as [_ H2]. apply (IH _ H2).
Qed.

(* without references to LF there is nothing to check *)
Lemma lf_ok_none pend ps : existsb is_lf_ref ps = false -> lf_ok pend ps = true.
Proof.
  revert pend. induction ps as [|p r IH]; intros pend H; [reflexivity|]. cbn [existsb] in H. apply orb_false_iff in H. destruct H as [H1 H2].
  cbn [CstFullS11.lf_ok]. rewrite H1, andb_false_r. cbn [negb andb]. apply IH. exact H2.
Qed.

Lemma utf8s_last13 cs : E.ends_cr (T.PLit (utf8s cs)) = E.ends_cr (T.PLit cs).
Proof.
  cbn [E.ends_cr]. destruct cs as [|c0 r0] using rev_ind; [reflexivity|]. clear IHr0.
  rewrite CstULex.utf8s_app, !rev_app_distr. cbn [rev app]. rewrite CstULex.utf8s_cons. change (utf8s []) with (@nil N). rewrite app_nil_r.
  destruct (N.lt_ge_cases c0 128) as [L|L].
  - rewrite (CstULex.utf8_ascii c0 L). reflexivity.
  - destruct (CstULex.utf8_high c0 L) as (Hall & _).
    destruct (rev (CstU.utf8 c0)) as [|z t] eqn:Er.
    + cbn [app]. assert (E0 : CstU.utf8 c0 = []) by (rewrite <- (rev_involutive (CstU.utf8 c0)), Er; reflexivity).
      destruct (CstULex.utf8_high c0 L) as (_ & b0 & r & E1 & _). congruence.
    + cbn [app]. assert (Hz : 128 <= z).
      { rewrite Forall_forall in Hall. apply Hall. apply in_rev. rewrite Er. left. reflexivity. }
      lia.
Qed.

Lemma enc_lit_ends_cr p : lit_ends_cr (enc_epiece p) = lit_ends_cr p.
Proof. destruct p as [[cs|hex ds|e|cs]|n]; try reflexivity. cbn [enc_epiece enc_piece CstFullS11.lit_ends_cr]. apply utf8s_last13. Qed.

Lemma enc_is_lf_ref p : is_lf_ref (enc_epiece p) = is_lf_ref p.
Proof. destruct p as [[cs|hex ds|e|cs]|n]; reflexivity. Qed.

Lemma enc_lf_ok ps : forall pend, lf_ok pend (enc_epieces ps) = lf_ok pend ps.
Proof.
  induction ps as [|p r IH]; intros pend; [reflexivity|]. cbn [enc_epieces map CstFullS11.lf_ok].
  fold (enc_epieces r). rewrite enc_is_lf_ref, enc_lit_ends_cr, IH. reflexivity.
Qed.

(* (P2) on the stretches of a run *)
Lemma lf_segs : forall L pend, lf_ok pend (flat_map seg_pieces L) = true -> forall l, In (ESS l) L -> lf_ok false l = true.
Proof.
  induction L as [|s L IH]; intros pend H l Hin; [destruct Hin|]. cbn [flat_map] in H. destruct Hin as [->|Hin].
  - cbn [seg_pieces] in H. apply (lf_ok_weaken pend). apply (lf_ok_app_l _ _ _ H).
  - apply (IH false); [apply (lf_ok_app_r _ _ _ H)|exact Hin].
Qed.

Print Assumptions in_entity_decode_w.
Print Assumptions wacc_step.
Print Assumptions enc_lf_ok.
