(* The union statement of Proofs/CstSoundAll.v lifted to stage 11 (witness in S11, the widest stage):

     in_fragment_all11 text := in_fragment_11 text || in_fragment_8cr2 text

   - [in_fragment_11]  (Proofs/CstSound11.v; theorem [parse_sound_fragment_11], witness S11.wf_doc) is
     in_fragment_10 || in_fragment_11s (character references to TAB / LF in the literals without '<');
   - [in_fragment_8cr2] (Proofs/CstSoundCrFinal.v; witness S8.wf_doc): the documents WITHOUT a DOCTYPE that have CR bytes
     inside comments / PI values.
   [s8_in_s10] (Proofs/CstSoundAll.v) and [s10_in_s11] (Proofs/CstFullS11Main.v) move the S8 witness of the second half
   to S11 (same document, same rendering, same meaning).

   Nothing here is new mathematics: the file only assembles the existing theorems. *)
From Coq Require Import String.
From Coq Require Import List NArith Bool Lia.
Import ListNotations.
From RX Require Import Generated.
From RX.Model Require Import Base CharClass Stream Tokenizer Doc Builder Parse.
From RX.Spec Require Import CstFull CstFullS4 CstFullS5 CstFullS6 CstFullS7 CstFullS8 CstFullS9 CstFullS10 CstFullS11.
From RX.Proofs Require CstNsView CstFullS11Main.
From RX.Proofs Require Import CstSound CstSoundT CstSoundN CstSoundP CstSound6 CstSound6Sanity CstSound6U.
From RX.Proofs Require Import CstSound7 CstSound8 CstSound9 CstSound10 CstSound11.
From RX.Proofs Require CstSound10Final CstSound11Final CstSoundCrFinal.
From RX.Proofs Require Import CstSoundAll.
Open Scope N_scope.

Definition in_fragment_all11 (text : bytes) : bool :=
  in_fragment_11 text || CstSoundCrFinal.in_fragment_8cr2 text.

(* ---- the stage inclusion S8 -> S11 on witnesses ---- *)
Lemma s8_in_s11 : forall c : S6.doc, S8.wf_doc c = true ->
  S11.wf_doc c = true /\ S11.render c = S8.render c /\ S11.sem c = S8.sem c /\ S11.has_dtd c = S8.has_dtd c.
Proof.
  intros c H8.
  destruct (s8_in_s10 c H8) as (H10 & R10 & M10 & D10).
  destruct (CstFullS11Main.s10_in_s11 c H10) as (H11 & R11 & M11 & D11).
  split; [exact H11|]. split; [exact (eq_trans R11 R10)|]. split; [exact (eq_trans M11 M10)|exact (eq_trans D11 D10)].
Qed.

(* ---- inclusion of the stage-10 union ---- *)
Lemma in_fragment_all_all11 text : in_fragment_all text = true -> in_fragment_all11 text = true.
Proof.
  unfold in_fragment_all, in_fragment_all11. intros H. apply orb_true_iff in H. apply orb_true_iff.
  destruct H as [H|H]; [left; apply in_fragment_10_11; exact H|right; exact H].
Qed.
Lemma in_fragment_11_all11 text : in_fragment_11 text = true -> in_fragment_all11 text = true.
Proof. unfold in_fragment_all11. intros ->. reflexivity. Qed.
Lemma in_fragment_11s_all11 text : in_fragment_11s text = true -> in_fragment_all11 text = true.
Proof. intros H. apply in_fragment_11_all11. unfold in_fragment_11. rewrite H. apply orb_true_r. Qed.
Lemma in_fragment_8cr2_all11 text : CstSoundCrFinal.in_fragment_8cr2 text = true -> in_fragment_all11 text = true.
Proof. unfold in_fragment_all11. intros ->. apply orb_true_r. Qed.

(* ---- the statement ---- *)
Theorem parse_sound_all11 : forall text opt d,
  in_fragment_all11 text = true -> allow_dtd opt = true -> parse text opt = Ok d ->
  exists c : S6.doc, S11.wf_doc c = true /\ S11.render c = text.
Proof.
  intros text opt d HF Hallow H. unfold in_fragment_all11 in HF. apply orb_true_iff in HF. destruct HF as [HF|HF].
  - exact (CstSound11Final.parse_sound_fragment_11 text opt d HF Hallow H).
  - destruct (CstSoundCrFinal.parse_sound_fragment_8cr2 text opt d HF Hallow H) as (c & Hwf & Hr).
    destruct (s8_in_s11 c Hwf) as (H11 & R11 & _ & _).
    exists c. split; [exact H11|]. exact (eq_trans R11 Hr).
Qed.
Print Assumptions parse_sound_all11.

(* the tree is the meaning of the witness (the four resource bounds as hypotheses) *)
Theorem parse_sound_and_complete_all11_hyp : forall text opt d,
  in_fragment_all11 text = true -> allow_dtd opt = true -> parse text opt = Ok d ->
  exists c : S6.doc, S11.wf_doc c = true /\ S11.render c = text /\
    (N.of_nat (length (S11.sem c)) < u32_max -> N.of_nat (S11.nattrs c) < u32_max ->
     S11.distinct_decls_le c (N.to_nat 65535) -> 1 + N.of_nat (S11.ns_cost c) <= u32_max ->
     CstNsView.view text d = Some (S11.sem c)).
Proof.
  intros text opt d HF Ha H.
  destruct (parse_sound_all11 text opt d HF Ha H) as (c & Hwf & Hr).
  exists c. split; [exact Hwf|]. split; [exact Hr|]. intros L2 L3 Hd Hc.
  exact (CstSound11Final.parse_view_of_witness_11 text opt d c H Hwf Hr (fun _ => Ha) L2 L3 Hd Hc).
Qed.
Print Assumptions parse_sound_and_complete_all11_hyp.

(* ---- non-vacuity: one input from each of the three sides (stage 11 only, CR only, stage 10), each outside the other
   sides (the stage-11 one outside the whole stage-10 union), all accepted ---- *)
Example exall11_nonvacuous :
  in_fragment_all11 CstSound11Final.ex11_text = true /\ in_fragment_all CstSound11Final.ex11_text = false /\
  in_fragment_all11 CstSoundCrFinal.excr_text = true /\ in_fragment_11 CstSoundCrFinal.excr_text = false /\
  in_fragment_all11 CstSound10Final.ex10_text = true /\ in_fragment_10 CstSound10Final.ex10_text = true /\
  CstSoundCrFinal.in_fragment_8cr2 CstSound10Final.ex10_text = false /\
  acc6 CstSound11Final.ex11_text = true /\ acc6 CstSoundCrFinal.excr_text = true /\ acc6 CstSound10Final.ex10_text = true.
Proof. vm_compute. repeat split. Qed.

Example exall11_applied :
  (exists c : S6.doc, S11.wf_doc c = true /\ S11.render c = CstSound11Final.ex11_text) /\
  (exists c : S6.doc, S11.wf_doc c = true /\ S11.render c = CstSoundCrFinal.excr_text) /\
  (exists c : S6.doc, S11.wf_doc c = true /\ S11.render c = CstSound10Final.ex10_text).
Proof.
  destruct exall11_nonvacuous as (F1 & _ & F2 & _ & F3 & _ & _ & A1 & A2 & A3). unfold acc6 in A1, A2, A3.
  split; [|split].
  - destruct (parse CstSound11Final.ex11_text od) as [d| | |] eqn:E; try discriminate A1.
    exact (parse_sound_all11 _ od d F1 eq_refl E).
  - destruct (parse CstSoundCrFinal.excr_text od) as [d| | |] eqn:E; try discriminate A2.
    exact (parse_sound_all11 _ od d F2 eq_refl E).
  - destruct (parse CstSound10Final.ex10_text od) as [d| | |] eqn:E; try discriminate A3.
    exact (parse_sound_all11 _ od d F3 eq_refl E).
Qed.
Print Assumptions exall11_applied.
