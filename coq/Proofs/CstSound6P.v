(* Proofs/CstSound6P.v -- C08 soundness on stage S6 of Spec/CstFullS6.v, baseline: the fragment of
   Proofs/CstSoundP.v (prolog, general entities whose values are CHARACTER DATA, references used
   everywhere) is sound for S6: an accepted input of in_fragment_p is the rendering of a well-formed
   S6 document (parse_sound_fragment_p and CstFullS6Embed5.s5_in_s6), and the parser returns its
   meaning (parse_render_sem_full_s5 and the equality of the S5 and S6 meanings). *)
From Coq Require Import List NArith Bool Lia ZifyBool ZifyN ZifyNat.
Import ListNotations.
From RX Require Import Generated.
From RX.Model Require Import Base CharClass Stream Tokenizer Doc Builder Parse.
From RX.Spec Require Import CstFull CstFullS5 CstFullS6.
From RX.Proofs Require CstNsView CstFullS5 CstFullS6Embed5.
From RX.Proofs Require Import CstSoundP CstSoundPRDoc CstSoundPRCor.
Open Scope N_scope.

Theorem parse_sound_fragment_6_on_p : forall text opt d,
  in_fragment_p text = true -> allow_dtd opt = true -> parse text opt = Ok d ->
  exists c : S6.doc, S6.wf_doc c = true /\ S6.render c = text.
Proof.
  intros text opt d Hf Ha H. destruct (parse_sound_fragment_p text opt d Hf Ha H) as (c5 & Hwf & Hr).
  destruct (CstFullS6Embed5.s5_in_s6 c5 Hwf) as (W6 & R6 & _). exists (S6.of_s5 c5). split; [exact W6|]. rewrite R6. exact Hr.
Qed.
Print Assumptions parse_sound_fragment_6_on_p.

Theorem parse_sound_and_complete_6_on_p : forall text opt d,
  in_fragment_p text = true -> allow_dtd opt = true -> parse text opt = Ok d ->
  N.of_nat (length text) <= nodes_limit opt -> N.of_nat (length text) <= u32_max ->
  exists c : S6.doc, S6.wf_doc c = true /\ S6.render c = text /\ CstNsView.view text d = Some (S6.sem c).
Proof.
  intros text opt d Hf Ha H Hl Hs. destruct (parse_sound_and_complete_p text opt d Hf Ha H Hl Hs) as (c5 & Hwf & Hr & Hv).
  destruct (CstFullS6Embed5.s5_in_s6 c5 Hwf) as (W6 & R6 & S6e & _). exists (S6.of_s5 c5).
  split; [exact W6|]. split; [rewrite R6; exact Hr|]. rewrite S6e. exact Hv.
Qed.
Print Assumptions parse_sound_and_complete_6_on_p.
