(* Proofs/RangeParse.v -- C13, part 5: the callback, the recursion through entity expansion, and
   the theorems about the ranges of a parsed document. *)
From Coq Require Import Ascii String.
From Coq Require Import List Arith NArith Bool Lia ZifyBool ZifyN ZifyNat.
Import ListNotations.
From RX Require Import Generated.
From RX.Model Require Import Base CharClass Stream Tokenizer Doc Builder Parse Api.
From RX.Proofs Require Import Tactics NoPanicUtf8 NoPanicStream NoPanicTokenizer BorrowLocal BorrowParse
  RangeTokenizer RangeArena RangeInv RangeBuilder.
Open Scope N_scope.

Section WithText.
Variable text : bytes.
Hypothesis Hvalid : valid_utf8_b text = true.
Notation Bd := (Boundary text).
Notation VR := (valid_range text).
Notation RInv := (RInv text).
Notation RCore := (RCore text).
Notation stream := Stream.stream.

Ltac cproj :=
  cbn [c_opt c_ns_start_idx c_cur_attrs c_awaiting c_parent_prefixes c_entities c_after_text
       c_parent_id c_tag_name c_entity_floor c_ld c_doc
       set_doc set_ns_start_idx set_cur_attrs set_awaiting set_parent_prefixes set_entities
       set_after_text set_parent_id set_tag_name set_entity_floor set_ld
       d_nodes d_attrs d_ns_values d_ns_tree set_nodes set_attrs fst snd] in *.

Lemma VR_of r : fst r <= snd r -> Bd (fst r) -> Bd (snd r) -> VR r.
Proof. destruct r. apply VR_intro. Qed.

(* ---- the callback, generic in how Text is processed ---- *)
Lemma token_with_R L ptext :
  (forall t r c p0 p1, RInv L false p0 c -> TokAt text p0 p1 (TText t r) ->
                       okP (ptext t r c) (RInv L false p1)) ->
  forall tok c p0 p1, RInv L (tok_pre tok) p0 c -> TokAt text p0 p1 tok ->
    okP (token_with text ptext tok c) (RInv L (tok_post tok) p1).
Proof.
  intros Hp tok c p0 p1 HI HT. unfold token_with.
  destruct tok as [tgt content r | t r | name value | prefix local start | r ql el prefix local value
                  | e r | t r | t r]; cbn [tok_pre tok_post TokAt] in *.
  - (* PI *)
    destruct HT as (T1 & T2 & T3 & T4 & T5). subst p1.
    eapply okP_bind; [apply reset_after_text_R; exact HI|]. intros c1 [HC1 HT1]. cbn [TagOk] in HT1.
    eapply okP_bind; [eapply (append_node_R text L p0 p0 c1 _ r HC1); try lia;
                      [apply VR_of; assumption|intros; discriminate]|].
    intros [id c2] (H2 & H3 & _). cproj. apply okP_ret. split; [exact H2|cbn [TagOk]; congruence].
  - (* comment *)
    destruct HT as (T1 & T2 & T3 & T4 & T5). subst p1.
    eapply okP_bind; [apply reset_after_text_R; exact HI|]. intros c1 [HC1 HT1]. cbn [TagOk] in HT1.
    eapply okP_bind; [eapply (append_node_R text L p0 p0 c1 _ r HC1); try lia;
                      [apply VR_of; assumption|intros; discriminate]|].
    intros [id c2] (H2 & H3 & _). cproj. apply okP_ret. split; [exact H2|cbn [TagOk]; congruence].
  - (* entity declaration *)
    destruct HT as (T1 & T2 & T3). destruct HI as [HC HT0]. apply okP_ret. split; [|exact HT0].
    eapply (RCore_entities text L p0 p1 p0 p1 c _ {| en_name := name; en_value := value |} HC);
      cproj; try reflexivity; try assumption.
  - (* element start *)
    destruct HT as (T1 & T2 & T3 & T4).
    eapply okP_bind; [apply reset_after_text_R; exact HI|]. intros c1 [HC1 HT1]. cbn [TagOk] in HT1.
    destruct (bytes_eqb _ _); [apply okP_err_from|]. apply okP_ret. split.
    + cproj. cbn [tn_pos]. eapply RCore_same; [eapply (RCore_mono text L p0 p1 p0 start); [lia|lia|exact HC1]|reflexivity|].
      unfold same_comps; cproj; auto.
    + cbn [TagOk]. cproj. cbn [tn_pos]. rewrite HT1. auto.
  - (* attribute *)
    apply (process_attribute_R text L p0 p1); assumption.
  - (* element end *)
    eapply okP_bind; [apply reset_after_text_R; exact HI|]. intros c1 HI1.
    destruct e.
    + apply (process_element_start_R text L p0 p1); auto.
    + apply (process_element_close_R text L p0 p1); auto.
    + apply (process_element_start_R text L p0 p1); auto.
  - (* text *)
    apply (Hp _ _ _ p0 p1); assumption.
  - (* cdata *)
    destruct HT as (T1 & T2 & T3 & T4 & T5). subst p1.
    apply (process_cdata_R text L p0); try lia; [exact HI|apply VR_of; assumption].
Qed.

(* ---- text ---- *)
Lemma find_entity_In : forall es name e, find_entity text es name = Some e -> In e es.
Proof.
  induction es as [|x es IH]; intros name e H; cbn [find_entity] in H; [discriminate|].
  destruct (bytes_eqb _ _); [injection H as <-; left; reflexivity|right; eauto].
Qed.

Lemma parse_next_chunk_ent s es :
  okP (parse_next_chunk text s es)
      (fun x => match fst x with ChText v => exists e, In e es /\ v = en_value e | _ => True end).
Proof.
  unfold parse_next_chunk. repeat ok_step fail; cbn [fst]; auto.
  exists e. split; [eapply find_entity_In; eauto|reflexivity].
Qed.

(* without declared entities the loop does not touch the context *)
Lemma ptext_loop_noent pc r : forall fuel s buf c, c_entities c = [] ->
  okP (ptext_loop text pc r fuel s buf c) (fun x => snd x = c).
Proof.
  induction fuel as [|fu IH]; intros s buf c He; cbn [ptext_loop]; [apply okP_fuel|].
  destruct (at_end s); [apply okP_ret; reflexivity|].
  eapply okP_bind; [apply parse_next_chunk_ent|]. intros [ch s1] Hch. cbn [fst] in Hch.
  destruct ch.
  - apply IH; assumption.
  - apply IH; assumption.
  - rewrite He in Hch. destruct Hch as [e [[] _]].
Qed.

Definition pc_ok (pc : stream -> context -> res (stream * context)) : Prop :=
  forall L es c, SInv text es -> RInv L false (s_pos es) c ->
    okP (pc es c) (fun x => exists p', RInv L false p' (snd x)).

Lemma ptext_loop_R L pc r p1 : pc_ok pc -> VR r -> snd r = p1 ->
  forall fuel s buf c, RInv L false p1 c -> c_entities c <> [] ->
  okP (ptext_loop text pc r fuel s buf c) (fun x => RInv L false p1 (snd x) /\ c_entities (snd x) <> []).
Proof.
  intros Hpc Hr Hp1. induction fuel as [|fu IH]; intros s buf c HI Hne; cbn [ptext_loop]; [apply okP_fuel|].
  destruct (at_end s); [apply okP_ret; auto|].
  eapply okP_bind; [apply parse_next_chunk_ent|]. intros [ch s1] Hch. cbn [fst] in Hch.
  destruct ch.
  - apply IH; assumption.
  - apply IH; assumption.
  - destruct Hch as [e [Hin ->]].
    (* the pending text becomes a node *)
    eapply okP_bind with (Q' := fun c1 => RInv L false p1 c1 /\ c_entities c1 = c_entities c).
    { destruct (negb (tb_is_empty buf)); [|apply okP_ret; auto].
      apply okP_bind_any. intros bs.
      eapply okP_weaken; [apply (append_text_R text L p1 c _ r HI Hr); [lia|intros; contradiction]|].
      cbv beta. rewrite Hp1. auto. }
    intros c1 [HI1 Eent].
    assert (Hne1 : c_entities c1 <> []) by congruence.
    apply okP_bind_any. intros ld1. apply okP_bind_any. intros ld2. cbv zeta.
    (* the stream on the value of the entity *)
    assert (Hv : valid_slice text (en_value e)).
    { destruct HI1 as [(_ & _ & _ & _ & _ & Hent & _) _]. rewrite Forall_forall in Hent.
      apply Hent. rewrite Eent. exact Hin. }
    destruct Hv as (V1 & V2 & V3 & V4).
    eapply okP_bind.
    { apply okP_safe. apply (stream_from_substr_safe text); [split| |exact V1].
      - exact V3.
      - unfold tlen in V2. lia.
      - split; [exact V4|exact V2]. }
    intros es (Hes & Hpos & _). cproj.
    eapply okP_bind.
    { apply (Hpc (level_of c1) es); [exact Hes|].
      eapply (level_enter text L p1 (s_pos es) c1); cproj; try reflexivity; assumption. }
    intros [s2 c2] [p' HI2]. cproj.
    destruct (len_N (c_parent_prefixes c2) =? c_entity_floor c2) eqn:Efl; cbn [negb]; [|apply okP_err].
    apply N.eqb_eq in Efl.
    match goal with |- okP (ptext_loop _ _ _ _ _ _ ?c3) _ =>
      destruct (level_exit text L p1 p' c1 c2 c3 HI1 Hne1 HI2 Efl) as [HI3 Hne3];
        cproj; try reflexivity
    end.
    apply IH; assumption.
Qed.

Lemma RInv_entities_p L p0 p1 c : p0 <= p1 -> RInv L false p0 c -> RInv L false p1 c.
Proof. intros. eapply RInv_mono; eauto. Qed.

Lemma process_text_with_R L pc : pc_ok pc ->
  forall t r c p0 p1, RInv L false p0 c -> TokAt text p0 p1 (TText t r) ->
    okP (process_text_with text pc t r c) (RInv L false p1).
Proof.
  intros Hpc t r c p0 p1 HI (T1 & T2 & T3 & T4 & T5). subst p1.
  assert (Hr : VR r) by (apply VR_of; assumption).
  rewrite process_text_with_eq. cbv zeta.
  destruct (negb _).
  { eapply okP_weaken; [apply (append_text_R text L p0 c _ r HI Hr); [lia|intros; lia]|].
    cbv beta. tauto. }
  apply okP_bind_any. intros s0.
  destruct (c_entities c) as [|e0 es0] eqn:Eent.
  - eapply okP_bind; [apply ptext_loop_noent; exact Eent|]. intros [buf c1] Hc1. cbn [snd] in Hc1. subst c1.
    destruct (negb (tb_is_empty buf)).
    + apply okP_bind_any. intros bs.
      eapply okP_weaken; [apply (append_text_R text L p0 c _ r HI Hr); [lia|intros; lia]|].
      cbv beta. tauto.
    + apply okP_ret. eapply RInv_mono; [|exact HI]. lia.
  - assert (Hne : c_entities c <> []) by (rewrite Eent; discriminate).
    assert (HI1 : RInv L false (snd r) c) by (eapply RInv_mono; [|exact HI]; lia).
    eapply okP_bind; [apply (ptext_loop_R L pc r (snd r) Hpc Hr eq_refl); [exact HI1|exact Hne]|].
    intros [buf c1] [H1 Hne1]. cproj.
    destruct (negb (tb_is_empty buf)).
    + apply okP_bind_any. intros bs.
      eapply okP_weaken; [apply (append_text_R text L (snd r) c1 _ r H1 Hr); [lia|intros; contradiction]|].
      cbv beta. tauto.
    + apply okP_ret. exact H1.
Qed.

(* ---- the recursion through entity expansion ---- *)
Lemma parse_content_lvl_R : forall lvl, pc_ok (parse_content_lvl text lvl).
Proof.
  induction lvl as [|lvl IH]; intros L es c Hes HI; cbn [parse_content_lvl]; [apply okP_fuel|].
  eapply okP_weaken.
  - apply (parse_content_R text Hvalid context _ (RInv L)); [|exact Hes|].
    + intros tok c0 c1 p0 p1 H0 HT Hr.
      refine (token_with_R L _ _ tok c0 p0 p1 H0 HT c1 Hr).
      intros t r c2 q0 q1 H2 HT2. exact (process_text_with_R L _ IH t r c2 q0 q1 H2 HT2).
    + exists (s_pos es). split; [lia|exact HI].
  - intros [s' c'] [_ [p' [_ Hj]]]. exists p'. exact Hj.
Qed.

Lemma token_R L tok c p0 p1 : RInv L (tok_pre tok) p0 c -> TokAt text p0 p1 tok ->
  okP (Parse.token text tok c) (RInv L (tok_post tok) p1).
Proof.
  intros HI HT. unfold Parse.token, process_text. apply (token_with_R L _) with (p0 := p0); [|assumption|assumption].
  intros t r c2 q0 q1 H2 HT2.
  exact (process_text_with_R L _ (parse_content_lvl_R entity_levels) t r c2 q0 q1 H2 HT2).
Qed.

(* ---- the document itself ---- *)
Definition root0 : node_data :=
  {| nd_parent := None; nd_prev_sibling := None; nd_next_subtree := None; nd_last_child := None;
     nd_kind := KRoot; nd_range := (0, tlen text) |}.
Definition Ltop : level := {| lv_nodes0 := [root0]; lv_base := 0; lv_floor := 0; lv_top := true |}.

Lemma nth_N_single {A} (x y : A) i : nth_N [x] i = Some y -> i = 0 /\ y = x.
Proof.
  intros H. destruct (nth_N_snoc_inv [] x i y H) as [[H1 _]|[H1 H2]].
  - cbn in H1. lia.
  - cbn in H1. auto.
Qed.

Lemma init_context_R opt : okP (init_context text opt) (RInv Ltop false 0).
Proof.
  unfold init_context.
  eapply okP_bind; [apply push_ns_same|]. intros d [E1 E2]. cbn [d_nodes d_attrs] in E1, E2.
  apply okP_ret. split; [|reflexivity]. unfold RangeBuilder.RCore. cproj. rewrite E1, E2.
  assert (Hroot : VR (nd_range root0)).
  { cbn [root0 nd_range]. apply VR_intro; [lia|apply Boundary_0|apply Boundary_len]. }
  split; [intros i nd Hi; apply nth_N_single in Hi; destruct Hi as [_ ->]; exact Hroot|].
  split; [intros i a Hi; apply nth_N_lt in Hi; cbn in Hi; lia|].
  split; [intros id nd ns local ar nss Hi Hk; apply nth_N_single in Hi; destruct Hi as [_ ->]; discriminate|].
  split; [intros i nd0 Hi; cbn [Ltop lv_nodes0] in Hi; eauto|].
  split.
  { split; [exists root0; reflexivity|]. intros _. split; [reflexivity|]. exists root0. auto. }
  split; [constructor|]. split; [reflexivity|]. split; [discriminate|]. split; [reflexivity|].
  exists []. split; [reflexivity|]. split; [reflexivity|]. split; [constructor|].
  intros _. split; [reflexivity|].
  split; [|split; [|split; [|split; [|split]]]].
  - intros i nd Hi. apply nth_N_single in Hi. destruct Hi as [-> ->]. cbn. split; [lia|]. intros; lia.
  - intros nd Hi. apply nth_N_single in Hi. destruct Hi as [_ ->]. reflexivity.
  - intros i nd pid Hi Hp. apply nth_N_single in Hi. destruct Hi as [_ ->]. discriminate.
  - intros i nd q Hi Hq. apply nth_N_single in Hi. destruct Hi as [_ ->]. discriminate.
  - intros pnd q Hi Hq. apply nth_N_single in Hi. destruct Hi as [_ ->]. discriminate.
  - cbn. constructor; [intros []|constructor].
Qed.

Lemma parse_R opt d : parse text opt = Ok d ->
  exists p c, RInv Ltop false p c /\ d = c_doc c /\ len_N (c_parent_prefixes c) <= 1.
Proof.
  unfold parse. intros H.
  apply bind_ok in H. destruct H as [c0 [H0 H]].
  apply bind_ok in H. destruct H as [c1 [H1 H]].
  apply bind_ok in H. destruct H as [it [_ H]].
  apply bind_ok in H. destruct H as [he [_ H]].
  destruct (negb he); [discriminate|].
  destruct (1 <? len_N (c_parent_prefixes c1)) eqn:E; [discriminate|]. injection H as <-.
  pose proof (init_context_R opt c0 H0) as HI0.
  destruct (parse_document_R text Hvalid context (Parse.token text) (RInv Ltop)
              (fun tok c c' p0 p1 Hj Ht Hr => token_R Ltop tok c p0 p1 Hj Ht c' Hr)
              (allow_dtd opt) c0) with (a := c1) as [p Hp].
  - exists 0. split; [cbn; lia|exact HI0].
  - exact H1.
  - exists p, c1. split; [exact Hp|]. split; [reflexivity|lia].
Qed.

End WithText.

(* ------------------------------------------------------------------ *)
(* 1. validity, for every parsed document (entity-expanded nodes included) *)
Theorem parse_ranges_valid : forall text opt d, valid_utf8_b text = true ->
  parse text opt = Ok d -> doc_ranges_ok text d.
Proof.
  intros text opt d Hv H. destruct (parse_R text Hv opt d H) as (p & c & [HC _] & -> & _).
  destruct HC as (H1 & H2 & _ & H4 & _). split; [|split].
  - intros nd Hin. apply In_nth_N in Hin. destruct Hin as [i Hi]. eapply H1; eauto.
  - intros a Hin. apply In_nth_N in Hin. destruct Hin as [i Hi].
    destruct (H2 i a Hi) as (G1 & G2 & _). auto.
  - destruct (H4 0 (root0 text) eq_refl) as [nd [Hnd [_ Er]]]. exists nd. auto.
Qed.
Print Assumptions parse_ranges_valid.

(* 2. every attribute lies inside the range of its element (start tag), and the sub-ranges are ordered *)
Theorem parse_attr_ranges_inside : forall text opt d id nd ns local ar nss a i, valid_utf8_b text = true ->
  parse text opt = Ok d -> nth_N (d_nodes d) id = Some nd -> nd_kind nd = KElement ns local ar nss ->
  fst ar <= i -> i < snd ar -> nth_N (d_attrs d) i = Some a ->
  fst (nd_range nd) < fst (ad_range a) /\ snd (ad_range a) < snd (nd_range nd) /\
  fst (attr_range_qname a) = fst (ad_range a) /\ snd (attr_range_qname a) <= snd (ad_range a).
Proof.
  intros text opt d id nd ns local ar nss a i Hv H Hn Hk Hi1 Hi2 Ha.
  destruct (parse_R text Hv opt d H) as (p & c & [HC _] & -> & _).
  destruct HC as (_ & H2 & H3 & _).
  destruct (H3 id nd ns local ar nss Hn Hk) as [_ G]. destruct (G i a Hi1 Hi2 Ha) as [G1 G2].
  destruct (H2 i a Ha) as (_ & _ & G3).
  split; [exact G1|]. split; [exact G2|]. unfold attr_range_qname. cbn [fst snd]. auto.
Qed.
Print Assumptions parse_attr_ranges_inside.

(* without a DOCTYPE nothing is expanded: the order and nesting of the ranges is that of the tree *)
Lemma parse_R_nodtd text opt d : valid_utf8_b text = true ->
  contains_b (b "<!DOCTYPE") text = false -> parse text opt = Ok d ->
  NodesValid text (d_nodes d) /\
  (exists nd0, nth_N (d_nodes d) 0 = Some nd0 /\ nd_range nd0 = (0, tlen text)) /\
  exists bound cur, N34 bound (d_nodes d) cur [].
Proof.
  intros Hv Hd H. destruct (parse_R text Hv opt d H) as (p & c & [HC _] & -> & Hlen).
  destruct HC as (H1 & _ & _ & H4 & _ & _ & Hnd & _ & Hfl & opens & (Hc & _ & _ & HN)).
  specialize (Hnd Hd). cbn [Ltop lv_top lv_floor] in *.
  assert (opens = []) by (destruct opens; [reflexivity|cbn [length] in Hc; lia]). subst opens.
  destruct (HN Hnd) as [_ HN']. split; [exact H1|]. split.
  - destruct (H4 0 (root0 text) eq_refl) as [nd [Hn [_ Er]]]. exists nd. auto.
  - eauto.
Qed.

(* 3. nesting for documents without a DOCTYPE (no entity expansion): child within parent *)
Theorem parse_ranges_nest : forall text opt d id nd p pnd, valid_utf8_b text = true ->
  contains_b (b "<!DOCTYPE") text = false ->
  parse text opt = Ok d -> nth_N (d_nodes d) id = Some nd -> nd_parent nd = Some p -> nth_N (d_nodes d) p = Some pnd ->
  fst (nd_range pnd) <= fst (nd_range nd) /\ snd (nd_range nd) <= snd (nd_range pnd).
Proof.
  intros text opt d id nd p pnd Hv Hd H Hn Hp Hpn.
  destruct (parse_R_nodtd text opt d Hv Hd H) as (HV & (nd0 & Hn0 & Er0) & bound & cur & HN).
  destruct HN as (_ & _ & H3 & _).
  destruct (H3 id nd p Hn Hp) as [pnd' [Hpn' [G1 G2]]].
  assert (pnd' = pnd) by congruence. subst pnd'. split; [exact G1|].
  destruct G2 as [G2|[G2|[]]]; [exact G2|]. subst p.
  assert (pnd = nd0) by congruence. subst pnd. rewrite Er0. cbn [snd].
  destruct (HV id nd Hn) as (_ & V2 & _). exact V2.
Qed.
Print Assumptions parse_ranges_nest.

(* 4. ... and siblings disjoint and ascending *)
Theorem parse_ranges_siblings : forall text opt d id nd q qnd, valid_utf8_b text = true ->
  contains_b (b "<!DOCTYPE") text = false ->
  parse text opt = Ok d -> nth_N (d_nodes d) id = Some nd -> nd_prev_sibling nd = Some q -> nth_N (d_nodes d) q = Some qnd ->
  snd (nd_range qnd) <= fst (nd_range nd).
Proof.
  intros text opt d id nd q qnd Hv Hd H Hn Hq Hqn.
  destruct (parse_R_nodtd text opt d Hv Hd H) as (_ & _ & bound & cur & HN).
  destruct HN as (_ & _ & _ & H4 & _).
  destruct (H4 id nd q Hn Hq) as (_ & _ & qnd' & Hqn' & G).
  assert (qnd' = qnd) by congruence. subst qnd'. exact G.
Qed.
Print Assumptions parse_ranges_siblings.
