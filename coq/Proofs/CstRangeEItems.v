(* Proofs/CstRangeEItems.v -- C13 / C18 on the fragment of Spec/CstEnt.v (character-data entities),
   part 4: the induction of CstEntItems.v once more, observing the ranges of the new nodes and the
   storage of the new Text nodes.  (The scripts are those of CstEntBuild.v / CstEntItems.v,
   extended; those files are not modified.) *)
From Coq Require Import Ascii String.
From Coq Require Import List NArith PeanoNat Bool Lia ZifyBool ZifyN ZifyNat.
Import ListNotations.
From RX Require Import Generated.
From RX.Model Require Import Base CharClass Stream Tokenizer Doc Builder Parse.
From RX.Spec Require Cst CstText CstEnt Detector.
From RX.Spec Require Import Text.
From RX.Proofs Require Import Tactics CstLex CstBuild CstTree CstItems CstDoc TextMachine TextMerge HoistProofs NoPanicUtf8 DetectorProofs.
From RX.Proofs Require Import CstTextSem CstTextLex CstTextBuild CstTextItems.
From RX.Proofs Require Import CstEntSem CstEntText CstEntAttr CstEntMeaning CstEntRun CstEntLex CstEntDtd CstEntBuild CstEntInline CstEntItems.
From RX.Proofs Require Import CstRangeDefs CstRangeBuild CstRangeItems CstRangeTDefs CstRangeTBuild CstRangeEDefs CstRangeEText CstRangeEFrags.
Open Scope N_scope.

Section EItemsR.
Variable text : bytes.
Hypothesis Hascii : Forall (fun x => x < 128) text.
Variable decls : list E.edecl.
Variable q0 : N.                         (* where the first declaration is written *)
Notation es := (decl_ents q0 decls).
Hypothesis Henv : Forall2 (ent_ok text) decls es.
Hypothesis Hdecls : Forall decl_ok decls.
Hypothesis Hadjs : Forall decl_adj decls.
Hypothesis Hetext : Forall (fun d => exists vps, E.e_value d = E.EText vps) decls.
Variable k : nat.

Notation tb := (E.level decls k).
Notation ev := (tok_ev text).
Notation loop := (parse_content_loop text context (tok_ev text)).
Notation st := (CstLex.st text).
Notation W := (CstLex.W text).
Notation ExpG := (CstRangeEText.ExpG text decls es).

Notation StretchG := (StretchG text decls q0).
Notation RunG := (RunG text decls q0).
Notation vt := (vtable_at q0 decls).

Lemma tok_estretch_r p l more c0 c (frs : list (cow * range)) q tr F ld' :
  W p (E.r_epieces l ++ more) -> Forall (ep_ok false) l -> l <> [] ->
  Exp decls false [] l q tr F -> ld_run ld_init tr = Some ld' ->
  c_ld c = ld_init -> c_entities c = es ->
  CI c0 -> (frs = [] -> F <> [] -> room c0) -> c_after_text c0 = [] -> RunR c0 c frs ->
  exists c' G,
    ev (TText (sl p (p + blen (E.r_epieces l))) (p, p + blen (E.r_epieces l))) c = Ok c' /\
    RunR c0 c' (frs ++ G) /\ map (cow_bytes text) (map fst G) = F /\ StretchG l p G /\
    c_ld c' = ld_init /\ c_tag_name c' = c_tag_name c /\ c_entity_floor c' = c_entity_floor c.
Proof.
  intros HW Hok Hne He Hld Hc Hes I R Hat HR.
  unfold CstBuild.tok_ev, Parse.token. cbn [token_with]. unfold process_text.
  rewrite process_text_with_unfold. unfold slice_bytes at 1. cbn [sl sl_start sl_end].
  rewrite (W_sub _ _ _ _ HW).
  pose proof (W_le _ _ _ (W_app _ _ _ _ HW)) as Hle.
  destruct (existsb (fun x => (x =? 38) || (x =? 13)) (E.r_epieces l)) eqn:Efast; cbn [negb].
  - cbn [fst snd]. rewrite (stream_from_substr_W text p (E.r_epieces l) more HW). cbn [bind].
    destruct (TL_r text Hascii decls es Henv Hdecls false [] l q tr F He (p + blen (E.r_epieces l)) p more c0 c frs
                (S (length (s_rest (sst (p + blen (E.r_epieces l)) p (E.r_epieces l ++ more))))) entity_levels
                (p, p + blen (E.r_epieces l)) ld')
      as (c' & G & E' & HR' & HG & HX & K1 & K2 & K3 & K4); try assumption; try reflexivity.
    + rewrite Hc. reflexivity.
    + constructor.
    + rewrite Hc. exact Hld.
    + rewrite Hc. reflexivity.
    + cbn [sst s_rest]. rewrite app_length. lia.
    + cbn [push_text_chunks] in E'. rewrite E'. exists c', G. split; [reflexivity|]. split; [exact HR'|]. split; [exact HG|].
      split; [right; split; [exact Efast|exact HX]|]. repeat split; auto.
      rewrite K1. apply (ld_run_init tr ld' Hld). rewrite K2, Hc. reflexivity.
  - destruct (existsb_or_false _ _ _ Efast) as [E38 E13].
    destruct (exp_plain decls false l [] q tr F He Hok E38) as [-> ->]. cbn [app] in *.
    assert (Hemit : emit false (map CLit (E.r_epieces l)) = [E.r_epieces l]).
    { unfold emit. rewrite text_chunks_decode_partial.
      - rewrite decode_lits, norm_eol_nocr by exact E13.
        destruct (E.r_epieces l) as [|y x'] eqn:Ex; [|reflexivity].
        exfalso. destruct l as [|[pp|nn] l']; [congruence| |discriminate Ex].
        apply Forall_cons_iff in Hok. destruct Hok as [[Hv _] _]. destruct (r_piece_ne 60 pp Hv) as (x1 & r1 & E1).
        rewrite r_epieces_cons in Ex. cbn [E.r_epiece] in Ex. rewrite E1 in Ex. discriminate.
      - apply Forall_forall. intros ch Hin. apply in_map_iff in Hin. destruct Hin as (x & <- & _). discriminate. }
    destruct (run_append_r (CowBorrowed (sl p (p + blen (E.r_epieces l)))) (p, p + blen (E.r_epieces l)) c0 c frs HR I
                (fun Z0 => R Z0 ltac:(rewrite Hemit; discriminate)) Hat)
      as (c' & Ea & HRa & La1 & La2 & La3).
    rewrite Ea. exists c', [(CowBorrowed (sl p (p + blen (E.r_epieces l))), (p, p + blen (E.r_epieces l)))].
    split; [reflexivity|]. split; [exact HRa|]. split; [|split; [left; split; [exact Efast|reflexivity]|repeat split; auto; congruence]].
    cbn [map cow_bytes fst]. unfold slice_bytes. cbn [sl sl_start sl_end]. rewrite (W_sub _ _ _ _ HW). rewrite Hemit. reflexivity.
Qed.


Lemma eseg_step_ss_r l p rest c0 c (frs : list (cow * range)) fuel depth q tr F ld' :
  W p (E.r_epieces l ++ rest) -> eseg_wf (ESS l) -> text_stop rest ->
  Exp decls false [] l q tr F -> ld_run ld_init tr = Some ld' ->
  c_ld c = ld_init -> c_entities c = es -> CI c0 -> (frs = [] -> F <> [] -> room c0) -> c_after_text c0 = [] -> RunR c0 c frs ->
  exists c' G,
    loop (S fuel) depth (st p (E.r_epieces l ++ rest)) c = loop fuel depth (st (p + blen (E.r_epieces l)) rest) c' /\
    RunR c0 c' (frs ++ G) /\ map (cow_bytes text) (map fst G) = F /\ StretchG l p G /\
    c_ld c' = ld_init /\ c_tag_name c' = c_tag_name c /\ c_entity_floor c' = c_entity_floor c.
Proof.
  intros HW Hwf Hstop He Hld Hc Hes I R Hat HR.
  destruct (ess_bytes l Hwf) as (Hb & x & r & Ex & Hx60). destruct Hwf as (Hne & Hok & _ & Hn3).
  rewrite Ex in HW |- *. cbn [app] in HW |- *. rewrite (loop_text text) by assumption.
  change (x :: r ++ rest) with ((x :: r) ++ rest) in *. rewrite <- Ex in *.
  rewrite (lex_text' text Hascii) by assumption.
  destruct (tok_estretch_r p l rest c0 c frs q tr F ld' HW Hok Hne He Hld Hc Hes I R Hat HR)
    as (c' & G & E' & HR' & HG & HX & K1 & K2 & K3).
  rewrite E'. cbn [bind]. exists c', G. split; [reflexivity|]. split; [exact HR'|]. split; [exact HG|]. split; [exact HX|]. repeat split; auto.
Qed.


Lemma eseg_step_sc_r bs p rest c0 c (frs : list (cow * range)) fuel depth :
  W p (r_eseg (ESC bs) ++ rest) -> eseg_wf (ESC bs) -> c_ld c = ld_init ->
  CI c0 -> (frs = [] -> room c0) -> c_after_text c0 = [] -> RunR c0 c frs ->
  exists c',
    loop (S fuel) depth (st p (r_eseg (ESC bs) ++ rest)) c = loop fuel depth (st (p + blen (r_eseg (ESC bs))) rest) c' /\
    RunR c0 c' (frs ++ [(frag p (SC bs), seg_range p (SC bs))]) /\ cow_bytes text (frag p (SC bs)) = norm_eol bs /\
    c_ld c' = ld_init /\ c_tag_name c' = c_tag_name c /\ c_entity_floor c' = c_entity_floor c.
Proof.
  intros HW Hwf Hc I R Hat HR.
  assert (Hld : LD c) by (unfold LD; rewrite Hc; reflexivity).
  pose proof (seg_step text Hascii (SC bs) p rest c fuel depth HW Hwf Hld (fun H => ltac:(discriminate H))) as Es.
  cbn [r_eseg]. cbn [r_seg] in Es. rewrite Es.
  destruct (run_append_r (frag p (SC bs)) (seg_range p (SC bs)) c0 c frs HR I R Hat) as (c' & Ea & HRa & L1 & L2 & L3).
  rewrite Ea. cbn [bind]. exists c'. split; [reflexivity|]. split; [exact HRa|]. split.
  - rewrite (frag_bytes text p (SC bs) rest HW Hwf). reflexivity.
  - repeat split; congruence.
Qed.


Lemma run_loop_e_r c0 post : CI c0 -> c_after_text c0 = [] -> text_follow post ->
  forall L Q tr FF, RunExp decls L Q tr FF ->
  forall prev p c (frs : list (cow * range)) fuel depth ld',
  (frs = [] -> concat FF <> [] -> room c0) -> Forall eseg_wf L -> ealt (prev :: L) -> W p (flat_map r_eseg L ++ post) ->
  ld_run ld_init tr = Some ld' -> c_ld c = ld_init -> c_entities c = es -> RunR c0 c frs ->
  exists c' G,
    loop (length L + fuel) depth (st p (flat_map r_eseg L ++ post)) c =
    loop fuel depth (st (p + blen (flat_map r_eseg L)) post) c' /\
    RunR c0 c' (frs ++ G) /\ map (cow_bytes text) (map fst G) = concat FF /\ RunG L p G /\
    c_ld c' = ld_init /\ c_tag_name c' = c_tag_name c /\ c_entity_floor c' = c_entity_floor c /\ ld' = ld_init.
Proof.
  intros I Hat Hp L Q tr FF H.
  induction H as [|ps q tr F L Q tr' FF He HR IH|bs L Q tr' FF HR IH];
    intros prev p c frs fuel depth ld' R HF A HW Hld Hc Hes HRun.
  - cbn [length flat_map app Nat.add concat]. rewrite blen_nil, N.add_0_r. exists c, []. rewrite app_nil_r.
    cbn [ld_run] in Hld. injection Hld as <-. split; [reflexivity|]. split; [exact HRun|]. split; [reflexivity|]. split; [constructor|]. repeat split; auto.
  - apply Forall_cons_iff in HF. destruct HF as [Hs HL]. cbn [flat_map] in HW |- *. rewrite <- app_assoc in HW |- *.
    assert (A' : ealt (ESS ps :: L)) by (destruct A as [_ A]; exact A).
    rewrite ld_run_app in Hld. destruct (ld_run ld_init tr) as [ld1|] eqn:El1; [|discriminate].
    cbn [length Nat.add r_eseg] in *.
    destruct (eseg_step_ss_r ps p (flat_map r_eseg L ++ post) c0 c frs (length L + fuel) depth q tr F ld1 HW Hs
                (ealt_stop _ _ _ A' Hp eq_refl) He El1 Hc Hes I
                (fun Z0 Z1 => R Z0 ltac:(cbn [concat]; intros Z2; apply app_eq_nil in Z2; destruct Z2; contradiction)) Hat HRun)
      as (c1 & G1 & E1 & HR1 & HG1 & HX1 & K1 & K2 & K3).
    rewrite E1.
    assert (E1d : ld1 = ld_init).
    { destruct Hs as (Hne & Hok & _).
      destruct (TL text Hascii decls es Henv Hdecls false [] ps q tr F He (p + blen (E.r_epieces ps)) p
                  (flat_map r_eseg L ++ post) c0 c (map fst frs) (S (length (E.r_epieces ps))) entity_levels (p, p) ld1)
        as (_ & _ & _ & _ & _ & _ & Kd & _); try assumption; try reflexivity.
      - apply (W_le _ _ _ (W_app _ _ _ _ HW)).
      - rewrite Hc. reflexivity.
      - constructor.
      - rewrite Hc. exact El1.
      - rewrite Hc. reflexivity.
      - intros Z0 Z1. apply R; [destruct frs; [reflexivity|discriminate]|]. cbn [concat]. intros Z2. apply app_eq_nil in Z2. destruct Z2; contradiction.
      - apply HRun.
      - lia.
      - apply (ld_run_init tr ld1 El1). rewrite Kd, Hc. reflexivity. }
    subst ld1.
    destruct (IH (ESS ps) (p + blen (E.r_epieces ps)) c1 (frs ++ G1) fuel depth ld'
                (fun Z0 Z1 => R (proj1 (app_eq_nil _ _ Z0)) ltac:(cbn [concat]; intros Z2; apply app_eq_nil in Z2; destruct Z2; contradiction))
                HL A' (W_app _ _ _ _ HW) Hld K1)
      as (c' & G & E' & HR' & HG & HX & J1 & J2 & J3 & J4).
    { rewrite (RunR_entities _ _ _ HR1). rewrite <- Hes. symmetry. apply (RunR_entities _ _ _ HRun). }
    { exact HR1. }
    rewrite E'. exists c', (G1 ++ G). split; [rewrite blen_app, N.add_assoc; reflexivity|].
    split; [rewrite app_assoc; exact HR'|]. split; [rewrite !map_app, HG1, HG; reflexivity|].
    split; [constructor; assumption|]. repeat split; congruence.
  - apply Forall_cons_iff in HF. destruct HF as [Hs HL]. cbn [flat_map] in HW |- *. rewrite <- app_assoc in HW |- *.
    assert (A' : ealt (ESC bs :: L)) by (destruct A as [_ A]; exact A).
    cbn [length Nat.add] in *.
    destruct (eseg_step_sc_r bs p (flat_map r_eseg L ++ post) c0 c frs (length L + fuel) depth HW Hs Hc I
                (fun Z0 => R Z0 ltac:(cbn [concat app]; discriminate)) Hat HRun)
      as (c1 & E1 & HR1 & HG1 & K1 & K2 & K3).
    set (G1 := [(frag p (SC bs), seg_range p (SC bs))]) in *.
    rewrite E1.
    destruct (IH (ESC bs) (p + blen (r_eseg (ESC bs))) c1 (frs ++ G1) fuel depth ld'
                (fun Z0 Z1 => R (proj1 (app_eq_nil _ _ Z0)) ltac:(cbn [concat app]; discriminate))
                HL A' (W_app _ _ _ _ HW) Hld K1)
      as (c' & G & E' & HR' & HG & HX & J1 & J2 & J3 & J4).
    { rewrite (RunR_entities _ _ _ HR1). rewrite <- Hes. symmetry. apply (RunR_entities _ _ _ HRun). }
    { exact HR1. }
    rewrite E'. exists c', (G1 ++ G). split; [rewrite blen_app, N.add_assoc; reflexivity|].
    split; [rewrite app_assoc; exact HR'|]. split; [unfold G1; cbn [app map fst concat]; rewrite HG1, HG; reflexivity|].
    split; [unfold G1; cbn [app]; constructor; exact HX|]. repeat split; congruence.
Qed.



(* ------------------------------------------------------------------------------------------ *)
(* what is observed of every item                                                             *)
(* ------------------------------------------------------------------------------------------ *)

Fixpoint eitems_list (q : N) (l : list E.item) : list (N * E.item) :=
  match l with [] => [] | c :: r => eitems_at q c ++ eitems_list (q + nlen (E.r_item c)) r end.

Lemma eitems_at_elem p name attrs ws body :
  eitems_at p (E.IElem name attrs ws body) =
  (p, E.IElem name attrs ws body) ::
  match body with None => [] | Some (cs, _) => eitems_list (p + estart_tag_len name attrs ws) cs end.
Proof. destruct body as [[cs w2]|]; reflexivity. Qed.

Definition ekshape (kd : node_kind) (sh : eshape) : Prop :=
  match kd, sh with
  | KElement ns l _ _, ESElem sp => ns = None /\ CstRangeTBuild.pr l = sp
  | KText (Borrowed (SIn s)), ESText (Some sp) => CstRangeTBuild.pr s = sp
  | KText (Owned _), ESText None => True
  | KComment s, ESComment sp => CstRangeTBuild.pr s = sp
  | KPI t v, ESPI tsp vsp =>
    CstRangeTBuild.pr t = tsp /\ match v, vsp with
                                  | Some s, Some sp => CstRangeTBuild.pr s = sp
                                  | None, None => True
                                  | _, _ => False
                                  end
  | _, _ => False
  end.

(* what is observed of a new attribute *)
Definition attr_obs (a : attr_data) (sp : easpan) : Prop :=
  ad_range a = eas_range sp /\ CstRangeTBuild.pr (ad_local a) = eas_qname sp /\
  match ad_value a with
  | Borrowed (SIn v) => eas_borrowed sp = true /\ CstRangeTBuild.pr v = eas_value sp
  | Owned _ => eas_borrowed sp = false
  | _ => False
  end.

Lemma eads_obs : forall attrs attrs' q, length attrs' = length attrs ->
  Forall2 attr_obs (map ad_of (tas_e q attrs attrs')) (easpans_at q attrs).
Proof.
  induction attrs as [|a r IH]; intros attrs' q HL; destruct attrs' as [|a' r']; try discriminate; [constructor|].
  cbn [tas_e map easpans_at]. constructor; [|unfold nlen; fold (blen (E.r_attr a)); apply IH; cbn [length] in HL; injection HL as HL; exact HL].
  unfold attr_obs, ad_of, ta_e, easpan_at. cbv zeta.
  cbn [ad_range ad_local ad_value ta_range ta_local ta_value eas_range eas_qname eas_value eas_borrowed CstRangeTBuild.pr sl sl_start sl_end].
  unfold nlen, blen. split; [f_equal; lia|]. split; [reflexivity|].
  change (needs_norm (E.r_epieces (E.a_value a))) with (eneeds_norm (E.r_epieces (E.a_value a))).
  destruct (eneeds_norm (E.r_epieces (E.a_value a))); [reflexivity|]. split; reflexivity.
Qed.

Definition ExtraE (L : list (N * E.item)) (c c' : context) (K : list row) (ext : list attr_data) : Prop :=
  Forall2 ekshape (map snd K) (map snd (flat_map (enode_of vt) L)) /\ Forall2 attr_obs ext (flat_map eitem_aspans L) /\
  rng c' = rng c ++ map fst (flat_map (enode_of vt) L).

Lemma ExtraE_app L1 L2 c1 c2 c3 K1 K2 e1 e2 :
  ExtraE L1 c1 c2 K1 e1 -> ExtraE L2 c2 c3 K2 e2 -> ExtraE (L1 ++ L2) c1 c3 (K1 ++ K2) (e1 ++ e2).
Proof.
  intros (A1 & A2 & A3) (B1 & B2 & B3). split; [|split].
  - rewrite flat_map_app, !map_app. apply Forall2_app; assumption.
  - rewrite flat_map_app. apply Forall2_app; assumption.
  - rewrite B3, A3, flat_map_app, map_app, app_assoc. reflexivity.
Qed.

Lemma rattr_toks_attrs : forall attrs q,
  Forall (fun t => match t with TAttribute _ _ _ _ _ _ => True | _ => False end) (rattr_toks q attrs).
Proof. induction attrs as [|a r IH]; intros q; cbn [rattr_toks]; constructor; [exact Logic.I|apply IH]. Qed.

Lemma start_tag_rng_e p name attrs q empty c c' :
  (let! c1 := evs context (Parse.token text) (rstart_toks p name attrs) c in
   Parse.token text (end_tok q empty) c1) = Ok c' ->
  rng c' = rng c ++ [(p, q + (if empty then 2 else 1))].
Proof.
  intros H. apply bind_ok in H. destruct H as [c1 [H1 H2]].
  unfold rstart_toks in H1. cbn [evs] in H1. apply bind_ok in H1. destruct H1 as [c0 [H0 H1]].
  destruct (start_rng text _ _ _ _ _ H0) as [E0 T0].
  destruct (attrs_rng text _ _ (rattr_toks_attrs _ _) _ H1) as (E1 & T1 & _).
  unfold end_tok in H2. apply elem_end_rng in H2; [|destruct empty; exact Logic.I].
  rewrite H2, E1, E0, T1, T0. reflexivity.
Qed.

Lemma espan_elem_empty p name attrs ws :
  p + nlen (E.r_item (E.IElem name attrs ws None)) =
  p + 1 + blen name + blen (flat_map E.r_attr attrs) + blen ws + 2.
Proof. rewrite er_item_elem. unfold nlen, blen. rewrite !app_length. cbn [length]. lia. Qed.

Lemma espan_elem_open p name attrs ws cs ws2 :
  p + nlen (E.r_item (E.IElem name attrs ws (Some (cs, ws2)))) =
  p + 1 + blen name + blen (flat_map E.r_attr attrs) + blen ws + 1 + blen (E.r_items cs) + 2 + blen name + blen ws2 + 1.
Proof. rewrite er_item_elem. unfold nlen, blen. rewrite !app_length. cbn [length]. lia. Qed.

Lemma enode_elem p name attrs ws body :
  enode_of vt (p, E.IElem name attrs ws body) =
  [((p, p + nlen (E.r_item (E.IElem name attrs ws body))), ESElem (p + 1, p + 1 + nlen name))].
Proof. reflexivity. Qed.

Definition PIe_r (i : E.item) : Prop :=
  forall p post c depth fuel its tr ld',
    E.wf_item false i = true -> W p (E.r_item i ++ post) ->
    (E.is_text i = true -> text_follow post) ->
    CI c -> c_ld c = ld_init -> c_entities c = es -> c_after_text c = [] ->
    E.inline_item tb false i = Some (its, tr) -> ld_run ld_init tr = Some ld' ->
    forallb E.provisos_item (E.regroup its) = true ->
    node_room c (nsizes (den its)) -> attr_room c (nattrs_items (den its)) ->
    exists c' K ext,
      loop (esteps i + fuel) depth (st p (E.r_item i ++ post)) c =
      loop fuel depth (st (p + blen (E.r_item i)) post) c' /\
      Step c c' K ext /\ CI c' /\ c_after_text c' = [] /\ (tn_set c -> tn_set c') /\
      (is_eelem i = true -> tn_set c') /\
      Forall2 (km text (d_attrs (c_doc c'))) K (tag_list (c_parent_id c) (len_N (d_nodes (c_doc c))) (den its)) /\
      length ext = nattrs_items (den its) /\ ld' = ld_init /\ ExtraE (eitems_at p i) c c' K ext.


Lemma PIe_text_r ps : PIe_r (E.IText ps).
Proof.
  intros p post c depth fuel its tr ld' Hwf HW Hfol I Hc Hes Hat Hin Hld Hprov NR _.
  specialize (Hfol eq_refl). cbn [E.wf_item E.r_item esteps E.inline_item] in *.
  unfold E.wf_epieces in Hwf. rewrite !andb_true_iff in Hwf. destruct Hwf as [Hne [Hw Hadj]].
  destruct (inline_run_flat decls Hetext k false ps its tr Hin) as [Htexts Hps].
  pose proof (esegs_wf ps Hw Hadj) as HF.
  rewrite <- (esegs_flat ps) in Hps at 1.
  destruct (RunExp_of decls k (esegs ps) _ _ Hps) as [FF HFF].
  rewrite <- (esegs_render ps) in HW |- *.
  pose proof (RunExp_marks decls Hdecls _ _ _ _ HFF HF) as Hmarks.
  assert (Hfr : forall G, RunG (esegs ps) p G -> map gdesc G = run_frags vt p ps).
  { intros G HX. unfold run_frags. rewrite rsegs_esegs.
    apply (RunG_frs text decls q0 Henv Hdecls _ _ _ _ HFF p G ld_init ld' HX Hld eq_refl HF). }
  destruct (regroup_texts its Htexts) as [[Hm Er]|[Hm (qs & M & Er & Ep & HM)]].
  - (* only marks: nothing is appended, no node *)
    unfold den in *. rewrite Er in *. cbn [map tag_list nattrs_items] in *.
    destruct (run_loop_e_r c post I Hat Hfol (esegs ps) _ _ _ HFF (ESC []) p c [] fuel depth ld') as
      (c' & G & E' & HR' & HG & HX & K1 & K2 & K3 & K4); try assumption.
    + intros _ Hn. exfalso. apply Hn. apply (proj2 Hmarks). exact Hm.
    + apply ealt_sc. apply ealt_esegs.
    + split; [apply same_frame_refl|cbn [map firstn]; rewrite app_nil_r; reflexivity].
    + rewrite E'. rewrite (proj2 Hmarks Hm) in HG. destruct G; [|discriminate]. cbn [app] in HR'.
      assert (Ec : c' = c) by (apply Run_nil_eq; [exact (proj1 HR')|congruence..]). subst c'.
      exists c, [], []. split; [reflexivity|]. split; [apply Step_refl|]. split; [exact I|]. split; [exact Hat|].
      split; [auto|]. split; [discriminate|]. split; [constructor|]. split; [reflexivity|]. split; [exact K4|].
      unfold ExtraE. cbn [eitems_at flat_map enode_of fst snd]. rewrite <- (Hfr [] HX). cbn [map node_of_frags app].
      split; [constructor|]. split; [constructor|]. rewrite app_nil_r. reflexivity.
  - (* one Text node *)
    unfold den in *. rewrite Er in *. cbn [map erase tag_list nattrs_items] in *. rewrite app_nil_r.
    assert (R : room c) by (apply (node_room_room _ _ NR); unfold nsizes; cbn; lia).
    assert (Hcr : E.crlf_split_ok (pieces_of its) = true).
    { cbn [forallb E.provisos_item] in Hprov. rewrite andb_true_r in Hprov. rewrite Ep. apply crlf_split_marks; assumption. }
    destruct (run_loop_e_r c post I Hat Hfol (esegs ps) _ _ _ HFF (ESC []) p c [] fuel depth ld') as
      (c' & G & E' & HR' & HG & HX & K1 & K2 & K3 & K4); try assumption.
    + intros _ _. exact R.
    + apply ealt_sc. apply ealt_esegs.
    + split; [apply same_frame_refl|cbn [map firstn]; rewrite app_nil_r; reflexivity].
    + rewrite E'. cbn [app] in HR'.
      assert (HGne : G <> []).
      { intros ->. cbn [map] in HG. symmetry in HG. apply (proj1 Hmarks) in HG. congruence. }
      destruct G as [|[t0 r0] rest]; [congruence|]. destruct HR' as [HR' Hrng]. cbn [map fst snd firstn Run] in HR', Hrng.
      change (map fst ((t0, r0) :: rest)) with (t0 :: map fst rest) in HG.
      destruct HR' as (nodes' & Mn & SF).
      assert (Ec : set_after_text (run_ctx c nodes') (t0 :: map fst rest) = c') by (apply context_eq; [exact SF|cbn; congruence..]).
      destruct (run_reset_r text c nodes' t0 (map fst rest) I Mn) as (c2 & stg & Ereset & S & I2 & A2 & Tn & Hst & Hkind & Rg2).
      rewrite Ec in Ereset.
      pose proof (W_app _ _ _ _ HW) as HWend.
      rewrite (loop_reset_eq text _ c2 _ post Ereset A2 Hfol HWend).
      exists c2, [(Some (c_parent_id c), KText stg)], []. split; [reflexivity|].
      split; [exact S|]. split; [exact I2|]. split; [exact A2|]. split; [apply same_tn; exact Tn|].
      split; [discriminate|]. split; [|split; [reflexivity|split; [exact K4|]]].
      cbn [tag]. constructor; [|constructor]. split; [reflexivity|]. cbn [snd].
      rewrite Hst, HG. rewrite (concat_concat FF) || idtac.
      rewrite <- (text_sem_marks qs M HM), <- Ep.
      rewrite <- (RunExp_sem decls Hdecls _ _ _ _ HFF HF (ealt_esegs ps) Hcr).
      { clear. induction FF as [|F FF IH]; [reflexivity|]. cbn [concat map]. rewrite concat_app, IH. reflexivity. }
      (* where it is, what it holds *)
      unfold ExtraE. cbn [eitems_at flat_map enode_of fst snd]. rewrite <- (Hfr _ HX), app_nil_r.
      assert (Erng : rng c2 = rng c ++ [r0]).
      { rewrite Rg2, <- Hrng, <- Ec. reflexivity. }
      split; [|split; [constructor|]].
      * cbn [map snd gdesc fst]. destruct rest as [|[t1 r1] rest'].
        -- cbn [map node_of_frags snd]. constructor; [|constructor]. cbn [map] in Hkind. rewrite Hkind.
           destruct t0 as [s|bs]; cbn [cow_storage ekshape]; [reflexivity|exact Logic.I].
        -- cbn [map node_of_frags snd gdesc fst]. constructor; [|constructor]. cbn [map] in Hkind. rewrite Hkind. exact Logic.I.
      * rewrite Erng. f_equal. cbn [map gdesc snd fst]. destruct rest as [|[t1 r1] rest']; reflexivity.
Qed.




Lemma PIe_misc_r i ci : (i = E.IComment (match ci with Cst.IComment bs => bs | _ => [] end) /\ exists bs, ci = Cst.IComment bs) \/
                      (exists t s v, i = E.IPI t s v /\ ci = Cst.IPI t s v) ->
  CstRangeItems.PIr text ci -> PIe_r i.
Proof.
  intros Hi HPI p post c depth fuel its tr ld' Hwf HW _ I Hc Hes Hat Hin Hld _ NR AR.
  assert (E0 : its = [match ci with Cst.IComment bs => T.IComment bs | Cst.IPI t s v => T.IPI t s v | _ => T.IComment [] end] /\
               tr = [] /\ den its = [ci] /\ E.r_item i = Cst.r_item ci /\ Cst.wf_item ci = E.wf_item false i /\
               Cst.is_text ci = false /\ esteps i = CstItems.steps ci).
  { destruct Hi as [[-> [bs ->]]|(t & s0 & v & -> & ->)]; cbn [E.inline_item] in Hin; injection Hin as <- <-; repeat split; reflexivity. }
  destruct E0 as (-> & -> & Ed & Er & Ew & Et & Est). rewrite Ed in *. rewrite Er in *. rewrite Est.
  cbn [ld_run] in Hld. injection Hld as <-.
  destruct (HPI p post c depth fuel ltac:(rewrite Ew; exact Hwf) HW ltac:(intros Z; congruence) I ltac:(intros Z; congruence))
    as (c' & K & ext & E' & (S & I' & A & T1 & T2 & F & L) & HX).
  { unfold nsizes in NR. cbn [sem_items] in NR. rewrite app_nil_r in NR. exact NR. }
  { cbn [nattrs_items] in AR. rewrite Nat.add_0_r in AR. exact AR. }
  exists c', K, ext. split; [exact E'|]. split; [exact S|]. split; [exact I'|]. split; [apply A; exact Et|].
  split; [exact T1|]. split; [destruct Hi as [[-> _]|(? & ? & ? & -> & _)]; discriminate|].
  split; [cbn [tag_list]; rewrite app_nil_r; exact F|]. split; [cbn [nattrs_items]; lia|]. split; [reflexivity|].
  destruct HX as (X1 & X2 & X3). unfold ExtraE.
  destruct Hi as [[-> [bs ->]]|(t & s0 & v & -> & ->)]; cbn [eitems_at items_at flat_map map app] in *; rewrite ?app_nil_r in *.
  - split; [|split; [rewrite X2; constructor|exact X3]].
    inversion X1 as [|k0 sh ? ? Hk Hr]; subst. inversion Hr; subst. constructor; [|constructor].
    destruct k0 as [| | | |[[?|?]|?]]; cbn in Hk |- *; try contradiction; exact Hk.
  - split; [|split; [rewrite X2; constructor|exact X3]].
    inversion X1 as [|k0 sh ? ? Hk Hr]; subst. inversion Hr; subst. constructor; [|constructor].
    destruct k0 as [| | | |[[?|?]|?]]; cbn in Hk |- *; try contradiction; exact Hk.
Qed.


Lemma PIe_comment_r bs : PIe_r (E.IComment bs).
Proof. apply (PIe_misc_r _ (Cst.IComment bs)); [left; split; [reflexivity|eauto]|apply (PI_comment_r text Hascii)]. Qed.

Lemma PIe_pi_r t s v : PIe_r (E.IPI t s v).
Proof. apply (PIe_misc_r _ (Cst.IPI t s v)); [right; eauto|apply (PI_pi_r text Hascii)]. Qed.



(* ---- elements ---- *)
Lemma PIe_empty_r name attrs ws : PIe_r (E.IElem name attrs ws None).
Proof.
  intros p post c depth fuel its tr ld' Hwf HW _ I Hc Hes Hat Hin Hld Hprov NR AR.
  destruct (ewf_elem_parts _ _ _ _ Hwf) as (Hn & Ha & Hx & Hd & Hw & _). clear Hwf.
  rewrite inline_elem in Hin. destruct (E.inline_attrs tb false attrs) as [[attrs' tra]|] eqn:Eat; [|discriminate].
  cbn [E.obind fst snd] in Hin. injection Hin as <- <-.
  pose proof (inline_attrs_len _ _ _ _ _ Eat) as Elen.
  rewrite den_single in * by reflexivity. cbn [E.regroup forallb] in Hprov. rewrite prov_elem, !andb_true_r in Hprov.
  rewrite er_item_elem in *. rewrite <- !app_assoc in HW |- *.
  change ([47; 62] ++ post) with (tag_tail true ++ post) in *.
  cbn [esteps Nat.add]. rewrite (loop_elem' text) by assumption.
  rewrite <- raws_render in HW |- *.
  rewrite (lex_relement text Hascii) by (try assumption; apply raws_wf; exact Ha).
  cbv zeta. rewrite raws_render in HW |- *.
  rewrite erase_elem in NR, AR. cbn [nattrs_items] in AR. rewrite nattrs_elem, map_length, !Nat.add_0_r in AR.
  destruct (start_tag_e text Hascii decls es Henv Hdecls Hadjs p name attrs attrs' tra k ws true post c ld'
              HW (wf_name_ne _ Hn) Ha Hx Hd Eat Hprov Hld I Hc Hes)
    as (c' & ar & E & S & Hkm & I' & A & Tt & Eld & P1 & P2);
    [apply (node_room_room _ _ NR); unfold nsizes; cbn; lia|unfold attr_room, len_N in *; lia|].
  cbv zeta in E. pose proof E as E00. unfold CstBuild.tok_ev in E00. apply bind_ok in E. destruct E as (c1 & E1 & E2).
  rewrite E1. cbn [bind]. rewrite E2. cbn [bind negb].
  exists c', [(Some (c_parent_id c), KElement None (sl (p + 1) (p + 1 + blen name)) ar (1, 1))],
    (map ad_of (tas_e (p + 1 + blen name) attrs attrs')).
  split.
  - f_equal. f_equal. rewrite !blen_app. change (blen [60]) with 1. change (blen (tag_tail true)) with 2.
    change (blen [47; 62]) with 2. lia.
  - rewrite erase_elem.
    split; [split; [exact S|split; assumption]|]. split; [exact I'|]. split; [exact A|].
    split; [intros _; exact Tt|]. split; [intros _; exact Tt|]. split.
    + cbn [tag_list tag app]. fold (CstTree.eattrs (map erase_attr attrs')). rewrite eattrs_erase.
      constructor; [|constructor]. apply Hkm.
    + split; [|split; [exact Eld|]]. cbn [nattrs_items]. rewrite map_length, nattrs_elem, map_length, !Nat.add_0_r.
      destruct (tas_e_facts text decls (ws ++ tag_tail true ++ post) k attrs attrs' tra (p + 1 + blen name)) as (_ & _ & _ & Tl).
      { pose proof (W_app _ _ _ _ HW) as X. change (blen [60]) with 1 in X. apply (W_app _ _ _ _ X). }
      { exact Ha. } { exact Eat. }
      unfold len_N in Tl. lia.
      (* where it is *)
      rewrite eitems_at_elem. unfold ExtraE. cbn [flat_map app]. rewrite enode_elem, app_nil_r. split; [|split].
      * cbn. constructor; [split; reflexivity|constructor].
      * cbn [eitem_aspans snd fst]. rewrite app_nil_r. unfold nlen. fold (blen name). apply eads_obs. exact Elen.
      * rewrite (start_tag_rng_e _ _ _ _ _ _ _ E00). cbn [map fst]. rewrite espan_elem_empty. reflexivity.
Qed.



Definition PLe_r (cs : list E.item) : Prop :=
  forall p post c depth fuel its tr ld',
    ewf_items cs = true -> E.no_adjacent_text cs = true -> W p (E.r_items cs ++ post) -> text_follow post ->
    CI c -> c_ld c = ld_init -> c_entities c = es -> c_after_text c = [] ->
    E.inline_items tb false cs = Some (its, tr) -> ld_run ld_init tr = Some ld' ->
    forallb E.provisos_item (E.regroup its) = true ->
    node_room c (nsizes (den its)) -> attr_room c (nattrs_items (den its)) ->
    exists c' K ext,
      loop (esteps_list cs + fuel) depth (st p (E.r_items cs ++ post)) c =
      loop fuel depth (st (p + blen (E.r_items cs)) post) c' /\
      Step c c' K ext /\ CI c' /\ c_after_text c' = [] /\ (tn_set c -> tn_set c') /\
      Forall2 (km text (d_attrs (c_doc c'))) K (tag_list (c_parent_id c) (len_N (d_nodes (c_doc c))) (den its)) /\
      length ext = nattrs_items (den its) /\ ld' = ld_init /\ ExtraE (eitems_list p cs) c c' K ext.


Lemma PLe_of_r cs : Forall PIe_r cs -> PLe_r cs.
Proof.
  induction 1 as [|i r Hi _ IH]; intros p post c depth fuel its tr ld' Hwf Hna HW Hfol I Hc Hes Hat Hin Hld Hprov NR AR.
  - cbn [E.inline_items] in Hin. injection Hin as <- <-. cbn [ld_run] in Hld. injection Hld as <-.
    exists c, [], []. cbn [esteps_list E.r_items flat_map app Nat.add blen length] in *.
    change (N.of_nat 0) with 0. rewrite N.add_0_r.
    split; [reflexivity|]. split; [apply Step_refl|]. split; [exact I|]. split; [exact Hat|]. split; [auto|].
    split; [constructor|]. split; [reflexivity|]. split; [reflexivity|].
    split; [constructor|]. split; [constructor|]. cbn [eitems_list flat_map map]. rewrite app_nil_r. reflexivity.
  - cbn [ewf_items] in Hwf. apply andb_true_iff in Hwf. destruct Hwf as [Hw1 Hw2].
    rewrite r_items_cons in HW |- *. rewrite <- app_assoc in HW |- *.
    cbn [E.inline_items] in Hin.
    destruct (E.inline_item tb false i) as [[its1 tr1]|] eqn:Ei; [|discriminate]. cbn [E.obind fst snd] in Hin.
    destruct (E.inline_items tb false r) as [[its2 tr2]|] eqn:Er; [|discriminate]. cbn [E.obind fst snd] in Hin.
    injection Hin as <- <-.
    assert (Hna2 : E.no_adjacent_text r = true).
    { destruct r as [|d r']; [reflexivity|]. cbn [E.no_adjacent_text] in Hna. apply andb_true_iff in Hna. apply Hna. }
    assert (Hnext : forall d r', r = d :: r' -> E.is_text i = true -> E.is_text d = false).
    { intros d r' -> Hi1. cbn [E.no_adjacent_text] in Hna. apply andb_true_iff in Hna.
      destruct Hna as [Hna _]. rewrite Hi1 in Hna. cbn [andb] in Hna. apply negb_true_iff in Hna. exact Hna. }
    (* re-grouping does not cross the item boundary *)
    assert (Ereg : E.regroup (its1 ++ its2) = E.regroup its1 ++ E.regroup its2).
    { destruct (E.is_text i) eqn:Eti.
      - apply regroup_app. destruct r as [|d r']; [cbn [E.inline_items] in Er; injection Er as <- _; exact Logic.I|].
        cbn [E.inline_items] in Er. destruct (E.inline_item tb false d) as [[itd trd]|] eqn:Ed; [|discriminate].
        cbn [E.obind fst snd] in Er. destruct (E.inline_items tb false r') as [[itr trr]|]; [|discriminate].
        cbn [E.obind fst snd] in Er. injection Er as <- _.
        destruct (inline_nontext decls k d itd trd (Hnext d r' eq_refl eq_refl) Ed) as (x & -> & Hx). exact Hx.
      - destruct (inline_nontext decls k i its1 tr1 Eti Ei) as (x & -> & Hx). cbn [app]. rewrite !regroup_nontext by exact Hx. reflexivity. }
    unfold den in NR, AR |- *. rewrite Ereg in *. rewrite map_app in *. fold (den its1) in *. fold (den its2) in *.
    rewrite nsizes_app in NR. rewrite nattrs_items_app in AR. rewrite forallb_app in Hprov.
    apply andb_true_iff in Hprov. destruct Hprov as [Hp1 Hp2].
    rewrite ld_run_app in Hld. destruct (ld_run ld_init tr1) as [ld1|] eqn:El1; [|discriminate].
    assert (Hfollow : E.is_text i = true -> text_follow (E.r_items r ++ post)).
    { intros Hi1. destruct r as [|d r']; [exact Hfol|].
      rewrite r_items_cons, <- app_assoc. apply enontext_follow; [apply (Hnext d r' eq_refl Hi1)|].
      cbn [ewf_items] in Hw2. apply andb_true_iff in Hw2. apply Hw2. }
    destruct (Hi p (E.r_items r ++ post) c depth (esteps_list r + fuel)%nat its1 tr1 ld1 Hw1 HW Hfollow I Hc Hes Hat Ei El1 Hp1)
      as (c1 & K1 & e1 & E1 & S1 & I1 & A1 & T1 & _ & F1 & L1 & Eld1 & X1).
    { unfold node_room in *. lia. }
    { unfold attr_room in *. lia. }
    subst ld1.
    pose proof (Step_nodes_len _ _ _ _ S1) as Ln1.
    rewrite (Forall2_len_N _ _ _ F1) in Ln1. unfold len_N at 3 in Ln1. rewrite tag_list_len in Ln1.
    pose proof (Step_attrs_len _ _ _ _ (proj1 S1)) as La1. unfold len_N at 3 in La1. rewrite L1 in La1.
    pose proof (Step_opt _ _ _ _ (proj1 S1)) as Lo1.
    destruct (Step_keep _ _ _ _ S1) as [Kld Kes].
    destruct (IH (p + blen (E.r_item i)) post c1 depth fuel its2 tr2 ld' Hw2 Hna2 (W_app _ _ _ _ HW) Hfol I1
                ltac:(congruence) ltac:(congruence) A1 Er Hld Hp2)
      as (c2 & K2 & e2 & E2 & S2 & I2 & A2 & T2 & F2 & L2 & Eld2 & X2).
    { unfold node_room in *. rewrite Ln1, Lo1. lia. }
    { unfold attr_room in *. rewrite La1. lia. }
    exists c2, (K1 ++ K2), (e1 ++ e2). split.
    { cbn [esteps_list]. rewrite <- Nat.add_assoc, E1, E2. f_equal. f_equal. rewrite blen_app. lia. }
    split; [eapply Step_trans; eassumption|]. split; [exact I2|]. split; [exact A2|]. split; [auto|]. split.
    + rewrite tag_list_app. apply Forall2_app.
      * rewrite (s_attrs _ _ _ _ (proj1 S2)). apply km_Forall2_ext. exact F1.
      * destruct S1 as (_ & P1 & _). rewrite P1, Ln1 in F2. exact F2.
    + split; [|split; [exact Eld2|]]. { rewrite app_length, L1, L2, nattrs_items_app. reflexivity. }
      cbn [eitems_list]. unfold nlen. fold (blen (E.r_item i)). eapply ExtraE_app; eassumption.
Qed.


Ltac clia := repeat match goal with H : @eq bool _ true |- _ => clear H end; lia.

Lemma eopen_body_r name attrs attrs' ws cs ws2 p post c c1 ar its2 tr2 ld2 tr0 :
  PLe_r cs ->
  Cst.wf_name name = true -> Cst.wf_ws ws2 = true -> E.no_adjacent_text cs = true -> ewf_items cs = true ->
  W p ([60] ++ name ++ flat_map E.r_attr attrs ++ ws ++ tag_tail false ++ E.r_items cs ++ [60; 47] ++ name ++ ws2 ++ [62] ++ post) ->
  CI c -> c_ld c = ld_init -> c_entities c = es ->
  E.inline_items tb false cs = Some (its2, tr2) -> ld_run ld_init tr2 = Some ld2 ->
  forallb E.provisos_item (E.regroup its2) = true -> length attrs' = length attrs ->
  node_room c (1 + nsizes (den its2)) -> attr_room c (length attrs + nattrs_items (den its2)) ->
  Step0 c c1 [(Some (c_parent_id c), KElement None (sl (p + 1) (p + 1 + blen name)) ar (1, 1))]
        (map ad_of (tas_e (p + 1 + blen name) attrs attrs')) ->
  (forall m, km text (d_attrs (c_doc c1)) (Some (c_parent_id c), KElement None (sl (p + 1) (p + 1 + blen name)) ar (1, 1))
     (c_parent_id c, Cst.VElem name (T.eattrs attrs') m)) ->
  CI c1 -> c_after_text c1 = [] -> tn_set c1 ->
  c_parent_id c1 = len_N (d_nodes (c_doc c)) -> c_parent_prefixes c1 = c_parent_prefixes c ++ [sl (p + 1) (p + 1)] ->
  len_N (tas_e (p + 1 + blen name) attrs attrs') = len_N attrs ->
  let q := p + 1 + blen name + blen (flat_map E.r_attr attrs) + blen ws + blen (tag_tail false) in
  let e := q + blen (E.r_items cs) in
  rng c1 = rng c ++ [(p, q)] -> E.inline_attrs tb false attrs = Some (attrs', tr0) ->
  forall d fuel,
  exists c3 K ext,
    loop (esteps_list cs + S fuel) d (st q (E.r_items cs ++ [60; 47] ++ name ++ ws2 ++ [62] ++ post)) c1 =
    (let! c' := Ok c3 in
     if d =? 0 then Ok (st (e + 2 + blen name + blen ws2 + 1) post, c')
     else loop fuel (d - 1) (st (e + 2 + blen name + blen ws2 + 1) post) c') /\
    Step c c3 K ext /\ CI c3 /\ c_after_text c3 = [] /\ tn_set c3 /\
    Forall2 (km text (d_attrs (c_doc c3))) K
      (tag_list (c_parent_id c) (len_N (d_nodes (c_doc c)))
         [erase (T.IElem name attrs' ws (Some (E.regroup its2, ws2)))]) /\
    length ext = nattrs_items [erase (T.IElem name attrs' ws (Some (E.regroup its2, ws2)))] /\ ld2 = ld_init /\
    ExtraE (eitems_at p (E.IElem name attrs ws (Some (cs, ws2)))) c c3 K ext.
Proof.
  intros HPL Hn Hw2 Hna Hcs HW I Hc Hes Hin2 Hld2 Hprov2 Elen NR AR S1 Hkm I1 A1 T1 P1 P2 Tl q e X1c Eat d fuel.
  set (post2 := [60; 47] ++ name ++ ws2 ++ [62] ++ post) in *.
  pose proof (W_app _ _ _ _ HW) as HW1. change (blen [60]) with 1 in HW1.
  pose proof (W_app _ _ _ _ HW1) as HW2. pose proof (W_app _ _ _ _ HW2) as HW3.
  pose proof (W_app _ _ _ _ HW3) as HW4. pose proof (W_app _ _ _ _ HW4) as HW5. fold q in HW5.
  pose proof (Step0_len _ _ _ _ S1) as Ln1. change (len_N [_]) with 1 in Ln1.
  pose proof (Step_attrs_len _ _ _ _ S1) as La1. rewrite len_N_map, Tl in La1.
  pose proof (Step_opt _ _ _ _ S1) as Lo1.
  destruct (s_keep _ _ _ _ S1) as (_ & _ & Kes & _ & Kld & _).
  destruct (HPL q post2 c1 d (S fuel) its2 tr2 ld2 Hcs Hna HW5 (close_follow name ws2 post) I1
              ltac:(congruence) ltac:(congruence) A1 Hin2 Hld2 Hprov2)
    as (c2 & K2 & e2 & E2 & S2 & I2 & A2 & T2 & F2 & L2 & Eld2 & X2).
  { unfold node_room in *. rewrite Ln1, Lo1. clia. }
  { unfold attr_room, len_N in *. rewrite La1. clia. }
  rewrite E2. clear E2.
  pose proof (W_app _ _ _ _ HW5) as HW6. fold e in HW6 |- *.
  unfold post2 in HW6 |- *. rewrite (loop_close text) by exact HW6.
  rewrite (lex_close text Hascii) by assumption. cbv zeta.
  destruct S2 as (S2 & Pid2 & Pp2).
  pose proof (W_app _ _ _ _ HW6) as HW7. change (blen [60; 47]) with 2 in HW7.
  destruct (close_tag_ok text (sl (e + 2) (e + 2)) (sl (e + 2) (e + 2 + blen name))
              (e, e + 2 + blen name + blen ws2 + 1) c2 (c_parent_id c) None
              (sl (p + 1) (p + 1 + blen name)) ar (1, 1) name (c_parent_prefixes c) (sl (p + 1) (p + 1)) I2)
    as (c3 & E3 & S3 & I3 & Pid3 & Pp3 & A3 & Tn3).
  { rewrite Pid2, P1, (s_nodes _ _ _ _ S2), (s_nodes _ _ _ _ S1).
    replace (N.to_nat (len_N (d_nodes (c_doc c)))) with (length (absn (c_doc c)))
      by (unfold absn, len_N; rewrite map_length; clia).
    rewrite <- app_assoc, nth_error_app2 by clia. rewrite Nat.sub_diag. reflexivity. }
  { apply (W_slice _ _ _ _ HW1). }
  { apply (W_slice _ _ _ _ HW7). }
  { apply slice_empty. }
  { rewrite Pp2, P2. reflexivity. }
  { apply (ci_pp _ I). }
  { apply slice_empty. }
  { apply T2. exact T1. }
  { rewrite (Step0_len _ _ _ _ S2), Ln1. pose proof (ci_pid _ I). clia. }
  { destruct (ci_par _ I) as (par & k0 & Ep & Hk). exists par, k0. split; [|exact Hk].
    rewrite (s_nodes _ _ _ _ S2), (s_nodes _ _ _ _ S1), <- app_assoc.
    rewrite nth_error_app1; [exact Ep|].
    pose proof (ci_pid _ I) as Hp. rewrite <- absn_len in Hp. unfold len_N in Hp. clia. }
  pose proof E3 as E3'. unfold CstBuild.tok_ev in E3'.
  rewrite E3. cbn [bind].
  exists c3, ((Some (c_parent_id c), KElement None (sl (p + 1) (p + 1 + blen name)) ar (1, 1)) :: K2),
    (map ad_of (tas_e (p + 1 + blen name) attrs attrs') ++ e2).
  split; [reflexivity|].
  pose proof (Step0_trans _ _ _ _ _ _ _ (Step0_trans _ _ _ _ _ _ _ S1 S2) S3) as S13.
  rewrite !app_nil_r in S13. cbn [app] in S13.
  split; [split; [exact S13|split; [exact Pid3|exact Pp3]]|]. split; [exact I3|]. split; [exact A3|].
  assert (T3 : tn_set c3) by (apply (same_tn _ _ Tn3); apply T2; exact T1).
  split; [exact T3|]. rewrite erase_elem. split; [|split; [|split; [exact Eld2|]]].
  - cbn [tag_list]. rewrite app_nil_r, tag_elem. fold (CstTree.eattrs (map erase_attr attrs')). rewrite eattrs_erase, map_length.
    rewrite (s_attrs _ _ _ _ S3), app_nil_r. constructor.
    + rewrite (s_attrs _ _ _ _ S2). apply km_ext. apply Hkm.
    + rewrite P1, Ln1 in F2. exact F2.
  - cbn [nattrs_items]. rewrite app_length, map_length, L2, nattrs_elem, map_length.
    unfold len_N in Tl. unfold den. clia.
  - (* where things are *)
    destruct X2 as (X2a & X2b & X2c).
    rewrite eitems_at_elem.
    replace (p + estart_tag_len name attrs ws) with q
      by (unfold q, estart_tag_len, nlen, blen; change (length (tag_tail false)) with 1%nat; clear; lia).
    unfold ExtraE. cbn [flat_map]. rewrite enode_elem. cbn [app]. split; [|split].
    + cbn [map snd]. constructor; [split; reflexivity|exact X2a].
    + cbn [eitem_aspans snd fst]. unfold nlen at 1. fold (blen name). apply Forall2_app; [apply eads_obs; exact Elen|exact X2b].
    + cbn [map fst]. rewrite espan_elem_open.
      assert (Er2 : rng c2 = rng c ++ (p, q) :: map fst (flat_map (enode_of vt) (eitems_list q cs))).
      { rewrite X2c, X1c, <- app_assoc. reflexivity. }
      rewrite (close_rng text _ _ _ _ _ _ _ _ E3' Er2).
      * cbn [fst snd].
        assert (Eq : e + 2 + blen name + blen ws2 + 1 =
                     p + 1 + blen name + blen (flat_map E.r_attr attrs) + blen ws + 1 +
                     blen (E.r_items cs) + 2 + blen name + blen ws2 + 1)
          by (unfold e, q; change (blen (tag_tail false)) with 1; clear; lia).
        rewrite Eq. reflexivity.
      * rewrite Pid2, P1. unfold rng, len_N. rewrite map_length. clear. lia.
Qed.



Lemma PIe_open_r name attrs ws cs ws2 : PLe_r cs -> PIe_r (E.IElem name attrs ws (Some (cs, ws2))).
Proof.
  intros HPL p post c depth fuel its tr ld' Hwf HW _ I Hc Hes Hat Hin Hld Hprov NR AR.
  destruct (ewf_elem_parts _ _ _ _ Hwf) as (Hn & Ha & Hx & Hd & Hw & Hw2 & Hna & Hcs). clear Hwf.
  rewrite inline_elem in Hin. destruct (E.inline_attrs tb false attrs) as [[attrs' tra]|] eqn:Eat; [|discriminate].
  cbn [E.obind fst snd] in Hin. destruct (E.inline_items tb false cs) as [[its2 tr2]|] eqn:Ecs; [|discriminate].
  cbn [E.obind fst snd] in Hin. injection Hin as <- <-.
  pose proof (inline_attrs_len _ _ _ _ _ Eat) as Elen.
  rewrite den_single in * by reflexivity. cbn [E.regroup forallb] in Hprov. rewrite prov_elem, andb_true_r in Hprov.
  apply andb_true_iff in Hprov. destruct Hprov as [Hpa Hpc].
  rewrite ld_run_app in Hld. destruct (ld_run ld_init tra) as [lda|] eqn:Ela; [|discriminate].
  rewrite er_item_elem in *. rewrite <- !app_assoc in HW |- *.
  change ([62] ++ E.r_items cs ++ [60; 47] ++ name ++ ws2 ++ [62] ++ post)
    with (tag_tail false ++ (E.r_items cs ++ [60; 47] ++ name ++ ws2 ++ [62] ++ post)) in *.
  rewrite erase_elem in NR, AR. unfold nsizes in NR. cbn [sem_items] in NR. rewrite app_nil_r in NR.
  fold (nsize (Cst.IElem name (map erase_attr attrs') ws (Some (map erase (E.regroup its2), ws2)))) in NR. rewrite nsize_elem in NR.
  cbn [nattrs_items] in AR. rewrite nattrs_elem, map_length, Nat.add_0_r in AR.
  rewrite esteps_elem. cbn [Nat.add]. rewrite (loop_elem' text) by assumption.
  rewrite <- raws_render in HW |- *.
  rewrite (lex_relement text Hascii) by (try assumption; apply raws_wf; exact Ha).
  cbv zeta. rewrite raws_render in HW |- *.
  destruct (start_tag_e text Hascii decls es Henv Hdecls Hadjs p name attrs attrs' tra k ws false _ c lda
              HW (wf_name_ne _ Hn) Ha Hx Hd Eat Hpa Ela I Hc Hes)
    as (c1 & ar & E & S1 & Hkm & I1 & A1 & T1 & Elda & P1 & P2 & P3);
    [unfold node_room, room in *; clia|unfold attr_room, len_N in *; clia|].
  subst lda.
  cbv zeta in E. pose proof E as E00. unfold CstBuild.tok_ev in E00. apply bind_ok in E. destruct E as (c0 & E0 & E1).
  rewrite E0. cbn [bind]. rewrite E1. cbn [bind negb]. clear E0 E1 c0.
  replace (esteps_list cs + 1 + fuel)%nat with (esteps_list cs + S fuel)%nat by clia.
  destruct (tas_e_facts text decls (ws ++ tag_tail false ++ E.r_items cs ++ [60; 47] ++ name ++ ws2 ++ [62] ++ post) k attrs attrs' tra (p + 1 + blen name))
    as (_ & _ & _ & Tl).
  { pose proof (W_app _ _ _ _ HW) as X. change (blen [60]) with 1 in X. apply (W_app _ _ _ _ X). }
  { exact Ha. } { exact Eat. }
  pose proof (start_tag_rng_e _ _ _ _ _ _ _ E00) as X1c.
  destruct (eopen_body_r name attrs attrs' ws cs ws2 p post c c1 ar its2 tr2 ld' tra HPL Hn Hw2 Hna Hcs HW I Hc Hes Ecs Hld Hpc Elen
              NR ltac:(rewrite <- Elen; exact AR) S1 Hkm I1 A1 T1 P1 P2 Tl X1c Eat (depth + 1) fuel)
    as (c3 & K & ext & E & S3 & I3 & A3 & T3 & F3 & L3 & Eld3 & X3).
  rewrite E. cbn [bind]. replace (depth + 1 =? 0) with false by clia.
  replace (depth + 1 - 1) with depth by clia.
  exists c3, K, ext. split.
  { f_equal. f_equal. rewrite !blen_app. change (blen [60]) with 1. change (blen [60; 47]) with 2.
    change (blen [62]) with 1. change (blen (tag_tail false)) with 1. clear. clia. }
  split; [exact S3|]. split; [exact I3|]. split; [exact A3|]. split; [intros _; exact T3|]. split; [intros _; exact T3|].
  split; [exact F3|]. split; [exact L3|]. split; [exact Eld3|exact X3].
Qed.


Theorem PIe_all_r : forall i, PIe_r i.
Proof.
  intros i. induction i as [n a w|n a w cs w2 IH|ps|bs|t s v] using eitem_ind.
  - apply PIe_empty_r.
  - apply PIe_open_r. apply PLe_of_r. exact IH.
  - apply PIe_text_r.
  - apply PIe_comment_r.
  - apply PIe_pi_r.
Qed.

Theorem PLe_all_r : forall cs, PLe_r cs.
Proof. intros cs. apply PLe_of_r. apply Forall_forall. intros i _. apply PIe_all_r. Qed.

Lemma root_ok_e_r name attrs ws body p post c its tr ld' :
  E.wf_item false (E.IElem name attrs ws body) = true ->
  W p (E.r_item (E.IElem name attrs ws body) ++ post) ->
  CI c -> c_ld c = ld_init -> c_entities c = es ->
  E.inline_item tb false (E.IElem name attrs ws body) = Some (its, tr) -> ld_run ld_init tr = Some ld' ->
  forallb E.provisos_item (E.regroup its) = true ->
  node_room c (nsizes (den its)) -> attr_room c (nattrs_items (den its)) ->
  exists c' K ext,
    (let! (open, s, c) := parse_element text context ev
                            (st p (E.r_item (E.IElem name attrs ws body) ++ post)) c in
     if open then parse_content text context ev s c else Ok (s, c)) =
    Ok (st (p + blen (E.r_item (E.IElem name attrs ws body))) post, c') /\
    Step c c' K ext /\ CI c' /\ c_after_text c' = [] /\
    Forall2 (km text (d_attrs (c_doc c'))) K (tag_list (c_parent_id c) (len_N (d_nodes (c_doc c))) (den its)) /\
    length ext = nattrs_items (den its) /\
    ExtraE (eitems_at p (E.IElem name attrs ws body)) c c' K ext.
Proof.
  intros Hwf HW I Hc Hes Hin Hld Hprov NR AR. destruct body as [[cs ws2]|].
  - (* open *)
    destruct (ewf_elem_parts _ _ _ _ Hwf) as (Hn & Ha & Hx & Hd & Hw & Hw2 & Hna & Hcs). clear Hwf.
    rewrite inline_elem in Hin. destruct (E.inline_attrs tb false attrs) as [[attrs' tra]|] eqn:Eat; [|discriminate].
    cbn [E.obind fst snd] in Hin. destruct (E.inline_items tb false cs) as [[its2 tr2]|] eqn:Ecs; [|discriminate].
    cbn [E.obind fst snd] in Hin. injection Hin as <- <-.
    pose proof (inline_attrs_len _ _ _ _ _ Eat) as Elen.
    rewrite den_single in * by reflexivity. cbn [E.regroup forallb] in Hprov. rewrite prov_elem, andb_true_r in Hprov.
    apply andb_true_iff in Hprov. destruct Hprov as [Hpa Hpc].
    rewrite ld_run_app in Hld. destruct (ld_run ld_init tra) as [lda|] eqn:Ela; [|discriminate].
    rewrite er_item_elem in *. rewrite <- !app_assoc in HW |- *.
    change ([62] ++ E.r_items cs ++ [60; 47] ++ name ++ ws2 ++ [62] ++ post)
      with (tag_tail false ++ (E.r_items cs ++ [60; 47] ++ name ++ ws2 ++ [62] ++ post)) in *.
    rewrite erase_elem in NR, AR. unfold nsizes in NR. cbn [sem_items] in NR. rewrite app_nil_r in NR.
    fold (nsize (Cst.IElem name (map erase_attr attrs') ws (Some (map erase (E.regroup its2), ws2)))) in NR. rewrite nsize_elem in NR.
    cbn [nattrs_items] in AR. rewrite nattrs_elem, map_length, Nat.add_0_r in AR.
    rewrite <- raws_render in HW |- *.
    rewrite (lex_relement text Hascii) by (try assumption; apply raws_wf; exact Ha).
    cbv zeta. rewrite raws_render in HW |- *.
    destruct (start_tag_e text Hascii decls es Henv Hdecls Hadjs p name attrs attrs' tra k ws false _ c lda
                HW (wf_name_ne _ Hn) Ha Hx Hd Eat Hpa Ela I Hc Hes)
      as (c1 & ar & E & S1 & Hkm & I1 & A1 & T1 & Elda & P1 & P2 & P3);
      [unfold node_room, room in *; clia|unfold attr_room, len_N in *; clia|].
    subst lda.
    cbv zeta in E. pose proof E as E00. unfold CstBuild.tok_ev in E00. apply bind_ok in E. destruct E as (c0 & E0 & E1).
    rewrite E0. cbn [bind]. rewrite E1. cbn [bind negb]. clear E0 E1 c0.
    unfold parse_content. cbn [CstLex.st s_rest].
    set (post2 := [60; 47] ++ name ++ ws2 ++ [62] ++ post) in *.
    pose proof (esteps_list_le cs Hcs) as Hst.
    replace (S (length (E.r_items cs ++ post2)))
      with (esteps_list cs + S (length (E.r_items cs ++ post2) - esteps_list cs))%nat
      by (rewrite app_length; clia).
    destruct (tas_e_facts text decls (ws ++ tag_tail false ++ E.r_items cs ++ post2) k attrs attrs' tra (p + 1 + blen name))
      as (_ & _ & _ & Tl).
    { pose proof (W_app _ _ _ _ HW) as X. change (blen [60]) with 1 in X. apply (W_app _ _ _ _ X). }
    { exact Ha. } { exact Eat. }
    pose proof (start_tag_rng_e _ _ _ _ _ _ _ E00) as X1c.
    destruct (eopen_body_r name attrs attrs' ws cs ws2 p post c c1 ar its2 tr2 ld' tra (PLe_all_r cs) Hn Hw2 Hna Hcs HW I Hc Hes Ecs Hld Hpc Elen
                NR ltac:(rewrite <- Elen; exact AR) S1 Hkm I1 A1 T1 P1 P2 Tl X1c Eat 0 (length (E.r_items cs ++ post2) - esteps_list cs)%nat)
      as (c3 & K & ext & E & S3 & I3 & A3 & T3 & F3 & L3 & Eld3 & X3).
    unfold post2 in E |- *. rewrite E. cbn [bind]. change (0 =? 0) with true. cbv iota.
    exists c3, K, ext. split; [|split; [exact S3|split; [exact I3|split; [exact A3|split; [exact F3|split; [exact L3|exact X3]]]]]].
    f_equal. f_equal. f_equal. rewrite !blen_app. change (blen [60]) with 1. change (blen [60; 47]) with 2.
    change (blen [62]) with 1. change (blen (tag_tail false)) with 1. clear. clia.
  - (* empty *)
    destruct (ewf_elem_parts _ _ _ _ Hwf) as (Hn & Ha & Hx & Hd & Hw & _). clear Hwf.
    rewrite inline_elem in Hin. destruct (E.inline_attrs tb false attrs) as [[attrs' tra]|] eqn:Eat; [|discriminate].
    cbn [E.obind fst snd] in Hin. injection Hin as <- <-.
    pose proof (inline_attrs_len _ _ _ _ _ Eat) as Elen.
    rewrite den_single in * by reflexivity. cbn [E.regroup forallb] in Hprov. rewrite prov_elem, !andb_true_r in Hprov.
    rewrite er_item_elem in *. rewrite <- !app_assoc in HW |- *.
    change ([47; 62] ++ post) with (tag_tail true ++ post) in *.
    rewrite <- raws_render in HW |- *.
    rewrite (lex_relement text Hascii) by (try assumption; apply raws_wf; exact Ha).
    cbv zeta. rewrite raws_render in HW |- *.
    rewrite erase_elem in NR, AR. cbn [nattrs_items] in AR. rewrite nattrs_elem, map_length, !Nat.add_0_r in AR.
    destruct (start_tag_e text Hascii decls es Henv Hdecls Hadjs p name attrs attrs' tra k ws true post c ld'
                HW (wf_name_ne _ Hn) Ha Hx Hd Eat Hprov Hld I Hc Hes)
      as (c' & ar & E & S & Hkm & I' & A & Tt & Eld & P1 & P2);
      [apply (node_room_room _ _ NR); unfold nsizes; cbn; lia|unfold attr_room, len_N in *; lia|].
    cbv zeta in E. pose proof E as E00. unfold CstBuild.tok_ev in E00. apply bind_ok in E. destruct E as (c1 & E1 & E2).
    rewrite E1. cbn [bind]. rewrite E2. cbn [bind negb].
    exists c', [(Some (c_parent_id c), KElement None (sl (p + 1) (p + 1 + blen name)) ar (1, 1))],
      (map ad_of (tas_e (p + 1 + blen name) attrs attrs')).
    split.
    + f_equal. f_equal. f_equal. rewrite !blen_app. change (blen [60]) with 1. change (blen (tag_tail true)) with 2.
      change (blen [47; 62]) with 2. lia.
    + rewrite erase_elem.
      split; [split; [exact S|split; assumption]|]. split; [exact I'|]. split; [exact A|]. split; [|split].
      * cbn [tag_list tag app]. fold (CstTree.eattrs (map erase_attr attrs')). rewrite eattrs_erase.
        constructor; [|constructor]. apply Hkm.
      * cbn [nattrs_items]. rewrite map_length, nattrs_elem, map_length, !Nat.add_0_r.
        destruct (tas_e_facts text decls (ws ++ tag_tail true ++ post) k attrs attrs' tra (p + 1 + blen name)) as (_ & _ & _ & Tl).
        { pose proof (W_app _ _ _ _ HW) as X. change (blen [60]) with 1 in X. apply (W_app _ _ _ _ X). }
        { exact Ha. } { exact Eat. }
        unfold len_N in Tl. lia.
      * rewrite eitems_at_elem. unfold ExtraE. cbn [flat_map app]. rewrite enode_elem, app_nil_r. split; [|split].
        -- cbn. constructor; [split; reflexivity|constructor].
        -- cbn [eitem_aspans snd fst]. rewrite app_nil_r. unfold nlen. fold (blen name). apply eads_obs. exact Elen.
        -- rewrite (start_tag_rng_e _ _ _ _ _ _ _ E00). cbn [map fst]. rewrite espan_elem_empty. reflexivity.
Qed.



End EItemsR.

Print Assumptions PIe_all_r.
Print Assumptions root_ok_e_r.
