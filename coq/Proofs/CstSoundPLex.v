(* Proofs/CstSoundPLex.v -- C08 soundness WITH A PROLOG AND ENTITIES (stage S5 of Spec/CstFullS5.v), lexical
   half.  Part 1: CstSoundNLex.v over the fragment of CstSoundP.v ("<?xml", "<!D" and the BOM are
   allowed now; a PI named exactly "xml" is excluded by P4 instead of "no <?xml anywhere").  Part 2:
   the prolog: XML declaration, DOCTYPE, internal subset. *)
From Coq Require Import String.
From Coq Require Import List Arith NArith Bool Lia ZifyBool ZifyN ZifyNat.
Import ListNotations.
From RX Require Import Generated.
From RX.Model Require Import Base CharClass Stream Tokenizer.
From RX.Spec Require Cst Chars CstU CstNs CstEnt.
From RX.Spec Require Import CstFull CstFullS5.
From RX.Proofs Require Import Tactics CstLex CstULex PubidChar.
From RX.Proofs Require RejectProofs CharTablesProofs WfParseTok WfParseChars CstFullLex CstFullS5Decl.
From RX.Proofs Require Import CstSound CstSoundLex CstSoundU CstSoundULex CstSoundT CstSoundTLex CstSoundN CstSoundNLex CstSoundNText CstSoundP CstSoundPEnt.
Open Scope N_scope.

(* ------------------------------------------------------------------------------------------ *)
(* the fragment as facts                                                                        *)
Record FragP (text : bytes) : Prop := {
  fp_valid : U8.Valid text;
  fp_cr : Forall (fun x => x <> 13) text;
  fp_refs : charrefs_scalar text = true;
  fp_c60 : contains_b [60; 58] text = false;
  fp_c47 : contains_b [47; 58] text = false;
  fp_c32 : contains_b [32; 58] text = false;
  fp_c9 : contains_b [9; 58] text = false;
  fp_c10 : contains_b [10; 58] text = false;
  fp_pi : pi_targets_nc text = true;
  fp_xml : xml_pi_ok text = true;
  fp_dnames : decl_names_ok text = true;
  fp_nnc : names_nc text = true;
  fp_ndata : ndata_sp text = true;
  fp_ge : ge_values_ok text = true
}.

Lemma in_fragment_p_FragP text : in_fragment_p text = true -> FragP text.
Proof.
  unfold in_fragment_p, no_colon_start. intros H. repeat (apply andb_true_iff in H; destruct H as [H ?]).
  repeat match goal with X : _ && _ = true |- _ => apply andb_true_iff in X; destruct X end.
  repeat match goal with X : negb _ = true |- _ => apply negb_true_iff in X end.
  constructor; try assumption; try (apply mem_b_Forall; assumption).
  apply U8.valid_iff_Valid. assumption.
Qed.

Section PLexS.
Variable text : bytes.
Hypothesis HF : FragP text.
Notation st := (CstLex.st text).
Notation W := (CstLex.W text).
Notation WV := (CstULex.WV text).

Lemma W_cr p l : W p l -> Forall (fun x => x <> 13) l.
Proof. intros [H _]. rewrite <- H. apply Forall_skipn. exact (fp_cr _ HF). Qed.

Lemma W_cr_l p x l : W p (x ++ l) -> Forall (fun y => y <> 13) x.
Proof. intros H. apply W_cr in H. apply Forall_app in H. tauto. Qed.

(* ---- no colon after '<', '/', SP, TAB, LF ---- *)
Lemma nc_after p x l : W p (x :: l) -> x = 60 \/ x = 47 \/ x = 32 \/ x = 9 \/ x = 10 -> nc l.
Proof.
  intros HW Hx. destruct l as [|y l]; [exact I|]. destruct (N.eq_dec y 58) as [->|Hy].
  2:{ cbn. destruct y as [|pp]; [exact I|]. do 6 (destruct pp as [pp|pp|]; try exact I). congruence. }
  exfalso.
  assert (Hp : forall n, contains_b n text = false -> n <> [] -> prefix_b n (x :: 58 :: l) = false)
    by (intros n Hc Hn; apply (W_noprefix text p _ n HW Hc Hn)).
  destruct Hx as [-> | [-> | [-> | [-> | ->]]]].
  - specialize (Hp [60; 58] (fp_c60 _ HF) ltac:(discriminate)). discriminate.
  - specialize (Hp [47; 58] (fp_c47 _ HF) ltac:(discriminate)). discriminate.
  - specialize (Hp [32; 58] (fp_c32 _ HF) ltac:(discriminate)). discriminate.
  - specialize (Hp [9; 58] (fp_c9 _ HF) ltac:(discriminate)). discriminate.
  - specialize (Hp [10; 58] (fp_c10 _ HF) ltac:(discriminate)). discriminate.
Qed.

Lemma nc_after_ws p w l : W p (w ++ l) -> w <> [] -> Cst.wf_ws w = true -> nc l.
Proof.
  intros HW Hne Hw. destruct (exists_last Hne) as (w0 & y & ->).
  rewrite <- app_assoc in HW. cbn [app] in HW. apply (W_app text) in HW.
  apply (nc_after _ y _ HW). unfold Cst.wf_ws in Hw. rewrite forallb_app in Hw. apply andb_true_iff in Hw.
  destruct Hw as [_ Hy]. cbn [forallb] in Hy. unfold Cst.is_ws in Hy. lia.
Qed.

(* ---- white space ---- *)
Lemma skip_spaces_inv_p p l : WV p l ->
  exists w l', l = w ++ l' /\ Cst.wf_ws w = true /\ stops byte_is_space l' /\
               skip_spaces (st p l) = st (p + blen w) l' /\ WV (p + blen w) l'.
Proof.
  intros HW. destruct (skip_bytes_inv text byte_is_space p l (WV_W _ _ _ HW)) as (w & l' & -> & Hw & Hl & E).
  exists w, l'. split; [reflexivity|]. split.
  { apply spaces_ws_u; [|exact Hw]. apply (W_cr_l _ _ _ (WV_W _ _ _ HW)). }
  split; [exact Hl|]. split; [exact E|]. apply (WV_lit text _ _ _ HW). apply spaces_lit. exact Hw.
Qed.

Lemma consume_spaces_inv_p p l s' : WV p l -> consume_spaces text (st p l) = Ok s' ->
  exists w l', l = w ++ l' /\ w <> [] /\ Cst.wf_ws w = true /\ stops byte_is_space l' /\
               s' = st (p + blen w) l' /\ WV (p + blen w) l'.
Proof.
  intros HW H. pose proof (WV_W _ _ _ HW) as HW0. unfold consume_spaces in H.
  rewrite (at_end_st text) in H by exact HW0.
  destruct l as [|x l0]; [noerr|]. rewrite starts_with_space_st in H by exact HW0.
  destruct (byte_is_space x) eqn:Ex; cbn [negb] in H.
  2:{ ib H y Hy. noerr. }
  inversion H; subst. clear H.
  destruct (skip_spaces_inv_p p (x :: l0) HW) as (w & l' & E & Hw & Hst & E1 & HW1).
  exists w, l'. split; [exact E|]. split.
  { intros ->. cbn [app] in E. subst l'. cbn [stops] in Hst. congruence. }
  split; [exact Hw|]. split; [exact Hst|]. split; [exact E1|exact HW1].
Qed.

Lemma consume_eq_inv_p p l s' : WV p l -> consume_eq text (st p l) = Ok s' ->
  exists w1 w2 l', l = w1 ++ [61] ++ w2 ++ l' /\ Cst.wf_ws w1 = true /\ Cst.wf_ws w2 = true /\
    s' = st (p + blen w1 + 1 + blen w2) l' /\ WV (p + blen w1 + 1 + blen w2) l'.
Proof.
  intros HW H. unfold consume_eq in H.
  destruct (skip_spaces_inv_p p l HW) as (w1 & l1 & -> & Hw1 & _ & E1 & HW1). rewrite E1 in H.
  ib H s1 H1. destruct (consume_byte_inv text _ _ _ _ (WV_W _ _ _ HW1) H1) as (l2 & -> & -> & _).
  assert (HW2 : WV (p + blen w1 + 1) l2) by (apply (WV_cons text _ _ _ HW1); lia).
  destruct (skip_spaces_inv_p _ l2 HW2) as (w2 & l3 & -> & Hw2 & _ & E2 & HW3). rewrite E2 in H.
  inversion H; subst. exists w1, w2, l3.
  split; [reflexivity|]. split; [exact Hw1|]. split; [exact Hw2|]. split; [reflexivity|exact HW3].
Qed.

(* ---- qualified names ---- *)
(* after the colon: NCName characters only *)
Lemma qloop_some start sp : forall fuel p r spl' s', WV p r ->
  consume_qname_loop text fuel start (Some sp) (st p r) = Ok (spl', s') ->
  exists x l', r = utf8s x ++ l' /\ spl' = Some sp /\ s' = st (p + blen (utf8s x)) l' /\
               forallb CstU.is_name_char x = true.
Proof.
  induction fuel as [|fu IH]; intros p r spl' s' HW H; cbn [consume_qname_loop] in H; [noerr|].
  rewrite (at_end_st text) in H by apply HW.
  destruct (Valid_inv r (proj2 HW)) as [->|(c & r' & -> & Hc & Hv)].
  { inversion H; subst. exists [], []. cbn [CstU.utf8s flat_map app]. rewrite blen_nil, N.add_0_r. repeat split. }
  destruct (utf8_nonempty c r') as (b0 & t & Eb). rewrite Eb in H.
  cbn [curr_byte_unchecked CstLex.st s_rest bind] in H. rewrite <- Eb in H.
  assert (HW' : WV (p + blen (utf8 c)) r').
  { apply (WV_app text _ _ _ HW). rewrite utf8_enc. apply U8.Valid_encode. exact Hc. }
  assert (STOP : exists x l', utf8 c ++ r' = utf8s x ++ l' /\ Some sp = Some sp /\
                   st p (utf8 c ++ r') = st (p + blen (utf8s x)) l' /\ forallb CstU.is_name_char x = true).
  { exists [], (utf8 c ++ r'). cbn [CstU.utf8s flat_map app]. rewrite blen_nil, N.add_0_r. repeat split. }
  destruct (N.lt_ge_cases c 128) as [L|L].
  - rewrite (utf8_ascii c L) in *. cbn [app] in Eb. injection Eb as <- <-.
    replace (c <? 128) with true in H by lia.
    destruct (c =? 58) eqn:E58; [noerr|]. assert (H58 : c <> 58) by lia.
    destruct (byte_is_name c) eqn:Ebn; [|inversion H; subst; exact STOP].
    cbn [app] in H. fold (st p (c :: r')) in H. rewrite (advance1_st text) in H by apply HW. cbn [bind] in H.
    change (blen [c]) with 1 in HW'.
    destruct (IH _ _ _ _ HW' H) as (x & l' & -> & -> & -> & Hx).
    exists (c :: x), l'. rewrite utf8s_cons, (utf8_ascii c L), blen_app. change (blen [c]) with 1. rewrite N.add_assoc.
    split; [reflexivity|]. split; [reflexivity|]. split; [reflexivity|].
    cbn [forallb]. rewrite (uname_char_intro_b c L Ebn H58), Hx. reflexivity.
  - destruct (utf8_high c L) as (_ & b1 & t1 & E1 & Hb1). rewrite E1 in Eb. cbn [app] in Eb. injection Eb as <- _.
    replace (b1 <? 128) with false in H by lia.
    rewrite (next_char_v text) in H by assumption. cbn [bind] in H.
    destruct (char_is_name c) eqn:Ecn; [|inversion H; subst; exact STOP].
    rewrite (advance_v text) in H by exact HW. cbn [bind] in H.
    destruct (IH _ _ _ _ HW' H) as (x & l' & -> & -> & -> & Hx).
    exists (c :: x), l'. rewrite utf8s_cons, blen_app, <- app_assoc, N.add_assoc.
    split; [reflexivity|]. split; [reflexivity|]. split; [reflexivity|].
    cbn [forallb]. rewrite (uname_char_intro c Hc Ecn ltac:(lia)), Hx. reflexivity.
Qed.

Lemma qloop_none start : forall fuel p r spl' s', WV p r ->
  consume_qname_loop text fuel start None (st p r) = Ok (spl', s') ->
  exists x, forallb CstU.is_name_char x = true /\
    ((exists l', r = utf8s x ++ l' /\ spl' = None /\ s' = st (p + blen (utf8s x)) l') \/
     (exists y l', r = utf8s x ++ [58] ++ utf8s y ++ l' /\ spl' = Some (p + blen (utf8s x)) /\
                   forallb CstU.is_name_char y = true /\
                   s' = st (p + blen (utf8s x) + 1 + blen (utf8s y)) l')).
Proof.
  induction fuel as [|fu IH]; intros p r spl' s' HW H; cbn [consume_qname_loop] in H; [noerr|].
  rewrite (at_end_st text) in H by apply HW.
  destruct (Valid_inv r (proj2 HW)) as [->|(c & r' & -> & Hc & Hv)].
  { inversion H; subst. exists []. split; [reflexivity|]. left. exists [].
    cbn [CstU.utf8s flat_map app]. rewrite blen_nil, N.add_0_r. repeat split. }
  destruct (utf8_nonempty c r') as (b0 & t & Eb). rewrite Eb in H.
  cbn [curr_byte_unchecked CstLex.st s_rest bind] in H. rewrite <- Eb in H.
  assert (HW' : WV (p + blen (utf8 c)) r').
  { apply (WV_app text _ _ _ HW). rewrite utf8_enc. apply U8.Valid_encode. exact Hc. }
  assert (STOP : forall s0, s0 = st p (utf8 c ++ r') ->
     exists x, forallb CstU.is_name_char x = true /\
       ((exists l', utf8 c ++ r' = utf8s x ++ l' /\ @None N = None /\ s0 = st (p + blen (utf8s x)) l') \/
        (exists y l', utf8 c ++ r' = utf8s x ++ [58] ++ utf8s y ++ l' /\ @None N = Some (p + blen (utf8s x)) /\
                   forallb CstU.is_name_char y = true /\
                   s0 = st (p + blen (utf8s x) + 1 + blen (utf8s y)) l'))).
  { intros s0 ->. exists []. split; [reflexivity|]. left. exists (utf8 c ++ r').
    cbn [CstU.utf8s flat_map app]. rewrite blen_nil, N.add_0_r. repeat split. }
  assert (CONS : forall spl0 s0,
     (exists x, forallb CstU.is_name_char x = true /\
       ((exists l', r' = utf8s x ++ l' /\ spl0 = None /\ s0 = st (p + blen (utf8 c) + blen (utf8s x)) l') \/
        (exists y l', r' = utf8s x ++ [58] ++ utf8s y ++ l' /\ spl0 = Some (p + blen (utf8 c) + blen (utf8s x)) /\
                   forallb CstU.is_name_char y = true /\
                   s0 = st (p + blen (utf8 c) + blen (utf8s x) + 1 + blen (utf8s y)) l'))) ->
     CstU.is_name_char c = true ->
     exists x, forallb CstU.is_name_char x = true /\
       ((exists l', utf8 c ++ r' = utf8s x ++ l' /\ spl0 = None /\ s0 = st (p + blen (utf8s x)) l') \/
        (exists y l', utf8 c ++ r' = utf8s x ++ [58] ++ utf8s y ++ l' /\ spl0 = Some (p + blen (utf8s x)) /\
                   forallb CstU.is_name_char y = true /\
                   s0 = st (p + blen (utf8s x) + 1 + blen (utf8s y)) l'))).
  { intros spl0 s0 (x & Hx & D) Hcn. exists (c :: x). split; [cbn [forallb]; rewrite Hcn, Hx; reflexivity|].
    destruct D as [(l' & -> & -> & ->)|(y & l' & -> & -> & Hy & ->)]; [left; exists l'|right; exists y, l'];
      rewrite utf8s_cons, blen_app, <- app_assoc, N.add_assoc; repeat split. exact Hy. }
  destruct (N.lt_ge_cases c 128) as [L|L].
  - rewrite (utf8_ascii c L) in *. cbn [app] in Eb. injection Eb as <- <-.
    replace (c <? 128) with true in H by lia. change (blen [c]) with 1 in *.
    destruct (c =? 58) eqn:E58.
    + assert (c = 58) by lia. subst c.
      cbn [app] in H. fold (st p (58 :: r')) in H. rewrite (advance1_st text) in H by apply HW. cbn [bind] in H.
      cbn [CstLex.st s_pos] in H.
      destruct (qloop_some _ _ _ _ _ _ _ HW' H) as (y & l' & -> & -> & -> & Hy).
      exists []. split; [reflexivity|]. right. exists y, l'.
      cbn [CstU.utf8s flat_map app]. rewrite blen_nil, N.add_0_r. repeat split. exact Hy.
    + assert (H58 : c <> 58) by lia.
      destruct (byte_is_name c) eqn:Ebn; [|inversion H; subst; apply STOP; reflexivity].
      cbn [app] in H. fold (st p (c :: r')) in H. rewrite (advance1_st text) in H by apply HW. cbn [bind] in H.
      apply CONS; [|apply (uname_char_intro_b c L Ebn H58)].
      exact (IH _ _ _ _ HW' H).
  - destruct (utf8_high c L) as (_ & b1 & t1 & E1 & Hb1). rewrite E1 in Eb. cbn [app] in Eb. injection Eb as <- _.
    replace (b1 <? 128) with false in H by lia.
    rewrite (next_char_v text) in H by assumption. cbn [bind] in H.
    destruct (char_is_name c) eqn:Ecn; [|inversion H; subst; apply STOP; reflexivity].
    rewrite (advance_v text) in H by exact HW. cbn [bind] in H.
    apply CONS; [|apply (uname_char_intro c Hc Ecn); lia].
    exact (IH _ _ _ _ HW' H).
Qed.

Lemma consume_qname_inv_p p r pfx loc s' : WV p r -> nc r -> consume_qname text (st p r) = Ok (pfx, loc, s') ->
  exists pre locn l', r = rq pre locn ++ l' /\ qn_ok pre locn /\
    pfx = sl p (p + blen (utf8s pre)) /\ loc = sl (p + qoff pre) (p + qoff pre + blen (utf8s locn)) /\
    s' = st (p + blen (rq pre locn)) l' /\ WV (p + blen (rq pre locn)) l'.
Proof.
  intros HW Hnc H. unfold consume_qname in H. cbn [CstLex.st s_pos] in H.
  ib H q Hq. destruct q as [spl s1].
  destruct (qloop_none _ _ _ _ _ _ HW Hq) as (x & Hx & [(l' & -> & -> & ->)|(y & l' & -> & -> & Hy & ->)]).
  - (* no colon *)
    ib H pl Hpl. destruct pl as [p0 l0]. ib Hpl l1 Hl1. ib Hpl p1 Hp1. inversion Hpl; subst p0 l0. clear Hpl.
    unfold slice_back in Hl1. apply mk_slice_sl in Hl1. apply mk_slice_sl in Hp1. subst l1 p1.
    cbn [CstLex.st s_pos] in H.
    destruct (negb (slice_len (sl p p) =? 0) && negb (str_is_name_start (slice_bytes text (sl p p)))); [noerr|].
    destruct (str_is_name_start (slice_bytes text (sl p (p + blen (utf8s x))))) eqn:Es; cbn [negb] in H; [|noerr].
    inversion H; subst. clear H.
    rewrite (W_slice text p (utf8s x) l' (WV_W _ _ _ HW)) in Es.
    exists [], x, l'. unfold rq, qoff, qn_ok. cbn [CstU.utf8s flat_map]. rewrite blen_nil, !N.add_0_r.
    split; [reflexivity|]. split; [split; [left; reflexivity|apply wf_name_intro; assumption]|].
    split; [reflexivity|]. split; [reflexivity|]. split; [reflexivity|].
    apply (WV_app text _ _ _ HW). apply Valid_utf8s. apply uname_scalars. exact Hx.
  - (* prefix : local *)
    ib H pl Hpl. destruct pl as [p0 l0]. ib Hpl p1 Hp1. ib Hpl l1 Hl1. inversion Hpl; subst p0 l0. clear Hpl.
    unfold slice_back in Hl1. apply mk_slice_sl in Hl1. apply mk_slice_sl in Hp1. subst l1 p1.
    cbn [CstLex.st s_pos] in H.
    assert (Hxne : x <> []).
    { intros ->. cbn [CstU.utf8s flat_map app] in Hnc. exact Hnc. }
    pose proof (uname_scalars _ Hx) as Hxs. pose proof (uname_scalars _ Hy) as Hys.
    assert (HWc : WV (p + blen (utf8s x)) ([58] ++ utf8s y ++ l')).
    { apply (WV_app text _ _ _ HW). apply Valid_utf8s. exact Hxs. }
    assert (HWy : WV (p + blen (utf8s x) + 1) (utf8s y ++ l')).
    { apply (WV_cons text _ 58 _ HWc). lia. }
    rewrite (W_slice text p (utf8s x) _ (WV_W _ _ _ HW)) in H.
    rewrite (W_slice text _ (utf8s y) l' (WV_W _ _ _ HWy)) in H.
    destruct (str_is_name_start (utf8s x)) eqn:Esx.
    2:{ assert (El : (slice_len (sl p (p + blen (utf8s x))) =? 0) = false).
        { unfold slice_len. cbn [sl sl_start sl_end]. destruct x as [|c0 x0]; [congruence|].
          rewrite utf8s_cons, blen_app. pose proof (utf8_len c0). lia. }
        rewrite El in H. cbn [negb andb] in H. noerr. }
    rewrite andb_false_r in H.
    destruct (str_is_name_start (utf8s y)) eqn:Esy; cbn [negb] in H; [|noerr].
    inversion H; subst. clear H.
    exists x, y, l'. unfold rq, qoff, qn_ok. destruct x as [|c0 x0]; [congruence|].
    split; [rewrite <- !app_assoc; reflexivity|].
    split; [split; [right; apply wf_name_intro; assumption|apply wf_name_intro; assumption]|].
    split; [reflexivity|]. split; [rewrite N.add_assoc; reflexivity|].
    rewrite !blen_app. change (blen [58]) with 1.
    replace (p + (blen (utf8s (c0 :: x0)) + (1 + blen (utf8s y)))) with (p + blen (utf8s (c0 :: x0)) + 1 + blen (utf8s y)) by lia.
    split; [reflexivity|]. apply (WV_app text _ _ _ HWy). apply Valid_utf8s. exact Hys.
Qed.

(* ---- names (PI targets): no colon, by N5 ---- *)
Lemma name_run_char c r : is_scalar c = true -> char_is_name c = true -> name_run (utf8 c ++ r) = utf8 c ++ name_run r.
Proof.
  intros Hs Hc. destruct (N.lt_ge_cases c 128) as [L|L].
  - rewrite (utf8_ascii c L). cbn [app name_run]. unfold name_byte.
    destruct (CharTablesProofs.byte_char_agree c L) as (_ & _ & E). rewrite E, Hc, orb_true_r. reflexivity.
  - destruct (utf8_high c L) as (Hh & _). induction (utf8 c) as [|y u IH]; [reflexivity|].
    inversion Hh as [|? ? Hy Hu]; subst. cbn [app name_run]. unfold name_byte at 1.
    replace (128 <=? y) with true by lia. cbn [orb]. rewrite IH by exact Hu. reflexivity.
Qed.

Lemma mem_b_app_false x a r : mem_b x (a ++ r) = false -> mem_b x a = false /\ mem_b x r = false.
Proof.
  induction a as [|y a IH]; cbn [app mem_b]; [auto|]. intros H. apply orb_false_iff in H. destruct H as [H1 H2].
  destruct (IH H2) as [A B]. rewrite H1, A. auto.
Qed.

Lemma mem_utf8_self c : c < 128 -> mem_b c (utf8 c) = true.
Proof. intros L. rewrite (utf8_ascii c L). cbn [mem_b]. rewrite N.eqb_refl. reflexivity. Qed.

Lemma skip_name_loop_inv_p : forall fuel p r s', WV p r -> mem_b 58 (name_run r) = false ->
  skip_name_loop fuel (st p r) = Ok s' ->
  exists x l', r = utf8s x ++ l' /\ s' = st (p + blen (utf8s x)) l' /\ forallb CstU.is_name_char x = true.
Proof.
  induction fuel as [|fu IH]; intros p r s' HW Hr H; cbn [skip_name_loop] in H; [noerr|].
  destruct (Valid_inv r (proj2 HW)) as [->|(c & r' & -> & Hc & Hv)].
  { rewrite (next_char_end text) in H by apply HW. cbn [bind] in H. inversion H; subst.
    exists [], []. cbn [CstU.utf8s flat_map app]. rewrite blen_nil, N.add_0_r. repeat split. }
  rewrite (next_char_v text) in H by assumption. cbn [bind] in H.
  destruct (char_is_name c) eqn:Ecn.
  - rewrite (advance_v text) in H by exact HW. cbn [bind] in H.
    assert (HW' : WV (p + blen (utf8 c)) r').
    { apply (WV_app text _ _ _ HW). rewrite utf8_enc. apply U8.Valid_encode. exact Hc. }
    rewrite (name_run_char c r' Hc Ecn) in Hr. destruct (mem_b_app_false _ _ _ Hr) as [Hr1 Hr2].
    destruct (IH _ _ _ HW' Hr2 H) as (x & l' & -> & -> & Hx).
    exists (c :: x), l'. rewrite utf8s_cons, blen_app, <- app_assoc, N.add_assoc.
    split; [reflexivity|]. split; [reflexivity|].
    assert (H58 : c <> 58) by (intros ->; rewrite mem_utf8_self in Hr1 by lia; discriminate).
    cbn [forallb]. rewrite (uname_char_intro c Hc Ecn H58), Hx. reflexivity.
  - inversion H; subst. exists [], (utf8 c ++ r'). cbn [CstU.utf8s flat_map app]. rewrite blen_nil, N.add_0_r. repeat split.
Qed.

Lemma start_is_name c : is_scalar c = true -> char_is_name_start c = true -> char_is_name c = true.
Proof.
  intros Hs Hc. destruct (CharTablesProofs.char_tables_conform c Hs) as (_ & E1 & E2).
  rewrite E2. apply name_start_name. rewrite <- E1. exact Hc.
Qed.

Lemma consume_name_inv_p p r s0 s' : WV p r -> mem_b 58 (name_run r) = false ->
  consume_name text (st p r) = Ok (s0, s') ->
  exists name l', r = utf8s name ++ l' /\ CstU.wf_name name = true /\
                  s0 = sl p (p + blen (utf8s name)) /\ s' = st (p + blen (utf8s name)) l' /\
                  WV (p + blen (utf8s name)) l'.
Proof.
  intros HW Hr H. unfold consume_name in H. cbn [CstLex.st s_pos] in H. ib H s1 H1. ib H s2 H2.
  unfold slice_back in H2. apply mk_slice_sl in H2. subst s2.
  destruct (slice_len (sl p (s_pos s1)) =? 0) eqn:El; [noerr|]. inversion H; subst. clear H.
  unfold skip_name in H1.
  destruct (Valid_inv r (proj2 HW)) as [->|(c & r' & -> & Hc & Hv)].
  { rewrite (next_char_end text) in H1 by apply HW. cbn [bind] in H1. inversion H1; subst.
    unfold slice_len in El. cbn in El. lia. }
  rewrite (next_char_v text) in H1 by assumption. cbn [bind] in H1.
  destruct (char_is_name_start c) eqn:Ecs; [|noerr].
  rewrite (advance_v text) in H1 by exact HW. cbn [bind] in H1.
  assert (HW' : WV (p + blen (utf8 c)) r').
  { apply (WV_app text _ _ _ HW). rewrite utf8_enc. apply U8.Valid_encode. exact Hc. }
  rewrite (name_run_char c r' Hc (start_is_name c Hc Ecs)) in Hr. destruct (mem_b_app_false _ _ _ Hr) as [Hr1 Hr2].
  destruct (skip_name_loop_inv_p _ _ _ _ HW' Hr2 H1) as (x & l' & -> & -> & Hx).
  assert (H58 : c <> 58) by (intros ->; rewrite mem_utf8_self in Hr1 by lia; discriminate).
  assert (Hwf : CstU.wf_name (c :: x) = true).
  { cbn [CstU.wf_name]. rewrite (uname_start_intro c Hc Ecs H58), Hx. reflexivity. }
  exists (c :: x), l'. cbn [CstLex.st s_pos]. rewrite utf8s_cons, blen_app, <- app_assoc, N.add_assoc.
  split; [reflexivity|]. split; [exact Hwf|]. split; [reflexivity|]. split; [reflexivity|].
  rewrite <- N.add_assoc, <- blen_app. rewrite app_assoc in HW. apply (WV_app text _ _ _ HW).
  change (utf8 c ++ utf8s x) with (utf8s (c :: x)). apply Valid_utf8s. constructor; [exact Hc|apply uname_scalars; exact Hx].
Qed.

(* ------------------------------------------------------------------------------------------ *)
(* the productions, generic in the callback                                                     *)

Variable C : Type.
Variable ev : token -> C -> res C.
Notation evs := (CstLex.evs C ev).

(* ---- comments ---- *)
Lemma inv_comment_p p l1 c s' c' : WV p ([60; 33; 45; 45] ++ l1) ->
  parse_comment text C ev (st p ([60; 33; 45; 45] ++ l1)) c = Ok (s', c') ->
  exists bs l', l1 = utf8s bs ++ [45; 45; 62] ++ l' /\ CstU.wf_item (Cst.IComment bs) = true /\
    s' = st (p + 4 + blen (utf8s bs) + 3) l' /\ WV (p + 4 + blen (utf8s bs) + 3) l' /\
    ev (TComment (sl (p + 4) (p + 4 + blen (utf8s bs))) (p, p + 4 + blen (utf8s bs) + 3)) c = Ok c'.
Proof.
  intros HW H. pose proof (WV_W _ _ _ HW) as HW0. unfold parse_comment in H. cbv zeta in H. cbn [CstLex.st s_pos] in H.
  fold (CstLex.st text p ([60; 33; 45; 45] ++ l1)) in H.
  rewrite (advance_st text 4 p [60; 33; 45; 45]) in H by (try reflexivity; exact HW0). cbn [bind] in H.
  pose proof (WV_lit text _ _ _ HW eq_refl) as HW1. change (blen [60; 33; 45; 45]) with 4 in HW1.
  ib H q Hq. destruct q as [txt s2].
  destruct (consume_chars_inv_u _ _ _ _ _ _ HW1 Hq) as (bs & l2 & -> & -> & -> & HW2 & Hwalk & Hstop).
  ib H s3 H3. change (b "-->") with [45; 45; 62] in H3.
  destruct (skip_string_inv text _ _ _ _ (WV_W _ _ _ HW2) H3) as (l' & -> & -> & _).
  pose proof (WV_lit text _ _ _ HW2 eq_refl) as HW3. change (blen [45; 45; 62]) with 3 in *.
  rewrite (W_slice text (p + 4) (utf8s bs) _ (WV_W _ _ _ HW1)) in H. change (b "--") with [45; 45] in H.
  destruct (contains_b [45; 45] (utf8s bs)) eqn:E1; [noerr|].
  destruct (ends_with_byte 45 (utf8s bs)) eqn:E2; [noerr|].
  ib H c1 Hc. inversion H; subst. cbn [CstLex.st s_pos] in Hc.
  exists bs, l'. split; [reflexivity|]. split.
  { cbn [CstU.wf_item]. rewrite contains_utf8 in E1 by (try discriminate; reflexivity).
    rewrite ends_utf8 in E2 by lia. rewrite contains_eq, E1. cbn [negb].
    rewrite (walk_chars _ _ _ _ _ Hwalk (W_cr_l _ _ _ (WV_W _ _ _ HW1))). cbn [andb].
    unfold ends_with_byte in E2. destruct (rev bs); [reflexivity|]. rewrite E2. reflexivity. }
  split; [reflexivity|]. split; [exact HW3|exact Hc].
Qed.

(* ---- character data (raw): Chars, no '<', no "]]>" ---- *)
Lemma walk_uchars f : forall cs p l, walk_u text f p cs l -> uchars cs.
Proof.
  induction cs as [|c cs IH]; intros p l H; [constructor|]. destruct H as (H1 & H2 & _ & H4).
  constructor; [auto|eapply IH; eauto].
Qed.

Lemma inv_text_p p x l0 c s' c' : WV p (x :: l0) -> x <> 60 ->
  parse_text text C ev (st p (x :: l0)) c = Ok (s', c') ->
  exists cs l', x :: l0 = utf8s cs ++ l' /\ raw_text_ok_n cs /\ text_stop l' /\
    s' = st (p + blen (utf8s cs)) l' /\ WV (p + blen (utf8s cs)) l' /\
    ev (TText (sl p (p + blen (utf8s cs))) (p, p + blen (utf8s cs))) c = Ok c'.
Proof.
  intros HW Hx H. unfold parse_text in H. cbv zeta in H. cbn [CstLex.st s_pos] in H.
  fold (CstLex.st text p (x :: l0)) in H.
  ib H q Hq. destruct q as [txt s1].
  destruct (consume_chars_inv_u _ _ _ _ _ _ HW Hq) as (bs & l' & E & -> & -> & HW1 & Hwalk & Hstop).
  rewrite E in HW. rewrite (W_slice text p (utf8s bs) _ (WV_W _ _ _ HW)) in H. change (b "]]>") with [93; 93; 62] in H.
  destruct (contains_b [93; 93; 62] (utf8s bs)) eqn:Ec.
  { rewrite (RejectProofs.contains_cdata_end_mem _ Ec) in H. cbn [andb] in H. noerr. }
  rewrite andb_false_r in H. ib H c1 Hc. inversion H; subst. cbn [CstLex.st s_pos] in Hc.
  assert (Hstop' : text_stop l').
  { destruct Hstop as [->|(c0 & l2 & -> & _ & _ & Hf)]; [exact I|]. unfold text_f in Hf.
    assert (c0 = 60) by lia. subst c0. reflexivity. }
  assert (Hne : bs <> []).
  { intros ->. cbn [CstU.utf8s flat_map app] in E. subst l'. cbn [text_stop] in Hstop'. lia. }
  exists bs, l'. split; [exact E|]. split.
  { split; [exact Hne|]. split; [eapply walk_uchars; exact Hwalk|]. split; [eapply text_walk_inv_u; exact Hwalk|].
    rewrite contains_utf8 in Ec by (try discriminate; reflexivity). exact Ec. }
  split; [exact Hstop'|]. split; [reflexivity|]. split; [exact HW1|exact Hc].
Qed.

(* ---- CDATA sections ---- *)
Lemma cdata_walk_inv_p : forall v p post, W p (utf8s v ++ [93; 93; 62] ++ post) ->
  walk_u text cdata_fm p v ([93; 93; 62] ++ post) -> contains_b [93; 93; 62] v = false.
Proof.
  induction v as [|x v IH]; intros p post HW H; [reflexivity|].
  destruct H as (Hs & _ & Hf & Hr). cbn [contains_b].
  assert (HW' : W (p + blen (utf8 x)) (utf8s v ++ [93; 93; 62] ++ post)).
  { rewrite utf8s_cons, <- app_assoc in HW. apply (W_app text _ _ _ HW). }
  rewrite (IH _ _ HW' Hr), orb_false_r.
  destruct (prefix_b [93; 93; 62] (x :: v)) eqn:E; [|reflexivity]. exfalso.
  unfold cdata_fm in Hf. rewrite (starts_with_st text) in Hf by exact HW.
  destruct (prefix_b_split _ _ E) as (r & Er). cbn [app] in Er. injection Er as -> ->.
  rewrite !utf8s_cons in Hf. rewrite !(utf8_ascii 93), (utf8_ascii 62) in Hf by lia. cbn in Hf. discriminate.
Qed.

Lemma inv_cdata_p p l1 c s' c' : WV p ([60; 33; 91; 67; 68; 65; 84; 65; 91] ++ l1) ->
  parse_cdata text C ev (st p ([60; 33; 91; 67; 68; 65; 84; 65; 91] ++ l1)) c = Ok (s', c') ->
  exists cs l', l1 = utf8s cs ++ [93; 93; 62] ++ l' /\ uchars cs /\ contains_b [93; 93; 62] cs = false /\
    s' = st (p + 9 + blen (utf8s cs) + 3) l' /\ WV (p + 9 + blen (utf8s cs) + 3) l' /\
    ev (cdata_tok p (utf8s cs)) c = Ok c'.
Proof.
  intros HW H. pose proof (WV_W _ _ _ HW) as HW0. unfold parse_cdata in H. cbv zeta in H. cbn [CstLex.st s_pos] in H.
  fold (CstLex.st text p ([60; 33; 91; 67; 68; 65; 84; 65; 91] ++ l1)) in H.
  rewrite (advance_st text 9 p [60; 33; 91; 67; 68; 65; 84; 65; 91]) in H by (try reflexivity; exact HW0).
  cbn [bind] in H. pose proof (WV_lit text _ _ _ HW eq_refl) as HW1.
  change (blen [60; 33; 91; 67; 68; 65; 84; 65; 91]) with 9 in HW1.
  ib H q Hq. destruct q as [txt s2].
  destruct (consume_chars_inv_u _ _ _ _ _ _ HW1 Hq) as (cs & l2 & -> & -> & -> & HW2 & Hwalk & Hstop).
  ib H s3 H3. change (b "]]>") with [93; 93; 62] in H3.
  destruct (skip_string_inv text _ _ _ _ (WV_W _ _ _ HW2) H3) as (l' & -> & -> & _).
  pose proof (WV_lit text _ _ _ HW2 eq_refl) as HW3. change (blen [93; 93; 62]) with 3 in *.
  ib H c1 Hc. inversion H; subst. cbn [CstLex.st s_pos] in Hc.
  exists cs, l'. split; [reflexivity|]. split; [eapply walk_uchars; exact Hwalk|].
  split; [eapply cdata_walk_inv_p; [apply HW1|exact Hwalk]|]. split; [reflexivity|]. split; [exact HW3|exact Hc].
Qed.

(* ---- processing instructions ---- *)
Lemma pi_nc_here p l1 : W p ([60; 63] ++ l1) -> mem_b 58 (name_run l1) = false.
Proof.
  intros [H _]. pose proof (pi_nc_skipn (N.to_nat p) text (fp_pi _ HF)) as Hc. rewrite H in Hc.
  cbn [app pi_targets_nc] in Hc. apply andb_true_iff in Hc. destruct Hc as [Hc _]. apply negb_true_iff in Hc. exact Hc.
Qed.

Lemma inv_pi_p p l1 c s' c' : WV p ([60; 63] ++ l1) -> xml_at ([60; 63] ++ l1) = true ->
  parse_pi text C ev (st p ([60; 63] ++ l1)) c = Ok (s', c') ->
  exists target sep v l', l1 = utf8s target ++ sep ++ utf8s v ++ [63; 62] ++ l' /\
    CstU.wf_item (Cst.IPI target sep v) = true /\
    s' = st (p + 2 + blen (utf8s target) + blen sep + blen (utf8s v) + 2) l' /\
    WV (p + 2 + blen (utf8s target) + blen sep + blen (utf8s v) + 2) l' /\
    ev (pi_tok p (utf8s target) sep (utf8s v)) c = Ok c'.
Proof.
  intros HW Hxml H. pose proof (WV_W _ _ _ HW) as HW0. unfold parse_pi in H. rewrite (starts_with_st text) in H by exact HW0.
  destruct (prefix_b (b "<?xml ") ([60; 63] ++ l1)) eqn:Ed; [noerr|].
  cbv zeta in H. cbn [CstLex.st s_pos] in H. fold (CstLex.st text p ([60; 63] ++ l1)) in H.
  rewrite (advance_st text 2 p [60; 63]) in H by (try reflexivity; exact HW0). cbn [bind] in H.
  pose proof (WV_lit text _ _ _ HW eq_refl) as HW1. change (blen [60; 63]) with 2 in HW1.
  ib H q Hq. destruct q as [tg s2].
  destruct (consume_name_inv_p _ _ _ _ HW1 (pi_nc_here _ _ HW0) Hq) as (target & l2 & -> & Hn & -> & -> & HW2).
  ib H s3 H3.
  assert (SEP : exists sep l3, l2 = sep ++ l3 /\ Cst.wf_ws sep = true /\ stops byte_is_space l3 /\
                  s3 = st (p + 2 + blen (utf8s target) + blen sep) l3 /\
                  WV (p + 2 + blen (utf8s target) + blen sep) l3 /\
                  (sep = [] -> prefix_b [63; 62] l3 = true)).
  { rewrite (starts_with_st text) in H3 by apply HW2. change (b "?>") with [63; 62] in H3.
    destruct (prefix_b [63; 62] l2) eqn:Eq.
    - inversion H3; subst s3. exists [], l2. rewrite blen_nil, N.add_0_r.
      split; [reflexivity|]. split; [reflexivity|]. split.
      { destruct l2 as [|y l2]; [exact I|]. cbn [prefix_b] in Eq. cbn [stops].
        apply andb_true_iff in Eq. destruct Eq as [Ey _]. assert (y = 63) by lia. subst. reflexivity. }
      split; [reflexivity|]. split; [exact HW2|]. intros _. exact Eq.
    - destruct (consume_spaces_inv_p _ _ _ HW2 H3) as (sep & l3 & -> & Hne & Hw & Hst & -> & HW3).
      exists sep, l3. split; [reflexivity|]. split; [exact Hw|]. split; [exact Hst|].
      split; [reflexivity|]. split; [exact HW3|]. intros ->. congruence. }
  destruct SEP as (sep & l3 & -> & Hsep & Hst & -> & HW3 & Hnil).
  ib H q4 H4. destruct q4 as [ct s4].
  destruct (consume_chars_inv_u _ _ _ _ _ _ HW3 H4) as (v & l4 & -> & -> & -> & HW4 & Hwalk & Hstop).
  ib H s5 H5. change (b "?>") with [63; 62] in H5.
  destruct (skip_string_inv text _ _ _ _ (WV_W _ _ _ HW4) H5) as (l' & -> & -> & _).
  pose proof (WV_lit text _ _ _ HW4 eq_refl) as HW5. change (blen [63; 62]) with 2 in *.
  ib H c1 Hc. inversion H; subst. clear H. cbn [CstLex.st s_pos] in Hc.
  exists target, sep, v, l'. split; [reflexivity|]. split.
  { apply wf_pi_intro_u; auto.
    - apply (walk_chars _ _ _ _ _ Hwalk). apply (W_cr_l _ _ _ (WV_W _ _ _ HW3)).
    - eapply pi_walk_inv_u; [apply HW3|exact Hwalk].
    - destruct (Cst.prefix_is_xml target) eqn:Ex; [|reflexivity]. exfalso.
      apply prefix_is_xml_true in Ex. subst target.
      change (utf8s [120; 109; 108]) with [120; 109; 108] in Hxml, Ed. cbn [app] in Hxml, Ed.
      destruct sep as [|y sep'].
      + specialize (Hnil eq_refl). cbn [app] in Hxml, Hnil. destruct (utf8s v ++ 63 :: 62 :: l') as [|z zr]; [cbn in Hnil; discriminate|].
        cbn [prefix_b] in Hnil. apply andb_true_iff in Hnil. destruct Hnil as [Hz _]. assert (z = 63) by lia. subst z.
        vm_compute in Hxml. discriminate.
      + cbn [app] in Hxml, Ed. unfold Cst.wf_ws in Hsep. cbn [forallb] in Hsep. apply andb_true_iff in Hsep. destruct Hsep as [Hy _].
        assert (Hy' : y = 32 \/ y = 9 \/ y = 10) by (unfold Cst.is_ws in Hy; lia).
        destruct Hy' as [->|[->| ->]]; [cbn in Ed; discriminate|vm_compute in Hxml; discriminate|vm_compute in Hxml; discriminate].
    - destruct v as [|x v]; [exact I|]. destruct (Cst.is_ws x) eqn:Ew; [|reflexivity]. exfalso.
      assert (x < 128) by (unfold Cst.is_ws in Ew; lia). rewrite utf8s_cons, (utf8_ascii x) in Hst by assumption.
      cbn [app stops] in Hst. rewrite (ws_space _ Ew) in Hst. discriminate.
    - destruct sep as [|y sep]; [|right; discriminate]. left.
      specialize (Hnil eq_refl). destruct v as [|x v]; [reflexivity|exfalso].
      destruct Hwalk as (_ & _ & Hf & _). unfold pi_f in Hf.
      rewrite (starts_with_st text) in Hf by apply HW3. change (b "?>") with [63; 62] in Hf. rewrite Hnil in Hf.
      rewrite utf8s_cons in Hnil. destruct (N.lt_ge_cases x 128) as [L|L].
      + rewrite (utf8_ascii x L) in Hnil. cbn [app prefix_b] in Hnil. apply andb_true_iff in Hnil.
        destruct Hnil as [Hx _]. assert (x = 63) by lia. subst x. cbn in Hf. discriminate.
      + destruct (utf8_high x L) as (_ & b1 & t1 & E1 & Hb1). rewrite E1 in Hnil. cbn [app prefix_b] in Hnil.
        replace (63 =? b1) with false in Hnil by lia. discriminate. }
  split; [reflexivity|]. split; [exact HW5|].
  unfold pi_tok. cbv zeta. unfold slice_len in Hc. cbn [sl sl_start sl_end] in Hc.
  replace (p + 2 + blen (utf8s target) + blen sep + blen (utf8s v) - (p + 2 + blen (utf8s target) + blen sep))
    with (blen (utf8s v)) in Hc by lia.
  exact Hc.
Qed.

(* ---- end tags ---- *)
Lemma inv_close_p p l1 c s' c' : WV p ([60; 47] ++ l1) ->
  parse_close_element text C ev (st p ([60; 47] ++ l1)) c = Ok (s', c') ->
  exists pre loc ws2 l', l1 = rq pre loc ++ ws2 ++ [62] ++ l' /\ qn_ok pre loc /\ Cst.wf_ws ws2 = true /\
    s' = st (p + 2 + blen (rq pre loc) + blen ws2 + 1) l' /\ WV (p + 2 + blen (rq pre loc) + blen ws2 + 1) l' /\
    ev (nclose_tok p pre loc ws2) c = Ok c'.
Proof.
  intros HW H. pose proof (WV_W _ _ _ HW) as HW0. unfold parse_close_element in H. cbv zeta in H.
  cbn [CstLex.st s_pos] in H. fold (CstLex.st text p ([60; 47] ++ l1)) in H.
  rewrite (advance_st text 2 p [60; 47]) in H by (try reflexivity; exact HW0). cbn [bind] in H.
  pose proof (WV_lit text _ _ _ HW eq_refl) as HW1. change (blen [60; 47]) with 2 in HW1.
  assert (Hnc : nc l1).
  { apply (nc_after (p + 1) 47). - apply (W_cons text p 60). exact HW0. - auto. }
  ib H q Hq. destruct q as [[pfx loc] s2].
  destruct (consume_qname_inv_p _ _ _ _ _ HW1 Hnc Hq) as (pre & locn & l2 & -> & Hn & -> & -> & -> & HW2).
  destruct (skip_spaces_inv_p _ l2 HW2) as (ws2 & l3 & -> & Hws & Hst & E3 & HW3). rewrite E3 in H.
  ib H s4 H4. destruct (consume_byte_inv text _ _ _ _ (WV_W _ _ _ HW3) H4) as (l' & -> & -> & _).
  assert (HW4 : WV (p + 2 + blen (rq pre locn) + blen ws2 + 1) l') by (apply (WV_cons text _ _ _ HW3); lia).
  ib H c1 Hc. inversion H; subst. clear H. cbn [CstLex.st s_pos] in Hc.
  exists pre, locn, ws2, l'. split; [reflexivity|]. split; [exact Hn|]. split; [exact Hws|].
  split; [reflexivity|]. split; [exact HW4|exact Hc].
Qed.

(* ---- start tags ---- *)
Lemma inv_elem_loop_p : forall fuel ts q l c open s' c', WV q l ->
  parse_element_loop text C ev fuel ts (st q l) c = Ok (open, s', c') ->
  exists attrs ws_end l' c2,
    l = flat_map r_rattr attrs ++ ws_end ++ tag_tail (negb open) ++ l' /\
    Forall rattr_ok attrs /\ Cst.wf_ws ws_end = true /\
    evs (nattr_toks q attrs) c = Ok c2 /\
    ev (end_tok (q + blen (flat_map r_rattr attrs) + blen ws_end) (negb open)) c2 = Ok c' /\
    s' = st (q + blen (flat_map r_rattr attrs) + blen ws_end + blen (tag_tail (negb open))) l' /\
    WV (q + blen (flat_map r_rattr attrs) + blen ws_end + blen (tag_tail (negb open))) l'.
Proof.
  induction fuel as [|fu IH]; intros ts q l c open s' c' HW H; cbn [parse_element_loop] in H; [noerr|].
  pose proof (WV_W _ _ _ HW) as HW0.
  destruct (at_end (st q l)) eqn:Ea; [noerr|]. cbv zeta in H.
  rewrite starts_with_space_st in H by exact HW0.
  destruct (skip_spaces_inv_p q l HW) as (w & l1 & El & Hw & Hst & E1 & HW1). rewrite E1 in H.
  pose proof (WV_W _ _ _ HW1) as HW10.
  cbn [CstLex.st s_pos] in H. fold (CstLex.st text (q + blen w) l1) in H.
  ib H x Hx. destruct (curr_byte_inv text _ _ _ HW10 Hx) as (l2 & ->).
  destruct (x =? 47) eqn:E47.
  { assert (x = 47) by lia. subst x. rewrite (advance1_st text) in H by exact HW10. cbn [bind] in H.
    assert (HW2 : WV (q + blen w + 1) l2) by (apply (WV_cons text _ _ _ HW1); lia).
    ib H s2 H2. destruct (consume_byte_inv text _ _ _ _ (WV_W _ _ _ HW2) H2) as (l' & -> & -> & _).
    assert (HW3 : WV (q + blen w + 1 + 1) l') by (apply (WV_cons text _ _ _ HW2); lia).
    ib H c1 Hc. inversion H; subst. clear H. cbn [CstLex.st s_pos] in Hc.
    exists [], w, l', c. cbn [flat_map negb tag_tail app CstLex.evs nattr_toks]. rewrite blen_nil, N.add_0_r.
    change (blen [47; 62]) with 2.
    split; [reflexivity|]. split; [constructor|]. split; [exact Hw|]. split; [reflexivity|].
    replace (q + blen w + 2) with (q + blen w + 1 + 1) by lia.
    split; [|split; [reflexivity|exact HW3]].
    unfold end_tok. replace (q + blen w + 2) with (q + blen w + 1 + 1) by lia. exact Hc. }
  destruct (x =? 62) eqn:E62.
  { assert (x = 62) by lia. subst x. rewrite (advance1_st text) in H by exact HW10. cbn [bind] in H.
    ib H c1 Hc. inversion H; subst. clear H. cbn [CstLex.st s_pos] in Hc.
    exists [], w, l2, c. cbn [flat_map negb tag_tail app CstLex.evs nattr_toks]. rewrite blen_nil, N.add_0_r.
    change (blen [62]) with 1.
    split; [reflexivity|]. split; [constructor|]. split; [exact Hw|]. split; [reflexivity|].
    split; [exact Hc|]. split; [reflexivity|]. apply (WV_cons text _ _ _ HW1). lia. }
  ib H s1 H1.
  assert (Hs1 : s1 = st (q + blen w) (x :: l2) /\ w <> []).
  { subst l. destruct w as [|w0 wr].
    - cbn [app] in H1. cbn [stops] in Hst. rewrite Hst in H1.
      unfold consume_spaces in H1. rewrite (at_end_st text) in H1 by exact HW10.
      rewrite starts_with_space_st in H1 by exact HW10. rewrite Hst in H1. cbn [negb] in H1.
      ib H1 y Hy. noerr.
    - cbn [app] in H1. unfold Cst.wf_ws in Hw. cbn [forallb] in Hw. apply andb_true_iff in Hw.
      destruct Hw as [Hw0 _]. rewrite (ws_space _ Hw0) in H1. inversion H1. split; [reflexivity|discriminate]. }
  destruct Hs1 as [-> Hwne]. clear H1.
  assert (Hnc : nc (x :: l2)).
  { subst l. apply (nc_after_ws q w _ HW0 Hwne Hw). }
  ib H qv Hqn. destruct qv as [[pfx loc] s2].
  destruct (consume_qname_inv_p _ _ _ _ _ HW1 Hnc Hqn) as (pre & locn & l3 & En & Hname & -> & -> & -> & HW3).
  cbn [CstLex.st s_pos] in H. fold (CstLex.st text (q + blen w + blen (rq pre locn)) l3) in H.
  ib H s3 H3. destruct (consume_eq_inv_p _ _ _ HW3 H3) as (w1 & w2 & l4 & -> & Hw1 & Hw2 & -> & HW4).
  ib H qq Hqq. destruct qq as [quote s4].
  destruct (consume_quote_inv text _ _ _ _ (WV_W _ _ _ HW4) Hqq) as (l5 & -> & Hquote & -> & _).
  assert (HW5 : WV (q + blen w + blen (rq pre locn) + blen w1 + 1 + blen w2 + 1) l5)
    by (apply (WV_cons text _ _ _ HW4); lia).
  cbn [CstLex.st s_pos] in H.
  fold (CstLex.st text (q + blen w + blen (rq pre locn) + blen w1 + 1 + blen w2 + 1) l5) in H.
  ib H s5 H5.
  destruct (advance_until2_inv text _ _ _ _ _ (WV_W _ _ _ HW5) H5) as (vb & cq & l6 & -> & Hv & Hcq & -> & HW60).
  assert (Hcq128 : cq < 128) by lia.
  pose proof (valid_split vb cq l6 Hcq128 (proj2 HW5)) as Hvb.
  destruct (Valid_scalars _ Hvb) as (v & Hvs & ->).
  pose proof (WV_app text _ _ _ HW5 Hvb) as HW6.
  ib H vsl Hvsl. unfold slice_back in Hvsl. apply mk_slice_sl in Hvsl. cbn [CstLex.st s_pos] in Hvsl. subst vsl.
  ib H u Hu. apply WfParseTok.is_xml_str_wf in Hu.
  rewrite (W_slice text _ (utf8s v) _ (WV_W _ _ _ HW5)) in Hu.
  pose proof (all_chars_utf8s v Hvs Hu) as Hcc.
  ib H s6 H6. destruct (consume_byte_inv text _ _ _ _ (WV_W _ _ _ HW6) H6) as (l7 & E7 & -> & _).
  inversion E7; subst cq l7. clear E7 Hcq.
  assert (HW7 : WV (q + blen w + blen (rq pre locn) + blen w1 + 1 + blen w2 + 1 + blen (utf8s v) + 1) l6)
    by (apply (WV_cons text _ _ _ HW6); lia).
  ib H c1 Hc. cbn [CstLex.st s_pos] in Hc.
  destruct (IH _ _ _ _ _ _ _ HW7 H) as (attrs & ws_end & l' & c2 & -> & Hattrs & Hwe & Hevs & Hend & -> & HWe).
  set (a := {| ra_ws := w; ra_pre := pre; ra_loc := locn; ra_ws1 := w1; ra_ws2 := w2;
               ra_quote := quote; ra_val := v |}).
  assert (Hq' : q + blen w + blen (rq pre locn) + blen w1 + 1 + blen w2 + 1 + blen (utf8s v) + 1
                = q + blen (r_rattr a)).
  { unfold r_rattr, a. cbn [ra_ws ra_pre ra_loc ra_ws1 ra_ws2 ra_quote ra_val].
    rewrite !blen_app. change (blen [61]) with 1. change (blen [quote]) with 1. lia. }
  rewrite Hq' in *.
  exists (a :: attrs), ws_end, l', c2. cbn [flat_map]. rewrite blen_app.
  replace (q + (blen (r_rattr a) + blen (flat_map r_rattr attrs))) with
          (q + blen (r_rattr a) + blen (flat_map r_rattr attrs)) by lia.
  split.
  { assert (Era : r_rattr a = w ++ rq pre locn ++ w1 ++ [61] ++ w2 ++ [quote] ++ utf8s v ++ [quote]) by reflexivity.
    subst l. rewrite En, Era. rewrite <- !app_assoc. cbn [app]. rewrite <- ?app_assoc. reflexivity. }
  split.
  { constructor; [|exact Hattrs]. unfold rattr_ok, a. cbn [ra_ws ra_pre ra_loc ra_ws1 ra_ws2 ra_quote ra_val].
    assert (Hws1 : Cst.wf_ws1 w = true) by (unfold Cst.wf_ws1; destruct w; [congruence|exact Hw]).
    split; [exact Hws1|]. split; [exact Hname|]. split; [exact Hw1|]. split; [exact Hw2|].
    split; [lia|]. split.
    { unfold uchars. unfold scalars_ok in Hvs. rewrite Forall_forall in *. intros y Hy. auto. }
    apply forallb_Forall in Hv.
    assert (Nq : Forall (fun x => x <> quote) v).
    { apply (scalars_ne quote v); [lia|]. eapply Forall_impl; [|exact Hv]. cbv beta. intros y Hy. lia. }
    assert (N60 : Forall (fun x => x <> 60) v).
    { apply (scalars_ne 60 v); [lia|]. eapply Forall_impl; [|exact Hv]. cbv beta. intros y Hy. lia. }
    rewrite Forall_forall in *. intros y Hy. auto. }
  split; [exact Hwe|]. split; [|split; [exact Hend|split; [reflexivity|exact HWe]]].
  cbn [nattr_toks CstLex.evs].
  assert (Etok : nattr_tok q a =
     TAttribute (q + blen w, q + blen (r_rattr a))
       (N.min (q + blen w + blen (rq pre locn) - (q + blen w)) qname_len_sat)
       (N.min (q + blen w + blen (rq pre locn) + blen w1 + 1 + blen w2 - (q + blen w + blen (rq pre locn))) eq_len_sat)
       (sl (q + blen w) (q + blen w + blen (utf8s pre)))
       (sl (q + blen w + qoff pre) (q + blen w + qoff pre + blen (utf8s locn)))
       (sl (q + blen w + blen (rq pre locn) + blen w1 + 1 + blen w2 + 1)
           (q + blen w + blen (rq pre locn) + blen w1 + 1 + blen w2 + 1 + blen (utf8s v)))).
  { rewrite <- Hq'. unfold nattr_tok, a. cbv zeta.
    cbn [ra_ws ra_pre ra_loc ra_ws1 ra_ws2 ra_quote ra_val]. reflexivity. }
  rewrite Etok, Hc. cbn [bind]. exact Hevs.
Qed.

Lemma inv_element_p p l1 c open s' c' : WV p ([60] ++ l1) ->
  parse_element text C ev (st p ([60] ++ l1)) c = Ok (open, s', c') ->
  exists pre loc attrs ws_end l' c1 c2,
    l1 = rq pre loc ++ flat_map r_rattr attrs ++ ws_end ++ tag_tail (negb open) ++ l' /\
    qn_ok pre loc /\ Forall rattr_ok attrs /\ Cst.wf_ws ws_end = true /\
    ev (nstart_tok p pre loc) c = Ok c1 /\
    evs (nattr_toks (p + 1 + blen (rq pre loc)) attrs) c1 = Ok c2 /\
    ev (end_tok (p + 1 + blen (rq pre loc) + blen (flat_map r_rattr attrs) + blen ws_end) (negb open)) c2 = Ok c' /\
    s' = st (p + 1 + blen (rq pre loc) + blen (flat_map r_rattr attrs) + blen ws_end + blen (tag_tail (negb open))) l' /\
    WV (p + 1 + blen (rq pre loc) + blen (flat_map r_rattr attrs) + blen ws_end + blen (tag_tail (negb open))) l'.
Proof.
  intros HW H. pose proof (WV_W _ _ _ HW) as HW0. unfold parse_element in H. cbv zeta in H. cbn [CstLex.st s_pos] in H.
  fold (CstLex.st text p ([60] ++ l1)) in H.
  rewrite (advance_st text 1 p [60]) in H by (try reflexivity; exact HW0). cbn [bind] in H.
  pose proof (WV_lit text _ _ _ HW eq_refl) as HW1. change (blen [60]) with 1 in HW1.
  assert (Hnc : nc l1) by (apply (nc_after p 60 _ HW0); auto).
  ib H qv Hqn. destruct qv as [[pfx loc] s2].
  destruct (consume_qname_inv_p _ _ _ _ _ HW1 Hnc Hqn) as (pre & locn & l2 & -> & Hname & -> & -> & -> & HW2).
  ib H c1 Hc1.
  destruct (inv_elem_loop_p _ _ _ _ _ _ _ _ HW2 H) as (attrs & ws_end & l' & c2 & -> & Ha & Hw & Hevs & Hend & -> & HWe).
  exists pre, locn, attrs, ws_end, l', c1, c2.
  split; [reflexivity|]. split; [exact Hname|]. split; [exact Ha|]. split; [exact Hw|].
  split; [exact Hc1|]. split; [exact Hevs|]. split; [exact Hend|]. split; [reflexivity|exact HWe].
Qed.

End PLexS.

(* ------------------------------------------------------------------------------------------ *)
(* Part 2: the prolog                                                                           *)
(* ------------------------------------------------------------------------------------------ *)
Lemma ws_s w : Cst.wf_ws w = true -> wf_s w = true.
Proof.
  unfold Cst.wf_ws, wf_s. apply forallb_imp. intros x. unfold Cst.is_ws, Chars.xml_S. lia.
Qed.
Lemma ws_s1 w : Cst.wf_ws w = true -> w <> [] -> wf_s1 w = true.
Proof. intros H Hne. unfold wf_s1. destruct w; [congruence|]. apply ws_s. exact H. Qed.

Lemma name_byte_stop x : name_byte x = false -> not_name_byte x.
Proof.
  unfold name_byte, not_name_byte. intros H. apply orb_false_iff in H. destruct H as [H1 H2].
  split; [lia|]. split; [|exact H2]. intros ->. vm_compute in H2. discriminate.
Qed.

(* the names of the pseudo-attributes: what P5 says about the rest of the declaration *)
Definition Kdecl (s : bytes) : bool := kw_end_ok kw_version s && kw_end_ok kw_encoding s && kw_end_ok kw_standalone s.
Definition Qdecl (s : bytes) : Prop := all_suffixes Kdecl (take_until 60 s) = true.

Lemma all_suffixes_head P l : all_suffixes P l = true -> P l = true.
Proof. destruct l; cbn [all_suffixes]; [auto|]. intros H. apply andb_true_iff in H. tauto. Qed.
Lemma all_suffixes_tail P x l : all_suffixes P (x :: l) = true -> all_suffixes P l = true.
Proof. cbn [all_suffixes]. intros H. apply andb_true_iff in H. tauto. Qed.
Lemma all_suffixes_skipn P : forall n l, all_suffixes P l = true -> all_suffixes P (skipn n l) = true.
Proof.
  induction n as [|n IH]; intros l H; [exact H|]. destruct l as [|x l]; [exact H|]. cbn [skipn]. apply IH.
  eapply all_suffixes_tail; eauto.
Qed.

Lemma Qdecl_app a s : Forall (fun x => x <> 60) a -> Qdecl (a ++ s) -> Qdecl s.
Proof.
  unfold Qdecl. induction 1 as [|x a Hx _ IH]; intros H; [exact H|]. apply IH. cbn [app take_until] in H.
  replace (x =? 60) with false in H by lia. eapply all_suffixes_tail; eauto.
Qed.

Lemma take_until_app q : forall a s, Forall (fun x => x <> q) a -> take_until q (a ++ s) = a ++ take_until q s.
Proof.
  induction 1 as [|x a Hx _ IH]; [reflexivity|]. cbn [app take_until]. replace (x =? q) with false by lia. rewrite IH. reflexivity.
Qed.

Lemma Qdecl_kw kw l : CstFullS5Decl.is_kw kw -> Qdecl (kw ++ l) -> name_stop l.
Proof.
  intros Hk HQ. unfold Qdecl in HQ.
  assert (Hkw : Forall (fun x => x <> 60) kw) by (destruct Hk as [-> |[-> | ->]]; repeat constructor; lia).
  rewrite (take_until_app 60 kw l Hkw) in HQ. apply all_suffixes_head in HQ. unfold Kdecl in HQ.
  destruct l as [|x l']; [exact I|]. cbn [name_stop]. apply name_byte_stop.
  destruct (N.eq_dec x 60) as [->|Hx]; [vm_compute; reflexivity|].
  cbn [take_until] in HQ. replace (x =? 60) with false in HQ by lia.
  assert (HK : kw_end_ok kw (kw ++ x :: take_until 60 l') = true).
  { apply andb_true_iff in HQ. destruct HQ as [HQ H3]. apply andb_true_iff in HQ. destruct HQ as [H1 H2].
    destruct Hk as [-> |[-> | ->]]; assumption. }
  unfold kw_end_ok in HK. rewrite prefix_b_app_same in HK. rewrite skipn_len_app in HK.
  apply negb_true_iff in HK. exact HK.
Qed.

Section PrologS.
Variable text : bytes.
Hypothesis HF : FragP text.
Notation st := (CstLex.st text).
Notation W := (CstLex.W text).
Notation WV := (CstULex.WV text).

Lemma dcs_inv p l s' : WV p l -> decl_consume_spaces text (st p l) = Ok s' ->
  exists w l', l = w ++ l' /\ Cst.wf_ws w = true /\ stops byte_is_space l' /\ s' = st (p + blen w) l' /\ WV (p + blen w) l' /\
    (w = [] -> l' = [] \/ prefix_b [63; 62] l' = true).
Proof.
  intros HW H. pose proof (WV_W _ _ _ HW) as HW0. unfold decl_consume_spaces in H.
  rewrite starts_with_space_st in H by exact HW0.
  destruct (skip_spaces_inv_p text HF p l HW) as (w & l' & El & Hw & Hst & E1 & HW1).
  destruct l as [|x l0].
  { rewrite (starts_with_st text), (at_end_st text) in H by exact HW0. cbn in H. inversion H; subst.
    exists [], []. rewrite blen_nil, N.add_0_r. split; [reflexivity|]. split; [reflexivity|]. split; [exact I|].
    split; [reflexivity|]. split; [exact HW|]. intros _. left; reflexivity. }
  destruct (byte_is_space x) eqn:Ex.
  - inversion H; subst s'. exists w, l'. split; [exact El|]. split; [exact Hw|]. split; [exact Hst|]. split; [exact E1|].
    split; [exact HW1|]. intros ->. cbn [app] in El. subst l'. cbn [stops] in Hst. congruence.
  - rewrite (starts_with_st text), (at_end_st text) in H by exact HW0. change (b "?>") with [63; 62] in H.
    destruct (prefix_b [63; 62] (x :: l0)) eqn:Ep; cbn [negb andb] in H.
    + inversion H; subst s'. exists [], (x :: l0). rewrite blen_nil, N.add_0_r. split; [reflexivity|]. split; [reflexivity|].
      split; [cbn [stops]; exact Ex|]. split; [reflexivity|]. split; [exact HW|]. intros _. right; exact Ep.
    + ib H y Hy. noerr.
Qed.

(* one pseudo-attribute, the name being the keyword itself *)
Lemma inv_pattr kw p l pfx loc s' : WV p (kw ++ l) -> CstFullS5Decl.is_kw kw -> name_stop l ->
  parse_attribute text (st p (kw ++ l)) = Ok (pfx, loc, s') ->
  exists w1 w2 q v l', l = w1 ++ [61] ++ w2 ++ [q] ++ utf8s v ++ [q] ++ l' /\
    Cst.wf_ws w1 = true /\ Cst.wf_ws w2 = true /\ (q = 39 \/ q = 34) /\
    forallb (fun x => Chars.xml_Char x && negb (x =? q) && negb (x =? 60)) v = true /\
    s' = st (p + blen kw + blen w1 + 1 + blen w2 + 1 + blen (utf8s v) + 1) l' /\
    WV (p + blen kw + blen w1 + 1 + blen w2 + 1 + blen (utf8s v) + 1) l'.
Proof.
  intros HW Hk Hstop H. unfold parse_attribute in H.
  destruct (CstFullS5Decl.kw_qname kw Hk) as (Eq & Huq & Hv).
  rewrite <- Eq in H at 1. rewrite <- Eq in HW.
  rewrite (CstFullLex.consume_qname_full text _ p l HW Huq Hstop) in H. cbn [bind] in H. rewrite Eq in *.
  pose proof (WV_app text _ _ _ HW Hv) as HW1.
  ib H s1 H1. destruct (consume_eq_inv_p text HF _ _ _ HW1 H1) as (w1 & w2 & l2 & -> & Hw1 & Hw2 & -> & HW2).
  ib H qq Hqq. destruct qq as [q s2].
  destruct (consume_quote_inv text _ _ _ _ (WV_W _ _ _ HW2) Hqq) as (l3 & -> & Hq & -> & _).
  assert (HW3 : WV (p + blen kw + blen w1 + 1 + blen w2 + 1) l3) by (apply (WV_cons text _ _ _ HW2); lia).
  ib H s3 H3. unfold skip_chars in H3.
  destruct (skip_chars_loop_inv_u text _ _ _ _ _ HW3 H3) as (v & l4 & -> & -> & Hwalk & Hstp).
  ib H u Hu. clear Hu.
  assert (HW4 : WV (p + blen kw + blen w1 + 1 + blen w2 + 1 + blen (utf8s v)) l4).
  { apply (WV_app text _ _ _ HW3). apply Valid_utf8s. eapply walk_scalars; eauto. }
  ib H s5 H5. destruct (consume_byte_inv text _ _ _ _ (WV_W _ _ _ HW4) H5) as (l' & -> & -> & _).
  inversion H; subst pfx loc s'. clear H.
  exists w1, w2, q, v, l'. split; [reflexivity|]. split; [exact Hw1|]. split; [exact Hw2|]. split; [exact Hq|].
  split.
  { clear - Hwalk. revert Hwalk. generalize (p + blen kw + blen w1 + 1 + blen w2 + 1). generalize (q :: l').
    induction v as [|c v IH]; intros l0 p0 Hw; [reflexivity|]. destruct Hw as (Hs & Hc & Hf & Hr).
    cbn [forallb]. rewrite (IH _ _ Hr), andb_true_r.
    destruct (CharTablesProofs.char_tables_conform c Hs) as (E & _). rewrite <- E, Hc. exact Hf. }
  split; [reflexivity|]. apply (WV_cons text _ _ _ HW4). lia.
Qed.

Lemma no60_utf8s v : forallb (fun x => Chars.xml_Char x && negb (x =? 39) && negb (x =? 60)) v = true \/
                     forallb (fun x => Chars.xml_Char x && negb (x =? 34) && negb (x =? 60)) v = true ->
  Forall (fun y => y <> 60) (utf8s v).
Proof.
  intros H. assert (H60 : Forall (fun x => x <> 60) v).
  { apply Forall_forall. intros x Hx. destruct H as [H|H]; rewrite forallb_forall in H; specialize (H x Hx); lia. }
  clear H. induction H60 as [|c v Hc _ IH]; [constructor|]. rewrite utf8s_cons. apply Forall_app. split; [|exact IH].
  apply utf8_no_byte; [lia|exact Hc].
Qed.

Lemma ws_no60 w : Cst.wf_ws w = true -> Forall (fun y => y <> 60) w.
Proof.
  unfold Cst.wf_ws. intros H. apply Forall_forall. intros x Hx. rewrite forallb_forall in H. specialize (H x Hx).
  unfold Cst.is_ws in H. lia.
Qed.

Definition mkps (w w1 w2 : bytes) (q : N) (v : scalars) : pseudo :=
  {| p_ws := w; p_ws1 := w1; p_ws2 := w2; p_quote := q; p_value := v |}.

(* a pseudo-attribute preceded by the white space [w]; (D23) the model now checks that the name is
   exactly the keyword (parse_pseudo_attribute), so P5 ([Qdecl]) has become redundant; it is still
   used here for the end of the name *)
Lemma inv_pseudo kw q0 w l s' : WV q0 (w ++ kw ++ l) -> Cst.wf_ws w = true -> w <> [] -> CstFullS5Decl.is_kw kw ->
  Qdecl (kw ++ l) -> parse_pseudo_attribute text kw (st (q0 + blen w) (kw ++ l)) = Ok s' ->
  exists ps l', w ++ kw ++ l = r_pseudo kw ps ++ l' /\ wf_pseudo ps = true /\ Qdecl l' /\
    s' = st (q0 + blen (r_pseudo kw ps)) l' /\ WV (q0 + blen (r_pseudo kw ps)) l'.
Proof.
  intros HW Hw Hne Hk HQ H.
  assert (HW1 : WV (q0 + blen w) (kw ++ l)) by (apply (WV_lit text _ _ _ HW); apply ws_lit; exact Hw).
  unfold parse_pseudo_attribute in H. cbv zeta in H. ib H r Hr. destruct r as [[pfx loc] s1]. cbv beta iota in H.
  match type of H with (if ?c then _ else _) = _ => destruct c end; [noerr|]. inversion H; subst s1. clear H. rename Hr into H.
  destruct (inv_pattr kw _ l pfx loc s' HW1 Hk (Qdecl_kw kw l Hk HQ) H) as (w1 & w2 & q & v & l' & -> & Hw1 & Hw2 & Hq & Hv & -> & HW').
  exists (mkps w w1 w2 q v), l'. unfold r_pseudo, mkps. cbn [p_ws p_ws1 p_ws2 p_quote p_value].
  split; [rewrite <- !app_assoc; reflexivity|]. split.
  { unfold wf_pseudo. cbn [p_ws p_ws1 p_ws2 p_quote p_value]. rewrite (ws_s1 _ Hw Hne), (ws_s _ Hw1), (ws_s _ Hw2), Hv.
    unfold is_quote. cbn [andb]. rewrite andb_true_r. lia. }
  split.
  { assert (Hkw : Forall (fun x => x <> 60) kw) by (destruct Hk as [-> |[-> | ->]]; repeat constructor; lia).
    assert (Hv60 : Forall (fun y => y <> 60) (utf8s v)) by (apply no60_utf8s; destruct Hq as [-> | ->]; auto).
    apply (Qdecl_app (w1 ++ [61] ++ w2 ++ [q] ++ utf8s v ++ [q])).
    - repeat (apply Forall_app; split); try (apply ws_no60; assumption); try assumption; repeat constructor; lia.
    - apply (Qdecl_app kw _ Hkw). rewrite <- ?app_assoc. rewrite <- ?app_assoc in HQ. exact HQ. }
  rewrite !blen_app. change (blen [61]) with 1. change (blen [q]) with 1.
  replace (q0 + (blen w + (blen kw + (blen w1 + (1 + (blen w2 + (1 + (blen (utf8s v) + 1))))))))
    with (q0 + blen w + blen kw + blen w1 + 1 + blen w2 + 1 + blen (utf8s v) + 1) by lia.
  split; [reflexivity|exact HW'].
Qed.

Lemma stops_ws_nil w l : Cst.wf_ws w = true -> stops byte_is_space (w ++ l) -> w = [].
Proof.
  destruct w as [|x w]; [reflexivity|]. cbn [app stops]. unfold Cst.wf_ws. cbn [forallb]. intros H Hs.
  apply andb_true_iff in H. destruct H as [H _]. rewrite (ws_space _ H) in Hs. discriminate.
Qed.

Lemma kw_not_end kw l : CstFullS5Decl.is_kw kw -> ~ (kw ++ l = [] \/ prefix_b [63; 62] (kw ++ l) = true).
Proof. intros [-> |[-> | ->]] [H|H]; cbn in H; discriminate. Qed.

Lemma inv_declaration p l s' : WV p (kw_xml ++ l) -> Qdecl l ->
  match l with x :: _ => byte_is_space x = true | [] => False end ->
  parse_declaration text (st p (kw_xml ++ l)) = Ok s' ->
  exists x l', kw_xml ++ l = r_xmldecl x ++ l' /\ wf_xmldecl x = true /\
               s' = st (p + blen (r_xmldecl x)) l' /\ WV (p + blen (r_xmldecl x)) l'.
Proof.
  intros HW HQ Hsp H. pose proof (WV_W _ _ _ HW) as HW0. unfold parse_declaration in H.
  rewrite (advance_st text 5 p kw_xml) in H by (try reflexivity; exact HW0). cbn [bind] in H.
  pose proof (WV_lit text _ kw_xml _ HW eq_refl) as HW1. change (blen kw_xml) with 5 in HW1.
  ib H s1 H1. destruct (dcs_inv _ _ _ HW1 H1) as (w0 & l1 & El & Hw0 & Hst0 & -> & HWa & _).
  assert (Hw0ne : w0 <> []).
  { intros ->. cbn [app] in El. subst l1. destruct l as [|x l0]; [exact Hsp|]. cbn [stops] in Hst0. congruence. }
  rewrite (starts_with_st text) in H by apply HWa. change (b "version") with kw_version in H.
  destruct (prefix_b kw_version l1) eqn:Ev; cbn [negb] in H.
  2:{ destruct (skip_string_inv text _ _ _ _ (WV_W _ _ _ HWa) H) as (lx & -> & _). rewrite prefix_b_app_same in Ev. discriminate. }
  destruct (prefix_b_split _ _ Ev) as (l2 & ->). subst l.
  assert (HQ1 : Qdecl (kw_version ++ l2)) by (apply (Qdecl_app w0); [apply ws_no60; exact Hw0|exact HQ]).
  ib H s2 H2.
  destruct (inv_pseudo kw_version (p + 5) w0 l2 s2 HW1 Hw0 Hw0ne ltac:(left; reflexivity) HQ1 H2) as (psv & l3 & E3 & Hpsv & HQ3 & -> & HW3).
  ib H s3 H3. destruct (dcs_inv _ _ _ HW3 H3) as (w3 & l4 & -> & Hw3 & Hst3 & -> & HW4 & Hend3).
  (* the optional encoding *)
  ib H s4 H4.
  assert (ENC : exists enc wp lr q,
            w3 ++ l4 = r_opt (r_pseudo kw_encoding) enc ++ wp ++ lr /\ wf_opt wf_pseudo enc = true /\
            q = p + 5 + blen (r_pseudo kw_version psv) + blen (r_opt (r_pseudo kw_encoding) enc) /\
            WV q (wp ++ lr) /\ Cst.wf_ws wp = true /\ stops byte_is_space lr /\
            (wp = [] -> lr = [] \/ prefix_b [63; 62] lr = true) /\ Qdecl lr /\ s4 = st (q + blen wp) lr).
  { rewrite (starts_with_st text) in H4 by apply HW4. change (b "encoding") with kw_encoding in H4.
    destruct (prefix_b kw_encoding l4) eqn:Ee.
    - destruct (prefix_b_split _ _ Ee) as (l5 & ->).
      assert (Hw3ne : w3 <> []) by (intros Hn; apply (kw_not_end kw_encoding l5 ltac:(right; left; reflexivity)); exact (Hend3 Hn)).
      assert (HQ4 : Qdecl (kw_encoding ++ l5)) by (apply (Qdecl_app w3); [apply ws_no60; exact Hw3|exact HQ3]).
      ib H4 s4' H4'.
      destruct (inv_pseudo kw_encoding _ w3 l5 s4' HW3 Hw3 Hw3ne ltac:(right; left; reflexivity) HQ4 H4') as (pse & l6 & E6 & Hpse & HQ6 & -> & HW6).
      destruct (dcs_inv _ _ _ HW6 H4) as (w6 & l7 & -> & Hw6 & Hst6 & -> & HW7 & Hend6).
      exists (Some pse), w6, l7, (p + 5 + blen (r_pseudo kw_version psv) + blen (r_pseudo kw_encoding pse)).
      cbn [r_opt wf_opt]. split; [exact E6|]. split; [exact Hpse|]. split; [reflexivity|]. split; [exact HW6|]. split; [exact Hw6|].
      split; [exact Hst6|]. split; [exact Hend6|]. split; [apply (Qdecl_app w6); [apply ws_no60; exact Hw6|exact HQ6]|reflexivity].
    - inversion H4; subst s4. exists None, w3, l4, (p + 5 + blen (r_pseudo kw_version psv)). cbn [r_opt wf_opt app].
      rewrite blen_nil, N.add_0_r. split; [reflexivity|]. split; [reflexivity|]. split; [reflexivity|]. split; [exact HW3|].
      split; [exact Hw3|]. split; [exact Hst3|]. split; [exact Hend3|].
      split; [apply (Qdecl_app w3); [apply ws_no60; exact Hw3|exact HQ3]|reflexivity]. }
  destruct ENC as (enc & wp & lr & q & Eenc & Hwfe & Eq & HWq & Hwp & Hstr & Hendr & HQr & ->). clear H4.
  (* the optional standalone, the white space and "?>" *)
  ib H s5 H5.
  assert (HWr : WV (q + blen wp) lr) by (apply (WV_lit text _ _ _ HWq); apply ws_lit; exact Hwp).
  assert (TAIL : exists sta xw l', wp ++ lr = r_opt (r_pseudo kw_standalone) sta ++ xw ++ [63; 62] ++ l' /\
            wf_opt wf_pseudo sta = true /\ Cst.wf_ws xw = true /\
            s' = st (q + blen (r_opt (r_pseudo kw_standalone) sta) + blen xw + 2) l' /\
            WV (q + blen (r_opt (r_pseudo kw_standalone) sta) + blen xw + 2) l').
  { rewrite (starts_with_st text) in H5 by apply HWr. change (b "standalone") with kw_standalone in H5.
    destruct (prefix_b kw_standalone lr) eqn:Es.
    - destruct (prefix_b_split _ _ Es) as (l8 & ->).
      assert (Hwpne : wp <> []) by (intros Hn; apply (kw_not_end kw_standalone l8 ltac:(right; right; reflexivity)); exact (Hendr Hn)).
      destruct (inv_pseudo kw_standalone _ wp l8 s5 HWq Hwp Hwpne ltac:(right; right; reflexivity) HQr H5) as (pss & l9 & E9 & Hpss & _ & -> & HW9).
      destruct (skip_spaces_inv_p text HF _ _ HW9) as (xw & l10 & -> & Hxw & _ & Esk & HW10). rewrite Esk in H.
      change (b "?>") with [63; 62] in H.
      destruct (skip_string_inv text _ _ _ _ (WV_W _ _ _ HW10) H) as (l' & -> & -> & _).
      exists (Some pss), xw, l'. cbn [r_opt wf_opt]. split; [exact E9|]. split; [exact Hpss|]. split; [exact Hxw|].
      change (blen [63; 62]) with 2. split; [reflexivity|]. apply (WV_lit text _ [63; 62] _ HW10 eq_refl).
    - inversion H5; subst s5.
      destruct (skip_spaces_inv_p text HF _ _ HWr) as (xw & l10 & E10 & Hxw & _ & Esk & HW10). rewrite Esk in H.
      assert (xw = []) by (apply (stops_ws_nil xw l10 Hxw); rewrite <- E10; exact Hstr). subst xw. cbn [app] in E10. subst l10.
      rewrite blen_nil, N.add_0_r in H, HW10. change (b "?>") with [63; 62] in H.
      destruct (skip_string_inv text _ _ _ _ (WV_W _ _ _ HW10) H) as (l' & -> & -> & _).
      exists None, wp, l'. cbn [r_opt wf_opt app]. rewrite blen_nil, N.add_0_r. split; [reflexivity|]. split; [reflexivity|].
      split; [exact Hwp|]. change (blen [63; 62]) with 2. split; [reflexivity|]. apply (WV_lit text _ [63; 62] _ HW10 eq_refl). }
  destruct TAIL as (sta & xw & l' & Etail & Hwfs & Hxw & -> & HW').
  exists {| xd_version := psv; xd_encoding := enc; xd_standalone := sta; xd_ws := xw |}, l'.
  assert (Er : kw_xml ++ w0 ++ kw_version ++ l2 =
               r_xmldecl {| xd_version := psv; xd_encoding := enc; xd_standalone := sta; xd_ws := xw |} ++ l').
  { unfold r_xmldecl. cbn [xd_version xd_encoding xd_standalone xd_ws]. rewrite E3, Eenc, Etail, <- !app_assoc. reflexivity. }
  split; [exact Er|]. split.
  { unfold wf_xmldecl. cbn [xd_version xd_encoding xd_standalone xd_ws]. rewrite Hpsv, Hwfe, Hwfs, (ws_s _ Hxw). reflexivity. }
  assert (Eb : p + blen (r_xmldecl {| xd_version := psv; xd_encoding := enc; xd_standalone := sta; xd_ws := xw |})
               = q + blen (r_opt (r_pseudo kw_standalone) sta) + blen xw + 2).
  { unfold r_xmldecl. cbn [xd_version xd_encoding xd_standalone xd_ws]. rewrite !blen_app. change (blen kw_xml) with 5.
    change (blen [63; 62]) with 2. lia. }
  rewrite Eb. split; [reflexivity|exact HW'].
Qed.

(* ---- the quoted literals of an external identifier (D23: checked by the model) ---- *)
(* the model's byte class of a PubidLiteral is the PubidChar of the recommendation *)
Lemma pubid_char_PubidChar x : CharClass.pubid_char x = xml_PubidChar x.
Proof.
  unfold CharClass.pubid_char, is_ascii_alphanumeric, is_ascii_digit, CharClass.pubid_punct, xml_PubidChar, pubid_punct.
  cbn [mem_b existsb]. lia.
Qed.

(* a system literal: Chars other than the quote (is_xml_str) *)
Lemma inv_syslit p l s' : WV p l -> parse_external_literal text (st p l) = Ok s' ->
  exists q v l', l = [q] ++ utf8s v ++ [q] ++ l' /\ wf_syslit q v = true /\
    s' = st (p + 1 + blen (utf8s v) + 1) l' /\ WV (p + 1 + blen (utf8s v) + 1) l'.
Proof.
  intros HW H. unfold parse_external_literal in H.
  ib H qq Hqq. destruct qq as [q s2].
  destruct (consume_quote_inv text _ _ _ _ (WV_W _ _ _ HW) Hqq) as (l3 & -> & Hq & -> & _).
  assert (Hq128 : q < 128) by lia.
  assert (HW1 : WV (p + 1) l3) by (apply (WV_cons text _ _ _ HW); exact Hq128).
  cbv zeta in H. ib H cb Hcb. destruct cb as [vsl s3]. unfold consume_bytes in Hcb.
  destruct (skip_bytes_inv text (fun y => negb (y =? q)) (p + 1) l3 (WV_W _ _ _ HW1)) as (x & l2 & -> & Hx & _ & Esk).
  rewrite Esk in Hcb. ib Hcb sx Hs. unfold slice_back in Hs. apply mk_slice_sl in Hs. cbn [CstLex.st s_pos] in Hs. subst sx.
  inversion Hcb; subst vsl s3. clear Hcb.
  ib H u Hu. apply WfParseTok.is_xml_str_wf in Hu. rewrite (W_slice text _ x _ (WV_W _ _ _ HW1)) in Hu.
  assert (HWx : W (p + 1 + blen x) l2) by (apply (W_app text _ _ _ (WV_W _ _ _ HW1))).
  destruct (consume_byte_inv text _ _ _ _ HWx H) as (l' & -> & -> & _).
  pose proof (valid_split x q l' Hq128 (proj2 HW1)) as Hvx. destruct (Valid_scalars _ Hvx) as (v & Hvs & ->).
  exists q, v, l'. split; [reflexivity|]. split.
  { unfold wf_syslit, is_quote. apply andb_true_iff. split; [lia|].
    pose proof (all_chars_utf8s v Hvs Hu) as Hcc.
    assert (Hu' : uchars v).
    { unfold uchars. unfold scalars_ok in Hvs. rewrite Forall_forall in *. intros y Hy. auto. }
    pose proof (uchars_xml v Hu') as Hxc.
    assert (Nq : Forall (fun c => c <> q) v).
    { apply (scalars_ne q v Hq128). apply Forall_forall. intros y Hy. rewrite forallb_forall in Hx. specialize (Hx y Hy). lia. }
    apply forallb_forall. intros y Hy. rewrite forallb_forall in Hxc. rewrite (Hxc y Hy).
    rewrite Forall_forall in Nq. specialize (Nq y Hy). cbn [andb]. lia. }
  split; [reflexivity|]. apply (WV_cons text _ q); [apply (WV_app text _ _ _ HW1 Hvx)|exact Hq128].
Qed.

(* a public literal: PubidChar bytes other than the quote *)
Lemma inv_publit p l s' : WV p l -> parse_pubid_literal text (st p l) = Ok s' ->
  exists q v l', l = [q] ++ utf8s v ++ [q] ++ l' /\ wf_publit q v = true /\
    s' = st (p + 1 + blen (utf8s v) + 1) l' /\ WV (p + 1 + blen (utf8s v) + 1) l'.
Proof.
  intros HW H. unfold parse_pubid_literal in H.
  ib H qq Hqq. destruct qq as [q s2].
  destruct (consume_quote_inv text _ _ _ _ (WV_W _ _ _ HW) Hqq) as (l3 & -> & Hq & -> & _).
  assert (Hq128 : q < 128) by lia.
  assert (HW1 : WV (p + 1) l3) by (apply (WV_cons text _ _ _ HW); exact Hq128).
  cbv zeta in H.
  destruct (skip_bytes_inv text (fun x => negb (x =? q) && pubid_char x) (p + 1) l3 (WV_W _ _ _ HW1)) as (v & l2 & -> & Hv & _ & Esk).
  rewrite Esk in H.
  assert (Ha : forallb (fun y => y <? 128) v = true).
  { revert Hv. apply forallb_imp. intros y Hy. apply andb_true_iff in Hy. apply pubid_char_ltb128. apply Hy. }
  pose proof (WV_lit text _ _ _ HW1 Ha) as HW2.
  ib H y Hy. destruct (curr_byte_inv text _ _ _ (WV_W _ _ _ HW2) Hy) as (l' & ->).
  destruct (negb (y =? q)) eqn:Eyq; [noerr|]. assert (y = q) by lia. subst y.
  rewrite (advance1_st text) in H by apply HW2. inversion H; subst s'. clear H.
  assert (Eu : utf8s v = v).
  { apply utf8s_ascii_id. apply Forall_forall. intros y Hy'. rewrite forallb_forall in Ha. specialize (Ha y Hy'). lia. }
  exists q, v, l'. rewrite Eu. split; [reflexivity|]. split.
  { unfold wf_publit, is_quote. apply andb_true_iff. split; [lia|].
    revert Hv. apply forallb_imp. intros y Hy'. apply andb_true_iff in Hy'. destruct Hy' as [Hn Hp].
    rewrite <- pubid_char_PubidChar, Hp, Hn. reflexivity. }
  split; [reflexivity|]. apply (WV_cons text _ q _ HW2). exact Hq128.
Qed.

Lemma inv_extid p l found s' : WV p l -> parse_external_id text (st p l) = Ok (found, s') ->
  (found = false /\ s' = st p l /\ prefix_b kw_system l = false /\ prefix_b kw_public l = false) \/
  (found = true /\ exists x l', l = r_extid x ++ l' /\ wf_extid x = true /\
                  s' = st (p + blen (r_extid x)) l' /\ WV (p + blen (r_extid x)) l').
Proof.
  intros HW H. pose proof (WV_W _ _ _ HW) as HW0. unfold parse_external_id in H.
  rewrite !(starts_with_st text) in H by exact HW0. change (b "SYSTEM") with kw_system in H. change (b "PUBLIC") with kw_public in H.
  destruct (prefix_b kw_system l) eqn:Es; destruct (prefix_b kw_public l) eqn:Ep; cbn [orb] in H.
  4:{ inversion H; subst. left. auto. }
  all: right; cbv zeta in H; cbn [CstLex.st s_pos] in H; fold (st p l) in H.
  1:{ exfalso. destruct (prefix_b_split _ _ Es) as (r1 & E1). rewrite E1 in Ep. cbn in Ep. discriminate. }
  - (* SYSTEM *)
    destruct (prefix_b_split _ _ Es) as (l1 & ->).
    rewrite (advance_st text 6 p kw_system) in H by (try reflexivity; exact HW0). cbn [bind] in H.
    pose proof (WV_lit text _ kw_system _ HW eq_refl) as HW1. change (blen kw_system) with 6 in HW1.
    ib H idv Hid. unfold slice_back in Hid. apply mk_slice_sl in Hid. cbn [CstLex.st s_pos] in Hid. subst idv.
    ib H s1 H1. destruct (consume_spaces_inv_p text HF _ _ _ HW1 H1) as (w & l2 & -> & Hwne & Hw & _ & -> & HW2).
    replace (slice_bytes text (sl p (p + 6))) with kw_system in H.
    2:{ symmetry. change 6 with (blen kw_system). apply (W_slice text p kw_system _ HW0). }
    change (bytes_eqb kw_system (b "SYSTEM")) with true in H. cbv iota in H.
    ib H s4 H4. destruct (inv_syslit _ _ _ HW2 H4) as (q & v & l' & -> & Hv & -> & HW4).
    inversion H; subst. split; [reflexivity|].
    exists (XSystem w q v), l'. cbn [r_extid wf_extid]. unfold r_lit. split; [rewrite <- !app_assoc; reflexivity|]. split.
    { rewrite (ws_s1 _ Hw Hwne), Hv. reflexivity. }
    rewrite !blen_app. change (blen kw_system) with 6. change (blen [q]) with 1.
    replace (p + (6 + (blen w + (1 + (blen (utf8s v) + 1))))) with (p + 6 + blen w + 1 + blen (utf8s v) + 1) by lia.
    split; [reflexivity|exact HW4].
  - (* PUBLIC *)
    destruct (prefix_b_split _ _ Ep) as (l1 & ->).
    rewrite (advance_st text 6 p kw_public) in H by (try reflexivity; exact HW0). cbn [bind] in H.
    pose proof (WV_lit text _ kw_public _ HW eq_refl) as HW1. change (blen kw_public) with 6 in HW1.
    ib H idv Hid. unfold slice_back in Hid. apply mk_slice_sl in Hid. cbn [CstLex.st s_pos] in Hid. subst idv.
    ib H s1 H1. destruct (consume_spaces_inv_p text HF _ _ _ HW1 H1) as (w & l2 & -> & Hwne & Hw & _ & -> & HW2).
    replace (slice_bytes text (sl p (p + 6))) with kw_public in H.
    2:{ symmetry. change 6 with (blen kw_public). apply (W_slice text p kw_public _ HW0). }
    change (bytes_eqb kw_public (b "SYSTEM")) with false in H. cbv iota in H.
    ib H s4 H4. destruct (inv_publit _ _ _ HW2 H4) as (q & v & l4 & -> & Hv & -> & HW4).
    ib H s5 H5. destruct (consume_spaces_inv_p text HF _ _ _ HW4 H5) as (w' & l5 & -> & Hwne' & Hw' & _ & -> & HW5).
    ib H s8 H8. destruct (inv_syslit _ _ _ HW5 H8) as (q' & v' & l' & -> & Hv' & -> & HW7).
    inversion H; subst. split; [reflexivity|].
    exists (XPublic w q v w' q' v'), l'. cbn [r_extid wf_extid]. unfold r_lit. split; [rewrite <- !app_assoc; reflexivity|]. split.
    { rewrite (ws_s1 _ Hw Hwne), (ws_s1 _ Hw' Hwne'), Hv, Hv'. reflexivity. }
    rewrite !blen_app. change (blen kw_public) with 6. change (blen [q]) with 1. change (blen [q']) with 1.
    replace (p + (6 + (blen w + (1 + (blen (utf8s v) + 1) + (blen w' + (1 + (blen (utf8s v') + 1)))))))
      with (p + 6 + blen w + 1 + blen (utf8s v) + 1 + blen w' + 1 + blen (utf8s v') + 1) by lia.
    split; [reflexivity|exact HW7].
Qed.

(* ---- the scans of P6-P8 at a position ---- *)
Lemma scan_at P p l : all_suffixes P text = true -> W p l -> P l = true.
Proof. intros H [E _]. rewrite <- E. apply all_suffixes_head. apply all_suffixes_skipn. exact H. Qed.

Lemma is_sp_space x : is_sp x = byte_is_space x.
Proof. unfold is_sp. cls. lia. Qed.

Lemma skip_ws_ws : forall w l, Cst.wf_ws w = true -> stops byte_is_space l -> skip_ws (w ++ l) = l.
Proof.
  induction w as [|x w IH]; intros l Hw Hl.
  - cbn [app]. destruct l as [|y l]; [reflexivity|]. cbn [skip_ws stops] in *. rewrite is_sp_space, Hl. reflexivity.
  - unfold Cst.wf_ws in Hw. cbn [forallb] in Hw. apply andb_true_iff in Hw. destruct Hw as [Hx Hw].
    cbn [app skip_ws]. rewrite is_sp_space, (ws_space _ Hx). apply IH; assumption.
Qed.

Lemma name_stops_space name l : CstU.wf_name name = true -> stops byte_is_space (utf8s name ++ l).
Proof.
  intros H. destruct (CstFullLex.uname_ne name H) as (b0 & r & E). rewrite E. cbn [app stops].
  destruct (wf_uname_parts name H) as (c & x & -> & Hc & _). rewrite utf8s_cons in E.
  destruct (uname_start_facts c Hc) as (Hs & Hns & _).
  destruct (N.lt_ge_cases c 128) as [L|L].
  - rewrite (utf8_ascii c L) in E. cbn [app] in E. injection E as <- _.
    destruct (CharTablesProofs.byte_char_agree c L) as (_ & E2 & _). rewrite <- E2 in Hns. revert Hns. cls. lia.
  - destruct (utf8_high c L) as (_ & b1 & t1 & E1 & Hb1). rewrite E1 in E. cbn [app] in E. injection E as <- _. cls. lia.
Qed.

(* skip_name: a Name without colon, or nothing at the end of the input *)
Lemma skip_name_inv_p p r s' : WV p r -> mem_b 58 (name_run r) = false -> skip_name text (st p r) = Ok s' ->
  (r = [] /\ s' = st p []) \/
  exists name l', r = utf8s name ++ l' /\ CstU.wf_name name = true /\ s' = st (p + blen (utf8s name)) l' /\
                  WV (p + blen (utf8s name)) l'.
Proof.
  intros HW Hr H1. unfold skip_name in H1.
  destruct (Valid_inv r (proj2 HW)) as [->|(c & r' & -> & Hc & Hv)].
  { rewrite (next_char_end text) in H1 by apply HW. cbn [bind] in H1. inversion H1; subst. left; auto. }
  right. rewrite (next_char_v text) in H1 by assumption. cbn [bind] in H1.
  destruct (char_is_name_start c) eqn:Ecs; [|noerr].
  rewrite (advance_v text) in H1 by exact HW. cbn [bind] in H1.
  assert (HW' : WV (p + blen (utf8 c)) r').
  { apply (WV_app text _ _ _ HW). rewrite utf8_enc. apply U8.Valid_encode. exact Hc. }
  rewrite (name_run_char c r' Hc (start_is_name c Hc Ecs)) in Hr. destruct (mem_b_app_false _ _ _ Hr) as [Hr1 Hr2].
  destruct (skip_name_loop_inv_p text _ _ _ _ HW' Hr2 H1) as (x & l' & -> & -> & Hx).
  assert (H58 : c <> 58) by (intros ->; rewrite mem_utf8_self in Hr1 by lia; discriminate).
  assert (Hwf : CstU.wf_name (c :: x) = true).
  { cbn [CstU.wf_name]. rewrite (uname_start_intro c Hc Ecs H58), Hx. reflexivity. }
  exists (c :: x), l'. rewrite utf8s_cons, blen_app, <- app_assoc, N.add_assoc.
  split; [reflexivity|]. split; [exact Hwf|]. split; [reflexivity|].
  rewrite <- N.add_assoc, <- blen_app. rewrite app_assoc in HW. apply (WV_app text _ _ _ HW).
  change (utf8 c ++ utf8s x) with (utf8s (c :: x)). apply Valid_utf8s. constructor; [exact Hc|apply uname_scalars; exact Hx].
Qed.

(* a quoted literal whose characters are checked (entity values) *)
Lemma inv_edef_lit p q l0 is_ge def s' : WV p (q :: l0) -> (q = 39 \/ q = 34) ->
  parse_entity_def text (st p (q :: l0)) is_ge = Ok (def, s') ->
  exists v l', l0 = utf8s v ++ [q] ++ l' /\ uchars v /\ Forall (fun y => y <> q) (utf8s v) /\
    def = Some (sl (p + 1) (p + 1 + blen (utf8s v))) /\
    s' = st (p + 1 + blen (utf8s v) + 1) l' /\ WV (p + 1 + blen (utf8s v) + 1) l'.
Proof.
  intros HW Hq H. pose proof (WV_W _ _ _ HW) as HW0. unfold parse_entity_def in H.
  unfold curr_byte in H. rewrite (at_end_st text) in H by exact HW0. cbn [curr_byte_unchecked CstLex.st s_rest bind] in H.
  replace ((q =? 34) || (q =? 39)) with true in H by lia. cbv iota in H. fold (st p (q :: l0)) in H.
  ib H qq Hqq. destruct qq as [q' s1].
  destruct (consume_quote_inv text _ _ _ _ HW0 Hqq) as (l1 & E & _ & -> & _). injection E as <- <-.
  assert (Hq128 : q < 128) by lia.
  assert (HW1 : WV (p + 1) l0) by (apply (WV_cons text _ _ _ HW); exact Hq128).
  cbv zeta in H. cbn [CstLex.st s_pos] in H. fold (st (p + 1) l0) in H.
  destruct (skip_bytes_inv text (fun y => negb (y =? q)) (p + 1) l0 (WV_W _ _ _ HW1)) as (x & l2 & -> & Hx & _ & Esk).
  rewrite Esk in H. ib H vsl Hvsl. unfold slice_back in Hvsl. apply mk_slice_sl in Hvsl. cbn [CstLex.st s_pos] in Hvsl. subst vsl.
  ib H u Hu. apply WfParseTok.is_xml_str_wf in Hu. rewrite (W_slice text _ x _ (WV_W _ _ _ HW1)) in Hu.
  ib H s2 H2. assert (HWx : W (p + 1 + blen x) l2) by (apply (W_app text _ _ _ (WV_W _ _ _ HW1))).
  destruct (consume_byte_inv text _ _ _ _ HWx H2) as (l' & -> & -> & _).
  pose proof (valid_split x q l' Hq128 (proj2 HW1)) as Hvx. destruct (Valid_scalars _ Hvx) as (v & Hvs & ->).
  inversion H; subst def s'. clear H.
  exists v, l'. split; [reflexivity|]. split.
  { pose proof (all_chars_utf8s v Hvs Hu) as Hcc. unfold uchars. unfold scalars_ok in Hvs. rewrite Forall_forall in *. intros y Hy. auto. }
  split.
  { apply Forall_forall. intros y Hy. rewrite forallb_forall in Hx. specialize (Hx y Hy). lia. }
  split; [reflexivity|]. split; [reflexivity|].
  apply (WV_cons text _ q); [apply (WV_app text _ _ _ HW1 Hvx)|exact Hq128].
Qed.

Definition wf_nd (n : bytes * bytes * scalars) : bool := wf_s1 (fst (fst n)) && wf_s1 (snd (fst n)) && CstU.wf_name (snd n).

(* an external identifier as the definition of an entity; for a general entity the white space
   after it is read here, and NDATA with its name *)
Lemma inv_edef_ext p l is_ge def s' : WV p l -> (exists x l0, l = x :: l0 /\ (x = 83 \/ x = 80)) ->
  parse_entity_def text (st p l) is_ge = Ok (def, s') ->
  def = None /\
  ((exists x nd wx l', l = r_extid x ++ r_opt r_ndata nd ++ wx ++ l' /\ wf_extid x = true /\ wf_opt wf_nd nd = true /\
      Cst.wf_ws wx = true /\ s' = st (p + blen (r_extid x) + blen (r_opt r_ndata nd) + blen wx) l' /\
      WV (p + blen (r_extid x) + blen (r_opt r_ndata nd) + blen wx) l' /\ (is_ge = false -> nd = None /\ wx = [])) \/
   (exists q, s' = st q [] /\ WV q [])).
Proof.
  intros HW (x0 & l0 & -> & Hx0) H. pose proof (WV_W _ _ _ HW) as HW0. unfold parse_entity_def in H.
  unfold curr_byte in H. rewrite (at_end_st text) in H by exact HW0. cbn [curr_byte_unchecked CstLex.st s_rest bind] in H.
  replace ((x0 =? 34) || (x0 =? 39)) with false in H by lia. replace ((x0 =? 83) || (x0 =? 80)) with true in H by lia.
  cbv iota in H. fold (st p (x0 :: l0)) in H. ib H fs Hfs. destruct fs as [found s1].
  destruct (inv_extid _ _ _ _ HW Hfs) as [Hl|Hr]; [destruct Hl as (-> & _); noerr|].
  destruct Hr as (-> & x & l1 & E & Hwx & -> & HW1). rewrite E. rewrite E in HW0.
  destruct is_ge.
  2:{ inversion H; subst. split; [reflexivity|]. left. exists x, None, [], l1. cbn [r_opt app]. rewrite blen_nil, !N.add_0_r.
      split; [reflexivity|]. split; [exact Hwx|]. split; [reflexivity|]. split; [reflexivity|]. split; [reflexivity|]. split; [exact HW1|auto]. }
  cbv zeta in H.
  destruct (skip_spaces_inv_p text HF _ _ HW1) as (w & l2 & -> & Hw & Hst & Esk & HW2). rewrite Esk in H.
  rewrite (starts_with_st text) in H by apply HW2. change (b "NDATA") with kw_ndata in H.
  destruct (prefix_b kw_ndata l2) eqn:En.
  2:{ inversion H; subst. split; [reflexivity|]. left. exists x, None, w, l2. cbn [r_opt app]. rewrite blen_nil, !N.add_0_r.
      split; [reflexivity|]. split; [exact Hwx|]. split; [reflexivity|]. split; [exact Hw|]. split; [reflexivity|]. split; [exact HW2|discriminate]. }
  destruct (prefix_b_split _ _ En) as (l3 & ->).
  (* white space before NDATA: (D23) demanded by the model (starts_with_space); P7 is not needed *)
  rewrite (starts_with_space_st text) in H by exact (WV_W _ _ _ HW1).
  assert (Hwne : w <> []).
  { intros ->. replace (match [] ++ kw_ndata ++ l3 with x :: _ => byte_is_space x | [] => false end) with false in H by reflexivity.
    cbn [negb] in H. cbv iota in H. noerr. }
  assert (Hsp : match w ++ kw_ndata ++ l3 with x :: _ => byte_is_space x | [] => false end = true).
  { destruct w as [|z w']; [congruence|]. cbn [app]. unfold Cst.wf_ws in Hw. cbn [forallb] in Hw. apply andb_true_iff in Hw.
    destruct Hw as [Hz _]. exact (ws_space _ Hz). }
  rewrite Hsp in H. change (negb true) with false in H. cbv iota in H.
  rewrite (advance_st text 5 _ kw_ndata) in H by (try reflexivity; apply HW2). cbn [bind] in H.
  pose proof (WV_lit text _ kw_ndata _ HW2 eq_refl) as HW3. change (blen kw_ndata) with 5 in HW3.
  ib H s2 H2. destruct (consume_spaces_inv_p text HF _ _ _ HW3 H2) as (w2 & l4 & -> & Hw2ne & Hw2 & Hst2 & -> & HW4).
  ib H s3 H3.
  assert (Hnc : mem_b 58 (name_run l4) = false).
  { pose proof (scan_at _ _ _ (fp_nnc _ HF) (WV_W _ _ _ HW2)) as Hs. cbv beta in Hs.
    repeat (apply andb_true_iff in Hs; destruct Hs as [Hs ?]).
    match goal with X : (if prefix_b (b "NDATA") _ then _ else _) = true |- _ => rename X into HN end.
    change (b "NDATA") with kw_ndata in HN. rewrite prefix_b_app_same in HN. change 5%nat with (length kw_ndata) in HN.
    rewrite skipn_len_app, (skip_ws_ws _ _ Hw2 Hst2) in HN. unfold nc_name in HN. apply negb_true_iff in HN. exact HN. }
  inversion H; subst def s'. clear H. split; [reflexivity|].
  destruct (skip_name_inv_p _ _ _ HW4 Hnc H3) as [(-> & ->)|(name & l' & -> & Hname & -> & HW5)].
  - right. eexists. split; [reflexivity|exact HW4].
  - left. exists x, (Some (w, w2, name)), [], l'. cbn [r_opt r_ndata fst snd app]. rewrite blen_nil, N.add_0_r.
    split; [rewrite <- !app_assoc; reflexivity|]. split; [exact Hwx|]. split.
    { unfold wf_nd. cbn [wf_opt fst snd]. rewrite (ws_s1 _ Hw Hwne), (ws_s1 _ Hw2 Hw2ne), Hname. reflexivity. }
    split; [reflexivity|]. rewrite !blen_app. change (blen kw_ndata) with 5.
    replace (p + blen (r_extid x) + (blen w + (5 + (blen w2 + blen (utf8s name))))) with
            (p + blen (r_extid x) + blen w + 5 + blen w2 + blen (utf8s name)) by lia.
    split; [reflexivity|]. split; [exact HW5|discriminate].
Qed.

Lemma try_st c p l : W p l ->
  try_consume_byte c (st p l) =
  match l with x :: l' => if x =? c then (true, st (p + 1) l') else (false, st p l) | [] => (false, st p l) end.
Proof.
  intros HW. unfold try_consume_byte, curr_byte_opt. rewrite (at_end_st text) by exact HW.
  destruct l as [|x l']; [reflexivity|]. cbn [negb CstLex.st s_rest]. fold (st p (x :: l')).
  destruct (x =? c) eqn:E; [|reflexivity]. rewrite (advance1_st text) by exact HW. reflexivity.
Qed.

Lemma name_run_uname : forall x l, forallb CstU.is_name_char x = true -> name_run (utf8s x ++ l) = utf8s x ++ name_run l.
Proof.
  induction x as [|c x IH]; intros l H; [reflexivity|]. cbn [forallb] in H. apply andb_true_iff in H. destruct H as [Hc Hx].
  destruct (uname_char_facts c Hc) as (Hs & Hn & _ & _). rewrite utf8s_cons, <- app_assoc, (name_run_char c _ Hs Hn), (IH _ Hx), <- app_assoc.
  reflexivity.
Qed.
Lemma name_run_stop l : match l with x :: _ => byte_is_space x = true \/ x = 62 \/ x = 39 \/ x = 34 | [] => True end ->
  name_run l = [].
Proof.
  destruct l as [|x l]; [reflexivity|]. intros H. cbn [name_run].
  assert (E : name_byte x = false); [|rewrite E; reflexivity].
  destruct H as [H|[->|[->| ->]]]; try (vm_compute; reflexivity). revert H. unfold name_byte. cls. lia.
Qed.

Lemma wf_ws_app a c : Cst.wf_ws a = true -> Cst.wf_ws c = true -> Cst.wf_ws (a ++ c) = true.
Proof. unfold Cst.wf_ws. intros A B0. rewrite forallb_app, A, B0. reflexivity. Qed.

(* the definition of an entity up to the closing '>' *)
Lemma inv_edef_tail is_ge q1 l s5 def s6 : WV q1 l ->
  parse_entity_def text (st q1 l) is_ge = Ok (def, s5) -> consume_byte text 62 (skip_spaces s5) = Ok s6 ->
  (exists y v w3 l', (y = 39 \/ y = 34) /\ l = [y] ++ utf8s v ++ [y] ++ w3 ++ [62] ++ l' /\ uchars v /\
      Forall (fun z => z <> y) (utf8s v) /\ Cst.wf_ws w3 = true /\ def = Some (sl (q1 + 1) (q1 + 1 + blen (utf8s v))) /\
      s6 = st (q1 + 1 + blen (utf8s v) + 1 + blen w3 + 1) l' /\ WV (q1 + 1 + blen (utf8s v) + 1 + blen w3 + 1) l') \/
  (exists xid nd w3 l', l = r_extid xid ++ r_opt r_ndata nd ++ w3 ++ [62] ++ l' /\ wf_extid xid = true /\
      wf_opt wf_nd nd = true /\ Cst.wf_ws w3 = true /\ def = None /\ (is_ge = false -> nd = None) /\
      s6 = st (q1 + blen (r_extid xid) + blen (r_opt r_ndata nd) + blen w3 + 1) l' /\
      WV (q1 + blen (r_extid xid) + blen (r_opt r_ndata nd) + blen w3 + 1) l').
Proof.
  intros HW Hds H6.
  assert (TAIL : forall q2 lz sz, WV q2 lz -> consume_byte text 62 (skip_spaces (st q2 lz)) = Ok sz ->
            exists w3 l', lz = w3 ++ [62] ++ l' /\ Cst.wf_ws w3 = true /\ sz = st (q2 + blen w3 + 1) l' /\ WV (q2 + blen w3 + 1) l').
  { intros q2 lz sz HWz Hz. destruct (skip_spaces_inv_p text HF _ _ HWz) as (w3 & lz' & -> & Hw3 & _ & Esk & HWz'). rewrite Esk in Hz.
    destruct (consume_byte_inv text _ _ _ _ (WV_W _ _ _ HWz') Hz) as (l' & -> & -> & _).
    exists w3, l'. split; [reflexivity|]. split; [exact Hw3|]. split; [reflexivity|]. apply (WV_cons text _ 62 _ HWz'). lia. }
  destruct l as [|y l0].
  { exfalso. unfold parse_entity_def, curr_byte in Hds. rewrite (at_end_st text) in Hds by apply HW. cbn in Hds. discriminate. }
  assert (Hy : y = 39 \/ y = 34 \/ y = 83 \/ y = 80).
  { unfold parse_entity_def, curr_byte in Hds. rewrite (at_end_st text) in Hds by apply HW.
    cbn [curr_byte_unchecked CstLex.st s_rest bind negb] in Hds.
    destruct ((y =? 34) || (y =? 39)) eqn:Ea; [lia|]. destruct ((y =? 83) || (y =? 80)) eqn:Eb; [lia|].
    fold (st q1 (y :: l0)) in Hds. noerr. }
  assert (Hcase : (y = 39 \/ y = 34) \/ (y = 83 \/ y = 80)) by lia. clear Hy. destruct Hcase as [Hq|Hx].
  - left. destruct (inv_edef_lit _ y _ _ _ _ HW Hq Hds) as (v & l5 & -> & Hu & Hnq & -> & -> & HW7).
    destruct (TAIL _ _ _ HW7 H6) as (w3 & l' & -> & Hw3 & -> & HW8).
    exists y, v, w3, l'. repeat (split; [first [assumption|reflexivity]|]). exact HW8.
  - right. destruct (inv_edef_ext _ _ is_ge _ _ HW ltac:(exists y, l0; split; [reflexivity|exact Hx]) Hds) as (-> & [REG|(qe & -> & HWe)]).
    2:{ exfalso. destruct (TAIL _ _ _ HWe H6) as (w3 & l' & E & _). destruct w3; discriminate. }
    destruct REG as (xid & nd & wx & l5 & -> & Hxid & Hnd & Hwx & -> & HW7 & Hpe).
    destruct (TAIL _ _ _ HW7 H6) as (w3 & l' & -> & Hw3 & -> & HW8).
    exists xid, nd, (wx ++ w3), l'. split; [rewrite <- !app_assoc; reflexivity|]. split; [exact Hxid|]. split; [exact Hnd|].
    split; [apply wf_ws_app; assumption|]. split; [reflexivity|]. split; [intros E; apply Hpe; exact E|].
    rewrite blen_app.
    replace (q1 + blen (r_extid xid) + blen (r_opt r_ndata nd) + (blen wx + blen w3) + 1)
      with (q1 + blen (r_extid xid) + blen (r_opt r_ndata nd) + blen wx + blen w3 + 1) by lia.
    split; [reflexivity|exact HW8].
Qed.

Variable C : Type.
Variable ev : token -> C -> res C.

Lemma inv_entity_decl q0 ws0 l c s' c' : WV q0 (ws0 ++ E.kw_entity ++ l) -> Cst.wf_ws ws0 = true ->
  parse_entity_decl text C ev (st (q0 + blen ws0) (E.kw_entity ++ l)) c = Ok (s', c') ->
  exists sd l', ws0 ++ E.kw_entity ++ l = r_sdecl sd ++ l' /\ wf_sdecl sd = true /\
    s' = st (q0 + blen (r_sdecl sd)) l' /\ WV (q0 + blen (r_sdecl sd)) l' /\
    match sd with
    | SEntity e => exists nm vl, ev (TEntityDecl nm vl) c = Ok c' /\ slice_bytes text nm = utf8s (E.e_name e) /\
                                 slice_bytes text vl = E.r_value (E.e_value (enc_decl e)) /\
                                 exists vs tail, vl = sl vs (vs + blen (E.r_value (E.e_value (enc_decl e)))) /\
                                                 WV vs (E.r_value (E.e_value (enc_decl e)) ++ tail)
    | SParam _ _ _ _ _ _ _ | SExternal _ _ _ _ _ _ _ => c' = c
    | _ => False
    end.
Proof.
  intros HW Hws0 H.
  assert (HWa : WV (q0 + blen ws0) (E.kw_entity ++ l)) by (apply (WV_lit text _ _ _ HW); apply ws_lit; exact Hws0).
  pose proof (WV_W _ _ _ HWa) as HWa0.
  unfold parse_entity_decl in H.
  rewrite (advance_st text 8 _ E.kw_entity) in H by (try reflexivity; exact HWa0). cbn [bind] in H.
  pose proof (WV_lit text _ E.kw_entity _ HWa eq_refl) as HW1. change (blen E.kw_entity) with 8 in HW1.
  ib H s1 H1. destruct (consume_spaces_inv_p text HF _ _ _ HW1 H1) as (w1 & l1 & -> & Hw1ne & Hw1 & Hst1 & -> & HW2).
  rewrite (try_st 37 _ _ (WV_W _ _ _ HW2)) in H.
  (* what P6 and P8 say here *)
  pose proof (scan_at _ _ _ (fp_nnc _ HF) HWa0) as Hnn. cbv beta in Hnn.
  repeat (apply andb_true_iff in Hnn; destruct Hnn as [Hnn ?]).
  match goal with X : (if prefix_b (b "<!ENTITY") _ then _ else _) = true |- _ => rename X into HN end.
  change (b "<!ENTITY") with E.kw_entity in HN. rewrite prefix_b_app_same in HN. change 8%nat with (length E.kw_entity) in HN.
  cbv zeta in HN. rewrite skipn_len_app, (skip_ws_ws _ _ Hw1 Hst1) in HN.
  pose proof (scan_at _ _ _ (fp_ge _ HF) HWa0) as HG. unfold ge_decl_ok in HG.
  change (b "<!ENTITY") with E.kw_entity in HG. rewrite prefix_b_app_same in HG. change 8%nat with (length E.kw_entity) in HG.
  cbv zeta in HG. rewrite skipn_len_app, (skip_ws_ws _ _ Hw1 Hst1) in HG.
  destruct l1 as [|x l1'].
  { exfalso. cbv iota in H. cbn [bind] in H. ib H nq Hnq. destruct nq as [nm s2].
    unfold consume_name in Hnq. cbn [CstLex.st s_pos] in Hnq. ib Hnq sx Hsx. unfold skip_name in Hsx.
    rewrite (next_char_end text) in Hsx by apply HW2. cbn [bind] in Hsx. inversion Hsx; subst sx. ib Hnq sy Hsy.
    unfold slice_back in Hsy. apply mk_slice_sl in Hsy. subst sy. cbn [CstLex.st s_pos] in Hnq. unfold slice_len in Hnq. cbn [sl sl_start sl_end] in Hnq.
    replace (q0 + blen ws0 + 8 + blen w1 - (q0 + blen ws0 + 8 + blen w1) =? 0) with true in Hnq by lia. revert Hnq. clear. intros Hnq. noerr. }
  cbn [is_pe] in HN, HG.
  destruct (x =? 37) eqn:E37.
  - (* a parameter entity *)
    assert (x = 37) by lia. subst x. cbv iota in H. cbn [bind negb tl] in H, HN.
    assert (HW3 : WV (q0 + blen ws0 + 8 + blen w1 + 1) l1') by (apply (WV_cons text _ 37 _ HW2); lia).
    ib H s2 H2. destruct (consume_spaces_inv_p text HF _ _ _ HW3 H2) as (wp & l2 & -> & Hwpne & Hwp & Hstp & -> & HW4).
    rewrite (skip_ws_ws _ _ Hwp Hstp) in HN. unfold nc_name in HN. apply negb_true_iff in HN.
    ib H nq Hnq. destruct nq as [nm s3].
    destruct (consume_name_inv_p text _ _ _ _ HW4 HN Hnq) as (name & l3 & -> & Hname & -> & -> & HW5).
    ib H s4 H4. destruct (consume_spaces_inv_p text HF _ _ _ HW5 H4) as (w2 & l4 & -> & Hw2ne & Hw2 & Hst2 & -> & HW6).
    ib H ds Hds. destruct ds as [def s5]. cbn [negb] in Hds.
    ib H c1 Hc1. assert (c1 = c) by (destruct def; inversion Hc1; reflexivity). subst c1. clear Hc1.
    ib H s6 H6. inversion H; subst s' c'. clear H.
    destruct (inv_edef_tail false _ _ _ _ _ HW6 Hds H6) as [LIT|EXT].
    + destruct LIT as (y & v & w3 & l' & Hq & -> & Hu & Hnq' & Hw3 & _ & -> & HW8).
      exists (SParam ws0 w1 wp name w2 (PLiteral y v) w3), l'. cbn [r_sdecl r_pedef]. unfold r_lit.
      split; [rewrite <- !app_assoc; reflexivity|]. split.
      { cbn [wf_sdecl wf_pedef]. rewrite (ws_s _ Hws0), (ws_s1 _ Hw1 Hw1ne), (ws_s1 _ Hwp Hwpne), Hname, (ws_s1 _ Hw2 Hw2ne), (ws_s _ Hw3).
        cbn [andb]. rewrite andb_true_r. apply andb_true_iff. split; [unfold is_quote; lia|].
        pose proof (uchars_xml _ Hu) as Hx. pose proof (scalars_ne y v ltac:(lia) Hnq') as Nq.
        apply forallb_forall. intros z Hz. rewrite forallb_forall in Hx. rewrite Forall_forall in Nq.
        rewrite (Hx z Hz). specialize (Nq z Hz). cbn [andb]. lia. }
      rewrite !blen_app. change (blen E.kw_entity) with 8. change (blen [37]) with 1. change (blen [y]) with 1. change (blen [62]) with 1.
      match goal with |- _ = st ?a _ /\ WV ?a' _ /\ _ =>
        replace a with (q0 + blen ws0 + 8 + blen w1 + 1 + blen wp + blen (utf8s name) + blen w2 + 1 + blen (utf8s v) + 1 + blen w3 + 1) by lia end.
      split; [reflexivity|]. split; [exact HW8|reflexivity].
    + destruct EXT as (xid & nd & w3 & l' & -> & Hxid & _ & Hw3 & _ & Hpe & -> & HW8). rewrite (Hpe eq_refl) in *.
      cbn [r_opt app] in *. rewrite blen_nil, N.add_0_r in HW8 |- *.
      exists (SParam ws0 w1 wp name w2 (PExternal xid) w3), l'. cbn [r_sdecl r_pedef].
      split; [rewrite <- !app_assoc; reflexivity|]. split.
      { cbn [wf_sdecl wf_pedef]. rewrite (ws_s _ Hws0), (ws_s1 _ Hw1 Hw1ne), (ws_s1 _ Hwp Hwpne), Hname, (ws_s1 _ Hw2 Hw2ne), (ws_s _ Hw3), Hxid. reflexivity. }
      rewrite !blen_app. change (blen E.kw_entity) with 8. change (blen [37]) with 1. change (blen [62]) with 1.
      match goal with |- _ = st ?a _ /\ WV ?a' _ /\ _ =>
        replace a with (q0 + blen ws0 + 8 + blen w1 + 1 + blen wp + blen (utf8s name) + blen w2 + blen (r_extid xid) + blen w3 + 1) by lia end.
      split; [reflexivity|]. split; [exact HW8|reflexivity].
  - (* a general entity *)
    cbv iota in H. cbn [bind negb] in H. unfold nc_name in HN. apply negb_true_iff in HN.
    ib H nq Hnq. destruct nq as [nm s3].
    destruct (consume_name_inv_p text _ _ _ _ HW2 HN Hnq) as (name & l3 & El1 & Hname & -> & -> & HW5).
    rewrite El1 in *. clear El1.
    ib H s4 H4. destruct (consume_spaces_inv_p text HF _ _ _ HW5 H4) as (w2 & l4 & -> & Hw2ne & Hw2 & Hst2 & -> & HW6).
    ib H ds Hds. destruct ds as [def s5]. cbn [negb] in Hds.
    ib H c1 Hc1. ib H s6 H6. inversion H; subst s' c1. clear H.
    destruct (inv_edef_tail true _ _ _ _ _ HW6 Hds H6) as [LIT|EXT].
    + destruct LIT as (y & v & w3 & l' & Hq & -> & Hu & Hnq' & Hw3 & -> & -> & HW8).
      (* P8 on this literal *)
      assert (HG' : ge_value_ok (utf8s v) = true).
      { unfold drop_name in HG. destruct (wf_uname_parts name Hname) as (cn & xn & En & _ & Hxn).
        rewrite (name_run_uname name _ ltac:(rewrite En; exact Hxn)) in HG.
        rewrite (name_run_stop (w2 ++ _)) in HG.
        2:{ destruct w2; [congruence|]. cbn [app]. left. unfold Cst.wf_ws in Hw2. cbn [forallb] in Hw2. apply andb_true_iff in Hw2.
            destruct Hw2 as [Hz _]. exact (ws_space _ Hz). }
        rewrite app_nil_r, skipn_len_app in HG.
        rewrite (skip_ws_ws w2 _ Hw2) in HG by (cbn [app stops]; destruct Hq as [-> | ->]; reflexivity).
        cbn [app lit_ok] in HG. replace ((y =? 39) || (y =? 34)) with true in HG by lia.
        rewrite (take_until_app y (utf8s v) _ Hnq') in HG. cbn [take_until] in HG. rewrite N.eqb_refl, app_nil_r in HG. exact HG. }
      destruct (ge_value_decl y v Hq HG' Hnq' Hu) as (ps & Eps & Hwfps & Hnq37).
      set (e := {| E.e_ws0 := ws0; E.e_ws1 := w1; E.e_name := name; E.e_ws2 := w2; E.e_quote := y; E.e_value := E.EText ps; E.e_ws3 := w3 |}).
      exists (SEntity e), l'. cbn [r_sdecl]. unfold E.r_decl, enc_decl, e.
      cbn [E.e_ws0 E.e_ws1 E.e_name E.e_ws2 E.e_quote E.e_value E.e_ws3 E.r_value]. rewrite Eps.
      split; [rewrite <- !app_assoc; reflexivity|]. split.
      { cbn [wf_sdecl]. unfold wf_udecl_s. cbn [E.e_ws0 E.e_ws1 E.e_name E.e_ws2 E.e_quote E.e_value E.e_ws3].
        rewrite (ws_s _ Hws0), (ws_s1 _ Hw1 Hw1ne), Hname, (ws_s1 _ Hw2 Hw2ne), (ws_s _ Hw3), Eps, Hnq37, Hwfps.
        unfold is_quote. cbn [andb]. rewrite !andb_true_r. lia. }
      rewrite !blen_app. change (blen E.kw_entity) with 8. change (blen [y]) with 1. change (blen [62]) with 1.
      match goal with |- _ = st ?a _ /\ WV ?a' _ /\ _ =>
        replace a with (q0 + blen ws0 + 8 + blen w1 + blen (utf8s name) + blen w2 + 1 + blen (utf8s v) + 1 + blen w3 + 1) by lia end.
      split; [reflexivity|]. split; [exact HW8|]. cbn [negb] in Hc1. eexists _, _. split; [exact Hc1|]. split.
      * apply (W_slice text _ (utf8s name) _ (WV_W _ _ _ HW2)).
      * assert (HWv : WV (q0 + blen ws0 + 8 + blen w1 + blen (utf8s name) + blen w2 + 1) (utf8s v ++ [y] ++ w3 ++ [62] ++ l')).
        { apply (WV_cons text _ y); [exact HW6|lia]. }
        split; [apply (W_slice text _ (utf8s v) _ (WV_W _ _ _ HWv))|].
        eexists _, _. split; [reflexivity|exact HWv].
    + destruct EXT as (xid & nd & w3 & l' & -> & Hxid & Hnd & Hw3 & -> & _ & -> & HW8). inversion Hc1; subst c'.
      exists (SExternal ws0 w1 name w2 xid nd w3), l'. cbn [r_sdecl].
      split; [rewrite <- !app_assoc; reflexivity|]. split.
      { cbn [wf_sdecl]. rewrite (ws_s _ Hws0), (ws_s1 _ Hw1 Hw1ne), Hname, (ws_s1 _ Hw2 Hw2ne), (ws_s _ Hw3), Hxid. cbn [andb].
        rewrite andb_true_r. destruct nd as [[[a1 a2] a3]|]; [exact Hnd|reflexivity]. }
      rewrite !blen_app. change (blen E.kw_entity) with 8. change (blen [62]) with 1.
      match goal with |- _ = st ?a _ /\ WV ?a' _ /\ _ =>
        replace a with (q0 + blen ws0 + 8 + blen w1 + blen (utf8s name) + blen w2 + blen (r_extid xid) + blen (r_opt r_ndata nd) + blen w3 + 1) by lia end.
      split; [reflexivity|]. split; [exact HW8|reflexivity].
Qed.

End PrologS.
