(* Proofs/CstRangeEDefs.v -- C13 / C18 on the fragment of Spec/CstEnt.v, part 1 (documents whose
   entities are all CHARACTER DATA: EText): where every node of the parsed document comes from, and
   what is expected to be stored for it.  Computed from the abstract document alone (no model).

   A text token (a stretch of a run in the body, or the value of an entity) is read piece by piece
   into a buffer; a reference FLUSHES the buffer (one fragment, Owned, with the range of the token
   being read), then the value of the entity is read as a token of its own, whose range lies inside
   the declaration's literal in the DOCTYPE; a value without '&' and CR is appended as it is (one
   fragment, Borrowed).  The Text node of a run is appended for the FIRST fragment and keeps its
   range; it is Borrowed iff the run has exactly one fragment and that one is Borrowed. *)
From Coq Require Import List NArith Bool Lia.
Import ListNotations.
From RX.Spec Require Cst CstText.
From RX.Spec Require Import Text CstEnt.
From RX.Proofs Require Import CstRangeDefs CstRangeTDefs.
Open Scope N_scope.

(* ---- where the values of the declarations are written ---- *)
Definition decl_value_off (e : edecl) : N :=
  nlen (e_ws0 e) + 8 + nlen (e_ws1 e) + nlen (e_name e) + nlen (e_ws2 e) + 1.

(* [q]: offset of the first declaration; (name, offset of the value, value) in declaration order *)
Fixpoint vtable_at (q : N) (ds : list edecl) : list (bytes * (N * evalue)) :=
  match ds with
  | [] => []
  | e :: r => (e_name e, (q + decl_value_off e, e_value e)) :: vtable_at (q + nlen (r_decl e)) r
  end.

Fixpoint vlookup (tb : list (bytes * (N * evalue))) (n : bytes) : option (N * evalue) :=
  match tb with [] => None | (m, v) :: r => if beq m n then Some v else vlookup r n end.

(* ---- fragments ---- *)
(* a fragment: the range of the token it was flushed from, and the span it borrows (None: Owned) *)
Definition fdesc := ((N * N) * option (N * N))%type.

Definition has_amp_cr (bs : bytes) : bool := existsb (fun x => (x =? 38) || (x =? 13)) bs.

(* the fragments of the pieces [ps] of a token with range [r]; [ne]: the buffer is not empty *)
Fixpoint frs_ps (fuel : nat) (tb : list (bytes * (N * evalue))) : bool -> list epiece -> N * N -> list fdesc :=
  fix go (ne : bool) (ps : list epiece) (r : N * N) {struct ps} : list fdesc :=
    match ps with
    | [] => if ne then [(r, None)] else []
    | EP _ :: rest => go true rest r
    | ERef n :: rest =>
      (if ne then [(r, None)] else []) ++
      match fuel with
      | O => []
      | S fu =>
        match vlookup tb n with
        | Some (vs, EText vps) =>
          let V := r_epieces vps in
          let vr := (vs, vs + nlen V) in
          match V with
          | [] => []
          | _ => if has_amp_cr V then frs_ps fu tb false vps vr else [(vr, Some vr)]
          end
        | _ => []
        end
      end ++ go false rest r
    end.

(* a run is tokenised SEGMENT by SEGMENT: maximal stretches without CDATA sections, and CDATA sections *)
Inductive rseg := RS (ps : list epiece) | RC (bs : bytes).
Fixpoint rsegs (ps : list epiece) : list rseg :=
  match ps with
  | [] => []
  | EP (T.PCData bs) :: r => RC bs :: rsegs r
  | p :: r => match rsegs r with RS l :: t => RS (p :: l) :: t | t => RS [p] :: t end
  end.

(* the fragments of the segments written at p *)
Fixpoint frs_segs (tb : list (bytes * (N * evalue))) (p : N) (L : list rseg) : list fdesc :=
  match L with
  | [] => []
  | RC bs :: t =>
    let e := p + 9 + nlen bs + 3 in
    ((p, e), if has_cr bs then None else Some (p + 9, p + 9 + nlen bs)) :: frs_segs tb e t
  | RS a :: t =>
    let e := p + nlen (r_epieces a) in
    (* a stretch without '&' and CR is appended as it is; otherwise it is read through the buffer *)
    (if has_amp_cr (r_epieces a) then frs_ps max_level tb false a (p, e) else [((p, e), Some (p, e))])
    ++ frs_segs tb e t
  end.

Definition run_frags (tb : list (bytes * (N * evalue))) (p : N) (ps : list epiece) : list fdesc :=
  frs_segs tb p (rsegs ps).

(* ---- the nodes ---- *)
Definition estart_tag_len (name : bytes) (attrs : list attr) (ws_end : bytes) : N :=
  1 + nlen name + nlen (flat_map r_attr attrs) + nlen ws_end + 1.

Fixpoint eitems_at (p : N) (i : item) : list (N * item) :=
  match i with
  | IElem name attrs ws_end body =>
    (p, i) ::
    match body with
    | None => []
    | Some (children, _) =>
      (fix go (q : N) (l : list item) : list (N * item) :=
         match l with [] => [] | c :: r => eitems_at q c ++ go (q + nlen (r_item c)) r end)
        (p + estart_tag_len name attrs ws_end) children
    end
  | _ => [(p, i)]
  end.

(* ---- what is observed of a node ---- *)
Inductive eshape :=
| ESElem (local : N * N)
| ESText (borrowed : option (N * N))     (* Some sp: Borrowed, the slice sp of the input; None: Owned *)
| ESComment (content : N * N)
| ESPI (target : N * N) (value : option (N * N)).

(* the Text node of a run, given its fragments: none if there is no fragment (all the references of
   the run stand for nothing); it is appended for the FIRST fragment and keeps its range; it is
   Borrowed iff there is exactly one fragment and that one is Borrowed *)
Definition node_of_frags (fs : list fdesc) : list ((N * N) * eshape) :=
  match fs with
  | [] => []
  | [(r, b)] => [(r, ESText b)]
  | (r, _) :: _ => [(r, ESText None)]
  end.

(* the node (range, shape) of an item written at p *)
Definition enode_of (tb : list (bytes * (N * evalue))) (x : N * item) : list ((N * N) * eshape) :=
  let p := fst x in
  match snd x with
  | IText ps => node_of_frags (run_frags tb p ps)
  | IElem name _ _ _ => [((p, p + nlen (r_item (snd x))), ESElem (p + 1, p + 1 + nlen name))]
  | IComment bs => [((p, p + nlen (r_item (snd x))), ESComment (p + 4, p + 4 + nlen bs))]
  | IPI target sep value =>
    [((p, p + nlen (r_item (snd x))),
      ESPI (p + 2, p + 2 + nlen target)
           (match value with
            | [] => None
            | _ => Some (p + 2 + nlen target + nlen sep, p + 2 + nlen target + nlen sep + nlen value)
            end))]
  end.

(* ---- the whole document ---- *)
Definition before_len_e (l : list (item * bytes)) : N := nlen (flat_map (fun p => r_item (fst p) ++ snd p) l).
Definition pairs_len_e (l : list (bytes * item)) : N := nlen (flat_map (fun p => fst p ++ r_item (snd p)) l).

Fixpoint ebefore_at (p : N) (l : list (item * bytes)) : list (N * item) :=
  match l with [] => [] | (i, w) :: r => eitems_at p i ++ ebefore_at (p + nlen (r_item i) + nlen w) r end.
Fixpoint eafter_at (p : N) (l : list (bytes * item)) : list (N * item) :=
  match l with [] => [] | (w, i) :: r => eitems_at (p + nlen w) i ++ eafter_at (p + nlen w + nlen (r_item i)) r end.

Definition dtd_offset (c : doc) : N := nlen (d_ws0 c) + before_len_e (d_before c).
Definition decls_offset (c : doc) : N :=
  dtd_offset c + 9 + nlen (t_ws1 (d_dtd c)) + nlen (t_name (d_dtd c)) + nlen (t_ws2 (d_dtd c)) + 1.
Definition evtable (c : doc) : list (bytes * (N * evalue)) := vtable_at (decls_offset c) (t_decls (d_dtd c)).
Definition mid_offset (c : doc) : N := dtd_offset c + nlen (r_dtd (d_dtd c)).
Definition eroot_offset (c : doc) : N := mid_offset c + pairs_len_e (d_mid c) + nlen (d_ws1 c).

Definition edoc_items_at (c : doc) : list (N * item) :=
  ebefore_at (nlen (d_ws0 c)) (d_before c) ++ eafter_at (mid_offset c) (d_mid c)
  ++ eitems_at (eroot_offset c) (d_root c)
  ++ eafter_at (eroot_offset c + nlen (r_item (d_root c))) (d_after c).

(* the nodes below the Root, in document order *)
Definition enodes (c : doc) : list ((N * N) * eshape) := flat_map (enode_of (evtable c)) (edoc_items_at c).
(* (1) their ranges *)
Definition espans (c : doc) : list (N * N) := map fst (enodes c).
(* (2) what they hold *)
Definition eshapes (c : doc) : list eshape := map snd (enodes c).

(* ---- the attributes of all elements, in document order ---- *)
(* an attribute value is stored as a slice of the input iff it is written without '&', TAB, LF, CR *)
Definition eneeds_norm (V : bytes) : bool :=
  existsb (fun x => (x =? 38) || (x =? 9) || (x =? 10) || (x =? 13)) V.

Record easpan := {
  eas_range : N * N;      (* first byte of the name .. closing quote inclusive *)
  eas_qname : N * N;      (* the name *)
  eas_value : N * N;      (* the raw text between the quotes (references not decoded) *)
  eas_borrowed : bool     (* the stored value is Borrowed, the slice [eas_value]; otherwise Owned *)
}.

Definition easpan_at (q : N) (a : attr) : easpan :=
  let start := q + nlen (a_ws a) in
  let ne := start + nlen (a_name a) in
  let quote := ne + nlen (a_ws1 a) + 1 + nlen (a_ws2 a) in
  let v := nlen (r_epieces (a_value a)) in
  {| eas_range := (start, quote + 1 + v + 1);
     eas_qname := (start, ne);
     eas_value := (quote + 1, quote + 1 + v);
     eas_borrowed := negb (eneeds_norm (r_epieces (a_value a))) |}.

Fixpoint easpans_at (q : N) (attrs : list attr) : list easpan :=
  match attrs with [] => [] | a :: r => easpan_at q a :: easpans_at (q + nlen (r_attr a)) r end.

Definition eitem_aspans (x : N * item) : list easpan :=
  match snd x with
  | IElem name attrs _ _ => easpans_at (fst x + 1 + nlen name) attrs
  | _ => []
  end.
Definition eattr_spans (c : doc) : list easpan := flat_map eitem_aspans (edoc_items_at c).
