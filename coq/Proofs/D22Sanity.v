(* Proofs/D22Sanity.v -- the repaired consume_decl (a '>' inside a quoted literal of a skipped
   <!ELEMENT / <!ATTLIST / <!NOTATION declaration does not end the declaration), on concrete
   inputs by vm_compute. *)
From Coq Require Import Ascii String.
From Coq Require Import List NArith Bool.
Import ListNotations.
From RX Require Import Generated.
From RX.Model Require Import Base CharClass Stream Tokenizer Doc Builder Parse.
Open Scope N_scope.

Definition optd : options := {| allow_dtd := true; nodes_limit := 1000 |}.
Definition is_ok {A} (r : res A) : bool := match r with Ok _ => true | _ => false end.

(* a '>' inside a system literal / a default attribute value *)
Example notation_gt : is_ok (parse (b "<!DOCTYPE a [<!NOTATION n SYSTEM '>'>]><a/>") optd) = true.
Proof. vm_compute. reflexivity. Qed.
Example attlist_gt : is_ok (parse (b "<!DOCTYPE a [<!ATTLIST a b CDATA "">"">]><a/>") optd) = true.
Proof. vm_compute. reflexivity. Qed.
(* the other quote inside a literal *)
Example attlist_other_quote : is_ok (parse (b "<!DOCTYPE a [<!ATTLIST a b CDATA ""'>"">]><a/>") optd) = true.
Proof. vm_compute. reflexivity. Qed.

(* the entity declaration hidden inside a literal is not processed any more *)
Example hidden_entity :
  match parse (b "<!DOCTYPE a [<!NOTATION n SYSTEM '><!ENTITY e ""evil""><!ELEMENT x '>]><a>&e;</a>") optd with
  | Err (UnknownEntityReference n _) => bytes_eqb n (b "e")
  | _ => false
  end = true.
Proof. vm_compute. reflexivity. Qed.

(* an unbalanced quote: UnknownToken, reported at the start of the DOCTYPE declaration *)
Example unbalanced :
  parse (b "<!DOCTYPE a [<!ELEMENT a (b')>]><a/>") optd = Err (UnknownToken (1, 1)).
Proof. vm_compute. reflexivity. Qed.
Example unbalanced_eof :
  parse (b "<!DOCTYPE a [<!ELEMENT a (b)") optd = Err (UnknownToken (1, 1)).
Proof. vm_compute. reflexivity. Qed.
