(* Proofs/NonVacuity_C20.v -- non-vacuity of the hypothesis of readers_schedule_independent: two readers of the
   document of NonVacuity_Doc.v (node count; parent of node 2, first child of node 2), an interleaved schedule. *)
From Coq Require Import List Arith NArith.
Import ListNotations.
From RX.Model Require Import Base Doc Api.
From RX.Proofs Require Import Readers NonVacuity_Doc.

Definition rd0 : list (rop (res (option N))) := [fun d => Ok (Some (len_N (d_nodes d)))].
Definition rd1 : list (rop (res (option N))) := [fun d => parent d 2; fun d => first_child d 2].
Example nv_readers_schedule_independent :
  nth_error [rd0; rd1] 1%nat = Some rd1 /\
  outputs_of _ 1%nat (run_schedule _ d0 [rd0; rd1] [1; 0; 1; 0]%nat) = [Ok (Some 1%N); Ok (Some 3%N)].
Proof. split; [reflexivity|]. vm_compute. reflexivity. Qed.
Example nv_readers_schedule_independent_applied :
  exists k, outputs_of _ 1%nat (run_schedule _ d0 [rd0; rd1] [1; 0; 1; 0]%nat) = map (fun o => o d0) (firstn k rd1).
Proof. exact (readers_schedule_independent _ d0 [1; 0; 1; 0]%nat [rd0; rd1] 1%nat rd1 (proj1 nv_readers_schedule_independent)). Qed.
