(* Proofs/CstFullS5Sanity.v -- the capstone fragment, stage S5 (Spec/CstFullS5.v, the prolog): the model on sample
   documents, by computation.  Every new construct is accepted with view = sem; what the
   well-formedness conditions exclude is rejected by the model. *)
From Coq Require Import Ascii String.
From Coq Require Import List NArith Bool.
Import ListNotations.
From RX.Model Require Import Base Stream Tokenizer Doc Builder Parse.
From RX.Spec Require CstNs CstU.
From RX.Spec Require Import CstFull CstFullS5.
From RX.Proofs Require Import CstNsView.
Open Scope N_scope.

Definition vnode_eq_dec : forall x y : CstNs.vnode, {x = y} + {x <> y}.
Proof. repeat decide equality. Defined.

Definition lay ws w1 w2 q := {| CstNs.l_ws := b ws; CstNs.l_ws1 := b w1; CstNs.l_ws2 := b w2; CstNs.l_quote := q |}.
Definition layb ws w1 w2 q := {| CstNs.l_ws := ws; CstNs.l_ws1 := w1; CstNs.l_ws2 := w2; CstNs.l_quote := q |}.
Definition qn (p l : scalars) : qname := {| q_prefix := p; q_local := l |}.
Definition at_ p l v : entry epieces := EAttr (lay " " "" "" 34) (qn p l) v.
Definition dc p u : entry epieces := EDecl (lay " " " " "" 39) p u.
Definition el p l es cs : item epieces := IElem (qn p l) es [] (Some (cs, [])).
Definition em p l es : item epieces := IElem (qn p l) es (b " ") None.
Definition tx (r : list E.epiece) : item epieces := @IText epieces r.
Definition lit cs := E.EP (T.PLit cs).
Definition decl n v : E.edecl :=
  {| E.e_ws0 := [13; 10]; E.e_ws1 := [32]; E.e_name := n; E.e_ws2 := [13]; E.e_quote := 34; E.e_value := E.EText v; E.e_ws3 := [13] |}.
Definition ps ws w1 w2 q v : pseudo := {| p_ws := ws; p_ws1 := w1; p_ws2 := w2; p_quote := q; p_value := v |}.

Definition opt_dtd := {| allow_dtd := true; nodes_limit := 1000 |}.
Definition opt_nodtd := {| allow_dtd := false; nodes_limit := 1000 |}.

Definition check_with (o : options) (c : S5.doc) : bool * bool * bool :=
  (S5.wf_doc c, valid_utf8_b (S5.render c),
   match parse (S5.render c) o with
   | Ok d => match view (S5.render c) d with
             | Some v => if list_eq_dec vnode_eq_dec v (S5.sem c) then true else false
             | None => false end
   | _ => false
   end).
Definition check := check_with opt_dtd.
Definition rejected (c : S5.doc) : bool * bool :=
  (S5.wf_doc c, match parse (S5.render c) opt_dtd with Err _ => true | _ => false end).
Definition raw_rejected (s : string) : bool :=
  match parse (b s) opt_dtd with Err _ => true | _ => false end.
Definition raw_accepted (s : string) : bool :=
  match parse (b s) opt_dtd with Ok _ => true | _ => false end.

Definition na := 21517. Definition eacute := 233.
Definition cr := 13.

(* ------------------------------------------------------------------------------------------ *)
(* everything at once                                                                         *)
(* ------------------------------------------------------------------------------------------ *)
Definition xd_full : xmldecl :=
  {| xd_version := ps [32; cr] [cr] [9] 39 (b "1.0");
     xd_encoding := Some (ps [10] [] [] 34 (b "UTF-8 & 'anything' > goes"));          (* (L) *)
     xd_standalone := Some (ps [cr; 10] [32] [] 39 [eacute]);                         (* (L) *)
     xd_ws := [cr; 32] |}.

Definition subset1 : subset :=
  {| u_decls :=
       [ SMisc [10] (IComment (b " in the subset "));
         SParam [10] [32] [cr] (b "u") [32] (PLiteral 39 (b "a <b> & %c; ""d""")) [cr];        (* the parameter entity u: binds nothing *)
         SParam [10] [32] [32] [na] [32] (PExternal (XSystem [32] 34 (b "pe.ent"))) [];
         SExternal [10] [9] (b "u") [32] (XPublic [cr] 39 (b "-//X//Y") [10] 34 (b "u'.ent")) None [32];   (* the external entity u: binds nothing *)
         SExternal [10] [32] (b "pic") [32] (XSystem [32] 34 (b "p>.gif")) (Some ([cr], [9], b "gif")) [];
         SEntity (decl (b "u") [lit (b "urn:"); E.ERef [na]]);                                (* &u; = "urn:&U+540D;" *)
         SMarkup [10] MElement (b " r (#PCDATA|c)*");
         SMarkup [] MAttlist (b " r a CDATA ""<&'"" xmlns:p CDATA #FIXED 'urn:x'");
         SMarkup [cr] MNotation (b " gif PUBLIC ""image/gif""");
         SMarkup [10] MNotation (b " gt SYSTEM '>""' ""]>'""");                                  (* '>' and the other quote inside a literal *)
         SMarkup [32] MElement [];                                                               (* (L) <!ELEMENT> *)
         SEntity (decl [na] [lit [na; cr]]);
         SMisc [10] (IPI (b "pi") [cr; 32] (b "in the subset"));
         SEntity (decl (b "u") [lit (b "ignored")]) ];
     u_ws3 := [cr; 10]; u_ws4 := [cr] |}.

Definition dt1 : doctype :=
  {| t_ws1 := [cr]; t_name := [na]; t_ws2 := [32; cr];
     t_ext := Some (XPublic [32] 34 (b "-//A//B 'C'//EN") [cr] 39 (b "http://x/""r"".dtd"), [10]);
     t_subset := Some subset1 |}.

Definition root1 : item epieces :=
  IElem (qn (b "p") [na]) [@EDecl epieces (layb [cr] [cr] [cr] 39) (b "p") [E.ERef (b "u")];
                           @EAttr epieces (layb [cr; 10] [] [32] 34) (qn [] (b "a")) [E.ERef [na]; lit (b "x")]] [cr]
        (Some ([ tx [E.ERef (b "u"); lit [cr; 10]];
                 IPI (b "t") [cr] (b "v");
                 IElem (qn [] (b "c")) [] [cr] None ], [cr; 32])).

Definition ex1 : S5.doc :=
  {| S5.x_bom := true; S5.x_decl := Some xd_full;
     S5.x_dtd := Some {| S5.g_ws0 := [cr; 10]; S5.g_before := [(IComment (b "before"), [cr]); (IPI (b "p") [] [], [])]; S5.g_dtd := dt1 |};
     S5.x_main := {| d_before := [(IComment [128512], [cr])]; d_ws0 := [cr; 10]; d_root := root1;
                     d_after := [([cr], IComment (b "after"))]; d_ws_end := [cr; 10] |} |}.
Eval vm_compute in (check ex1).
Eval vm_compute in (S5.sem ex1).
Eval vm_compute in (match parse (S5.render ex1) opt_nodtd with Err DtdDetected => true | _ => false end).

(* ------------------------------------------------------------------------------------------ *)
(* the shapes of the DOCTYPE                                                                  *)
(* ------------------------------------------------------------------------------------------ *)
Definition mk (bom : bool) (xd : option xmldecl) (g : option S5.dtd_part) (root : item epieces) : S5.doc :=
  {| S5.x_bom := bom; S5.x_decl := xd; S5.x_dtd := g;
     S5.x_main := {| d_before := []; d_ws0 := []; d_root := root; d_after := []; d_ws_end := [] |} |}.
Definition dtd_of (t : doctype) : option S5.dtd_part := Some {| S5.g_ws0 := []; S5.g_before := []; S5.g_dtd := t |}.
Definition r0 : item epieces := em [] (b "r") [].
Definition xd_min : xmldecl := {| xd_version := ps [32] [] [] 34 (b "1.0"); xd_encoding := None; xd_standalone := None; xd_ws := [] |}.

Definition ex_bare := mk false None (dtd_of {| t_ws1 := [32]; t_name := b "r"; t_ws2 := []; t_ext := None; t_subset := None |}) r0.   (* <!DOCTYPE r> *)
Definition ex_sys := mk false (Some xd_min)
  (dtd_of {| t_ws1 := [32]; t_name := b "r"; t_ws2 := [32]; t_ext := Some (XSystem [32] 39 (b "r.dtd"), []); t_subset := None |}) r0.
Definition ex_sys_sub := mk true None
  (dtd_of {| t_ws1 := [32]; t_name := b "r"; t_ws2 := [cr]; t_ext := Some (XSystem [32] 39 (b "r.dtd"), []);
             t_subset := Some {| u_decls := []; u_ws3 := []; u_ws4 := [] |} |}) r0.
Definition ex_empty_sub := mk false None
  (dtd_of {| t_ws1 := [32]; t_name := b "r"; t_ws2 := []; t_ext := None;
             t_subset := Some {| u_decls := []; u_ws3 := [cr]; u_ws4 := [] |} |}) r0.
Eval vm_compute in (map check [ex_bare; ex_sys; ex_sys_sub; ex_empty_sub]).

(* no DOCTYPE: both values of allow_dtd *)
Definition ex_nodtd1 := mk true (Some xd_min) None r0.
Definition ex_nodtd2 := mk false (Some {| xd_version := ps [cr] [] [] 39 (b "1.1"); xd_encoding := None;
                                          xd_standalone := Some (ps [32] [] [] 34 (b "maybe")); xd_ws := [] |}) None r0.
Definition ex_nodtd3 := mk true None None (el [] (b "r") [] [tx [lit (b "t"); E.EP (T.PPredef T.Amp)]]).
Eval vm_compute in (map (check_with opt_nodtd) [ex_nodtd1; ex_nodtd2; ex_nodtd3]).
Eval vm_compute in (map (check_with opt_dtd) [ex_nodtd1; ex_nodtd2; ex_nodtd3]).

(* S3 inside S5 *)
Definition s3doc : S3.doc :=
  {| S3.x_ws0 := []; S3.x_before := [(IComment (b "c"), [10])];
     S3.x_dtd := {| E.t_ws1 := [32]; E.t_name := b "r"; E.t_ws2 := [32]; E.t_decls := [decl (b "e") [lit (b "v")]]; E.t_ws3 := [10]; E.t_ws4 := [] |};
     S3.x_main := {| d_before := []; d_ws0 := [10]; d_root := el [] (b "r") [] [tx [E.ERef (b "e")]]; d_after := []; d_ws_end := [] |} |}.
Eval vm_compute in (check (S5.of_s3 s3doc),
                    if list_eq_dec N.eq_dec (S5.render (S5.of_s3 s3doc)) (S3.render s3doc) then true else false,
                    if list_eq_dec vnode_eq_dec (S5.sem (S5.of_s3 s3doc)) (S3.sem s3doc) then true else false).

(* ------------------------------------------------------------------------------------------ *)
(* excluded by the well-formedness conditions, and rejected by the model                       *)
(* ------------------------------------------------------------------------------------------ *)
Definition with_sub (ds : list sdecl) (root : item epieces) : S5.doc :=
  mk false None (dtd_of {| t_ws1 := [32]; t_name := b "r"; t_ws2 := []; t_ext := None;
                           t_subset := Some {| u_decls := ds; u_ws3 := []; u_ws4 := [] |} |}) root.
Definition ref_root n : item epieces := el [] (b "r") [] [tx [E.ERef n]].

Definition bad_decl_lt := mk false (Some {| xd_version := ps [32] [] [] 34 (b "1<0"); xd_encoding := None; xd_standalone := None; xd_ws := [] |}) None r0.
Definition bad_decl_quote := mk false (Some {| xd_version := ps [32] [] [] 34 (b "1""0"); xd_encoding := None; xd_standalone := None; xd_ws := [] |}) None r0.
Definition bad_decl_nows := mk false (Some {| xd_version := ps [32] [] [] 34 (b "1.0"); xd_encoding := Some (ps [] [] [] 34 (b "x"));
                                              xd_standalone := None; xd_ws := [] |}) None r0.
Definition bad_markup_gt := with_sub [SMarkup [] MElement (b " r (a>b)")] r0.                  (* '>' outside a quoted literal of a skipped declaration *)
Definition bad_markup_quote := with_sub [SMarkup [] MAttlist (b " r a CDATA "">'")] r0.        (* a literal that is not closed (by the same quote) *)
Definition bad_pe_only := with_sub [SParam [] [32] [32] (b "e") [32] (PLiteral 34 (b "v")) []] (ref_root (b "e")).      (* a parameter entity is no general entity *)
Definition bad_ext_only := with_sub [SExternal [] [32] (b "e") [32] (XSystem [32] 34 (b "e.ent")) None []] (ref_root (b "e")).
Definition bad_pe_ctrl := with_sub [SParam [] [32] [32] (b "e") [32] (PLiteral 34 [1]) []] r0.   (* not a Char *)
Definition bad_sys_quote := with_sub [SExternal [] [32] (b "e") [32] (XSystem [32] 34 (b "e"".ent")) None []] r0.
Definition bad_ndata_nows := with_sub [SExternal [] [32] (b "e") [32] (XSystem [32] 34 (b "e")) (Some ([32], [], b "n")) []] r0.
Definition bad_ext_nows := mk false None (dtd_of {| t_ws1 := [32]; t_name := b "r"; t_ws2 := [];
                                                    t_ext := Some (XSystem [32] 39 (b "r.dtd"), []); t_subset := None |}) r0.   (* <!DOCTYPE rSYSTEM ...> *)
Definition bad_pi_xml := with_sub [SMisc [] (IPI (b "xml") [32] (b "version='1.0'"))] r0.
Definition bad_noref := mk false None None (ref_root (b "e")).                                  (* no DOCTYPE, a reference *)
Eval vm_compute in (map rejected [bad_decl_lt; bad_decl_quote; bad_decl_nows; bad_markup_gt; bad_markup_quote; bad_pe_only; bad_ext_only;
                                  bad_pe_ctrl; bad_sys_quote; bad_ndata_nows; bad_ext_nows; bad_pi_xml; bad_noref]).

(* not expressible in the syntax of Spec/CstFullS5.v, rejected by the model *)
Local Open Scope string_scope.
Eval vm_compute in (map raw_rejected
  [ " <?xml version='1.0'?><r/>";                           (* a misplaced XML declaration *)
    "<!--c--><?xml version='1.0'?><r/>";
    "<?xml version='1.0'?><?xml version='1.0'?><r/>";
    "<?xml encoding='x' version='1.0'?><r/>";               (* the fixed order *)
    "<?xml version='1.0' standalone='yes' encoding='x'?><r/>";
    "<?xml version='1.0'encoding='x'?><r/>";                (* S between the pseudo-attributes *)
    "<!DOCTYPE r><!DOCTYPE r><r/>";                         (* two DOCTYPEs *)
    "<r/><!DOCTYPE r>";                                     (* a DOCTYPE after the root *)
    "<r><!DOCTYPE r></r>";
    "<!DOCTYPE r [<!ENTITY % p 'x'> %p;]><r/>";             (* a parameter-entity reference in the subset *)
    "<!DOCTYPE r [<!ENTITY % p SYSTEM 'x' NDATA n>]><r/>";  (* NDATA on a parameter entity *)
    "<!DOCTYPE r PUBLIC 'p'><r/>";                          (* PUBLIC needs both literals *)
    "<!DOCTYPE r [<!ENTITY e PUBLIC 'p'>]><r/>";
    "<!DOCTYPE r [<!ENTITY e 'a<b'>]><r a='&e;'/>";         (* '<' in a literal that is read into a value *)
    "<!DOCTYPE r [<r/>]><r/>";                              (* an element in the subset *)
    "<!DOCTYPE r [<!ELEMENT r ANY]><r/>";                   (* a declaration that is not closed *)
    "<!DOCTYPE r [<![CDATA[x]]>]><r/>";
    "<!DOCTYPE r [] ]><r/>";
    "<!DOCTYPE [<!ENTITY e 'v'>]><r/>";                     (* no name *)
    "<!DOCTYPE r SYSTEM><r/>";
    "<!DOCTYPE r [<!ENTITY e SYSTEM 'x' NDATA>]><r/>" ]).
(* (L) accepted by the crate although not XML; outside the fragment *)
Eval vm_compute in (map raw_accepted
  [ "<?xml?><r/>";                                          (* a PI named xml *)
    "<!DOCTYPE r [<!ELEMENTr>]><r/>" ]).

(* '>' inside a quoted literal of a skipped declaration does not end it *)
Example markup_gt_in_literal :
  check (with_sub [SMarkup [] MAttlist (b " r a CDATA "">"""); SMarkup [] MNotation (b " n SYSTEM '>'")] r0) = (true, true, true).
Proof. vm_compute. reflexivity. Qed.
Example markup_bad : map rejected [bad_markup_gt; bad_markup_quote] = [(false, true); (false, true)].
Proof. vm_compute. reflexivity. Qed.
