(* Proofs/CstFullS7Misc.v -- the capstone fragment, stage S7 (Spec/CstFullS7.v): comments and processing instructions at
   the top level (outside the root element) with the conditions of Spec/CstFullS7.v: the lexer post-conditions of
   Proofs/CstFullS7Lex.v at the whole input, the builder steps (Proofs/CstFullS5Items.v [evf_comment] / [evf_pi]), lists of
   white space / comment / PI pairs and the misc loop (Proofs/CstFullS5Doc.v), and the head of such a list (neither a
   byte order mark nor an XML declaration: Proofs/CstFullS5.v [head_pairs]).  Adapted copies. *)
From Coq Require Import Ascii String.
From Coq Require Import List NArith PeanoNat Bool Lia ZifyBool ZifyN ZifyNat.
Import ListNotations.
From RX Require Import Generated.
From RX.Model Require Import Base CharClass Stream Tokenizer Doc Builder Parse.
From RX.Spec Require Cst Scope CstNs CstU Chars.
From RX.Spec Require Import CstFull CstFullS5 CstFullS7.
From RX.Proofs Require Import Tactics CstLex CstBuild CstNsLex CstNsView CstNsBuild CstULex CstFullLex CstFullBuild CstFullTree.
From RX.Proofs Require Import CstFullS5Ws CstFullDoc.
From RX.Proofs Require CstItems CstNsItems CstNsDoc CstUDoc CstDoc CstFullS3 CstFullS5Items CstFullS5Dtd CstFullS7Lex CstEntCLex.
Open Scope N_scope.

Ltac clia := repeat match goal with H : @eq bool _ true |- _ => clear H end; lia.
Module SL := CstFullS7Lex.
Notation M0 := CstFullS3.M0.
Notation dens0 := (CstFullTree.dens epieces M0).

Lemma st_top text p r : CstEntCLex.st (tlen text) [] p r = CstLex.st text p r.
Proof. unfold CstEntCLex.st, CstLex.st. rewrite app_nil_r. reflexivity. Qed.

Lemma WV_top text p r : CstULex.WV text p r -> SL.WV text (tlen text) [] p r.
Proof. intros H. split; [rewrite app_nil_r; exact H|apply H]. Qed.

Lemma misc7_valid (i : item epieces) : wf_misc7 i = true -> U8.Valid (r_item i).
Proof. destruct i; try discriminate; intros H; [apply SL.comment7_valid|apply SL.pi7_valid]; exact H. Qed.

Lemma misc7_is (i : item epieces) : wf_misc7 i = true -> is_misc epieces i = true.
Proof. destruct i; try discriminate; reflexivity. Qed.

Section Top.
Variable text : bytes.
Variable D : list Scope.binding.
Hypothesis HD : forall l, NoDup l -> incl l D -> N.of_nat (length l) <= 65535.

Notation ev := (tok_ev text).
Notation st := (CstLex.st text).
Notation W := (CstLex.W text).
Notation WV := (CstULex.WV text).
Notation CIn := (CstNsBuild.CIn text D).
Notation kmn := (CstNsBuild.kmn text).
Notation node_room := CstNsItems.node_room.
Notation node_room_room := CstFullS5Items.node_room_room.
Notation Stepn_nodes_len := CstFullS5Items.Stepn_nodes_len.
Notation Forall2_len_N := CstFullS5Items.Forall2_len_N.
Notation Stepn_opt := CstFullS5Items.Stepn_opt.
Notation kmn_Forall2_ext := (CstFullS5Items.kmn_Forall2_ext text D HD).
Notation pairs := (CstFullDoc.pairs epieces).

Lemma lex_comment7_top (C : Type) (evc : Tokenizer.token -> C -> res C) p bs post c :
  WV p ([60; 33; 45; 45] ++ utf8s bs ++ [45; 45; 62] ++ post) -> SL.comment_ok_u bs ->
  parse_comment text C evc (st p ([60; 33; 45; 45] ++ utf8s bs ++ [45; 45; 62] ++ post)) c =
  let! c' := evc (TComment (sl (p + 4) (p + 4 + blen (utf8s bs))) (p, p + 4 + blen (utf8s bs) + 3)) c in
  Ok (st (p + 4 + blen (utf8s bs) + 3) post, c').
Proof.
  intros HW Hok. rewrite <- !st_top. apply (SL.lex_comment_u text (tlen text) [] C evc p bs post c (WV_top _ _ _ HW) Hok).
Qed.

Lemma lex_pi7_top (C : Type) (evc : Tokenizer.token -> C -> res C) p target sep value post c :
  WV p ([60; 63] ++ utf8s target ++ sep ++ utf8s value ++ [63; 62] ++ post) -> SL.pi_ok_u target sep value ->
  let e := p + 2 + blen (utf8s target) + blen sep + blen (utf8s value) in
  parse_pi text C evc (st p ([60; 63] ++ utf8s target ++ sep ++ utf8s value ++ [63; 62] ++ post)) c =
  let! c' := evc (TPI (sl (p + 2) (p + 2 + blen (utf8s target)))
                      (match value with [] => None | _ => Some (sl (p + 2 + blen (utf8s target) + blen sep) e) end)
                      (p, e + 2)) c in
  Ok (st (e + 2) post, c').
Proof.
  intros HW Hok. cbv zeta. rewrite <- !st_top. apply (SL.lex_pi_u text (tlen text) [] C evc p target sep value post c (WV_top _ _ _ HW) Hok).
Qed.

Lemma evf_comment7 inh bs p post c : wf_comment7 bs = true ->
  WV p (r_item (@IComment epieces bs) ++ post) -> CIn inh c -> room c ->
  exists c' K,
    parse_comment text context ev (st p (r_item (@IComment epieces bs) ++ post)) c =
    Ok (st (p + blen (r_item (@IComment epieces bs))) post, c') /\
    Stepn c c' K [] /\ CIn inh c' /\ c_after_text c' = [] /\ c_tag_name c' = c_tag_name c /\
    Forall2 (kmn (c_doc c')) K (NT.tag_list inh (c_parent_id c) (len_N (d_nodes (c_doc c))) (den M0 (IComment bs))) /\
    d_ns_tree (c_doc c') = d_ns_tree (c_doc c).
Proof.
  intros Hwf HW I R. apply SL.wf_comment7_ok in Hwf.
  cbn [r_item Cst.r_item] in *. rewrite <- !app_assoc in *.
  rewrite lex_comment7_top by assumption.
  destruct (tokn_comment text D HD inh (sl (p + 4) (p + 4 + blen (utf8s bs))) (p, p + 4 + blen (utf8s bs) + 3) c I R)
    as (c' & E & S0 & I' & A & T & Tr).
  rewrite E. cbn [bind].
  exists c', [(Some (c_parent_id c), KComment (sl (p + 4) (p + 4 + blen (utf8s bs))))].
  split.
  - f_equal. f_equal. f_equal. rewrite !blen_app. change (blen [60; 33; 45; 45]) with 4. change (blen [45; 45; 62]) with 3. lia.
  - split; [exact S0|]. split; [exact I'|]. split; [exact A|]. split; [exact T|]. split; [|exact Tr].
    cbn [den NT.tag_list NT.tag app]. constructor; [|constructor]. split; [reflexivity|]. cbn [snd].
    pose proof (W_app _ _ _ _ (WV_W _ _ _ HW)) as HW1. change (blen [60; 33; 45; 45]) with 4 in HW1.
    apply (W_slice _ _ _ _ HW1).
Qed.

Lemma evf_pi7 inh t s v p post c : wf_pi7 t s v = true ->
  WV p (r_item (@IPI epieces t s v) ++ post) -> CIn inh c -> room c ->
  exists c' K,
    parse_pi text context ev (st p (r_item (@IPI epieces t s v) ++ post)) c =
    Ok (st (p + blen (r_item (@IPI epieces t s v))) post, c') /\
    Stepn c c' K [] /\ CIn inh c' /\ c_after_text c' = [] /\ c_tag_name c' = c_tag_name c /\
    Forall2 (kmn (c_doc c')) K (NT.tag_list inh (c_parent_id c) (len_N (d_nodes (c_doc c))) (den M0 (IPI t s v))) /\
    d_ns_tree (c_doc c') = d_ns_tree (c_doc c).
Proof.
  intros Hwf HW I R. apply SL.wf_pi7_ok in Hwf.
  cbn [r_item Cst.r_item] in *. rewrite <- !app_assoc in *.
  rewrite lex_pi7_top by assumption. cbv zeta.
  set (vs := match v with [] => None | _ :: _ => Some (sl (p + 2 + blen (utf8s t) + blen s) (p + 2 + blen (utf8s t) + blen s + blen (utf8s v))) end).
  destruct (tokn_pi text D HD inh (sl (p + 2) (p + 2 + blen (utf8s t))) vs (p, p + 2 + blen (utf8s t) + blen s + blen (utf8s v) + 2) c I R)
    as (c' & E & S0 & I' & A & T & Tr).
  rewrite E. cbn [bind].
  exists c', [(Some (c_parent_id c), KPI (sl (p + 2) (p + 2 + blen (utf8s t))) vs)].
  split.
  - f_equal. f_equal. f_equal. rewrite !blen_app. change (blen [60; 63]) with 2. change (blen [63; 62]) with 2. lia.
  - split; [exact S0|]. split; [exact I'|]. split; [exact A|]. split; [exact T|]. split; [|exact Tr].
    cbn [den NT.tag_list NT.tag app]. constructor; [|constructor]. split; [reflexivity|]. cbn [snd].
    pose proof (W_app _ _ _ _ (WV_W _ _ _ HW)) as HW1. change (blen [60; 63]) with 2 in HW1.
    split; [apply (W_slice _ _ _ _ HW1)|].
    pose proof (W_app _ _ _ _ HW1) as HW2. pose proof (W_app _ _ _ _ HW2) as HW3.
    unfold vs. destruct v as [|x v]; [exact Logic.I|].
    assert (Hne : utf8s (x :: v) <> []).
    { rewrite utf8s_cons. pose proof (utf8_len x). destruct (utf8 x); [unfold blen in *; cbn in *; lia|discriminate]. }
    destruct (utf8s (x :: v)) as [|y0 yr] eqn:Ey; [congruence|]. rewrite <- Ey in *. apply (W_slice _ _ _ _ HW3).
Qed.

(* ---- lists of (white space, comment / PI) ---- *)
Definition wf_pairs7 (l : pairs) : bool :=
  forallb (fun x => wf_s (fst x) && is_misc epieces (snd x) && wf_misc7 (snd x)) l.

Lemma pairs_valid7 l : wf_pairs7 l = true -> U8.Valid (r_pairs l).
Proof.
  induction l as [|[w i] r IH]; intros H; [constructor|]. cbn [wf_pairs7 forallb fst snd] in H.
  rewrite !andb_true_iff in H. destruct H as [[[H1 H2] H3] H4]. cbn [r_pairs flat_map fst snd].
  repeat apply U8.Valid_app; [apply s_valid; exact H1|apply misc7_valid; exact H3|apply IH; exact H4].
Qed.

Lemma pairs_len7 l : wf_pairs7 l = true -> (length l <= length (r_pairs l))%nat.
Proof.
  clear HD.
  induction l as [|[w i] r IH]; intros H; [cbn; lia|]. cbn [wf_pairs7 forallb fst snd] in H.
  rewrite !andb_true_iff in H. destruct H as [[[H1 H2] H3] H4]. cbn [r_pairs flat_map fst snd length].
  rewrite !app_length. specialize (IH H4). unfold r_pairs in IH.
  destruct (misc_starts epieces i H2) as [l0 El0]. rewrite El0. cbn [length]. clear - IH. lia.
Qed.

Lemma pairs_dens7 (l : pairs) : wf_pairs7 l = true ->
  NT.nattrs_items (dens0 (map snd l)) = O /\ NT.nsizes (dens0 (map snd l)) = N.of_nat (length l) /\
  forallb (is_misc epieces) (map snd l) = true.
Proof.
  clear HD.
  induction l as [|[w i] r IH]; intros H; [repeat split|]. cbn [wf_pairs7 forallb fst snd] in H.
  rewrite !andb_true_iff in H. destruct H as [[[H1 H2] H3] H4]. destruct (IH H4) as (I3 & I4 & I5).
  destruct (misc_den epieces M0 i H2) as (x & Ex & M1 & M2 & _).
  cbn [map snd CstFullTree.dens forallb]. rewrite Ex. cbn [app NT.nattrs_items length].
  rewrite I3, M2, NT.nsizes_cons, I4, M1, H2, I5. repeat split; try reflexivity. lia.
Qed.

Lemma regroup_wf7 : forall (l : list (item epieces * bytes)) w0, wf_s w0 = true ->
  forallb (fun p => wf_misc7 (fst p) && wf_s (snd p)) l = true ->
  wf_pairs7 (regroup w0 l) = true /\ wf_s (last_ws w0 l) = true.
Proof.
  induction l as [|[i w] r IH]; intros w0 H0 H; cbn [regroup last_ws wf_pairs7 forallb fst snd] in *; [auto|].
  rewrite !andb_true_iff in H. destruct H as [[H1 H2] H3].
  destruct (IH w H2 H3) as [I1 I2]. split; [|exact I2].
  rewrite H0, (misc7_is i H1), H1. exact I1.
Qed.

Lemma after_wf7 (l : pairs) : forallb (fun p => wf_s (fst p) && wf_misc7 (snd p)) l = true -> wf_pairs7 l = true.
Proof.
  unfold wf_pairs7. apply forallb_imp. intros [w i]. cbn [fst snd]. rewrite !andb_true_iff. intros [H1 H2].
  rewrite (misc7_is i H2). auto.
Qed.

Lemma misc_loop_ok7 : forall (l : pairs) p wl rest c fuel,
  WV p (r_pairs l ++ wl ++ rest) -> wf_pairs7 l = true -> wf_s wl = true -> CstDoc.misc_stop rest ->
  (length l < fuel)%nat -> CIn [] c -> c_after_text c = [] -> node_room c (NT.nsizes (dens0 (map snd l))) ->
  exists c' K,
    parse_misc_loop text context ev fuel (st p (r_pairs l ++ wl ++ rest)) c =
    Ok (st (p + blen (r_pairs l) + blen wl) rest, c') /\
    Stepn c c' K [] /\ CIn [] c' /\ c_after_text c' = [] /\ d_ns_tree (c_doc c') = d_ns_tree (c_doc c) /\
    Forall2 (kmn (c_doc c')) K (NT.tag_list [] (c_parent_id c) (len_N (d_nodes (c_doc c))) (dens0 (map snd l))).
Proof.
  induction l as [|[w i] l IH]; intros p wl rest c fuel HW Hwf Hwl (Hs1 & Hs2 & Hs3) Hf I Hat NR.
  - cbn [r_pairs flat_map app map CstFullTree.dens NT.tag_list] in *. change (blen []) with 0. rewrite N.add_0_r.
    destruct fuel as [|fu]; [cbn in Hf; lia|]. cbn [parse_misc_loop].
    exists c, []. split; [|split; [apply Stepn_refl|split; [exact I|split; [exact Hat|split; [reflexivity|constructor]]]]].
    pose proof (WV_W _ _ _ HW) as HW0. rewrite at_end_st by exact HW0.
    destruct (wl ++ rest) as [|x0 l0] eqn:E0.
    + apply app_eq_nil in E0. destruct E0 as [-> ->]. change (blen []) with 0. rewrite N.add_0_r. reflexivity.
    + rewrite <- E0 in *. clear E0 x0 l0. cbv zeta.
      rewrite skip_spaces_st; [|exact HW0|apply s_spaces; exact Hwl|exact Hs1].
      pose proof (W_app _ _ _ _ HW0) as HW1.
      rewrite !starts_with_st by exact HW1.
      change (b "<!--") with [60; 33; 45; 45]. change (b "<?") with [60; 63]. rewrite Hs2, Hs3. reflexivity.
  - cbn [wf_pairs7 forallb fst snd] in Hwf. rewrite !andb_true_iff in Hwf. destruct Hwf as [[[H1 H2] H3] H4].
    cbn [r_pairs flat_map fst snd map CstFullTree.dens] in HW, NR |- *. fold (@r_pairs epieces l) in HW |- *.
    rewrite <- !app_assoc in HW |- *.
    rewrite nsizes_app in NR.
    cbn [length] in Hf. destruct fuel as [|fu]; [lia|]. cbn [parse_misc_loop].
    pose proof (WV_W _ _ _ HW) as HW0. rewrite at_end_st by exact HW0.
    destruct (misc_starts epieces i H2) as [l0 El0].
    replace (match w ++ r_item i ++ r_pairs l ++ wl ++ rest with [] => true | _ :: _ => false end) with false
      by (rewrite El0; destruct w; reflexivity).
    cbv zeta.
    rewrite skip_spaces_st; [|exact HW0|apply s_spaces; exact H1|rewrite El0; reflexivity].
    pose proof (WV_lit _ _ _ _ HW (s_lit _ H1)) as HW1. pose proof (WV_W _ _ _ HW1) as HW1'.
    pose proof (misc7_valid i H3) as Hvi.
    pose proof (WV_app _ _ _ _ HW1 Hvi) as HW2.
    destruct i as [? ? ? ?|?|bs|t s v]; try discriminate.
    + (* comment *)
      assert (R : room c).
      { apply (node_room_room _ _ NR). cbn [den]. rewrite nsizes_one. pose proof (NT.nsize_pos (CstNs.IComment (utf8s bs))). lia. }
      rewrite starts_with_st by exact HW1'. change (b "<!--") with [60; 33; 45; 45].
      replace (prefix_b [60; 33; 45; 45] (r_item (@IComment epieces bs) ++ r_pairs l ++ wl ++ rest)) with true
        by (cbn [r_item Cst.r_item]; rewrite <- !app_assoc; rewrite prefix_b_app_same; reflexivity).
      destruct (evf_comment7 [] bs (p + blen w) (r_pairs l ++ wl ++ rest) c H3 HW1 I R)
        as (c1 & K1 & E1 & S1 & I1 & A1 & _ & F1 & Tr1).
      rewrite E1. cbn [bind].
      pose proof (Stepn_nodes_len _ _ _ _ S1) as Ln1.
      rewrite (Forall2_len_N _ _ _ F1) in Ln1. unfold len_N at 3 in Ln1. rewrite NT.tag_list_len in Ln1.
      pose proof (Stepn_opt _ _ _ _ (proj1 S1)) as Lo1.
      destruct (IH _ wl rest c1 fu HW2 H4 Hwl (conj Hs1 (conj Hs2 Hs3)) ltac:(clia) I1 A1)
        as (c2 & K2 & E2 & S2 & I2 & A2 & Tr2 & F2).
      { unfold CstNsItems.node_room in *. rewrite Ln1, Lo1. clia. }
      rewrite E2. exists c2, (K1 ++ K2). split.
      { f_equal. f_equal. f_equal. rewrite !blen_app. clia. }
      split; [apply (Stepn_trans _ _ _ _ _ _ _ S1 S2)|]. split; [exact I2|]. split; [exact A2|].
      split; [rewrite Tr2, Tr1; reflexivity|].
      rewrite CstNsDoc.tag_list_app. apply Forall2_app.
      * apply (kmn_Forall2_ext (c_doc c1)); [apply (Step0n_DocExt _ _ _ _ (proj1 S2))|exact F1].
      * destruct S1 as (_ & P1 & _). rewrite P1, Ln1 in F2. exact F2.
    + (* processing instruction *)
      assert (R : room c).
      { apply (node_room_room _ _ NR). cbn [den]. rewrite nsizes_one. pose proof (NT.nsize_pos (CstNs.IPI (utf8s t) s (utf8s v))). lia. }
      rewrite !starts_with_st by exact HW1'. change (b "<!--") with [60; 33; 45; 45]. change (b "<?") with [60; 63].
      replace (prefix_b [60; 33; 45; 45] (r_item (@IPI epieces t s v) ++ r_pairs l ++ wl ++ rest)) with false
        by reflexivity.
      replace (prefix_b [60; 63] (r_item (@IPI epieces t s v) ++ r_pairs l ++ wl ++ rest)) with true
        by reflexivity.
      destruct (evf_pi7 [] t s v (p + blen w) (r_pairs l ++ wl ++ rest) c H3 HW1 I R)
        as (c1 & K1 & E1 & S1 & I1 & A1 & _ & F1 & Tr1).
      rewrite E1. cbn [bind].
      pose proof (Stepn_nodes_len _ _ _ _ S1) as Ln1.
      rewrite (Forall2_len_N _ _ _ F1) in Ln1. unfold len_N at 3 in Ln1. rewrite NT.tag_list_len in Ln1.
      pose proof (Stepn_opt _ _ _ _ (proj1 S1)) as Lo1.
      destruct (IH _ wl rest c1 fu HW2 H4 Hwl (conj Hs1 (conj Hs2 Hs3)) ltac:(clia) I1 A1)
        as (c2 & K2 & E2 & S2 & I2 & A2 & Tr2 & F2).
      { unfold CstNsItems.node_room in *. rewrite Ln1, Lo1. clia. }
      rewrite E2. exists c2, (K1 ++ K2). split.
      { f_equal. f_equal. f_equal. rewrite !blen_app. clia. }
      split; [apply (Stepn_trans _ _ _ _ _ _ _ S1 S2)|]. split; [exact I2|]. split; [exact A2|].
      split; [rewrite Tr2, Tr1; reflexivity|].
      rewrite CstNsDoc.tag_list_app. apply Forall2_app.
      * apply (kmn_Forall2_ext (c_doc c1)); [apply (Step0n_DocExt _ _ _ _ (proj1 S2))|exact F1].
      * destruct S1 as (_ & P1 & _). rewrite P1, Ln1 in F2. exact F2.
Qed.

End Top.


(* ---- the head of such a list ---- *)
Lemma space_not_name7 x : byte_is_space x = true -> Chars.xml_NameChar x = false /\ x < 128.
Proof.
  intros H. assert (E : x = 32 \/ x = 9 \/ x = 10 \/ x = 13) by (revert H; cls; lia).
  destruct E as [->|[->|[->| ->]]]; split; try reflexivity; vm_compute; reflexivity.
Qed.

Lemma decl_pi7 t s v rest : SL.pi_ok_u t s v ->
  CstDoc.decl_test ([60; 63] ++ utf8s t ++ s ++ utf8s v ++ [63; 62] ++ rest) = false.
Proof.
  intros Hok. pose proof (SL.pi_after_target_u _ _ _ rest Hok) as [Hst _].
  destruct Hok as (Hn & _ & _ & _ & Hx & _).
  change ([60; 63] ++ utf8s t ++ s ++ utf8s v ++ [63; 62] ++ rest) with (60 :: 63 :: (utf8s t ++ s ++ utf8s v ++ [63; 62] ++ rest)).
  rewrite CstDoc.decl_test_pi.
  set (L := utf8s t ++ s ++ utf8s v ++ [63; 62] ++ rest) in *.
  destruct (nth_error L 3) as [x|] eqn:E3; [|apply andb_false_r].
  destruct (byte_is_space x) eqn:Es; [|apply andb_false_r]. rewrite andb_true_r.
  destruct (space_not_name7 _ Es) as [Hxn Hxl].
  pose proof (SL.not_xml_gen_u x t (s ++ utf8s v ++ [63; 62] ++ rest) Hn Hx Hst Hxn Hxl) as G.
  fold L in G.
  destruct L as [|a [|b0 [|c0 [|d0 L']]]]; try discriminate. cbn [nth_error] in E3. injection E3 as ->.
  cbn [prefix_b] in *. rewrite N.eqb_refl in G. rewrite !andb_true_r in *. exact G.
Qed.

Lemma head_pairs7 (l : CstFullDoc.pairs epieces) wl y rest' : wf_pairs7 l = true -> wf_s wl = true -> y <> 63 ->
  CstDoc.decl_test (r_pairs l ++ wl ++ 60 :: y :: rest') = false /\
  exists b0 r, r_pairs l ++ wl ++ 60 :: y :: rest' = b0 :: r /\ b0 < 128.
Proof.
  intros R1 R2 Hy. destruct l as [|[w i] B].
  - cbn [r_pairs flat_map app]. destruct wl as [|x wr].
    + cbn [app]. split; [apply CstDoc.decl_lt; exact Hy|]. eexists. eexists. split; [reflexivity|lia].
    + cbn [app]. destruct (s_head _ _ R2) as (H60 & H128 & _). split; [apply CstDoc.decl_ws; exact H60|]. eexists. eexists. split; [reflexivity|exact H128].
  - cbn [wf_pairs7 forallb fst snd] in R1. rewrite !andb_true_iff in R1. destruct R1 as [[[W1 M1] I1] _].
    cbn [r_pairs flat_map fst snd]. rewrite <- !app_assoc. destruct w as [|x w].
    + cbn [app]. destruct i as [? ? ? ?|?|bs|t s v]; try discriminate.
      * cbn [r_item Cst.r_item app]. split; [apply CstDoc.decl_lt; clear; lia|]. eexists. eexists. split; [reflexivity|clear; lia].
      * cbn [r_item Cst.r_item]. rewrite <- !app_assoc. split; [apply decl_pi7; apply SL.wf_pi7_ok; exact I1|].
        cbn [app]. eexists. eexists. split; [reflexivity|clear; lia].
    + cbn [app]. destruct (s_head _ _ W1) as (H60 & H128 & _). split; [apply CstDoc.decl_ws; exact H60|]. eexists. eexists. split; [reflexivity|exact H128].
Qed.

Print Assumptions misc_loop_ok7.
