(* Proofs/CstSoundUMain.v -- C08 soundness on the UNICODE fragment (Spec/CstU.v): start tags and
   the content loop with the real callback, inverted (CstSoundMain.v over scalar values).  The
   builder simulation of CstSoundBuild.v is used unchanged: it does not look inside names. *)
From Coq Require Import String.
From Coq Require Import List Arith NArith Bool Lia ZifyBool ZifyN ZifyNat.
Import ListNotations.
From RX Require Import Generated.
From RX.Model Require Import Base CharClass Stream Tokenizer Doc Builder Parse.
From RX.Spec Require Cst CstU.
From RX.Proofs Require Import Tactics CstLex CstTree CstULex.
From RX.Proofs Require CstBuild RejectProofs CstUItems.
From RX.Proofs Require Import CstSound CstSoundLex CstSoundBuild CstSoundMain CstSoundU CstSoundULex.
Open Scope N_scope.

Notation enc_item := CstU.enc_item.
Notation enc_attr := CstU.enc_attr.
Notation enc_items := CstUItems.enc_items.
Notation uwf_items := CstUItems.uwf_items.

Fixpoint r_levels_u (names : list (list N)) (lv : levels) : bytes :=
  match names, lv with
  | n :: ns, (cs, w) :: lv' => r_items (enc_items cs) ++ [60; 47] ++ utf8s n ++ w ++ [62] ++ r_levels_u ns lv'
  | _, _ => []
  end.

Definition lv_wf_u (lv : levels) : Prop :=
  Forall (fun cw => uwf_items (fst cw) = true /\ Cst.no_adjacent_text (fst cw) = true /\
                    Cst.wf_ws (snd cw) = true) lv.

Lemma xmlns_sc_bytes : utf8s CstUItems.xmlns_sc = xmlns_bytes.
Proof. reflexivity. Qed.

Section UMain.
Variable text : bytes.
Hypothesis HF : FragU text.
Notation T := (Parse.token text).
Notation st := (CstLex.st text).
Notation W := (CstLex.W text).
Notation WV := (CstULex.WV text).
Notation sb := (slice_bytes text).
Notation Sim := (Sim text).
Notation InTag := (InTag text).
Notation evs := (CstLex.evs context T).

Lemma not_xmlns_at_u p x l : W p (x ++ l) -> x <> xmlns_bytes.
Proof.
  intros HW ->. pose proof (W_noprefix text _ _ _ HW (fu_xmlns _ HF) ltac:(discriminate)) as H.
  unfold xmlns_bytes in H. rewrite prefix_b_app_same in H. discriminate.
Qed.

Lemma no_amp_cr_u l : SufU l -> existsb (fun x => (x =? 38) || (x =? 13)) l = false.
Proof.
  intros [H13 H38 _]. destruct (existsb _ l) eqn:E; [|reflexivity]. exfalso.
  apply existsb_exists in E. destruct E as (x & Hx & Hd). rewrite Forall_forall in H13, H38.
  specialize (H13 x Hx). specialize (H38 x Hx). lia.
Qed.

(* ---- the attributes of a start tag (encoded attributes) ---- *)
Lemma attrs_steps_u : forall attrs q rest c1 c2 stk tp tn cur,
  W q (flat_map Cst.r_attr attrs ++ rest) -> InTag c1 stk tp tn cur ->
  evs (attr_toks q attrs) c1 = Ok c2 ->
  InTag c2 stk tp tn (cur ++ map Cst.a_name attrs) /\ rows c2 = rows c1 /\ attrs_of c2 = attrs_of c1 /\
  Forall (fun a => Cst.a_name a <> xmlns_bytes) attrs /\
  exists tas, c_cur_attrs c2 = c_cur_attrs c1 ++ tas /\
    Forall2 (fun a ta => (exists s, ta_value ta = Borrowed (SIn s)) -> val_clean a) attrs tas.
Proof.
  induction attrs as [|a attrs IH]; intros q rest c1 c2 stk tp tn cur HW HI H.
  - cbn [attr_toks CstLex.evs] in H. inversion H; subst. cbn [map]. rewrite app_nil_r.
    split; [exact HI|]. split; [reflexivity|]. split; [reflexivity|]. split; [constructor|].
    exists []. rewrite app_nil_r. split; [reflexivity|constructor].
  - cbn [attr_toks CstLex.evs] in H. ib H c1' H1. cbn [flat_map] in HW. rewrite <- app_assoc in HW.
    destruct (CstBuild.attr_slices text q a _ HW) as (Sn & Sv). cbv zeta in Sn, Sv.
    assert (Hnx : Cst.a_name a <> xmlns_bytes).
    { unfold Cst.r_attr in HW. rewrite <- !app_assoc in HW. apply (W_app text) in HW.
      eapply not_xmlns_at_u. exact HW. }
    unfold attr_tok in H1. cbv zeta in H1.
    destruct (step_attr text _ _ _ _ _ _ _ _ _ _ _ _ HI (CstBuild.slice_empty text _) ltac:(rewrite Sn; exact Hnx) H1)
      as (HI' & R1 & A1 & _ & ta & Hta & Hval).
    rewrite Sn in HI'.
    destruct (IH _ _ _ _ _ _ _ _ (W_app text _ _ _ HW) HI' H) as (HI2 & R2 & A2 & Hx & tas & Htas & HF2).
    rewrite <- app_assoc in HI2. split; [exact HI2|]. split; [congruence|]. split; [congruence|].
    split; [constructor; assumption|].
    exists (ta :: tas). split; [rewrite Htas, Hta, <- app_assoc; reflexivity|].
    constructor; [|exact HF2]. intros [s Hs]. destruct Hval as [[_ Hcl]|[bs Hbs]]; [|congruence].
    rewrite Sv in Hcl. unfold val_clean. apply forallb_forall. intros x Hx0.
    destruct (negb (x =? 9) && negb (x =? 10)) eqn:E; [reflexivity|exfalso].
    assert (existsb (fun x => (x =? 38) || (x =? 9) || (x =? 10) || (x =? 13)) (Cst.a_value a) = true).
    { apply existsb_exists. exists x. split; [exact Hx0|]. lia. }
    congruence.
Qed.

Lemma clean_scalars v : forallb (fun x => negb (x =? 9) && negb (x =? 10)) (utf8s v) = true ->
  forallb (fun x => negb (x =? 9) && negb (x =? 10)) v = true.
Proof.
  intros H. apply forallb_Forall in H.
  assert (N9 : Forall (fun x => x <> 9) v).
  { apply (scalars_ne 9 v); [lia|]. eapply Forall_impl; [|exact H]. cbv beta. intros y Hy. lia. }
  assert (N10 : Forall (fun x => x <> 10) v).
  { apply (scalars_ne 10 v); [lia|]. eapply Forall_impl; [|exact H]. cbv beta. intros y Hy. lia. }
  apply forallb_forall. intros y Hy. rewrite Forall_forall in N9, N10. specialize (N9 y Hy). specialize (N10 y Hy). lia.
Qed.

Lemma attr_raw_name_scalars a : attr_raw_ok_u a = true -> scalars_ok (Cst.a_name a).
Proof.
  unfold attr_raw_ok_u. intros H. repeat (apply andb_true_iff in H; destruct H as [H ?]).
  apply CstUItems.wf_uname_scalars. assumption.
Qed.

(* ---- a whole start tag ---- *)
Lemma tag_sound_u p name attrs ws_end open l' c c1 c2 c' stk :
  W p ([60] ++ utf8s name ++ flat_map Cst.r_attr (map enc_attr attrs) ++ ws_end ++ tag_tail (negb open) ++ l') ->
  CstU.wf_name name = true -> forallb attr_raw_ok_u attrs = true -> Sim c stk ->
  T (TElementStart (sl (p + 1) (p + 1)) (sl (p + 1) (p + 1 + blen (utf8s name))) p) c = Ok c1 ->
  evs (attr_toks (p + 1 + blen (utf8s name)) (map enc_attr attrs)) c1 = Ok c2 ->
  T (end_tok (p + 1 + blen (utf8s name) + blen (flat_map Cst.r_attr (map enc_attr attrs)) + blen ws_end) (negb open)) c2 = Ok c' ->
  Sim c' (if open then utf8s name :: stk else stk) /\ Ext c c' /\ c_after_text c' = [] /\
  name <> CstUItems.xmlns_sc /\ Forall (fun a => Cst.a_name a <> CstUItems.xmlns_sc) attrs /\
  Cst.names_distinct (map Cst.a_name attrs) = true /\
  (AttrRaw c' -> forallb CstU.wf_attr attrs = true).
Proof.
  intros HW Hname Hraw HS H1 H2 H3.
  pose proof (W_app text _ _ _ HW) as HW1. change (blen [60]) with 1 in HW1.
  pose proof (W_slice text _ _ _ HW1) as Sname.
  pose proof (W_app text _ _ _ HW1) as HW2.
  destruct (step_start text _ _ _ _ _ _ HS (CstBuild.slice_empty text _) H1) as (HI & R1 & A1 & _).
  destruct (attrs_steps_u _ _ _ _ _ _ _ _ _ HW2 HI H2) as (HI2 & R2 & A2 & Hx & tas & Htas & HF2).
  cbn [app] in HI2.
  assert (Hc1 : c_cur_attrs c1 = []).
  { destruct HI as [_ _ _ _ Hc _ _]. destruct (c_cur_attrs c1); [reflexivity|discriminate]. }
  rewrite Hc1 in Htas. cbn [app] in Htas.
  unfold end_tok in H3.
  destruct (step_tagend text (if negb open then EEmpty else EOpen) _ _ _ _ _ _ _ HI2 (CstBuild.slice_empty text _)
              ltac:(destruct open; auto) H3) as (Hnd & HS' & _ & A3 & Hat & _).
  rewrite Sname in HS'.
  split; [destruct open; exact HS'|].
  split; [exists (map (ad_of None) (c_cur_attrs c2)); rewrite A3, A2, A1; reflexivity|].
  split; [exact Hat|]. split.
  { intros ->. rewrite xmlns_sc_bytes in HW1. eapply not_xmlns_at_u; [exact HW1|reflexivity]. }
  split.
  { clear - Hx. induction attrs as [|a attrs IH]; [constructor|]. cbn [map] in Hx. inversion Hx as [|? ? Ha Hr]; subst.
    constructor; [|apply IH; exact Hr]. intros E. apply Ha. cbn [CstU.enc_attr Cst.a_name]. rewrite E. reflexivity. }
  split.
  { apply NoDup_names_distinct. rewrite map_map in Hnd. cbn [CstU.enc_attr Cst.a_name] in Hnd.
    clear - Hnd Hraw. induction attrs as [|a attrs IH]; [constructor|]. cbn [map forallb] in *.
    apply andb_true_iff in Hraw. destruct Hraw as [Ha Hr]. inversion Hnd as [|? ? Hn Hd]; subst.
    constructor; [|apply IH; assumption]. intros Hin. apply Hn. apply in_map_iff in Hin.
    destruct Hin as (a' & E & Hin'). apply in_map_iff. exists a'. split; [rewrite E; reflexivity|exact Hin']. }
  intros HA. unfold AttrRaw in HA. rewrite A3, Htas in HA. apply Forall_app in HA. destruct HA as [_ HA].
  clear - Hraw HF2 HA. revert tas HF2 HA. induction attrs as [|a attrs IH]; intros tas HF2 HA; [reflexivity|].
  cbn [map] in HF2. inversion HF2 as [|? ta ? tas' Ha Hr]; subst. cbn [map] in HA. inversion HA as [|? ? Hh Ht]; subst.
  cbn [forallb] in Hraw |- *. apply andb_true_iff in Hraw. destruct Hraw as [Hr1 Hr2].
  rewrite (IH Hr2 _ Hr Ht), andb_true_r. apply wf_attr_of_raw_u; [exact Hr1|].
  apply clean_scalars. apply Ha. exact Hh.
Qed.

(* ---- the content loop ---- *)
Definition Closed_u (depth : N) (l : bytes) (stk : list bytes) (s' : stream) (c' : context) : Prop :=
  exists lv l' p' opn rest,
    stk = map utf8s opn ++ rest /\ length opn = length lv /\ N.of_nat (length lv) = depth + 1 /\
    l = r_levels_u opn lv ++ l' /\ s' = st p' l' /\ WV p' l' /\ Sim c' rest /\ c_after_text c' = [] /\
    (text_stop l -> head_nontext lv) /\ (AttrRaw c' -> lv_wf_u lv).

Lemma Closed_prepend_u depth i l1 stk s' c' :
  Closed_u depth l1 stk s' c' -> (AttrRaw c' -> CstU.wf_item i = true) ->
  (Cst.is_text i = true -> text_stop l1) ->
  (text_stop (Cst.r_item (enc_item i) ++ l1) -> Cst.is_text i = false) ->
  Closed_u depth (Cst.r_item (enc_item i) ++ l1) stk s' c'.
Proof.
  intros (lv & l' & p' & opn & rest & E1 & E2 & E3 & E4 & E5 & E6 & E7 & E8 & E9 & E10) Hwf Htx Hhd.
  destruct lv as [|[cs w] lv']; [cbn [length] in E3; lia|].
  destruct opn as [|n opn']; [cbn [length] in E2; lia|].
  exists ((i :: cs, w) :: lv'), l', p', (n :: opn'), rest.
  split; [exact E1|]. split; [exact E2|]. split; [exact E3|]. split.
  { rewrite E4. cbn [r_levels_u CstUItems.enc_items r_items]. rewrite <- !app_assoc. reflexivity. }
  split; [exact E5|]. split; [exact E6|]. split; [exact E7|]. split; [exact E8|]. split.
  { intros Hs. cbn [head_nontext]. apply Hhd. exact Hs. }
  intros HA. specialize (E10 HA). inversion E10 as [|? ? (A1 & A2 & A3) Hr]; subst. cbn [fst snd] in *.
  constructor; [|exact Hr]. cbn [fst snd CstUItems.uwf_items]. rewrite (Hwf HA), A1. split; [reflexivity|]. split; [|exact A3].
  destruct cs as [|c0 r]; [reflexivity|].
  change (Cst.no_adjacent_text (i :: c0 :: r)) with
    (negb (Cst.is_text i && Cst.is_text c0) && Cst.no_adjacent_text (c0 :: r)).
  rewrite A2, andb_true_r. apply negb_true_iff. destruct (Cst.is_text i) eqn:Ei; [|reflexivity]. cbn [andb].
  specialize (E9 (Htx eq_refl)). cbn [head_nontext] in E9. exact E9.
Qed.

Definition elem_ok_u (name : list N) (attrs : list Cst.attr) (ws_end : bytes) : Prop :=
  CstU.wf_name name = true /\ name <> CstUItems.xmlns_sc /\ forallb CstU.wf_attr attrs = true /\
  Forall (fun a => Cst.a_name a <> CstUItems.xmlns_sc) attrs /\
  Cst.names_distinct (map Cst.a_name attrs) = true /\ Cst.wf_ws ws_end = true.

Lemma wf_elem_intro_u name attrs ws_end body : elem_ok_u name attrs ws_end ->
  match body with
  | None => True
  | Some (cs, ws2) => Cst.wf_ws ws2 = true /\ Cst.no_adjacent_text cs = true /\ uwf_items cs = true
  end -> CstU.wf_item (Cst.IElem name attrs ws_end body) = true.
Proof.
  intros (H1 & H2 & H3 & H4 & H5 & H6) Hb. rewrite CstUItems.uwf_item_elem. rewrite H1, H3, H5, H6.
  destruct (list_eq_dec N.eq_dec name CstUItems.xmlns_sc) as [E|_]; [exfalso; apply H2; exact E|]. cbn [negb andb].
  assert (Hx : forallb (fun a => negb (if list_eq_dec N.eq_dec (Cst.a_name a) CstUItems.xmlns_sc then true else false)) attrs = true).
  { apply forallb_forall. intros a Ha. rewrite Forall_forall in H4. specialize (H4 a Ha).
    destruct (list_eq_dec N.eq_dec (Cst.a_name a) CstUItems.xmlns_sc) as [E|_]; [exfalso; apply H4; exact E|reflexivity]. }
  rewrite Hx. cbn [andb]. destruct body as [[cs ws2]|]; [|reflexivity].
  destruct Hb as (B1 & B2 & B3). rewrite B1, B2, B3. reflexivity.
Qed.

Lemma Closed_nest_u depth name attrs ws_end l1 stk s' c' :
  Closed_u (depth + 1) l1 (utf8s name :: stk) s' c' -> scalars_ok name ->
  (AttrRaw c' -> elem_ok_u name attrs ws_end) ->
  Closed_u depth ([60] ++ utf8s name ++ flat_map Cst.r_attr (map enc_attr attrs) ++ ws_end ++ [62] ++ l1) stk s' c'.
Proof.
  intros (lv & l' & p' & opn & rest & E1 & E2 & E3 & E4 & E5 & E6 & E7 & E8 & E9 & E10) Hsc Hok.
  destruct lv as [|[cs_in w_in] [|[cs w] lv']]; [cbn [length] in E3; lia|cbn [length] in E3; lia|].
  destruct opn as [|n0 [|n1 opn']]; [cbn [length] in E2; lia|cbn [length] in E2; lia|].
  cbn [map app] in E1. injection E1 as En Estk.
  set (item := Cst.IElem name attrs ws_end (Some (cs_in, w_in))).
  exists ((item :: cs, w) :: lv'), l', p', (n1 :: opn'), rest.
  split; [exact Estk|]. split; [cbn [length] in *; lia|]. split; [cbn [length] in *; lia|]. split.
  { rewrite E4. cbn [r_levels_u CstUItems.enc_items r_items]. unfold item. rewrite CstUItems.enc_item_elem, r_item_elem.
    rewrite <- En. rewrite <- !app_assoc. cbn [app]. rewrite <- ?app_assoc. reflexivity. }
  split; [exact E5|]. split; [exact E6|]. split; [exact E7|]. split; [exact E8|]. split.
  { intros _. reflexivity. }
  intros HA. specialize (E10 HA). inversion E10 as [|? ? (A1 & A2 & A3) Hr]; subst.
  inversion Hr as [|? ? (B1 & B2 & B3) Hr']; subst. cbn [fst snd] in *.
  constructor; [|exact Hr']. cbn [fst snd CstUItems.uwf_items]. split; [|split; [|exact B3]].
  - rewrite B1, andb_true_r. unfold item. apply wf_elem_intro_u; [apply Hok; exact HA|]. auto.
  - destruct cs as [|c0 r]; [reflexivity|].
    change (Cst.no_adjacent_text (item :: c0 :: r)) with
      (negb (Cst.is_text item && Cst.is_text c0) && Cst.no_adjacent_text (c0 :: r)).
    rewrite B2. reflexivity.
Qed.

Lemma Closed_prepend_empty_u depth name attrs ws_end l1 stk s' c' :
  Closed_u depth l1 stk s' c' -> (AttrRaw c' -> elem_ok_u name attrs ws_end) ->
  Closed_u depth ([60] ++ utf8s name ++ flat_map Cst.r_attr (map enc_attr attrs) ++ ws_end ++ [47; 62] ++ l1) stk s' c'.
Proof.
  intros HC Hok.
  pose proof (Closed_prepend_u depth (Cst.IElem name attrs ws_end None) l1 stk s' c' HC) as H.
  rewrite CstUItems.enc_item_elem, r_item_elem in H. rewrite <- !app_assoc in H. apply H.
  - intros HA. apply wf_elem_intro_u; [apply Hok; exact HA|exact I].
  - discriminate.
  - reflexivity.
Qed.

Lemma Closed_close_u depth name ws2 l1 stk' s' c' :
  Closed_u (depth - 1) l1 stk' s' c' -> 0 < depth -> Cst.wf_ws ws2 = true ->
  Closed_u depth ([60; 47] ++ utf8s name ++ ws2 ++ [62] ++ l1) (utf8s name :: stk') s' c'.
Proof.
  intros (lv & l' & p' & opn & rest & E1 & E2 & E3 & E4 & E5 & E6 & E7 & E8 & E9 & E10) Hd Hw.
  exists (([], ws2) :: lv), l', p', (name :: opn), rest.
  split; [rewrite E1; reflexivity|]. split; [cbn [length]; lia|]. split; [cbn [length]; lia|]. split.
  { rewrite E4. cbn [r_levels_u CstUItems.enc_items r_items app]. rewrite <- !app_assoc. reflexivity. }
  split; [exact E5|]. split; [exact E6|]. split; [exact E7|]. split; [exact E8|]. split; [intros _; exact I|].
  intros HA. constructor; [cbn; auto|apply E10; exact HA].
Qed.

Lemma Closed_base_u name ws2 l' p' stk' c' : WV p' l' -> Sim c' stk' -> c_after_text c' = [] ->
  Cst.wf_ws ws2 = true ->
  Closed_u 0 ([60; 47] ++ utf8s name ++ ws2 ++ [62] ++ l') (utf8s name :: stk') (st p' l') c'.
Proof.
  intros HW HS Hat Hw. exists [([], ws2)], l', p', [name], stk'.
  split; [reflexivity|]. split; [reflexivity|]. split; [reflexivity|]. split.
  { cbn [r_levels_u CstUItems.enc_items r_items app]. rewrite <- !app_assoc. reflexivity. }
  split; [reflexivity|]. split; [exact HW|]. split; [exact HS|]. split; [exact Hat|]. split; [intros _; exact I|].
  intros _. constructor; [cbn; auto|constructor].
Qed.

Lemma content_sound_u : forall fuel depth p l c s' c' stk,
  WV p l -> Sim c stk -> N.of_nat (length stk) = depth + 1 ->
  (c_after_text c <> [] -> text_stop l) ->
  parse_content_loop text context T fuel depth (st p l) c = Ok (s', c') ->
  Ext c c' /\ (Closed_u depth l stk s' c' \/
               exists stk2 p2 l2, s' = st p2 l2 /\ WV p2 l2 /\ Sim c' stk2 /\ stk2 <> []).
Proof.
  induction fuel as [|fu IH]; intros depth p l c s' c' stk HW HS Hlen Hat H;
    cbn [parse_content_loop] in H; [noerr|].
  pose proof (WV_W _ _ _ HW) as HW0.
  rewrite (at_end_st text) in H by exact HW0.
  destruct l as [|x l0].
  { inversion H; subst. split; [apply Ext_refl|]. right. exists stk, p, [].
    split; [reflexivity|]. split; [exact HW|]. split; [exact HS|].
    destruct stk; [cbn [length] in Hlen; lia|discriminate]. }
  cbn [curr_byte_unchecked CstLex.st s_rest bind] in H. fold (st p (x :: l0)) in H.
  destruct (x =? 60) eqn:E60.
  2:{ (* text *)
    ib H q Hq. destruct q as [s1 c1].
    destruct (inv_text_u text HF context T _ _ _ _ _ _ HW ltac:(lia) Hq) as (bs & l1 & El & Hwf & Hstop & -> & HW1 & Hev).
    assert (Hat0 : c_after_text c = []).
    { destruct (c_after_text c) eqn:Ea; [reflexivity|]. exfalso. specialize (Hat ltac:(discriminate)).
      cbn [text_stop] in Hat. lia. }
    rewrite El in HW0.
    assert (Hex : existsb (fun x => (x =? 38) || (x =? 13)) (sb (sl p (p + blen (utf8s bs)))) = false).
    { rewrite (W_slice text _ _ _ HW0). apply no_amp_cr_u. eapply SufU_app_l. eapply (W_SufU text HF). exact HW0. }
    destruct (step_text text _ _ _ _ _ HS Hat0 Hex Hev) as (HS1 & _ & A1 & _).
    destruct (IH _ _ _ _ _ _ _ HW1 HS1 Hlen ltac:(intros _; exact Hstop) H) as (HE & HR).
    split; [eapply Ext_trans; [apply Ext_eq; exact A1|exact HE]|].
    destruct HR as [HC|HU]; [left|right; exact HU].
    rewrite El. change (utf8s bs) with (Cst.r_item (enc_item (Cst.IText bs))).
    apply Closed_prepend_u; [exact HC|intros _; exact Hwf|intros _; exact Hstop|].
    intros Hs. exfalso. cbn [CstU.enc_item Cst.r_item] in Hs. rewrite <- El in Hs. cbn [text_stop] in Hs. lia. }
  assert (x = 60) by lia. subst x.
  assert (HWt : WV (p + 1) l0) by (apply (WV_cons text _ _ _ HW); lia).
  destruct l0 as [|y l1].
  { unfold next_byte in H. cbn [CstLex.st s_pos s_end s_rest] in H. destruct HW0 as [_ HW0].
    unfold blen in HW0. cbn [length] in HW0. replace (tlen text <=? p + 1) with true in H by lia. noerr. }
  rewrite (next_byte_st text) in H by exact HW0.
  destruct (y =? 33) eqn:E33.
  { assert (y = 33) by lia. subst y. rewrite !(starts_with_st text) in H by exact HW0.
    destruct (prefix_b (b "<!--") (60 :: 33 :: l1)) eqn:Ec.
    - change (b "<!--") with [60; 33; 45; 45] in Ec. destruct (prefix_b_split _ _ Ec) as (l2 & El).
      rewrite El in H, HW. ib H q Hq. destruct q as [s1 c1].
      destruct (inv_comment_u text HF context T _ _ _ _ _ HW Hq) as (bs & l3 & -> & Hwf & -> & HW1 & Hev).
      destruct (step_comment text _ _ _ _ _ HS Hev) as (HS1 & _ & A1 & Hat1 & _).
      destruct (IH _ _ _ _ _ _ _ HW1 HS1 Hlen ltac:(intros Hn; congruence) H) as (HE & HR).
      split; [eapply Ext_trans; [apply Ext_eq; exact A1|exact HE]|].
      destruct HR as [HC|HU]; [left|right; exact HU].
      rewrite El. pose proof (Closed_prepend_u depth (Cst.IComment bs) l3 stk s' c' HC) as HP.
      cbn [CstU.enc_item Cst.r_item] in HP. rewrite <- !app_assoc in HP. apply HP.
      + intros _; exact Hwf.
      + discriminate.
      + reflexivity.
    - destruct (prefix_b (b "<![CDATA[") (60 :: 33 :: l1)) eqn:Ed; [|noerr]. exfalso.
      change (b "<![CDATA[") with ([60; 33; 91] ++ [67; 68; 65; 84; 65; 91]) in Ed. apply prefix_b_app_l in Ed.
      rewrite (W_noprefix text _ _ _ HW0 (fu_cdata _ HF) ltac:(discriminate)) in Ed. discriminate. }
  destruct (y =? 63) eqn:E63.
  { assert (y = 63) by lia. subst y. ib H q Hq. destruct q as [s1 c1].
    change (60 :: 63 :: l1) with ([60; 63] ++ l1) in *.
    destruct (inv_pi_u text HF context T _ _ _ _ _ HW Hq) as (tg & sep & v & l3 & -> & Hwf & -> & HW1 & Hev).
    unfold pi_tok in Hev. cbv zeta in Hev.
    destruct (step_pi text _ _ _ _ _ _ HS Hev) as (HS1 & _ & A1 & Hat1 & _).
    destruct (IH _ _ _ _ _ _ _ HW1 HS1 Hlen ltac:(intros Hn; congruence) H) as (HE & HR).
    split; [eapply Ext_trans; [apply Ext_eq; exact A1|exact HE]|].
    destruct HR as [HC|HU]; [left|right; exact HU].
    pose proof (Closed_prepend_u depth (Cst.IPI tg sep v) l3 stk s' c' HC) as HP.
    cbn [CstU.enc_item Cst.r_item] in HP. rewrite <- !app_assoc in HP. apply HP.
    - intros _; exact Hwf.
    - discriminate.
    - reflexivity. }
  destruct (y =? 47) eqn:E47.
  { assert (y = 47) by lia. subst y. ib H q Hq. destruct q as [s1 c1].
    change (60 :: 47 :: l1) with ([60; 47] ++ l1) in *.
    destruct (inv_close_u text HF context T _ _ _ _ _ HW Hq) as (name & ws2 & l3 & -> & Hname & Hws & -> & HW1 & Hev).
    unfold close_tok in Hev.
    destruct (step_close text _ _ _ _ _ _ HS (CstBuild.slice_empty text _) Hev) as (stk' & Estk & HS1 & _ & A1 & Hat1 & _).
    pose proof (W_app text _ _ _ HW0) as HWn. change (blen [60; 47]) with 2 in HWn.
    rewrite (W_slice text _ _ _ HWn) in Estk. subst stk.
    destruct (depth =? 0) eqn:Ed.
    - inversion H; subst. assert (depth = 0) by lia. subst depth.
      split; [apply Ext_eq; exact A1|]. left. apply Closed_base_u; assumption.
    - assert (Hlen' : N.of_nat (length stk') = depth - 1 + 1) by (cbn [length] in Hlen; lia).
      destruct (IH _ _ _ _ _ _ _ HW1 HS1 Hlen' ltac:(intros Hn; congruence) H) as (HE & HR).
      split; [eapply Ext_trans; [apply Ext_eq; exact A1|exact HE]|].
      destruct HR as [HC|HU]; [left|right; exact HU].
      apply Closed_close_u; [exact HC|lia|exact Hws]. }
  (* a start tag *)
  ib H q Hq. destruct q as [[open s1] c1].
  change (60 :: y :: l1) with ([60] ++ (y :: l1)) in *.
  destruct (inv_element_u text HF context T _ _ _ _ _ _ HW Hq)
    as (name & attrs & ws_end & l3 & ca & cb & El & Hname & Hraw & Hwe & Hev1 & Hev2 & Hev3 & -> & HW1).
  rewrite El in HW0.
  destruct (tag_sound_u _ _ _ _ _ _ _ _ _ _ _ HW0 Hname Hraw HS Hev1 Hev2 Hev3)
    as (HS1 & HE1 & Hat1 & Hnx & Hax & Hnd & Hwa).
  assert (Hok : forall cf, Ext c1 cf -> AttrRaw cf -> elem_ok_u name attrs ws_end).
  { intros cf HEf HA. repeat split; auto. apply Hwa. eapply AttrRaw_ext; eauto. }
  rewrite El. destruct open.
  - assert (Hlen' : N.of_nat (length (utf8s name :: stk)) = depth + 1 + 1).
    { cbn [length]. rewrite Nat2N.inj_succ. etransitivity; [apply f_equal; exact Hlen|lia]. }
    destruct (IH _ _ _ _ _ _ _ HW1 HS1 Hlen' ltac:(intros Hn; congruence) H) as (HE & HR).
    split; [eapply Ext_trans; eauto|].
    destruct HR as [HC|HU]; [left|right; exact HU].
    cbn [negb tag_tail] in *. apply Closed_nest_u; [exact HC|apply CstUItems.wf_uname_scalars; exact Hname|].
    intros HA. eapply Hok; eauto.
  - destruct (IH _ _ _ _ _ _ _ HW1 HS1 Hlen ltac:(intros Hn; congruence) H) as (HE & HR).
    split; [eapply Ext_trans; eauto|].
    destruct HR as [HC|HU]; [left|right; exact HU].
    cbn [negb tag_tail] in *. apply Closed_prepend_empty_u; [exact HC|]. intros HA. eapply Hok; eauto.
Qed.

End UMain.
