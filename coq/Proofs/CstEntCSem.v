(* Proofs/CstEntCSem.v -- C07 with content entities, the semantic side (no parser): the items a list of
   inlined items stands for, read from left to right with the pieces of the run that is still open
   ([walk]), against the re-grouping of Spec/CstEnt.v ([E.regroup], from right to left). *)
From Coq Require Import List NArith PeanoNat Bool Lia ZifyBool ZifyN ZifyNat.
Import ListNotations.
From RX Require Import Generated.
From RX.Model Require Import Base Stream Builder Parse.
From RX.Spec Require Cst CstText CstEnt Chars Detector.
From RX.Spec Require Import Text.
From RX.Proofs Require Import TextMachine HoistProofs CstTextSem CstTextItems CstEntSem CstEntText CstEntAttr CstEntMeaning CstEntInline.
Open Scope N_scope.

Definition all_marks (ps : list T.piece) : bool := forallb E.is_mark ps.

(* a run that ends: no item if it has no piece but boundary marks *)
Definition flush (acc : list T.piece) : list T.item := if all_marks acc then [] else [T.IText acc].

(* acc: the pieces of the open run; result: the complete items, and the pieces of the run open at the end *)
Fixpoint walk (acc : list T.piece) (its : list T.item) : list T.item * list T.piece :=
  match its with
  | [] => ([], acc)
  | T.IText ps :: r => walk (acc ++ ps) r
  | i :: r => let (out, acc') := walk [] r in (flush acc ++ i :: out, acc')
  end.

Lemma walk_nontext acc i r : is_titext i = false ->
  walk acc (i :: r) = (flush acc ++ i :: fst (walk [] r), snd (walk [] r)).
Proof. intros H. destruct i; try discriminate; cbn [walk]; destruct (walk [] r); reflexivity. Qed.

Lemma walk_app : forall a b acc,
  walk acc (a ++ b) = (fst (walk acc a) ++ fst (walk (snd (walk acc a)) b), snd (walk (snd (walk acc a)) b)).
Proof.
  induction a as [|i a IH]; intros b acc.
  - cbn [app walk fst snd]. destruct (walk acc b); reflexivity.
  - cbn [app]. destruct (is_titext i) eqn:Ei.
    + destruct i as [|ps| |]; try discriminate. cbn [walk]. apply IH.
    + rewrite !walk_nontext by exact Ei. cbn [fst snd]. rewrite (IH b []). cbn [fst snd].
      rewrite <- app_assoc. reflexivity.
Qed.

(* ---- two items that differ by boundary marks at the end of a run ---- *)
Definition tm (i j : T.item) : Prop :=
  match i, j with
  | T.IText a, T.IText b0 => exists M, all_marks M = true /\ b0 = a ++ M
  | _, _ => i = j
  end.

Lemma tm_refl i : tm i i.
Proof. destruct i; try reflexivity. exists []. split; [reflexivity|]. rewrite app_nil_r. reflexivity. Qed.

Lemma tm_trans i j k : tm i j -> tm j k -> tm i k.
Proof.
  destruct i, j, k; cbn [tm]; try congruence; try (intros H1 H2; try discriminate; try (destruct H1 as (? & _ & ?); discriminate); fail).
  intros (M1 & H1 & ->) (M2 & H2 & ->). exists (M1 ++ M2). split; [unfold all_marks in *; rewrite forallb_app, H1, H2; reflexivity|].
  rewrite app_assoc. reflexivity.
Qed.

Lemma Forall2_tm_refl l : Forall2 tm l l.
Proof. induction l; constructor; [apply tm_refl|assumption]. Qed.

Lemma Forall2_tm_trans : forall a b c, Forall2 tm a b -> Forall2 tm b c -> Forall2 tm a c.
Proof.
  induction a as [|x a IH]; intros b c H1 H2; inversion H1; subst; inversion H2; subst; constructor.
  - eapply tm_trans; eassumption.
  - eapply IH; eassumption.
Qed.

Lemma regroup_text_nil its : E.regroup (T.IText [] :: its) = E.regroup its.
Proof. cbn [E.regroup]. destruct (E.regroup its) as [|[| | |] r]; reflexivity. Qed.

(* two adjacent runs are one run *)
Lemma regroup_merge a b0 r : Forall2 tm (E.regroup (T.IText a :: T.IText b0 :: r)) (E.regroup (T.IText (a ++ b0) :: r)).
Proof.
  cbn [E.regroup]. destruct (E.regroup r) as [|j r'] eqn:Er.
  - destruct (forallb E.is_mark b0) eqn:Eb.
    + rewrite forallb_app, Eb, andb_true_r. destruct (forallb E.is_mark a); [constructor|].
      constructor; [|constructor]. exists b0. split; [exact Eb|reflexivity].
    + rewrite forallb_app, Eb, andb_false_r. apply Forall2_tm_refl.
  - destruct j as [|qs| |].
    + destruct (forallb E.is_mark b0) eqn:Eb.
      * rewrite forallb_app, Eb, andb_true_r. destruct (forallb E.is_mark a); [apply Forall2_tm_refl|].
        constructor; [|apply Forall2_tm_refl]. exists b0. split; [exact Eb|reflexivity].
      * rewrite forallb_app, Eb, andb_false_r. apply Forall2_tm_refl.
    + rewrite app_assoc. apply Forall2_tm_refl.
    + destruct (forallb E.is_mark b0) eqn:Eb.
      * rewrite forallb_app, Eb, andb_true_r. destruct (forallb E.is_mark a); [apply Forall2_tm_refl|].
        constructor; [|apply Forall2_tm_refl]. exists b0. split; [exact Eb|reflexivity].
      * rewrite forallb_app, Eb, andb_false_r. apply Forall2_tm_refl.
    + destruct (forallb E.is_mark b0) eqn:Eb.
      * rewrite forallb_app, Eb, andb_true_r. destruct (forallb E.is_mark a); [apply Forall2_tm_refl|].
        constructor; [|apply Forall2_tm_refl]. exists b0. split; [exact Eb|reflexivity].
      * rewrite forallb_app, Eb, andb_false_r. apply Forall2_tm_refl.
Qed.

Lemma regroup_walk : forall its acc,
  Forall2 tm (E.regroup (T.IText acc :: its)) (fst (walk acc its) ++ flush (snd (walk acc its))).
Proof.
  induction its as [|i r IH]; intros acc.
  - cbn [walk fst snd app E.regroup]. unfold flush, all_marks. destruct (forallb E.is_mark acc); apply Forall2_tm_refl.
  - destruct (is_titext i) eqn:Ei.
    + destruct i as [|ps| |]; try discriminate. cbn [walk].
      eapply Forall2_tm_trans; [apply regroup_merge|apply IH].
    + rewrite walk_nontext by exact Ei. cbn [fst snd].
      assert (E1 : E.regroup (T.IText acc :: i :: r) = flush acc ++ i :: E.regroup r).
      { unfold flush, all_marks. destruct i; try discriminate; cbn [E.regroup]; destruct (forallb E.is_mark acc); reflexivity. }
      rewrite E1, <- app_assoc. apply Forall2_app; [apply Forall2_tm_refl|]. cbn [app]. constructor; [apply tm_refl|].
      rewrite <- regroup_text_nil. apply IH.
Qed.

Lemma regroup_walk0 its : Forall2 tm (E.regroup its) (fst (walk [] its) ++ flush (snd (walk [] its))).
Proof. rewrite <- regroup_text_nil. apply regroup_walk. Qed.

Lemma tm_erase i j : tm i j -> erase i = erase j.
Proof.
  destruct i, j; cbn [tm]; try congruence; try (intros H; try discriminate; fail).
  intros (M & HM & ->). cbn [erase]. rewrite text_sem_marks by exact HM. reflexivity.
Qed.

Lemma tm_provisos i j : tm i j -> E.provisos_item i = true -> E.provisos_item j = true.
Proof.
  destruct i, j; cbn [tm]; intros H; try (rewrite <- H; auto; fail); try discriminate H.
  destruct H as (M & HM & ->). cbn [E.provisos_item]. apply crlf_split_marks. exact HM.
Qed.

Lemma Forall2_tm_erase a b0 : Forall2 tm a b0 -> map erase a = map erase b0.
Proof. induction 1; [reflexivity|]. cbn [map]. rewrite (tm_erase _ _ H), IHForall2. reflexivity. Qed.

Lemma Forall2_tm_provisos a b0 : Forall2 tm a b0 -> forallb E.provisos_item a = true -> forallb E.provisos_item b0 = true.
Proof.
  induction 1; [auto|]. cbn [forallb]. intros K. apply andb_true_iff in K. destruct K as [K1 K2].
  rewrite (tm_provisos _ _ H K1), IHForall2 by exact K2. reflexivity.
Qed.

(* the children of an element, read from left to right *)
Lemma den_walk its : map erase (E.regroup its) = map erase (fst (walk [] its) ++ flush (snd (walk [] its))).
Proof. apply Forall2_tm_erase. apply regroup_walk0. Qed.

Lemma provisos_walk its : forallb E.provisos_item (E.regroup its) = true ->
  forallb E.provisos_item (fst (walk [] its)) = true /\ E.crlf_split_ok (snd (walk [] its)) = true.
Proof.
  intros H. pose proof (Forall2_tm_provisos _ _ (regroup_walk0 its) H) as K.
  rewrite forallb_app in K. apply andb_true_iff in K. destruct K as [K1 K2]. split; [exact K1|].
  unfold flush in K2. destruct (all_marks (snd (walk [] its))) eqn:Em.
  - clear - Em. unfold all_marks in Em. rewrite <- (app_nil_l (snd (walk [] its))). apply crlf_split_marks; [exact Em|reflexivity].
  - cbn [forallb E.provisos_item] in K2. rewrite andb_true_r in K2. exact K2.
Qed.

Print Assumptions den_walk.
Print Assumptions provisos_walk.
