(* Proofs/CstEntBuild.v -- C07, builder side at the top level of a document whose entities are all
   character data: a text token with references, an attribute value with references, and the
   start tag with such attributes. *)
From Coq Require Import Ascii String.
From Coq Require Import List NArith PeanoNat Bool Lia ZifyBool ZifyN ZifyNat.
Import ListNotations.
From RX Require Import Generated.
From RX.Model Require Import Base CharClass Stream Tokenizer Doc Builder Parse.
From RX.Spec Require Cst CstText CstEnt Detector.
From RX.Spec Require Import Text.
From RX.Proofs Require Import Tactics CstLex CstBuild TextMachine TextMerge HoistProofs NoPanicUtf8 DetectorProofs.
From RX.Proofs Require Import CstTextSem CstTextLex CstTextBuild CstEntSem CstEntText CstEntAttr CstEntMeaning CstEntRun CstEntLex CstEntDtd.
Open Scope N_scope.

(* a balanced trace run from the initial detector ends in the initial detector *)
Lemma ld_run_refs : forall tr ld ld', ld_run ld tr = Some ld' -> ld_depth ld' = 0 ->
  (ld_depth ld = 0 -> ld_references ld = 0) -> ld_references ld' = 0.
Proof.
  induction tr as [|[|] tr IH]; intros ld ld' H Hd H0; cbn [ld_run] in H.
  - injection H as <-. auto.
  - destruct (ld_enter ld) as [ld1|] eqn:E; [|discriminate]. apply (IH _ _ H Hd).
    rewrite (mk_eta ld) in E. apply ld_enter_some in E. destruct E as [_ [[_ ->]|[_ [_ ->]]]]; unfold DetectorProofs.mk; cbn; lia.
  - apply (IH _ _ H Hd). unfold dec_depth. cbn [ld_depth ld_references]. intros E. rewrite E. reflexivity.
Qed.

Lemma ld_run_init tr ld' : ld_run ld_init tr = Some ld' -> ld_depth ld' = 0 -> ld' = ld_init.
Proof.
  intros H Hd. pose proof (ld_run_refs tr ld_init ld' H Hd (fun _ => eq_refl)) as Hr.
  destruct ld' as [d r]. cbn in *. subst. reflexivity.
Qed.

Lemma context_eq a c : same_frame a c -> c_ld a = c_ld c -> c_tag_name a = c_tag_name c ->
  c_entity_floor a = c_entity_floor c -> a = c.
Proof.
  intros (H1 & H2 & H3 & H4 & H5 & H6 & H7 & H8 & H9) L T F. destruct a, c. cbn in *. subst. reflexivity.
Qed.

Lemma vpiece_quote_60 q p : T.wf_vpiece q p = true -> T.wf_vpiece 60 p = true.
Proof.
  destruct p as [bs|hex ds|e|bs]; cbn [T.wf_vpiece]; auto. unfold T.wf_lit. rewrite !andb_true_iff. intros [H1 H2].
  split; [exact H1|]. revert H2. apply forallb_imp. intros x Hx. rewrite !andb_true_iff in *. destruct Hx as [[[A B0] C0] _].
  repeat split; assumption.
Qed.

Lemma ep_ok_of_wf q cd ch p : E.wf_epiece q cd ch false p = true -> is_ecdata p = false -> ep_ok false p.
Proof.
  destruct p as [[bs|hex ds|e|bs]|n]; cbn [E.wf_epiece ep_ok is_ecdata]; intros H Hc; try discriminate.
  - rewrite !andb_true_iff in H. destruct H as [[_ H] _]. split; [apply (vpiece_quote_60 q); exact H|discriminate].
  - rewrite !andb_true_iff in H. destruct H as [[_ H] _]. split; [exact H|discriminate].
  - split; [reflexivity|discriminate].
  - apply andb_true_iff in H. destruct H as [H1 H2]. split; [exact H1|]. apply negb_true_iff in H2. exact H2.
Qed.

(* the rendered bytes of value pieces quoted by q *)
Lemma epieces_vbytes q ps : q = 39 \/ q = 34 -> forallb (E.wf_epiece q false false false) ps = true ->
  forallb (vbyte q) (E.r_epieces ps) = true.
Proof.
  intros Hq. induction ps as [|p ps IH]; intros H; [reflexivity|]. cbn [forallb] in H. apply andb_true_iff in H.
  destruct H as [H1 H2]. rewrite r_epieces_cons. apply forallb_app'; [|apply IH; exact H2].
  destruct p as [[bs|hex ds|e|bs]|n]; cbn [E.wf_epiece E.r_epiece] in *; try discriminate.
  - rewrite !andb_true_iff in H1. destruct H1 as [[_ H] _]. apply (vpiece_bytes q (T.PLit bs)); [destruct Hq; auto|exact H].
  - rewrite !andb_true_iff in H1. destruct H1 as [[_ H] _]. apply (vpiece_bytes q (T.PCharRef hex ds)); [destruct Hq; auto|exact H].
  - apply (vpiece_bytes q (T.PPredef e)); [destruct Hq; auto|reflexivity].
  - apply andb_true_iff in H1. destruct H1 as [Hn _].
    apply forallb_app'; [unfold vbyte, T.is_tplain; cbn; destruct Hq as [-> | ->]; reflexivity|].
    apply forallb_app'; [|unfold vbyte, T.is_tplain; cbn; destruct Hq as [-> | ->]; reflexivity].
    destruct n as [|x n]; [discriminate|]. cbn [Cst.wf_name] in Hn. apply andb_true_iff in Hn. destruct Hn as [Hx Hr].
    cbn [forallb]. apply andb_true_iff. split.
    + unfold vbyte, T.is_tplain, Cst.is_name_start in *. destruct Hq as [-> | ->]; lia.
    + revert Hr. apply forallb_imp. intros y Hy. unfold vbyte, T.is_tplain, Cst.is_name_char, Cst.is_name_start in *.
      destruct Hq as [-> | ->]; lia.
Qed.

Lemma combine_names_vals text : forall (A' : list T.attr) (L : list temp_attr),
  map (fun t => slice_bytes text (ta_local t)) L = map T.a_name A' ->
  map (fun t => storage_bytes text (ta_value t)) L = map (fun a => T.value_sem (T.a_value a)) A' ->
  map (fun t => (slice_bytes text (ta_local t), storage_bytes text (ta_value t))) L =
  map (fun a => (T.a_name a, T.value_sem (T.a_value a))) A'.
Proof.
  induction A' as [|a A' IH]; intros [|t L] Tn Tv; cbn [map] in *; try discriminate; [reflexivity|].
  injection Tn as Tn1 Tn2. injection Tv as Tv1 Tv2. rewrite Tn1, Tv1. f_equal. apply IH; assumption.
Qed.

Section EBuild.
Variable text : bytes.
Hypothesis Hascii : Forall (fun x => x < 128) text.
Variable decls : list E.edecl.
Variable es : list entity.
Hypothesis Henv : Forall2 (ent_ok text) decls es.
Hypothesis Hdecls : Forall decl_ok decls.
Hypothesis Hadjs : Forall decl_adj decls.

Notation W := (CstLex.W text).
Notation tok_ev := (CstBuild.tok_ev text).

(* the chunks of inlined pieces are valid *)
Lemma AExp_chunks : forall m ps t q tr t', AExp decls m ps t q tr t' -> Forall (ep_ok m) ps ->
  Forall chunk_ok (chunks q).
Proof.
  intros m ps t q tr t' H.
  induction H as [m t|m p r t t1 q tr t' _ _ _ IH|m n r d vps t qv trv t1 q tr t' Hfd Hval _ IHv _ IHr]; intros Hok.
  - constructor.
  - apply Forall_cons_iff in Hok. destruct Hok as [[Hv _] Hr]. unfold chunks. cbn [flat_map].
    apply Forall_app. split; [apply (piece_chunks_ok 60 p (or_introl Hv))|apply IH; exact Hr].
  - apply Forall_cons_iff in Hok. destruct Hok as [_ Hr].
    change (E.mark :: qv ++ E.mark :: q) with ([E.mark] ++ qv ++ [E.mark] ++ q). rewrite !chunks_app.
    change (chunks [E.mark]) with (@nil chunk). cbn [app]. apply Forall_app. split.
    + apply IHv. apply (first_decl_ok decls Hdecls _ _ _ Hfd Hval).
    + apply IHr. exact Hr.
Qed.

(* ---- an attribute value with references, at the top level ---- *)
Lemma normalize_attribute_ent vs ps quote more c k q tr ld' :
  W vs (E.r_epieces ps ++ [quote] ++ more) -> quote = 39 \/ quote = 34 ->
  forallb (E.wf_epiece quote false false false) ps = true -> E.no_adjacent_elit ps = true ->
  E.inline_ps (E.level decls k) true false ps = Some (q, tr) -> E.crlf_split_ok q = true ->
  ld_run ld_init tr = Some ld' -> c_ld c = ld_init -> c_entities c = es ->
  normalize_attribute text (sl vs (vs + blen (E.r_epieces ps))) c =
  Ok (if needs_norm (E.r_epieces ps) then Owned (T.value_sem q)
      else Borrowed (SIn (sl vs (vs + blen (E.r_epieces ps)))), c).
Proof.
  intros HW Hq Hwf Hadj Hin Hs Hld Hc Hes.
  assert (Hok : Forall (ep_ok false) ps).
  { apply Forall_forall. intros p Hp. rewrite forallb_forall in Hwf. specialize (Hwf p Hp).
    apply (ep_ok_of_wf quote false false); [exact Hwf|]. destruct p as [[| | |bs]|]; try reflexivity. discriminate. }
  unfold normalize_attribute. cbv zeta. rewrite (W_slice _ _ _ _ HW).
  fold (needs_norm (E.r_epieces ps)). destruct (needs_norm (E.r_epieces ps)) eqn:E; [|reflexivity].
  destruct (inline_AExp decls Hdecls k false ps q tr Hin Hok tb_new eq_refl) as (t' & HA & Hp').
  unfold entity_levels. rewrite norm_attr_lvl_unfold. cbn [sl sl_start sl_end].
  rewrite (stream_from_substr_W text vs (E.r_epieces ps) _ HW). cbn [bind]. rewrite Hc, Hes.
  pose proof (W_le _ _ _ (W_app _ _ _ _ HW)) as Hle.
  destruct (AL text Hascii decls es Henv Hdecls Hadjs false ps tb_new q tr t' HA
              (vs + blen (E.r_epieces ps)) vs ([quote] ++ more) ld_init ld' (S (N.to_nat ld_max_depth))
              (S (length (s_rest (sst (vs + blen (E.r_epieces ps)) vs (E.r_epieces ps ++ [quote] ++ more))))))
    as [Eloop Hd]; try assumption; try reflexivity.
  { cbn [sst s_rest]. rewrite app_length. lia. }
  rewrite Eloop. cbn [bind].
  destruct (AExp_sem decls Hdecls Hadjs false ps tb_new q tr t' HA Hok Hadj eq_refl Hs) as [Epush _].
  pose proof (attr_chunks_normalise (chunks q) t' Epush) as Hn.
  unfold tb_finish. rewrite Hn.
  assert (Hval : valid_utf8_b (norm_attr_chunks (chunks q)) = true).
  { apply valid_iff_Valid. apply Valid_norm_attr. apply (AExp_chunks _ _ _ _ _ _ HA Hok). }
  rewrite Hval. cbn [bind]. rewrite (ld_run_init tr ld' Hld Hd). rewrite <- Hc, set_ld_same. reflexivity.
Qed.

(* ---- a text token with references, at the top level ---- *)
Lemma tok_estretch p l more c0 c frs q tr F ld' :
  W p (E.r_epieces l ++ more) -> Forall (ep_ok false) l -> l <> [] ->
  Exp decls false [] l q tr F -> ld_run ld_init tr = Some ld' ->
  c_ld c = ld_init -> c_entities c = es ->
  CI c0 -> (frs = [] -> F <> [] -> room c0) -> c_after_text c0 = [] -> Run c0 c frs ->
  exists c' G,
    tok_ev (TText (sl p (p + blen (E.r_epieces l))) (p, p + blen (E.r_epieces l))) c = Ok c' /\
    Run c0 c' (frs ++ G) /\ map (cow_bytes text) G = F /\
    c_ld c' = ld_init /\ c_tag_name c' = c_tag_name c /\ c_entity_floor c' = c_entity_floor c.
Proof.
  intros HW Hok Hne He Hld Hc Hes I R Hat HR.
  unfold CstBuild.tok_ev, Parse.token. cbn [token_with]. unfold process_text.
  rewrite process_text_with_unfold. unfold slice_bytes at 1. cbn [sl sl_start sl_end].
  rewrite (W_sub _ _ _ _ HW).
  pose proof (W_le _ _ _ (W_app _ _ _ _ HW)) as Hle.
  destruct (existsb (fun x => (x =? 38) || (x =? 13)) (E.r_epieces l)) eqn:Efast; cbn [negb].
  - cbn [fst snd]. rewrite (stream_from_substr_W text p (E.r_epieces l) more HW). cbn [bind].
    destruct (TL text Hascii decls es Henv Hdecls false [] l q tr F He (p + blen (E.r_epieces l)) p more c0 c frs
                (S (length (s_rest (sst (p + blen (E.r_epieces l)) p (E.r_epieces l ++ more))))) entity_levels
                (p, p + blen (E.r_epieces l)) ld')
      as (c' & G & E' & HR' & HG & K1 & K2 & K3 & K4); try assumption; try reflexivity.
    + rewrite Hc. reflexivity.
    + constructor.
    + rewrite Hc. exact Hld.
    + rewrite Hc. reflexivity.
    + cbn [sst s_rest]. rewrite app_length. lia.
    + cbn [push_text_chunks] in E'. rewrite E'. exists c', G. repeat split; auto.
      rewrite K1. apply (ld_run_init tr ld' Hld). rewrite K2, Hc. reflexivity.
  - destruct (existsb_or_false _ _ _ Efast) as [E38 E13].
    destruct (exp_plain decls false l [] q tr F He Hok E38) as [-> ->]. cbn [app] in *.
    assert (Hemit : emit false (map CLit (E.r_epieces l)) = [E.r_epieces l]).
    { unfold emit. rewrite text_chunks_decode_partial.
      - rewrite decode_lits, norm_eol_nocr by exact E13.
        destruct (E.r_epieces l) as [|y x'] eqn:Ex; [|reflexivity].
        exfalso. destruct l as [|[pp|nn] l']; [congruence| |discriminate Ex].
        apply Forall_cons_iff in Hok. destruct Hok as [[Hv _] _]. destruct (r_piece_ne 60 pp Hv) as (x1 & r1 & E1).
        rewrite r_epieces_cons in Ex. cbn [E.r_epiece] in Ex. rewrite E1 in Ex. discriminate.
      - apply Forall_forall. intros ch Hin. apply in_map_iff in Hin. destruct Hin as (x & <- & _). discriminate. }
    destruct (run_append (CowBorrowed (sl p (p + blen (E.r_epieces l)))) (p, p + blen (E.r_epieces l)) c0 c frs HR I
                (fun Z0 => R Z0 ltac:(rewrite Hemit; discriminate)) Hat)
      as (c' & Ea & HRa & La1 & La2 & La3).
    rewrite Ea. exists c', [CowBorrowed (sl p (p + blen (E.r_epieces l)))]. repeat split; auto; [|congruence].
    cbn [map cow_bytes]. unfold slice_bytes. cbn [sl sl_start sl_end]. rewrite (W_sub _ _ _ _ HW). rewrite Hemit. reflexivity.
Qed.

(* ---- attributes ---- *)
Definition raw (a : E.attr) : rattr :=
  {| ra_ws := E.a_ws a; ra_name := E.a_name a; ra_ws1 := E.a_ws1 a; ra_ws2 := E.a_ws2 a;
     ra_quote := E.a_quote a; ra_value := E.r_epieces (E.a_value a) |}.

Lemma raw_render a : r_rattr (raw a) = E.r_attr a.
Proof. reflexivity. Qed.

Lemma raws_render attrs : flat_map r_rattr (map raw attrs) = flat_map E.r_attr attrs.
Proof. induction attrs as [|a r IH]; [reflexivity|]. cbn [map flat_map]. rewrite IH. reflexivity. Qed.

Lemma ewf_attr_parts a : E.wf_attr false a = true ->
  wf_rattr (raw a) /\ forallb (E.wf_epiece (E.a_quote a) false false false) (E.a_value a) = true /\
  E.no_adjacent_elit (E.a_value a) = true /\ (E.a_quote a = 39 \/ E.a_quote a = 34).
Proof.
  unfold E.wf_attr, E.wf_epieces. rewrite !andb_true_iff. intros (((((H1 & H2) & H3) & H4) & H5) & (H6 & H7)).
  assert (Hq : E.a_quote a = 39 \/ E.a_quote a = 34) by lia.
  split; [|auto]. unfold wf_rattr, raw. cbn [ra_ws ra_name ra_ws1 ra_ws2 ra_quote ra_value].
  destruct (ws1_parts _ H1) as [A B0]. repeat split; try assumption. apply epieces_vbytes; assumption.
Qed.

Definition ta_e (q : N) (a : E.attr) (qv : list T.piece) : temp_attr :=
  let start := q + blen (E.a_ws a) in
  let ne := start + blen (E.a_name a) in
  let eqe := ne + blen (E.a_ws1 a) + 1 + blen (E.a_ws2 a) in
  let vs := eqe + 1 in
  let ve := vs + blen (E.r_epieces (E.a_value a)) in
  {| ta_prefix := sl start start; ta_local := sl start ne;
     ta_value := if needs_norm (E.r_epieces (E.a_value a)) then Owned (T.value_sem qv)
                 else Borrowed (SIn (sl vs ve));
     ta_range := (start, ve + 1); ta_qname_len := N.min (ne - start) qname_len_sat;
     ta_eq_len := N.min (eqe - ne) eq_len_sat |}.

Lemma eattr_slices q a more : W q (E.r_attr a ++ more) ->
  let start := q + blen (E.a_ws a) in
  let ne := start + blen (E.a_name a) in
  let eqe := ne + blen (E.a_ws1 a) + 1 + blen (E.a_ws2 a) in
  let vs := eqe + 1 in
  let ve := vs + blen (E.r_epieces (E.a_value a)) in
  slice_bytes text (sl start ne) = E.a_name a /\ slice_bytes text (sl vs ve) = E.r_epieces (E.a_value a) /\
  W vs (E.r_epieces (E.a_value a) ++ [E.a_quote a] ++ more).
Proof.
  intros HW. cbv zeta. unfold E.r_attr in HW. rewrite <- !app_assoc in HW.
  pose proof (W_app _ _ _ _ HW) as H1. pose proof (W_app _ _ _ _ H1) as H2.
  pose proof (W_app _ _ _ _ H2) as H3. pose proof (W_app _ _ _ _ H3) as H4.
  pose proof (W_app _ _ _ _ H4) as H5. pose proof (W_app _ _ _ _ H5) as H6.
  change (blen [61]) with 1 in *. change (blen [E.a_quote a]) with 1 in *.
  split; [apply (W_slice _ _ _ _ H1)|]. split; [apply (W_slice _ _ _ _ H6)|exact H6].
Qed.

Definition enot_xmlns (a : E.attr) : bool := negb (T.is_xmlns (E.a_name a)).

Lemma tok_eattr q a more c k qv tr ld' : W q (E.r_attr a ++ more) -> E.wf_attr false a = true -> enot_xmlns a = true ->
  E.inline_ps (E.level decls k) true false (E.a_value a) = Some (qv, tr) -> E.crlf_split_ok qv = true ->
  ld_run ld_init tr = Some ld' -> c_ld c = ld_init -> c_entities c = es ->
  tok_ev (rattr_tok q (raw a)) c = Ok (set_cur_attrs c (c_cur_attrs c ++ [ta_e q a qv])).
Proof.
  intros HW Hwf Hx Hin Hs Hld Hc Hes. destruct (eattr_slices _ _ _ HW) as (S1 & S2 & HWv). cbv zeta in S1, S2, HWv.
  destruct (ewf_attr_parts _ Hwf) as (_ & Hv & Hadj & Hq).
  unfold CstBuild.tok_ev, Parse.token, rattr_tok, ta_e, vlen. cbv zeta. cbn [token_with ra_ws ra_name ra_ws1 ra_ws2 ra_value raw].
  unfold process_attribute.
  rewrite (normalize_attribute_ent _ _ _ _ c k qv tr ld' HWv Hq Hv Hadj Hin Hs Hld Hc Hes). cbn [bind].
  rewrite slice_empty, S1.
  change (bytes_eqb [] xmlns_str) with false. cbv iota.
  rewrite bytes_eqb_neq.
  2:{ unfold enot_xmlns, T.is_xmlns in Hx.
      destruct (list_eq_dec N.eq_dec (E.a_name a) [120; 109; 108; 110; 115]); [discriminate|]. exact n. }
  rewrite ?andb_false_r. reflexivity.
Qed.

Fixpoint tas_e (q : N) (attrs : list E.attr) (attrs' : list T.attr) : list temp_attr :=
  match attrs, attrs' with
  | a :: r, a' :: r' => ta_e q a (T.a_value a') :: tas_e (q + blen (E.r_attr a)) r r'
  | _, _ => []
  end.

Lemma eattrs_evs more k : forall attrs attrs' tr q c ld',
  W q (flat_map E.r_attr attrs ++ more) -> forallb (E.wf_attr false) attrs = true ->
  forallb enot_xmlns attrs = true ->
  E.inline_attrs (E.level decls k) false attrs = Some (attrs', tr) ->
  forallb (fun a => E.crlf_split_ok (T.a_value a)) attrs' = true ->
  ld_run ld_init tr = Some ld' -> c_ld c = ld_init -> c_entities c = es ->
  evs context tok_ev (rattr_toks q (map raw attrs)) c = Ok (set_cur_attrs c (c_cur_attrs c ++ tas_e q attrs attrs')) /\
  ld' = ld_init /\ length attrs' = length attrs /\ map T.a_name attrs' = map E.a_name attrs.
Proof.
  induction attrs as [|a attrs IH]; intros attrs' tr q c ld' HW Hwf Hx Hin Hs Hld Hc Hes.
  - cbn [E.inline_attrs] in Hin. injection Hin as <- <-. cbn [map rattr_toks evs tas_e]. rewrite app_nil_r.
    cbn [ld_run] in Hld. injection Hld as <-. split; [destruct c; reflexivity|auto].
  - cbn [forallb] in Hwf, Hx. apply andb_true_iff in Hwf. destruct Hwf as [Hw1 Hw2].
    apply andb_true_iff in Hx. destruct Hx as [Hx1 Hx2].
    cbn [E.inline_attrs] in Hin. unfold E.inline_attr in Hin.
    destruct (E.inline_ps (E.level decls k) true false (E.a_value a)) as [[qv tra]|] eqn:Ea; [|discriminate].
    cbn [E.obind fst snd] in Hin.
    destruct (E.inline_attrs (E.level decls k) false attrs) as [[ar trr]|] eqn:Er; [|discriminate].
    cbn [E.obind fst snd] in Hin. injection Hin as <- <-.
    cbn [forallb T.a_value] in Hs. apply andb_true_iff in Hs. destruct Hs as [Hs1 Hs2].
    rewrite ld_run_app in Hld. destruct (ld_run ld_init tra) as [ld1|] eqn:El1; [|discriminate].
    cbn [flat_map] in HW. rewrite <- app_assoc in HW.
    destruct (ewf_attr_parts _ Hw1) as (_ & Hv & Hadj & Hq).
    assert (Hok : Forall (ep_ok false) (E.a_value a)).
    { apply Forall_forall. intros p Hp. rewrite forallb_forall in Hv. specialize (Hv p Hp).
      apply (ep_ok_of_wf (E.a_quote a) false false); [exact Hv|]. destruct p as [[| | |bs]|]; try reflexivity. discriminate. }
    assert (E1 : ld1 = ld_init).
    { destruct (inline_AExp decls Hdecls k false _ _ _ Ea Hok tb_new eq_refl) as (t' & HA & _).
      destruct (eattr_slices _ _ _ HW) as (_ & _ & HWv). cbv zeta in HWv.
      pose proof (W_le _ _ _ (W_app _ _ _ _ HWv)) as Hle.
      destruct (AL text Hascii decls es Henv Hdecls Hadjs false _ tb_new qv tra t' HA _ _ _ ld_init ld1 11%nat
                  (S (length (E.r_epieces (E.a_value a)))) Hok Hadj HWv eq_refl Hle eq_refl El1 eq_refl ltac:(lia)) as [_ Hd].
      apply (ld_run_init tra ld1 El1 Hd). }
    subst ld1.
    cbn [map rattr_toks evs tas_e T.a_value].
    rewrite (tok_eattr q a _ c k qv tra ld_init HW Hw1 Hx1 Ea Hs1 El1 Hc Hes). cbn [bind].
    assert (HW' : W (q + blen (r_rattr (raw a))) (flat_map E.r_attr attrs ++ more)).
    { rewrite raw_render. apply (W_app _ _ _ _ HW). }
    destruct (IH ar trr (q + blen (r_rattr (raw a))) (set_cur_attrs c (c_cur_attrs c ++ [ta_e q a qv])) ld'
                HW' Hw2 Hx2 eq_refl Hs2 Hld Hc Hes) as (E2 & E3 & E4 & E5).
    rewrite E2. cbn [c_cur_attrs set_cur_attrs]. rewrite <- app_assoc. rewrite raw_render.
    split; [reflexivity|]. split; [exact E3|]. cbn [length map T.a_name]. split; congruence.
Qed.

(* a value without '&' is inlined to itself *)
Lemma inline_plain tb fa ie : forall ps q tr, existsb (fun x => x =? 38) (E.r_epieces ps) = false ->
  forallb (fun p => negb (is_ecdata p)) ps = true ->
  E.inline_ps tb fa ie ps = Some (q, tr) -> chunks q = map CLit (E.r_epieces ps).
Proof.
  induction ps as [|p ps IH]; intros q tr Hn Hc Hin.
  - injection Hin as <- <-. reflexivity.
  - rewrite r_epieces_cons, existsb_app in Hn. apply orb_false_iff in Hn. destruct Hn as [Hn1 Hn2].
    cbn [forallb] in Hc. apply andb_true_iff in Hc. destruct Hc as [Hc1 Hc2].
    cbn [E.inline_ps] in Hin. destruct p as [p|n]; [|cbn in Hn1; discriminate].
    destruct (fa && ie && E.is_lt_ref p); [discriminate|].
    destruct (E.inline_ps tb fa ie ps) as [[q' tr']|] eqn:Er; [|discriminate]. cbn [E.obind fst snd] in Hin.
    injection Hin as <- <-. unfold chunks. cbn [flat_map]. fold (chunks q'). rewrite (IH _ _ Hn2 Hc2 eq_refl).
    rewrite r_epieces_cons, map_app. f_equal.
    destruct p as [bs|hex ds|e|bs]; cbn [E.r_epiece T.r_piece T.piece_chunks is_ecdata] in *; try reflexivity; discriminate.
Qed.

Lemma tas_e_facts more k : forall attrs attrs' tr q,
  W q (flat_map E.r_attr attrs ++ more) -> forallb (E.wf_attr false) attrs = true ->
  E.inline_attrs (E.level decls k) false attrs = Some (attrs', tr) ->
  map (fun t => slice_bytes text (ta_local t)) (tas_e q attrs attrs') = map E.a_name attrs /\
  map (fun t => storage_bytes text (ta_value t)) (tas_e q attrs attrs') = map (fun a => T.value_sem (T.a_value a)) attrs' /\
  Forall (fun t => slice_bytes text (ta_prefix t) = []) (tas_e q attrs attrs') /\
  len_N (tas_e q attrs attrs') = len_N attrs.
Proof.
  induction attrs as [|a attrs IH]; intros attrs' tr q HW Hwf Hin.
  - cbn [E.inline_attrs] in Hin. injection Hin as <- <-. repeat split; constructor.
  - cbn [forallb] in Hwf. apply andb_true_iff in Hwf. destruct Hwf as [Hw1 Hw2].
    cbn [E.inline_attrs] in Hin. unfold E.inline_attr in Hin.
    destruct (E.inline_ps (E.level decls k) true false (E.a_value a)) as [[qv tra]|] eqn:Ea; [|discriminate].
    cbn [E.obind fst snd] in Hin.
    destruct (E.inline_attrs (E.level decls k) false attrs) as [[ar trr]|] eqn:Er; [|discriminate].
    cbn [E.obind fst snd] in Hin. injection Hin as <- <-.
    cbn [flat_map] in HW. rewrite <- app_assoc in HW.
    destruct (eattr_slices _ _ _ HW) as (S1 & S2 & _). cbv zeta in S1, S2.
    destruct (IH ar trr _ (W_app _ _ _ _ HW) Hw2 eq_refl) as (I1 & I2 & I3 & I4).
    cbn [tas_e map T.a_value]. unfold ta_e at 1 2 3. cbv zeta. cbn [ta_local ta_value ta_prefix].
    rewrite S1, I1, I2. split; [reflexivity|]. split; [|split; [constructor; [apply slice_empty|exact I3]|]].
    + f_equal. destruct (needs_norm (E.r_epieces (E.a_value a))) eqn:En; cbn [storage_bytes str_bytes]; [reflexivity|].
      rewrite S2. unfold needs_norm in En.
      destruct (ewf_attr_parts _ Hw1) as (_ & Hv & _).
      assert (E38 : existsb (fun x => x =? 38) (E.r_epieces (E.a_value a)) = false).
      { revert En. generalize (E.r_epieces (E.a_value a)) as l. induction l as [|x l IHl]; [reflexivity|]. cbn [existsb]. intros H.
        apply orb_false_iff in H. destruct H as [H1 H2]. rewrite IHl by exact H2. lia. }
      unfold T.value_sem. fold (chunks qv). rewrite (inline_plain _ _ _ _ _ _ E38 ltac:(
        clear - Hv; induction (E.a_value a) as [|p l IHl]; [reflexivity|]; cbn [forallb] in *; apply andb_true_iff in Hv;
        destruct Hv as [Hp Hl]; rewrite IHl by exact Hl; destruct p as [[| | |bs]|]; try reflexivity; discriminate) Ea).
      symmetry. apply norm_attr_lits_plain.
      revert En. generalize (E.r_epieces (E.a_value a)) as l. induction l as [|x l IHl]; [reflexivity|]. cbn [existsb]. intros H.
      apply orb_false_iff in H. destruct H as [H1 H2]. rewrite IHl by exact H2. lia.
    + unfold len_N in *. cbn [length]. lia.
Qed.

Lemma start_tag_e p name attrs attrs' tr k ws_end empty post c ld' :
  W p ([60] ++ name ++ flat_map E.r_attr attrs ++ ws_end ++ tag_tail empty ++ post) ->
  name <> [] -> forallb (E.wf_attr false) attrs = true -> forallb enot_xmlns attrs = true ->
  Cst.names_distinct (map E.a_name attrs) = true ->
  E.inline_attrs (E.level decls k) false attrs = Some (attrs', tr) ->
  forallb (fun a => E.crlf_split_ok (T.a_value a)) attrs' = true -> ld_run ld_init tr = Some ld' ->
  CI c -> c_ld c = ld_init -> c_entities c = es -> room c -> len_N (d_attrs (c_doc c)) + len_N attrs < u32_max ->
  let q' := p + 1 + blen name + blen (flat_map E.r_attr attrs) + blen ws_end in
  let id := len_N (d_nodes (c_doc c)) in
  exists c' ar,
    (let! c1 := evs context tok_ev (rstart_toks p name (map raw attrs)) c in tok_ev (end_tok q' empty) c1) = Ok c' /\
    Step0 c c' [(Some (c_parent_id c), KElement None (sl (p + 1) (p + 1 + blen name)) ar (1, 1))]
          (map ad_of (tas_e (p + 1 + blen name) attrs attrs')) /\
    (forall m, km text (d_attrs (c_doc c')) (Some (c_parent_id c), KElement None (sl (p + 1) (p + 1 + blen name)) ar (1, 1))
       (c_parent_id c, Cst.VElem name (T.eattrs attrs') m)) /\
    CI c' /\ c_after_text c' = [] /\ tn_set c' /\ ld' = ld_init /\
    if empty
    then c_parent_id c' = c_parent_id c /\ c_parent_prefixes c' = c_parent_prefixes c
    else c_parent_id c' = id /\ c_parent_prefixes c' = c_parent_prefixes c ++ [sl (p + 1) (p + 1)] /\
         c_awaiting c' = [].
Proof.
  intros HW Hne Hwf Hx Hnd Hin Hcr Hrun I Hc Hes R Hlim q' id.
  pose proof (W_app _ _ _ _ HW) as HW1. change (blen [60]) with 1 in HW1.
  pose proof (W_app _ _ _ _ HW1) as HW2.
  destruct (tas_e_facts _ k _ _ _ _ HW2 Hwf Hin) as (Tn & Tv & Tp & Tl).
  unfold rstart_toks. cbn [evs].
  (* ElementStart *)
  unfold CstBuild.tok_ev at 1, Parse.token at 1. cbn [token_with].
  rewrite (reset_after_text_ok text) by apply (ci_at _ I). cbn [bind].
  rewrite slice_empty. change (bytes_eqb [] xmlns_str) with false. cbv iota. cbn [bind].
  fold (CstBuild.tok_ev text). fold (tn_of p name).
  (* attributes *)
  destruct (eattrs_evs _ k attrs attrs' tr (p + 1 + blen name)
              (set_tag_name (set_after_text c []) (tn_of p name)) ld' HW2 Hwf Hx Hin Hcr Hrun Hc Hes) as (Eevs & Eld & Elen & Enames).
  rewrite Eevs. cbn [bind].
  cbn [c_cur_attrs set_tag_name set_after_text]. rewrite (ci_cur _ I). cbn [app].
  (* ElementEnd *)
  unfold CstBuild.tok_ev, Parse.token, end_tok. cbn [token_with].
  rewrite (reset_after_text_ok text) by (cbn; lia). cbn [bind].
  unfold process_element.
  cbn [c_tag_name set_after_text set_cur_attrs set_tag_name tn_name tn_of].
  unfold slice_len at 1. cbn [sl sl_start sl_end].
  replace (p + 1 + blen name - (p + 1) =? 0) with false
    by (destruct name; [congruence|rewrite blen_cons; lia]).
  rewrite (resolve_namespaces_ok text); [|apply (ci_ns _ I)|apply (ci_tree _ I)|apply (ci_pid _ I)|apply (ci_par _ I)].
  cbn [bind].
  rewrite (resolve_attributes_ok text).
  2:{ cbn. exact Tp. }
  2:{ cbn. rewrite Tn. apply names_distinct_NoDup. exact Hnd. }
  2:{ cbn. rewrite Tl. exact Hlim. }
  cbn [bind].
  cbn [c_cur_attrs c_doc set_ns_start_idx set_after_text set_cur_attrs set_tag_name set_doc c_tag_name tn_of
       tn_prefix tn_prefix_pos tn_name tn_pos].
  rewrite (get_ns_ok text); [|cbn; apply (ci_tree _ I)|apply slice_empty].
  set (A := d_attrs (c_doc c)). set (TT := tas_e (p + 1 + blen name) attrs attrs').
  set (ar := attr_range A TT).
  set (kind := KElement None (sl (p + 1) (p + 1 + blen name)) ar (1, 1)).
  assert (Hkm : forall m ext, km text ((A ++ map ad_of TT) ++ ext) (Some (c_parent_id c), kind)
                 (c_parent_id c, Cst.VElem name (T.eattrs attrs') m)).
  { intros m ext. apply km_ext. split; [reflexivity|]. cbn [snd kind].
    split; [reflexivity|]. split; [apply (W_slice _ _ _ _ HW1)|]. split.
    - unfold ar. rewrite attrs_list_new. unfold T.eattrs. rewrite <- Enames in Tn.
      apply combine_names_vals; assumption.
    - unfold ar, attr_range. rewrite len_N_app, len_N_map. destruct TT; cbn [fst snd]; lia. }
  destruct empty; cbv iota; cbn [bind]; fold kind;
  (match goal with |- context [append_node kind ?r ?cc] =>
    destruct (append_node_ok kind r cc) as (nodes' & E & M & Ln);
      [apply (ci_pid _ I)|apply (ci_aw _ I)|exact R|]; rewrite E; clear E end);
  cbn [bind]; cbn in M, Ln.
  - eexists. exists ar. split; [reflexivity|].
    match goal with |- Step0 c ?c' _ _ /\ _ => assert (S : Step0 c c' [(Some (c_parent_id c), kind)] (map ad_of TT)) end.
    { constructor.
      - repeat split; cbn; try reflexivity. rewrite (ci_ns _ I). apply (ci_tree _ I).
      - cbn. symmetry. apply (ci_cur _ I).
      - exact M.
      - reflexivity.
      - clear. induction TT; constructor; [reflexivity|assumption]. }
    split; [exact S|]. split.
    { intros m. cbn. rewrite <- (app_nil_r (A ++ map ad_of TT)). apply Hkm. }
    split.
    { eapply CI_intro; [exact I|exact S| | | | |].
      - cbn. apply (ci_pp _ I).
      - cbn. rewrite Ln. pose proof (ci_pid _ I). lia.
      - cbn. destruct (ci_par _ I) as (par & k0 & Ep & Hk). exists par, k0. split; [|exact Hk].
        unfold absn. cbn. rewrite M. rewrite nth_error_app1; [exact Ep|].
        pose proof (ci_pid _ I) as Hp. rewrite <- absn_len in Hp. unfold len_N, absn in Hp. lia.
      - cbn. constructor; [|constructor]. rewrite Ln. lia.
      - cbn. lia. }
    split; [reflexivity|]. split.
    { unfold tn_set. cbn. unfold slice_len. cbn. destruct name; [congruence|rewrite blen_cons; lia]. }
    split; [exact Eld|]. split; reflexivity.
  - eexists. exists ar. split; [reflexivity|].
    match goal with |- Step0 c ?c' _ _ /\ _ => assert (S : Step0 c c' [(Some (c_parent_id c), kind)] (map ad_of TT)) end.
    { constructor.
      - repeat split; cbn; try reflexivity. rewrite (ci_ns _ I). apply (ci_tree _ I).
      - cbn. symmetry. apply (ci_cur _ I).
      - exact M.
      - reflexivity.
      - clear. induction TT; constructor; [reflexivity|assumption]. }
    split; [exact S|]. split.
    { intros m. cbn. rewrite <- (app_nil_r (A ++ map ad_of TT)). apply Hkm. }
    split.
    { eapply CI_intro; [exact I|exact S| | | | |].
      - cbn. destruct (c_parent_prefixes c); discriminate.
      - cbn. rewrite Ln. lia.
      - cbn. exists (Some (c_parent_id c)), kind. split; [|reflexivity].
        unfold absn. cbn. rewrite M.
        replace (N.to_nat (len_N (d_nodes (c_doc c)))) with (length (map abs_nd (d_nodes (c_doc c))))
          by (unfold len_N; rewrite map_length; lia).
        rewrite nth_error_app2 by lia. rewrite Nat.sub_diag. reflexivity.
      - cbn. constructor.
      - cbn. lia. }
    split; [reflexivity|]. split.
    { unfold tn_set. cbn. unfold slice_len. cbn. destruct name; [congruence|rewrite blen_cons; lia]. }
    split; [exact Eld|]. repeat split.
Qed.


End EBuild.

Print Assumptions normalize_attribute_ent.
Print Assumptions tok_estretch.
Print Assumptions start_tag_e.
