(* Proofs/CstSoundPRCor.v -- C08 WITH A PROLOG AND ENTITIES on stage S5 of Spec/CstFullS5.v: soundness
   (CstSoundPRDoc.v: parse_sound_fragment_p, references to declared entities used in text, in
   attribute values and in the values of namespace declarations) and completeness (CstFullS5.v): an
   accepted input of the fragment is the rendering of a well-formed S5 document and the parser
   returns the meaning of that document. *)
From Coq Require Import List NArith Bool Lia ZifyBool ZifyN ZifyNat.
Import ListNotations.
From RX Require Import Generated.
From RX.Model Require Import Base CharClass Stream Tokenizer Doc Builder Parse.
From RX.Spec Require Import CstFull CstFullS5.
From RX.Proofs Require CstNsView CstFullS5.
From RX.Proofs Require Import CstSoundP CstSoundPRDoc.
Open Scope N_scope.

(* The two namespace resource hypotheses of the completeness theorem (at most 65535 distinct declared
   bindings; the namespace table fits in u32) are DERIVED from acceptance: parse_sound_fragment_p_res. *)
Theorem parse_sound_and_complete_p : forall text opt d,
  in_fragment_p text = true -> allow_dtd opt = true -> parse text opt = Ok d ->
  N.of_nat (length text) <= nodes_limit opt ->      (* room for all nodes *)
  N.of_nat (length text) <= u32_max ->              (* the input is at most u32::MAX bytes long *)
  exists c : S5.doc,
    S5.wf_doc c = true /\ S5.render c = text /\ CstNsView.view text d = Some (S5.sem c).
Proof.
  intros text opt d Hf Hallow H Hlim Hsz.
  destruct (parse_sound_fragment_p_res text opt d Hf Hallow H) as (c & Hwf & Hr & Hd & Hc).
  exists c. split; [exact Hwf|]. split; [exact Hr|].
  destruct (CstFullS5.s5_render_bounds c Hwf) as [B1 _]. rewrite Hr in B1.
  destruct (CstFullS5.parse_render_sem_full_s5 c opt Hwf (fun _ => Hallow)) as (d' & Hp & Hv).
  - lia.
  - rewrite Hr. exact Hsz.
  - exact Hd.
  - exact Hc.
  - rewrite Hr in Hp, Hv. rewrite H in Hp. injection Hp as <-. exact Hv.
Qed.
Print Assumptions parse_sound_and_complete_p.
