(* Proofs/CstFullRejSanity.v -- the hypotheses of the rejection theorems of Proofs/CstFullRejMain.v are satisfiable: boolean
   versions of them ([hyps6], [deepb6], [cyclicb6], [over_budgetb6]) hold, by computation, of sample documents of
   Spec/CstFullS6.v -- self loop, 2-cycle, cycle entered from outside, chain of 11, 256 references; in character data,
   in attribute values, in the URI of a namespace declaration, through entities with MARKUP; with Unicode names,
   namespaces (prefixes bound at the place of the reference), CR in markup white space and the full prolog -- so that
   their rejection with EntityReferenceLoop is an INSTANCE of the theorems; and the neighbours within the limits (chain
   of 10, 255 references) are accepted by [limits_decide_full_s6].  What the namespace hypothesis excludes is shown at
   the end: a namespace error met before the detector stops wins. *)
From Coq Require Import Ascii String.
From Coq Require Import List NArith PeanoNat Bool Lia ZifyBool ZifyN ZifyNat.
Import ListNotations.
From RX Require Import Generated.
From RX.Model Require Import Base CharClass Stream Tokenizer Doc Builder Parse.
From RX.Spec Require Cst CstText CstEnt Detector CstNs CstU.
From RX.Spec Require Import Text CstFull CstFullS4 CstFullS6.
From RX.Proofs Require Import CstNsView CstFullMain CstFullS4Sem CstFullS6Sanity.
From RX.Proofs Require Import CstFullRejSem CstFullRejTrace CstFullRejMain.
From RX.Proofs Require CstFullS4Main.
Open Scope N_scope.

(* ---- the hypotheses shared by the theorems, as a boolean ---- *)
Definition hyps6 (c : S6.doc) (opt : options) : bool :=
  wf_syntax6 c && (negb (S6.has_dtd c) || allow_dtd opt) &&
  match ginline6 c with
  | Some (cT, _) =>
    provisos_item (d_root cT) && forallb (ns_ok []) (den bmeaning (d_root cT)) &&
    (N.of_nat (length (usem6 c cT)) <? nodes_limit opt) && (N.of_nat (length (usem6 c cT)) <? u32_max) &&
    (N.of_nat (CstFullS4Main.vattrs (usem6 c cT)) <? u32_max) &&
    (length (doc_decls bmeaning cT) <=? N.to_nat 65535)%nat &&
    (1 + N.of_nat (CstFull.ns_cost bmeaning cT) <=? u32_max)
  | None => false
  end.

Definition limits_of6 (c : S6.doc) : option bool :=
  match ginline6 c with Some (_, tr) => Some (Detector.within_limits 10 255 0 0 tr) | None => None end.

Lemma hyps6_use c opt (P : Prop) :
  hyps6 c opt = true ->
  (forall cT tr, wf_syntax6 c = true -> ginline6 c = Some (cT, tr) -> provisos_item (d_root cT) = true ->
     forallb (ns_ok []) (den bmeaning (d_root cT)) = true ->
     (S6.has_dtd c = true -> allow_dtd opt = true) -> N.of_nat (length (usem6 c cT)) < nodes_limit opt ->
     N.of_nat (length (usem6 c cT)) < u32_max -> N.of_nat (CstFullS4Main.vattrs (usem6 c cT)) < u32_max ->
     CstFull.distinct_decls_le bmeaning cT (N.to_nat 65535) -> 1 + N.of_nat (CstFull.ns_cost bmeaning cT) <= u32_max -> P) -> P.
Proof.
  unfold hyps6. intros H K. destruct (ginline6 c) as [[cT tr]|]; [|rewrite andb_false_r in H; discriminate].
  rewrite !andb_true_iff in H. destruct H as [[H1 H2] [[[[[[H3 H4] H5] H6] H7] H8] H9]].
  apply (K cT tr); try assumption; try reflexivity; try lia.
  - intros Hd. rewrite Hd in H2. exact H2.
  - apply distinct_by_count. apply Nat.leb_le. exact H8.
Qed.

(* ---- deciders for the graph properties ---- *)
Section Dec.
Variable decls : list xdecl.

Lemma beq_eq x y : E.beq x y = true -> x = y.
Proof. unfold E.beq. destruct (list_eq_dec N.eq_dec x y); [auto|discriminate]. Qed.

Fixpoint has_path (L : nat) (n : bytes) : bool :=
  match L with
  | O => false
  | S O => true
  | S L' => match first_xdecl decls n with Some d => existsb (has_path L') (urefs_value (x_value d)) | None => false end
  end.

Lemma has_path_sound : forall L n, has_path L n = true -> rpath4 decls n L.
Proof.
  induction L as [|L IH]; intros n H; [discriminate|]. destruct L as [|L]; [constructor|].
  cbn [has_path] in H. change (match L with O => true | S _ => match first_xdecl decls n with Some d => existsb (has_path (S L)) (urefs_value (x_value d)) | None => false end end) with (has_path (S L) n) in H.
  destruct (first_xdecl decls n) as [d|] eqn:Ed; [|discriminate].
  apply existsb_exists in H. destruct H as (n' & Hin & Hp).
  apply (rpath4_S decls n n' (S L)); [exists d; split; assumption|apply IH; exact Hp].
Qed.

Fixpoint reachb (fuel : nat) (n m : bytes) : bool :=
  E.beq n m ||
  match fuel with
  | O => false
  | S f => match first_xdecl decls n with Some d => existsb (fun n' => reachb f n' m) (urefs_value (x_value d)) | None => false end
  end.

Lemma reachb_sound : forall fuel n m, reachb fuel n m = true -> reach4 decls n m.
Proof.
  induction fuel as [|f IH]; intros n m H; cbn [reachb] in H; apply orb_true_iff in H; destruct H as [H|H].
  - apply beq_eq in H. subst. constructor.
  - discriminate.
  - apply beq_eq in H. subst. constructor.
  - destruct (first_xdecl decls n) as [d|] eqn:Ed; [|discriminate].
    apply existsb_exists in H. destruct H as (n' & Hin & Hp).
    apply (reach4_step decls n n' m); [exists d; split; assumption|apply IH; exact Hp].
Qed.

Definition on_cycleb (fuel : nat) (m : bytes) : bool :=
  match first_xdecl decls m with Some d => existsb (fun m' => reachb fuel m' m) (urefs_value (x_value d)) | None => false end.

Lemma on_cycleb_sound fuel m : on_cycleb fuel m = true -> on_cycle4 decls m.
Proof.
  unfold on_cycleb. destruct (first_xdecl decls m) as [d|] eqn:Ed; [|discriminate]. intros H.
  apply existsb_exists in H. destruct H as (m' & Hin & Hp). exists m'. split; [exists d; split; assumption|].
  apply (reachb_sound _ _ _ Hp).
Qed.

End Dec.

Notation body_of d := (d_root (S6.x_main d)).

Definition deepb6 (c : S6.doc) (L : nat) : bool :=
  existsb (has_path (S6.decls c) L) (urefs_item (body_of c)).

(* the names that are candidates for lying on a cycle: the declared ones *)
Definition cyclicb6 (c : S6.doc) : bool :=
  let decls := S6.decls c in
  let fuel := length decls in
  existsb (fun n => existsb (fun d => reachb decls fuel n (utf8s (x_name d)) && on_cycleb decls fuel (utf8s (x_name d))) decls)
          (urefs_item (body_of c)).

Definition over_budgetb6 (c : S6.doc) : bool :=
  existsb (fun n => (255 <? nested4 (S6.decls c) glevels n)%nat) (urefs_item (body_of c)).

Lemma deepb6_sound c L : deepb6 c L = true -> deep_doc6 c L.
Proof.
  unfold deepb6. intros H. apply existsb_exists in H. destruct H as (n & Hin & Hp).
  exists n. split; [exact Hin|apply has_path_sound; exact Hp].
Qed.

Lemma cyclicb6_sound c : cyclicb6 c = true -> cyclic_doc6 c.
Proof.
  unfold cyclicb6. intros H. apply existsb_exists in H. destruct H as (n & Hin & H).
  apply existsb_exists in H. destruct H as (d & _ & H). apply andb_true_iff in H. destruct H as [H1 H2].
  exists n, (utf8s (x_name d)). split; [exact Hin|]. split; [apply (reachb_sound _ _ _ _ H1)|apply (on_cycleb_sound _ _ _ H2)].
Qed.

Lemma over_budgetb6_sound c : over_budgetb6 c = true -> over_budget_doc6 c.
Proof.
  unfold over_budgetb6. intros H. apply existsb_exists in H. destruct H as (n & Hin & Hp).
  exists n. split; [exact Hin|]. apply Nat.ltb_lt. exact Hp.
Qed.

(* ---- the theorems with boolean hypotheses ---- *)
Definition Loop (c : S6.doc) (opt : options) : Prop := exists pos, parse (S6.render c) opt = Err (EntityReferenceLoop pos).

Theorem cycle_rejected_b c opt : hyps6 c opt = true -> cyclicb6 c = true -> Loop c opt.
Proof.
  intros H Hc. apply (hyps6_use c opt _ H). intros cT tr H1 H2 H3 H4 H5 H6 H7 H8 H9 H10.
  apply (cycle_rejected_full_s6 c opt cT tr); try assumption. apply cyclicb6_sound. exact Hc.
Qed.

Theorem depth_rejected_b c opt : hyps6 c opt = true -> deepb6 c 11 = true -> Loop c opt.
Proof.
  intros H Hc. apply (hyps6_use c opt _ H). intros cT tr H1 H2 H3 H4 H5 H6 H7 H8 H9 H10.
  apply (depth_exceeded_rejected_full_s6 c opt cT tr 11); try assumption; [lia|]. apply deepb6_sound. exact Hc.
Qed.

Theorem budget_rejected_b c opt : hyps6 c opt = true -> over_budgetb6 c = true -> Loop c opt.
Proof.
  intros H Hc. apply (hyps6_use c opt _ H). intros cT tr H1 H2 H3 H4 H5 H6 H7 H8 H9 H10.
  apply (budget_exceeded_rejected_full_s6 c opt cT tr); try assumption. apply over_budgetb6_sound. exact Hc.
Qed.

Theorem within_accepted_b c opt : hyps6 c opt = true -> limits_of6 c = Some true ->
  exists x, parse (S6.render c) opt = Ok x /\ view (S6.render c) x = Some (S6.sem c).
Proof.
  intros H Hc. apply (hyps6_use c opt _ H). intros cT tr H1 H2 H3 H4 H5 H6 H7 H8 H9 H10.
  unfold limits_of6 in Hc. rewrite H2 in Hc. injection Hc as Hc.
  destruct (limits_decide_full_s6 c opt cT tr H1 H2 H3 H4 H5 H6 H7 H8 H9 H10) as (Hacc & _).
  destruct (Hacc Hc) as (x & Hx & Hv & _ & Es). exists x. split; [exact Hx|]. rewrite Hv, Es. reflexivity.
Qed.

(* ------------------------------------------------------------------------------------------ *)
(* instances                                                                                  *)
(* ------------------------------------------------------------------------------------------ *)
Definition mae := 21069.
Definition XT n v := XEntity (xd n (X4.XText v)).
Definition XC n its := XEntity (xd n (X4.XContent its)).
Definition r0 cs := el [] (b "r") [] cs.

(* self loop, in content: character data; markup; a Unicode name; inside an element of the value *)
Example self1 : Loop (with_sub [XT (b "a") [rf (b "a")]] (r0 [tx [rf (b "a")]])) opt_dtd.
Proof. apply cycle_rejected_b; vm_compute; reflexivity. Qed.
Example self2 : Loop (with_sub [XT [na] [lit [eacute]; rf [na]; lit (b "y")]] (r0 [tx [lit (b "p"); rf [na]]])) opt_dtd.
Proof. apply cycle_rejected_b; vm_compute; reflexivity. Qed.
Example self3 : Loop (with_sub [XC (b "a") [em [] (b "i") []; tx [rf (b "a")]]] (r0 [tx [rf (b "a")]])) opt_dtd.
Proof. apply cycle_rejected_b; vm_compute; reflexivity. Qed.
Example self4 : Loop (with_sub [XC [mae] [el p_ [na] [] [tx [rf [mae]]]]] (el [] (b "r") [dc1 p_ [lit (b "urn:p")]] [tx [rf [mae]]])) opt_dtd.
Proof. apply cycle_rejected_b; vm_compute; reflexivity. Qed.
(* self loop, in an attribute value and in the URI of a namespace declaration *)
Example self5 : Loop (with_sub [XT (b "a") [lit (b "x"); rf (b "a")]] (em [] (b "r") [at2 [] (b "k") [lit (b "q"); rf (b "a")]])) opt_dtd.
Proof. apply cycle_rejected_b; vm_compute; reflexivity. Qed.
Example self6 : Loop (with_sub [XT (b "a") [lit (b "v"); rf (b "a")]] (em p_ (b "r") [dc1 p_ [rf (b "a")]])) opt_dtd.
Proof. apply cycle_rejected_b; vm_compute; reflexivity. Qed.
(* the entries before the failing one are read: a declaration and an attribute; the prefix of the element is declared AFTER it *)
Example self7 : Loop (with_sub [XT (b "a") [lit (b "v"); rf (b "a")]]
                        (em p_ (b "r") [dc1 (b "q") [lit (b "urn:q")]; at2 (b "q") (b "k") [lit (b "1")]; at2 [] (b "a") [rf (b "a")]; dc1 p_ [lit (b "u")]])) opt_dtd.
Proof. apply cycle_rejected_b; vm_compute; reflexivity. Qed.
(* an attribute inside an entity with markup refers to a looping entity; the prefix of that attribute is bound at the reference *)
Example self8 : Loop (with_sub [XC (b "a") [em [] (b "i") [at1 p_ (b "k") [rf (b "b")]]]; XT (b "b") [rf (b "b")]]
                        (el [] (b "r") [dc1 p_ [lit (b "urn:p")]] [tx [rf (b "a")]])) opt_dtd.
Proof. apply cycle_rejected_b; vm_compute; reflexivity. Qed.
(* 2-cycles *)
Example two1 : Loop (with_sub [XT (b "a") [rf (b "b")]; XT (b "b") [rf (b "a")]] (r0 [tx [rf (b "a")]])) opt_dtd.
Proof. apply cycle_rejected_b; vm_compute; reflexivity. Qed.
Example two2 : Loop (with_sub [XT (b "a") [rf (b "b")]; XT (b "b") [rf (b "a")]] (em [] (b "r") [at2 [] (b "k") [rf (b "b")]])) opt_dtd.
Proof. apply cycle_rejected_b; vm_compute; reflexivity. Qed.
Example two3 : Loop (with_sub [XC (b "a") [tx [rf (b "b")]]; XC (b "b") [el [] (b "j") [] [tx [rf (b "a")]]]] (r0 [tx [rf (b "a")]])) opt_dtd.
Proof. apply cycle_rejected_b; vm_compute; reflexivity. Qed.
(* a cycle entered from outside; a harmless entity and elements first *)
Example outside1 : Loop (with_sub [XT (b "o") [lit (b "o"); rf (b "a")]; XT (b "a") [rf (b "b")]; XT (b "b") [rf (b "a")]]
                           (r0 [tx [lit (b "z"); rf (b "o")]])) opt_dtd.
Proof. apply cycle_rejected_b; vm_compute; reflexivity. Qed.
Example later1 : Loop (with_sub [XT (b "t") [lit (b "T")]; XT (b "a") [rf (b "t"); rf (b "a")]]
                         (r0 [em [] (b "x") []; tx [rf (b "t"); rf (b "a")]; em [] (b "y") []])) opt_dtd.
Proof. apply cycle_rejected_b; vm_compute; reflexivity. Qed.

(* everything at once: the document ex1 of Proofs/CstFullS6Sanity.v (byte order mark, XML declaration, DOCTYPE with
   external identifier, subset with every kind of declaration, markup entity with CR in its tags and a prefix bound at
   the place of the reference), with U+540D made to refer back to u: &u; -> &U+540D; -> &u; *)
Definition subset_cyc : subset6 :=
  {| zu_decls := map (fun s => match s with
                               | XEntity e => if list_eq_dec N.eq_dec (X4.x_name e) [na]
                                              then XEntity (xd [na] (X4.XText [lit [na; cr]; rf (b "u")])) else s
                               | _ => s end) (zu_decls subset1);
     zu_ws3 := zu_ws3 subset1; zu_ws4 := zu_ws4 subset1 |}.
Definition ex1_cyc : S6.doc :=
  {| S6.x_bom := S6.x_bom ex1; S6.x_decl := S6.x_decl ex1;
     S6.x_dtd := match S6.x_dtd ex1 with
                 | Some g => Some {| S6.g_ws0 := S6.g_ws0 g; S6.g_before := S6.g_before g;
                                     S6.g_dtd := {| z_ws1 := z_ws1 (S6.g_dtd g); z_name := z_name (S6.g_dtd g); z_ws2 := z_ws2 (S6.g_dtd g);
                                                    z_ext := z_ext (S6.g_dtd g); z_subset := Some subset_cyc |} |}
                 | None => None end;
     S6.x_main := S6.x_main ex1 |}.
Example ex1_cyclic : Loop ex1_cyc opt_dtd.
Proof. apply cycle_rejected_b; vm_compute; reflexivity. Qed.

(* chains: 10 names accepted, 11 rejected *)
Definition nm (m : nat) : scalars := [101; N.of_nat (97 + m)].
Fixpoint chainL (n : nat) : list sdecl6 :=
  match n with
  | O => [XT (nm 0) [lit (b "x")]]
  | S m => chainL m ++ [XT (nm (S m)) [rf (nm m)]]
  end.
Example chain10 : exists x, parse (S6.render (with_sub (chainL 9) (r0 [tx [rf (nm 9)]]))) opt_dtd = Ok x /\
                            view (S6.render (with_sub (chainL 9) (r0 [tx [rf (nm 9)]]))) x = Some (S6.sem (with_sub (chainL 9) (r0 [tx [rf (nm 9)]]))).
Proof. apply within_accepted_b; vm_compute; reflexivity. Qed.
Example chain11 : Loop (with_sub (chainL 10) (r0 [tx [rf (nm 10)]])) opt_dtd.
Proof. apply depth_rejected_b; vm_compute; reflexivity. Qed.
Example chain10a : exists x, parse (S6.render (with_sub (chainL 9) (em [] (b "r") [at2 [] (b "k") [rf (nm 9)]]))) opt_dtd = Ok x /\
                             view (S6.render (with_sub (chainL 9) (em [] (b "r") [at2 [] (b "k") [rf (nm 9)]]))) x =
                             Some (S6.sem (with_sub (chainL 9) (em [] (b "r") [at2 [] (b "k") [rf (nm 9)]]))).
Proof. apply within_accepted_b; vm_compute; reflexivity. Qed.
Example chain11a : Loop (with_sub (chainL 10) (em [] (b "r") [at2 [] (b "k") [rf (nm 10)]])) opt_dtd.
Proof. apply depth_rejected_b; vm_compute; reflexivity. Qed.
Example chain11ns : Loop (with_sub (chainL 10) (em p_ (b "r") [dc1 p_ [rf (nm 10)]])) opt_dtd.
Proof. apply depth_rejected_b; vm_compute; reflexivity. Qed.
(* a chain through elements and attribute values of entities with markup *)
Example chain11m : Loop (with_sub (chainL 8 ++ [XC (b "p") [em [] (b "i") [at1 [] (b "k") [rf (nm 8)]]];
                                                XC (b "q") [el p_ (b "j") [] [tx [rf (b "p")]]]])
                           (el [] (b "r") [dc1 p_ [lit (b "urn:p")]] [el [] (b "s") [] [tx [rf (b "q")]]])) opt_dtd.
Proof. apply depth_rejected_b; vm_compute; reflexivity. Qed.

(* the budget: 255 references below one accepted, 256 rejected *)
Definition fan (n : nat) := with_sub [XT (b "t") [lit (b "T")]; XT (b "e") (repeat (rf (b "t")) n)] (r0 [tx [rf (b "e")]]).
Definition fana (n : nat) := with_sub [XT (b "t") [lit (b "T")]; XT (b "e") (repeat (rf (b "t")) n)] (em [] (b "r") [at2 [] (b "k") [rf (b "e")]]).
Example fan255 : exists x, parse (S6.render (fan 255)) opt_dtd = Ok x /\ view (S6.render (fan 255)) x = Some (S6.sem (fan 255)).
Proof. apply within_accepted_b; vm_compute; reflexivity. Qed.
Example fan256 : Loop (fan 256) opt_dtd.
Proof. apply budget_rejected_b; vm_compute; reflexivity. Qed.
Example fana255 : exists x, parse (S6.render (fana 255)) opt_dtd = Ok x /\ view (S6.render (fana 255)) x = Some (S6.sem (fana 255)).
Proof. apply within_accepted_b; vm_compute; reflexivity. Qed.
Example fana256 : Loop (fana 256) opt_dtd.
Proof. apply budget_rejected_b; vm_compute; reflexivity. Qed.

(* ------------------------------------------------------------------------------------------ *)
(* what the hypotheses exclude                                                                *)
(* ------------------------------------------------------------------------------------------ *)
Definition ns_of_unfolding (c : S6.doc) : option bool :=
  match ginline6 c with Some (cT, _) => Some (forallb (ns_ok []) (den bmeaning (d_root cT))) | None => None end.

(* an element with an unbound prefix inside the cyclic entity, BEFORE the reference that closes the cycle: the parser
   meets it before the detector stops; the namespace error wins.  Excluded: the namespace rules fail on the unfolding. *)
Definition unb_before := with_sub [XC (b "e") [em (b "q") (b "x") []; tx [rf (b "e")]]] (r0 [tx [rf (b "e")]]).
Example unb_before_ns :
  wf_syntax6 unb_before = true /\ limits_of6 unb_before = Some false /\ ns_of_unfolding unb_before = Some false /\
  match parse (S6.render unb_before) opt_dtd with Err (UnknownNamespace _ _) => True | _ => False end.
Proof. split; [|split; [|split]]; vm_compute; first [reflexivity|exact I]. Qed.
(* the same element AFTER the reference: the detector stops first.  The hypothesis fails all the same: it is sufficient,
   not necessary. *)
Definition unb_after := with_sub [XC (b "e") [tx [rf (b "e")]; em (b "q") (b "x") []]] (r0 [tx [rf (b "e")]]).
Example unb_after_loop :
  wf_syntax6 unb_after = true /\ limits_of6 unb_after = Some false /\ ns_of_unfolding unb_after = Some false /\
  Loop unb_after opt_dtd.
Proof. split; [|split; [|split]]; try (vm_compute; reflexivity). vm_compute. eexists. reflexivity. Qed.
(* a prefix declared twice BEFORE the failing attribute: the duplicate is reported *)
Definition dup_before := with_sub [XT (b "e") [lit (b "v"); rf (b "e")]]
                            (em [] (b "r") [dc1 p_ [lit (b "u")]; dc1 p_ [lit (b "w")]; at2 [] (b "a") [rf (b "e")]]).
Example dup_before_ns :
  ns_of_unfolding dup_before = Some false /\
  match parse (S6.render dup_before) opt_dtd with Err (DuplicatedNamespace _ _) => True | _ => False end.
Proof. split; vm_compute; first [reflexivity|exact I]. Qed.
(* an undeclared name met first; '<' coming into an attribute value first *)
Definition undecl_first := with_sub [XT (b "a") [rf (b "u"); rf (b "a")]] (r0 [tx [rf (b "a")]]).
Example undeclared_first :
  ginline6 undecl_first = None /\
  match parse (S6.render undecl_first) opt_dtd with Err (UnknownEntityReference _ _) => True | _ => False end.
Proof. split; vm_compute; first [reflexivity|exact I]. Qed.

Print Assumptions cycle_rejected_b.
Print Assumptions depth_rejected_b.
Print Assumptions budget_rejected_b.
Print Assumptions within_accepted_b.
Print Assumptions ex1_cyclic.
Print Assumptions fan256.
