(* Proofs/CstFullS3Plug.v -- the capstone fragment, stage S3: from the well-formedness of Spec/CstFull.v
   (S3) to the conditions of Proofs/CstFullS3Sem.v / CstFullS3Dtd.v, and what the stage supplies
   to the frame (Proofs/CstFullItems.v) once the entities of the DOCTYPE have been recorded. *)
From Coq Require Import Ascii String.
From Coq Require Import List NArith PeanoNat Bool Lia ZifyBool ZifyN ZifyNat.
Import ListNotations.
From RX Require Import Generated.
From RX.Model Require Import Base CharClass Stream Tokenizer Doc Builder Parse.
From RX.Spec Require Cst CstText CstEnt Detector Scope CstU CstNs.
From RX.Spec Require Import Text CstFull.
From RX.Proofs Require Import Tactics CstLex CstBuild CstULex TextMachine NoPanicUtf8 DetectorProofs.
From RX.Proofs Require Import CstTextSem CstTextLex CstTextBuild CstEntSem CstEntMeaning CstEntRun CstEntInline CstNsBuild CstNsView.
From RX.Proofs Require Import CstFullLex CstFullBuild CstFullTree CstFullItems.
From RX.Proofs Require Import CstFullS2Sem CstFullS2Lex CstFullS2Build CstFullS3Sem CstFullS3Text CstFullS3Attr CstFullS3Run CstFullS3Dtd.
From RX.Proofs Require CstItems CstNsItems CstTextItems CstEntAttr CstEntBuild.
Open Scope N_scope.

(* ------------------------------------------------------------------------------------------ *)
(* pieces                                                                                     *)
(* ------------------------------------------------------------------------------------------ *)
Lemma uep_weaken p : uep_ok true p -> uep_ok false p.
Proof. destruct p as [q|n]; cbn [uep_ok]; [intros [H _]; split; [exact H|discriminate]|auto]. Qed.

Definition lit3 (p : E.epiece) : Prop := match p with E.EP (T.PLit bs) => contains_b n3 bs = false | _ => True end.

Lemma uepieces_ok q cd ch iv ps : q < 128 -> wf_uepieces q cd ch iv ps = true ->
  forallb (fun p => negb (is_ecdata p)) ps = true ->
  Forall (uep_ok iv) (enc_epieces ps) /\ E.no_adjacent_elit (enc_epieces ps) = true /\
  (ch = true -> Forall lit3 (enc_epieces ps)).
Proof.
  intros Hq H Hc. unfold wf_uepieces in H. apply andb_true_iff in H. destruct H as [H Hadj].
  split; [|split; [rewrite enc_no_adjacent_elit; exact Hadj|]].
  - apply Forall_forall. intros p Hp. apply in_map_iff in Hp. destruct Hp as (p0 & <- & Hp0).
    rewrite forallb_forall in H, Hc. apply (uepiece_ok q cd ch iv p0 Hq (H _ Hp0)). apply negb_true_iff. apply Hc. exact Hp0.
  - intros Hch. apply Forall_forall. intros p Hp. apply in_map_iff in Hp. destruct Hp as (p0 & <- & Hp0).
    rewrite forallb_forall in H, Hc. destruct (uepiece_ok q cd ch iv p0 Hq (H _ Hp0)) as [_ G]; [apply negb_true_iff; apply Hc; exact Hp0|].
    specialize (G Hch). unfold lit3. destruct (enc_epiece p0) as [[| | |]|]; auto.
Qed.

Lemma no_cdata_of q ch iv ps : forallb (wf_uepiece q false ch iv) ps = true -> forallb (fun p => negb (is_ecdata p)) ps = true.
Proof.
  apply CstLex.forallb_imp. intros p H. destruct p as [[| | |cs]|]; try reflexivity. cbn [wf_uepiece andb] in H. discriminate.
Qed.

(* the bytes of a value quoted by q *)
Lemma uepieces_vbytes q ps : q = 39 \/ q = 34 -> wf_uepieces q false false false ps = true ->
  uval_ok q (E.r_epieces (enc_epieces ps)).
Proof.
  intros Hq H. assert (Hq128 : q < 128) by lia.
  pose proof H as H0. unfold wf_uepieces in H0. apply andb_true_iff in H0. destruct H0 as [Hw _].
  destruct (uepieces_ok q false false false ps Hq128 H (no_cdata_of _ _ _ _ Hw)) as (Hok & _ & _).
  destruct (uep_bytes false _ Hok) as [(cs & E & Hu) Hb]. exists cs. split; [exact E|]. split; [exact Hu|].
  clear - Hq Hw Hq128. induction ps as [|p ps IH]; [reflexivity|]. cbn [forallb] in Hw. apply andb_true_iff in Hw. destruct Hw as [H1 H2].
  change (enc_epieces (p :: ps)) with (enc_epiece p :: enc_epieces ps). rewrite r_epieces_cons, forallb_app. rewrite (IH H2), andb_true_r.
  destruct p as [[cs|hex ds|e|cs]|n]; cbn [wf_uepiece enc_epiece enc_piece E.r_epiece andb] in *; try discriminate.
  - rewrite andb_true_r in H1. destruct (vpieces_bytes_u q ltac:(destruct Hq; auto) [T.PLit (utf8s cs)]) as [_ Hb].
    { constructor; [apply (uvpiece_b q (T.PLit cs) Hq128 H1)|constructor]. }
    unfold T.r_pieces in Hb. cbn [flat_map] in Hb. rewrite app_nil_r in Hb. exact Hb.
  - rewrite andb_true_r in H1. destruct (vpieces_bytes_u q ltac:(destruct Hq; auto) [T.PCharRef hex ds]) as [_ Hb].
    { constructor; [exact H1|constructor]. }
    unfold T.r_pieces in Hb. cbn [flat_map] in Hb. rewrite app_nil_r in Hb. exact Hb.
  - destruct (vpieces_bytes_u q ltac:(destruct Hq; auto) [T.PPredef e]) as [_ Hb].
    { constructor; [exact I|constructor]. }
    unfold T.r_pieces in Hb. cbn [flat_map] in Hb. rewrite app_nil_r in Hb. exact Hb.
  - apply andb_true_iff in H1. destruct H1 as [Hn _]. destruct (uname_bytes (utf8s n) ltac:(exists n; auto)) as (_ & _ & Hb).
    assert (G : forallb (fun y => negb ((y =? q) || (y =? 60))) (utf8s n) = true).
    { revert Hb. apply CstLex.forallb_imp. intros x Hx. destruct Hq as [-> | ->]; lia. }
    rewrite !forallb_app, G. destruct Hq as [-> | ->]; reflexivity.
Qed.

(* ---- the segments of a run ---- *)
Lemma esegs_enc : forall ps, esegs (enc_epieces ps) =
  map (fun s => match s with ESS l => ESS (enc_epieces l) | ESC cs => ESC (utf8s cs) end) (esegs ps).
Proof.
  unfold enc_epieces. induction ps as [|p ps IH]; [reflexivity|]. cbn [map].
  destruct p as [[cs|hex ds|e|cs]|n]; cbn [enc_epiece enc_piece esegs]; rewrite IH;
    try (destruct (esegs ps) as [|[l|b0] t]; reflexivity).
Qed.

Lemma esegs_wf_u : forall ps, wf_uepieces 60 true true false ps = true -> Forall ueseg_wf (esegs (enc_epieces ps)).
Proof.
  intros ps H. unfold wf_uepieces in H. apply andb_true_iff in H. destruct H as [Hw Ha].
  assert (Hss : forall l, l <> [] -> forallb (wf_uepiece 60 true true false) l = true ->
            forallb (fun p => negb (is_ecdata p)) l = true -> E.no_adjacent_elit l = true -> ueseg_wf (ESS (enc_epieces l))).
  { intros l Hne Hwl Hc Hal.
    destruct (uepieces_ok 60 true true false l ltac:(lia) ltac:(unfold wf_uepieces; rewrite Hwl, Hal; reflexivity) Hc) as (Hok & Hadj & H3).
    cbn [ueseg_wf]. split; [destruct l; [congruence|discriminate]|]. split; [exact Hok|]. split; [exact Hadj|].
    apply ustretch_no_cdata_end; [exact Hok|apply H3; reflexivity|exact Hadj]. }
  rewrite esegs_enc.
  revert Hw Ha. induction ps as [|p ps IH]; intros Hw Ha; [constructor|].
  cbn [forallb] in Hw. apply andb_true_iff in Hw. destruct Hw as [Hw1 Hw2].
  specialize (IH Hw2 (CstEntAttr.no_adj_etail _ _ Ha)). destruct (is_ecdata p) eqn:Ec.
  - destruct p as [[bs|hex ds|e|bs]|n]; try discriminate. cbn [esegs map]. constructor; [|exact IH].
    cbn [ueseg_wf wf_uepiece wf_utpiece andb] in *. apply andb_true_iff in Hw1. destruct Hw1 as [H1 H2]. split.
    + exists bs. split; [reflexivity|apply uchars_of; exact H1].
    + rewrite n3_utf8. apply negb_true_iff. exact H2.
  - rewrite esegs_cons_plain by exact Ec.
    pose proof (esegs_flat ps) as Hflat.
    destruct (esegs ps) as [|[l|b0] t] eqn:Es; cbn [map] in IH |- *.
    + constructor; [|constructor]. apply Hss; [discriminate|cbn [forallb]; rewrite Hw1; reflexivity|cbn [forallb]; rewrite Ec; reflexivity|reflexivity].
    + apply Forall_cons_iff in IH. destruct IH as [(Hne & Hok & Hadj & _) IHt].
      constructor; [|exact IHt].
      cbn [flat_map seg_pieces] in Hflat.
      assert (Hl : exists rest, ps = l ++ rest) by (eexists; symmetry; exact Hflat). destruct Hl as [rest ->].
      rewrite forallb_app in Hw2. apply andb_true_iff in Hw2. destruct Hw2 as [Hwl _].
      assert (Hlne : l <> []) by (intros ->; apply Hne; reflexivity).
      apply Hss; [discriminate|cbn [forallb]; rewrite Hw1, Hwl; reflexivity| |].
      * cbn [forallb]. rewrite Ec. cbn [negb andb]. clear - Hok. unfold enc_epieces in Hok. rewrite Forall_map in Hok.
        induction Hok as [|q l Hq _ IHl]; [reflexivity|].
        cbn [forallb]. rewrite IHl, andb_true_r. destruct q as [[| | |bs]|]; try reflexivity. destruct Hq as [Hq _]. contradiction.
      * destruct l as [|q l']; [congruence|]. cbn [app] in Ha. rewrite eno_adj_cons2 in Ha |- *.
        apply andb_true_iff in Ha. destruct Ha as [Ha1 _]. rewrite Ha1. rewrite enc_no_adjacent_elit in Hadj. rewrite Hadj. reflexivity.
    + constructor; [|exact IH]. apply Hss; [discriminate|cbn [forallb]; rewrite Hw1; reflexivity|cbn [forallb]; rewrite Ec; reflexivity|reflexivity].
Qed.

Lemma eseg_ne s : ueseg_wf s -> (1 <= length (r_eseg s))%nat.
Proof.
  destruct s as [l|bs]; cbn [ueseg_wf r_eseg].
  - intros (Hne & Hok & _). destruct l as [|p l]; [congruence|]. apply Forall_cons_iff in Hok. destruct Hok as [Hp _].
    destruct (uep_piece_ne false p Hp) as (x & r & E). rewrite r_epieces_cons, E. cbn. lia.
  - intros _. rewrite !app_length. unfold T.cdata_open. cbn [length]. lia.
Qed.

Lemma esegs_len_le L : Forall ueseg_wf L -> (length L <= length (flat_map r_eseg L))%nat.
Proof.
  induction 1 as [|s L Hs _ IH]; [cbn; lia|]. cbn [flat_map length]. rewrite app_length. pose proof (eseg_ne s Hs). lia.
Qed.

Lemma HD_nil : forall l : list Scope.binding, NoDup l -> incl l [] -> N.of_nat (length l) <= 65535.
Proof. intros l _ H. destruct l as [|x l]; [cbn; lia|]. exfalso. apply (H x). left. reflexivity. Qed.

Lemma esegs_valid L : Forall ueseg_wf L -> U8.Valid (flat_map r_eseg L).
Proof. induction 1 as [|s L Hs _ IH]; [constructor|]. cbn [flat_map]. apply U8.Valid_app; [apply (eseg_valid [] HD_nil s Hs)|exact IH]. Qed.

(* ------------------------------------------------------------------------------------------ *)
(* declarations and the DOCTYPE                                                               *)
(* ------------------------------------------------------------------------------------------ *)
Lemma udecl_of e : wf_udecl e = true -> udecl_lex_ok (enc_decl e) /\ udecl_ok (enc_decl e).
Proof.
  unfold wf_udecl. rewrite !andb_true_iff. intros [[[[[[H0 H1] Hn] H2] Hq] Hv] H3].
  destruct (E.e_value e) as [vps|its] eqn:Ev; [|discriminate]. apply andb_true_iff in Hv. destruct Hv as [Hvb Hvw].
  assert (Hq' : E.e_quote e = 39 \/ E.e_quote e = 34) by lia.
  pose proof Hvw as Hvw0. unfold wf_uepieces in Hvw0. apply andb_true_iff in Hvw0. destruct Hvw0 as [Hw _].
  destruct (uepieces_ok (E.e_quote e) false true true vps ltac:(lia) Hvw (no_cdata_of _ _ _ _ Hw)) as (Hok & Hadj & H3c).
  specialize (H3c eq_refl).
  assert (Hokf : Forall (uep_ok false) (enc_epieces vps)) by (eapply Forall_impl; [|exact Hok]; intros p; apply uep_weaken).
  split.
  - constructor; cbn [enc_decl E.e_ws0 E.e_ws1 E.e_name E.e_ws2 E.e_quote E.e_value E.e_ws3]; try assumption.
    + exists (E.e_name e). auto.
    + rewrite Ev. cbn [E.r_value]. split; [apply (uep_bytes true _ Hok)|].
      revert Hvb. apply CstLex.forallb_imp. intros x Hx. lia.
  - unfold udecl_ok. cbn [enc_decl E.e_value]. rewrite Ev. split; [exact Hok|]. split; [|exact Hadj].
    apply ustretch_no_cdata_end; assumption.
Qed.

Lemma udtd_of t : wf_udtd t = true ->
  udtd_lex_ok (enc_dtd t) /\ Forall udecl_ok (E.t_decls (enc_dtd t)).
Proof.
  unfold wf_udtd. rewrite !andb_true_iff. intros [[[[[H1 Hn] H2] Hd] H3] H4].
  assert (G : Forall (fun e => udecl_lex_ok e /\ udecl_ok e) (map enc_decl (E.t_decls t))).
  { apply Forall_forall. intros e He. apply in_map_iff in He. destruct He as (e0 & <- & He0).
    rewrite forallb_forall in Hd. apply udecl_of. apply Hd. exact He0. }
  split.
  - constructor; cbn [enc_dtd E.t_ws1 E.t_name E.t_ws2 E.t_decls E.t_ws3 E.t_ws4]; try assumption.
    + exists (E.t_name t). auto.
    + eapply Forall_impl; [|exact G]. intros e [A _]. exact A.
  - cbn [enc_dtd E.t_decls]. eapply Forall_impl; [|exact G]. intros e [_ B0]. exact B0.
Qed.

(* ------------------------------------------------------------------------------------------ *)
(* what S3 supplies, once the entities have been recorded                                     *)
(* ------------------------------------------------------------------------------------------ *)
Definition steps3 (r : run epieces) : nat := length (esegs (enc_epieces r)).

Section Plug.
Variable decls : list E.edecl.           (* the encoded declarations *)
Hypothesis Hdecls : Forall udecl_ok decls.
Notation tb := (E.level decls E.max_level).
Notation M := (ents_meaning tb).

Lemma s3_val_lex : forall q v, wf_val M q v = true -> q = 39 \/ q = 34 -> uval_ok q (r_val epieces v).
Proof.
  intros q v Hv Hq. cbn [wf_val ents_meaning r_val epieces] in *. unfold wf_eval in Hv. apply andb_true_iff in Hv.
  apply uepieces_vbytes; [exact Hq|apply Hv].
Qed.

Lemma s3_run_parts r : wf_run M r = true ->
  r <> [] /\ Forall ueseg_wf (esegs (enc_epieces r)) /\
  exists Q tr, E.inline_ps tb false false (enc_epieces r) = Some (Q, tr) /\ limits_ok tr = true /\ E.crlf_split_ok Q = true.
Proof.
  cbn [wf_run ents_meaning]. unfold wf_erun. rewrite !andb_true_iff. intros [[Hne Hw] Hi].
  split; [destruct r; [discriminate|discriminate]|]. split; [apply esegs_wf_u; exact Hw|].
  destruct (E.inline_ps tb false false (enc_epieces r)) as [[Q tr]|]; [|discriminate].
  apply andb_true_iff in Hi. exists Q, tr. tauto.
Qed.

Lemma s3_run_valid : forall r, wf_run M r = true -> U8.Valid (r_run epieces r).
Proof.
  intros r H. destruct (s3_run_parts r H) as (_ & HF & _). cbn [r_run epieces].
  rewrite <- esegs_render. apply esegs_valid. exact HF.
Qed.

Lemma s3_run_steps : forall r, wf_run M r = true -> (1 <= steps3 r <= length (r_run epieces r))%nat.
Proof.
  intros r H. destruct (s3_run_parts r H) as (Hne & HF & _). unfold steps3. cbn [r_run epieces]. split.
  - assert (Hne' : enc_epieces r <> []) by (destruct r; [congruence|discriminate]).
    pose proof (esegs_ne _ Hne'). destruct (esegs (enc_epieces r)); [congruence|cbn; lia].
  - rewrite <- (esegs_render (enc_epieces r)). apply esegs_len_le. exact HF.
Qed.

Variable text : bytes.
Variable D : list Scope.binding.
Hypothesis HD : forall l, NoDup l -> incl l D -> N.of_nat (length l) <= 65535.
Variable es : list entity.
Hypothesis Henv : Forall2 (uent_ok text) decls es.

Lemma s3_val_norm : forall q v p more, wf_val M q v = true -> q = 39 \/ q = 34 ->
  CstULex.WV text p (r_val epieces v ++ [q] ++ more) ->
  exists stor, norm_ok text es (sl p (p + blen (r_val epieces v))) stor /\ storage_bytes text stor = val_sem M v.
Proof.
  intros q v p more Hv Hq HW. cbn [wf_val ents_meaning r_val epieces val_sem] in *. unfold wf_eval in Hv. unfold eval_sem.
  apply andb_true_iff in Hv. destruct Hv as [Hw Hi].
  destruct (E.inline_ps tb true false (enc_epieces v)) as [[Q tr]|] eqn:Ein; [|discriminate].
  apply andb_true_iff in Hi. destruct Hi as [Hlim Hcr].
  pose proof Hw as Hw0. unfold wf_uepieces in Hw0. apply andb_true_iff in Hw0. destruct Hw0 as [Hwp _].
  pose proof (no_cdata_of _ _ _ _ Hwp) as Hnc.
  destruct (uepieces_ok q false false false v ltac:(lia) Hw Hnc) as (Hok & Hadj & _).
  destruct (detector_complete_gen tr 0 0 Hlim) as [ld' Hld]. change (DetectorProofs.mk 0 0) with ld_init in Hld.
  exists (if needs_norm (E.r_epieces (enc_epieces v)) then Owned (T.value_sem Q)
          else Borrowed (SIn (sl p (p + blen (E.r_epieces (enc_epieces v)))))).
  split.
  - intros c [Hes Hc]. apply (normalize_attribute_ent_u text D HD decls es Henv Hdecls p _ q more c E.max_level Q tr ld'); assumption.
  - destruct (needs_norm (E.r_epieces (enc_epieces v))) eqn:En; [reflexivity|].
    cbn [storage_bytes str_bytes]. rewrite (W_slice _ _ _ _ (WV_W _ _ _ HW)). symmetry. unfold T.value_sem.
    unfold needs_norm in En.
    assert (H38 : existsb (fun x => x =? 38) (E.r_epieces (enc_epieces v)) = false).
    { clear - En. induction (E.r_epieces (enc_epieces v)) as [|x l IH]; [reflexivity|]. cbn [existsb] in *. apply orb_false_iff in En.
      destruct En as [H1 H2]. rewrite (IH H2). lia. }
    assert (Hnc' : forallb (fun p0 => negb (is_ecdata p0)) (enc_epieces v) = true).
    { clear - Hnc. unfold enc_epieces. rewrite forallb_forall in *. intros p0 Hp. apply in_map_iff in Hp. destruct Hp as (p1 & <- & Hp1).
      rewrite enc_is_ecdata. apply Hnc. exact Hp1. }
    pose proof (CstEntBuild.inline_plain tb true false _ Q tr H38 Hnc' Ein) as Ech. unfold chunks in Ech. rewrite Ech.
    apply norm_attr_lits_plain.
    clear - En. induction (E.r_epieces (enc_epieces v)) as [|x l IH]; [reflexivity|]. cbn [existsb] in *. apply orb_false_iff in En.
    destruct En as [H1 H2]. rewrite (IH H2). lia.
Qed.

Lemma s3_run : forall r, PIf epieces M steps3 text D es (IText r).
Proof.
  intros ps inh p post c depth fuel Hwf _ _ HW Hfol I [Hes Hld] Hat NR _ _.
  cbn [wf_item] in Hwf. destruct (s3_run_parts ps Hwf) as (Hne & HF & Q & tr & Ein & Hlim & Hcr).
  specialize (Hfol eq_refl). cbn [r_item r_run epieces steps den run_sem ents_meaning] in *. unfold steps3. unfold erun_sem in *. rewrite Ein in *.
  assert (Hne' : enc_epieces ps <> []) by (destruct ps; [congruence|discriminate]).
  destruct (erun_ok text D HD decls es Henv Hdecls inh (enc_epieces ps) p post c depth fuel E.max_level Q tr Hne' HF Ein Hlim Hcr HW Hfol I Hld Hes Hat)
    as (c' & E & A & I' & Tn & Tr & Hres).
  { intros Hm. rewrite Hm in NR. apply (node_room_room _ _ NR). rewrite nsizes_one. apply NT.nsize_pos. }
  destruct (forallb E.is_mark Q) eqn:Em.
  - subst c'. exists c, [], []. split; [exact E|]. split; [apply Stepn_refl|]. split; [exact I|]. split; [exact Hat|]. split; [auto|].
    split; [discriminate|]. split; [constructor|]. split; [reflexivity|]. cbn. lia.
  - destruct Hres as (stg & S & Hst).
    exists c', [(Some (c_parent_id c), KText stg)], []. split; [exact E|].
    split; [exact S|]. split; [exact I'|]. split; [exact A|]. split; [apply same_tn; exact Tn|]. split; [discriminate|].
    split; [|split; [reflexivity|rewrite Tr; cbn; lia]].
    cbn [NT.tag_list NT.tag app]. constructor; [|constructor]. split; [reflexivity|]. cbn [snd]. exact Hst.
Qed.

End Plug.

Print Assumptions s3_val_norm.
Print Assumptions s3_run.
