(* Proofs/DefaultMain.v -- C16, last clause: under default options (no DTD, hence no entities)
   the text and attribute content of an accepted document is no longer than the input. *)
From Coq Require Import List NArith Bool Lia ZifyBool ZifyN ZifyNat.
Import ListNotations.
From RX Require Import Generated.
From RX.Model Require Import Base CharClass Stream Tokenizer Doc Builder Parse.
From RX.Proofs Require Import Tactics.
From RX.Proofs Require Import TermStream TermTokenizer TermUtf8 TermBuilder TermParse.
From RX.Proofs Require Import DefaultTokenizer DefaultContent DefaultText DefaultEntities.
Open Scope N_scope.

(* total length of all text-node values and attribute values of a document *)
Definition text_len (text : bytes) (d : document) : N :=
  fold_right (fun nd acc => match nd_kind nd with KText st => blen (storage_bytes text st) + acc | _ => acc end) 0 (d_nodes d).
Definition value_len (text : bytes) (d : document) : N :=
  fold_right (fun a acc => blen (storage_bytes text (ad_value a)) + acc) 0 (d_attrs d).

Lemma text_len_kinds text d : text_len text d = kinds_len text (map nd_kind (d_nodes d)).
Proof.
  unfold text_len. induction (d_nodes d) as [|nd l IH]; [reflexivity|].
  cbn [fold_right map]. rewrite kinds_len_cons, IH. unfold klen. destruct (nd_kind nd); lia.
Qed.

Lemma value_len_attrs text d : value_len text d = attrs_len text (d_attrs d).
Proof. reflexivity. Qed.

(* the invariant holds of the initial context *)
Lemma init_context_CInv text opt c : init_context text opt = Ok c -> CInv text 0 c.
Proof.
  unfold init_context. intros H. apply bind_ok in H. destruct H as [d [Hd H]]. injection H as <-.
  pose proof (push_ns_keepd text (ns_name xml_ns) (ns_uri xml_ns)) as Hk.
  match type of Hd with push_ns _ _ _ ?d0 = _ => specialize (Hk d0) end.
  rewrite Hd in Hk. destruct Hk as [Hn Ha]. cbn [d_nodes d_attrs] in Hn, Ha.
  unfold CInv, run_ok, Phi, base, kinds.
  cbn [c_entities c_ld c_after_text c_doc c_cur_attrs ld_init ld_depth tl].
  rewrite Hn, Ha. repeat split. cbn. lia.
Qed.

(* the run of the tokenizer under default options *)
Lemma parse_document_content text lim c c' : valid_utf8_b text = true ->
  init_context text {| allow_dtd := false; nodes_limit := lim |} = Ok c ->
  parse_document text context (token text) false c = Ok c' -> CInv text (tlen text) c'.
Proof.
  intros Hv Hi H. pose proof (valid_utf8_safe _ Hv) as Hs.
  pose proof (parse_document_pos text context (token text) False (CInv text) (CInv_mono text)
                (token_ok text Hs) false c) as G.
  specialize (G ltac:(discriminate) Hs (init_context_CInv _ _ _ Hi)).
  rewrite H in G. exact G.
Qed.

(* 2 *)
Theorem content_le_input : forall text lim d, valid_utf8_b text = true ->
  parse text {| allow_dtd := false; nodes_limit := lim |} = Ok d -> text_len text d + value_len text d <= tlen text.
Proof.
  intros text lim d Hv H. unfold parse in H.
  apply bind_ok in H. destruct H as [c0 [H0 H]].
  apply bind_ok in H. destruct H as [c [Hc H]]. cbn [allow_dtd] in Hc.
  pose proof (parse_document_content text lim c0 c Hv H0 Hc) as [_ [_ [_ HP]]].
  apply bind_ok in H. destruct H as [it [_ H]].
  apply bind_ok in H. destruct H as [he [_ H]].
  destruct (negb he); [discriminate|]. destruct (_ <? _); [discriminate|]. injection H as <-.
  rewrite text_len_kinds, value_len_attrs.
  unfold Phi, base, kinds in HP. lia.
Qed.
Print Assumptions content_le_input.
