(* Proofs/CstSound7Final.v -- C08, soundness half with witness in stage S7 (Spec/CstFullS7.v): an accepted input of
   [in_fragment_7] (Proofs/CstSound7.v: in_fragment_6 with ':' admitted in PI targets and in the DOCTYPE name) is the
   rendering of a document that is well formed for S7.  The chain CstSound7{GLex,GVal,Flat,Lex,..,RDoc}.v is generated
   by tools/port7s/port.py from the chain of [parse_sound_fragment_6] (Proofs/CstSound6dFinal.v). *)
From Coq Require Import String.
From Coq Require Import List NArith Bool.
Import ListNotations.
From RX Require Import Generated.
From RX.Model Require Import Base CharClass Stream Tokenizer Doc Builder Parse.
From RX.Spec Require Import CstFull CstFullS4 CstFullS5 CstFullS6 CstFullS7.
From RX.Proofs Require Import CstSound CstSoundT CstSoundN CstSoundP CstSound6 CstSound6Sanity CstSound6U.
From RX.Proofs Require Import CstSound7 CstSound7Lex CstSound7Val CstSound7RDoc.
From RX.Proofs Require CstFullS7Main CstSound6dFinal.
Open Scope N_scope.

Theorem parse_sound_fragment_7 : forall text opt d,
  in_fragment_7 text = true -> allow_dtd opt = true -> parse text opt = Ok d ->
  exists c : S6.doc, S7.wf_doc c = true /\ S7.render c = text.
Proof.
  intros text opt d HF Hallow H.
  exact (parse_sound_fragment_7_val text opt d (val_ok7 text (in_fragment_7_Frag7 _ HF)) HF Hallow H).
Qed.

Theorem parse_sound_fragment_7_holds : parse_sound_fragment_7_stmt.
Proof. exact parse_sound_fragment_7. Qed.

Print Assumptions parse_sound_fragment_7.

(* [in_fragment_6_7] is in Proofs/CstSound7.v; on the smaller fragment the theorem of stage 6 gives the stronger witness,
   and S6.wf_doc implies S7.wf_doc (Proofs/CstFullS7Main.v s6_in_s7) *)

(* ---- non-vacuity: an input of the fragment, OUTSIDE in_fragment_6 (a DOCTYPE name with ':', PI targets with ':' in the
   prolog, in the internal subset, in the content, inside a markup entity value and after the root), accepted ---- *)
Definition ex7_text : bytes :=
  b "<?x:y a?><!DOCTYPE p:r [<?s:t in the subset?><!ENTITY n 'v&amp;w'><!ENTITY m '<b a=""&n;""><?:q in a value?></b>'>]><p:r xmlns:p='u'><?a:b:c d?>&m;</p:r><?z:?>".

Example ex7_nonvacuous :
  in_fragment_7 ex7_text = true /\ in_fragment_6 ex7_text = false /\ allow_dtd od = true /\
  (exists d, parse ex7_text od = Ok d).
Proof.
  split; [vm_compute; reflexivity|]. split; [vm_compute; reflexivity|]. split; [reflexivity|].
  destruct (parse ex7_text od) as [d| | |] eqn:E; [exists d; reflexivity| | |]; vm_compute in E; discriminate.
Qed.

Example ex7_applied : exists c : S6.doc, S7.wf_doc c = true /\ S7.render c = ex7_text.
Proof.
  destruct ex7_nonvacuous as (HF & _ & Hallow & (d & Hd)).
  exact (parse_sound_fragment_7 ex7_text od d HF Hallow Hd).
Qed.
Print Assumptions ex7_applied.

(* each relaxation alone: in in_fragment_7, not in in_fragment_6 (the condition named fails), accepted *)
Example ex7_more : forallb (fun t => in_fragment_7 (b t) && negb (in_fragment_6 (b t)) && acc6 (b t))
  [ "<?a:b?><r/>"; "<r><?p:q x?></r>"; "<r/><?xsl:x ?>"; "<?:a?><r/>"; "<?xml:x y?><r/>";
    "<!DOCTYPE a:b><a:b xmlns:a='u'/>"; "<!DOCTYPE a:b:c [<!ENTITY e 'v'>]><r>&e;</r>";
    "<!DOCTYPE r [<?p:q?><!ENTITY m '<?s:t u?><b/>'>]><r>&m;</r>" ]%string = true.
Proof. vm_compute. reflexivity. Qed.
Example ex7_pi : forallb (fun t => negb (pi_targets_nc (b t)))
  [ "<?a:b?><r/>"; "<r><?p:q x?></r>"; "<?:a?><r/>" ]%string = true.
Proof. vm_compute. reflexivity. Qed.
Example ex7_doctype : forallb (fun t => negb (names_nc (b t)) && names_nc7 (b t))
  [ "<!DOCTYPE a:b><a:b xmlns:a='u'/>" ]%string = true.
Proof. vm_compute. reflexivity. Qed.

(* still outside (accepted by the crate): ':' in entity and notation names (S9), CR anywhere (P1), a DOCTYPE name that
   STARTS with ':' (P3a, the over-approximate scan) *)
Example ex7_out : forallb (fun t => negb (in_fragment_7 (b t)) && acc6 (b t))
  [ "<!DOCTYPE r [<!ENTITY a:b 'v'>]><r>&a:b;</r>"; "<!DOCTYPE r [<!ENTITY e SYSTEM 'x' NDATA n:m>]><r/>";
    "<!DOCTYPE :r><r/>" ]%string = true.
Proof. vm_compute. reflexivity. Qed.
