(* Proofs/ErrShiftMidCore.v -- C14 (whitespace inserted inside the prolog), part 5: the two runs
   of parse on  (A0 ++ W) ++ U  and  (A0 ++ (W ++ ws)) ++ U  (W, ws whitespace), from the loop
   head of the first parse_misc that stands at blen A0 in both, with contexts that are the same
   up to the shift of what lies behind the insertion point.  Both are compared with the run on U. *)
From Coq Require Import Ascii String.
From Coq Require Import List Arith NArith Bool Lia ZifyBool ZifyN ZifyNat.
Import ListNotations.
From RX Require Import Generated.
From RX.Model Require Import Base CharClass Stream Tokenizer Doc Builder Parse.
From RX.Proofs Require Import Tactics NoPanicUtf8 NoPanicStream BorrowLocal BorrowParse OptionsParam
  PositionProofs
  RangeShiftBase RangeShiftStream RangeShiftTokenizer RangeShiftBuilder RangeShiftParse
  ErrShiftBase ErrShiftStream ErrShiftTokenizer ErrShiftBuilder ErrShiftParse ErrShiftFinal
  ErrShiftMidGen ErrShiftMidFrame ErrShiftMidCont ErrShiftMidPos.
Open Scope N_scope.

(* ------------------------------------------------------------------ *)
(* the map of the stored offsets: what starts before P stays, the rest moves by k *)
Definition m_sl (P k : N) (sl : slice) : slice := if sl_start sl <? P then sl else sh_sl k sl.
Definition m_rng (P k : N) (r : range) : range := if fst r <? P then r else sh_rng k r.
Definition m_str (P k : N) (s : str) : str :=
  match s with SIn sl => SIn (m_sl P k sl) | SStatic bs => SStatic bs end.
Definition m_sto (P k : N) (s : storage) : storage :=
  match s with Borrowed x => Borrowed (m_str P k x) | Owned bs => Owned bs end.
Definition m_kind (P k : N) (kd : node_kind) : node_kind :=
  match kd with
  | KRoot => KRoot
  | KElement ns local ar nss => KElement ns (m_sl P k local) ar nss
  | KPI t v => KPI (m_sl P k t) (option_map (m_sl P k) v)
  | KComment s => KComment (m_sl P k s)
  | KText st => KText (m_sto P k st)
  end.
(* the root's range is the whole input: its start stays 0, its end moves *)
Definition m_node (P k : N) (nd : node_data) : node_data :=
  {| nd_parent := nd_parent nd; nd_prev_sibling := nd_prev_sibling nd;
     nd_next_subtree := nd_next_subtree nd; nd_last_child := nd_last_child nd;
     nd_kind := m_kind P k (nd_kind nd);
     nd_range := if is_root_kind (nd_kind nd) then (fst (nd_range nd), snd (nd_range nd) + k)
                 else m_rng P k (nd_range nd) |}.
Definition m_attr (P k : N) (a : attr_data) : attr_data :=
  {| ad_ns_idx := ad_ns_idx a; ad_local := m_sl P k (ad_local a); ad_value := m_sto P k (ad_value a);
     ad_range := m_rng P k (ad_range a); ad_qname_len := ad_qname_len a; ad_eq_len := ad_eq_len a |}.
Definition m_ns (P k : N) (v : namespace) : namespace :=
  {| ns_name := option_map (m_str P k) (ns_name v); ns_uri := m_sto P k (ns_uri v) |}.
Definition mid_doc (P k : N) (d : document) : document :=
  {| d_nodes := map (m_node P k) (d_nodes d); d_attrs := map (m_attr P k) (d_attrs d);
     d_ns_values := map (m_ns P k) (d_ns_values d); d_ns_tree := d_ns_tree d |}.

Section MidMap.
Variable P k : N.

Lemma m_sl_sh sl : m_sl P k (sh_sl P sl) = sh_sl (P + k) sl.
Proof.
  unfold m_sl, sh_sl. cbn [sl_start sl_end]. replace (sl_start sl + P <? P) with false by lia.
  f_equal; lia.
Qed.
Lemma m_rng_sh r : m_rng P k (sh_rng P r) = sh_rng (P + k) r.
Proof.
  unfold m_rng, sh_rng. cbn [fst snd]. replace (fst r + P <? P) with false by lia. f_equal; lia.
Qed.
Lemma m_str_sh s : m_str P k (sh_str P s) = sh_str (P + k) s.
Proof. destruct s; cbn [m_str sh_str]; [rewrite m_sl_sh|]; reflexivity. Qed.
Lemma m_sto_sh s : m_sto P k (sh_sto P s) = sh_sto (P + k) s.
Proof. destruct s; cbn [m_sto sh_sto]; [rewrite m_str_sh|]; reflexivity. Qed.
Lemma m_kind_sh kd : m_kind P k (sh_kind P kd) = sh_kind (P + k) kd.
Proof.
  destruct kd as [|ns local ar nss|t v|s|st]; cbn [m_kind sh_kind]; rewrite ?m_sl_sh, ?m_sto_sh; try reflexivity.
  destruct v; cbn [option_map]; [rewrite m_sl_sh|]; reflexivity.
Qed.
Lemma is_root_sh kd : is_root_kind (sh_kind P kd) = is_root_kind kd.
Proof. destruct kd; reflexivity. Qed.
Lemma m_node_sh nd : m_node P k (sh_node P nd) = sh_node (P + k) nd.
Proof.
  unfold m_node, sh_node. cbn [nd_parent nd_prev_sibling nd_next_subtree nd_last_child nd_kind nd_range].
  rewrite m_kind_sh, is_root_sh. f_equal.
  destruct (is_root_kind (nd_kind nd)); [cbn [fst snd]; f_equal; lia|apply m_rng_sh].
Qed.
Lemma m_attr_sh a : m_attr P k (sh_attr P a) = sh_attr (P + k) a.
Proof.
  unfold m_attr, sh_attr. cbn [ad_ns_idx ad_local ad_value ad_range ad_qname_len ad_eq_len].
  rewrite m_sl_sh, m_sto_sh, m_rng_sh. reflexivity.
Qed.
Lemma m_ns_sh v : m_ns P k (sh_ns P v) = sh_ns (P + k) v.
Proof.
  unfold m_ns, sh_ns. cbn [ns_name ns_uri]. rewrite m_sto_sh. f_equal.
  destruct (ns_name v); cbn [option_map]; [rewrite m_str_sh|]; reflexivity.
Qed.

Lemma mid_doc_sh d : mid_doc P k (sh_doc P d) = sh_doc (P + k) d.
Proof.
  unfold mid_doc, sh_doc. cbn [d_nodes d_attrs d_ns_values d_ns_tree]. rewrite !map_map. f_equal.
  - apply map_ext. apply m_node_sh.
  - apply map_ext. apply m_attr_sh.
  - apply map_ext. apply m_ns_sh.
Qed.

(* an old node lies before P *)
Definition old_below (o : node_kind * range) : Prop :=
  m_kind P k (fst o) = fst o /\ m_rng P k (snd o) = snd o.

Variable olds : list (node_kind * range).
Hypothesis Holds : Forall (fun o => ntext (fst o)) olds.
Hypothesis Hbelow : Forall old_below olds.

Lemma m_node_gP i n : m_node P k (gP olds i n) = gP olds i (m_node P k n).
Proof.
  destruct i as [|i]; cbn [gP]; [reflexivity|].
  destruct (nth_error olds i) as [o|] eqn:E; [|reflexivity].
  apply nth_error_In in E. rewrite Forall_forall in Holds, Hbelow.
  destruct (Hbelow _ E) as [H1 H2]. pose proof (Holds _ E) as H3.
  unfold m_node, with_kr. cbn [nd_parent nd_prev_sibling nd_next_subtree nd_last_child nd_kind nd_range].
  rewrite H1. f_equal. destruct (fst o); cbn in H3; try contradiction; cbn [is_root_kind]; exact H2.
Qed.

Lemma map_imap : forall l j, map (m_node P k) (imap_from olds j l) = imap_from olds j (map (m_node P k) l).
Proof.
  induction l as [|x l IH]; intros j; cbn [map imap_from]; [reflexivity|]. rewrite m_node_gP, IH. reflexivity.
Qed.

Lemma mid_doc_pd d : mid_doc P k (pd olds d) = pd olds (mid_doc P k d).
Proof.
  unfold mid_doc, pd, pn, set_nodes. cbn [d_nodes d_attrs d_ns_values d_ns_tree]. rewrite map_imap. reflexivity.
Qed.

End MidMap.

(* ------------------------------------------------------------------ *)
Lemma has_pos_kind e : has_pos (err_kind e) = has_pos e.
Proof. destruct e; reflexivity. Qed.

Lemma Inv_sh olds k c : Inv olds c -> Inv olds (sh_ctx k c).
Proof.
  intros [H1 H2 H3 H4]. unfold Inv. cbn [sh_ctx sh_doc c_doc c_parent_id d_nodes]. split.
  - rewrite map_length. exact H1.
  - exact H2.
  - intros i n Hn. rewrite nth_error_map in Hn. destruct (nth_error (d_nodes (c_doc c)) i) as [n0|] eqn:E; [|discriminate].
    injection Hn as <-. exact (H3 _ _ E).
  - intros i n Hi Hn. rewrite nth_error_map in Hn. destruct (nth_error (d_nodes (c_doc c)) i) as [n0|] eqn:E; [|discriminate].
    injection Hn as <-. pose proof (H4 _ _ Hi E) as Ht. cbn [sh_node nd_kind]. destruct (nd_kind n0); cbn in *; auto.
Qed.

(* the checks of parse on the document of the final context *)
Definition post (c : context) : res document :=
  let d := c_doc c in
  let! it := children d 0 in
  let! has_elem := children_any_element (S (length (d_nodes d))) d it in
  if negb has_elem then Err NoRootNode
  else if 1 <? len_N (c_parent_prefixes c) then Err UnclosedRootNode
  else Ok d.

Lemma parse_eq text opt :
  parse text opt =
  let! c := init_context text opt in
  let! c := parse_document text context (Parse.token text) (allow_dtd opt) c in post c.
Proof. reflexivity. Qed.

Lemma np_post c : nopos_res (post c).
Proof.
  unfold post. cbv zeta. pose proof (np_children (c_doc c) 0) as H1.
  destruct (children (c_doc c) 0) as [it| | |]; cbn [bind nopos_res] in *; auto.
  pose proof (np_children_any_element (c_doc c) (S (length (d_nodes (c_doc c)))) it) as H2.
  destruct (children_any_element _ _ it) as [he| | |]; cbn [bind nopos_res] in *; auto.
  destruct (negb he); [reflexivity|]. destruct (1 <? _); reflexivity.
Qed.

Definition rmapd (g : document -> document) (r : res document) : res document :=
  match r with Ok d => Ok (g d) | Err e => Err e | Panic p => Panic p | OutOfFuel => OutOfFuel end.

Lemma post_pc_sh olds A c : Forall (fun o => ntext (fst o)) olds -> Inv olds (sh_ctx (blen A) c) ->
  post (pc olds (sh_ctx (blen A) c)) = rmapd (fun d => pd olds (sh_doc (blen A) d)) (post c).
Proof.
  intros Holds HI. unfold post. cbv zeta.
  change (c_doc (pc olds (sh_ctx (blen A) c))) with (pd olds (sh_doc (blen A) (c_doc c))).
  rewrite children_pd, (children_sh A).
  destruct (children (c_doc c) 0) as [it| | |]; cbn [bind rmapd]; try reflexivity.
  replace (length (d_nodes (pd olds (sh_doc (blen A) (c_doc c))))) with (length (d_nodes (c_doc c))).
  2:{ cbn [pd set_nodes d_nodes sh_doc]. unfold pn. rewrite imap_length, map_length. reflexivity. }
  rewrite (children_any_element_pd olds Holds _ (c_parent_id c)) by exact HI.
  rewrite (children_any_element_sh A).
  destruct (children_any_element _ (c_doc c) it) as [he| | |]; cbn [bind rmapd]; try reflexivity.
  destruct (negb he); [reflexivity|].
  change (c_parent_prefixes (pc olds (sh_ctx (blen A) c))) with (map (sh_sl0 (blen A)) (c_parent_prefixes c)).
  rewrite len_N_map. destruct (1 <? _); reflexivity.
Qed.

(* ------------------------------------------------------------------ *)
(* the relation of the errors of the two runs *)
Definition MidErr (A A' U : bytes) (e e' : error) : Prop :=
  err_kind e = err_kind e' /\
  (has_pos e = false -> e' = e) /\
  (has_pos e = true -> exists q tp, q <= tlen U /\ is_boundary U q = true /\
      text_pos_at U q = Ok tp /\
      error_pos e = pos_app A tp /\ error_pos e' = pos_app A' tp /\
      text_pos_at (A ++ U) (blen A + q) = Ok (error_pos e) /\
      text_pos_at (A' ++ U) (blen A' + q) = Ok (error_pos e')).

Lemma MidErr_of A A' U eU e e' : valid_utf8_b U = true ->
  ErrRel A U eU e -> ErrRel A' U eU e' -> MidErr A A' U e e'.
Proof.
  intros Hv H1 H2. pose proof (valid_head_ok U Hv) as Hh.
  destruct H1 as [eU Hn|eU e Hp Hk (q1 & L1 & L2 & L3 & L4)].
  - destruct H2 as [eU _|eU e' Hp' _ _]; [|congruence].
    split; [reflexivity|]. split; [reflexivity|]. congruence.
  - destruct H2 as [eU Hn'|eU e' _ Hk' (q2 & M1 & M2 & M3 & M4)]; [congruence|].
    split; [congruence|]. split.
    { intros Hf. rewrite <- has_pos_kind, <- Hk, has_pos_kind in Hf. congruence. }
    intros _. exists q1, (error_pos eU).
    assert (T1 : text_pos_at U q1 = Ok (error_pos eU)) by (rewrite text_pos_at_gen by assumption; exact L3).
    assert (T2 : text_pos_at U q2 = Ok (error_pos eU)) by (rewrite text_pos_at_gen by assumption; exact M3).
    destruct (error_pos eU) as [r c] eqn:Epos.
    pose proof (text_pos_at_concat A U q1 r c L1 L2 (fun _ => Hh) T1) as C1.
    pose proof (text_pos_at_concat A' U q2 r c M1 M2 (fun _ => Hh) T2) as C2.
    pose proof (text_pos_at_concat A' U q1 r c L1 L2 (fun _ => Hh) T1) as C3.
    assert (B1 : is_boundary (A ++ U) (blen A + q1) = true) by (apply is_boundary_app; auto).
    assert (B2 : is_boundary (A' ++ U) (blen A' + q2) = true) by (apply is_boundary_app; auto).
    rewrite text_pos_at_gen in C1; [|unfold tlen in *; rewrite blen_app; lia|exact B1].
    rewrite text_pos_at_gen in C2; [|unfold tlen in *; rewrite blen_app; lia|exact B2].
    rewrite N.add_comm in C1, C2. rewrite C1 in L4. rewrite C2 in M4.
    injection L4 as L4. injection M4 as M4.
    split; [exact L1|]. split; [exact L2|]. split; [exact T1|].
    split; [symmetry; exact L4|]. split; [symmetry; exact M4|].
    split.
    + rewrite <- L4. apply (text_pos_at_concat A U q1 r c L1 L2 (fun _ => Hh) T1).
    + rewrite <- M4. exact C3.
Qed.

Lemma MidErr_same A A' U e : has_pos e = false -> MidErr A A' U e e.
Proof. intros H. split; [reflexivity|]. split; [reflexivity|]. congruence. Qed.

(* ------------------------------------------------------------------ *)
Section Core.
Variable A0 W ws U : bytes.
Hypothesis HW : forallb byte_is_space W = true.
Hypothesis Hws : forallb byte_is_space ws = true.
Hypothesis HvU : valid_utf8_b U = true.
Notation A := (A0 ++ W).
Notation A' := (A0 ++ (W ++ ws)).
Notation text := (A ++ U).
Notation text' := (A' ++ U).
Notation P := (blen A).
Notation P' := (blen A').
Variable olds : list (node_kind * range).
Hypothesis Holds : Forall (fun o => ntext (fst o)) olds.

Lemma HW' : forallb byte_is_space (W ++ ws) = true.
Proof. rewrite forallb_app, HW, Hws. reflexivity. Qed.

(* the rest of the run from the loop head, in the three texts *)
Lemma cont_rel dtd fu fu' c0 : Inv olds c0 -> (fu <= fu')%nat ->
  match cont text context (Parse.token text) dtd (S fu) (sQ A0 W U) (pc olds (sh_ctx P c0)) with
  | Ok cF => exists cU, Inv olds (sh_ctx P cU) /\ Inv olds (sh_ctx P' cU) /\
               cF = pc olds (sh_ctx P cU) /\
               cont text' context (Parse.token text') dtd (S fu') (sQ A0 (W ++ ws) U) (pc olds (sh_ctx P' c0))
               = Ok (pc olds (sh_ctx P' cU))
  | Err e => exists e', MidErr A A' U e e' /\
               cont text' context (Parse.token text') dtd (S fu') (sQ A0 (W ++ ws) U) (pc olds (sh_ctx P' c0))
               = Err e'
  | _ => True
  end.
Proof.
  intros HI Hle.
  pose proof (cont_shE A0 W U HW HvU context (Parse.token U) (Parse.token text) (sh_ctx P)
                (fun tok c Hwf => token_g A U HvU tok c Hwf) dtd fu c0) as S1.
  pose proof (cont_shE A0 (W ++ ws) U HW' HvU context (Parse.token U) (Parse.token text') (sh_ctx P')
                (fun tok c Hwf => token_g A' U HvU tok c Hwf) dtd fu' c0) as S2.
  pose proof (cont_fr text olds Holds dtd (S fu) (sQ A0 W U) (sh_ctx P c0) (Inv_sh olds P c0 HI)) as F1.
  pose proof (cont_fr text' olds Holds dtd (S fu') (sQ A0 (W ++ ws) U) (sh_ctx P' c0) (Inv_sh olds P' c0 HI)) as F2.
  set (X := cont U context (Parse.token U) dtd (S fu) (stream_new U) c0) in *.
  set (X' := cont U context (Parse.token U) dtd (S fu') (stream_new U) c0) in *.
  assert (HX : X <> OutOfFuel -> X' = X).
  { intros Hne. apply cont_mono; [lia|exact Hne]. }
  set (Y := cont text context (Parse.token text) dtd (S fu) (sQ A0 W U) (sh_ctx P c0)) in *.
  set (Y' := cont text' context (Parse.token text') dtd (S fu') (sQ A0 (W ++ ws) U) (sh_ctx P' c0)) in *.
  set (Z := cont text context (Parse.token text) dtd (S fu) (sQ A0 W U) (pc olds (sh_ctx P c0))) in *.
  set (Z' := cont text' context (Parse.token text') dtd (S fu') (sQ A0 (W ++ ws) U) (pc olds (sh_ctx P' c0))) in *.
  destruct X as [cU|eU|p|] eqn:EX.
  - rewrite HX in S2 by discriminate. cbn [ErrShiftBase.rsimE] in S1, S2.
    rewrite S1 in F1. rewrite S2 in F2. cbn [fsim] in F1, F2.
    destruct F1 as [I1 ->]. destruct F2 as [I2 ->]. exists cU. auto.
  - rewrite HX in S2 by discriminate. cbn [ErrShiftBase.rsimE] in S1, S2.
    destruct S1 as [e1 [E1 R1]]. destruct S2 as [e2 [E2 R2]].
    rewrite E1 in F1. rewrite E2 in F2. cbn [fsim] in F1, F2. rewrite F1. exists e2. split; [|exact F2].
    eapply MidErr_of; eassumption.
  - cbn [ErrShiftBase.rsimE] in S1. rewrite S1 in F1. cbn [fsim] in F1. rewrite F1. exact I.
  - cbn [ErrShiftBase.rsimE] in S1. rewrite S1 in F1. cbn [fsim] in F1. rewrite F1. exact I.
Qed.

(* ---- the whole parse ---- *)
Variable opt : options.
Variable n : nat.
Variable ci ci' c0 : context.
Variable s2 s2' : stream.
Hypothesis HI : Inv olds c0.
Hypothesis E_init : init_context text opt = Ok ci.
Hypothesis E_start : doc_start text = Ok s2.
Hypothesis E_steps : misc_steps text context (Parse.token text) n s2 ci = Some (sQ A0 W U, pc olds (sh_ctx P c0)).
Hypothesis E_init' : init_context text' opt = Ok ci'.
Hypothesis E_start' : doc_start text' = Ok s2'.
Hypothesis E_steps' : misc_steps text' context (Parse.token text') n s2' ci' = Some (sQ A0 (W ++ ws) U, pc olds (sh_ctx P' c0)).
Hypothesis E_len : (length (s_rest s2) <= length (s_rest s2'))%nat.

Lemma parse_as_cont : forall r, parse text opt = r -> r <> OutOfFuel ->
  exists fu fu', (fu <= fu')%nat /\
    parse text opt = (let! c := cont text context (Parse.token text) (allow_dtd opt) (S fu) (sQ A0 W U)
                                   (pc olds (sh_ctx P c0)) in post c) /\
    parse text' opt = (let! c := cont text' context (Parse.token text') (allow_dtd opt) (S fu') (sQ A0 (W ++ ws) U)
                                   (pc olds (sh_ctx P' c0)) in post c).
Proof.
  intros r Hr Hne.
  assert (Hfu : (n < S (length (s_rest s2)))%nat).
  { destruct (Nat.lt_ge_cases n (S (length (s_rest s2)))) as [|Hge]; [assumption|]. exfalso.
    apply Hne. rewrite <- Hr, parse_eq, E_init. cbn [bind]. rewrite parse_document_cont, E_start. cbn [bind].
    unfold cont. rewrite (misc_steps_fuel _ _ _ _ _ _ _ _ E_steps) by lia. reflexivity. }
  exists (length (s_rest s2) - n)%nat, (length (s_rest s2') - n)%nat. split; [lia|]. split.
  - rewrite parse_eq, E_init. cbn [bind]. rewrite parse_document_cont, E_start. cbn [bind].
    replace (S (length (s_rest s2))) with (n + S (length (s_rest s2) - n))%nat by lia.
    unfold cont at 1. rewrite (misc_steps_loop _ _ _ _ _ _ _ _ E_steps). reflexivity.
  - rewrite parse_eq, E_init'. cbn [bind]. rewrite parse_document_cont, E_start'. cbn [bind].
    replace (S (length (s_rest s2'))) with (n + S (length (s_rest s2') - n))%nat by lia.
    unfold cont at 1. rewrite (misc_steps_loop _ _ _ _ _ _ _ _ E_steps'). reflexivity.
Qed.

Theorem core_err e : parse text opt = Err e ->
  exists e', parse text' opt = Err e' /\ MidErr A A' U e e'.
Proof.
  intros H. destruct (parse_as_cont _ H ltac:(discriminate)) as (fu & fu' & Hle & E1 & E2).
  pose proof (cont_rel (allow_dtd opt) fu fu' c0 HI Hle) as HR.
  rewrite E1 in H. rewrite E2.
  destruct (cont text context (Parse.token text) (allow_dtd opt) (S fu) (sQ A0 W U) (pc olds (sh_ctx P c0)))
    as [cF|e1|p|]; cbn [bind] in H; try discriminate.
  - destruct HR as (cU & I1 & I2 & -> & ->). cbn [bind].
    rewrite (post_pc_sh olds A cU Holds I1) in H. rewrite (post_pc_sh olds A' cU Holds I2).
    pose proof (np_post cU) as Hn.
    destruct (post cU) as [d|e0|p|]; cbn [rmapd nopos_res] in *; try discriminate.
    injection H as <-. exists e0. split; [reflexivity|apply MidErr_same; exact Hn].
  - injection H as <-. destruct HR as (e' & HM & ->). exists e'. split; [reflexivity|exact HM].
Qed.

Theorem core_ok d : parse text opt = Ok d ->
  exists dU, d = pd olds (sh_doc P dU) /\ parse text' opt = Ok (pd olds (sh_doc P' dU)).
Proof.
  intros H. destruct (parse_as_cont _ H ltac:(discriminate)) as (fu & fu' & Hle & E1 & E2).
  pose proof (cont_rel (allow_dtd opt) fu fu' c0 HI Hle) as HR.
  rewrite E1 in H. rewrite E2.
  destruct (cont text context (Parse.token text) (allow_dtd opt) (S fu) (sQ A0 W U) (pc olds (sh_ctx P c0)))
    as [cF|e1|p|]; cbn [bind] in H; try discriminate.
  destruct HR as (cU & I1 & I2 & -> & ->). cbn [bind].
  rewrite (post_pc_sh olds A cU Holds I1) in H. rewrite (post_pc_sh olds A' cU Holds I2).
  destruct (post cU) as [dU|e0|p|]; cbn [rmapd] in *; try discriminate.
  injection H as <-. exists dU. split; reflexivity.
Qed.

End Core.
