(* Proofs/D23Sanity.v -- the four repaired prolog / DTD lexing defects (D23), on concrete inputs
   by vm_compute:
   1. system / public literals of an external id are checked with is_xml_str (NonXmlChar);
   2. the public literal accepts PubidChar characters only (InvalidExternalID);
   3. NDATA needs a preceding whitespace (InvalidChar2 "a whitespace" 'N');
   4. the pseudo-attribute names of the XML declaration are matched exactly (InvalidString).
   The positions are the ones the patched crate reports. *)
From Coq Require Import Ascii String.
From Coq Require Import List NArith Bool.
Import ListNotations.
From RX Require Import Generated.
From RX.Model Require Import Base CharClass Stream Tokenizer Doc Builder Parse.
Open Scope N_scope.

Definition optd : options := {| allow_dtd := true; nodes_limit := 1000 |}.
Definition is_ok {A} (r : res A) : bool := match r with Ok _ => true | _ => false end.
Definition is_err {A} (r : res A) : bool := match r with Err _ => true | _ => false end.

(* 1. a non-Char inside a system literal (DOCTYPE SYSTEM, DOCTYPE PUBLIC, entity declaration) *)
Example system_ctl :
  parse (b "<!DOCTYPE a SYSTEM '" ++ [1] ++ b "'><a/>") optd = Err (NonXmlChar 1 (1, 21)).
Proof. vm_compute. reflexivity. Qed.
Example public_system_ctl :
  parse (b "<!DOCTYPE a PUBLIC 'x' '" ++ [2] ++ b "'><a/>") optd = Err (NonXmlChar 2 (1, 25)).
Proof. vm_compute. reflexivity. Qed.
Example entity_system_ctl :
  parse (b "<!DOCTYPE a [<!ENTITY e SYSTEM '" ++ [1] ++ b "'>]><a/>") optd
  = Err (NonXmlChar 1 (1, 33)).
Proof. vm_compute. reflexivity. Qed.

(* 2. PubidChar *)
Example pubid_brace :
  parse (b "<!DOCTYPE a PUBLIC '{}' 'x'><a/>") optd = Err (InvalidExternalID (1, 21)).
Proof. vm_compute. reflexivity. Qed.
Example pubid_w3c :
  is_ok (parse (b "<!DOCTYPE a PUBLIC ""-//W3C//DTD X 1.0//EN"" 'x.dtd'><a/>") optd) = true.
Proof. vm_compute. reflexivity. Qed.
Example pubid_apos_in_dq :
  is_ok (parse (b "<!DOCTYPE a PUBLIC ""o'r"" 'x.dtd'><a/>") optd) = true.
Proof. vm_compute. reflexivity. Qed.
Example pubid_dq_in_apos :
  parse (b "<!DOCTYPE a PUBLIC 'o""r' 'x.dtd'><a/>") optd = Err (InvalidExternalID (1, 22)).
Proof. vm_compute. reflexivity. Qed.

(* 3. whitespace before NDATA *)
Example ndata_nospace :
  parse (b "<!DOCTYPE a [<!ENTITY e SYSTEM 'x'NDATA n>]><a/>") optd
  = Err (InvalidChar2 (b "a whitespace") 78 (1, 35)).
Proof. vm_compute. reflexivity. Qed.
Example ndata_space :
  is_ok (parse (b "<!DOCTYPE a [<!ENTITY e SYSTEM 'x' NDATA n>]><a/>") optd) = true.
Proof. vm_compute. reflexivity. Qed.

(* 4. pseudo-attribute names *)
Example versionx :
  parse (b "<?xml versionx='1.0'?><a/>") optd = Err (InvalidString (b "version") (1, 7)).
Proof. vm_compute. reflexivity. Qed.
Example version_prefixed :
  parse (b "<?xml version:y='1.0'?><a/>") optd = Err (InvalidString (b "version") (1, 7)).
Proof. vm_compute. reflexivity. Qed.
Example encodingZ :
  parse (b "<?xml version='1.0' encodingZ='u'?><a/>") optd
  = Err (InvalidString (b "encoding") (1, 21)).
Proof. vm_compute. reflexivity. Qed.
Example standalone_x :
  parse (b "<?xml version='1.0' standalone-x='yes'?><a/>") optd
  = Err (InvalidString (b "standalone") (1, 21)).
Proof. vm_compute. reflexivity. Qed.
Example decl_full :
  is_ok (parse (b "<?xml version='1.0' encoding='utf-8' standalone='yes'?><a/>") optd) = true.
Proof. vm_compute. reflexivity. Qed.
