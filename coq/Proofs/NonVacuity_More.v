(* Proofs/NonVacuity_More.v -- non-vacuity, the remaining two-document theorems: piece_choice_insensitive (C04) and
   layout_insensitive_text (C05) on Spec/CstText.v, hoist_insensitive_full_s4 (C07) on Spec/CstFullS4.v, and
   tokenizer_content_tokens_ok (C18) on the content of <p:c> in the document of NonVacuity_Doc.v. *)
From Coq Require Import Ascii String List NArith Bool Lia.
Import ListNotations.
From RX Require Import Generated.
From RX.Model Require Import Base CharClass Stream Tokenizer Doc Builder Parse Api.
From RX.Spec Require Cst CstText CstFull CstFullS4.
From RX.Proofs Require Import NonVacuity_Doc NonVacuity_C13 NonVacuity_C18.
From RX.Proofs Require CstTextMain CstTextSanity CstNsView CstFullMain CstFullS4Main CstFullS4Sanity BorrowTokenizer.
Open Scope N_scope.

(* ---- CstText: <r x="a&lt;">a&amp;b<!--k--></r>  and  <r x="a&#60;">a<![CDATA[&]]>b<!--k--></r> ---- *)
Module Txt.
Import CstText CstTextSanity CstTextMain.
Definition t1 : doc := mk (el "r" [at_ "x" 34 [PLit (b "a"); PPredef Lt]] [IText [PLit (b "a"); PPredef Amp; PLit (b "b")]; IComment (b "k")]).
Definition t2 : doc := mk (el "r" [at_ "x" 34 [PLit (b "a"); PCharRef false (b "60")]] [IText [PLit (b "a"); PCData (b "&"); PLit (b "b")]; IComment (b "k")]).

Example nv_layout_insensitive_text :
  wf_doc t1 = true /\ wf_doc t2 = true /\ sem t1 = sem t2 /\ render t1 <> render t2 /\
  N.of_nat (length (sem t1)) < nodes_limit opt0 /\
  N.of_nat (length (render t1)) <= u32_max /\ N.of_nat (length (render t2)) <= u32_max.
Proof. repeat split; try (vm_compute; reflexivity); vm_compute; discriminate. Qed.

Example nv_piece_choice_insensitive :
  same_item (d_root t1) (d_root t2) /\ map fst (d_before t1) = map fst (d_before t2) /\ map snd (d_after t1) = map snd (d_after t2).
Proof.
  split; [|split; reflexivity].
  apply same_elem.
  - constructor; [split; vm_compute; reflexivity|constructor].
  - apply same_some. apply same_cons; [apply same_text; vm_compute; reflexivity|].
    apply same_cons; [apply same_comment|apply same_nil].
Qed.

Example nv_piece_choice_insensitive_applied :
  exists d1 d2, parse (render t1) opt0 = Ok d1 /\ parse (render t2) opt0 = Ok d2 /\
                CstMain.view (render t1) d1 = CstMain.view (render t2) d2.
Proof.
  destruct nv_layout_insensitive_text as (H1 & H2 & H3 & _ & H4 & H5 & H6).
  exact (layout_insensitive_text t1 t2 opt0 H1 H2 H3 H4 H5 H6).
Qed.
End Txt.

(* ---- S4: the same meaning with a different distribution over entities ---- *)
Module S4x.
Import CstFull CstFullS4 CstNsView CstFullMain CstFullS4Main CstFullS4Sanity.
(* r[xmlns:p='u'] : "a" &t; &e; "z"     with t = "uv" (character data), e = <p:x p:a='1' /> (markup) *)
Definition h1 : S4.doc :=
  mk [xd (b "t") (XText [lit (b "uv")]); xd (b "e") (XContent [em p_ (b "x") [at1 p_ (b "a") [lit (b "1")]]])]
     (el [] (b "r") [dc p_ [lit (b "u")]] [tx [lit (b "a"); rf (b "t"); rf (b "e"); lit (b "z")]]).
(* r[xmlns:p='u'] : "au" &t; <p:x p:a='1' /> "z"     with t = "v" *)
Definition h2 : S4.doc :=
  mk [xd (b "t") (XText [lit (b "v")])]
     (el [] (b "r") [dc p_ [lit (b "u")]] [tx [lit (b "au"); rf (b "t")]; em p_ (b "x") [at1 p_ (b "a") [lit (b "1")]]; tx [lit (b "z")]]).
Ltac dd4 :=
  unfold S4.distinct_decls_le;
  match goal with |- match ?x with _ => _ end => let y := eval vm_compute in x in change x with y end;
  apply distinct_by_count;
  match goal with |- (length ?l <= _)%nat => let n := eval vm_compute in (length l) in change (length l) with n end; lia.
Example nv_hoist_insensitive_full_s4 :
  S4.wf_doc h1 = true /\ S4.wf_doc h2 = true /\ allow_dtd opt4 = true /\ S4.sem h1 = S4.sem h2 /\ S4.render h1 <> S4.render h2 /\
  N.of_nat (length (S4.sem h1)) < nodes_limit opt4 /\ N.of_nat (length (S4.sem h1)) < u32_max /\
  N.of_nat (S4.nattrs h1) < u32_max /\
  S4.distinct_decls_le h1 (N.to_nat 65535) /\ S4.distinct_decls_le h2 (N.to_nat 65535) /\
  1 + N.of_nat (S4.ns_cost h1) <= u32_max /\ 1 + N.of_nat (S4.ns_cost h2) <= u32_max /\ length (S4.sem h1) = 6%nat.
Proof.
  split; [vm_compute; reflexivity|]. split; [vm_compute; reflexivity|]. split; [reflexivity|].
  split; [vm_compute; reflexivity|]. split; [vm_compute; discriminate|].
  split; [vm_compute; reflexivity|]. split; [vm_compute; reflexivity|]. split; [vm_compute; reflexivity|].
  split; [dd4|]. split; [dd4|]. split; [vm_compute; discriminate|]. split; [vm_compute; discriminate|vm_compute; reflexivity].
Qed.
Example nv_hoist_insensitive_full_s4_applied :
  exists x1 x2, parse (S4.render h1) opt4 = Ok x1 /\ parse (S4.render h2) opt4 = Ok x2 /\
                view (S4.render h1) x1 = view (S4.render h2) x2.
Proof.
  destruct nv_hoist_insensitive_full_s4 as (H1 & H2 & H3 & H4 & _ & H5 & H6 & H7 & H8 & H9 & H10 & H11 & _).
  exact (hoist_insensitive_full_s4 h1 h2 opt4 H1 H2 H3 H4 H5 H6 H7 H8 H9 H10 H11).
Qed.
End S4x.

(* ---- tokenizer_content_tokens_ok: parse_content from the first byte after <r ...> (position 51) ---- *)
Example nv_tokenizer_content_tokens_ok :
  exists s' c', parse_content text0 (list slice) ev_vals (st_at 51) [] = Ok (s', c') /\ length c' = 1%nat /\ s_pos s' = 99.
Proof. do 2 eexists. split; [vm_compute; reflexivity|]. split; reflexivity. Qed.
