(* Proofs/DebugTotal.v -- C10, the Debug printer of Document (Model/Debug.v): the iterative
   print_children terminates within its fuel on every successfully parsed document, and its
   explicit stack never holds more iterators than there are nodes. *)
From Coq Require Import Ascii String.
From Coq Require Import List Arith NArith Bool Lia ZifyBool ZifyN ZifyNat.
Import ListNotations.
From RX Require Import Generated.
From RX.Model Require Import Base CharClass Stream Tokenizer Doc Builder Parse Api Debug.
From RX.Spec Require Import Tree.
From RX.Proofs Require Import NavEnc NavLinks NavIter NavAxes NavElem.
From RX.Proofs Require Import Tactics NoPanicBuilder ApiTotal.
Open Scope N_scope.

(* ---------------------------------------------------------------------------------------- *)
(* number of loop iterations spent on a node / on the rest of a child list                  *)
(* ---------------------------------------------------------------------------------------- *)

(* print_children descends into elements that have children *)
Definition desc (k : kind) (cs : list tree) : bool :=
  match k, cs with KdElem, _ :: _ => true | _, _ => false end.

(* one iteration yields the node; if we descend, its iterator costs its children + one pop *)
Fixpoint node_its (c : tree) : nat :=
  match c with
  | T k cs =>
    S (if desc k cs
       then S ((fix go (l : list tree) : nat :=
                  match l with [] => O | c :: r => (node_its c + go r)%nat end) cs)
       else O)
  end.
Definition list_its (l : list tree) : nat := fold_right (fun c a => (node_its c + a)%nat) O l.
(* an iterator with [rest] still to yield: the yields and the final pop *)
Definition frame_its (rest : list tree) : nat := S (list_its rest).

Lemma node_its_T k cs : node_its (T k cs) = S (if desc k cs then frame_its cs else O).
Proof.
  cbn [node_its]. unfold frame_its. destruct (desc k cs); reflexivity.
Qed.

Lemma list_its_cons c r : list_its (c :: r) = (node_its c + list_its r)%nat.
Proof. reflexivity. Qed.

Lemma node_its_bound : forall c, (node_its c <= 2 * N.to_nat (size c))%nat.
Proof.
  induction c as [k cs IH] using tree_ind'. rewrite node_its_T, size_T.
  assert (H : (list_its cs <= 2 * N.to_nat (sizes cs))%nat).
  { induction IH as [|c r Hc Hr IHr]; [cbn; lia|]. rewrite list_its_cons, sizes_cons. lia. }
  unfold frame_its. destruct (desc k cs); lia.
Qed.

Lemma list_its_bound l : (list_its l <= 2 * N.to_nat (sizes l))%nat.
Proof.
  induction l as [|c r IH]; [cbn; lia|]. rewrite list_its_cons, sizes_cons.
  pose proof (node_its_bound c). lia.
Qed.

(* ---------------------------------------------------------------------------------------- *)
(* frames of the explicit stack                                                             *)
(* ---------------------------------------------------------------------------------------- *)

Record frame := { fp : N; fpp : option N; fk : kind; fdone : list tree; frest : list tree }.

Definition ffirst (fr : frame) : N := fp fr + 1 + sizes (fdone fr).
Definition fit (fr : frame) : children_it := mk_it (child_ids (ffirst fr) (frest fr)).

Lemma tree_eta (t : tree) : t = T (tkind t) (tchildren t).
Proof. destruct t; reflexivity. Qed.

Section Doc.
Variable d : document.
Variable t : tree.
Hypothesis HA : Arena' d t.
Hypothesis Hd : DocOk d.

Definition FrameOk (fr : frame) : Prop :=
  In (fp fr, fpp fr, T (fk fr) (fdone fr ++ frest fr)) (table t).

(* the nodes of the frames are nested: ids grow towards the top of the stack *)
Fixpoint Heights (frs : list frame) : Prop :=
  match frs with
  | [] => True
  | fr :: r => len_N frs <= fp fr + 1 /\ Heights r
  end.

Definition total (frs : list frame) : nat := fold_right (fun fr a => (frame_its (frest fr) + a)%nat) O frs.

Lemma frame_seg fr : FrameOk fr ->
  seg (fp fr) (T (fk fr) (fdone fr ++ frest fr)) (child_ids (ffirst fr) (frest fr)).
Proof.
  intros _. unfold seg. cbn [tchildren]. exists (child_ids (fp fr + 1) (fdone fr)), [].
  rewrite app_nil_r, child_ids_app. reflexivity.
Qed.

Lemma in_table_lt id par s : In (id, par, s) (table t) -> id < size t.
Proof.
  intros H. assert (Hin : In id (map (fun e => fst (fst e)) (table t))).
  { apply in_map_iff. exists (id, par, s). auto. }
  rewrite table_ids in Hin.
  assert (G : forall n a, In id (N_range a n) -> id < a + N.of_nat n).
  { clear. induction n; intros a H; cbn [N_range In] in H; [contradiction|].
    destruct H as [->|H]; [lia|]. apply IHn in H. lia. }
  apply G in Hin. rewrite N2Nat.id in Hin. lia.
Qed.

Lemma print_node_lines_spec id par k cs : In (id, par, T k cs) (table t) ->
  exists n, print_node_lines d id = Ok (n, desc k cs).
Proof.
  intros Hin. unfold print_node_lines.
  rewrite (node_is_element_spec d t id par _ HA Hin). cbn [bind].
  unfold is_elem_id. rewrite (table_find _ _ _ _ Hin).
  destruct (table_get d t id par _ HA Hin) as [nd Hg].
  destruct k; try (eexists; reflexivity).
  destruct (attributes_returns d Hd id nd Hg) as (ia & -> & _). cbn [bind].
  destruct (namespaces_returns d Hd id nd Hg) as (ins & -> & _). cbn [bind].
  rewrite (nav_has_children' d t id par _ HA Hin). cbn [bind tchildren desc].
  destruct cs; eexists; reflexivity.
Qed.

Lemma print_loop_ok : forall fuel frs lines maxh,
  Forall FrameOk frs -> Heights frs -> (total frs < fuel)%nat ->
  exists lines' maxh', print_loop d fuel (map fit frs) lines maxh = Ok (lines', maxh') /\
                       maxh' <= N.max maxh (size t).
Proof.
  induction fuel as [|fu IH]; intros frs lines maxh Hok Hh Hf; [lia|].
  cbn [print_loop].
  destruct frs as [|fr rest]. { cbn [map]. eexists _, _. split; [reflexivity|lia]. }
  cbn [map]. inversion Hok as [|? ? Hfr Hrest]; subst. destruct Hh as [Hh1 Hh2].
  unfold fit at 1. rewrite (children_next_spec d t _ _ _ HA Hfr _ (frame_seg fr Hfr)). cbn [bind].
  cbn [total fold_right] in Hf. fold (total rest) in Hf.
  destruct fr as [p pp k dn rs]. unfold ffirst in *. cbn [fp fpp fk fdone frest] in *.
  destruct rs as [|c rs].
  - (* exhausted: pop *)
    cbn [child_ids hd_error]. unfold frame_its in Hf. cbn [list_its fold_right] in Hf.
    destruct rest as [|fr2 rest2]; cbn [map].
    + apply (IH []); auto. cbn in *. lia.
    + apply (IH (fr2 :: rest2)); auto. lia.
  - (* yield the child c *)
    cbn [child_ids hd_error tl]. destruct c as [kc ccs].
    unfold FrameOk in Hfr. cbn [fp fpp fk fdone frest] in Hfr.
    pose proof (table_child t p pp k dn (T kc ccs) rs Hfr) as Hc.
    destruct (print_node_lines_spec _ _ _ _ Hc) as [n ->]. cbn [bind].
    unfold frame_its in Hf. rewrite list_its_cons, node_its_T in Hf.
    set (fr' := {| fp := p; fpp := pp; fk := k; fdone := dn ++ [T kc ccs]; frest := rs |}).
    assert (Efit : mk_it (child_ids (p + 1 + sizes dn + size (T kc ccs)) rs) = fit fr').
    { unfold fit, ffirst, fr'. cbn [fp fdone frest]. rewrite sizes_app, sizes_cons, sizes_nil.
      f_equal. f_equal. lia. }
    assert (Hfr' : FrameOk fr').
    { unfold FrameOk, fr'. cbn [fp fpp fk fdone frest]. rewrite <- app_assoc. exact Hfr. }
    rewrite Efit.
    destruct (desc kc ccs) eqn:Ed.
    + (* descend *)
      rewrite (children_spec d t _ _ _ HA Hc). cbn [bind tchildren].
      set (frc := {| fp := p + 1 + sizes dn; fpp := Some p; fk := kc; fdone := []; frest := ccs |}).
      assert (Efc : mk_it (child_ids (p + 1 + sizes dn + 1) ccs) = fit frc).
      { unfold fit, ffirst, frc. cbn [fp fdone frest]. rewrite sizes_nil. f_equal. f_equal. lia. }
      rewrite Efc.
      change (fit frc :: fit fr' :: map fit rest) with (map fit (frc :: fr' :: rest)).
      assert (Hlen : len_N (map fit (frc :: fr' :: rest)) <= size t).
      { unfold len_N in *. rewrite map_length. cbn [length] in *.
        pose proof (in_table_lt _ _ _ Hc). lia. }
      destruct (IH (frc :: fr' :: rest) (lines + n) (N.max maxh (len_N (map fit (frc :: fr' :: rest)))))
        as (l' & m' & E & Hm).
      * constructor; [unfold FrameOk, frc; cbn; exact Hc|constructor; auto].
      * cbn [Heights]. unfold len_N in *. cbn [length fp frc fr'] in *. repeat split; auto; lia.
      * cbn [total fold_right frest frc fr']. fold (total rest). unfold frame_its in *. lia.
      * exists l', m'. split; [exact E|lia].
    + change (fit fr' :: map fit rest) with (map fit (fr' :: rest)).
      apply IH.
      * constructor; auto.
      * cbn [Heights]. unfold len_N in *. cbn [length fp fr'] in *. split; auto.
      * cbn [total fold_right frest fr']. fold (total rest). unfold frame_its in *. lia.
Qed.

Lemma debug_document_ok :
  exists lines maxh, debug_document d = Ok (lines, maxh) /\ maxh <= size t.
Proof.
  unfold debug_document.
  pose proof (table_root t) as Hroot. pose proof (size_pos t) as Hpos.
  rewrite (nav_has_children' d _ 0 None _ HA Hroot). cbn [bind].
  destruct (tchildren t) as [|c cs'] eqn:Ecs; cbn [negb].
  { eexists _, _. split; [reflexivity|]. lia. }
  rewrite (children_spec d _ 0 None _ HA Hroot). cbn [bind]. rewrite Ecs.
  set (cs := c :: cs') in *.
  set (fr := {| fp := 0; fpp := None; fk := tkind t; fdone := []; frest := cs |}).
  assert (Efit : mk_it (child_ids (0 + 1) cs) = fit fr).
  { unfold fit, ffirst, fr. cbn [fp fdone frest]. rewrite sizes_nil. reflexivity. }
  rewrite Efit. change [fit fr] with (map fit [fr]).
  destruct (print_loop_ok (S (2 * length (d_nodes d) + 2)) [fr] 1 1) as (l' & m' & E & Hm).
  - constructor; [|constructor]. unfold FrameOk, fr. cbn [fp fpp fk fdone frest app].
    rewrite <- Ecs, <- tree_eta. exact Hroot.
  - cbn. unfold len_N; cbn. lia.
  - cbn [total fold_right frest fr]. unfold frame_its.
    pose proof (list_its_bound cs) as Hb.
    pose proof (arena_len d _ HA) as Hl. rewrite (tree_eta t), size_T, Ecs in Hl.
    unfold len_N in Hl. lia.
  - rewrite E. cbn [bind]. eexists _, _. split; [reflexivity|]. lia.
Qed.

End Doc.

Theorem debug_total : forall text opt d, valid_utf8_b text = true -> nodes_limit opt <= u32_max -> parse text opt = Ok d ->
  exists lines maxh, debug_document d = Ok (lines, maxh).
Proof.
  intros text opt d Hvalid Hl Hp.
  destruct (parse_facts text opt d Hvalid Hl Hp) as (t & HA & _ & Hd).
  destruct (debug_document_ok d t HA Hd) as (l & m & E & _). eauto.
Qed.
Print Assumptions debug_total.

(* the explicit stack never holds more iterators than the document has nodes: it lives on the
   heap, the native call depth is constant *)
Theorem debug_stack_bounded : forall text opt d lines maxh, valid_utf8_b text = true -> nodes_limit opt <= u32_max ->
  parse text opt = Ok d -> debug_document d = Ok (lines, maxh) -> maxh <= len_N (d_nodes d).
Proof.
  intros text opt d lines maxh Hvalid Hl Hp H.
  destruct (parse_facts text opt d Hvalid Hl Hp) as (t & HA & _ & Hd).
  destruct (debug_document_ok d t HA Hd) as (l & m & E & Hm).
  rewrite E in H. inversion H; subst. rewrite (arena_len d t HA). exact Hm.
Qed.
Print Assumptions debug_stack_bounded.
