(* Proofs/ErrShiftMidFrame.v -- C14 (whitespace inserted inside the prolog), part 2: the frame
   property of the builder.  The comments and processing instructions that were appended to the
   document before a given point of the prolog ("old" nodes, the indices 1..m) are inert: the
   rest of the run never reads their kind or range and never writes them.  Formally: overwriting
   the kind and the range of the nodes 1..m ([pc]) commutes with Parse.token, hence with the
   whole rest of parse_document. *)
From Coq Require Import Ascii String.
From Coq Require Import List Arith NArith Bool Lia ZifyBool ZifyN ZifyNat.
Import ListNotations.
From RX Require Import Generated.
From RX.Model Require Import Base CharClass Stream Tokenizer Doc Builder Parse.
From RX.Proofs Require Import Tactics BorrowLocal BorrowParse OptionsParam.
Open Scope N_scope.

(* ------------------------------------------------------------------ *)
(* the relation of two results: the second is the image of the first  *)
Definition fsim {A} (I : A -> Prop) (g : A -> A) (r1 r2 : res A) : Prop :=
  match r1 with
  | Ok a => I a /\ r2 = Ok (g a)
  | Err e => r2 = Err e
  | Panic p => r2 = Panic p
  | OutOfFuel => r2 = OutOfFuel
  end.

Lemma fsim_bind {A B} (I : A -> Prop) (g : A -> A) (I' : B -> Prop) (g' : B -> B) r1 r2 k1 k2 :
  fsim I g r1 r2 -> (forall a, I a -> fsim I' g' (k1 a) (k2 (g a))) ->
  fsim I' g' (bind r1 k1) (bind r2 k2).
Proof.
  intros H Hk. destruct r1; cbn [fsim bind] in *.
  - destruct H as [Ha ->]. cbn [bind]. apply Hk. exact Ha.
  - subst r2. reflexivity.
  - subst r2. reflexivity.
  - subst r2. reflexivity.
Qed.

Lemma fsim_same {A B} (I' : B -> Prop) (g' : B -> B) (r : res A) k1 k2 :
  (forall a, fsim I' g' (k1 a) (k2 a)) -> fsim I' g' (bind r k1) (bind r k2).
Proof. intros Hk. destruct r; cbn [bind fsim]; auto. Qed.

Lemma fsim_weaken {A} (I I' : A -> Prop) g r1 r2 :
  fsim I g r1 r2 -> (forall a, I a -> I' a) -> fsim I' g r1 r2.
Proof. intros H HI. destruct r1; cbn [fsim] in *; auto. destruct H; auto. Qed.

Lemma fsim_err_at {A} (I : A -> Prop) g text s mk : fsim I g (err_at text s mk) (err_at text s mk).
Proof. unfold err_at. destruct (gen_text_pos text s); reflexivity. Qed.
Lemma fsim_err_from {A} (I : A -> Prop) g text p mk : fsim I g (err_from text p mk) (err_from text p mk).
Proof. unfold err_from. destruct (gen_text_pos_from text p); reflexivity. Qed.

(* ------------------------------------------------------------------ *)
(* the kinds of the old nodes: comments and processing instructions *)
Definition ntext (kd : node_kind) : Prop := match kd with KComment _ | KPI _ _ => True | _ => False end.

Definition with_kr (n : node_data) (o : node_kind * range) : node_data :=
  {| nd_parent := nd_parent n; nd_prev_sibling := nd_prev_sibling n;
     nd_next_subtree := nd_next_subtree n; nd_last_child := nd_last_child n;
     nd_kind := fst o; nd_range := snd o |}.

Section Frame.
Variable text : bytes.
Variable olds : list (node_kind * range).
Hypothesis Holds : Forall (fun o => ntext (fst o)) olds.
Notation m := (length olds).

(* the node of index i with its kind and range overwritten, for 1 <= i <= m *)
Definition gP (i : nat) (n : node_data) : node_data :=
  match i with
  | O => n
  | S j => match nth_error olds j with Some o => with_kr n o | None => n end
  end.

Fixpoint imap_from (j : nat) (l : list node_data) : list node_data :=
  match l with [] => [] | x :: r => gP j x :: imap_from (S j) r end.
Definition pn (l : list node_data) : list node_data := imap_from 0 l.
Definition pd (d : document) : document := set_nodes d (pn (d_nodes d)).
Definition pc (c : context) : context := set_doc c (pd (c_doc c)).

Lemma gP_hi j n : (j = 0 \/ m < j)%nat -> gP j n = n.
Proof.
  intros H. destruct j as [|j]; [reflexivity|]. cbn [gP].
  destruct (nth_error olds j) eqn:E; [|reflexivity].
  assert (nth_error olds j <> None) by congruence. apply nth_error_Some in H0. lia.
Qed.

Lemma gP_links j n :
  nd_parent (gP j n) = nd_parent n /\ nd_prev_sibling (gP j n) = nd_prev_sibling n /\
  nd_next_subtree (gP j n) = nd_next_subtree n /\ nd_last_child (gP j n) = nd_last_child n.
Proof. destruct j as [|j]; cbn [gP]; [auto|]. destruct (nth_error olds j); cbn; auto. Qed.

Lemma gP_ntext j n : ntext (nd_kind n) -> ntext (nd_kind (gP j n)).
Proof.
  intros H. destruct j as [|j]; cbn [gP]; [exact H|].
  destruct (nth_error olds j) as [o|] eqn:E; [|exact H]. cbn [with_kr nd_kind].
  rewrite Forall_forall in Holds. apply Holds. eapply nth_error_In; eassumption.
Qed.

Lemma gP_cases j n : gP j n = n \/ ((1 <= j <= m)%nat /\ ntext (nd_kind (gP j n))).
Proof.
  destruct j as [|j]; cbn [gP]; [left; reflexivity|].
  destruct (nth_error olds j) as [o|] eqn:E; [|left; reflexivity]. right. split.
  - assert (nth_error olds j <> None) by congruence. apply nth_error_Some in H. lia.
  - cbn [with_kr nd_kind]. rewrite Forall_forall in Holds. apply Holds. eapply nth_error_In; eassumption.
Qed.

Lemma imap_length : forall l j, length (imap_from j l) = length l.
Proof. induction l; intros j; cbn [imap_from length]; auto. Qed.

Lemma imap_nth : forall l j i, nth_error (imap_from j l) i = option_map (gP (j + i)) (nth_error l i).
Proof.
  induction l as [|x l IH]; intros j i; cbn [imap_from].
  - destruct i; reflexivity.
  - destruct i as [|i]; cbn [nth_error option_map].
    + rewrite Nat.add_0_r. reflexivity.
    + rewrite IH. replace (S j + i)%nat with (j + S i)%nat by lia. reflexivity.
Qed.

Lemma imap_app : forall l j x, imap_from j (l ++ [x]) = imap_from j l ++ [gP (j + length l) x].
Proof.
  induction l as [|y l IH]; intros j x; cbn [imap_from app length].
  - rewrite Nat.add_0_r. reflexivity.
  - rewrite IH. replace (S j + length l)%nat with (j + S (length l))%nat by lia. reflexivity.
Qed.

Lemma imap_upd f : forall l j i,
  (forall n, nth_error l i = Some n -> gP (j + i) (f n) = f (gP (j + i) n)) ->
  list_upd (imap_from j l) i f = option_map (imap_from j) (list_upd l i f).
Proof.
  induction l as [|x l IH]; intros j i Hf; cbn [imap_from list_upd]; [reflexivity|].
  destruct i as [|i].
  - cbn [option_map imap_from]. specialize (Hf x eq_refl). rewrite Nat.add_0_r in Hf. rewrite Hf. reflexivity.
  - rewrite IH.
    + destruct (list_upd l i f); reflexivity.
    + intros n Hn. replace (S j + i)%nat with (j + S i)%nat by lia. apply Hf. exact Hn.
Qed.

Lemma len_pn l : len_N (pn l) = len_N l.
Proof. unfold len_N, pn. rewrite imap_length. reflexivity. Qed.

Lemma nth_N_pn l i : nth_N (pn l) i = option_map (gP (N.to_nat i)) (nth_N l i).
Proof.
  unfold nth_N. rewrite len_pn. destruct (len_N l <=? i); [reflexivity|].
  unfold pn. rewrite imap_nth. reflexivity.
Qed.

(* ---- the invariant of the node list ---- *)
Definition pid_ok (i : N) : Prop := i = 0 \/ N.of_nat m < i.
Definition par_ok (n : node_data) : Prop :=
  match nd_parent n with Some j => pid_ok j | None => True end.

Record NI (l : list node_data) (pid : N) : Prop := {
  ni_len : (m < length l)%nat;
  ni_pid : pid_ok pid;
  ni_par : forall i n, nth_error l i = Some n -> par_ok n;
  ni_old : forall i n, (1 <= i <= m)%nat -> nth_error l i = Some n -> ntext (nd_kind n)
}.

Lemma list_upd_length {A} (f : A -> A) : forall l i l', list_upd l i f = Some l' -> length l' = length l.
Proof.
  induction l as [|x l IH]; intros i l' H; cbn [list_upd] in H; [discriminate|].
  destruct i as [|i].
  - injection H as <-. reflexivity.
  - destruct (list_upd l i f) eqn:E; [|discriminate]. injection H as <-. cbn [length]. f_equal. eauto.
Qed.

Lemma list_upd_nth {A} (f : A -> A) : forall l i l' j, list_upd l i f = Some l' ->
  nth_error l' j = if Nat.eqb j i then option_map f (nth_error l j) else nth_error l j.
Proof.
  induction l as [|x l IH]; intros i l' j H; cbn [list_upd] in H; [discriminate|].
  destruct i as [|i].
  - injection H as <-. destruct j; reflexivity.
  - destruct (list_upd l i f) eqn:E; [|discriminate]. injection H as <-.
    destruct j as [|j]; [reflexivity|]. cbn [nth_error Nat.eqb]. eapply IH. exact E.
Qed.

Lemma NI_upd l pid i f l' : NI l pid -> list_upd l i f = Some l' ->
  (forall n, nth_error l i = Some n -> nd_parent (f n) = nd_parent n /\
             ((1 <= i <= m)%nat -> ntext (nd_kind n) -> ntext (nd_kind (f n)))) ->
  NI l' pid.
Proof.
  intros [H1 H2 H3 H4] Hu Hf. split.
  - rewrite (list_upd_length _ _ _ _ Hu). exact H1.
  - exact H2.
  - intros j n Hn. rewrite (list_upd_nth _ _ _ _ j Hu) in Hn. destruct (Nat.eqb_spec j i).
    + subst j. destruct (nth_error l i) as [n0|] eqn:E; [|discriminate]. injection Hn as <-.
      unfold par_ok. rewrite (proj1 (Hf n0 eq_refl)). exact (H3 _ _ E).
    + eauto.
  - intros j n Hj Hn. rewrite (list_upd_nth _ _ _ _ j Hu) in Hn. destruct (Nat.eqb_spec j i).
    + subst j. destruct (nth_error l i) as [n0|] eqn:E; [|discriminate]. injection Hn as <-.
      apply (proj2 (Hf n0 eq_refl)); [exact Hj|]. exact (H4 _ _ Hj E).
    + eauto.
Qed.

Lemma NI_app l pid x : NI l pid -> nd_parent x = Some pid -> NI (l ++ [x]) pid.
Proof.
  intros [H1 H2 H3 H4] Hx. split.
  - rewrite app_length. lia.
  - exact H2.
  - intros i n Hn. destruct (Nat.lt_ge_cases i (length l)).
    + rewrite nth_error_app1 in Hn by lia. eauto.
    + rewrite nth_error_app2 in Hn by lia. destruct (i - length l)%nat as [|j]; cbn in Hn.
      * injection Hn as <-. unfold par_ok. rewrite Hx. exact H2.
      * destruct j; discriminate.
  - intros i n Hi Hn. rewrite nth_error_app1 in Hn by lia. eauto.
Qed.

Lemma NI_pid l pid pid' : NI l pid -> pid_ok pid' -> NI l pid'.
Proof. intros [H1 H2 H3 H4] H. split; auto. Qed.

Notation NIp pid := (fun l => NI l pid).

(* ---- updates of the node list ---- *)
Definition linkf (f : node_data -> node_data) : Prop :=
  forall n, nd_parent (f n) = nd_parent n /\ nd_kind (f n) = nd_kind n /\
            forall o, f (with_kr n o) = with_kr (f n) o.

Lemma linkf_gP f j n : linkf f -> gP j (f n) = f (gP j n).
Proof.
  intros H. destruct j as [|j]; cbn [gP]; [reflexivity|].
  destruct (nth_error olds j); [|reflexivity]. symmetry. apply H.
Qed.

Lemma upd_node_link l pid i f : NI l pid -> linkf f ->
  fsim (NIp pid) pn (upd_node l i f) (upd_node (pn l) i f).
Proof.
  intros HN Hf. unfold upd_node, pn. rewrite imap_upd by (intros; apply linkf_gP; exact Hf).
  destruct (list_upd l (N.to_nat i) f) as [l'|] eqn:E; cbn [option_map fsim]; [|reflexivity].
  split; [|reflexivity]. eapply NI_upd; [exact HN|exact E|].
  intros n _. destruct (Hf n) as (A1 & A2 & _). split; [exact A1|]. intros _ H. rewrite A2. exact H.
Qed.

Lemma upd_node_hi l pid i f : NI l pid -> pid_ok i -> (forall n, nd_parent (f n) = nd_parent n) ->
  fsim (NIp pid) pn (upd_node l i f) (upd_node (pn l) i f).
Proof.
  intros HN Hi Hf. unfold upd_node, pn.
  rewrite imap_upd.
  2:{ intros n _. rewrite !gP_hi; [reflexivity| |]; cbn [Nat.add]; unfold pid_ok in Hi; lia. }
  destruct (list_upd l (N.to_nat i) f) as [l'|] eqn:E; cbn [option_map fsim]; [|reflexivity].
  split; [|reflexivity]. eapply NI_upd; [exact HN|exact E|].
  intros n _. split; [apply Hf|]. intros Hr. unfold pid_ok in Hi. lia.
Qed.

Lemma linkf_prev v : linkf (fun nd => nd_set_prev nd v).
Proof. intros n. repeat split. Qed.
Lemma linkf_last v : linkf (fun nd => nd_set_last_child nd v).
Proof. intros n. repeat split. Qed.
Lemma linkf_next v : linkf (fun nd => nd_set_next_subtree nd v).
Proof. intros n. repeat split. Qed.

Lemma set_next_subtree_all_fr pid v : forall ids l, NI l pid ->
  fsim (NIp pid) pn (set_next_subtree_all l ids v) (set_next_subtree_all (pn l) ids v).
Proof.
  induction ids as [|i ids IH]; intros l HN; cbn [set_next_subtree_all].
  - split; [exact HN|reflexivity].
  - eapply fsim_bind; [apply upd_node_link; [exact HN|apply linkf_next]|].
    intros l1 H1. apply IH. exact H1.
Qed.

(* ---- contexts ---- *)
Definition Inv (c : context) : Prop := NI (d_nodes (c_doc c)) (c_parent_id c).
Notation IP := (fun x : N * context => Inv (snd x)).
Definition gp {A} (x : A * context) : A * context := (fst x, pc (snd x)).

Lemma append_node_fr kind r c : Inv c ->
  fsim (fun x => Inv (snd x) /\ pid_ok (fst x)) gp (append_node kind r c) (append_node kind r (pc c)).
Proof.
  intros HI. unfold append_node. cbv zeta.
  cbn [pc pd c_doc c_opt c_parent_id c_awaiting set_doc set_nodes d_nodes]. rewrite len_pn.
  destruct (nodes_limit (c_opt c) <=? len_N (d_nodes (c_doc c))); [reflexivity|].
  unfold node_id_new. destruct (u32_max <=? len_N (d_nodes (c_doc c))); cbn [bind]; [reflexivity|].
  assert (HA : NI (d_nodes (c_doc c) ++ [{| nd_parent := Some (c_parent_id c); nd_prev_sibling := None;
                      nd_next_subtree := None; nd_last_child := None; nd_kind := kind; nd_range := r |}])
                  (c_parent_id c)) by (apply NI_app; [exact HI|reflexivity]).
  match goal with |- context [pn ?l ++ [?x]] =>
    replace (pn l ++ [x]) with (pn (l ++ [x]))
  end.
  2:{ unfold pn. rewrite imap_app. rewrite gP_hi; [reflexivity|]. destruct HI. cbn [Nat.add]. lia. }
  rewrite nth_N_pn.
  match goal with |- context [nth_N ?l ?i] => destruct (nth_N l i) as [pnd|] end; cbn [option_map bind];
    [|reflexivity].
  rewrite (proj2 (proj2 (proj2 (gP_links _ pnd)))).
  eapply fsim_bind; [apply upd_node_link; [exact HA|apply linkf_prev]|]. intros l1 H1.
  eapply fsim_bind; [apply upd_node_link; [exact H1|apply linkf_last]|]. intros l2 H2.
  eapply fsim_bind; [apply set_next_subtree_all_fr; exact H2|]. intros l3 H3.
  split; [|reflexivity]. split; [exact H3|]. cbn [fst]. right. destruct HI. unfold len_N. lia.
Qed.

Lemma append_text_fr t r c : Inv c -> fsim Inv pc (append_text t r c) (append_text t r (pc c)).
Proof.
  intros HI. unfold append_text. cbn [pc c_after_text set_doc].
  eapply fsim_bind with (I := Inv) (g := pc).
  - destruct (c_after_text c); [|split; [exact HI|reflexivity]].
    eapply fsim_bind; [apply append_node_fr; exact HI|]. intros [id c1] [H1 _]. cbn [gp fst snd].
    split; [exact H1|reflexivity].
  - intros c1 H1. split; [exact H1|reflexivity].
Qed.

Lemma rev_pn_head l x r : rev l = x :: r ->
  l = rev r ++ [x] /\ exists r', rev (pn l) = gP (length r) x :: r'.
Proof.
  intros H. assert (E : l = rev r ++ [x]). { rewrite <- (rev_involutive l), H. reflexivity. }
  split; [exact E|]. subst l. unfold pn. rewrite imap_app, rev_app_distr. cbn [rev app Nat.add].
  rewrite rev_length. eexists; reflexivity.
Qed.

Lemma merge_text_fr c : Inv c -> fsim Inv pc (merge_text text c) (merge_text text (pc c)).
Proof.
  intros HI. unfold merge_text. cbv zeta. cbn [pc pd c_doc c_after_text set_doc set_nodes d_nodes].
  destruct (rev (d_nodes (c_doc c))) as [|nd r] eqn:E.
  - assert (d_nodes (c_doc c) = []) as ->. { rewrite <- (rev_involutive (d_nodes _)), E. reflexivity. }
    reflexivity.
  - destruct (rev_pn_head _ _ _ E) as [El [r' ->]].
    assert (Hn : nth_error (d_nodes (c_doc c)) (length r) = Some nd).
    { rewrite El, nth_error_app2 by (rewrite rev_length; lia). rewrite rev_length, Nat.sub_diag. reflexivity. }
    assert (Hlen : length (d_nodes (c_doc c)) = S (length r)).
    { rewrite El, app_length, rev_length. cbn [length]. lia. }
    destruct (gP_cases (length r) nd) as [Eg|[Hr Hg]].
    2:{ pose proof (ni_old _ _ HI (length r) nd Hr Hn) as Ht.
        destruct (nd_kind nd); try contradiction;
          destruct (nd_kind (gP (length r) nd)); try contradiction; reflexivity. }
    rewrite Eg. destruct (nd_kind nd) eqn:Ek; try reflexivity.
    assert (Hj : (length r = 0 \/ m < length r)%nat).
    { destruct (Nat.eq_dec (length r) 0) as [|Hz]; [auto|]. destruct (Nat.lt_ge_cases m (length r)); [auto|].
      exfalso. pose proof (ni_old _ _ HI (length r) nd ltac:(lia) Hn) as Ht. rewrite Ek in Ht. exact Ht. }
    rewrite len_pn.
    eapply fsim_bind.
    { apply (upd_node_hi _ (c_parent_id c)); [exact HI| |reflexivity].
      unfold pid_ok, len_N. rewrite Hlen. lia. }
    intros l1 H1. split; [exact H1|reflexivity].
Qed.

Lemma reset_after_text_fr c : Inv c ->
  fsim Inv pc (reset_after_text text c) (reset_after_text text (pc c)).
Proof.
  intros HI. unfold reset_after_text. cbn [pc c_after_text set_doc].
  destruct (c_after_text c) as [|x [|y l]].
  - split; [exact HI|reflexivity].
  - split; [exact HI|reflexivity].
  - eapply fsim_bind; [apply merge_text_fr; exact HI|]. intros c1 H1. split; [exact H1|reflexivity].
Qed.

(* ---- the namespace and attribute tables never look at the nodes ---- *)
Lemma ns_prefix_at_pd d i : ns_prefix_at text (pd d) i = ns_prefix_at text d i.
Proof. reflexivity. Qed.

Lemma any_prefix_pd d p : forall idxs, any_prefix text (pd d) idxs p = any_prefix text d idxs p.
Proof.
  induction idxs as [|i idxs IH]; cbn [any_prefix]; [reflexivity|].
  rewrite ns_prefix_at_pd. destruct (ns_prefix_at text d i); cbn [bind]; try reflexivity.
  destruct (opt_str_eqb _ _); [reflexivity|apply IH].
Qed.

Lemma ns_exists_pd d st p : ns_exists text (pd d) st p = ns_exists text d st p.
Proof. unfold ns_exists. cbn [pd set_nodes d_ns_tree]. rewrite any_prefix_pd. reflexivity. Qed.

Lemma find_prefix_idx_pd d p : forall idxs,
  find_prefix_idx text (pd d) idxs p = find_prefix_idx text d idxs p.
Proof.
  induction idxs as [|i idxs IH]; cbn [find_prefix_idx]; [reflexivity|].
  rewrite ns_prefix_at_pd. destruct (ns_prefix_at text d i); cbn [bind]; try reflexivity.
  destruct (opt_str_eqb _ _); [reflexivity|apply IH].
Qed.

Lemma get_ns_idx_by_prefix_pd nss pos prefix d :
  get_ns_idx_by_prefix text nss pos prefix (pd d) = get_ns_idx_by_prefix text nss pos prefix d.
Proof.
  unfold get_ns_idx_by_prefix. cbv zeta. destruct (bytes_eqb _ _); [reflexivity|].
  change (ns_range_slice (pd d) nss) with (ns_range_slice d nss).
  destruct (ns_range_slice d nss); cbn [bind]; try reflexivity.
  rewrite find_prefix_idx_pd. reflexivity.
Qed.

Lemma any_same_name_pd d name : forall l, any_same_name text (pd d) l name = any_same_name text d l name.
Proof.
  induction l as [|a l IH]; cbn [any_same_name]; [reflexivity|].
  change (attr_expanded_name text (pd d) (ad_ns_idx a) (ad_local a))
    with (attr_expanded_name text d (ad_ns_idx a) (ad_local a)).
  destruct (attr_expanded_name text d (ad_ns_idx a) (ad_local a)); cbn [bind]; try reflexivity.
  destruct (_ && _); [reflexivity|apply IH].
Qed.

Notation SN d := (fun d' : document => d_nodes d' = d_nodes d).

Lemma push_ns_fr name uri d : fsim (SN d) pd (push_ns text name uri d) (push_ns text name uri (pd d)).
Proof.
  unfold push_ns. cbv zeta. cbn [pd set_nodes d_nodes d_attrs d_ns_values d_ns_tree].
  destruct (find_ns _ _ _ _ _); [split; reflexivity|].
  destruct (_ <? _); [reflexivity|split; reflexivity].
Qed.

Lemma push_ref_fr i d : fsim (SN d) pd (push_ref i d) (push_ref i (pd d)).
Proof.
  unfold push_ref. cbn [pd set_nodes d_nodes d_attrs d_ns_values d_ns_tree].
  destruct (nth_N _ _); [split; reflexivity|reflexivity].
Qed.

Lemma resolve_ns_loop_fr st : forall is d,
  fsim (SN d) pd (resolve_ns_loop text st is d) (resolve_ns_loop text st is (pd d)).
Proof.
  induction is as [|i is IH]; intros d; cbn [resolve_ns_loop]; [split; reflexivity|].
  change (d_ns_tree (pd d)) with (d_ns_tree d). apply fsim_same. intros vidx.
  rewrite ns_prefix_at_pd. apply fsim_same. intros name.
  rewrite ns_exists_pd. apply fsim_same. intros ex.
  eapply fsim_bind with (I := SN d) (g := pd).
  - destruct ex; [split; reflexivity|apply push_ref_fr].
  - intros d1 H1. eapply fsim_weaken; [apply IH|]. cbv beta. intros d2 H2. congruence.
Qed.

Lemma resolve_attrs_loop_fr nss st : forall l d,
  fsim (SN d) pd (resolve_attrs_loop text nss st l d) (resolve_attrs_loop text nss st l (pd d)).
Proof.
  induction l as [|a l IH]; intros d; cbn [resolve_attrs_loop]; [split; reflexivity|]. cbv zeta.
  rewrite get_ns_idx_by_prefix_pd. apply fsim_same. intros ns_idx.
  change (attr_expanded_name text (pd d) ns_idx (ta_local a))
    with (attr_expanded_name text d ns_idx (ta_local a)). apply fsim_same. intros name.
  change (d_attrs (pd d)) with (d_attrs d). rewrite any_same_name_pd. apply fsim_same. intros dup.
  destruct dup; [apply fsim_err_from|].
  eapply fsim_weaken; [apply (IH (set_attrs d _))|]. cbv beta. intros d2 H2. exact H2.
Qed.

(* ---- contexts, continued ---- *)
Notation I2 := (fun x => Inv (snd x)).

Lemma Inv_pid_nat c : Inv c -> (N.to_nat (c_parent_id c) = 0 \/ m < N.to_nat (c_parent_id c))%nat.
Proof. intros H. destruct (ni_pid _ _ H); lia. Qed.

Lemma resolve_namespaces_fr c : Inv c ->
  fsim I2 gp (resolve_namespaces text c) (resolve_namespaces text (pc c)).
Proof.
  intros HI. unfold resolve_namespaces. cbv zeta.
  cbn [pc pd c_doc c_parent_id c_ns_start_idx set_doc set_nodes d_nodes d_ns_tree].
  rewrite nth_N_pn. destruct (nth_N (d_nodes (c_doc c)) (c_parent_id c)) as [pnd|]; cbn [option_map bind];
    [|reflexivity].
  rewrite gP_hi by (apply Inv_pid_nat; exact HI).
  assert (Hdef : fsim I2 gp
    (let! r := ns_range_checked (c_ns_start_idx c) (len_N (d_ns_tree (c_doc c))) in Ok (r, c))
    (let! r := ns_range_checked (c_ns_start_idx c) (len_N (d_ns_tree (c_doc c))) in Ok (r, pc c))).
  { apply fsim_same. intros r. split; [exact HI|reflexivity]. }
  destruct (nd_kind pnd); try exact Hdef.
  destruct (_ =? _); [split; [exact HI|reflexivity]|].
  destruct nss as [pa pe].
  eapply fsim_bind; [apply (resolve_ns_loop_fr _ _ (c_doc c))|]. intros d1 H1.
  apply fsim_same. intros r. split; [|reflexivity]. unfold Inv. cbn [snd set_doc c_doc c_parent_id].
  rewrite H1. exact HI.
Qed.

Lemma resolve_attributes_fr nss c : Inv c ->
  fsim I2 gp (resolve_attributes text nss c) (resolve_attributes text nss (pc c)).
Proof.
  intros HI. unfold resolve_attributes. cbn [pc pd c_cur_attrs c_doc set_doc set_nodes d_attrs].
  destruct (c_cur_attrs c) as [|a l]; [split; [exact HI|reflexivity]|]. cbv zeta.
  destruct (_ <=? _); [reflexivity|].
  eapply fsim_bind; [apply (resolve_attrs_loop_fr _ _ _ (c_doc c))|]. intros d1 H1.
  apply fsim_same. intros r. split; [|reflexivity]. unfold Inv. cbn [snd set_doc set_cur_attrs c_doc c_parent_id].
  rewrite H1. exact HI.
Qed.

Lemma normalize_attribute_fr value c : Inv c ->
  fsim I2 gp (normalize_attribute text value c) (normalize_attribute text value (pc c)).
Proof.
  intros HI. unfold normalize_attribute. cbv zeta. cbn [pc c_entities c_ld set_doc].
  destruct (existsb _ _); [|split; [exact HI|reflexivity]].
  apply fsim_same. intros [t ld]. apply fsim_same. intros bs. split; [exact HI|reflexivity].
Qed.

Lemma process_attribute_fr r ql el prefix local value c : Inv c ->
  fsim Inv pc (process_attribute text r ql el prefix local value c)
       (process_attribute text r ql el prefix local value (pc c)).
Proof.
  intros HI. unfold process_attribute.
  eapply fsim_bind; [apply normalize_attribute_fr; exact HI|]. intros [v c1] H1. cbn [gp fst snd] in *.
  cbv zeta. cbn [pc c_doc c_ns_start_idx c_cur_attrs set_doc]. rewrite !ns_exists_pd.
  assert (Hp : forall nm, fsim Inv pc (let! d := push_ns text nm v (c_doc c1) in Ok (set_doc c1 d))
                               (let! d := push_ns text nm v (pd (c_doc c1)) in Ok (set_doc (pc c1) d))).
  { intros nm. eapply fsim_bind; [apply push_ns_fr|]. intros d1 Hd. split; [|reflexivity].
    unfold Inv. cbn [set_doc c_doc c_parent_id]. rewrite Hd. exact H1. }
  destruct (bytes_eqb (slice_bytes text prefix) xmlns_str).
  - destruct (bytes_eqb _ _); [apply fsim_err_from|].
    destruct (bytes_eqb _ _); [apply fsim_err_from|].
    destruct (_ && _); [apply fsim_err_from|].
    destruct (_ && _); [apply fsim_err_from|].
    apply fsim_same. intros ex. destruct ex; [apply fsim_err_from|].
    destruct (negb _); [apply Hp|split; [exact H1|reflexivity]].
  - match goal with |- fsim _ _ (if ?b then _ else _) _ => destruct b end.
    + destruct (bytes_eqb _ _); [apply fsim_err_from|].
      destruct (bytes_eqb _ _); [apply fsim_err_from|].
      apply fsim_same. intros ex. destruct ex; [apply fsim_err_from|]. apply Hp.
    + split; [exact H1|reflexivity].
Qed.

Lemma process_element_fr e r c : Inv c ->
  fsim Inv pc (process_element text e r c) (process_element text e r (pc c)).
Proof.
  intros HI. unfold process_element. cbn [pc c_tag_name set_doc].
  destruct (_ =? 0). { destruct e; first [reflexivity|apply fsim_err_from]. }
  eapply fsim_bind; [apply resolve_namespaces_fr; exact HI|]. intros [nss c1] H1. cbn [gp fst snd] in *.
  cbv zeta.
  eapply fsim_bind.
  { apply (resolve_attributes_fr nss (set_ns_start_idx c1 (len_N (d_ns_tree (c_doc c1))))). exact H1. }
  intros [attrs c2] H2. cbn [gp fst snd] in *.
  change (c_tag_name (pc c2)) with (c_tag_name c2). change (c_doc (pc c2)) with (pd (c_doc c2)).
  destruct e as [|prefix local|].
  - rewrite get_ns_idx_by_prefix_pd. apply fsim_same. intros idx.
    eapply fsim_bind; [apply append_node_fr; exact H2|]. intros [id c3] [H3 Hid]. cbn [gp fst snd] in *.
    split; [|reflexivity]. unfold Inv. cbn [set_parent_prefixes set_parent_id c_doc c_parent_id].
    eapply NI_pid; [exact H3|exact Hid].
  - change (c_parent_prefixes (pc c2)) with (c_parent_prefixes c2).
    change (c_entity_floor (pc c2)) with (c_entity_floor c2).
    destruct (_ <=? _); [apply fsim_err_from|].
    cbn [pd set_nodes d_nodes c_parent_id pc set_doc c_doc]. rewrite nth_N_pn.
    destruct (nth_N (d_nodes (c_doc c2)) (c_parent_id c2)) as [pnd|] eqn:Ep; cbn [option_map bind]; [|reflexivity].
    rewrite gP_hi by (apply Inv_pid_nat; exact H2).
    apply fsim_same. intros pp.
    eapply fsim_bind.
    { apply (upd_node_hi _ (c_parent_id c2)); [exact H2|exact (ni_pid _ _ H2)|reflexivity]. }
    intros l1 Hl1. apply fsim_same. intros _.
    cbn [set_awaiting c_awaiting c_parent_prefixes set_doc pc].
    destruct (nd_parent pnd) as [id|] eqn:Epar; [|apply fsim_err_from].
    destruct (removelast (c_parent_prefixes c2)); [reflexivity|].
    split; [|reflexivity]. unfold Inv. cbn [set_parent_prefixes set_parent_id set_awaiting set_doc set_nodes c_doc c_parent_id d_nodes].
    eapply NI_pid; [exact Hl1|].
    unfold nth_N in Ep. destruct (_ <=? _); [discriminate|].
    pose proof (ni_par _ _ H2 _ _ Ep) as Hpar. unfold par_ok in Hpar. rewrite Epar in Hpar. exact Hpar.
  - rewrite get_ns_idx_by_prefix_pd. apply fsim_same. intros idx.
    eapply fsim_bind; [apply append_node_fr; exact H2|]. intros [id c3] [H3 Hid]. cbn [gp fst snd] in *.
    split; [exact H3|reflexivity].
Qed.

Lemma process_cdata_fr t r c : Inv c -> fsim Inv pc (process_cdata text t r c) (process_cdata text t r (pc c)).
Proof. intros HI. unfold process_cdata. cbv zeta. destruct (mem_b _ _); apply append_text_fr; exact HI. Qed.

Lemma token_with_fr ptext :
  (forall t r c, Inv c -> fsim Inv pc (ptext t r c) (ptext t r (pc c))) ->
  forall tok c, Inv c -> fsim Inv pc (token_with text ptext tok c) (token_with text ptext tok (pc c)).
Proof.
  intros Hp tok c HI. destruct tok; cbn [token_with].
  - eapply fsim_bind; [apply reset_after_text_fr; exact HI|]. intros c1 H1.
    eapply fsim_bind; [apply append_node_fr; exact H1|]. intros [id c2] [H2 _]. split; [exact H2|reflexivity].
  - eapply fsim_bind; [apply reset_after_text_fr; exact HI|]. intros c1 H1.
    eapply fsim_bind; [apply append_node_fr; exact H1|]. intros [id c2] [H2 _]. split; [exact H2|reflexivity].
  - split; [exact HI|reflexivity].
  - eapply fsim_bind; [apply reset_after_text_fr; exact HI|]. intros c1 H1.
    destruct (bytes_eqb _ _); [apply fsim_err_from|]. split; [exact H1|reflexivity].
  - apply process_attribute_fr; exact HI.
  - eapply fsim_bind; [apply reset_after_text_fr; exact HI|]. intros c1 H1.
    apply process_element_fr; exact H1.
  - apply Hp; exact HI.
  - apply process_cdata_fr; exact HI.
Qed.

Lemma ptext_loop_fr pcn r :
  (forall s c, Inv c -> fsim I2 gp (pcn s c) (pcn s (pc c))) ->
  forall fuel s buf c, Inv c ->
    fsim I2 gp (ptext_loop text pcn r fuel s buf c) (ptext_loop text pcn r fuel s buf (pc c)).
Proof.
  intros Hpc. induction fuel as [|fu IH]; intros s buf c HI; cbn [ptext_loop]; [reflexivity|].
  destruct (at_end s); [split; [exact HI|reflexivity]|].
  change (c_entities (pc c)) with (c_entities c). apply fsim_same. intros [ch s1].
  destruct ch as [x|cp|value].
  - apply IH; exact HI.
  - change (c_ld (pc c)) with (c_ld c). apply IH; exact HI.
  - eapply fsim_bind with (I := Inv) (g := pc).
    { destruct (negb _); [|split; [exact HI|reflexivity]].
      apply fsim_same. intros bs. apply append_text_fr; exact HI. }
    intros c1 H1. change (c_ld (pc c1)) with (c_ld c1).
    apply fsim_same. intros ld1. apply fsim_same. intros ld2. cbv zeta.
    apply fsim_same. intros es.
    eapply fsim_bind.
    { apply (Hpc es (set_entity_floor (set_tag_name (set_ld c1 ld2) tag_name_null)
                                       (len_N (c_parent_prefixes (set_ld c1 ld2))))). exact H1. }
    intros [s2 c2] H2. cbn [gp fst snd] in *.
    change (c_parent_prefixes (pc c2)) with (c_parent_prefixes c2).
    change (c_entity_floor (pc c2)) with (c_entity_floor c2).
    destruct (negb _); [reflexivity|].
    apply (IH s1 tb_new (set_ld (set_entity_floor (set_tag_name c2 (c_tag_name (set_ld c1 ld2)))
                                   (c_entity_floor (set_ld c1 ld2))) _)). exact H2.
Qed.

Lemma process_text_with_fr pcn :
  (forall s c, Inv c -> fsim I2 gp (pcn s c) (pcn s (pc c))) ->
  forall t r c, Inv c -> fsim Inv pc (process_text_with text pcn t r c) (process_text_with text pcn t r (pc c)).
Proof.
  intros Hpc t r c HI. rewrite !process_text_with_eq. cbv zeta.
  destruct (negb _); [apply append_text_fr; exact HI|].
  apply fsim_same. intros s0.
  eapply fsim_bind; [apply ptext_loop_fr; [exact Hpc|exact HI]|]. intros [buf c1] H1. cbn [gp fst snd] in *.
  destruct (negb _); [|split; [exact H1|reflexivity]].
  apply fsim_same. intros bs. apply append_text_fr; exact H1.
Qed.

(* ---- through the tokenizer (OptionsParam.v), with the relation "the second is pc of the first" ---- *)
Definition RF (c1 c2 : context) : Prop := Inv c1 /\ c2 = pc c1.
Definition QT (c : context) : Prop := True.

Lemma fsim_grel {A} (I : A -> Prop) g e0 r1 r2 :
  fsim I g r1 r2 -> grel False e0 (fun a b => I a /\ b = g a) (fun _ => True) r1 r2.
Proof.
  destruct r1; cbn [fsim]; intros H.
  - destruct H as [H ->]. apply gr_ok. auto.
  - subst. apply gr_err.
  - subst. apply gr_panic.
  - subst. apply gr_fuel.
Qed.

Lemma grel_fsim2 {A} e0 (Q : A * context -> Prop) (r1 r2 : res (A * context)) :
  grel False e0 (prel RF) Q r1 r2 -> fsim I2 gp r1 r2.
Proof.
  intros H. destruct H as [x1 x2 [H1 [H2 H3]]| | | |r2 F _]; cbn [fsim]; try reflexivity; [|contradiction].
  split; [exact H2|]. destruct x1, x2; cbn [fst snd] in *. subst. reflexivity.
Qed.

Lemma grel_fsim1 e0 (Q : context -> Prop) (r1 r2 : res context) :
  grel False e0 RF Q r1 r2 -> fsim Inv pc r1 r2.
Proof.
  intros H. destruct H as [x1 x2 [H1 H2]| | | |r2 F _]; cbn [fsim]; try reflexivity; [|contradiction].
  split; [exact H1|]. subst. reflexivity.
Qed.

Lemma ev_RF e0 (ev : Tokenizer.token -> context -> res context) : (forall tok c, Inv c -> fsim Inv pc (ev tok c) (ev tok (pc c))) ->
  forall tok c1 c2, RF c1 c2 -> grel False e0 RF QT (ev tok c1) (ev tok c2).
Proof. intros H tok c1 c2 [H1 ->]. apply fsim_grel. apply H. exact H1. Qed.

Lemma parse_content_lvl_fr : forall lvl s c, Inv c ->
  fsim I2 gp (parse_content_lvl text lvl s c) (parse_content_lvl text lvl s (pc c)).
Proof.
  induction lvl as [|lvl IH]; intros s c HI; cbn [parse_content_lvl]; [reflexivity|].
  eapply (grel_fsim2 NoRootNode).
  apply (b_parse_content text context context _ _ False NoRootNode RF QT).
  - apply ev_RF. apply token_with_fr. apply process_text_with_fr. exact IH.
  - intros; exact I.
  - split; [exact HI|reflexivity].
Qed.

Lemma token_fr tok c : Inv c -> fsim Inv pc (Parse.token text tok c) (Parse.token text tok (pc c)).
Proof.
  unfold Parse.token, process_text. apply token_with_fr. apply process_text_with_fr.
  apply parse_content_lvl_fr.
Qed.

(* ---- the checks of parse on the final document ---- *)
Lemma get_node_pd d id : get_node (pd d) id = option_map (gP (N.to_nat id)) (get_node d id).
Proof. unfold get_node. cbn [pd set_nodes d_nodes]. apply nth_N_pn. Qed.

Lemma node_unwrap_pd d id : node_unwrap (pd d) id = node_unwrap d id.
Proof. unfold node_unwrap. rewrite get_node_pd. destruct (get_node d id); reflexivity. Qed.

Lemma opt_unwrap_node_pd d o : opt_unwrap_node (pd d) o = opt_unwrap_node d o.
Proof. unfold opt_unwrap_node. destruct o; [rewrite node_unwrap_pd|]; reflexivity. Qed.

Lemma node_data_of_pd d id : node_data_of (pd d) id = match node_data_of d id with
  | Ok nd => Ok (gP (N.to_nat id) nd) | Err e => Err e | Panic p => Panic p | OutOfFuel => OutOfFuel end.
Proof. unfold node_data_of. rewrite get_node_pd. destruct (get_node d id); reflexivity. Qed.

Lemma first_child_pd d id : first_child (pd d) id = first_child d id.
Proof.
  unfold first_child. rewrite node_data_of_pd. destruct (node_data_of d id) as [a| | |]; cbn [bind]; try reflexivity.
  rewrite (proj2 (proj2 (proj2 (gP_links _ a)))). destruct (nd_last_child a); [|reflexivity].
  destruct (node_id_new (id + 1)); cbn [bind]; try reflexivity. rewrite node_unwrap_pd. reflexivity.
Qed.

Lemma last_child_pd d id : last_child (pd d) id = last_child d id.
Proof.
  unfold last_child. rewrite node_data_of_pd. destruct (node_data_of d id) as [a| | |]; cbn [bind]; try reflexivity.
  rewrite (proj2 (proj2 (proj2 (gP_links _ a)))). apply opt_unwrap_node_pd.
Qed.

Lemma next_sibling_pd d id : next_sibling (pd d) id = next_sibling d id.
Proof.
  unfold next_sibling. rewrite node_data_of_pd. destruct (node_data_of d id) as [a| | |]; cbn [bind]; try reflexivity.
  rewrite (proj1 (proj2 (proj2 (gP_links _ a)))). destruct (nd_next_subtree a) as [n|]; [|reflexivity].
  rewrite node_unwrap_pd. destruct (node_unwrap d n) as [a0| | |]; cbn [bind]; try reflexivity.
  rewrite node_data_of_pd. destruct (node_data_of d a0) as [a1| | |]; cbn [bind]; try reflexivity.
  rewrite (proj1 (proj2 (gP_links _ a1))). reflexivity.
Qed.

Lemma children_pd d id : children (pd d) id = children d id.
Proof. unfold children. rewrite first_child_pd, last_child_pd. reflexivity. Qed.

Lemma children_next_pd d it : children_next (pd d) it = children_next d it.
Proof.
  unfold children_next. destruct (opt_N_eqb _ _); [reflexivity|]. destruct (ch_front it); [|reflexivity].
  rewrite next_sibling_pd. reflexivity.
Qed.

Lemma ntext_not_element kd : ntext kd -> is_element_kind kd = false.
Proof. destruct kd; cbn; intros H; try contradiction; reflexivity. Qed.

Lemma node_is_element_pd d pid n : NI (d_nodes d) pid -> node_is_element (pd d) n = node_is_element d n.
Proof.
  intros HN. unfold node_is_element. rewrite node_data_of_pd.
  destruct (node_data_of d n) as [a| | |] eqn:E; cbn [bind]; try reflexivity.
  destruct (gP_cases (N.to_nat n) a) as [->|[Hr Hg]]; [reflexivity|].
  rewrite (ntext_not_element _ Hg). f_equal. symmetry. apply ntext_not_element.
  unfold node_data_of, get_node, nth_N in E. destruct (_ <=? _); [discriminate|].
  destruct (nth_error (d_nodes d) (N.to_nat n)) as [a'|] eqn:E'; [|discriminate]. injection E as <-.
  exact (ni_old _ _ HN _ _ Hr E').
Qed.

Lemma children_any_element_pd d pid : NI (d_nodes d) pid -> forall fuel it,
  children_any_element fuel (pd d) it = children_any_element fuel d it.
Proof.
  intros HN. induction fuel as [|fu IH]; intros it; cbn [children_any_element]; [reflexivity|].
  rewrite children_next_pd. destruct (children_next d it) as [[o it']| | |]; cbn [bind]; try reflexivity.
  destruct o as [n|]; [|reflexivity]. rewrite (node_is_element_pd d pid n HN).
  destruct (node_is_element d n) as [a| | |]; cbn [bind]; try reflexivity. destruct a; [reflexivity|apply IH].
Qed.

End Frame.
