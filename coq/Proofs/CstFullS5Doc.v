(* Proofs/CstFullS5Doc.v -- the capstone fragment, stage S5: the parts of Proofs/CstFullDoc.v that depend on the
   well-formedness conditions (lists of white space / comment / PI pairs, the misc loop), for
   Spec/CstFullS5.v where markup white space is the production S.  What does not depend on them
   (r_pairs, regroup, the shape of the rendering, dens) is taken from Proofs/CstFullDoc.v. *)
From Coq Require Import Ascii String.
From Coq Require Import List NArith PeanoNat Bool Lia ZifyBool ZifyN ZifyNat.
Import ListNotations.
From RX Require Import Generated.
From RX.Model Require Import Base CharClass Stream Tokenizer Doc Builder Parse.
From RX.Spec Require Cst Scope CstNs CstU Chars.
From RX.Spec Require Import CstFull CstFullS5.
From RX.Proofs Require Import Tactics CstLex CstBuild CstNsLex CstNsView CstNsBuild CstULex CstFullLex CstFullBuild CstFullTree.
From RX.Proofs Require Import CstFullS5Ws CstFullS5Lex CstFullS5Items.
From RX.Proofs Require Import CstFullDoc.
From RX.Proofs Require CstItems CstNsItems CstNsDoc CstUItems CstUDoc CstDoc.
Open Scope N_scope.

Lemma misc_s_item {Sy} (M : meaning Sy) (i : item Sy) : wf_misc_s i = is_misc Sy i && wf_item_s M i.
Proof. destruct i; reflexivity. Qed.

Section DocA.
Variable Sy : syntax.
Variable M : meaning Sy.
Variable run_steps : run Sy -> nat.
Hypothesis Hval_lex : forall q v, wf_val M q v = true -> q = 39 \/ q = 34 -> uval_ok q (r_val Sy v).
Hypothesis Hrun_valid : forall r, wf_run M r = true -> U8.Valid (r_run Sy r).

Notation item := (CstFull.item Sy).
Notation doc := (CstFull.doc Sy).
Notation dens := (CstFullTree.dens Sy M).
Notation fitem_valid := (CstFullS5Items.fitem_valid Sy M Hval_lex Hrun_valid).
Notation pairs := (CstFullDoc.pairs Sy).
Notation misc_den := (CstFullDoc.misc_den Sy M).
Notation misc_starts := (CstFullDoc.misc_starts Sy).

Definition wf_pairs_s (l : pairs) : bool :=
  forallb (fun x => wf_s (fst x) && is_misc Sy (snd x) && wf_item_s M (snd x)) l.

Lemma pairs_valid_s l : wf_pairs_s l = true -> U8.Valid (r_pairs l).
Proof.
  induction l as [|[w i] r IH]; intros H; [constructor|]. cbn [wf_pairs_s forallb fst snd] in H.
  rewrite !andb_true_iff in H. destruct H as [[[H1 H2] H3] H4]. cbn [r_pairs flat_map fst snd].
  repeat apply U8.Valid_app; [apply Valid_lit; apply s_lit; exact H1|apply fitem_valid; exact H3|apply IH; exact H4].
Qed.

Lemma pairs_len_s l : wf_pairs_s l = true -> (length l <= length (r_pairs l))%nat.
Proof.
  induction l as [|[w i] r IH]; intros H; [cbn; lia|]. cbn [wf_pairs_s forallb fst snd] in H.
  rewrite !andb_true_iff in H. destruct H as [[[H1 H2] H3] H4]. cbn [r_pairs flat_map fst snd length].
  rewrite !app_length. specialize (IH H4). unfold r_pairs in IH.
  destruct (misc_starts i H2) as [l0 El0]. rewrite El0. cbn [length]. clear - IH. lia.
Qed.

Lemma pairs_dens_s (l : pairs) : wf_pairs_s l = true ->
  NT.items_decls (dens (map snd l)) = [] /\ (forall inh, NT.ns_costs inh (dens (map snd l)) = O) /\
  NT.nattrs_items (dens (map snd l)) = O /\ NT.nsizes (dens (map snd l)) = N.of_nat (length l) /\
  (forall inh, CstFullTree.ns_oks inh (dens (map snd l)) = true).
Proof.
  induction l as [|[w i] r IH]; intros H; [repeat split|]. cbn [wf_pairs_s forallb fst snd] in H.
  rewrite !andb_true_iff in H. destruct H as [[[H1 H2] H3] H4]. destruct (IH H4) as (I1 & I2 & I3 & I4 & I5).
  destruct (misc_den i H2) as (x & Ex & M1 & M2 & M3 & M4 & M5 & _).
  cbn [map snd CstFullTree.dens]. rewrite Ex. cbn [app NT.items_decls NT.ns_costs NT.nattrs_items CstFullTree.ns_oks length].
  rewrite I1, I3, M2, M3, NT.nsizes_cons, I4, M1. repeat split; try reflexivity.
  - intros inh. rewrite I2, M4. reflexivity.
  - lia.
  - intros inh. rewrite I5, M5. reflexivity.
Qed.

Lemma regroup_wf_s : forall l w0, wf_s w0 = true ->
  forallb (fun p => is_misc Sy (fst p) && wf_item_s M (fst p) && wf_s (snd p)) l = true ->
  wf_pairs_s (regroup w0 l) = true /\ wf_s (last_ws w0 l) = true.
Proof.
  induction l as [|[i w] r IH]; intros w0 H0 H; cbn [regroup last_ws wf_pairs_s forallb fst snd] in *; [auto|].
  rewrite !andb_true_iff in H. destruct H as [[[H1 H2] H3] H4].
  destruct (IH w H3 H4) as [I1 I2]. split; [|exact I2].
  rewrite H0, H1, H2. exact I1.
Qed.

Record doc_parts_s (c : doc) : Prop := {
  dp_ws0 : wf_s (d_ws0 c) = true;
  dp_wsend : wf_s (d_ws_end c) = true;
  dp_before : forallb (fun p => is_misc Sy (fst p) && wf_item_s M (fst p) && wf_s (snd p)) (d_before c) = true;
  dp_root : exists name es ws body, d_root c = IElem name es ws body;
  dp_rootwf : wf_item_s M (d_root c) = true;
  dp_after : wf_pairs_s (d_after c) = true;
  dp_ns : CstFullTree.ns_oks [] (den M (d_root c)) = true
}.

Lemma before_s (l : list (item * bytes)) :
  forallb (fun p => wf_misc_s (fst p) && wf_s (snd p)) l =
  forallb (fun p => is_misc Sy (fst p) && wf_item_s M (fst p) && wf_s (snd p)) l.
Proof. induction l as [|[i w] r IH]; [reflexivity|]. cbn [forallb fst snd]. rewrite IH, (misc_s_item M). reflexivity. Qed.

Lemma after_s (l : pairs) : forallb (fun p => wf_s (fst p) && wf_misc_s (snd p)) l = wf_pairs_s l.
Proof.
  induction l as [|[w i] r IH]; [reflexivity|]. cbn [wf_pairs_s forallb fst snd]. fold (wf_pairs_s r).
  rewrite IH, (misc_s_item M), andb_assoc. reflexivity.
Qed.

Lemma wf_main_parts c : wf_main_s M c = true -> doc_parts_s c.
Proof.
  unfold wf_main_s. rewrite before_s, after_s, !andb_true_iff. intros [[[[[H1 H2] H3] H4] H5] H6].
  constructor; try assumption.
  - destruct (d_root c); try discriminate. eauto.
  - destruct (d_root c); try discriminate. exact H4.
  - rewrite <- ns_oks_forallb. exact H6.
Qed.

Lemma render_valid_s c : wf_main_s M c = true -> U8.Valid (render c).
Proof.
  intros H. apply wf_main_parts in H. destruct H as [H1 H2 H3 H4 H5 H6 _].
  destruct (regroup_wf_s _ _ H1 H3) as [R1 R2].
  rewrite (render_shape Sy). repeat apply U8.Valid_app.
  - apply pairs_valid_s; exact R1.
  - apply Valid_lit, s_lit; exact R2.
  - apply fitem_valid; exact H5.
  - apply pairs_valid_s; exact H6.
  - apply Valid_lit, s_lit; exact H2.
  - constructor.
Qed.

Lemma root_name_s name es ws body : wf_item_s M (@IElem Sy name es ws body) = true -> wf_qname name = true.
Proof. rewrite wf_item_elem_s, !andb_true_iff. tauto. Qed.

End DocA.

Section DocB.
Variable Sy : syntax.
Variable M : meaning Sy.
Variable run_steps : run Sy -> nat.
Hypothesis Hval_lex : forall q v, wf_val M q v = true -> q = 39 \/ q = 34 -> uval_ok q (r_val Sy v).
Hypothesis Hrun_valid : forall r, wf_run M r = true -> U8.Valid (r_run Sy r).
Hypothesis Hrun_steps : forall r, wf_run M r = true -> (1 <= run_steps r <= length (r_run Sy r))%nat.
Variable text : bytes.
Variable D : list Scope.binding.
Hypothesis HD : forall l, NoDup l -> incl l D -> N.of_nat (length l) <= 65535.
Variable es0 : list entity.
Hypothesis Hval_norm : forall q v p more, wf_val M q v = true -> q = 39 \/ q = 34 ->
  CstULex.WV text p (r_val Sy v ++ [q] ++ more) ->
  exists stor, norm_ok text es0 (sl p (p + blen (r_val Sy v))) stor /\ storage_bytes text stor = val_sem M v.
Hypothesis Hrun : forall r, CstFullS5Items.PIf Sy M run_steps text D es0 (IText r).

Notation item := (CstFull.item Sy).
Notation doc := (CstFull.doc Sy).
Notation dens := (CstFullTree.dens Sy M).
Notation ev := (tok_ev text).
Notation st := (CstLex.st text).
Notation W := (CstLex.W text).
Notation WV := (CstULex.WV text).
Notation CIn := (CstNsBuild.CIn text D).
Notation NC := (CstFullBuild.NC es0).
Notation kmn := (CstNsBuild.kmn text).
Notation node_room := CstNsItems.node_room.
Notation attr_room := CstNsItems.attr_room.
Notation ns_room := CstNsItems.ns_room.
Notation pairs := (CstFullDoc.pairs Sy).
Notation wf_pairs_s := (wf_pairs_s Sy M).
Notation fitem_valid := (CstFullS5Items.fitem_valid Sy M Hval_lex Hrun_valid).
Notation evf_comment := (CstFullS5Items.evf_comment Sy M Hval_lex text D HD es0 Hval_norm).
Notation evf_pi := (CstFullS5Items.evf_pi Sy M Hval_lex text D HD es0 Hval_norm).
Notation root_ok_f := (CstFullS5Items.root_ok_f Sy M run_steps Hval_lex Hrun_valid Hrun_steps text D HD es0 Hval_norm Hrun).
Notation kmn_Forall2_ext := (CstFullS5Items.kmn_Forall2_ext text D HD).

Lemma misc_loop_ok_s : forall (l : pairs) p wl rest c fuel,
  WV p (r_pairs l ++ wl ++ rest) -> wf_pairs_s l = true -> wf_s wl = true -> CstDoc.misc_stop rest ->
  (length l < fuel)%nat -> CIn [] c -> c_after_text c = [] -> node_room c (NT.nsizes (dens (map snd l))) ->
  exists c' K,
    parse_misc_loop text context ev fuel (st p (r_pairs l ++ wl ++ rest)) c =
    Ok (st (p + blen (r_pairs l) + blen wl) rest, c') /\
    Stepn c c' K [] /\ CIn [] c' /\ c_after_text c' = [] /\ d_ns_tree (c_doc c') = d_ns_tree (c_doc c) /\
    Forall2 (kmn (c_doc c')) K (NT.tag_list [] (c_parent_id c) (len_N (d_nodes (c_doc c))) (dens (map snd l))).
Proof.
  induction l as [|[w i] l IH]; intros p wl rest c fuel HW Hwf Hwl (Hs1 & Hs2 & Hs3) Hf I Hat NR.
  - cbn [r_pairs flat_map app map CstFullTree.dens NT.tag_list] in *. change (blen []) with 0. rewrite N.add_0_r.
    destruct fuel as [|fu]; [cbn in Hf; lia|]. cbn [parse_misc_loop].
    exists c, []. split; [|split; [apply Stepn_refl|split; [exact I|split; [exact Hat|split; [reflexivity|constructor]]]]].
    pose proof (WV_W _ _ _ HW) as HW0. rewrite at_end_st by exact HW0.
    destruct (wl ++ rest) as [|x0 l0] eqn:E0.
    + apply app_eq_nil in E0. destruct E0 as [-> ->]. change (blen []) with 0. rewrite N.add_0_r. reflexivity.
    + rewrite <- E0 in *. clear E0 x0 l0. cbv zeta.
      rewrite skip_spaces_st; [|exact HW0|apply s_spaces; exact Hwl|exact Hs1].
      pose proof (W_app _ _ _ _ HW0) as HW1.
      rewrite !starts_with_st by exact HW1.
      change (b "<!--") with [60; 33; 45; 45]. change (b "<?") with [60; 63]. rewrite Hs2, Hs3. reflexivity.
  - cbn [wf_pairs_s forallb fst snd] in Hwf. rewrite !andb_true_iff in Hwf. destruct Hwf as [[[H1 H2] H3] H4].
    cbn [r_pairs flat_map fst snd map CstFullTree.dens] in HW, NR |- *. fold (@r_pairs Sy l) in HW |- *.
    rewrite <- !app_assoc in HW |- *.
    rewrite nsizes_app in NR.
    cbn [length] in Hf. destruct fuel as [|fu]; [lia|]. cbn [parse_misc_loop].
    pose proof (WV_W _ _ _ HW) as HW0. rewrite at_end_st by exact HW0.
    destruct (misc_starts Sy i H2) as [l0 El0].
    replace (match w ++ r_item i ++ r_pairs l ++ wl ++ rest with [] => true | _ :: _ => false end) with false
      by (rewrite El0; destruct w; reflexivity).
    cbv zeta.
    rewrite skip_spaces_st; [|exact HW0|apply s_spaces; exact H1|rewrite El0; reflexivity].
    pose proof (WV_lit _ _ _ _ HW (s_lit _ H1)) as HW1. pose proof (WV_W _ _ _ HW1) as HW1'.
    pose proof (fitem_valid i H3) as Hvi.
    pose proof (WV_app _ _ _ _ HW1 Hvi) as HW2.
    destruct i as [? ? ? ?|?|bs|t s v]; try discriminate.
    + (* comment *)
      assert (R : room c).
      { apply (node_room_room _ _ NR). cbn [den]. rewrite nsizes_one. pose proof (NT.nsize_pos (CstNs.IComment (utf8s bs))). lia. }
      rewrite starts_with_st by exact HW1'. change (b "<!--") with [60; 33; 45; 45].
      replace (prefix_b [60; 33; 45; 45] (r_item (@IComment Sy bs) ++ r_pairs l ++ wl ++ rest)) with true
        by (cbn [r_item Cst.r_item]; rewrite <- !app_assoc; rewrite prefix_b_app_same; reflexivity).
      destruct (evf_comment [] bs (p + blen w) (r_pairs l ++ wl ++ rest) c H3 HW1 I R)
        as (c1 & K1 & E1 & S1 & I1 & A1 & _ & F1 & Tr1).
      rewrite E1. cbn [bind].
      pose proof (Stepn_nodes_len _ _ _ _ S1) as Ln1.
      rewrite (Forall2_len_N _ _ _ F1) in Ln1. unfold len_N at 3 in Ln1. rewrite NT.tag_list_len in Ln1.
      pose proof (Stepn_opt _ _ _ _ (proj1 S1)) as Lo1.
      destruct (IH _ wl rest c1 fu HW2 H4 Hwl (conj Hs1 (conj Hs2 Hs3)) ltac:(clia) I1 A1)
        as (c2 & K2 & E2 & S2 & I2 & A2 & Tr2 & F2).
      { unfold CstNsItems.node_room in *. rewrite Ln1, Lo1. clia. }
      rewrite E2. exists c2, (K1 ++ K2). split.
      { f_equal. f_equal. f_equal. rewrite !blen_app. clia. }
      split; [apply (Stepn_trans _ _ _ _ _ _ _ S1 S2)|]. split; [exact I2|]. split; [exact A2|].
      split; [rewrite Tr2, Tr1; reflexivity|].
      rewrite CstNsDoc.tag_list_app. apply Forall2_app.
      * apply (kmn_Forall2_ext (c_doc c1)); [apply (Step0n_DocExt _ _ _ _ (proj1 S2))|exact F1].
      * destruct S1 as (_ & P1 & _). rewrite P1, Ln1 in F2. exact F2.
    + (* processing instruction *)
      assert (R : room c).
      { apply (node_room_room _ _ NR). cbn [den]. rewrite nsizes_one. pose proof (NT.nsize_pos (CstNs.IPI (utf8s t) s (utf8s v))). lia. }
      rewrite !starts_with_st by exact HW1'. change (b "<!--") with [60; 33; 45; 45]. change (b "<?") with [60; 63].
      replace (prefix_b [60; 33; 45; 45] (r_item (@IPI Sy t s v) ++ r_pairs l ++ wl ++ rest)) with false
        by reflexivity.
      replace (prefix_b [60; 63] (r_item (@IPI Sy t s v) ++ r_pairs l ++ wl ++ rest)) with true
        by reflexivity.
      destruct (evf_pi [] t s v (p + blen w) (r_pairs l ++ wl ++ rest) c H3 HW1 I R)
        as (c1 & K1 & E1 & S1 & I1 & A1 & _ & F1 & Tr1).
      rewrite E1. cbn [bind].
      pose proof (Stepn_nodes_len _ _ _ _ S1) as Ln1.
      rewrite (Forall2_len_N _ _ _ F1) in Ln1. unfold len_N at 3 in Ln1. rewrite NT.tag_list_len in Ln1.
      pose proof (Stepn_opt _ _ _ _ (proj1 S1)) as Lo1.
      destruct (IH _ wl rest c1 fu HW2 H4 Hwl (conj Hs1 (conj Hs2 Hs3)) ltac:(clia) I1 A1)
        as (c2 & K2 & E2 & S2 & I2 & A2 & Tr2 & F2).
      { unfold CstNsItems.node_room in *. rewrite Ln1, Lo1. clia. }
      rewrite E2. exists c2, (K1 ++ K2). split.
      { f_equal. f_equal. f_equal. rewrite !blen_app. clia. }
      split; [apply (Stepn_trans _ _ _ _ _ _ _ S1 S2)|]. split; [exact I2|]. split; [exact A2|].
      split; [rewrite Tr2, Tr1; reflexivity|].
      rewrite CstNsDoc.tag_list_app. apply Forall2_app.
      * apply (kmn_Forall2_ext (c_doc c1)); [apply (Step0n_DocExt _ _ _ _ (proj1 S2))|exact F1].
      * destruct S1 as (_ & P1 & _). rewrite P1, Ln1 in F2. exact F2.
Qed.

End DocB.

Print Assumptions misc_loop_ok_s.
