(* Proofs/HashProofs.v -- property C17, the Hash clause.
   lib.rs, impl Hash for Node: the hasher is fed, in this order, the node id, the address of the Document and the
   address of the node's NodeData.  PartialEq for Node compares exactly these three.  In the model a node is the key
   (document address, id) (Api.node_key); the NodeData of node id lives in the document's node vector, i.e. at
   base + id * size for a base and an element size that are functions of the document value (the vector does not move
   while nodes borrow the document).  So the hashed words are a function of the key, and they determine the key:
   equal nodes feed the hasher identical words (they "hash equally" under every Hasher), and nodes that feed identical
   words are equal.  What the Hasher does with the words is outside the model (std's SipHash). *)
From Coq Require Import List NArith Lia ZifyBool ZifyN.
Import ListNotations.
From RX Require Import Generated.
From RX.Model Require Import Base Doc Api.
From RX.Proofs Require Import Tactics OrderProofs.
Local Open Scope N_scope.

Section Layout.
  (* where a document's node vector lives, and the size of one NodeData: any functions of the document address *)
  Variable nodes_base : N -> N.
  Variable node_size : N.
  Hypothesis node_size_pos : 0 < node_size.

  Definition data_addr (k : node_key) : N := nodes_base (fst k) + snd k * node_size.
  (* the words impl Hash writes, in source order: self.id.0, self.doc as *const _, self.d as *const _ *)
  Definition hash_words (k : node_key) : list N := [snd k; fst k; data_addr k].

  Theorem equal_nodes_hash_equally : forall x y, node_eqb x y = true -> hash_words x = hash_words y.
  Proof. intros x y H. apply node_eqb_iff in H. subst. reflexivity. Qed.

  Theorem hash_words_determine_node : forall x y, hash_words x = hash_words y -> node_eqb x y = true.
  Proof.
    intros [a i] [c j] H. unfold hash_words in H. cbn [fst snd] in H. inversion H. subst.
    apply node_eqb_iff. reflexivity.
  Qed.

  (* within one document the data address alone identifies the node (distinct nodes, distinct NodeData) *)
  Theorem data_addr_injective_in_document : forall d i j, data_addr (d, i) = data_addr (d, j) -> i = j.
  Proof. intros d i j. unfold data_addr. cbn [fst snd]. nia. Qed.
End Layout.

Print Assumptions equal_nodes_hash_equally.
Print Assumptions hash_words_determine_node.
Print Assumptions data_addr_injective_in_document.

(* non-vacuity: two nodes of one document, and the same id in two documents *)
Example hash_instance :
  hash_words (fun a => a + 64) 40 (4096, 3) = [3; 4096; 4280] /\
  hash_words (fun a => a + 64) 40 (4096, 3) <> hash_words (fun a => a + 64) 40 (4096, 4) /\
  hash_words (fun a => a + 64) 40 (4096, 3) <> hash_words (fun a => a + 64) 40 (8192, 3).
Proof. repeat split; vm_compute; congruence. Qed.
